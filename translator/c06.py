#!/usr/bin/env python3
"""C06 translator: serde field names of the signature format, re-read from /repo on every run.

Sources (regex over the Rust text):
  sketch/minhash.rs   `impl Serialize for KmerMinHash / KmerMinHashBTree`: the `serialize_field("…")` names in
                      order (+ whether the call sits inside the `if let Some(abunds)` block); both `TempSig`
                      structs (names, types); the `match tmpsig.molecule.to_lowercase()` arms
  sketch/mod.rs       the `Sketch` enum: `#[serde(untagged)]`, variant order and payload types
  signature.rs        `struct Signature`: names after `#[serde(rename = …)]`, `skip_serializing_if`, `default`,
                      and the literal each `default_*()` function returns
  sketch/hyperloglog  `struct HyperLogLog` (serde derive: field names and types)
  encodings.rs        `Display for HashFunctions` (the string written into "molecule")
Behavioural cross-check: `harness c06 dump` serialises a sample signature with serde_json and prints the
key order actually produced, the molecule strings and the defaults actually applied on load; any
disagreement with the regex reading is an error (exit 1).

Output: lean/Sourmash/Generated/C06.lean (rewritten only when the content changes).
"""
import os, re, struct, subprocess, sys

ROOT = os.path.dirname(os.path.dirname(os.path.abspath(__file__)))
SRC = "/repo/src/core/src"
OUT = os.path.join(ROOT, "lean", "Sourmash", "Generated", "C06.lean")
BIN = os.path.join(ROOT, ".cache", "target", "debug", "c06")


def die(msg):
    print("translator/c06.py: " + msg, file=sys.stderr)
    sys.exit(1)


def read(rel):
    try:
        return open(os.path.join(SRC, rel)).read()
    except OSError as e:
        die(f"cannot read {rel}: {e}")


def block_after(src, header_re, what):
    """text of the brace block that follows the first match of header_re (which must end before the `{`)"""
    m = re.search(header_re, src)
    if not m:
        die(f"{what}: not found")
    i = src.index("{", m.end() - 1)
    depth, j = 0, i
    while j < len(src):
        if src[j] == "{":
            depth += 1
        elif src[j] == "}":
            depth -= 1
            if depth == 0:
                return src[i + 1:j]
        j += 1
    die(f"{what}: unbalanced braces")


def strip_comments(s):
    return re.sub(r"//[^\n]*", "", s)


def ser_fields(src, ty):
    body = strip_comments(block_after(src, r"impl\s+Serialize\s+for\s+%s\s*\{" % ty, f"impl Serialize for {ty}"))
    out, depth0 = [], None
    # depth of the first serialize_field call = unconditional level
    depth = 0
    pos = 0
    for m in re.finditer(r"[{}]|serialize_field\(\s*\"([^\"]+)\"", body):
        t = m.group(0)
        if t == "{":
            depth += 1
        elif t == "}":
            depth -= 1
        else:
            if depth0 is None:
                depth0 = depth
            out.append((m.group(1), depth > depth0))
    if not out:
        die(f"impl Serialize for {ty}: no serialize_field calls")
    m = re.search(r"serialize_struct\(\s*\"([^\"]+)\"", body)
    if not m or m.group(1) != ty:
        die(f"impl Serialize for {ty}: serialize_struct name")
    return out


TYMAP = {"u32": "u32", "u64": "u64", "usize": "usize", "f64": "f64", "String": "string",
         "Option<String>": "optString", "Vec<u64>": "vecU64", "Option<Vec<u64>>": "optVecU64",
         "Vec<CounterType>": "vecU8", "Vec<u8>": "vecU8", "Vec<Sketch>": "vecSketch"}


def struct_fields(body, what):
    """[(attrs, name, type)] of a struct body"""
    body = strip_comments(body)
    out, attrs = [], []
    # split on top-level commas is unnecessary: one field per line in these structs; be tolerant anyway
    for m in re.finditer(r"#\[(?P<attr>(?:[^\[\]]|\[[^\]]*\])*)\]|(?:pub(?:\([^)]*\))?\s+)?(?P<name>[A-Za-z_]\w*)\s*:\s*(?P<ty>[^,\n]+?)\s*(?:,|$)", body, re.M):
        if m.group("attr") is not None:
            attrs.append(m.group("attr"))
        else:
            ty = re.sub(r"\s+", "", m.group("ty"))
            if ty not in TYMAP:
                die(f"{what}: field {m.group('name')} has a type this translator does not know: {ty}")
            out.append((attrs, m.group("name"), TYMAP[ty]))
            attrs = []
    if not out:
        die(f"{what}: no fields")
    return out


def temp_sig(src, ty):
    de = block_after(src, r"impl<'de>\s+Deserialize<'de>\s+for\s+%s\s*\{" % ty, f"impl Deserialize for {ty}")
    m = re.search(r"#\[derive\(([^)]*)\)\]\s*struct\s+TempSig\s*\{", de)
    if not m or "Deserialize" not in m.group(1):
        die(f"{ty}: `#[derive(Deserialize)] struct TempSig` not found")
    body = block_after(de, r"struct\s+TempSig\s*\{", f"{ty}::TempSig")
    fields = struct_fields(body, f"{ty}::TempSig")
    for a, n, _ in fields:
        if a:
            die(f"{ty}::TempSig.{n}: unexpected attribute {a}")
    arms_src = block_after(de, r"match\s+tmpsig\.molecule\.to_lowercase\(\)\.as_ref\(\)\s*\{", f"{ty}: molecule match")
    arms = re.findall(r"\"([^\"]*)\"\s*=>\s*HashFunctions::(\w+)", arms_src)
    if not re.search(r"_\s*=>\s*unimplemented!\(\)", arms_src):
        die(f"{ty}: the fall-through arm of the molecule match is no longer `unimplemented!()`")
    if not re.search(r"if\s+tmpsig\.max_hash\s*!=\s*0\s*\{\s*0\s*\}\s*else\s*\{\s*tmpsig\.num\s*\}", de):
        die(f"{ty}: `num` is no longer zeroed when max_hash != 0")
    return [(n, t) for _, n, t in fields], arms


def serde_args(attrs):
    """merged key -> value (True for bare words) of all #[serde(...)] attributes"""
    out = {}
    for a in attrs:
        m = re.match(r"\s*serde\s*\((.*)\)\s*$", a, re.S)
        if not m:
            continue
        for part in re.finditer(r"(\w+)\s*(?:=\s*\"([^\"]*)\")?", m.group(1)):
            out[part.group(1)] = part.group(2) if part.group(2) is not None else True
    return out


def signature_struct(src):
    m = re.search(r"#\[derive\(([^)]*)\)\](?:\s*#\[[^\]]*\])*\s*pub\s+struct\s+Signature\s*\{", src, re.S)
    if not m or "Serialize" not in m.group(1) or "Deserialize" not in m.group(1):
        die("signature.rs: `#[derive(Serialize, Deserialize, …)] pub struct Signature` not found")
    head = src[m.start():m.end()]
    if re.search(r"serde\s*\(", head):
        die("signature.rs: container-level #[serde(...)] attribute on Signature — not understood")
    body = block_after(src, r"pub\s+struct\s+Signature\s*\{", "struct Signature")
    out = []
    for attrs, name, ty in struct_fields(body, "struct Signature"):
        a = serde_args(attrs)
        unknown = set(a) - {"default", "rename", "skip_serializing_if"}
        if unknown:
            die(f"Signature.{name}: serde attribute(s) {sorted(unknown)} not understood")
        ser = a.get("rename", name)
        skip = a.get("skip_serializing_if")
        if skip not in (None, "Option::is_none"):
            die(f"Signature.{name}: skip_serializing_if = {skip!r} not understood")
        d = a.get("default")
        if d is None:
            dflt = ("none",) if ty.startswith("opt") else ("required",)
        elif d is True:
            if ty != "string":
                die(f"Signature.{name}: #[serde(default)] on type {ty}")
            dflt = ("str", "")
        else:
            fb = block_after(src, r"fn\s+%s\s*\(\s*\)\s*->\s*\w+\s*\{" % re.escape(d), f"fn {d}")
            ms = re.fullmatch(r"\s*\"([^\"\\]*)\"\.to_string\(\)\s*", fb)
            mf = re.fullmatch(r"\s*([0-9]+\.[0-9]+)\s*", fb)
            if ms and ty == "string":
                dflt = ("str", ms.group(1))
            elif mf and ty == "f64":
                dflt = ("f64", float(mf.group(1)))
            else:
                die(f"fn {d}: body {fb.strip()!r} is not a literal of type {ty}")
        out.append({"name": ser, "ty": ty, "skip": skip is not None, "dflt": dflt})
    return out


def sketch_enum(src):
    m = re.search(r"((?:#\[[^\]]*\]\s*)+)(?:#\[cfg_attr\((?:[^()]|\([^()]*\))*\)\]\s*)*pub\s+enum\s+Sketch\s*\{", src, re.S)
    if not m:
        die("sketch/mod.rs: enum Sketch not found")
    head = src[:src.index("pub enum Sketch")]
    head = head[head.rindex("#[derive"):]
    untagged = bool(re.search(r"#\[serde\(\s*untagged\s*\)\]", head))
    body = block_after(src, r"pub\s+enum\s+Sketch\s*\{", "enum Sketch")
    vs = re.findall(r"(\w+)\s*\(\s*(\w+)\s*\)", strip_comments(body))
    if not vs:
        die("enum Sketch: no variants")
    return untagged, vs


def hll_struct(src):
    m = re.search(r"#\[derive\(([^)]*)\)\](?:\s*#\[cfg_attr\((?:[^()]|\([^()]*\))*\)\])*\s*pub\s+struct\s+HyperLogLog\s*\{", src, re.S)
    if not m or "Serialize" not in m.group(1) or "Deserialize" not in m.group(1):
        die("hyperloglog: serde derive on HyperLogLog not found")
    if not re.search(r"type\s+CounterType\s*=\s*u8\s*;", read("sketch/hyperloglog/estimators.rs")):
        die("hyperloglog: CounterType is no longer u8")
    f = struct_fields(block_after(src, r"pub\s+struct\s+HyperLogLog\s*\{", "struct HyperLogLog"), "struct HyperLogLog")
    for a, n, _ in f:
        if any("serde" in x for x in a):
            die(f"HyperLogLog.{n}: serde attribute not understood")
    return [(n, t) for _, n, t in f]


def display_arms(src):
    body = block_after(src, r"impl\s+std::fmt::Display\s+for\s+HashFunctions\s*\{", "Display for HashFunctions")
    arms = re.findall(r"HashFunctions::(\w+)\s*=>\s*\"([^\"]*)\"", body)
    if not arms:
        die("Display for HashFunctions: no arms")
    return arms


# ----------------------------------------------------------------------------- behavioural dump

def dump():
    if not os.path.exists(BIN):
        die(f"{BIN} missing (the harness is built before the translator runs)")
    p = subprocess.run([BIN, "dump"], capture_output=True, timeout=120)
    if p.returncode != 0:
        die("harness c06 dump failed: " + p.stderr.decode(errors="replace")[-500:])
    d = {}
    for line in p.stdout.decode().splitlines():
        k, _, v = line.partition(" ")
        if k in ("molecule", "default", "required"):
            a, _, b = v.partition(" ")
            d.setdefault(k, {})[a] = b
        else:
            d[k] = v.split()
    return d


def unhex(s):
    return "" if s == "-" else bytes.fromhex(s).decode()


# ----------------------------------------------------------------------------- Lean emission

def codes(s):
    return "[" + ", ".join(str(ord(c)) for c in s) + "]"


def lean_str(s):
    return '"' + s.replace("\\", "\\\\").replace('"', '\\"') + '"'


def main():
    mh = read("sketch/minhash.rs")
    kmh_ser = ser_fields(mh, "KmerMinHash")
    bt_ser = ser_fields(mh, "KmerMinHashBTree")
    kmh_tmp, kmh_arms = temp_sig(mh, "KmerMinHash")
    bt_tmp, bt_arms = temp_sig(mh, "KmerMinHashBTree")
    sig = signature_struct(read("signature.rs"))
    untagged, variants = sketch_enum(read("sketch/mod.rs"))
    hll = hll_struct(read("sketch/hyperloglog/mod.rs"))
    disp = display_arms(read("encodings.rs"))
    if not untagged:
        die("enum Sketch is no longer #[serde(untagged)]")

    # ---- behavioural cross-check
    d = dump()
    def expect(what, got, want):
        if got != want:
            die(f"serde_json emits {what} = {got}, the sources say {want}")
    expect("KmerMinHash keys (with abundances)", d["kmh_abund"], [n for n, _ in kmh_ser])
    expect("KmerMinHash keys (no abundances)", d["kmh"], [n for n, c in kmh_ser if not c])
    expect("KmerMinHashBTree keys", d["btree_abund"], [n for n, _ in bt_ser])
    expect("HyperLogLog keys", d["hll"], [n for n, _ in hll])
    expect("Signature keys", d["signature"], [f["name"] for f in sig])
    expect("Signature keys (name = None)", d["signature_noname"], [f["name"] for f in sig if not (f["skip"] and f["name"] == "name")])
    expect("top level is an array", d["top_is_array"], ["true"])
    for var, s in disp:
        if d["molecule"].get(var) != s:
            die(f"Display of HashFunctions::{var}: harness says {d['molecule'].get(var)!r}, source says {s!r}")
    for f in sig:
        k = f["dflt"][0]
        if k == "str":
            if unhex(d["default"][f["name"]]) != f["dflt"][1]:
                die(f"default of Signature.{f['name']}: behaviour {d['default'][f['name']]!r} vs source {f['dflt'][1]!r}")
        elif k == "f64":
            bits = "%016x" % struct.unpack(">Q", struct.pack(">d", f["dflt"][1]))[0]
            if d["default"][f["name"]] != bits:
                die(f"default of Signature.{f['name']}: behaviour {d['default'][f['name']]} vs source {bits}")
        elif k == "none":
            if d["default"][f["name"]] != "~":
                die(f"Signature.{f['name']} absent does not load as None")
        elif k == "required":
            if f["name"] in d["required"] and d["required"][f["name"]] != "true":
                die(f"Signature.{f['name']} is not required on load")

    # ---- emit
    tys = ["u32", "u64", "usize", "f64", "string", "optString", "vecU64", "optVecU64", "vecU8", "vecSketch"]
    L = []
    L.append("/-! GENERATED by translator/c06.py from /repo/src/core/src/{sketch/minhash.rs, sketch/mod.rs, signature.rs,")
    L.append("sketch/hyperloglog/mod.rs, encodings.rs} and cross-checked against `harness c06 dump` — do not edit.")
    L.append("Strings are lists of Unicode code points (`List Nat`) so that `decide`/`simp` work on them; the")
    L.append("`…S` lists repeat the names as `String`s for the driver. -/")
    L.append("namespace Sourmash.Generated.C06")
    L.append("")
    L.append("/-- Rust field types that occur in the serde structs -/")
    L.append("inductive Ty where")
    L.append("  | " + " | ".join(tys))
    L.append("  deriving DecidableEq, Repr, Inhabited")
    L.append("")
    L.append("/-- what a missing key means on load -/")
    L.append("inductive Dflt where")
    L.append("  | required                 -- no `#[serde(default)]`, not an `Option`")
    L.append("  | none                     -- `Option<_>`: absent = `None`")
    L.append("  | str (s : List Nat)       -- `#[serde(default)]` / `default = \"fn\"` returning this string")
    L.append("  | f64 (bits : Nat)         -- `default = \"fn\"` returning this binary64")
    L.append("  deriving DecidableEq, Repr, Inhabited")
    L.append("")
    L.append("structure SigField where")
    L.append("  name : List Nat            -- serialised name (after `rename`)")
    L.append("  ty : Ty")
    L.append("  skipIfNone : Bool          -- `skip_serializing_if = \"Option::is_none\"`")
    L.append("  dflt : Dflt")
    L.append("  deriving DecidableEq, Repr, Inhabited")
    L.append("")

    def ser(name, rows, doc):
        L.append(f"/-- {doc} -/")
        L.append(f"def {name} : List (List Nat × Bool) :=")
        L.append("  [" + ",\n   ".join(f"({codes(n)}, {'true' if c else 'false'})  /- {n} -/" for n, c in rows) + "]")
        L.append(f"def {name}S : List String := [" + ", ".join(lean_str(n) for n, _ in rows) + "]")
        L.append("")

    def typed(name, rows, doc):
        L.append(f"/-- {doc} -/")
        L.append(f"def {name} : List (List Nat × Ty) :=")
        L.append("  [" + ",\n   ".join(f"({codes(n)}, .{t})  /- {n} -/" for n, t in rows) + "]")
        L.append(f"def {name}S : List String := [" + ", ".join(lean_str(n) for n, _ in rows) + "]")
        L.append("")

    def arms(name, rows, doc):
        L.append(f"/-- {doc} -/")
        L.append(f"def {name} : List (List Nat × List Nat) :=")
        L.append("  [" + ",\n   ".join(f"({codes(a)}, {codes(b)})  /- {a} => {b} -/" for a, b in rows) + "]")
        L.append("")

    ser("kmhSer", kmh_ser, "`serialize_field` names of `impl Serialize for KmerMinHash`, in order; `true` = inside `if let Some(abunds)`")
    ser("btreeSer", bt_ser, "the same for `KmerMinHashBTree`")
    typed("kmhTemp", kmh_tmp, "`struct TempSig` inside `impl Deserialize for KmerMinHash`")
    typed("btreeTemp", bt_tmp, "`struct TempSig` inside `impl Deserialize for KmerMinHashBTree`")
    arms("kmhMolArms", kmh_arms, "arms of `match tmpsig.molecule.to_lowercase()` (KmerMinHash); the fall-through arm is `unimplemented!()`")
    arms("btreeMolArms", bt_arms, "the same for KmerMinHashBTree")
    arms("displayArms", disp, "`Display for HashFunctions`: variant => the string written as \"molecule\"")
    typed("hllFields", hll, "`struct HyperLogLog` (serde derive)")
    arms("sketchVariants", variants, "`enum Sketch` — `#[serde(untagged)]`: variants are tried in this order on load (variant, payload type)")
    L.append("/-- `struct Signature` (serde derive) in declaration = serialisation order -/")
    L.append("def sigFields : List SigField :=")
    rows = []
    for f in sig:
        k = f["dflt"]
        if k[0] == "str":
            dv = f".str {codes(k[1])}"
        elif k[0] == "f64":
            dv = ".f64 0x%016x" % struct.unpack(">Q", struct.pack(">d", k[1]))[0]
        else:
            dv = "." + k[0]
        rows.append(f"{{ name := {codes(f['name'])}, ty := .{f['ty']}, skipIfNone := {'true' if f['skip'] else 'false'}, dflt := {dv} }}  /- {f['name']}"
                    + (f" default {k[1]!r}" if len(k) > 1 else "") + " -/")
    L.append("  [" + ",\n   ".join(rows) + "]")
    L.append("def sigFieldsS : List String := [" + ", ".join(lean_str(f["name"]) for f in sig) + "]")
    L.append("")
    L.append("end Sourmash.Generated.C06")
    text = "\n".join(L) + "\n"
    os.makedirs(os.path.dirname(OUT), exist_ok=True)
    old = open(OUT).read() if os.path.exists(OUT) else None
    if old != text:
        with open(OUT + ".tmp", "w") as f:
            f.write(text)
        os.replace(OUT + ".tmp", OUT)
        print("translator/c06.py: wrote " + os.path.relpath(OUT, ROOT))
    return 0


if __name__ == "__main__":
    sys.exit(main())
