#!/usr/bin/env python3
"""C06 translator: the serde layout of the signature format, re-derived from /repo on every run.

Behavioural route (authoritative): `harness c06 dump` probes the BUILT crate — serde_json through the
public types KmerMinHash, KmerMinHashBTree, HyperLogLog, Sketch, Signature (Signature::from_reader) — on
the whole finite domain of every item the tables carry:
  written keys       names and order serde_json emits for each struct (sketches with abundances Some / Some(empty)
                     / None, signatures with every Option set / name None / filename None / every string empty)
                     -> the `…Ser` tables, the conditional flag of a key (left out exactly when the Option is None),
                     `skipIfNone`, the order of `hllFields` and `sigFields`
  loadable keys      every written key against the boundary values 0, 255, 256, 65535, 65536, 2^32-1, 2^32, 2^53,
                     2^64-1, 2^64, -1, 1.5, "1", "DNA", null, true, {}, [], [0], [255], [256], [2^64-1], [2^64], [-1],
                     [1.5], ["1"], [null], [{}], [a MinHash object], [a HyperLogLog object] and against its absence
                     -> the type class of the key (the set of accepted values must be exactly that of u32 / u64 / f64 /
                     string / optString / vecU64 / optVecU64 / vecU8 / vecSketch; anything else cannot be expressed
                     by the Lean tables = exit 1) and required / None / default(+ the value, observed through the
                     accessors after loading an object that holds only the required keys)
  positional form    derive(Deserialize) structs also load from a JSON array: which key each position feeds
                     -> the order of the `…Temp` tables (the declaration order of the wire struct)
  molecule strings   what is written for every HashFunctions variant; which variant (or panic / error) loads for every
                     written word in upper / lower / mixed case, the published words and a list of unknown words
                     -> `displayArms`, the `…MolArms` tables (one row per lower-cased accepted word), and the check
                     that every word no row matches panics (`unimplemented!()`)
  num of a scaled sketch   num = 5 loaded with max_hash = 0 / 1 / u64::MAX must come back as 5 / 0 / 0 (both types)
  Sketch enum        written without a tag (Sketch::V(x) is written as x is); an object only HyperLogLog accepts, one the
                     two MinHash types accept, one all three accept -> the order in which the variants are tried
  top level          a saved document is a JSON array
A dump that fails, is incomplete, contradicts itself or shows a class the tables cannot express is exit 1.

Two things no load can tell apart are listed by a fixed rule: u64 and usize accept the same values on the
64-bit target (the class is spelled `usize` in `hllFields`, `u64` elsewhere); every object the tree-backed type
accepts the vector-backed type accepts first, so only "MinHash is tried first" is observable — LargeMinHash and
HyperLogLog follow in the order the harness lists the variants.  The rows of the `…MolArms` tables are disjoint
literals; they are listed in the fixed order protein, dayhoff, hp, dna (then any other word, sorted).

Textual route (advisory cross-check): regexes over sketch/minhash.rs (`impl Serialize`: `serialize_field`
names; `struct TempSig`; the molecule match; the `num` line), sketch/mod.rs (`enum Sketch`), signature.rs
(`struct Signature` and its serde attributes, the `default_*()` literals), sketch/hyperloglog (`struct
HyperLogLog`), encodings.rs (`Display for HashFunctions`).  When a pattern is no longer found (code moved,
restructured, spelled differently) or the reading disagrees with the behaviour, a `note:` line is printed on
stdout and the tables come from the behavioural dump alone; it is never an error.

Output: lean/Sourmash/Generated/C06.lean (rewritten only when the content changes).
"""
import os, re, struct, subprocess, sys

ROOT = os.path.dirname(os.path.dirname(os.path.abspath(__file__)))
# VERIF_REPO / VERIF_TARGET: only set by tools/mutest.py (seeded changes in a scratch worktree)
SRC = os.path.join(os.environ.get("VERIF_REPO", "/repo"), "src/core/src")
OUT = os.path.join(ROOT, "lean", "Sourmash", "Generated", "C06.lean")
BIN = os.path.join(os.environ.get("VERIF_TARGET", os.path.join(ROOT, ".cache", "target")), "debug", "c06")


def die(msg):
    print("translator/c06.py: " + msg, file=sys.stderr)
    sys.exit(1)


# ----------------------------------------------------------------------------- behavioural route

_U32 = {"0", "255", "256", "65535", "65536", "u32max"}
_U64 = _U32 | {"2p32", "2p53", "u64max"}
_F64 = _U64 | {"2p64", "neg", "frac"}
_STR = {"str", "word"}
_VU8 = {"arr", "arr_0", "arr_255"}
_VU64 = _VU8 | {"arr_256", "arr_u64max"}
_VSK = {"arr", "arr_mh", "arr_hll"}
# type class = exactly this set of probe labels loads (everything else is refused)
CLASSES = [("u32", _U32), ("u64", _U64), ("f64", _F64), ("string", _STR), ("optString", _STR | {"null"}),
           ("vecU64", _VU64), ("optVecU64", _VU64 | {"null"}), ("vecU8", _VU8), ("vecSketch", _VSK)]
LABELS = _F64 | _STR | _VU64 | _VSK | {"null", "true", "obj", "arr_2p64", "arr_neg", "arr_frac", "arr_str", "arr_null", "arr_obj"}
# the order in which disjoint literal arms are listed (not observable)
ARM_ORDER = ["protein", "dayhoff", "hp", "dna"]
# the order of the wire struct's fields when the positional form is not accepted at all (then not observable)
READ_ORDER = ["num", "ksize", "seed", "max_hash", "md5sum", "mins", "abundances", "molecule"]


def unhex(s):
    return "" if s == "-" else bytes.fromhex(s).decode()


def ascii_lower(s):
    return "".join(chr(ord(c) + 32) if "A" <= c <= "Z" else c for c in s)


def dump():
    if not os.path.exists(BIN):
        die(f"{BIN} missing (the harness is built before the translator runs)")
    p = subprocess.run([BIN, "dump"], capture_output=True, timeout=120)
    if p.returncode != 0:
        die("harness c06 dump failed: " + p.stderr.decode(errors="replace")[-500:])
    d = {"probe": {}, "absent": {}, "molload": {}, "written_molecule": {}, "molecule": [], "default": {}, "required": {},
         "positional": {}, "numzero": {}, "sketch_variant": [], "sketch_untagged": {}, "sketch_load": {}, "keys": {}}
    for line in p.stdout.decode().split("\n"):
        w = line.split(" ")
        k = w[0]
        if not line:
            continue
        if k == "unloadable":
            die(f"dump: the sample {w[1]} object the crate itself wrote does not load back")
        if k == "probe" and len(w) == 5:
            d["probe"].setdefault((w[1], w[2]), {})[w[3]] = w[4]
        elif k == "absent" and len(w) == 5:
            d["absent"][(w[1], w[2])] = (w[3], w[4])
        elif k == "molload" and len(w) >= 4:
            d["molload"].setdefault(w[1], []).append((unhex(w[2]), " ".join(w[3:])))
        elif k == "written_molecule" and len(w) == 4:
            d["written_molecule"].setdefault(w[1], []).append((w[2], unhex(w[3])))
        elif k == "molecule" and len(w) == 3:
            d["molecule"].append((w[1], w[2]))
        elif k in ("default", "required", "sketch_untagged", "sketch_load") and len(w) == 3:
            d[k][w[1]] = w[2]
        elif k == "sketch_variant" and len(w) == 3:
            d[k].append((w[1], w[2]))
        elif k in ("positional", "numzero") and len(w) >= 3:
            d[k][w[1]] = w[2:]
        elif k == "top_is_array" and len(w) == 2:
            d[k] = w[1]
        elif k in ("kmh_abund", "kmh_abund_empty", "kmh", "btree_abund", "btree_abund_empty", "btree", "hll",
                   "signature_full", "signature_noname", "signature_nofilename", "signature_emptystr"):
            d["keys"][k] = w[1:]
        else:
            die(f"dump: line not understood: {line!r}")
    for k in ("kmh_abund", "kmh_abund_empty", "kmh", "btree_abund", "btree_abund_empty", "btree", "hll",
              "signature_full", "signature_noname", "signature_nofilename", "signature_emptystr"):
        if not d["keys"].get(k):
            die(f"dump: item {k} missing")
    for k in ("top_is_array",):
        if k not in d:
            die(f"dump: item {k} missing")
    return d


def type_class(d, ty, key):
    """the type class of `key` of struct `ty`, from the set of probe values that load"""
    pr = d["probe"].get((ty, key))
    if pr is None or set(pr) != LABELS:
        die(f"dump: probes of {ty}.{key} missing or incomplete")
    bad = {v for v in pr.values()} - {"ok", "err", "panic"}
    if bad:
        die(f"dump: probes of {ty}.{key}: outcome {sorted(bad)}")
    # a panic happens after the value was taken (molecule: the word is looked up afterwards)
    acc = {l for l, v in pr.items() if v != "err"}
    for name, want in CLASSES:
        if acc == want:
            return name
    if acc == LABELS and d["absent"].get((ty, key), ("", ""))[0] == "ok":
        return None  # written but not read at all
    die(f"{ty}.{key} loads exactly the probe values {sorted(acc)}: not one of the type classes the Lean tables know "
        f"({', '.join(n for n, _ in CLASSES)})")


def absent_class(d, ty, key, cls):
    """'required' | 'none' | 'default' for a key that is left out"""
    a = d["absent"].get((ty, key))
    if a is None:
        die(f"dump: absent probe of {ty}.{key} missing")
    if a[0] == "err":
        if cls.startswith("opt"):
            die(f"{ty}.{key} accepts null but must be present: not a class the Lean tables know")
        return "required"
    if a[0] != "ok":
        die(f"{ty}.{key} left out: {a[0]}")
    return "none" if cls.startswith("opt") else "default"


def ser_table(d, ty):
    full, empty, plain = d["keys"][ty + "_abund"], d["keys"][ty + "_abund_empty"], d["keys"][ty]
    if full != empty:
        die(f"{ty}: the keys written with an empty abundance list ({empty}) are not those written with a non-empty one "
            f"({full}) — a key that depends on more than Some/None cannot be expressed")
    rows = [(k, k not in plain) for k in full]
    if [k for k, c in rows if not c] != plain or len(set(full)) != len(full):
        die(f"{ty}: keys without abundances {plain} are not a sub-sequence of the keys with abundances {full}")
    return rows


def temp_table(d, ty, ser):
    rows = {}
    for k, _ in ser:
        cls = type_class(d, ty, k)
        if cls is None:
            print(f"translator/c06.py: note: {ty}: key {k!r} is written but any value (or none) loads — it is not read")
            continue
        want = "none" if cls.startswith("opt") else "required"
        if absent_class(d, ty, k, cls) != want:
            die(f"{ty}.{k}: type class {cls} but a missing key is not `{want}` — cannot be expressed")
        rows[k] = cls
    pos = d["positional"].get(ty)
    if pos is None:
        die(f"dump: item positional {ty} missing")
    if pos == ["-"]:
        print(f"translator/c06.py: note: {ty} does not load from the positional (array) form; the order of its wire fields "
              "is not observable, listing them in the published read order")
        order = [k for k in READ_ORDER if k in rows] + [k for k, _ in ser if k in rows and k not in READ_ORDER]
    else:
        order = pos
        if sorted(order) != sorted(rows):
            die(f"{ty}: the positional form feeds {order}, the keyed form reads {sorted(rows)}")
    nz = d["numzero"].get(ty)
    if nz != ["5", "0", "0"]:
        die(f"{ty}: num = 5 loaded with max_hash = 0 / 1 / u64::MAX gives num = {nz}, expected 5 0 0 (`num` is zeroed "
            "exactly when max_hash != 0)")
    return [(k, rows[k]) for k in order]


def molecule_tables(d):
    wm = d["written_molecule"]
    if not wm.get("kmh") or wm.get("kmh") != wm.get("btree"):
        die(f"molecule strings written by the two sketch types differ or are missing: {wm}")
    disp = wm["kmh"]
    if len({v for v, _ in disp}) != len(disp):
        die("dump: written_molecule lists a variant twice")
    if d["molecule"] != disp:
        print(f"translator/c06.py: note: Display for HashFunctions gives {d['molecule']}, the sketches write {disp}")
    arms = {}
    for ty in ("kmh", "btree"):
        loads = d["molload"].get(ty)
        if not loads:
            die(f"dump: item molload {ty} missing")
        words = {w for w, _ in loads}
        for _, w in disp:
            for c in (w, w.lower(), w.upper()):
                if c not in words:
                    die(f"dump: molload {ty} has no probe for {c!r}")
        tab = {}
        for w, out in loads:
            if out.startswith("ok "):
                lw = ascii_lower(w)
                if tab.setdefault(lw, out[3:]) != out[3:]:
                    die(f"{ty}: molecule words that differ only in letter case load as different variants ({lw!r})")
        for w, out in loads:
            want = ("ok " + tab[ascii_lower(w)]) if ascii_lower(w) in tab else "panic"
            if out != want:
                die(f"{ty}: molecule {w!r} gives `{out}`, the arms table (lower-cased literal arms, everything else "
                    f"`unimplemented!()`) says `{want}` — cannot be expressed")
        order = [a for a in ARM_ORDER if a in tab] + sorted(a for a in tab if a not in ARM_ORDER)
        arms[ty] = [(a, tab[a]) for a in order]
    return disp, arms["kmh"], arms["btree"]


def sketch_table(d):
    vs = d["sketch_variant"]
    if not vs or len({v for v, _ in vs}) != len(vs):
        die("dump: item sketch_variant missing")
    for v, _ in vs:
        if d["sketch_untagged"].get(v) != "true":
            die(f"enum Sketch is no longer #[serde(untagged)]: Sketch::{v}(x) is not written as x is")
    sl = d["sketch_load"]
    for k in ("mh", "mh_noabund", "hll", "all"):
        if sl.get(k) not in {v for v, _ in vs}:
            die(f"enum Sketch: the {k} object gives `{sl.get(k)}` instead of loading as a variant")
    payload = dict(vs)
    if payload[sl["hll"]] == payload[sl["mh"]] or sl["mh"] != sl["mh_noabund"]:
        die(f"enum Sketch: loads {sl} cannot be explained by an order in which the variants are tried")
    # the variant that wins an object every variant accepts is tried first; the one that wins an object the
    # two MinHash types accept comes before the other MinHash type; the rest keeps the listed order
    listed = [v for v, _ in vs]
    names = sorted(listed, key=lambda v: (0 if v == sl["all"] else 1 if v == sl["mh"] else 2, listed.index(v)))
    return [(v, payload[v]) for v in names]


def hll_table(d):
    rows = []
    for k in d["keys"]["hll"]:
        cls = type_class(d, "hll", k)
        if cls is None:
            print(f"translator/c06.py: note: hll: key {k!r} is written but not read")
            continue
        if absent_class(d, "hll", k, cls) != "required":
            die(f"hll.{k}: may be left out — cannot be expressed")
        # u64 and usize are one class on the 64-bit target; this table spells it usize
        rows.append((k, "usize" if cls == "u64" else cls))
    return rows


def signature_table(d):
    K = d["keys"]
    full = K["signature_full"]
    if K["signature_emptystr"] != full:
        die(f"Signature: with empty strings the keys {K['signature_emptystr']} are written instead of {full} — a key "
            "that is left out for a value other than None cannot be expressed")
    if len(set(full)) != len(full):
        die("Signature: a key is written twice")
    out = []
    for k in full:
        cls = type_class(d, "signature", k)
        if cls is None:
            die(f"Signature.{k} is written but not read")
        skip = False
        if cls.startswith("opt"):
            probe = {"name": "signature_noname", "filename": "signature_nofilename"}.get(k)
            if probe is None:
                die(f"Signature.{k}: an Option the harness has no None sample for")
            skip = k not in K[probe]
            if K[probe] != [x for x in full if not (skip and x == k)]:
                die(f"Signature: with {k} = None the keys {K[probe]} are written")
        a = absent_class(d, "signature", k, cls)
        if (a == "required") != (d["required"].get(k) == "true"):
            die(f"dump: required {k} contradicts the absent probe")
        if a == "required":
            dflt = ("required",)
        else:
            v = d["default"].get(k)
            if v is None:
                die(f"dump: item default {k} missing")
            if a == "none":
                if v != "~":
                    die(f"Signature.{k} absent does not load as None")
                dflt = ("none",)
            elif cls == "string":
                dflt = ("str", unhex(v))
            elif cls == "f64":
                dflt = ("f64", struct.unpack(">d", bytes.fromhex(v))[0])
            else:
                die(f"Signature.{k}: a default on type class {cls} cannot be expressed")
        out.append({"name": k, "ty": cls, "skip": skip, "dflt": dflt})
    if d["top_is_array"] != "true":
        die("a saved document is no longer a JSON array")
    return out


def behavioural():
    d = dump()
    t = {}
    t["kmh_ser"] = ser_table(d, "kmh")
    t["bt_ser"] = ser_table(d, "btree")
    t["kmh_tmp"] = temp_table(d, "kmh", t["kmh_ser"])
    t["bt_tmp"] = temp_table(d, "btree", t["bt_ser"])
    t["disp"], t["kmh_arms"], t["bt_arms"] = molecule_tables(d)
    t["hll"] = hll_table(d)
    t["variants"] = sketch_table(d)
    t["sig"] = signature_table(d)
    return t


# ----------------------------------------------------------------------------- textual route (advisory)

class NoText(Exception):
    """the sources no longer spell an item the way the textual reading expects"""


def no_text(msg):
    raise NoText(msg)


def read(rel):
    try:
        return open(os.path.join(SRC, rel)).read()
    except OSError as e:
        no_text(f"cannot read {rel}: {e}")


def block_after(src, header_re, what):
    """text of the brace block that follows the first match of header_re (which must end before the `{`)"""
    m = re.search(header_re, src)
    if not m:
        no_text(f"{what}: not found")
    i = src.index("{", m.end() - 1)
    depth, j = 0, i
    while j < len(src):
        if src[j] == "{":
            depth += 1
        elif src[j] == "}":
            depth -= 1
            if depth == 0:
                return src[i + 1:j]
        j += 1
    no_text(f"{what}: unbalanced braces")


def strip_comments(s):
    return re.sub(r"//[^\n]*", "", s)


def ser_fields(src, ty):
    body = strip_comments(block_after(src, r"impl\s+Serialize\s+for\s+%s\s*\{" % ty, f"impl Serialize for {ty}"))
    out, depth0 = [], None
    # depth of the first serialize_field call = unconditional level
    depth = 0
    pos = 0
    for m in re.finditer(r"[{}]|serialize_field\(\s*\"([^\"]+)\"", body):
        t = m.group(0)
        if t == "{":
            depth += 1
        elif t == "}":
            depth -= 1
        else:
            if depth0 is None:
                depth0 = depth
            out.append((m.group(1), depth > depth0))
    if not out:
        no_text(f"impl Serialize for {ty}: no serialize_field calls")
    m = re.search(r"serialize_struct\(\s*\"([^\"]+)\"", body)
    if not m or m.group(1) != ty:
        no_text(f"impl Serialize for {ty}: serialize_struct name")
    return out


TYMAP = {"u32": "u32", "u64": "u64", "usize": "usize", "f64": "f64", "String": "string",
         "Option<String>": "optString", "Vec<u64>": "vecU64", "Option<Vec<u64>>": "optVecU64",
         "Vec<CounterType>": "vecU8", "Vec<u8>": "vecU8", "Vec<Sketch>": "vecSketch"}


def struct_fields(body, what):
    """[(attrs, name, type)] of a struct body"""
    body = strip_comments(body)
    out, attrs = [], []
    # split on top-level commas is unnecessary: one field per line in these structs; be tolerant anyway
    for m in re.finditer(r"#\[(?P<attr>(?:[^\[\]]|\[[^\]]*\])*)\]|(?:pub(?:\([^)]*\))?\s+)?(?P<name>[A-Za-z_]\w*)\s*:\s*(?P<ty>[^,\n]+?)\s*(?:,|$)", body, re.M):
        if m.group("attr") is not None:
            attrs.append(m.group("attr"))
        else:
            ty = re.sub(r"\s+", "", m.group("ty"))
            if ty not in TYMAP:
                no_text(f"{what}: field {m.group('name')} has a type this translator does not know: {ty}")
            out.append((attrs, m.group("name"), TYMAP[ty]))
            attrs = []
    if not out:
        no_text(f"{what}: no fields")
    return out


def temp_sig(src, ty):
    de = block_after(src, r"impl<'de>\s+Deserialize<'de>\s+for\s+%s\s*\{" % ty, f"impl Deserialize for {ty}")
    m = re.search(r"#\[derive\(([^)]*)\)\]\s*struct\s+TempSig\s*\{", de)
    if not m or "Deserialize" not in m.group(1):
        no_text(f"{ty}: `#[derive(Deserialize)] struct TempSig` not found")
    body = block_after(de, r"struct\s+TempSig\s*\{", f"{ty}::TempSig")
    fields = struct_fields(body, f"{ty}::TempSig")
    for a, n, _ in fields:
        if a:
            no_text(f"{ty}::TempSig.{n}: unexpected attribute {a}")
    arms_src = block_after(de, r"match\s+tmpsig\.molecule\.to_lowercase\(\)\.as_ref\(\)\s*\{", f"{ty}: molecule match")
    arms = re.findall(r"\"([^\"]*)\"\s*=>\s*HashFunctions::(\w+)", arms_src)
    if not re.search(r"_\s*=>\s*unimplemented!\(\)", arms_src):
        no_text(f"{ty}: the fall-through arm of the molecule match is no longer `unimplemented!()`")
    if not re.search(r"if\s+tmpsig\.max_hash\s*!=\s*0\s*\{\s*0\s*\}\s*else\s*\{\s*tmpsig\.num\s*\}", de):
        no_text(f"{ty}: `num` is no longer zeroed when max_hash != 0")
    return [(n, t) for _, n, t in fields], arms


def serde_args(attrs):
    """merged key -> value (True for bare words) of all #[serde(...)] attributes"""
    out = {}
    for a in attrs:
        m = re.match(r"\s*serde\s*\((.*)\)\s*$", a, re.S)
        if not m:
            continue
        for part in re.finditer(r"(\w+)\s*(?:=\s*\"([^\"]*)\")?", m.group(1)):
            out[part.group(1)] = part.group(2) if part.group(2) is not None else True
    return out


def signature_struct(src):
    m = re.search(r"#\[derive\(([^)]*)\)\](?:\s*#\[[^\]]*\])*\s*pub\s+struct\s+Signature\s*\{", src, re.S)
    if not m or "Serialize" not in m.group(1) or "Deserialize" not in m.group(1):
        no_text("signature.rs: `#[derive(Serialize, Deserialize, …)] pub struct Signature` not found")
    head = src[m.start():m.end()]
    if re.search(r"serde\s*\(", head):
        no_text("signature.rs: container-level #[serde(...)] attribute on Signature — not understood")
    body = block_after(src, r"pub\s+struct\s+Signature\s*\{", "struct Signature")
    out = []
    for attrs, name, ty in struct_fields(body, "struct Signature"):
        a = serde_args(attrs)
        unknown = set(a) - {"default", "rename", "skip_serializing_if"}
        if unknown:
            no_text(f"Signature.{name}: serde attribute(s) {sorted(unknown)} not understood")
        ser = a.get("rename", name)
        skip = a.get("skip_serializing_if")
        if skip not in (None, "Option::is_none"):
            no_text(f"Signature.{name}: skip_serializing_if = {skip!r} not understood")
        d = a.get("default")
        if d is None:
            dflt = ("none",) if ty.startswith("opt") else ("required",)
        elif d is True:
            if ty != "string":
                no_text(f"Signature.{name}: #[serde(default)] on type {ty}")
            dflt = ("str", "")
        else:
            fb = block_after(src, r"fn\s+%s\s*\(\s*\)\s*->\s*\w+\s*\{" % re.escape(d), f"fn {d}")
            ms = re.fullmatch(r"\s*\"([^\"\\]*)\"\.to_string\(\)\s*", fb)
            mf = re.fullmatch(r"\s*([0-9]+\.[0-9]+)\s*", fb)
            if ms and ty == "string":
                dflt = ("str", ms.group(1))
            elif mf and ty == "f64":
                dflt = ("f64", float(mf.group(1)))
            else:
                no_text(f"fn {d}: body {fb.strip()!r} is not a literal of type {ty}")
        out.append({"name": ser, "ty": ty, "skip": skip is not None, "dflt": dflt})
    return out


def sketch_enum(src):
    m = re.search(r"((?:#\[[^\]]*\]\s*)+)(?:#\[cfg_attr\((?:[^()]|\([^()]*\))*\)\]\s*)*pub\s+enum\s+Sketch\s*\{", src, re.S)
    if not m:
        no_text("sketch/mod.rs: enum Sketch not found")
    head = src[:src.index("pub enum Sketch")]
    head = head[head.rindex("#[derive"):]
    untagged = bool(re.search(r"#\[serde\(\s*untagged\s*\)\]", head))
    body = block_after(src, r"pub\s+enum\s+Sketch\s*\{", "enum Sketch")
    vs = re.findall(r"(\w+)\s*\(\s*(\w+)\s*\)", strip_comments(body))
    if not vs:
        no_text("enum Sketch: no variants")
    return untagged, vs


def hll_struct(src):
    m = re.search(r"#\[derive\(([^)]*)\)\](?:\s*#\[cfg_attr\((?:[^()]|\([^()]*\))*\)\])*\s*pub\s+struct\s+HyperLogLog\s*\{", src, re.S)
    if not m or "Serialize" not in m.group(1) or "Deserialize" not in m.group(1):
        no_text("hyperloglog: serde derive on HyperLogLog not found")
    if not re.search(r"type\s+CounterType\s*=\s*u8\s*;", read("sketch/hyperloglog/estimators.rs")):
        no_text("hyperloglog: CounterType is no longer u8")
    f = struct_fields(block_after(src, r"pub\s+struct\s+HyperLogLog\s*\{", "struct HyperLogLog"), "struct HyperLogLog")
    for a, n, _ in f:
        if any("serde" in x for x in a):
            no_text(f"HyperLogLog.{n}: serde attribute not understood")
    return [(n, t) for _, n, t in f]


def display_arms(src):
    body = block_after(src, r"impl\s+std::fmt::Display\s+for\s+HashFunctions\s*\{", "Display for HashFunctions")
    arms = re.findall(r"HashFunctions::(\w+)\s*=>\s*\"([^\"]*)\"", body)
    if not arms:
        no_text("Display for HashFunctions: no arms")
    return arms


def textual_notes(b):
    """read the same tables off the source text; every item that cannot be read or reads differently is a note"""
    def u(rows):  # u64 and usize are one behavioural class
        return [(n, "u64" if t == "usize" else t) for n, t in rows]

    def minhash(ty, ser_key, tmp_key, arms_key):
        mh = read("sketch/minhash.rs")
        yield f"impl Serialize for {ty}", lambda: ser_fields(mh, ty), b[ser_key]
        got = {}
        def ts():
            if "v" not in got:
                got["v"] = temp_sig(mh, ty)
            return got["v"]
        yield f"TempSig of {ty}", lambda: u(ts()[0]), u(b[tmp_key])
        yield f"molecule match of {ty}", lambda: ts()[1], b[arms_key]

    items = []
    for args in (("KmerMinHash", "kmh_ser", "kmh_tmp", "kmh_arms"), ("KmerMinHashBTree", "bt_ser", "bt_tmp", "bt_arms")):
        try:
            items += list(minhash(*args))
        except NoText as e:
            print(f"translator/c06.py: note: textual cross-check not available ({e}); tables taken from the behavioural dump")
    items.append(("struct Signature", lambda: signature_struct(read("signature.rs")), b["sig"]))
    def sk():
        untagged, vs = sketch_enum(read("sketch/mod.rs"))
        if not untagged:
            no_text("enum Sketch carries no #[serde(untagged)]")
        return vs
    items.append(("enum Sketch", sk, b["variants"]))
    items.append(("struct HyperLogLog", lambda: u(hll_struct(read("sketch/hyperloglog/mod.rs"))), u(b["hll"])))
    items.append(("Display for HashFunctions", lambda: display_arms(read("encodings.rs")), b["disp"]))
    for what, thunk, want in items:
        try:
            got = thunk()
            if got != want:
                no_text(f"the text reads {got}, the built crate behaves as {want}")
        except NoText as e:
            print(f"translator/c06.py: note: textual cross-check of {what} not available ({e}); table taken from the behavioural dump")


# ----------------------------------------------------------------------------- Lean emission

def codes(s):
    return "[" + ", ".join(str(ord(c)) for c in s) + "]"


def lean_str(s):
    return '"' + s.replace("\\", "\\\\").replace('"', '\\"') + '"'


def main():
    b = behavioural()
    textual_notes(b)
    kmh_ser, bt_ser, kmh_tmp, bt_tmp = b["kmh_ser"], b["bt_ser"], b["kmh_tmp"], b["bt_tmp"]
    kmh_arms, bt_arms, disp, hll, variants, sig = b["kmh_arms"], b["bt_arms"], b["disp"], b["hll"], b["variants"], b["sig"]

    # ---- emit
    tys = ["u32", "u64", "usize", "f64", "string", "optString", "vecU64", "optVecU64", "vecU8", "vecSketch"]
    L = []
    L.append("/-! GENERATED by translator/c06.py from /repo/src/core/src/{sketch/minhash.rs, sketch/mod.rs, signature.rs,")
    L.append("sketch/hyperloglog/mod.rs, encodings.rs} and cross-checked against `harness c06 dump` — do not edit.")
    L.append("Strings are lists of Unicode code points (`List Nat`) so that `decide`/`simp` work on them; the")
    L.append("`…S` lists repeat the names as `String`s for the driver. -/")
    L.append("namespace Sourmash.Generated.C06")
    L.append("")
    L.append("/-- Rust field types that occur in the serde structs -/")
    L.append("inductive Ty where")
    L.append("  | " + " | ".join(tys))
    L.append("  deriving DecidableEq, Repr, Inhabited")
    L.append("")
    L.append("/-- what a missing key means on load -/")
    L.append("inductive Dflt where")
    L.append("  | required                 -- no `#[serde(default)]`, not an `Option`")
    L.append("  | none                     -- `Option<_>`: absent = `None`")
    L.append("  | str (s : List Nat)       -- `#[serde(default)]` / `default = \"fn\"` returning this string")
    L.append("  | f64 (bits : Nat)         -- `default = \"fn\"` returning this binary64")
    L.append("  deriving DecidableEq, Repr, Inhabited")
    L.append("")
    L.append("structure SigField where")
    L.append("  name : List Nat            -- serialised name (after `rename`)")
    L.append("  ty : Ty")
    L.append("  skipIfNone : Bool          -- `skip_serializing_if = \"Option::is_none\"`")
    L.append("  dflt : Dflt")
    L.append("  deriving DecidableEq, Repr, Inhabited")
    L.append("")

    def ser(name, rows, doc):
        L.append(f"/-- {doc} -/")
        L.append(f"def {name} : List (List Nat × Bool) :=")
        L.append("  [" + ",\n   ".join(f"({codes(n)}, {'true' if c else 'false'})  /- {n} -/" for n, c in rows) + "]")
        L.append(f"def {name}S : List String := [" + ", ".join(lean_str(n) for n, _ in rows) + "]")
        L.append("")

    def typed(name, rows, doc):
        L.append(f"/-- {doc} -/")
        L.append(f"def {name} : List (List Nat × Ty) :=")
        L.append("  [" + ",\n   ".join(f"({codes(n)}, .{t})  /- {n} -/" for n, t in rows) + "]")
        L.append(f"def {name}S : List String := [" + ", ".join(lean_str(n) for n, _ in rows) + "]")
        L.append("")

    def arms(name, rows, doc):
        L.append(f"/-- {doc} -/")
        L.append(f"def {name} : List (List Nat × List Nat) :=")
        L.append("  [" + ",\n   ".join(f"({codes(a)}, {codes(b)})  /- {a} => {b} -/" for a, b in rows) + "]")
        L.append("")

    ser("kmhSer", kmh_ser, "`serialize_field` names of `impl Serialize for KmerMinHash`, in order; `true` = inside `if let Some(abunds)`")
    ser("btreeSer", bt_ser, "the same for `KmerMinHashBTree`")
    typed("kmhTemp", kmh_tmp, "`struct TempSig` inside `impl Deserialize for KmerMinHash`")
    typed("btreeTemp", bt_tmp, "`struct TempSig` inside `impl Deserialize for KmerMinHashBTree`")
    arms("kmhMolArms", kmh_arms, "arms of `match tmpsig.molecule.to_lowercase()` (KmerMinHash); the fall-through arm is `unimplemented!()`")
    arms("btreeMolArms", bt_arms, "the same for KmerMinHashBTree")
    arms("displayArms", disp, "`Display for HashFunctions`: variant => the string written as \"molecule\"")
    typed("hllFields", hll, "`struct HyperLogLog` (serde derive)")
    arms("sketchVariants", variants, "`enum Sketch` — `#[serde(untagged)]`: variants are tried in this order on load (variant, payload type)")
    L.append("/-- `struct Signature` (serde derive) in declaration = serialisation order -/")
    L.append("def sigFields : List SigField :=")
    rows = []
    for f in sig:
        k = f["dflt"]
        if k[0] == "str":
            dv = f".str {codes(k[1])}"
        elif k[0] == "f64":
            dv = ".f64 0x%016x" % struct.unpack(">Q", struct.pack(">d", k[1]))[0]
        else:
            dv = "." + k[0]
        rows.append(f"{{ name := {codes(f['name'])}, ty := .{f['ty']}, skipIfNone := {'true' if f['skip'] else 'false'}, dflt := {dv} }}  /- {f['name']}"
                    + (f" default {k[1]!r}" if len(k) > 1 else "") + " -/")
    L.append("  [" + ",\n   ".join(rows) + "]")
    L.append("def sigFieldsS : List String := [" + ", ".join(lean_str(f["name"]) for f in sig) + "]")
    L.append("")
    L.append("end Sourmash.Generated.C06")
    text = "\n".join(L) + "\n"
    os.makedirs(os.path.dirname(OUT), exist_ok=True)
    old = open(OUT).read() if os.path.exists(OUT) else None
    if old != text:
        with open(OUT + ".tmp", "w") as f:
            f.write(text)
        os.replace(OUT + ".tmp", OUT)
        print("translator/c06.py: wrote " + os.path.relpath(OUT, ROOT))
    return 0


if __name__ == "__main__":
    sys.exit(main())
