#!/usr/bin/env python3
"""C20 translator: regenerates lean/Sourmash/Generated/C20.lean from /repo.

 (a) `inductive ErrKind`        <- variants of `pub enum SourmashError`            (src/core/src/errors.rs)
 (b) `fromErrorSrc`             <- arms of `SourmashErrorCode::from_error` + the numeric values of
                                   `enum SourmashErrorCode` (Rust literal 1_01 = 101)
     `fromErrorBeh`             <- behavioural route: `harness c20 dump` builds one value of every
                                   variant and prints `SourmashErrorCode::from_error(&e) as u32`
 (c) `headerCodes`              <- `enum SourmashErrorCode` of include/sourmash.h
 (d) `exports`                  <- one row per `extern "C"` function under src/core/src/ffi:
                                   name, guarded (declared inside `ffi_fn!`), direct callees (token scan)
 (e) `headerFns`                <- function names declared in include/sourmash.h

Runs with cwd /verif after the harness is built.  Exits non-zero, with a message, when an item is
not found or when the two routes of (b) disagree.
"""
import os, re, subprocess, sys

# VERIF_REPO / VERIF_TARGET: only set by tools/mutest.py (seeded changes in a scratch worktree)
REPO = os.environ.get("C20_REPO", os.environ.get("VERIF_REPO", "/repo"))
CORE = os.path.join(REPO, "src/core/src")
HDR = os.path.join(REPO, "include/sourmash.h")
ROOT = os.path.dirname(os.path.dirname(os.path.abspath(__file__)))
OUT = os.environ.get("C20_OUT", os.path.join(ROOT, "lean/Sourmash/Generated/C20.lean"))
BIN = os.path.join(os.environ.get("VERIF_TARGET", os.path.join(ROOT, ".cache/target")), "debug/c20")


def die(msg):
    print("translator/c20.py: " + msg, file=sys.stderr)
    sys.exit(1)


def read(p):
    try:
        return open(p).read()
    except OSError as e:
        die(f"cannot read {p}: {e}")


def strip_rust(src):
    """drop // and /* */ comments, blank out string literals (keeps the length of nothing; only
    the token stream matters)"""
    out, i, n = [], 0, len(src)
    while i < n:
        if src.startswith("//", i):
            while i < n and src[i] != "\n":
                i += 1
        elif src.startswith("/*", i):
            j = src.find("*/", i + 2)
            i = n if j < 0 else j + 2
        elif src[i] == '"':
            i += 1
            while i < n and src[i] != '"':
                i += 2 if src[i] == "\\" else 1
            i += 1
            out.append('""')
        else:
            out.append(src[i])
            i += 1
    return "".join(out)


def match_brace(s, i, open_c="{", close_c="}"):
    """s[i] == open_c -> index just after the matching close"""
    assert s[i] == open_c
    d = 0
    for j in range(i, len(s)):
        if s[j] == open_c:
            d += 1
        elif s[j] == close_c:
            d -= 1
            if d == 0:
                return j + 1
    die("unbalanced braces")


def block_after(s, pat, what):
    m = re.search(pat, s)
    if not m:
        die(f"{what} not found")
    i = s.index("{", m.end() - 1)
    return s[i + 1:match_brace(s, i) - 1]


# ----------------------------------------------------------------------------- errors.rs

def parse_errors():
    src = strip_rust(read(os.path.join(CORE, "errors.rs")))
    body = block_after(src, r"pub\s+enum\s+SourmashError\s*\{", "enum SourmashError")
    # variants: identifiers at nesting depth 0 followed by `{`, `(` or `,`
    kinds, depth, i = [], 0, 0
    toks = re.finditer(r"#\s*\[|[{}()\[\]]|[A-Za-z_]\w*|,", body)
    expect = True          # a variant name may start here
    attr = 0
    for t in toks:
        x = t.group(0)
        if x.startswith("#"):
            attr += 1
            depth += 1
            continue
        if x in "{([":
            depth += 1
        elif x in "})]":
            depth -= 1
            if attr and depth == 0:
                attr -= 1
        elif x == ",":
            if depth == 0:
                expect = True
        elif depth == 0 and expect:
            kinds.append(x)
            expect = False
    if len(kinds) < 5 or "Panic" not in kinds:
        die(f"SourmashError variants not recognised: {kinds}")
    enum = block_after(src, r"pub\s+enum\s+SourmashErrorCode\s*\{", "enum SourmashErrorCode")
    codes = [(m.group(1), int(m.group(2).replace("_", ""))) for m in re.finditer(r"(\w+)\s*=\s*([0-9_]+)\s*,", enum)]
    if not codes or ("NoError", 0) not in codes:
        die("SourmashErrorCode values not recognised")
    fe = block_after(src, r"fn\s+from_error\s*\([^)]*\)\s*->\s*SourmashErrorCode\s*\{", "SourmashErrorCode::from_error")
    # arms `<path>::Kind <payload pattern>? (| …)* => {? <path>::Code`: the path prefixes are whatever the
    # function uses (full names, `Self`, local `use … as` aliases, glob imports); an arm counts when its
    # last path segments are a declared variant and a declared code
    m = re.search(r"\bmatch\b[^{]*\{", fe)
    mb = fe[m.end():] if m else fe
    flat = re.sub(r"(\w)\s*(?:\{[^{}]*\}|\([^()]*\))\s*(?==>|\|)", r"\1 ", mb)
    knames, cnames = set(kinds), {c for c, _ in codes}
    arms = []
    for am in re.finditer(r"((?:[\w:\s]|\|)+?)=>\s*\{?\s*([\w:\s]+?)\s*[,}]", flat):
        rhs = am.group(2).split("::")[-1].strip()
        for alt in am.group(1).split("|"):
            lhs = alt.split("::")[-1].strip()
            if lhs in knames and rhs in cnames:
                arms.append((lhs, rhs))
    if not arms:
        die("from_error arms not recognised")
    if re.search(r"\b_\s*=>", fe):
        die("from_error has a wildcard arm: the table is no longer one arm per kind")
    return kinds, codes, arms


def parse_header():
    src = read(HDR)
    src = re.sub(r"/\*.*?\*/", "", src, flags=re.S)
    m = re.search(r"enum\s+SourmashErrorCode\s*\{(.*?)\}", src, re.S)
    if not m:
        die("enum SourmashErrorCode not found in include/sourmash.h")
    hcodes = [(a, int(b)) for a, b in re.findall(r"SOURMASH_ERROR_CODE_(\w+)\s*=\s*(\d+)", m.group(1))]
    if not hcodes:
        die("no SOURMASH_ERROR_CODE_ entries in the header")
    fns = []
    for stmt in src.split(";"):
        if re.search(r"\b(typedef|enum|struct)\b", stmt) and "(" not in stmt:
            continue
        m = re.search(r"\b([A-Za-z_]\w*)\s*\(", stmt)
        if m and not re.search(r"\btypedef\b", stmt):
            fns.append(m.group(1))
    if len(fns) < 10:
        die("function declarations not recognised in include/sourmash.h")
    return hcodes, fns


# ----------------------------------------------------------------------------- ffi exports

KEYWORDS = {"if", "match", "while", "for", "return", "let", "as", "in", "fn", "loop", "else", "unsafe", "move", "mut", "ref", "Self"}


def callees(body):
    out = []
    # macros
    for m in re.finditer(r"\b([A-Za-z_]\w*)\s*!\s*[\(\[\{]", body):
        out.append(m.group(1) + "!")
    # `?` operator: early return of an Err (harmless under the landing pad, relevant outside it)
    # calls: optional path, optional turbofish, then `(`
    for m in re.finditer(r"(\.\s*)?((?:[A-Za-z_]\w*\s*::\s*)*)([A-Za-z_]\w*)\s*(?:::\s*<[^<>()]*(?:<[^<>()]*>[^<>()]*)*>)?\s*\(", body):
        dot, path, name = m.group(1), m.group(2), m.group(3)
        if name in KEYWORDS:
            continue
        # preceded by `!`? then it is the macro already recorded
        if dot:
            out.append("." + name)
        else:
            segs = [s.strip() for s in path.split("::") if s.strip()]
            out.append("::".join(segs[-1:] + [name]))
    seen, res = set(), []
    for c in out:
        if c not in seen:
            seen.add(c)
            res.append(c)
    return res


def inline_helpers(rows, files):
    """An UNGUARDED export that calls a private free function defined under ffi/ (a helper that is
    not itself exported) is judged by what that helper calls: the helper's name is replaced by the
    callees of its body (transitively; calls of the helper's own parameters are calls of closures
    written, and scanned, at the call site).  So extracting a few lines of an unguarded export into
    a local function neither hides a call from `T-exports` nor needs a new allow-list entry."""
    helpers = {}
    for p in sorted(files):
        src = strip_rust(read(p))
        for m in re.finditer(r'(?<!")\s\bfn\s+(\w+)\s*(?:<[^>{}()]*>)?\s*\(', src):
            pre = src[max(0, m.start() - 40):m.start() + 1]
            if re.search(r'extern\s+""\s*$', pre) or m.group(1).startswith("$"):
                continue
            # free functions only: not inside an impl/trait block (brace depth 0 or inside `mod`)
            head = src[:m.start()]
            depth_ok = True
            opens = []
            for t in re.finditer(r"\b(impl|trait|macro_rules)\b[^;{]*\{|[{}]", head):
                x = t.group(0)
                if x == "}":
                    if opens:
                        opens.pop()
                elif x == "{":
                    opens.append("")
                else:
                    opens.append(t.group(1))
            if any(o in ("impl", "trait", "macro_rules") for o in opens):
                continue
            k = match_brace(src, m.end() - 1, "(", ")")
            params = set(re.findall(r"(\w+)\s*:", src[m.end():k]))
            nb = src.find("{", k)
            semi = src.find(";", k)
            if nb < 0 or (0 <= semi < nb):
                continue
            body = src[nb:match_brace(src, nb)]
            if m.group(1) not in helpers:
                helpers[m.group(1)] = (params, callees(body))
    exported = {r[0] for r in rows}
    # helpers that the reviewed allow-list justifies by name stay as they are
    try:
        reviewed = set(re.findall(r'"([^"]+)"', open(os.path.join(ROOT, "lean/Sourmash/Spec/PanicFree.lean")).read()))
    except OSError:
        reviewed = set()
    for h in list(helpers):
        if h in reviewed:
            del helpers[h]

    def expand(cs, seen):
        out = []
        for c in cs:
            base = c.split("::")[-1]
            pre = c.split("::")[0] if "::" in c else ""
            local = (not c.startswith(".")) and (not c.endswith("!")) and base in helpers and base not in exported \
                and (pre == "" or pre.islower())
            if local and base not in seen:
                params, inner = helpers[base]
                out += [x for x in expand(inner, seen | {base}) if x not in params]
            else:
                out.append(c)
        res, s2 = [], set()
        for c in out:
            if c not in s2:
                s2.add(c)
                res.append(c)
        return res

    return [(n, g, cs if g else expand(cs, set()), rel, hr) for (n, g, cs, rel, hr) in rows]


def parse_exports():
    rows = []
    ffi = os.path.join(CORE, "ffi")
    files = []
    for base, _, fs in os.walk(ffi):
        for f in fs:
            if f.endswith(".rs"):
                files.append(os.path.join(base, f))
    if not files:
        die("no sources under src/core/src/ffi")
    for p in sorted(files):
        src = strip_rust(read(p))
        rel = os.path.relpath(p, CORE)
        # guarded: inside ffi_fn! { ... }
        spans = []
        for m in re.finditer(r"\bffi_fn\s*!\s*\{", src):
            i = m.end() - 1
            j = match_brace(src, i)
            inner = src[i + 1:j - 1]
            spans.append((m.start(), j))
            if rel.endswith("utils.rs") and "$name" in inner:
                continue
            fm = re.search(r"unsafe\s+fn\s+(\w+)\s*\(", inner)
            if not fm:
                die(f"{rel}: ffi_fn! block without `unsafe fn`")
            k = inner.index("(", fm.end() - 1)
            k = match_brace(inner, k, "(", ")")
            b = inner.index("{", k)
            body = inner[b:match_brace(inner, b)]
            has_result = bool(re.search(r"->\s*Result\s*<", inner[k:b]))
            rows.append((fm.group(1), True, callees(body), rel, has_result))

        def in_span(pos):
            return any(a <= pos < b for a, b in spans)

        for m in re.finditer(r'extern\s+""\s+fn\s+(\w+)\s*\(', src):
            if in_span(m.start()):
                continue
            if m.group(1).startswith("$"):
                continue
            # the macro definition itself (`pub unsafe extern "C" fn $name`) has no \w+ name
            k = match_brace(src, m.end() - 1, "(", ")")
            b = src.index("{", k)
            body = src[b:match_brace(src, b)]
            rows.append((m.group(1), False, callees(body), rel, False))
    rows = inline_helpers(rows, files)
    # macro_rules! ffi_fn must still wrap the body in landingpad, otherwise `guarded` means nothing
    utils = strip_rust(read(os.path.join(ffi, "utils.rs")))
    mm = re.search(r"macro_rules\s*!\s*ffi_fn\s*\{", utils)
    if not mm:
        die("macro_rules! ffi_fn not found in ffi/utils.rs")
    mbody = utils[mm.end() - 1:match_brace(utils, mm.end() - 1)]
    narms = len(re.findall(r"extern\s+\"\"\s+fn\s+\$name", mbody))
    npads = len(re.findall(r"landingpad\s*\(", mbody))
    if narms == 0 or npads < narms:
        die("an arm of ffi_fn! no longer routes the body through landingpad")
    lp = re.search(r"fn\s+landingpad\b.*?\{(.*)", utils, re.S)
    if not lp or "catch_unwind" not in lp.group(1)[:600]:
        die("landingpad no longer uses catch_unwind")
    names = [r[0] for r in rows]
    if len(set(names)) != len(names):
        die("duplicate export names: " + ", ".join(sorted({n for n in names if names.count(n) > 1})))
    if len(rows) < 20:
        die("export table suspiciously small")
    return sorted(rows)


# ----------------------------------------------------------------------------- behavioural route

def dump_codes():
    if not os.path.exists(BIN):
        die(f"{BIN} not built (the translator runs after the harness build)")
    p = subprocess.run([BIN, "dump"], capture_output=True, timeout=300)
    if p.returncode != 0:
        die("`c20 dump` failed: " + p.stderr.decode(errors="replace")[-800:])
    beh, scen = [], []
    for l in p.stdout.decode().split("\n"):
        w = l.split()
        if len(w) == 3 and w[0] == "kind":
            beh.append((w[1], int(w[2])))
        elif len(w) == 3 and w[0] == "scenario":
            scen.append((w[1], w[2]))
    if not beh:
        die("`c20 dump` printed no `kind <Variant> <code>` lines")
    if not scen:
        die("`c20 dump` printed no `scenario <fn> <class>` lines")
    return beh, scen


# ----------------------------------------------------------------------------- emit

def lstr(s):
    return '"' + s.replace("\\", "\\\\").replace('"', '\\"') + '"'


def norm(s):
    return s.replace("_", "").lower()


def main():
    kinds, codes, arms = parse_errors()
    hcodes, hfns = parse_header()
    rows = parse_exports()
    beh, scen = dump_codes()
    cval = dict(codes)
    armd = {}
    for k, c in arms:
        if k not in kinds:
            die(f"from_error arm for unknown variant {k}")
        if c not in cval:
            die(f"from_error arm maps {k} to unknown code {c}")
        if k in armd:
            die(f"two from_error arms for {k}")
        armd[k] = c
    # compare the two routes
    behd = dict(beh)
    for k, v in beh:
        if k not in kinds:
            die(f"`c20 dump` produced variant {k} that errors.rs does not declare")
        if k in armd and cval[armd[k]] != v:
            die(f"from_error disagrees between source ({k} => {armd[k]} = {cval[armd[k]]}) and behaviour ({v})")
    missing = [k for k in kinds if k not in behd]
    if missing:
        print("translator/c20.py: warning: no behavioural sample for " + ", ".join(missing) +
              " (theorem codes_behaviour_total will not build until harness/src/bin/c20.rs `dump` constructs them)", file=sys.stderr)

    L = []
    L.append("/-! GENERATED by translator/c20.py from /repo — do not edit, not committed.")
    L.append("Sources: src/core/src/errors.rs, src/core/src/ffi/**/*.rs, include/sourmash.h, `c20 dump`. -/")
    L.append("namespace Sourmash.Generated.C20")
    L.append("")
    L.append("/-- one constructor per variant of `SourmashError` (errors.rs) -/")
    L.append("inductive ErrKind where")
    for k in kinds:
        L.append(f"  | {k}")
    L.append("  deriving DecidableEq, Repr")
    L.append("")
    L.append("def ErrKind.all : List ErrKind := [" + ", ".join("." + k for k in kinds) + "]")
    L.append("")
    L.append("def ErrKind.name : ErrKind → String")
    for k in kinds:
        L.append(f"  | .{k} => {lstr(k)}")
    L.append("")
    L.append("/-- `enum SourmashErrorCode` of errors.rs: variant name, numeric value -/")
    L.append("def rustCodes : List (String × Nat) := [")
    L.append(",\n".join(f"  ({lstr(n)}, {v})" for n, v in codes))
    L.append("]")
    L.append("")
    L.append("/-- arms of `SourmashErrorCode::from_error` as written in the source: kind ↦ code variant name -/")
    L.append("def fromErrorArms : List (ErrKind × String) := [")
    L.append(",\n".join(f"  (.{k}, {lstr(c)})" for k, c in arms))
    L.append("]")
    L.append("")
    L.append("/-- source route: arms composed with the numeric enum values -/")
    L.append("def fromErrorSrc : List (ErrKind × Nat) := [")
    L.append(",\n".join(f"  (.{k}, {cval[c]})" for k, c in arms))
    L.append("]")
    L.append("")
    L.append("/-- behavioural route: `SourmashErrorCode::from_error(&e) as u32` on one constructed value per kind -/")
    L.append("def fromErrorBeh : List (ErrKind × Nat) := [")
    L.append(",\n".join(f"  (.{k}, {v})" for k, v in beh))
    L.append("]")
    L.append("")
    L.append("/-- `enum SourmashErrorCode` of include/sourmash.h: name after `SOURMASH_ERROR_CODE_`, value -/")
    L.append("def headerCodes : List (String × Nat) := [")
    L.append(",\n".join(f"  ({lstr(n)}, {v})" for n, v in hcodes))
    L.append("]")
    L.append("")
    L.append("/-- arms keyed by the normalised code name -/")
    L.append("def fromErrorArmsNorm : List (ErrKind × String) := [")
    L.append(",\n".join(f"  (.{k}, {lstr(norm(c))})" for k, c in arms))
    L.append("]")
    L.append("")
    L.append("/-- both enums keyed by the case/underscore-insensitive name (`MismatchKSizes` and")
    L.append("    `MISMATCH_K_SIZES` both give `mismatchksizes`), computed by the translator -/")
    L.append("def rustCodesNorm : List (String × Nat) := [")
    L.append(",\n".join(f"  ({lstr(norm(n))}, {v})" for n, v in codes))
    L.append("]")
    L.append("def headerCodesNorm : List (String × Nat) := [")
    L.append(",\n".join(f"  ({lstr(norm(n))}, {v})" for n, v in hcodes))
    L.append("]")
    L.append("")
    L.append("structure Export where")
    L.append("  name : String")
    L.append("  guarded : Bool")
    L.append("  /-- declared `-> Result<…>` (only meaningful for guarded rows) -/")
    L.append("  result : Bool")
    L.append("  file : String")
    L.append("  callees : List String")
    L.append("  deriving Repr")
    L.append("")
    L.append("/-- every `extern \"C\"` function under src/core/src/ffi -/")
    L.append("def exports : List Export := [")
    L.append(",\n".join(
        "  { name := %s, guarded := %s, result := %s, file := %s,\n    callees := [%s] }" % (
            lstr(n), "true" if g else "false", "true" if r else "false", lstr(f), ", ".join(lstr(c) for c in cs))
        for n, g, cs, f, r in rows))
    L.append("]")
    L.append("")
    L.append("/-- functions declared in include/sourmash.h -/")
    L.append("def headerFns : List String := [")
    L.append(",\n".join("  " + lstr(f) for f in hfns))
    L.append("]")
    L.append("")
    sf = []
    for f, _ in scen:
        if f not in sf:
            sf.append(f)
    L.append("/-- the same names sorted (the export table is sorted by name) -/")
    L.append("def headerFnsSorted : List String := [")
    L.append(",\n".join("  " + lstr(f) for f in sorted(hfns)))
    L.append("]")
    L.append("def scenarioFnsSorted : List String := [")
    L.append(",\n".join("  " + lstr(f) for f in sorted(sf)))
    L.append("]")
    L.append("")
    L.append("/-- functions for which harness/src/bin/c20.rs has at least one child-process scenario -/")
    L.append("def scenarioFns : List String := [")
    L.append(",\n".join("  " + lstr(f) for f in sf))
    L.append("]")
    L.append("")
    L.append("/-- `from_error` as a function (source route); 0 would mean \"no arm\" — excluded by `codes_total` -/")
    L.append("def fromError (k : ErrKind) : Nat := (fromErrorSrc.lookup k).getD 0")
    L.append("")
    L.append("def exportGuarded (name : String) : Option Bool := (exports.find? (·.name == name)).map (·.guarded)")
    L.append("")
    L.append("end Sourmash.Generated.C20")
    text = "\n".join(L) + "\n"
    os.makedirs(os.path.dirname(OUT), exist_ok=True)
    old = open(OUT).read() if os.path.exists(OUT) else None
    if old != text:
        tmp = OUT + ".tmp"
        with open(tmp, "w") as f:
            f.write(text)
        os.replace(tmp, OUT)
    print(f"translator/c20.py: {len(kinds)} error kinds, {len(codes)} codes, {len(hcodes)} header codes, "
          f"{len(rows)} exports ({sum(1 for r in rows if r[1])} guarded), {len(hfns)} header functions")


if __name__ == "__main__":
    main()
