#!/usr/bin/env python3
"""C02 translator: regenerate lean/Sourmash/Generated/C02.lean from /repo.

Behavioural route (authoritative): `harness c02 dump` calls the REAL functions on their whole
finite domain — aa_to_dayhoff / aa_to_hp / revcomp(single byte) / VALID on all 256 bytes,
translate_codon on all 2^24 three-byte inputs (the non-X ones are the behavioural CODONTABLE),
all 2^16 two-byte inputs (must equal xyN) and all 256 one-byte inputs (must be X).
Textual route (advisory cross-check): the literal tables in src/core/src/encodings.rs, when the
source still spells them as literal `static NAME = { (key, value), … }` blocks.  The behavioural
dump is exhaustive over every finite domain, so it alone determines the generated tables; a source
that no longer has the literal blocks (tables built at compile time, a `match`, …) only loses the
cross-check (a note on stdout), it does not break the tie.  A behavioural dump that fails or is
incomplete is a non-zero exit.

Runs with cwd /verif after the harness is built.
"""
import os, re, subprocess, sys

ROOT = os.path.dirname(os.path.dirname(os.path.abspath(__file__)))
# VERIF_REPO / VERIF_TARGET: only set by tools/mutest.py (seeded changes in a scratch worktree)
SRC = os.path.join(os.environ.get("VERIF_REPO", "/repo"), "src/core/src/encodings.rs")
OUT = os.path.join(ROOT, "lean", "Sourmash", "Generated", "C02.lean")
BIN = os.path.join(os.environ.get("VERIF_TARGET", os.path.join(ROOT, ".cache", "target")), "debug", "c02")


def die(msg):
    print("translator c02: " + msg, file=sys.stderr)
    sys.exit(1)


def behavioural():
    if not os.path.exists(BIN):
        die(f"{BIN} not built")
    p = subprocess.run([BIN, "dump"], capture_output=True, timeout=600)
    if p.returncode != 0:
        die("dump failed: " + p.stderr.decode(errors="replace")[-500:])
    t = {"codon3": {}, "codon125": {}, "codon2": {}, "codon1": {}}
    for line in p.stdout.decode().split("\n"):
        w = line.split()
        if not w:
            continue
        if w[0] in ("dayhoff", "hp", "complement", "valid"):
            t[w[0]] = [int(x) for x in w[1].split(",")]
            if len(t[w[0]]) != 256:
                die(f"{w[0]}: expected 256 entries")
        elif w[0] == "codon3":
            t["codon3"][(int(w[1]), int(w[2]), int(w[3]))] = int(w[4])
        elif w[0] == "codon3err":
            die("translate_codon failed on a 3-byte input: " + line)
        elif w[0] == "codon125":
            t["codon125"][(int(w[1]), int(w[2]), int(w[3]))] = w[4]
        elif w[0] == "codon2":
            t["codon2"][(int(w[1]), int(w[2]))] = w[3]
        elif w[0] == "codon1":
            t["codon1"][int(w[1])] = w[2]
        else:
            t[w[0]] = w[1]
    for k in ("dayhoff", "hp", "complement", "valid", "codon3_nonx", "codon1_nonx", "codon2_vs_xyN_mismatch",
              "codonlen0", "codonlen4", "revcomp_probe", "murmur_ACG_42"):
        if k not in t:
            die(f"dump: item {k} missing")
    if int(t["codon3_nonx"]) != len(t["codon3"]):
        die("codon3 count disagrees with the listed entries")
    if len(t["codon125"]) != 125 or len(t["codon2"]) != 25 or len(t["codon1"]) != 5:
        die("dump: ACGTN codon sections incomplete")
    # consistency of the sections with each other
    for (a, b, c), v in t["codon125"].items():
        want = str(t["codon3"].get((a, b, c), 88))
        if v != want:
            die(f"codon125 {a} {b} {c} = {v} but the full scan says {want}")
    for (a, b), v in t["codon2"].items():
        if v != str(t["codon3"].get((a, b, 78), 88)):
            die(f"2-byte codon {a} {b} = {v} is not the xyN entry")
    if any(v != "88" for v in t["codon1"].values()) or t["codon1_nonx"] != "0":
        die("a 1-byte codon does not translate to X")
    if t["codon2_vs_xyN_mismatch"] != "0":
        die("some 2-byte input does not behave as xyN")
    if t["codonlen0"] != "err:InvalidCodonLength" or t["codonlen4"] != "err:InvalidCodonLength":
        die("translate_codon on length 0 / 4 is not InvalidCodonLength")
    if t["revcomp_probe"] != "00004e4143475454":
        die("revcomp probe (reverse + complement of AACGTN\\0z) changed: " + t["revcomp_probe"])
    if t["murmur_ACG_42"] != "1731421407650554201":
        die("_hash_murmur(ACG,42) changed")
    return t


class NoText(Exception):
    pass


def block(src, start_pat):
    m = re.search(start_pat, src)
    if not m:
        raise NoText(f"pattern {start_pat!r} not found in {SRC}")
    rest = src[m.end():]
    e = re.search(r"^\}\)?;|^\}\);", rest, re.M)
    if not e:
        raise NoText(f"end of block {start_pat!r} not found")
    return rest[:e.start()]


def textual():
    src = open(SRC).read()
    # drop line comments so that commented-out entries do not count
    src = re.sub(r"//[^\n]*", "", src)
    t = {}
    cod = block(src, r"static CODONTABLE\b[^=]*=")
    t["codon3"] = {}
    for k, v in re.findall(r"\(\s*\"([^\"]*)\"\s*,\s*b'(\\?.)'\s*\)", cod):
        key = tuple(k.encode())
        if len(key) != 3:
            raise NoText(f"CODONTABLE key {k!r} is not 3 bytes")
        if key in t["codon3"] and t["codon3"][key] != ord(v[-1]):
            raise NoText(f"CODONTABLE key {k!r} listed twice with different values")
        t["codon3"][key] = ord(v[-1])
    if not t["codon3"]:
        raise NoText("no CODONTABLE entries parsed")
    for name, key in (("DAYHOFFTABLE", "dayhoff"), ("HPTABLE", "hp")):
        b = block(src, r"static %s\b[^=]*=" % name)
        tab = [88] * 256
        ents = re.findall(r"\(\s*b'(\\?.)'\s*,\s*b'(\\?.)'\s*\)", b)
        if not ents:
            raise NoText(f"no {name} entries parsed")
        for k, v in ents:
            tab[ord(k[-1])] = ord(v[-1])
        t[key] = tab
    b = block(src, r"const COMPLEMENT\b[^=]*=")
    tab = [0] * 256
    ents = re.findall(r"lookup\[b'(.)' as usize\]\s*=\s*b'(.)'\s*;", b)
    if not ents:
        raise NoText("no COMPLEMENT entries parsed")
    for k, v in ents:
        tab[ord(k)] = ord(v)
    t["complement"] = tab
    b = block(src, r"pub const VALID\b[^=]*=")
    tab = [0] * 256
    ents = re.findall(r"lookup\[b'(.)' as usize\]\s*=\s*true\s*;", b)
    if not ents:
        raise NoText("no VALID entries parsed")
    for k in ents:
        tab[ord(k)] = 1
    t["valid"] = tab
    return t


def nat_list(xs, per=32):
    rows = [", ".join(str(x) for x in xs[i:i + per]) for i in range(0, len(xs), per)]
    return "[\n  " + ",\n  ".join(rows) + "]"


def main():
    b = behavioural()
    try:
        t = textual()
        for k in ("dayhoff", "hp", "complement", "valid"):
            if b[k] != t[k]:
                diff = [i for i in range(256) if b[k][i] != t[k][i]]
                raise NoText(f"{k}: the literal table in encodings.rs is not what the built crate computes at bytes {diff[:8]}")
        if b["codon3"] != t["codon3"]:
            only_b = sorted(set(b["codon3"].items()) - set(t["codon3"].items()))[:5]
            only_t = sorted(set(t["codon3"].items()) - set(b["codon3"].items()))[:5]
            raise NoText(f"CODONTABLE: literal table is not what the built crate computes (behaviour only {only_b}, text only {only_t})")
    except NoText as e:
        # the tables below come from the exhaustive behavioural dump either way
        print(f"translator c02: note: textual cross-check not available ({e}); tables taken from the exhaustive behavioural dump alone")
    cod = sorted(b["codon3"].items())
    out = []
    out.append("/-! GENERATED by translator/c02.py from /repo (behavioural dump of the real functions,")
    out.append("cross-checked against the literal tables in src/core/src/encodings.rs).  Do not edit. -/")
    out.append("namespace Gen.C02")
    out.append("")
    out.append("/-- `revcomp(&[b])[0]` for b = 0..255 (= the private `COMPLEMENT` table) -/")
    out.append("def complementTable : List Nat := " + nat_list(b["complement"]))
    out.append("")
    out.append("/-- `VALID[b]` for b = 0..255 (1 = true) -/")
    out.append("def validTable : List Nat := " + nat_list(b["valid"]))
    out.append("")
    out.append("/-- `aa_to_dayhoff(b)` for b = 0..255 -/")
    out.append("def dayhoffTable : List Nat := " + nat_list(b["dayhoff"]))
    out.append("")
    out.append("/-- `aa_to_hp(b)` for b = 0..255 -/")
    out.append("def hpTable : List Nat := " + nat_list(b["hp"]))
    out.append("")
    out.append("/-- every 3-byte input `[a,b,c]` (of all 2^24) on which `translate_codon` is not `X`, with its value:")
    out.append("    `(a, b, c, aa)`; sorted.  2-byte inputs `xy` behave as `xyN`, 1-byte inputs give `X` (checked")
    out.append("    exhaustively by the translator), other lengths are `InvalidCodonLength`. -/")
    def rows(part):
        return "[\n  " + ",\n  ".join(", ".join(f"({a}, {bb}, {c}, {v})" for (a, bb, c), v in part[i:i + 6]) for i in range(0, len(part), 6)) + "]"
    if len(cod) <= 600:
        out.append("def codonTable : List (Nat × Nat × Nat × Nat) := " + rows(cod))
    else:
        # far more entries than a genetic code has (a changed look-up answers for bytes outside the
        # alphabet): still emitted faithfully, in pieces the elaborator can take, so that the model
        # keeps building and the theorems over the table are what fails
        parts = [cod[i:i + 300] for i in range(0, len(cod), 300)]
        for j, part in enumerate(parts):
            out.append(f"def codonTablePart{j} : List (Nat × Nat × Nat × Nat) := " + rows(part))
        out.append("def codonTable : List (Nat × Nat × Nat × Nat) := List.flatten [" + ", ".join(f"codonTablePart{j}" for j in range(len(parts))) + "]")
    out.append("")
    out.append("/-- number of 3-byte inputs (of 2^24) that do not translate to `X` -/")
    out.append(f"def codonNonX : Nat := {len(cod)}")
    out.append("")
    out.append("end Gen.C02")
    text = "\n".join(out) + "\n"
    os.makedirs(os.path.dirname(OUT), exist_ok=True)
    old = open(OUT).read() if os.path.exists(OUT) else None
    if old != text:
        tmp = OUT + ".tmp"
        with open(tmp, "w") as f:
            f.write(text)
        os.replace(tmp, OUT)
        print("translator c02: wrote " + os.path.relpath(OUT, ROOT))
    return 0


if __name__ == "__main__":
    sys.exit(main())
