#!/usr/bin/env python3
"""Confirm a HARMLESS change produced by a sub-agent (false-alarm probe), then import it.

  tools/confirm_benign.py <worktree> <outdir> <i> <benign-id>

Checks: patch applies on the clean worktree; the complete existing suite passes with it; the
library still builds with --features branchwater.  On success writes
/verif/benign/<benign-id>/{patch.diff,meta.json}; meta gets `run_against` = the properties whose
anchored files the patch touches (plus its own)."""
import sys, os, subprocess, json, shutil, re
ROOT = os.path.dirname(os.path.dirname(os.path.abspath(__file__)))
def sh(cmd, cwd):
    return subprocess.run(cmd, cwd=cwd, shell=True, capture_output=True, text=True)
def anchors():
    a = {}
    for l in open(os.path.join(ROOT, "properties.jsonl")):
        p = json.loads(l)
        a[p["id"]] = set(p["anchors"]["files"])
    return a
def main():
    wt, out, i, bid = sys.argv[1:5]
    patch, meta = f"{out}/patch{i}.diff", f"{out}/meta{i}.json"
    ran = []
    def step(name, ok, detail=""):
        ran.append(f"{name}: {'ok' if ok else 'FAILED'} {detail}".strip())
        print(ran[-1], flush=True)
        return ok
    sh("git checkout -- . && git clean -fdq src", wt)
    try:
        r = sh(f"git apply {patch}", wt)
        if not step("patch applies", r.returncode == 0, r.stderr[:200]): return 1
        touched = [l[6:].strip() for l in open(patch) if l.startswith("+++ b/")]
        r = sh("cargo test --offline --workspace --no-fail-fast 2>&1 | grep -E '^test result|FAILED|failed'", wt)
        npass = sum(int(m) for m in re.findall(r"(\d+) passed", r.stdout))
        nfail = sum(int(m) for m in re.findall(r"(\d+) failed", r.stdout))
        if not step("existing suite passes with the change", npass == 104 and nfail == 0, f"{npass} passed {nfail} failed"): return 1
        r = sh("cargo build --offline --features branchwater 2>&1 | tail -2", wt + "/src/core")
        if not step("builds with --features branchwater", "Finished" in r.stdout, r.stdout[-200:] if "Finished" not in r.stdout else ""): return 1
        d = os.path.join(ROOT, "benign", bid)
        os.makedirs(d, exist_ok=True)
        shutil.copy(patch, d + "/patch.diff")
        m = json.load(open(meta)) if os.path.exists(meta) else {}
        m["origin"] = "independent sub-agent given only the property text and a scratch worktree; asked for a change under which the property still holds"
        m["agent_ran"] = m.pop("ran", [])
        m["confirmed"] = ran
        m["touched"] = touched
        own = m.get("property") or bid.split("-")[0]
        ra = [own] + sorted(p for p, fs in anchors().items() if p != own and fs & set(touched))
        m["run_against"] = ra
        m.setdefault("verdicts", {})
        json.dump(m, open(d + "/meta.json", "w"), indent=1)
        print("IMPORTED", d, "run_against", " ".join(ra))
        return 0
    finally:
        sh("git checkout -- . && git clean -fdq src", wt)
if __name__ == "__main__":
    sys.exit(main())
