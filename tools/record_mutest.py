#!/usr/bin/env python3
"""Fold mutest logs (`== <seeded-id> -> <props>` followed by DETECTED/MISSED/ERROR lines) into
seeded/<id>/meta.json (`mutest` map: property -> verdict) and print the markdown table for DESIGN §11."""
import sys, os, re, json, glob
ROOT = os.path.dirname(os.path.dirname(os.path.abspath(__file__)))
res = {}
for f in sys.argv[1:]:
    cur = None
    for line in open(f, errors="replace"):
        m = re.match(r"== (\S+) -> (.*)", line)
        if m:
            cur = m.group(1); continue
        m = re.match(r"(DETECTED|MISSED|ERROR) (C\d+)(.*)", line)
        if m and cur:
            verdict = m.group(1)
            extra = "concrete replay" if "concrete replay" in m.group(3) else ("no-failing-input-found" if "no-failing" in m.group(3) else "")
            res.setdefault(cur, {})[m.group(2)] = (verdict + (" (" + extra + ")" if extra else "")).strip()
for sid, r in res.items():
    p = os.path.join(ROOT, "seeded", sid, "meta.json")
    if not os.path.exists(p): continue
    m = json.load(open(p))
    m.setdefault("mutest", {}).update(r)
    m["detected_by"] = sorted(k for k, v in m["mutest"].items() if v.startswith("DETECTED"))
    json.dump(m, open(p, "w"), indent=1)
rows = []
for p in sorted(glob.glob(os.path.join(ROOT, "seeded", "*", "meta.json"))):
    m = json.load(open(p)); sid = p.split("/")[-2]
    mt = m.get("mutest", {})
    rows.append(f"| `{sid}` | {m.get('property','')} | {m.get('what','')[:160]} | {', '.join(k for k,v in mt.items() if v.startswith('DETECTED')) or '—'} | {', '.join(k for k,v in mt.items() if v.startswith('MISSED')) or '—'} |")
print("| seeded change | property | what it does | detected by | run but not detected by |\n|---|---|---|---|---|")
print("\n".join(rows))
