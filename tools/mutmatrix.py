#!/usr/bin/env python3
"""Run every seeded change against the check of the property it targets (meta.json `property`, plus
any `also` list) and record the verdicts in seeded/<id>/meta.json.
  tools/mutmatrix.py [--only C01,C02] [--ids C01-s1,…] [--log FILE]"""
import sys, os, json, glob, subprocess
ROOT = os.path.dirname(os.path.dirname(os.path.abspath(__file__)))
def arg(n, d=None):
    return sys.argv[sys.argv.index(n) + 1] if n in sys.argv else d
only = set(arg("--only", "").split(",")) - {""}
ids = set(arg("--ids", "").split(",")) - {""}
log = arg("--log", os.path.join(ROOT, ".cache", "mutmatrix.log"))
with open(log, "a") as lf:
    for p in sorted(glob.glob(os.path.join(ROOT, "seeded", "*", "meta.json"))):
        sid = p.split("/")[-2]
        m = json.load(open(p))
        props = [m.get("property")] + m.get("also", [])
        props = [x for x in props if x]
        if only and not (set(props) & only): continue
        if ids and sid not in ids: continue
        lf.write(f"== {sid} -> {' '.join(props)}\n"); lf.flush()
        r = subprocess.run([os.path.join(ROOT, "tools", "mutest.py"), os.path.join(ROOT, "seeded", sid, "patch.diff")] + props,
                           capture_output=True, text=True)
        lf.write(r.stdout[:4000] + ("\n" if not r.stdout.endswith("\n") else "")); lf.flush()
        print(sid, "|", " ; ".join(l for l in r.stdout.split("\n") if l[:8] in ("DETECTED", "MISSED C", "ERROR C0", "ERROR C1", "ERROR C2") or l.startswith("ERROR"))[:300], flush=True)
subprocess.run([os.path.join(ROOT, "tools", "record_mutest.py"), log], stdout=subprocess.DEVNULL)
