#!/usr/bin/env python3
"""Run every claimed check on the unchanged tree under several seeds (false-alarm hunt).
  tools/soak.py [--tier quick] [--seeds 1,2,3] [--props C01,C02] [--jobs 4]
Evidence and replays go to a scratch dir (VERIF_OUT), never into /verif/evidence."""
import sys, os, subprocess, json, concurrent.futures, time
ROOT = os.path.dirname(os.path.dirname(os.path.abspath(__file__)))
def arg(name, default):
    a = sys.argv
    return a[a.index(name) + 1] if name in a else default
tier = arg("--tier", "quick")
seeds = [int(x) for x in arg("--seeds", "1,2,3").split(",")]
props = arg("--props", ",".join(sorted(f[:-5] for f in os.listdir(os.path.join(ROOT, "props")) if f.endswith(".json")))).split(",")
jobs = int(arg("--jobs", "3"))
out = arg("--out", "/tmp/verif-soak")
def one(ps):
    pid, seed = ps
    env = dict(os.environ, VERIF_SEED=str(seed), VERIF_OUT=f"{out}/{pid}-{seed}")
    t = time.time()
    r = subprocess.run([os.path.join(ROOT, "check"), pid, "--tier", tier], cwd=ROOT, env=env, capture_output=True, text=True)
    last = [l for l in r.stdout.strip().split("\n") if l and not l.startswith("KNOWN-FINDING")]
    return pid, seed, r.returncode, time.time() - t, (last[-1] if last else r.stderr[-300:])
bad = 0
with concurrent.futures.ThreadPoolExecutor(max_workers=jobs) as ex:
    for pid, seed, rc, dt, line in ex.map(one, [(p, s) for s in seeds for p in props]):
        tag = "ok " if rc == 0 else "BAD"
        if rc: bad += 1
        print(f"{tag} {pid} seed={seed} rc={rc} {dt:.0f}s {line[:200]}", flush=True)
print("bad runs:", bad)
sys.exit(1 if bad else 0)
