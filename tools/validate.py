#!/usr/bin/env python3
"""Validate MANIFEST.json and evidence/*.json against the schemas (needs jsonschema: run with python3-vt)."""
import json, sys, glob, jsonschema
ok = True
m = json.load(open('/verif/MANIFEST.json'))
try:
    jsonschema.validate(m, json.load(open('/root/.vp/MANIFEST.schema.json')))
    print('MANIFEST ok:', len(m['checks']), 'checks,', len(m.get('not_applicable', [])), 'not_applicable')
except Exception as e:
    ok = False; print('MANIFEST INVALID', e)
es = json.load(open('/root/.vp/EVIDENCE.schema.json'))
for f in sorted(glob.glob('/verif/evidence/*.json')):
    try:
        e = json.load(open(f)); jsonschema.validate(e, es)
        c = e['coverage']
        print(f.split('/')[-1], 'ok', e['tier'], 'obl', c.get('obligations'), 'dis', c.get('discharged'), 'eval', c.get('evaluations'), 'nontriv', c.get('distinct_nontrivial'), 'viol', e.get('violations'), 'wall', e['wall_s'])
    except Exception as ex:
        ok = False; print(f, 'INVALID', str(ex)[:300])
sys.exit(0 if ok else 1)
