#!/usr/bin/env python3
"""Confirm a seeded change produced by a sub-agent, in its scratch worktree, then import it.

  tools/confirm_seed.py <worktree> <outdir> <i> <seeded-id> [--features branchwater]

Checks: patch applies on the clean worktree; library still builds with --features branchwater; the
complete existing suite passes with it; the demonstration test fails with the patch and passes
without it.  On success writes /verif/seeded/<seeded-id>/{patch.diff,demo.rs,meta.json}."""
import sys, os, subprocess, json, shutil, re
def sh(cmd, cwd):
    return subprocess.run(cmd, cwd=cwd, shell=True, capture_output=True, text=True)
def main():
    a = sys.argv[1:]
    feats = ""
    if "--features" in a:
        i = a.index("--features"); feats = "--features " + a[i + 1]; del a[i:i + 2]
    wt, out, i, sid = a
    patch, demo, meta = f"{out}/patch{i}.diff", f"{out}/demo{i}.rs", f"{out}/meta{i}.json"
    ran = []
    def step(name, ok, detail=""):
        ran.append(f"{name}: {'ok' if ok else 'FAILED'} {detail}".strip())
        print(ran[-1], flush=True)
        return ok
    sh("git checkout -- . && git clean -fdq src", wt)
    tname = f"seed_demo_{re.sub(r'[^a-z0-9]', '_', sid.lower())}"
    tpath = f"{wt}/src/core/tests/{tname}.rs"
    try:
        shutil.copy(demo, tpath)
        r = sh(f"cargo test --offline {feats} --test {tname} 2>&1 | tail -5", wt + "/src/core")
        if not step("demo passes without the change", "test result: ok" in r.stdout, r.stdout[-300:] if "test result: ok" not in r.stdout else ""): return 1
        r = sh(f"git apply {patch}", wt)
        if not step("patch applies", r.returncode == 0, r.stderr[:200]): return 1
        r = sh(f"cargo test --offline {feats} --test {tname} 2>&1 | tail -8", wt + "/src/core")
        if not step("demo fails with the change", "test result: FAILED" in r.stdout or "panicked" in r.stdout or "error: test failed" in r.stdout or "SIGABRT" in r.stdout or "signal" in r.stdout, r.stdout[-300:]): return 1
        os.remove(tpath)
        r = sh("cargo test --offline --workspace --no-fail-fast 2>&1 | grep -E '^test result|FAILED|failed'", wt)
        npass = sum(int(m) for m in re.findall(r"(\d+) passed", r.stdout))
        nfail = sum(int(m) for m in re.findall(r"(\d+) failed", r.stdout))
        if not step("existing suite passes with the change", npass == 104 and nfail == 0, f"{npass} passed {nfail} failed"): return 1
        r = sh("cargo build --offline --features branchwater 2>&1 | tail -2", wt + "/src/core")
        if not step("builds with --features branchwater", "Finished" in r.stdout, r.stdout[-200:] if "Finished" not in r.stdout else ""): return 1
        d = f"/verif/seeded/{sid}"
        os.makedirs(d, exist_ok=True)
        shutil.copy(patch, d + "/patch.diff"); shutil.copy(demo, d + "/demo.rs")
        m = json.load(open(meta)) if os.path.exists(meta) else {}
        m["origin"] = "independent sub-agent given only the property text and a scratch worktree"
        m["agent_ran"] = m.pop("ran", [])
        m["confirmed"] = ran
        m.setdefault("detected_by", [])
        if feats: m["demo_features"] = feats
        json.dump(m, open(d + "/meta.json", "w"), indent=1)
        print("IMPORTED", d)
        return 0
    finally:
        if os.path.exists(tpath): os.remove(tpath)
        sh("git checkout -- . && git clean -fdq src", wt)
if __name__ == "__main__":
    sys.exit(main())
