#!/usr/bin/env python3
"""Try a seeded change against the checks WITHOUT touching /repo: apply the patch in a scratch
worktree, point a scratch copy of the harness at it, run ./check with the VERIF_* overrides.

  tools/mutest.py <patch.diff> Cxx [Cyy …] [--tier quick|thorough]

Prints one line per property: DETECTED (exit 1 + VIOLATION line), MISSED (exit 0) or ERROR.
Properties whose models use tables regenerated from the source (uses_generated) share
lean/Sourmash/Generated with the real checks, so run those only when nothing else is checking."""
import sys, os, subprocess, shutil, json, re, tempfile
ROOT = os.path.dirname(os.path.dirname(os.path.abspath(__file__)))
TARGET_MUT = None
def sh(*a, **k):
    return subprocess.run(a, capture_output=True, text=True, **k)
slot = 0
def main():
    global slot
    # a small pool of scratch target dirs (.cache/target-mut, -1, -2): each run takes a free slot
    # (or waits for slot 0); two runs never share a slot, so they cannot overwrite each other's
    # harness binaries
    import fcntl
    os.makedirs(os.path.join(ROOT, ".cache"), exist_ok=True)
    slot, lock = None, None
    for k in range(3):
        f = open(os.path.join(ROOT, ".cache", f"mutest{k}.lock"), "w")
        try:
            fcntl.flock(f, fcntl.LOCK_EX | fcntl.LOCK_NB)
            slot, lock = k, f
            break
        except OSError:
            f.close()
    if slot is None:
        lock = open(os.path.join(ROOT, ".cache", "mutest0.lock"), "w")
        fcntl.flock(lock, fcntl.LOCK_EX)
        slot = 0
    global TARGET_MUT
    TARGET_MUT = os.path.join(ROOT, ".cache", "target-mut" + ("" if slot == 0 else f"-{slot}"))
    args = sys.argv[1:]
    tier = "quick"
    if "--tier" in args:
        i = args.index("--tier"); tier = args[i + 1]; del args[i:i + 2]
    patch, props = os.path.abspath(args[0]), args[1:]
    tag = re.sub(r"\W+", "_", os.path.relpath(patch, ROOT))[-40:]
    # one fixed scratch path per slot: cargo then sees the same package every time (incremental
    # rebuilds, no pile-up of artefacts for ever new paths)
    wt = f"/tmp/mut-slot{slot}"
    sh("git", "-C", "/repo", "worktree", "remove", "--force", wt)
    shutil.rmtree(wt, ignore_errors=True)
    sh("git", "-C", "/repo", "worktree", "prune")
    out = wt + "-out"
    hz = wt + "-harness"
    try:
        r = sh("git", "-C", "/repo", "worktree", "add", "-q", "--detach", wt, "HEAD")
        if r.returncode: print("ERROR worktree", r.stderr); return 2
        r = sh("git", "-C", wt, "apply", patch)
        if r.returncode: print("ERROR apply", r.stderr); return 2
        shutil.copytree(os.path.join(ROOT, "harness"), hz)
        ct = open(os.path.join(hz, "Cargo.toml")).read().replace('/repo/src/core', wt + '/src/core')
        open(os.path.join(hz, "Cargo.toml"), "w").write(ct)
        env = dict(os.environ, VERIF_REPO=wt, VERIF_HARNESS_DIR=hz, VERIF_OUT=out,
                   VERIF_TARGET=TARGET_MUT, VERIF_TIER=tier)
        rc_all = 0
        for pid in props:
            r = sh(os.path.join(ROOT, "check"), pid, "--tier", tier, env=env, cwd=ROOT)
            viol = [l for l in r.stdout.split("\n") if l.startswith("VIOLATION")]
            if r.returncode == 1 and viol:
                kind = "no-failing-input-found" if all("no-failing-input-found" in v for v in viol) else "concrete replay"
                print(f"DETECTED {pid} ({kind}; {len(viol)} violation line(s))")
                for v in viol[:2]:
                    m = re.search(r"replay=(\S+)", v)
                    if m and os.path.exists(m.group(1)):
                        rp = json.load(open(m.group(1)))
                        print("   replay:", json.dumps({k: rp.get(k) for k in ("kind", "ops", "impl", "spec")})[:600])
                        if rp.get("no_longer_checks"): print("   no_longer_checks:", json.dumps(rp["no_longer_checks"])[:500])
            elif r.returncode == 0:
                print(f"MISSED {pid}: {r.stdout.strip().splitlines()[-1] if r.stdout.strip() else ''}")
            else:
                rc_all = 2
                print(f"ERROR {pid} rc={r.returncode}: {(r.stdout + r.stderr)[-800:]}")
        return rc_all
    finally:
        sh("git", "-C", "/repo", "worktree", "remove", "--force", wt)
        shutil.rmtree(hz, ignore_errors=True)
        shutil.rmtree(out, ignore_errors=True)
if __name__ == "__main__":
    sys.exit(main())
