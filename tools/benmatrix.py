#!/usr/bin/env python3
"""False-alarm probe: run every HARMLESS change under benign/<id>/ against the checks of the
properties whose anchored files it touches (meta.json `run_against`).  Every verdict should be
QUIET (exit 0, no VIOLATION line); an ALARM is either a check that demands more than its property
states (repair the machinery) or a change that is not harmless after all (set `"not_benign": "<why>"`
in its meta.json by hand).  Verdicts are recorded in benign/<id>/meta.json (`verdicts`).
  tools/benmatrix.py [--ids C01-b1,…] [--props C01,C02] [--log FILE] [--tier quick|thorough]"""
import sys, os, json, glob, subprocess, re
ROOT = os.path.dirname(os.path.dirname(os.path.abspath(__file__)))
def arg(n, d=None):
    return sys.argv[sys.argv.index(n) + 1] if n in sys.argv else d
ids = set(arg("--ids", "").split(",")) - {""}
force = set(arg("--props", "").split(",")) - {""}
tier = arg("--tier", "quick")
log = arg("--log", os.path.join(ROOT, ".cache", "benmatrix.log"))
with open(log, "a") as lf:
    for p in sorted(glob.glob(os.path.join(ROOT, "benign", "*", "meta.json"))):
        bid = p.split("/")[-2]
        if ids and bid not in ids: continue
        m = json.load(open(p))
        props = sorted(force) if force else m.get("run_against", [m.get("property")])
        lf.write(f"== {bid} -> {' '.join(props)}\n"); lf.flush()
        r = subprocess.run([os.path.join(ROOT, "tools", "mutest.py"), os.path.join(ROOT, "benign", bid, "patch.diff")] + props + ["--tier", tier],
                           capture_output=True, text=True)
        lf.write(r.stdout[:6000] + ("\n" if not r.stdout.endswith("\n") else "")); lf.flush()
        m = json.load(open(p))
        v = m.setdefault("verdicts", {})
        for line in r.stdout.split("\n"):
            mm = re.match(r"(DETECTED|MISSED|ERROR) (C\d+)(.*)", line)
            if mm:
                kind = "concrete replay" if "concrete replay" in mm.group(3) else ("no-failing-input-found" if "no-failing" in mm.group(3) else "")
                v[mm.group(2)] = {"MISSED": "QUIET", "DETECTED": f"ALARM ({kind})", "ERROR": "ERROR"}[mm.group(1)]
        json.dump(m, open(p, "w"), indent=1)
        print(bid, "|", " ; ".join(f"{k}={x}" for k, x in sorted(v.items()) if not force or k in force), flush=True)
