import Sourmash.Lemmas.IndexExtend
/-! Lemmas/IndexFault.lean (C09) — an extension that ABORTS part-way (some signatures cannot be loaded),
followed by the same extension again.  Core Lean only. -/
namespace RevIdx

/-- the ids `open` loads from a database whose PROCESSED key denotes `P` -/
theorem loadProcessed_ids {c : ManyCodec} (db : Db) (nOld : Nat)
    (hnone : db.processed = none → nOld = 0) :
    (loadProcessed c db nOld false).ids = lookupIds c db.processed := by
  unfold loadProcessed
  cases hp : db.processed with
  | some b => simp [lookupIds]
  | none => simp [hnone hp, Datasets.new, Datasets.ids, lookupIds]

/-- `create(C₁)`, then an extension to `C₁ ++ C₂` that ABORTS: only the tasks of the datasets `done` ran
(any subset of the new datasets, under any schedule and grouping) and the manifest was not written;
then `open` + `update(C₁ ++ C₂)` under any schedule and grouping: the sequential reference of
`C₁ ++ C₂` on HASHES and PROCESSED. -/
theorem update_after_aborted {c : ManyCodec} (hc : c.Lawful) (C₁ C₂ : Coll) (hn : (C₁ ++ C₂).length ≤ 2 ^ 32)
    {ρ : Type} [BEq ρ] [LawfulBEq ρ] (old ext : List ρ) (hold : old.length = C₁.length)
    (done : List Nat) (hdone : ∀ d ∈ done, C₁.length ≤ d ∧ d < (C₁ ++ C₂).length)
    (ch₁ ch₂ : List Nat) (g₁ gF g₂ : Grouping) (hg₁ : GroupingOK g₁) (hgF : GroupingOK gF) (hg₂ : GroupingOK g₂)
    (schedF : List Write) (hsF : Interleaving (programs (C₁ ++ C₂) done) schedF) :
    ∃ db, updateDb c (applyWrites c (createDb c C₁ ch₁ g₁) schedF gF) old (old ++ ext) (C₁ ++ C₂) ch₂ g₂ = some db ∧
      (∀ h, lookupIds c (db.hashes h) = refIds (C₁ ++ C₂) h) ∧
      lookupIds c db.processed = List.range (C₁ ++ C₂).length := by
  have hn₁ : C₁.length ≤ 2 ^ 32 := by simp at hn; omega
  have h1 := build_from_scratch hc C₁ hn₁ _ (runSchedule_interleaving ch₁ _) g₁ hg₁
  rw [← createDb_eq] at h1
  generalize createDb c C₁ ch₁ g₁ = db1 at h1
  obtain ⟨good1, hash1, proc1⟩ := h1
  let n := (C₁ ++ C₂).length
  have hlen : n = C₁.length + C₂.length := by simp [n]
  -- the aborted run
  have hdb : ∀ d ∈ done, d < 2 ^ 32 := by
    intro d hd; have := (hdone d hd).2; omega
  have hF := build_lookup hc db1 good1 (C₁ ++ C₂) done hdb schedF hsF gF hgF
  generalize applyWrites c db1 schedF gF = dbF at hF
  obtain ⟨goodF, hashF, procF⟩ := hF
  -- the processed set loaded by `open`
  have hnone : dbF.processed = none → old.length = 0 := by
    intro hp
    have h0 := (procF 0)
    rw [hp, proc1] at h0
    simp only [lookupIds, List.not_mem_nil, List.mem_range, false_iff, not_or] at h0
    rw [hold]; omega
  have hP : ∀ x, x ∈ (loadProcessed c dbF old.length false).ids ↔ (x < C₁.length ∨ x ∈ done) := by
    intro x
    rw [loadProcessed_ids dbF old.length hnone, procF x, proc1, List.mem_range]
  let ds := todo (loadProcessed c dbF old.length false) n
  have hds_mem : ∀ x, x ∈ ds ↔ x < n ∧ ¬ (x < C₁.length ∨ x ∈ done) := by
    intro x
    show x ∈ todo _ _ ↔ _
    rw [todo_mem, hP]
  have hds : ∀ d ∈ ds, d < 2 ^ 32 := by
    intro d hd
    have := ((hds_mem d).mp hd).1
    show d < 2 ^ 32
    omega
  have hb := build_lookup hc dbF goodF (C₁ ++ C₂) ds hds _ (runSchedule_interleaving ch₂ _) g₂ hg₂
  refine ⟨applyWrites c dbF (runSchedule (programs (C₁ ++ C₂) ds) ch₂) g₂, ?_, fun h => ?_, ?_⟩
  · unfold updateDb
    rw [checkSuperset_prefix, if_pos rfl]
    rfl
  · apply eq_of_sorted_of_mem (sorted_lookupIds hc (hb.1.1 h)) (sorted_refIds _ h)
    intro x
    rw [hb.2.1 h x, hashF h x, hash1 h, mem_refIds, mem_refIds, hds_mem]
    constructor
    · rintro ((⟨hx, hm⟩ | ⟨hx, hm⟩) | ⟨⟨hx, _⟩, hm⟩)
      · exact ⟨by show x < n; omega, by rw [getD_append_lt hx]; exact hm⟩
      · exact ⟨(hdone x hx).2, hm⟩
      · exact ⟨hx, hm⟩
    · rintro ⟨hx, hm⟩
      by_cases hlt : x < C₁.length
      · exact Or.inl (Or.inl ⟨hlt, by rw [getD_append_lt hlt] at hm; exact hm⟩)
      · by_cases hd : x ∈ done
        · exact Or.inl (Or.inr ⟨hd, hm⟩)
        · exact Or.inr ⟨⟨hx, by rintro (h | h); exact hlt h; exact hd h⟩, hm⟩
  · apply eq_of_sorted_of_mem (sorted_lookupIds hc hb.1.2) (sorted_range _)
    intro x
    rw [hb.2.2 x, procF x, proc1, hds_mem, List.mem_range, List.mem_range]
    constructor
    · rintro ((hx | hx) | ⟨hx, _⟩)
      · show x < n; omega
      · exact (hdone x hx).2
      · exact hx
    · intro hx
      by_cases hlt : x < C₁.length
      · exact Or.inl (Or.inl hlt)
      · by_cases hd : x ∈ done
        · exact Or.inl (Or.inr hd)
        · exact Or.inr ⟨hx, by rintro (h | h); exact hlt h; exact hd h⟩

end RevIdx
