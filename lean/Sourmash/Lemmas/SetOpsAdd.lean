import Sourmash.Lemmas.Downsample
/-! Lemmas/SetOpsAdd.lean — one `add_hash_with_abundance` on a scaled sketch (vector: binary search +
insert/push/bump; tree: set insert + map entry) is insert-with-add on the finite map; folding it over
a multiset of insertions gives "every hash under the ceiling, with its total abundance". -/
namespace SetOps
open SetSpec

/-- insert-with-add on a (key, abundance) list: what one `add_hash_with_abundance` does to the map -/
def insP : List (Nat × Nat) → Nat → Nat → List (Nat × Nat)
  | [], h, a => [(h, a)]
  | (k, v) :: t, h, a =>
    if h < k then (h, a) :: (k, v) :: t
    else if h = k then (k, v + a) :: t
    else (k, v) :: insP t h a

/-- the three-way branch of the vector update on the hash vector -/
def stepKeys (mins : List Nat) (h : Nat) : List Nat :=
  let p := pos mins h
  if p = mins.length then mins ++ [h]
  else if mins[p]? ≠ some h then insertAt mins p h
  else mins

/-- … and on the abundance vector -/
def stepAb (mins ab : List Nat) (h a : Nat) : List Nat :=
  let p := pos mins h
  if p = mins.length then ab ++ [a]
  else if mins[p]? ≠ some h then insertAt ab p a
  else bump ab p a

theorem pos_cons (y : Nat) (t : List Nat) (h : Nat) :
    pos (y :: t) h = if y < h then pos t h + 1 else 0 := by
  unfold pos
  by_cases hy : y < h <;> simp [hy]

theorem stepKeys_eq (mins : List Nat) (h : Nat) : stepKeys mins h = insertU h mins := by
  induction mins with
  | nil => simp [stepKeys, pos, insertU]
  | cons y t ih =>
    unfold stepKeys at ih ⊢
    simp only [pos_cons, insertU]
    by_cases h1 : h < y
    · have : ¬ y < h := by omega
      have hne : y ≠ h := by omega
      simp [this, h1, insertAt, hne]
    · by_cases h2 : h = y
      · subst h2
        simp [insertAt]
      · have h3 : y < h := by omega
        simp only [h3, if_true, h1, h2, if_false, List.length_cons, Nat.add_right_cancel_iff,
          List.getElem?_cons_succ, List.cons_append]
        rw [← ih]
        by_cases e1 : pos t h = t.length
        · simp [e1]
        · simp only [e1, if_false]
          by_cases e2 : t[pos t h]? = some h
          · simp [e2]
          · simp [e2, insertAt]

theorem stepPairs_eq (mins ab : List Nat) (h a : Nat) (hl : ab.length = mins.length) :
    (stepKeys mins h).zip (stepAb mins ab h a) = insP (mins.zip ab) h a := by
  induction mins generalizing ab with
  | nil =>
    cases ab with
    | nil => simp [stepKeys, stepAb, pos, insP]
    | cons _ _ => simp at hl
  | cons y t ih =>
    cases ab with
    | nil => simp at hl
    | cons v vs =>
      have hl' : vs.length = t.length := by simpa using hl
      have ih' := ih vs hl'
      unfold stepKeys stepAb at ih' ⊢
      simp only [pos_cons, List.zip_cons_cons, insP]
      by_cases h1 : h < y
      · have : ¬ y < h := by omega
        have hne : y ≠ h := by omega
        simp [this, h1, insertAt, hne]
      · by_cases h2 : h = y
        · subst h2
          simp [insertAt, bump]
        · have h3 : y < h := by omega
          simp only [h3, if_true, h1, h2, if_false, List.length_cons, Nat.add_right_cancel_iff,
            List.getElem?_cons_succ, List.cons_append]
          rw [← ih']
          by_cases e1 : pos t h = t.length
          · simp [e1]
          · simp only [e1, if_false]
            by_cases e2 : t[pos t h]? = some h
            · simp [e2, bump]
            · simp [e2, insertAt]

theorem pos_le (l : List Nat) (h : Nat) : pos l h ≤ l.length := by
  induction l with
  | nil => simp [pos]
  | cons y t ih => rw [pos_cons]; split <;> simp <;> omega

theorem stepAb_length (mins ab : List Nat) (h a : Nat) (hl : ab.length = mins.length) :
    (stepAb mins ab h a).length = (stepKeys mins h).length := by
  have hp := pos_le mins h
  unfold stepAb stepKeys
  by_cases e1 : pos mins h = mins.length
  · simp [e1, hl]
  · simp only [e1, if_false]
    by_cases e2 : mins[pos mins h]? = some h
    · simp only [e2, ne_eq, not_true_eq_false, if_false, bump]
      have : pos mins h < ab.length := by omega
      rcases hd : ab.drop (pos mins h) with _ | ⟨v, t⟩
      · simp at hd; omega
      · have hlen := congrArg List.length hd
        simp only [List.length_drop, List.length_cons] at hlen
        simp only [List.length_append, List.length_take, List.length_cons]
        omega
    · simp only [e2, ne_eq, not_false_eq_true, if_true, insertAt, List.length_append, List.length_take,
        List.length_cons, List.length_drop]
      omega

theorem insP_keys (p : List (Nat × Nat)) (h a : Nat) : (insP p h a).map Prod.fst = insertU h (p.map Prod.fst) := by
  fun_induction insP p h a <;> grind [insertU]

theorem look_insP {p : List (Nat × Nat)} (hp : SInc (p.map Prod.fst)) (h a x : Nat) :
    look (insP p h a) x = look p x + if x = h then a else 0 := by
  fun_induction insP p h a <;> grind [look, sinc_cons, look_of_not_mem]

/-- what one insertion must do to a scaled sketch (`num = 0`, ceiling `≠ 0`, abundance `≠ 0`) -/
def addSpec (t : Sk) (h a : Nat) : Sk :=
  if h ≤ t.maxHash then
    { t with mins := stepKeys t.mins h, abunds := t.abunds.map (fun ab => stepAb t.mins ab h a) }
  else t

theorem add_scaled (k : Kind) {t : Sk} {h a : Nat} (hn : t.num = 0) (hM : t.maxHash ≠ 0) (hw : t.WF)
    (ha : a ≠ 0) : t.add k h a = addSpec t h a := by
  unfold addSpec
  by_cases hle : h ≤ t.maxHash
  · simp only [hle, if_true]
    have hgt : ¬ (h > t.maxHash ∧ t.maxHash ≠ 0) := by omega
    have h2 : ¬ (t.num = 0 ∧ t.maxHash = 0) := by omega
    cases k with
    | vec =>
      simp only [Sk.add, Sk.addV, hgt, h2, ha, if_false]
      by_cases he : t.mins = []
      · simp [he, stepKeys, stepAb, pos]
      · simp only [he, if_false, hle, true_or, if_true, hn, ne_eq, not_true_eq_false, false_and, stepKeys, stepAb]
        by_cases e1 : pos t.mins h = t.mins.length
        · simp [e1]
        · simp only [e1, if_false]
          by_cases e2 : t.mins[pos t.mins h]? = some h
          · simp [e2]
          · simp [e2]
    | tree =>
      simp only [Sk.add, Sk.addT, hgt, h2, ha, if_false]
      by_cases he : t.mins = []
      · simp only [he, if_true, stepKeys, stepAb, pos, List.takeWhile_nil, List.length_nil, List.nil_append]
        cases hab : t.abunds with
        | none => simp
        | some ab =>
          have := hw.2 ab hab
          simp only [he, List.length_nil, List.length_eq_zero_iff] at this
          simp [this]
      · simp only [he, if_false, hle, true_or, if_true, hn, ne_eq, not_true_eq_false, false_and, stepKeys, stepAb]
        by_cases e1 : pos t.mins h = t.mins.length
        · have hnew : t.mins[t.mins.length]? ≠ some h := by simp
          simp only [e1, hnew, ne_eq, not_false_eq_true, if_true, insertAt_length]
          cases hab : t.abunds with
          | none => simp
          | some ab =>
            have := hw.2 ab hab
            simp only [Option.map_some]
            rw [← this, insertAt_length]
        · simp only [e1, if_false]
  · simp only [hle, if_false]
    have hgt : (h > t.maxHash ∧ t.maxHash ≠ 0) := by omega
    cases k <;> simp [Sk.add, Sk.addV, Sk.addT, hgt]

theorem addSpec_wf {t : Sk} (h a : Nat) (hw : t.WF) : (addSpec t h a).WF := by
  unfold addSpec; split
  · refine ⟨?_, ?_⟩
    · show SInc (stepKeys t.mins h); rw [stepKeys_eq]; exact sinc_insertU h hw.1
    · intro ab hab
      simp only [Option.map_eq_some_iff] at hab
      obtain ⟨ab0, h0, rfl⟩ := hab
      exact stepAb_length _ _ _ _ (hw.2 ab0 h0)
  · exact hw

theorem addSpec_mins (t : Sk) (h a : Nat) :
    (addSpec t h a).mins = if h ≤ t.maxHash then insertU h t.mins else t.mins := by
  unfold addSpec; split <;> simp [stepKeys_eq]

theorem addSpec_ab {t : Sk} (h a x : Nat) (hw : t.WF) (ht : t.abunds.isSome) :
    (addSpec t h a).ab x = t.ab x + if x = h ∧ h ≤ t.maxHash then a else 0 := by
  obtain ⟨ab, hab⟩ := Option.isSome_iff_exists.1 ht
  unfold addSpec
  by_cases hle : h ≤ t.maxHash
  · simp only [hle, if_true, and_true, Sk.ab, Sk.pairs, hab, Option.map_some]
    rw [stepPairs_eq _ _ _ _ (hw.2 ab hab), look_insP]
    rw [List.map_fst_zip (by have := hw.2 ab hab; omega)]; exact hw.1
  · simp [hle]

theorem total_nil (x : Nat) : total [] x = 0 := rfl
theorem total_cons (p : Nat × Nat) (items : List (Nat × Nat)) (x : Nat) :
    total (p :: items) x = (if p.1 = x then p.2 else 0) + total items x := by
  unfold total
  by_cases h : p.1 = x <;> simp [List.filter_cons, h]
theorem total_append (l1 l2 : List (Nat × Nat)) (x : Nat) : total (l1 ++ l2) x = total l1 x + total l2 x := by
  simp [total, List.sum_append]
theorem total_belowP (m : Nat) (items : List (Nat × Nat)) (x : Nat) :
    total (belowP m items) x = if x ≤ m then total items x else 0 := by
  induction items with
  | nil => simp [belowP, total_nil]
  | cons p t ih =>
    unfold belowP at ih ⊢
    by_cases hp : p.1 ≤ m
    · simp only [List.filter_cons, hp, decide_true, if_true, total_cons, ih]
      by_cases hx : x ≤ m <;> simp [hx]; omega
    · simp only [List.filter_cons, hp, decide_false, Bool.false_eq_true, if_false, total_cons, ih]
      by_cases hx : x ≤ m <;> simp [hx]; omega

/-- the standing facts about a scaled sketch under insertion -/
def Sc (t : Sk) : Prop := t.WF ∧ t.num = 0 ∧ t.maxHash ≠ 0

theorem addSpec_params (t : Sk) (h a : Nat) :
    (addSpec t h a).num = t.num ∧ (addSpec t h a).maxHash = t.maxHash ∧ (addSpec t h a).ksize = t.ksize ∧
    (addSpec t h a).seed = t.seed ∧ (addSpec t h a).mol = t.mol ∧
    (addSpec t h a).abunds.isSome = t.abunds.isSome := by
  unfold addSpec; split <;> simp

theorem fold_scaled (k : Kind) (items : List (Nat × Nat)) (t : Sk) (hs : Sc t)
    (hpos : ∀ p ∈ items, p.2 ≠ 0) :
    Sc (t.addManyAb k items) ∧ (t.addManyAb k items).maxHash = t.maxHash ∧
    (t.addManyAb k items).ksize = t.ksize ∧ (t.addManyAb k items).seed = t.seed ∧
    (t.addManyAb k items).mol = t.mol ∧ (t.addManyAb k items).abunds.isSome = t.abunds.isSome ∧
    (∀ z, z ∈ (t.addManyAb k items).mins ↔ z ∈ t.mins ∨ ∃ p ∈ items, p.1 = z ∧ z ≤ t.maxHash) ∧
    (t.abunds.isSome → ∀ x, (t.addManyAb k items).ab x = t.ab x + total (belowP t.maxHash items) x) := by
  induction items generalizing t with
  | nil => simp [Sk.addManyAb, hs, belowP, total_nil]
  | cons p rest ih =>
    obtain ⟨hw, hn, hM⟩ := hs
    have hstep : t.addManyAb k (p :: rest) = (addSpec t p.1 p.2).addManyAb k rest := by
      simp only [Sk.addManyAb, List.foldl_cons]
      rw [add_scaled k hn hM hw (hpos p (by simp))]
    obtain ⟨q1, q2, q3, q4, q5, q6⟩ := addSpec_params t p.1 p.2
    have hs' : Sc (addSpec t p.1 p.2) := ⟨addSpec_wf _ _ hw, by rw [q1]; exact hn, by rw [q2]; exact hM⟩
    obtain ⟨r1, r2, r3, r4, r5, r6, r7, r8⟩ := ih _ hs' (fun q hq => hpos q (by simp [hq]))
    rw [hstep]
    refine ⟨r1, by rw [r2, q2], by rw [r3, q3], by rw [r4, q4], by rw [r5, q5], by rw [r6, q6], ?_, ?_⟩
    · intro z
      rw [r7, q2, addSpec_mins]
      by_cases hle : p.1 ≤ t.maxHash
      · simp only [hle, if_true, mem_insertU, List.mem_cons, exists_eq_or_imp]
        constructor
        · rintro ((rfl | h1) | h2)
          · right; left; exact ⟨rfl, hle⟩
          · left; exact h1
          · right; right; exact h2
        · rintro (h1 | ⟨rfl, _⟩ | h2)
          · left; right; exact h1
          · left; left; rfl
          · right; exact h2
      · simp only [hle, if_false, List.mem_cons, exists_eq_or_imp]
        constructor
        · rintro (h1 | h2)
          · left; exact h1
          · right; right; exact h2
        · rintro (h1 | ⟨rfl, h3⟩ | h2)
          · left; exact h1
          · exact absurd h3 hle
          · right; exact h2
    · intro ht x
      rw [r8 (by rw [q6]; exact ht), q2, addSpec_ab _ _ _ hw ht]
      have : belowP t.maxHash (p :: rest) = if p.1 ≤ t.maxHash then p :: belowP t.maxHash rest else belowP t.maxHash rest := by
        simp only [belowP, List.filter_cons]
        by_cases hle : p.1 ≤ t.maxHash <;> simp [hle]
      rw [this]
      by_cases hle : p.1 ≤ t.maxHash
      · simp only [hle, if_true, and_true, total_cons]
        by_cases hx : x = p.1
        · subst hx; simp; omega
        · have : ¬ p.1 = x := fun e => hx e.symm
          simp [hx, this]
      · simp [hle]
end SetOps
