import Sourmash.Model.Datasets
import Sourmash.Spec.Index
/-! Lemmas/Datasets.lean — sorted-list facts for the `RoaringBitmap` model, well-formedness and set
semantics of `Datasets::{new, union, extend}`, canonicity.  Core Lean only. -/
namespace RevIdx

/-! ### insertId / insertAll -/

theorem mem_insertId {x y : Nat} {l : List Nat} : y ∈ insertId x l ↔ y = x ∨ y ∈ l := by
  induction l with
  | nil => simp [insertId]
  | cons a t ih =>
    simp only [insertId]
    split
    · simp
    · split
      · subst_vars; simp
      · simp only [List.mem_cons, ih]
        constructor
        · rintro (h | h | h) <;> simp [h]
        · rintro (h | h | h) <;> simp [h]

theorem sorted_insertId {x : Nat} {l : List Nat} (h : Sorted l) : Sorted (insertId x l) := by
  induction l with
  | nil => simp [insertId, Sorted]
  | cons a t ih =>
    simp only [insertId]
    have ⟨ha, ht⟩ := List.pairwise_cons.mp h
    split
    · rename_i hx
      refine List.pairwise_cons.mpr ⟨?_, h⟩
      intro b hb
      rcases List.mem_cons.mp hb with rfl | hb
      · exact hx
      · exact Nat.lt_trans hx (ha b hb)
    · split
      · exact h
      · rename_i h1 h2
        refine List.pairwise_cons.mpr ⟨?_, ih ht⟩
        intro b hb
        rcases mem_insertId.mp hb with rfl | hb
        · omega
        · exact ha b hb

theorem length_le_insertId (x : Nat) (l : List Nat) : l.length ≤ (insertId x l).length := by
  induction l with
  | nil => simp [insertId]
  | cons a t ih =>
    simp only [insertId]
    split
    · simp
    · split
      · simp
      · simp only [List.length_cons]; omega

theorem mem_insertAll {y : Nat} {xs l : List Nat} : y ∈ insertAll l xs ↔ y ∈ l ∨ y ∈ xs := by
  induction xs generalizing l with
  | nil => simp [insertAll]
  | cons a t ih =>
    simp only [insertAll, List.foldl_cons] at ih ⊢
    rw [ih, mem_insertId, List.mem_cons]
    constructor
    · rintro ((h | h) | h) <;> simp [h]
    · rintro (h | h | h) <;> simp [h]

theorem sorted_insertAll {xs l : List Nat} (h : Sorted l) : Sorted (insertAll l xs) := by
  induction xs generalizing l with
  | nil => simpa [insertAll]
  | cons a t ih =>
    simp only [insertAll, List.foldl_cons] at ih ⊢
    exact ih (sorted_insertId h)

theorem length_le_insertAll (xs l : List Nat) : l.length ≤ (insertAll l xs).length := by
  induction xs generalizing l with
  | nil => simp [insertAll]
  | cons a t ih =>
    simp only [insertAll, List.foldl_cons] at ih ⊢
    exact Nat.le_trans (length_le_insertId a l) (ih _)

/-- strictly increasing lists with the same members are equal -/
theorem sorted_ext : ∀ {a b : List Nat}, Sorted a → Sorted b → (∀ x, x ∈ a ↔ x ∈ b) → a = b
  | [], [], _, _, _ => rfl
  | [], y :: _, _, _, h => by have := (h y).mpr (by simp); simp at this
  | x :: _, [], _, _, h => by have := (h x).mp (by simp); simp at this
  | x :: s, y :: t, ha, hb, h => by
    have ⟨hx, hs⟩ := List.pairwise_cons.mp ha
    have ⟨hy, ht⟩ := List.pairwise_cons.mp hb
    have hxy : x = y := by
      have h1 := (h x).mp (by simp)
      have h2 := (h y).mpr (by simp)
      rcases List.mem_cons.mp h1 with e | h1
      · exact e
      · rcases List.mem_cons.mp h2 with e | h2
        · exact e.symm
        · have := hy x h1; have := hx y h2; omega
    subst hxy
    congr 1
    apply sorted_ext hs ht
    intro z
    constructor
    · intro hz
      rcases List.mem_cons.mp ((h z).mp (List.mem_cons_of_mem _ hz)) with e | h'
      · have := hx z hz; omega
      · exact h'
    · intro hz
      rcases List.mem_cons.mp ((h z).mpr (List.mem_cons_of_mem _ hz)) with e | h'
      · have := hy z hz; omega
      · exact h'

theorem strictlyInc_iff : ∀ {l : List Nat}, strictlyInc l = true ↔ Sorted l
  | [] => by simp [strictlyInc, Sorted]
  | [_] => by simp [strictlyInc, Sorted]
  | a :: b :: t => by
    simp only [strictlyInc, Bool.and_eq_true, decide_eq_true_eq, strictlyInc_iff (l := b :: t)]
    constructor
    · rintro ⟨hab, h⟩
      refine List.pairwise_cons.mpr ⟨?_, h⟩
      intro c hc
      rcases List.mem_cons.mp hc with rfl | hc
      · exact hab
      · exact Nat.lt_trans hab ((List.pairwise_cons.mp h).1 c hc)
    · intro h
      have ⟨h1, h2⟩ := List.pairwise_cons.mp h
      exact ⟨h1 b (by simp), h2⟩

/-! ### well-formedness and denoted sets -/

namespace Datasets

/-- the invariant of the representation: `Many` holds a strictly increasing list of ≥ 2 ids -/
def WF : Datasets → Prop
  | many vs => Sorted vs ∧ 2 ≤ vs.length
  | _ => True

/-- ids fit `Idx = u32` -/
def Bounded (d : Datasets) : Prop := ∀ x ∈ d.ids, x < 2 ^ 32

theorem wf_pair {u v : Nat} (h : u ≠ v) : WF (many (insertId v (insertId u []))) := by
  refine ⟨sorted_insertId (sorted_insertId (by simp [Sorted])), ?_⟩
  simp only [insertId]
  split
  · simp
  · split
    · omega
    · simp

theorem new_wf {vals : List Nat} {d : Datasets} (h : Datasets.new vals = some d) : d.WF := by
  unfold Datasets.new at h
  split at h
  · cases h; trivial
  · cases h; trivial
  · split at h
    · rename_i hs
      cases h
      refine ⟨strictlyInc_iff.mp hs, ?_⟩
      rename_i h1 h2
      match vals, h1, h2 with
      | [], h1, _ => exact absurd rfl h1
      | [v], _, h2 => exact absurd rfl (h2 v)
      | _ :: _ :: _, _, _ => simp
    · cases h

theorem new_ids {vals : List Nat} {d : Datasets} (h : Datasets.new vals = some d) : d.ids = vals := by
  unfold Datasets.new at h
  split at h
  · cases h; rfl
  · cases h; rfl
  · split at h
    · cases h; rfl
    · cases h

theorem union_wf {a b : Datasets} (ha : a.WF) (hb : b.WF) : (a.union b).WF := by
  cases a with
  | empty => cases b <;> simpa [union] using hb
  | unique v =>
    cases b with
    | empty => trivial
    | unique o =>
      simp only [union]
      split
      · rename_i h; exact wf_pair h
      · trivial
    | many o =>
      simp only [union]
      exact ⟨sorted_insertId hb.1, Nat.le_trans hb.2 (length_le_insertId v o)⟩
  | many v =>
    simp only [union]
    exact ⟨sorted_insertAll ha.1, Nat.le_trans ha.2 (length_le_insertAll _ v)⟩

theorem mem_union {a b : Datasets} {x : Nat} : x ∈ (a.union b).ids ↔ x ∈ a.ids ∨ x ∈ b.ids := by
  cases a with
  | empty => cases b <;> simp [union, ids]
  | unique v =>
    cases b with
    | empty => simp [union, ids]
    | unique o =>
      simp only [union]
      split
      · simp [ids, mem_insertId]; constructor <;> (rintro (h | h) <;> simp [h])
      · rename_i h; simp at h; subst h; simp [ids]
    | many o => simp [union, ids, mem_insertId]
  | many v => simp [union, ids, mem_insertAll]

theorem extendLoop_wf : ∀ {a : Datasets} {it : List Nat}, a.WF → (a.extendLoop it).WF
  | a, [], h => by unfold extendLoop; exact h
  | empty, v :: it, _ => by unfold extendLoop; exact extendLoop_wf (a := unique v) trivial
  | unique u, v :: it, _ => by
    unfold extendLoop
    split
    · rename_i h; exact extendLoop_wf (wf_pair h)
    · exact extendLoop_wf (a := unique u) trivial
  | many vs, v :: it, h => by
    unfold extendLoop
    exact ⟨sorted_insertAll h.1, Nat.le_trans h.2 (length_le_insertAll _ vs)⟩

theorem extend_wf {a : Datasets} {it : List Nat} (h : a.WF) : (a.extend it).WF := by
  cases a with
  | many vs => exact ⟨sorted_insertAll h.1, Nat.le_trans h.2 (length_le_insertAll _ vs)⟩
  | empty => exact extendLoop_wf h
  | unique u => exact extendLoop_wf h

/-- what the index build uses: extending by a single id adds exactly that id -/
theorem mem_extend_single {a : Datasets} {d x : Nat} : x ∈ (a.extend [d]).ids ↔ x ∈ a.ids ∨ x = d := by
  cases a with
  | empty => simp [extend, extendLoop, ids]
  | unique u =>
    simp only [extend, extendLoop]
    split
    · simp [ids, mem_insertId]; constructor <;> (rintro (h | h) <;> simp [h])
    · rename_i h; simp at h; subst h; simp [ids]
  | many vs => simp [extend, ids, mem_insertAll]

/-- two well-formed values denoting the same set are the same value -/
theorem canonical {a b : Datasets} (ha : a.WF) (hb : b.WF) (h : ∀ x, x ∈ a.ids ↔ x ∈ b.ids) : a = b := by
  have two : ∀ {vs : List Nat}, Sorted vs → 2 ≤ vs.length → ∃ p q, p ≠ q ∧ p ∈ vs ∧ q ∈ vs := by
    intro vs hs hl
    match vs, hs, hl with
    | p :: q :: _, hs, _ =>
      refine ⟨p, q, ?_, by simp, by simp⟩
      have := (List.pairwise_cons.mp hs).1 q (by simp); omega
  cases a with
  | empty =>
    cases b with
    | empty => rfl
    | unique v => have := (h v).mpr (by simp [ids]); simp [ids] at this
    | many vs =>
      obtain ⟨p, _, _, hp, _⟩ := two hb.1 hb.2
      have := (h p).mpr hp; simp [ids] at this
  | unique u =>
    cases b with
    | empty => have := (h u).mp (by simp [ids]); simp [ids] at this
    | unique v => have := (h u).mp (by simp [ids]); simp [ids] at this; rw [this]
    | many vs =>
      obtain ⟨p, q, hpq, hp, hq⟩ := two hb.1 hb.2
      have h1 := (h p).mpr hp; have h2 := (h q).mpr hq
      simp [ids] at h1 h2; omega
  | many us =>
    cases b with
    | empty =>
      obtain ⟨p, _, _, hp, _⟩ := two ha.1 ha.2
      have := (h p).mp hp; simp [ids] at this
    | unique v =>
      obtain ⟨p, q, hpq, hp, hq⟩ := two ha.1 ha.2
      have h1 := (h p).mp hp; have h2 := (h q).mp hq
      simp [ids] at h1 h2; omega
    | many vs => rw [sorted_ext ha.1 hb.1 h]

theorem union_bounded {a b : Datasets} (ha : a.Bounded) (hb : b.Bounded) : (a.union b).Bounded := by
  intro x hx
  rcases mem_union.mp hx with h | h
  · exact ha x h
  · exact hb x h

end Datasets
end RevIdx
