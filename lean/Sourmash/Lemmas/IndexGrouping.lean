import Sourmash.Lemmas.IndexBuild
/-! Lemmas/IndexGrouping.lean (C09) — the operand groupings the driver exercises (`chunkGrouping`: full
merges of `k1` operands, partial merges of `k2` adjacent operands inside, optionally nested) are merge
forests over exactly the written operands.  Core Lean only. -/
namespace RevIdx

theorem chunks_go_flatten {α : Type} (k : Nat) (hk : k ≠ 0) : ∀ (fuel : Nat) (l : List α), l.length ≤ fuel →
    (chunks.go k fuel l).flatten = l
  | 0, l, h => by
    have : l = [] := List.length_eq_zero_iff.mp (by omega)
    subst this
    simp [chunks.go]
  | fuel + 1, [], _ => by simp [chunks.go]
  | fuel + 1, a :: t, h => by
    have hlen : ((a :: t).drop k).length ≤ fuel := by
      rw [List.length_drop]; simp only [List.length_cons] at h ⊢; omega
    simp only [chunks.go, List.flatten_cons, chunks_go_flatten k hk fuel _ hlen, List.take_append_drop]

theorem chunks_flatten {α : Type} (k : Nat) (l : List α) : (chunks k l).flatten = l := by
  unfold chunks
  by_cases hk : k = 0
  · simp only [hk, if_true]
    by_cases hl : l.isEmpty = true
    · simp [List.isEmpty_iff.mp hl]
    · simp [hl]
  · simp only [hk, if_false]
    exact chunks_go_flatten k hk _ l (Nat.le_refl _)

theorem leavesList_map_leaf (l : List Bytes) : MTree.leavesList (l.map MTree.leaf) = l := by
  induction l with
  | nil => rfl
  | cons a t ih => simp [MTree.leavesList, MTree.leaves, ih]

theorem leaves_partTree (deep : Bool) (part : List Bytes) : (partTree deep part).leaves = part := by
  unfold partTree
  split
  · simp [MTree.leaves]
  · cases deep
    · simp [MTree.leaves, leavesList_map_leaf]
    · simp [MTree.leaves, MTree.leavesList, leavesList_map_leaf]

theorem leavesList_parts (deep : Bool) : ∀ parts : List (List Bytes),
    MTree.leavesList (parts.map (partTree deep)) = parts.flatten
  | [] => rfl
  | part :: rest => by
    rw [List.map_cons, MTree.leavesList, leavesList_parts deep rest, List.flatten_cons, leaves_partTree]

theorem map_groups (k2 : Nat) (deep : Bool) : ∀ gs : List (List Bytes),
    (gs.map (fun grp => (chunks k2 grp).map (partTree deep))).map MTree.leavesList = gs
  | [] => rfl
  | g :: t => by
    rw [List.map_cons, List.map_cons, map_groups k2 deep t, leavesList_parts, chunks_flatten]

/-- the driver's groupings satisfy the hypothesis of the schedule-freedom theorems -/
theorem chunkGrouping_ok (k1 k2 : Nat) (deep : Bool) : GroupingOK (chunkGrouping k1 k2 deep) := by
  intro key ops
  have : forestLeaves (chunkGrouping k1 k2 deep key ops) = ops := by
    unfold forestLeaves chunkGrouping
    rw [map_groups, chunks_flatten]
  rw [this]

end RevIdx
