import Sourmash.Lemmas.SeqTables
/-! Lemmas/SeqDna.lean — the DNA arm of `SeqToHashes.next`: validity cursor invariant, the backwards
reverse-complement window, `std::cmp::min` on slices, and the stream refinement. -/
namespace Seq
open Kmers (Mol)

/-! ### lexicographic order -/

theorem lexLt_iff (a b : List UInt8) : lexLt a b = true ↔ a < b := by
  induction a generalizing b with
  | nil =>
    cases b with
    | nil => simp [lexLt, List.lt_irrefl]
    | cons y ys => simp [lexLt, List.nil_lt_cons]
  | cons x xs ih =>
    cases b with
    | nil => simp [lexLt, List.not_lt_nil]
    | cons y ys =>
      rw [List.cons_lt_cons_iff]
      unfold lexLt
      by_cases h1 : x < y
      · simp [h1]
      · by_cases h2 : y < x
        · have hne : x ≠ y := by
            intro e; subst e; exact UInt8.lt_irrefl _ h2
          simp [h1, h2, hne]
        · have e : x = y := UInt8.le_antisymm (UInt8.not_lt.mp h2) (UInt8.not_lt.mp h1)
          subst e
          simp [h1, ih]

theorem lexMin_eq_canonical (w : List UInt8) : lexMin w (revcomp w) = Kmers.canonical w := by
  unfold lexMin Kmers.canonical
  rw [← Tables.revcomp_eq]
  by_cases h : revcomp w < w
  · rw [if_pos h, if_pos ((lexLt_iff _ _).mpr h)]
  · rw [if_neg h]
    have : ¬ (lexLt (revcomp w) w = true) := fun h' => h ((lexLt_iff _ _).mp h')
    simp [this]

/-! ### the validity scan -/

theorem scan_spec (u : List UInt8) : ∀ (n j lc : Nat),
    ((scan u j n lc).1 = true ↔ ∀ i, i < n → valid (u.getD (j + i) 0) = true)
    ∧ lc ≤ (scan u j n lc).2 ∧ (scan u j n lc).2 ≤ lc + n
    ∧ ∀ i, i < (scan u j n lc).2 - lc → valid (u.getD (j + i) 0) = true := by
  intro n
  induction n with
  | zero => intro j lc; simp [scan]
  | succ n ih =>
    intro j lc
    unfold scan
    by_cases hv : valid (u.getD j 0) = true
    · simp only [hv, Bool.not_true, Bool.false_eq_true, if_false]
      obtain ⟨h1, h2, h3, h4⟩ := ih (j + 1) (lc + 1)
      refine ⟨?_, by omega, by omega, ?_⟩
      · rw [h1]
        constructor
        · intro h i hi
          cases i with
          | zero => simpa using hv
          | succ i =>
            have := h i (by omega)
            rwa [show j + 1 + i = j + (i + 1) by omega] at this
        · intro h i hi
          have := h (i + 1) (by omega)
          rwa [show j + (i + 1) = j + 1 + i by omega] at this
      · intro i hi
        cases i with
        | zero => simpa using hv
        | succ i =>
          have := h4 i (by omega)
          rwa [show j + 1 + i = j + (i + 1) by omega] at this
    · simp only [hv, Bool.not_false, if_true]
      refine ⟨?_, by omega, by omega, ?_⟩
      · constructor
        · intro h; cases h
        · intro h; exact absurd (by simpa using h 0 (by omega)) hv
      · intro i hi; omega

/-! ### windows -/

/-- the k-mer at position i -/
def kmerAt (u : List UInt8) (k i : Nat) : List UInt8 := (u.drop i).take k

theorem kmerAt_all (p : UInt8 → Bool) (u : List UInt8) (k i : Nat) (h : i + k ≤ u.length) :
    (kmerAt u k i).all p = true ↔ ∀ t, t < k → p (u.getD (i + t) 0) = true := by
  unfold kmerAt
  rw [List.all_eq_true]
  constructor
  · intro hall t ht
    have hlen : t < ((u.drop i).take k).length := by simp [List.length_take, List.length_drop]; omega
    have := hall (((u.drop i).take k)[t]) (List.getElem_mem hlen)
    rw [List.getElem_take, List.getElem_drop] at this
    rw [List.getD_eq_getElem?_getD, List.getElem?_eq_getElem (by omega)]
    simpa using this
  · intro hp x hx
    obtain ⟨t, ht, rfl⟩ := List.mem_iff_getElem.mp hx
    have ht' : t < k ∧ i + t < u.length := by
      simp [List.length_take, List.length_drop] at ht; omega
    have := hp t ht'.1
    rw [List.getD_eq_getElem?_getD, List.getElem?_eq_getElem ht'.2] at this
    rw [List.getElem_take, List.getElem_drop]
    simpa using this

/-- the backwards window over the pre-computed reverse complement is the reverse complement of the
    forward window (the index table drawn in the Rust comment) -/
theorem rc_window (u : List UInt8) (k i : Nat) (h : i + k ≤ u.length) :
    ((revcomp u).drop (u.length - k - i)).take k = revcomp (kmerAt u k i) := by
  unfold revcomp kmerAt
  rw [← List.map_drop, ← List.map_take]
  congr 1
  rw [List.drop_reverse, List.take_reverse]
  congr 1
  rw [List.length_take, List.drop_take]
  have e1 : u.length - (u.length - k - i) = i + k := by omega
  rw [e1]
  have e2 : min (i + k) u.length - k = i := by omega
  rw [e2]
  congr 1
  omega

/-! ### the DNA states -/

/-- every state a DNA-mode iterator over the upper-cased sequence `u` can be in -/
def dnaSt (u : List UInt8) (k : Nat) (seed : UInt64) (force : Bool) (ki : Nat) (cfg : Bool) (lc : Nat) : St :=
  { sequence := u, kmerIndex := ki, kSize := k, maxIndex := u.length + 1 - k, force := force,
    isProtein := false, mol := .dna, seed := seed, hashesBuffer := [],
    dnaConfigured := cfg, dnaRc := if cfg then revcomp u else [],
    dnaKsize := if cfg then k else 0, dnaLen := if cfg then u.length else 0,
    dnaLastPositionCheck := lc, aaSeq := [], translateIterStep := 0 }

theorem new_dna (seq : List UInt8) (k : Nat) (seed : UInt64) (force : Bool) :
    St.new seq k force false .dna seed = dnaSt (seq.map upper) k seed force 0 false 0 := by
  simp only [St.new, dnaSt, List.length_map]
  have : (if seq.length ≥ k then seq.length - k + 1 else 0) = seq.length + 1 - k := by
    split <;> omega
  simp [this]

/-- what one call does in a DNA state -/
def dnaStep (u : List UInt8) (k : Nat) (seed : UInt64) (force : Bool) (ki lc' : Nat) : Item × St :=
  let w := kmerAt u k ki
  if w.all valid then
    (.ok (Murmur.hash64 (lexMin w (revcomp w)) seed), dnaSt u k seed force (ki + 1) true lc')
  else if force then (.ok 0, dnaSt u k seed force (ki + 1) true lc')
  else (.errDna, dnaSt u k seed force ki true lc')

theorem next_dna_none (u : List UInt8) (k : Nat) (seed : UInt64) (force : Bool) (ki : Nat) (cfg : Bool)
    (lc : Nat) (h : ¬ ki < u.length + 1 - k) : (dnaSt u k seed force ki cfg lc).next = none := by
  simp [St.next, dnaSt, h]

set_option linter.unusedSimpArgs false in
/-- one call: the window at the cursor is judged as a whole, although only the positions from the
    validity cursor on are inspected; the cursor invariant is re-established -/
theorem next_dna_some (u : List UInt8) (k : Nat) (seed : UInt64) (force : Bool) (ki : Nat) (cfg : Bool)
    (lc : Nat) (h : ki < u.length + 1 - k)
    (hinv : ∀ j, ki ≤ j → j < lc → valid (u.getD j 0) = true) :
    ∃ lc', (∀ j, ki + 1 ≤ j → j < lc' → valid (u.getD j 0) = true)
      ∧ (dnaSt u k seed force ki cfg lc).next = some (dnaStep u k seed force ki lc') := by
  have hk : ki + k ≤ u.length := by omega
  obtain ⟨h1, h2, h3, h4⟩ := scan_spec u (ki + k - max ki lc) (max ki lc) lc
  refine ⟨(scan u (max ki lc) (ki + k - max ki lc) lc).2, ?_, ?_⟩
  · intro j hj1 hj2
    by_cases hjl : j < lc
    · exact hinv j (by omega) hjl
    · have := h4 (j - max ki lc) (by omega)
      rwa [show max ki lc + (j - max ki lc) = j by omega] at this
  · -- the scan result is the verdict on the whole window
    have hall : (scan u (max ki lc) (ki + k - max ki lc) lc).1 = (kmerAt u k ki).all valid := by
      rw [Bool.eq_iff_iff, h1, kmerAt_all valid u k ki hk]
      constructor
      · intro hs t ht
        by_cases hlt : ki + t < max ki lc
        · exact hinv (ki + t) (by omega) (by omega)
        · have := hs (ki + t - max ki lc) (by omega)
          rwa [show max ki lc + (ki + t - max ki lc) = ki + t by omega] at this
      · intro hw i hi
        have := hw (max ki lc + i - ki) (by omega)
        rwa [show ki + (max ki lc + i - ki) = max ki lc + i by omega] at this
    have hnotlt : ¬ (u.length < k) := by omega
    have hrc := rc_window u k ki hk
    cases cfg <;>
    · simp only [St.next, dnaSt, nextDna, dnaStep, kmerAt] at hall hrc ⊢
      simp only [h, hnotlt, hall, hrc, decide_true, decide_false, Bool.true_or, Bool.or_false, Bool.false_or,
        Bool.not_false, Bool.not_true, Bool.and_false, Bool.and_true, Bool.false_and, Bool.true_and,
        if_true, if_false, List.isEmpty_nil, Bool.false_eq_true, bne_self_eq_false, beq_self_eq_true,
        ite_true, ite_false, reduceIte]
      by_cases hw : ((u.drop ki).take k).all valid = true
      · simp [hw]
      · cases force <;> simp [hw]

/-! ### the stream -/

/-- model items of the specification's events: a forced skip is the item `Ok(0)` -/
def toItem : Kmers.Ev → Item
  | .hash h => .ok h
  | .skip => .ok 0
  | .invalidDna => .errDna

theorem all_valid_eq (w : List UInt8) : w.all valid = w.all Kmers.isACGT := by
  congr 1; funext b; exact Tables.valid_eq b

/-- from any reachable DNA state, `run` produces the specification's events of the remaining windows -/
theorem run_dna (u : List UInt8) (k : Nat) (seed : UInt64) (force : Bool) :
    ∀ (n ki : Nat) (cfg : Bool) (lc fuel : Nat), u.length + 1 - k - ki = n → n + 1 ≤ fuel →
      (∀ j, ki ≤ j → j < lc → valid (u.getD j 0) = true) →
      run (dnaSt u k seed force ki cfg lc) fuel
        = (Kmers.dnaEvents seed force ((List.range' ki n).map (kmerAt u k))).map toItem := by
  intro n
  induction n with
  | zero =>
    intro ki cfg lc fuel hn hf _
    obtain ⟨f, rfl⟩ : ∃ f, fuel = f + 1 := ⟨fuel - 1, by omega⟩
    have : ¬ ki < u.length + 1 - k := by omega
    simp [run, next_dna_none u k seed force ki cfg lc this, Kmers.dnaEvents]
  | succ n ih =>
    intro ki cfg lc fuel hn hf hinv
    obtain ⟨f, rfl⟩ : ∃ f, fuel = f + 1 := ⟨fuel - 1, by omega⟩
    have hlt : ki < u.length + 1 - k := by omega
    obtain ⟨lc', hinv', hnext⟩ := next_dna_some u k seed force ki cfg lc hlt hinv
    have ih' := ih (ki + 1) true lc' f (by omega) (by omega) hinv'
    rw [List.range'_succ, List.map_cons]
    unfold run
    rw [hnext]
    unfold dnaStep Kmers.dnaEvents
    rw [← all_valid_eq]
    by_cases hw : (kmerAt u k ki).all valid = true
    · simp only [hw, if_true, List.map_cons, toItem, ih', lexMin_eq_canonical]
    · cases force
      · simp [hw, toItem]
      · simp only [hw, if_true, if_false, Bool.false_eq_true, List.map_cons, toItem, ih']

theorem windows_eq_range' (k : Nat) (hk : k ≠ 0) (u : List UInt8) :
    Kmers.windows k u = (List.range' 0 (u.length + 1 - k)).map (kmerAt u k) := by
  simp only [Kmers.windows, hk, if_false, List.range_eq_range']
  rfl

/-! ### add_sequence: what reaches the sketch -/

theorem fedHashes_toItem (evs : List Kmers.Ev) :
    fedHashes (evs.map toItem) = (Kmers.evHashes evs).filter (· != 0) := by
  induction evs with
  | nil => rfl
  | cons e t ih =>
    cases e with
    | hash h =>
      simp only [List.map_cons, toItem, fedHashes, Kmers.evHashes, List.filter_cons, ih]
      by_cases h0 : h = 0 <;> simp [h0]
    | skip => simp [toItem, fedHashes, Kmers.evHashes, ih]
    | invalidDna => simp [toItem, fedHashes, Kmers.evHashes]

theorem firstErr_toItem (evs : List Kmers.Ev) :
    firstErr (evs.map toItem) = if Kmers.evOk evs then none else some .errDna := by
  induction evs with
  | nil => rfl
  | cons e t ih =>
    cases e with
    | hash h => simpa [toItem, firstErr, Kmers.evOk] using ih
    | skip => simpa [toItem, firstErr, Kmers.evOk] using ih
    | invalidDna => simp [toItem, firstErr, Kmers.evOk]

end Seq
