import Sourmash.Lemmas.RnDiv
/-! Lemmas/ScaledVal.lean — value-level facts about the binary64 model: a pair `(m, e)` is the
fraction `num/den`; `rnDiv` is within relative error 2^-53 of the exact quotient and monotone in it. -/
set_option linter.unusedVariables false
namespace Scaled

/-- value of a pair `(m, e)` as the fraction `num / den` -/
def num (x : Nat × Int) : Nat := x.1 * 2 ^ x.2.toNat
def den (x : Nat × Int) : Nat := 2 ^ (-x.2).toNat
def sat (v : Nat) : Nat := if v ≥ 2 ^ 64 then 2 ^ 64 - 1 else v

theorem den_pos (x : Nat × Int) : 0 < den x := Nat.pow_pos (by decide)

theorem toNatTrunc_eq (x : Nat × Int) : toNatTrunc x = sat (num x / den x) := by
  unfold toNatTrunc sat num den
  by_cases h : x.2 ≥ 0
  · have h0 : (-x.2).toNat = 0 := by omega
    simp only [h, if_true, h0, Nat.pow_zero, Nat.div_one]
  · have h0 : x.2.toNat = 0 := by omega
    simp only [h, if_false, h0, Nat.pow_zero, Nat.mul_one]

theorem toNatRound_eq (x : Nat × Int) : toNatRound x = sat ((2 * num x + den x) / (2 * den x)) := by
  unfold toNatRound sat num den
  by_cases h : x.2 ≥ 0
  · have h0 : (-x.2).toNat = 0 := by omega
    have e : (2 * (x.1 * 2 ^ x.2.toNat) + 1) / 2 = x.1 * 2 ^ x.2.toNat := by omega
    simp only [h, if_true, h0, Nat.pow_zero, Nat.mul_one, e]
  · have h0 : x.2.toNat = 0 := by omega
    simp only [h, if_false, h0, Nat.pow_zero, Nat.mul_one, Nat.pow_succ, Nat.mul_comm]

theorem rnDiv_nd (n d : Nat) (hn : 0 < n) (hd : 0 < d) :
    ∃ m a b : Nat, (a = 0 ∨ b = 0) ∧ RN n d m a b ∧
      num (rnDiv n d) = m * 2 ^ b ∧ den (rnDiv n d) = 2 ^ a := by
  obtain ⟨m, a, b, hab, h, heq⟩ := rnDiv_spec n d hn hd
  refine ⟨m, a, b, hab, h, ?_, ?_⟩
  · rw [heq]; unfold num
    have : ((b : Int) - a).toNat = b := by omega
    simp only [this]
  · rw [heq]; unfold den
    have : (-((b : Int) - a)).toNat = a := by omega
    simp only [this]

/-- `X/A` approximates `n/d` with relative error `2^-53` (relative to either side) -/
structure Approx (X A n d : Nat) : Prop where
  up_n : 2 ^ 53 * (X * d) ≤ 2 ^ 53 * (n * A) + n * A
  up_x : 2 ^ 53 * (X * d) ≤ 2 ^ 53 * (n * A) + X * d
  dn_n : 2 ^ 53 * (n * A) ≤ 2 ^ 53 * (X * d) + n * A
  dn_x : 2 ^ 53 * (n * A) ≤ 2 ^ 53 * (X * d) + X * d

theorem RN.approx {n d m a b : Nat} (hd : 0 < d) (h : RN n d m a b) :
    Approx (m * 2 ^ b) (2 ^ a) n d := by
  have hD : 0 < d * 2 ^ b := Nat.mul_pos hd (Nat.pow_pos (by decide))
  have ⟨e1, e2⟩ := rnStep_err (n * 2 ^ a) (d * 2 ^ b) hD
  rw [← h.m_eq] at e1 e2
  have hlo := h.bnd.1
  have hm := Nat.mul_le_mul_right (d * 2 ^ b) (h.m_ge hd)
  have ex : m * 2 ^ b * d = m * (d * 2 ^ b) := by grind
  constructor <;> rw [ex] <;> omega

theorem rnDiv_approx (n d : Nat) (hn : 0 < n) (hd : 0 < d) :
    Approx (num (rnDiv n d)) (den (rnDiv n d)) n d := by
  obtain ⟨m, a, b, _, h, h1, h2⟩ := rnDiv_nd n d hn hd
  rw [h1, h2]; exact h.approx hd

theorem RN.mono {n1 d1 m1 a1 b1 n2 d2 m2 a2 b2 : Nat} (hd1 : 0 < d1) (hd2 : 0 < d2)
    (h1 : RN n1 d1 m1 a1 b1) (h2 : RN n2 d2 m2 a2 b2) (hle : n1 * d2 ≤ n2 * d1) :
    m1 * 2 ^ b1 * 2 ^ a2 ≤ m2 * 2 ^ b2 * 2 ^ a1 := by
  have g1 : m1 * 2 ^ b1 * 2 ^ a2 = m1 * 2 ^ (b1 + a2) := by grind
  have g2 : m2 * 2 ^ b2 * 2 ^ a1 = m2 * 2 ^ (b2 + a1) := by grind
  rw [g1, g2]
  rcases Nat.lt_trichotomy (b1 + a2) (b2 + a1) with hlt | heq | hgt
  · -- smaller binade: m1 ≤ 2^53, m2 ≥ 2^52
    have hp : 2 ^ (b1 + a2 + 1) ≤ 2 ^ (b2 + a1) := Nat.pow_le_pow_right (by decide) hlt
    have s1 := Nat.mul_le_mul_right (2 ^ (b1 + a2)) (h1.m_le hd1)
    have s2 := Nat.mul_le_mul_right (2 ^ (b2 + a1)) (h2.m_ge hd2)
    have s3 := Nat.mul_le_mul_left (2 ^ 52) hp
    have e1 : 2 ^ 53 * 2 ^ (b1 + a2) = 2 ^ 52 * 2 ^ (b1 + a2 + 1) := by grind
    omega
  · -- same binade: monotonicity of the rounding step
    rw [heq]
    apply Nat.mul_le_mul_right
    rw [h1.m_eq, h2.m_eq]
    have c1 : 0 < d2 * 2 ^ b2 := Nat.mul_pos hd2 (Nat.pow_pos (by decide))
    have c2 : 0 < d1 * 2 ^ b1 := Nat.mul_pos hd1 (Nat.pow_pos (by decide))
    rw [← rnStep_scale (d2 * 2 ^ b2) (n1 * 2 ^ a1) _ c1, ← rnStep_scale (d1 * 2 ^ b1) (n2 * 2 ^ a2) _ c2]
    have ed : d1 * 2 ^ b1 * (d2 * 2 ^ b2) = d2 * 2 ^ b2 * (d1 * 2 ^ b1) := Nat.mul_comm _ _
    rw [ed]
    apply rnStep_mono _ _ _ (Nat.mul_pos c1 c2)
    have := Nat.mul_le_mul_right (2 ^ (a1 + b2)) hle
    have e1 : d2 * 2 ^ b2 * (n1 * 2 ^ a1) = n1 * d2 * 2 ^ (a1 + b2) := by grind
    have e2 : d1 * 2 ^ b1 * (n2 * 2 ^ a2) = n2 * d1 * 2 ^ (a1 + b2) := by
      have : a1 + b2 = b1 + a2 := by omega
      rw [this]; grind
    rw [e1, e2]; exact this
  · -- larger binade contradicts n1/d1 ≤ n2/d2
    exfalso
    have hp : 2 ^ (b2 + a1 + 1) ≤ 2 ^ (b1 + a2) := Nat.pow_le_pow_right (by decide) hgt
    have s1 := Nat.mul_le_mul_right (d2 * 2 ^ a2) h1.bnd.1
    have s2 := Nat.mul_le_mul_right (2 ^ (a1 + a2)) hle
    have s3 := Nat.mul_lt_mul_of_pos_right h2.bnd.2
      (Nat.mul_pos hd1 (Nat.pow_pos (n := a1) (by decide : 0 < 2)))
    have s4 := Nat.mul_le_mul_left (2 ^ 52 * (d1 * d2)) hp
    have e1 : 2 ^ 52 * (d1 * 2 ^ b1) * (d2 * 2 ^ a2) = 2 ^ 52 * (d1 * d2) * 2 ^ (b1 + a2) := by grind
    have e2 : n1 * 2 ^ a1 * (d2 * 2 ^ a2) = n1 * d2 * 2 ^ (a1 + a2) := by grind
    have e3 : n2 * 2 ^ a2 * (d1 * 2 ^ a1) = n2 * d1 * 2 ^ (a1 + a2) := by grind
    have e4 : 2 ^ 53 * (d2 * 2 ^ b2) * (d1 * 2 ^ a1) = 2 ^ 52 * (d1 * d2) * 2 ^ (b2 + a1 + 1) := by grind
    rw [e1, e2] at s1; rw [e3, e4] at s3
    omega

/-- round-to-nearest is monotone in the exact quotient -/
theorem rnDiv_mono (n1 d1 n2 d2 : Nat) (hn1 : 0 < n1) (hd1 : 0 < d1) (hn2 : 0 < n2) (hd2 : 0 < d2)
    (hle : n1 * d2 ≤ n2 * d1) :
    num (rnDiv n1 d1) * den (rnDiv n2 d2) ≤ num (rnDiv n2 d2) * den (rnDiv n1 d1) := by
  obtain ⟨m1, a1, b1, _, h1, x1, y1⟩ := rnDiv_nd n1 d1 hn1 hd1
  obtain ⟨m2, a2, b2, _, h2, x2, y2⟩ := rnDiv_nd n2 d2 hn2 hd2
  rw [x1, y1, x2, y2]
  exact RN.mono hd1 hd2 h1 h2 hle

end Scaled
