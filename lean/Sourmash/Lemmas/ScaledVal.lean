import Sourmash.Lemmas.RnDiv
/-! Lemmas/ScaledVal.lean — value-level facts about the binary64 model: a pair `(m, e)` is the
fraction `num/den`; `rnDiv` is within relative error 2^-53 of the exact quotient and monotone in it. -/
set_option linter.unusedVariables false
namespace Scaled

/-- value of a pair `(m, e)` as the fraction `num / den` -/
def num (x : Nat × Int) : Nat := x.1 * 2 ^ x.2.toNat
def den (x : Nat × Int) : Nat := 2 ^ (-x.2).toNat
def sat (v : Nat) : Nat := if v ≥ 2 ^ 64 then 2 ^ 64 - 1 else v

theorem den_pos (x : Nat × Int) : 0 < den x := Nat.pow_pos (by decide)

theorem toNatTrunc_eq (x : Nat × Int) : toNatTrunc x = sat (num x / den x) := by
  unfold toNatTrunc sat num den
  by_cases h : x.2 ≥ 0
  · have h0 : (-x.2).toNat = 0 := by omega
    simp only [h, if_true, h0, Nat.pow_zero, Nat.div_one]
  · have h0 : x.2.toNat = 0 := by omega
    simp only [h, if_false, h0, Nat.pow_zero, Nat.mul_one]

theorem toNatRound_eq (x : Nat × Int) : toNatRound x = sat ((2 * num x + den x) / (2 * den x)) := by
  unfold toNatRound sat num den
  by_cases h : x.2 ≥ 0
  · have h0 : (-x.2).toNat = 0 := by omega
    have e : (2 * (x.1 * 2 ^ x.2.toNat) + 1) / 2 = x.1 * 2 ^ x.2.toNat := by omega
    simp only [h, if_true, h0, Nat.pow_zero, Nat.mul_one, e]
  · have h0 : x.2.toNat = 0 := by omega
    simp only [h, if_false, h0, Nat.pow_zero, Nat.mul_one, Nat.pow_succ, Nat.mul_comm]

theorem rnDiv_nd (n d : Nat) (hn : 0 < n) (hd : 0 < d) :
    ∃ m a b : Nat, (a = 0 ∨ b = 0) ∧ RN n d m a b ∧
      num (rnDiv n d) = m * 2 ^ b ∧ den (rnDiv n d) = 2 ^ a := by
  obtain ⟨m, a, b, hab, h, heq⟩ := rnDiv_spec n d hn hd
  refine ⟨m, a, b, hab, h, ?_, ?_⟩
  · rw [heq]; unfold num
    have : ((b : Int) - a).toNat = b := by omega
    simp only [this]
  · rw [heq]; unfold den
    have : (-((b : Int) - a)).toNat = a := by omega
    simp only [this]

/-- `X/A` approximates `n/d` with relative error `2^-53` (relative to either side) -/
structure Approx (X A n d : Nat) : Prop where
  up_n : 2 ^ 53 * (X * d) ≤ 2 ^ 53 * (n * A) + n * A
  up_x : 2 ^ 53 * (X * d) ≤ 2 ^ 53 * (n * A) + X * d
  dn_n : 2 ^ 53 * (n * A) ≤ 2 ^ 53 * (X * d) + n * A
  dn_x : 2 ^ 53 * (n * A) ≤ 2 ^ 53 * (X * d) + X * d

theorem RN.approx {n d m a b : Nat} (hd : 0 < d) (h : RN n d m a b) :
    Approx (m * 2 ^ b) (2 ^ a) n d := by
  have hD : 0 < d * 2 ^ b := Nat.mul_pos hd (Nat.pow_pos (by decide))
  have ⟨e1, e2⟩ := rnStep_err (n * 2 ^ a) (d * 2 ^ b) hD
  rw [← h.m_eq] at e1 e2
  have hlo := h.bnd.1
  have hm := Nat.mul_le_mul_right (d * 2 ^ b) (h.m_ge hd)
  have ex : m * 2 ^ b * d = m * (d * 2 ^ b) := by grind
  constructor <;> rw [ex] <;> omega

theorem rnDiv_approx (n d : Nat) (hn : 0 < n) (hd : 0 < d) :
    Approx (num (rnDiv n d)) (den (rnDiv n d)) n d := by
  obtain ⟨m, a, b, _, h, h1, h2⟩ := rnDiv_nd n d hn hd
  rw [h1, h2]; exact h.approx hd

theorem RN.mono {n1 d1 m1 a1 b1 n2 d2 m2 a2 b2 : Nat} (hd1 : 0 < d1) (hd2 : 0 < d2)
    (h1 : RN n1 d1 m1 a1 b1) (h2 : RN n2 d2 m2 a2 b2) (hle : n1 * d2 ≤ n2 * d1) :
    m1 * 2 ^ b1 * 2 ^ a2 ≤ m2 * 2 ^ b2 * 2 ^ a1 := by
  have g1 : m1 * 2 ^ b1 * 2 ^ a2 = m1 * 2 ^ (b1 + a2) := by grind
  have g2 : m2 * 2 ^ b2 * 2 ^ a1 = m2 * 2 ^ (b2 + a1) := by grind
  rw [g1, g2]
  rcases Nat.lt_trichotomy (b1 + a2) (b2 + a1) with hlt | heq | hgt
  · -- smaller binade: m1 ≤ 2^53, m2 ≥ 2^52
    have hp : 2 ^ (b1 + a2 + 1) ≤ 2 ^ (b2 + a1) := Nat.pow_le_pow_right (by decide) hlt
    have s1 := Nat.mul_le_mul_right (2 ^ (b1 + a2)) (h1.m_le hd1)
    have s2 := Nat.mul_le_mul_right (2 ^ (b2 + a1)) (h2.m_ge hd2)
    have s3 := Nat.mul_le_mul_left (2 ^ 52) hp
    have e1 : 2 ^ 53 * 2 ^ (b1 + a2) = 2 ^ 52 * 2 ^ (b1 + a2 + 1) := by grind
    omega
  · -- same binade: monotonicity of the rounding step
    rw [heq]
    apply Nat.mul_le_mul_right
    rw [h1.m_eq, h2.m_eq]
    have c1 : 0 < d2 * 2 ^ b2 := Nat.mul_pos hd2 (Nat.pow_pos (by decide))
    have c2 : 0 < d1 * 2 ^ b1 := Nat.mul_pos hd1 (Nat.pow_pos (by decide))
    rw [← rnStep_scale (d2 * 2 ^ b2) (n1 * 2 ^ a1) _ c1, ← rnStep_scale (d1 * 2 ^ b1) (n2 * 2 ^ a2) _ c2]
    have ed : d1 * 2 ^ b1 * (d2 * 2 ^ b2) = d2 * 2 ^ b2 * (d1 * 2 ^ b1) := Nat.mul_comm _ _
    rw [ed]
    apply rnStep_mono _ _ _ (Nat.mul_pos c1 c2)
    have := Nat.mul_le_mul_right (2 ^ (a1 + b2)) hle
    have e1 : d2 * 2 ^ b2 * (n1 * 2 ^ a1) = n1 * d2 * 2 ^ (a1 + b2) := by grind
    have e2 : d1 * 2 ^ b1 * (n2 * 2 ^ a2) = n2 * d1 * 2 ^ (a1 + b2) := by
      have : a1 + b2 = b1 + a2 := by omega
      rw [this]; grind
    rw [e1, e2]; exact this
  · -- larger binade contradicts n1/d1 ≤ n2/d2
    exfalso
    have hp : 2 ^ (b2 + a1 + 1) ≤ 2 ^ (b1 + a2) := Nat.pow_le_pow_right (by decide) hgt
    have s1 := Nat.mul_le_mul_right (d2 * 2 ^ a2) h1.bnd.1
    have s2 := Nat.mul_le_mul_right (2 ^ (a1 + a2)) hle
    have s3 := Nat.mul_lt_mul_of_pos_right h2.bnd.2
      (Nat.mul_pos hd1 (Nat.pow_pos (n := a1) (by decide : 0 < 2)))
    have s4 := Nat.mul_le_mul_left (2 ^ 52 * (d1 * d2)) hp
    have e1 : 2 ^ 52 * (d1 * 2 ^ b1) * (d2 * 2 ^ a2) = 2 ^ 52 * (d1 * d2) * 2 ^ (b1 + a2) := by grind
    have e2 : n1 * 2 ^ a1 * (d2 * 2 ^ a2) = n1 * d2 * 2 ^ (a1 + a2) := by grind
    have e3 : n2 * 2 ^ a2 * (d1 * 2 ^ a1) = n2 * d1 * 2 ^ (a1 + a2) := by grind
    have e4 : 2 ^ 53 * (d2 * 2 ^ b2) * (d1 * 2 ^ a1) = 2 ^ 52 * (d1 * d2) * 2 ^ (b2 + a1 + 1) := by grind
    rw [e1, e2] at s1; rw [e3, e4] at s3
    omega

/-- round-to-nearest is monotone in the exact quotient -/
theorem rnDiv_mono (n1 d1 n2 d2 : Nat) (hn1 : 0 < n1) (hd1 : 0 < d1) (hn2 : 0 < n2) (hd2 : 0 < d2)
    (hle : n1 * d2 ≤ n2 * d1) :
    num (rnDiv n1 d1) * den (rnDiv n2 d2) ≤ num (rnDiv n2 d2) * den (rnDiv n1 d1) := by
  obtain ⟨m1, a1, b1, _, h1, x1, y1⟩ := rnDiv_nd n1 d1 hn1 hd1
  obtain ⟨m2, a2, b2, _, h2, x2, y2⟩ := rnDiv_nd n2 d2 hn2 hd2
  rw [x1, y1, x2, y2]
  exact RN.mono hd1 hd2 h1 h2 hle

theorem rnDiv_fst_pos (n d : Nat) (hn : 0 < n) (hd : 0 < d) : 0 < (rnDiv n d).1 := by
  obtain ⟨m, a, b, _, h, heq⟩ := rnDiv_spec n d hn hd
  rw [heq]
  exact Nat.lt_of_lt_of_le (Nat.pow_pos (by decide)) (h.m_ge hd)

/-- the binary64 quotient of two binary64 values is the correctly rounded quotient of their values -/
theorem fdiv_eq (x y : Nat × Int) (hx : 0 < x.1) (hy : 0 < y.1) :
    fdiv x y = rnDiv (num x * den y) (num y * den x) := by
  unfold fdiv num den
  obtain ⟨m1, e1⟩ := x
  obtain ⟨m2, e2⟩ := y
  simp only at hx hy ⊢
  have g1 : m1 * 2 ^ e1.toNat * 2 ^ (-e2).toNat = m1 * 2 ^ (e1.toNat + (-e2).toNat) := by grind
  have g2 : m2 * 2 ^ e2.toNat * 2 ^ (-e1).toNat = m2 * 2 ^ (e2.toNat + (-e1).toNat) := by grind
  rw [g1, g2]
  by_cases h : e1 - e2 ≥ 0
  · simp only [h, if_true]
    have hP : e1.toNat + (-e2).toNat = (e2.toNat + (-e1).toNat) + (e1 - e2).toNat := by omega
    rw [hP]
    have c1 : m1 * 2 ^ (e2.toNat + (-e1).toNat + (e1 - e2).toNat)
        = 2 ^ (e2.toNat + (-e1).toNat) * (m1 * 2 ^ (e1 - e2).toNat) := by grind
    have c2 : m2 * 2 ^ (e2.toNat + (-e1).toNat) = 2 ^ (e2.toNat + (-e1).toNat) * m2 := Nat.mul_comm _ _
    rw [c1, c2, rnDiv_scale _ _ _ (Nat.pow_pos (by decide))
      (Nat.mul_pos hx (Nat.pow_pos (by decide))) hy]
  · simp only [h, if_false]
    have hQ : e2.toNat + (-e1).toNat = (e1.toNat + (-e2).toNat) + (-(e1 - e2)).toNat := by omega
    rw [hQ]
    have c1 : m2 * 2 ^ (e1.toNat + (-e2).toNat + (-(e1 - e2)).toNat)
        = 2 ^ (e1.toNat + (-e2).toNat) * (m2 * 2 ^ (-(e1 - e2)).toNat) := by grind
    have c2 : m1 * 2 ^ (e1.toNat + (-e2).toNat) = 2 ^ (e1.toNat + (-e2).toNat) * m1 := Nat.mul_comm _ _
    rw [c1, c2, rnDiv_scale _ _ _ (Nat.pow_pos (by decide)) hx
      (Nat.mul_pos hy (Nat.pow_pos (by decide)))]

/-- the integer that `n as f64` denotes -/
def rnNat (n : Nat) : Nat := num (ofNat n) / den (ofNat n)

theorem ofNat_nd (n : Nat) (hn : 0 < n) :
    ∃ m a b : Nat, (a = 0 ∨ b = 0) ∧ RN n 1 m a b ∧
      num (ofNat n) = m * 2 ^ b ∧ den (ofNat n) = 2 ^ a ∧ rnNat n * 2 ^ a = m * 2 ^ b := by
  obtain ⟨m, a, b, hab, h, x, y⟩ := rnDiv_nd n 1 hn (by decide)
  refine ⟨m, a, b, hab, h, x, y, ?_⟩
  unfold rnNat ofNat
  rw [x, y]
  rcases hab with rfl | rfl
  · simp
  · have hm := h.m_eq
    simp only [Nat.pow_zero, Nat.mul_one, rnStep_one] at hm
    rw [hm]; simp [Nat.mul_div_cancel _ (Nat.pow_pos (n := a) (by decide : 0 < 2))]

theorem rnNat_spec (n : Nat) (hn : 0 < n) : num (ofNat n) = rnNat n * den (ofNat n) := by
  obtain ⟨m, a, b, _, _, x, y, z⟩ := ofNat_nd n hn
  rw [x, y, z]

theorem rnNat_approx (n : Nat) (hn : 0 < n) : Approx (rnNat n) 1 n 1 := by
  have h := rnDiv_approx n 1 hn (by decide)
  have hs := rnNat_spec n hn
  unfold ofNat at hs
  rw [hs] at h
  have hp := den_pos (rnDiv n 1)
  generalize den (rnDiv n 1) = D at *
  generalize rnNat n = R at *
  obtain ⟨h1, h2, h3, h4⟩ := h
  simp only [Nat.mul_one] at h1 h2 h3 h4
  constructor <;> simp only [Nat.mul_one] <;> apply Nat.le_of_mul_le_mul_right _ hp
  · calc 2 ^ 53 * R * D = 2 ^ 53 * (R * D) := by grind
      _ ≤ _ := h1
      _ = _ := by grind
  · calc 2 ^ 53 * R * D = 2 ^ 53 * (R * D) := by grind
      _ ≤ _ := h2
      _ = _ := by grind
  · calc 2 ^ 53 * n * D = 2 ^ 53 * (n * D) := by grind
      _ ≤ _ := h3
      _ = _ := by grind
  · calc 2 ^ 53 * n * D = 2 ^ 53 * (n * D) := by grind
      _ ≤ _ := h4
      _ = _ := by grind

theorem rnNat_pos (n : Nat) (hn : 0 < n) : 0 < rnNat n := by
  have h := (rnNat_approx n hn).dn_x
  simp only [Nat.mul_one] at h
  omega

/-- `u64 as f64` is monotone -/
theorem rnNat_mono (s t : Nat) (hs : 0 < s) (hst : s ≤ t) : rnNat s ≤ rnNat t := by
  have ht : 0 < t := Nat.lt_of_lt_of_le hs hst
  have h := rnDiv_mono s 1 t 1 hs (by decide) ht (by decide) (by simpa using hst)
  have h1 := rnNat_spec s hs
  have h2 := rnNat_spec t ht
  unfold ofNat at h1 h2
  rw [h1, h2] at h
  have p1 := den_pos (rnDiv s 1)
  have p2 := den_pos (rnDiv t 1)
  generalize den (rnDiv s 1) = D1 at *
  generalize den (rnDiv t 1) = D2 at *
  apply Nat.le_of_mul_le_mul_right _ (Nat.mul_pos p1 p2)
  calc rnNat s * (D1 * D2) = rnNat s * D1 * D2 := by grind
    _ ≤ _ := h
    _ = _ := by grind

/-- integers with at most 53 significant bits are represented exactly -/
theorem rnNat_exact (c k : Nat) (hc : 0 < c) (hc2 : c ≤ 2 ^ 53) : rnNat (c * 2 ^ k) = c * 2 ^ k := by
  have hn : 0 < c * 2 ^ k := Nat.mul_pos hc (Nat.pow_pos (by decide))
  obtain ⟨m, a, b, hab, h, _, _, z⟩ := ofNat_nd (c * 2 ^ k) hn
  rcases hab with rfl | rfl
  · simp only [Nat.pow_zero, Nat.mul_one] at z
    rw [z]
    have hm := h.m_eq
    have ⟨lo, hi⟩ := h.bnd
    simp only [Nat.pow_zero, Nat.mul_one, Nat.one_mul] at hm lo hi
    rcases Nat.lt_or_ge k b with hkb | hbk
    · -- b = k+1 and c = 2^53
      have hp : 2 ^ (k + 1) ≤ 2 ^ b := Nat.pow_le_pow_right (by decide) hkb
      have s1 := Nat.mul_le_mul_left (2 ^ 52) hp
      have s2 := Nat.mul_le_mul_right (2 ^ k) hc2
      have e1 : 2 ^ 52 * 2 ^ (k + 1) = 2 ^ 53 * 2 ^ k := by grind
      have hceq : c * 2 ^ k = 2 ^ 52 * 2 ^ b := by omega
      rw [hm, hceq, rnStep_exact _ _ (Nat.pow_pos (by decide))]
    · obtain ⟨j, rfl⟩ := Nat.exists_eq_add_of_le hbk
      have e1 : c * 2 ^ (b + j) = c * 2 ^ j * 2 ^ b := by grind
      rw [hm, e1, rnStep_exact _ _ (Nat.pow_pos (by decide))]
  · have hm := h.m_eq
    simp only [Nat.pow_zero, Nat.mul_one, rnStep_one] at hm z
    rw [hm] at z
    exact Nat.eq_of_mul_eq_mul_right (Nat.pow_pos (n := a) (by decide : 0 < 2)) z

theorem rnNat_small (n : Nat) (hn : 0 < n) (h : n ≤ 2 ^ 53) : rnNat n = n := by
  have := rnNat_exact n 0 hn h
  simpa using this

theorem fdiv_ofNat (N s : Nat) (hN : 0 < N) (hs : 0 < s) :
    fdiv (ofNat N) (ofNat s) = rnDiv (rnNat N) (rnNat s) := by
  rw [fdiv_eq (ofNat N) (ofNat s) (show 0 < (ofNat N).1 from rnDiv_fst_pos N 1 hN (by decide))
      (show 0 < (ofNat s).1 from rnDiv_fst_pos s 1 hs (by decide)),
    rnNat_spec N hN, rnNat_spec s hs]
  have e1 : rnNat N * den (ofNat N) * den (ofNat s) = den (ofNat N) * den (ofNat s) * rnNat N := by grind
  have e2 : rnNat s * den (ofNat s) * den (ofNat N) = den (ofNat N) * den (ofNat s) * rnNat s := by grind
  rw [e1, e2, rnDiv_scale _ _ _ (Nat.mul_pos (den_pos _) (den_pos _)) (rnNat_pos N hN) (rnNat_pos s hs)]

theorem rnNat_u64max : rnNat u64max = 2 ^ 64 := by decide

end Scaled
