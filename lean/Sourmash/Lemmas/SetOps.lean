import Sourmash.Model.SetOps
import Sourmash.Spec.SetOps
/-! Lemmas/SetOps.lean — the two-pointer walks of `Model/SetOps.lean` compute the list
set-operations of `Spec/SetOps.lean` on strictly increasing lists.  Core Lean only. -/
namespace SetOps
open SetSpec

/-! ### strictly increasing lists are canonical representatives of finite sets -/

theorem sinc_cons {x : Nat} {s : List Nat} : SInc (x :: s) ↔ (∀ y ∈ s, x < y) ∧ SInc s :=
  List.pairwise_cons
theorem sinc_nil : SInc [] := List.Pairwise.nil

theorem sinc_ext {a b : List Nat} (ha : SInc a) (hb : SInc b) (h : ∀ x, x ∈ a ↔ x ∈ b) : a = b := by
  induction a generalizing b with
  | nil =>
    cases b with
    | nil => rfl
    | cons y o => have := (h y).2 (by simp); simp at this
  | cons x s ih =>
    cases b with
    | nil => have := (h x).1 (by simp); simp at this
    | cons y o =>
      rw [sinc_cons] at ha hb
      have hxy : x = y := by
        have h1 := (h x).1 (by simp)
        have h2 := (h y).2 (by simp)
        simp only [List.mem_cons] at h1 h2
        rcases h1 with h1 | h1
        · exact h1
        · rcases h2 with h2 | h2
          · exact h2.symm
          · have := hb.1 x h1; have := ha.1 y h2; omega
      subst hxy
      congr 1
      apply ih ha.2 hb.2
      intro z
      constructor
      · intro hz
        have := (h z).1 (by simp [hz])
        simp only [List.mem_cons] at this
        rcases this with e | e
        · have := ha.1 z hz; omega
        · exact e
      · intro hz
        have := (h z).2 (by simp [hz])
        simp only [List.mem_cons] at this
        rcases this with e | e
        · have := hb.1 z hz; omega
        · exact e

theorem sinc_filter {l : List Nat} (p : Nat → Bool) (h : SInc l) : SInc (l.filter p) :=
  List.Pairwise.filter p h
theorem sinc_take {l : List Nat} (n : Nat) (h : SInc l) : SInc (l.take n) :=
  List.Pairwise.sublist (List.take_sublist n l) h
theorem sinc_bottom {l : List Nat} (n : Nat) (h : SInc l) : SInc (bottom n l) := by
  unfold bottom; split
  · exact h
  · exact sinc_take n h

/-! ### the sorting used by the specification -/

theorem mem_insertU (x : Nat) (l : List Nat) (z : Nat) : z ∈ insertU x l ↔ z = x ∨ z ∈ l := by
  fun_induction insertU x l <;> grind
theorem sinc_insertU (x : Nat) {l : List Nat} (h : SInc l) : SInc (insertU x l) := by
  fun_induction insertU x l <;> grind [mem_insertU, sinc_cons]
theorem mem_sortU (l : List Nat) (z : Nat) : z ∈ sortU l ↔ z ∈ l := by
  induction l with
  | nil => simp [sortU]
  | cons x t ih => simp only [sortU, List.foldr_cons] at ih ⊢; rw [mem_insertU]; grind
theorem sinc_sortU (l : List Nat) : SInc (sortU l) := by
  induction l with
  | nil => exact sinc_nil
  | cons x t ih => exact sinc_insertU x ih
theorem sortU_of_sinc {l : List Nat} (h : SInc l) : sortU l = l :=
  sinc_ext (sinc_sortU l) h (mem_sortU l)

theorem mem_union (a b : List Nat) (z : Nat) : z ∈ union a b ↔ z ∈ a ∨ z ∈ b := by
  simp [union, mem_sortU]
theorem sinc_union (a b : List Nat) : SInc (union a b) := sinc_sortU _
theorem mem_inter (a b : List Nat) (z : Nat) : z ∈ inter a b ↔ z ∈ a ∧ z ∈ b := by
  simp [inter]
theorem mem_diff (a b : List Nat) (z : Nat) : z ∈ diff a b ↔ z ∈ a ∧ z ∉ b := by
  simp [diff]

/-! ### `mergeKeys` = sorted union -/

theorem mem_mergeKeys (a b : List Nat) (z : Nat) : z ∈ mergeKeys a b ↔ z ∈ a ∨ z ∈ b := by
  fun_induction mergeKeys a b <;> grind
theorem sinc_mergeKeys {a b : List Nat} (ha : SInc a) (hb : SInc b) : SInc (mergeKeys a b) := by
  fun_induction mergeKeys a b <;> grind [mem_mergeKeys, sinc_cons]
theorem mergeKeys_eq_union {a b : List Nat} (ha : SInc a) (hb : SInc b) : mergeKeys a b = union a b :=
  sinc_ext (sinc_mergeKeys ha hb) (sinc_union a b) (fun z => by rw [mem_mergeKeys, mem_union])
theorem mergeKeys_nil_right (a : List Nat) : mergeKeys a [] = a := by
  cases a <;> simp [mergeKeys]
theorem mergeKeys_self (a : List Nat) : mergeKeys a a = a := by
  induction a with
  | nil => simp [mergeKeys]
  | cons x s ih => simp [mergeKeys, ih]

theorem union_comm (a b : List Nat) : union a b = union b a :=
  sinc_ext (sinc_union a b) (sinc_union b a) (fun z => by rw [mem_union, mem_union]; exact Or.comm)
theorem union_assoc (a b c : List Nat) : union (union a b) c = union a (union b c) :=
  sinc_ext (sinc_union _ _) (sinc_union _ _) (fun z => by simp only [mem_union]; exact or_assoc)
theorem union_self {a : List Nat} (h : SInc a) : union a a = a :=
  sinc_ext (sinc_union a a) h (fun z => by simp [mem_union])

/-- bottom-`n` absorbs an inner bottom-`j` (`j ≥ n`): what makes num-sketch merging associative -/
theorem take_mergeKeys_take (a c : List Nat) (n j : Nat) (h : n ≤ j) :
    (mergeKeys (a.take j) c).take n = (mergeKeys a c).take n := by
  fun_induction mergeKeys a c generalizing n j with
  | case1 o => simp [mergeKeys]
  | case2 x s =>
    simp only [mergeKeys_nil_right]
    rw [List.take_take]; congr 1; omega
  | case3 x s y o hlt ih =>
    cases n with
    | zero => simp
    | succ m =>
      obtain ⟨j', rfl⟩ : ∃ j', j = j' + 1 := ⟨j - 1, by omega⟩
      have := ih m (j' + 1) (by omega)
      simp only [List.take_succ_cons] at this ⊢
      rw [mergeKeys]; simp only [hlt, if_true, List.take_succ_cons]; rw [this]
  | case4 x s o hnlt ih =>
    cases n with
    | zero => simp
    | succ m =>
      obtain ⟨j', rfl⟩ : ∃ j', j = j' + 1 := ⟨j - 1, by omega⟩
      have := ih m j' (by omega)
      simp only [List.take_succ_cons]
      rw [mergeKeys]; simp only [hnlt, if_false, if_true, List.take_succ_cons]; rw [this]
  | case5 x s y o hnlt hne ih =>
    cases n with
    | zero => simp
    | succ m =>
      obtain ⟨j', rfl⟩ : ∃ j', j = j' + 1 := ⟨j - 1, by omega⟩
      have := ih m j' (by omega)
      simp only [List.take_succ_cons]
      rw [mergeKeys]; simp only [hnlt, hne, if_false, List.take_succ_cons]; rw [this]

theorem take_union_take {a c : List Nat} (ha : SInc a) (hc : SInc c) (n : Nat) :
    (union (a.take n) c).take n = (union a c).take n := by
  rw [← mergeKeys_eq_union (sinc_take n ha) hc, ← mergeKeys_eq_union ha hc]
  exact take_mergeKeys_take a c n n (Nat.le_refl n)

theorem bottom_union_bottom {a c : List Nat} (ha : SInc a) (hc : SInc c) (n : Nat) :
    bottom n (union (bottom n a) c) = bottom n (union a c) := by
  unfold bottom; split
  · rfl
  · exact take_union_take ha hc n

/-! ### `interIter` / `interWalk` / `interSizeWalk` -/

theorem mem_interIter {a b : List Nat} (ha : SInc a) (hb : SInc b) (z : Nat) :
    z ∈ interIter a b ↔ z ∈ a ∧ z ∈ b := by
  fun_induction interIter a b <;> grind [sinc_cons]
theorem sinc_interIter {a b : List Nat} (ha : SInc a) (hb : SInc b) : SInc (interIter a b) := by
  fun_induction interIter a b <;> grind [sinc_cons, mem_interIter]
theorem interIter_eq_inter {a b : List Nat} (ha : SInc a) (hb : SInc b) : interIter a b = inter a b :=
  sinc_ext (sinc_interIter ha hb) (sinc_filter _ ha) (fun z => by rw [mem_interIter ha hb, mem_inter])
theorem interIter_nil_right (a : List Nat) : interIter a [] = [] := by
  cases a <;> simp [interIter]
theorem interIter_comm (a b : List Nat) : interIter a b = interIter b a := by
  fun_induction interIter a b <;> grind [interIter, interIter_nil_right]
theorem interWalk_fst (a b : List Nat) : (interWalk a b).1 = interIter a b := by
  fun_induction interWalk a b <;> grind [interIter]
theorem interWalk_snd (a b : List Nat) : (interWalk a b).2 = (mergeKeys a b).length := by
  fun_induction interWalk a b <;> grind [mergeKeys]
theorem interSizeWalk_eq (a b : List Nat) :
    interSizeWalk a b = ((interWalk a b).1.length, (interWalk a b).2) := by
  fun_induction interSizeWalk a b <;> grind [interWalk]

theorem diff_cons_right {l : List Nat} {x : Nat} (s : List Nat) (h : ∀ z ∈ l, z ≠ x) :
    diff l (x :: s) = diff l s := by
  unfold diff
  apply List.filter_congr
  intro z hz
  have := h z hz
  simp [this]
theorem unionSize_nil_left (o : List Nat) : unionSize [] o = o.length := by
  simp [unionSize, diff]
theorem unionSize_nil_right (a : List Nat) : unionSize a [] = a.length := by
  simp [unionSize, diff]
theorem unionSize_lt {x y : Nat} {s o : List Nat} (ha : SInc (x :: s)) (hlt : y < x) :
    unionSize (x :: s) (y :: o) = unionSize (x :: s) o + 1 := by
  rw [sinc_cons] at ha
  have hy : (x :: s).contains y = false := by
    rw [Bool.eq_false_iff]
    simp only [ne_eq, List.contains_iff_mem, List.mem_cons, not_or]
    exact ⟨by omega, fun hm => by have := ha.1 y hm; omega⟩
  simp only [unionSize, diff, List.filter_cons, hy]
  simp; omega
theorem unionSize_eq {x : Nat} {s o : List Nat} (hb : SInc (x :: o)) :
    unionSize (x :: s) (x :: o) = unionSize s o + 1 := by
  rw [sinc_cons] at hb
  have h1 : diff o (x :: s) = diff o s := diff_cons_right s (fun z hz => by have := hb.1 z hz; omega)
  have h2 : diff (x :: o) (x :: s) = diff o (x :: s) := by simp [diff]
  simp only [unionSize, List.length_cons]
  rw [h2, h1]; omega
theorem unionSize_gt {x y : Nat} {s o : List Nat} (hb : SInc (y :: o)) (hlt : x < y) :
    unionSize (x :: s) (y :: o) = unionSize s (y :: o) + 1 := by
  have hb' := sinc_cons.1 hb
  have h1 : diff (y :: o) (x :: s) = diff (y :: o) s :=
    diff_cons_right s (fun z hz => by
      simp only [List.mem_cons] at hz
      rcases hz with e | e
      · omega
      · have := hb'.1 z e; omega)
  simp only [unionSize, List.length_cons]
  rw [h1]; omega
theorem length_mergeKeys {a b : List Nat} (ha : SInc a) (hb : SInc b) :
    (mergeKeys a b).length = unionSize a b := by
  fun_induction mergeKeys a b <;>
    grind [sinc_cons, unionSize_nil_left, unionSize_nil_right, unionSize_lt, unionSize_eq, unionSize_gt]

end SetOps
