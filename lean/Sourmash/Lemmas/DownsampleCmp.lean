import Sourmash.Lemmas.DownsampleExt
/-! Lemmas/DownsampleCmp.lean — filtering by a ceiling commutes with union / intersection / merge;
the `downsample = true` branch of `count_common`; the downsample pass of `Signature::select`. -/
namespace SetOps
open SetSpec Scaled

theorem belowSk_scaled_val (m : Nat) (x : Sk) : (belowSk m x).scaled = scaledForMaxHash m := rfl

theorem below_union (m : Nat) (a b : List Nat) : below m (union a b) = union (below m a) (below m b) := by
  apply sinc_ext (sinc_filter _ (sinc_union _ _)) (sinc_union _ _)
  intro z
  simp only [below, List.mem_filter, mem_union, decide_eq_true_eq]
  constructor
  · rintro ⟨h1 | h1, h2⟩
    · exact Or.inl ⟨h1, h2⟩
    · exact Or.inr ⟨h1, h2⟩
  · rintro (⟨h1, h2⟩ | ⟨h1, h2⟩)
    · exact ⟨Or.inl h1, h2⟩
    · exact ⟨Or.inr h1, h2⟩

theorem below_inter (m : Nat) (a b : List Nat) : inter (below m a) (below m b) = below m (inter a b) := by
  simp only [inter, below, List.filter_filter]
  apply List.filter_congr
  intro z hz
  by_cases h : z ≤ m <;> simp [h]

theorem unionSize_eq_length_union {a b : List Nat} (ha : SInc a) (hb : SInc b) :
    unionSize a b = (union a b).length := by
  rw [← length_mergeKeys ha hb, mergeKeys_eq_union ha hb]

theorem unionSize_below {a b : List Nat} (m : Nat) (ha : SInc a) (hb : SInc b) :
    unionSize (below m a) (below m b) = (below m (union a b)).length := by
  have h1 : SInc (below m a) := sinc_filter _ ha
  have h2 : SInc (below m b) := sinc_filter _ hb
  rw [unionSize_eq_length_union h1 h2, below_union]

theorem mergeSpec_isSome (a b : Sk) :
    (mergeSpec a b).abunds.isSome = (a.abunds.isSome && b.abunds.isSome) := by
  have e : (a.track && b.track) = (a.abunds.isSome && b.abunds.isSome) := rfl
  rw [← e]
  simp only [mergeSpec]
  cases (a.track && b.track) <;> simp

theorem mergeSpec_scaled {a b : Sk} (ha : a.Scaled) (hb : b.Scaled) (hc : checkCompatible a b = .ok ()) :
    (mergeSpec a b).Scaled := by
  obtain ⟨_, _, hmh, _⟩ := (checkCompatible_ok_iff a b).1 hc
  have hk : bottom a.num (union a.mins b.mins) = union a.mins b.mins := by simp [bottom, ha.2.1]
  refine ⟨mergeSpec_wf, ha.2.1, ha.2.2.1, ?_, ?_⟩
  · intro h hh
    have hh' : h ∈ bottom a.num (union a.mins b.mins) := hh
    rw [hk, mem_union] at hh'
    show h ≤ a.maxHash
    rcases hh' with h1 | h1
    · exact ha.2.2.2.1 h h1
    · rw [hmh]; exact hb.2.2.2.1 h h1
  · by_cases ht : a.abunds.isSome ∧ b.abunds.isSome
    · apply abunds_pos_of_ab mergeSpec_wf
      intro h hh
      have hh' : h ∈ bottom a.num (union a.mins b.mins) := hh
      rw [hk, mem_union] at hh'
      rw [ab_mergeSpec ha.1 hb.1 ha.2.1 ht.1 ht.2]
      rcases hh' with h1 | h1
      · have := ab_pos_of_abunds ha.1 ht.1 ha.2.2.2.2 h h1; omega
      · have := ab_pos_of_abunds hb.1 ht.2 hb.2.2.2.2 h h1; omega
    · intro ab hab
      have := mergeSpec_isSome a b
      rw [hab] at this
      simp only [Option.isSome_some] at this
      have := this.symm
      simp only [Bool.and_eq_true] at this
      exact absurd this ht

theorem belowSk_mergeSpec {a b : Sk} (m : Nat) (wa : a.WF) (wb : b.WF) (hn : a.num = 0) :
    belowSk m (mergeSpec a b) = mergeSpec (belowSk m a) (belowSk m b) := by
  have hk : bottom a.num (union a.mins b.mins) = union a.mins b.mins := by simp [bottom, hn]
  have hn' : (belowSk m a).num = 0 := hn
  apply sk_ext (x := belowSk m (mergeSpec a b)) (y := mergeSpec (belowSk m a) (belowSk m b))
    (belowSk_wf _ mergeSpec_wf) mergeSpec_wf rfl rfl rfl rfl rfl
  · show below m (bottom a.num (union a.mins b.mins)) = bottom a.num (union (below m a.mins) (below m b.mins))
    simp only [bottom, hn, if_true]; exact below_union m _ _
  · rw [mergeSpec_isSome]
    show (Option.map _ (mergeSpec a b).abunds).isSome = _
    rw [Option.isSome_map, mergeSpec_isSome]
    simp [belowSk]
  · intro ht h _
    have ht2 : a.abunds.isSome = true ∧ b.abunds.isSome = true := by
      have ht' : (Option.map _ (mergeSpec a b).abunds).isSome = true := ht
      rw [Option.isSome_map, mergeSpec_isSome] at ht'
      simpa [Bool.and_eq_true] using ht'
    rw [ab_belowSk m mergeSpec_wf (by simpa [belowSk] using ht), ab_mergeSpec wa wb hn ht2.1 ht2.2,
      ab_mergeSpec (belowSk_wf m wa) (belowSk_wf m wb) hn' (by simpa [belowSk] using ht2.1)
        (by simpa [belowSk] using ht2.2),
      ab_belowSk m wa ht2.1, ab_belowSk m wb ht2.2]
    by_cases h2 : h ≤ m <;> simp [h2]

/-! comparisons -/

theorem countCommonPlain_symm (a b : Sk) : countCommonPlain a b = countCommonPlain b a := by
  simp only [countCommonPlain, checkCompatible_symm a b]
  cases checkCompatible b a with
  | error e => rfl
  | ok u =>
    simp only [bind, Except.bind, pure, Except.pure]
    rw [interIter_comm b.mins a.mins]
    split <;> split <;> rfl

theorem downsample_self (k : Kind) (x : Sk) : downsampleScaled k x x.scaled = .ok x := by
  simp [downsampleScaled]

/-- `count_common(other, true)` = `count_common(_, false)` on the copies explicitly downsampled to the
larger of the two scaled values -/
theorem countCommon_ds (k : Kind) (a b : Sk) :
    countCommon k a b true =
      (do let a' ← downsampleScaled k a (max a.scaled b.scaled)
          let b' ← downsampleScaled k b (max a.scaled b.scaled)
          countCommon k a' b' false) := by
  have hf : ∀ x y : Sk, countCommon k x y false = countCommonPlain x y := by
    intro x y; simp [countCommon]
  simp only [hf]
  unfold countCommon
  rcases Nat.lt_trichotomy a.scaled b.scaled with h | h | h
  · have hm : max a.scaled b.scaled = b.scaled := Nat.max_eq_right (by omega)
    have c2 : ¬ a.scaled > b.scaled := by omega
    rw [if_pos ⟨rfl, by omega⟩]
    simp only [c2, if_false, hm, downsample_self, bind, Except.bind]
    cases downsampleScaled k a b.scaled with
    | error e => rfl
    | ok d => exact countCommonPlain_symm b d
  · have hm : max a.scaled b.scaled = a.scaled := by rw [h]; exact Nat.max_self _
    rw [if_neg (by simp [h])]
    simp only [hm, downsample_self, bind, Except.bind]
    rw [h, downsample_self]
  · have hm : max a.scaled b.scaled = a.scaled := Nat.max_eq_left (by omega)
    rw [if_pos ⟨rfl, by omega⟩]
    simp only [h, if_true, hm, downsample_self, bind, Except.bind]

/-- the downsample pass of `Signature::select` is `downsample_scaled` of every retained sketch -/
theorem selectScaled_eq (k : Kind) (sks : List Sk) (sel : Nat) (hsel : sel < 2 ^ 32) :
    selectScaled k sks sel = (sks.filter (keepScaled · sel)).mapM (fun s => downsampleScaled k s sel) := by
  unfold selectScaled
  have : ∀ l : List Sk, (∀ s ∈ l, keepScaled s sel = true) →
      l.mapM (fun s => if s.scaled % 2 ^ 32 < sel then downsampleScaled k s sel else Except.ok s)
        = l.mapM (fun s => downsampleScaled k s sel) := by
    intro l
    induction l with
    | nil => intro _; rfl
    | cons s t ih =>
      intro hk
      have hs := hk s (by simp)
      simp only [keepScaled, decide_eq_true_eq] at hs
      have hmod : s.scaled % 2 ^ 32 = s.scaled := Nat.mod_eq_of_lt (by omega)
      have hhead : (if s.scaled % 2 ^ 32 < sel then downsampleScaled k s sel else Except.ok s)
          = downsampleScaled k s sel := by
        rw [hmod]
        by_cases hlt : s.scaled < sel
        · simp [hlt]
        · have : s.scaled = sel := by omega
          simp only [hlt, if_false]; rw [← this, downsample_self]
      simp only [List.mapM_cons, hhead, ih (fun x hx => hk x (by simp [hx]))]
  apply this
  intro s hs
  exact (List.mem_filter.1 hs).2

/-- `similarity(other, ig, true)` = the plain comparison of the copies explicitly downsampled to the
larger scaled value, taken in the order (larger-scaled operand, other operand) -/
theorem similarity_ds (k : Kind) (a b : Sk) (ig : Bool) :
    similarity k a b ig true =
      (do let a' ← downsampleScaled k a (max a.scaled b.scaled)
          let b' ← downsampleScaled k b (max a.scaled b.scaled)
          if a.scaled < b.scaled then similarityPlain k b' a' ig else similarityPlain k a' b' ig) := by
  unfold similarity
  rcases Nat.lt_trichotomy a.scaled b.scaled with h | h | h
  · have hm : max a.scaled b.scaled = b.scaled := Nat.max_eq_right (by omega)
    have c2 : ¬ a.scaled > b.scaled := by omega
    rw [if_pos ⟨rfl, by omega⟩]
    simp only [c2, if_false, hm, downsample_self, bind, Except.bind, h, if_true]
  · have hm : max a.scaled b.scaled = a.scaled := by rw [h]; exact Nat.max_self _
    rw [if_neg (by simp [h])]
    simp only [hm, downsample_self, bind, Except.bind]
    rw [h, downsample_self]; simp
  · have hm : max a.scaled b.scaled = a.scaled := Nat.max_eq_left (by omega)
    have c2 : ¬ a.scaled < b.scaled := by omega
    rw [if_pos ⟨rfl, by omega⟩]
    simp only [h, if_true, hm, downsample_self, bind, Except.bind, c2, if_false]

theorem dotWalk_nil_right (p : List (Nat × Nat)) : dotWalk p [] = 0 := by
  cases p <;> simp [dotWalk]
theorem dotWalk_comm (p q : List (Nat × Nat)) : dotWalk p q = dotWalk q p := by
  fun_induction dotWalk p q <;> grind [dotWalk, dotWalk_nil_right, Nat.mul_comm]

theorem angularParts_symm (a b : Sk) :
    angularParts b a = (angularParts a b).map SimParts.swap := by
  simp only [angularParts, checkCompatible_symm b a]
  cases checkCompatible a b with
  | error e => rfl
  | ok u =>
    simp only [bind, Except.bind]
    cases a.abunds <;> cases b.abunds <;> simp [Except.map, pure, Except.pure, SimParts.swap, dotWalk_comm]

theorem interSizeWalk_comm {a b : List Nat} (ha : SInc a) (hb : SInc b) :
    interSizeWalk a b = interSizeWalk b a := by
  rw [interSizeWalk_eq, interSizeWalk_eq, interWalk_fst, interWalk_fst, interWalk_snd, interWalk_snd,
    interIter_comm, mergeKeys_eq_union ha hb, mergeKeys_eq_union hb ha, union_comm]

/-- the Jaccard pair of two scaled sketches does not depend on the argument order -/
theorem jaccardParts_symm (k : Kind) {a b : Sk} (ha : SInc a.mins) (hb : SInc b.mins)
    (hna : a.num = 0) (hnb : b.num = 0) : jaccardParts k a b = jaccardParts k b a := by
  simp only [jaccardParts, intersectionSize, checkCompatible_symm b a, hna, hnb]
  cases checkCompatible a b with
  | error e => rfl
  | ok u =>
    simp only [bind, Except.bind, ne_eq, not_true_eq_false, if_false, pure, Except.pure]
    rw [interSizeWalk_comm ha hb]

end SetOps
