import Sourmash.Lemmas.SampleInv
import Sourmash.Spec.SampleBulk
/-! Lemmas/SampleBulk.lean — the bulk entry points of both sketch models are the fold of their single
steps, observers change nothing observable, and therefore bulk histories (`HistB`) refine the
abstract sample exactly as single-step histories do.  Core Lean only. -/
namespace Sample
open MH

/-! ### the model's bulk functions are folds of its single steps -/

theorem vec_addMany_fold (s : Vec) (hs : List Nat) :
    s.addMany hs = (hs.map (fun h => Op.add h 1)).foldl vecStep s := by
  unfold Vec.addMany; rw [List.foldl_map]; rfl

theorem vec_addManyAbund_fold (s : Vec) (ps : List (Nat × Nat)) :
    s.addManyAbund ps = (ps.map (fun p => Op.add p.1 p.2)).foldl vecStep s := by
  unfold Vec.addManyAbund; rw [List.foldl_map]; rfl

theorem vec_removeMany_fold (s : Vec) (hs : List Nat) :
    s.removeMany hs = (hs.map Op.remove).foldl vecStep s := by
  unfold Vec.removeMany; rw [List.foldl_map]; rfl

theorem vec_setAbundances_fold (s : Vec) (ps : List (Nat × Nat)) (c : Bool) :
    s.setAbundances ps c = (BOp.setAbund ps c).expand.foldl vecStep s := by
  unfold Vec.setAbundances BOp.expand
  rw [List.foldl_append, vec_addManyAbund_fold]
  cases c <;> rfl

theorem tree_addMany_fold (s : Tree) (hs : List Nat) :
    s.addMany hs = (hs.map (fun h => Op.add h 1)).foldl treeStep s := by
  unfold Tree.addMany; rw [List.foldl_map]; rfl

theorem tree_addManyAbund_fold (s : Tree) (ps : List (Nat × Nat)) :
    s.addManyAbund ps = (ps.map (fun p => Op.add p.1 p.2)).foldl treeStep s := by
  unfold Tree.addManyAbund; rw [List.foldl_map]; rfl

theorem tree_removeMany_fold (s : Tree) (hs : List Nat) :
    s.removeMany hs = (hs.map Op.remove).foldl treeStep s := by
  unfold Tree.removeMany; rw [List.foldl_map]; rfl

/-- every bulk step of the vector model except the observer IS the fold of the single steps -/
theorem vecStepB_fold (s : Vec) (o : BOp) (ho : o ≠ .observe) : vecStepB s o = o.expand.foldl vecStep s := by
  cases o with
  | one o => rfl
  | addMany hs => exact vec_addMany_fold s hs
  | addManyAbund ps => exact vec_addManyAbund_fold s ps
  | setAbund ps c => exact vec_setAbundances_fold s ps c
  | observe => exact absurd rfl ho

theorem treeStepB_fold (s : Tree) (o : BOp) (ho : o ≠ .observe) (hs : o.noSet) :
    treeStepB s o = o.expand.foldl treeStep s := by
  cases o with
  | one o => rfl
  | addMany l => exact tree_addMany_fold s l
  | addManyAbund ps => exact tree_addManyAbund_fold s ps
  | setAbund ps c => exact absurd hs (by simp [BOp.noSet])
  | observe => exact absurd rfl ho

/-! ### observers -/

theorem vec_md5sum_fields (s : Vec) :
    s.md5sum.2.num = s.num ∧ s.md5sum.2.maxHash = s.maxHash ∧ s.md5sum.2.mins = s.mins
      ∧ s.md5sum.2.abunds = s.abunds ∧ s.md5sum.2.ksize = s.ksize := by
  unfold Vec.md5sum; split <;> exact ⟨rfl, rfl, rfl, rfl, rfl⟩

theorem vec_clone_fields (s : Vec) :
    s.clone.1.num = s.num ∧ s.clone.1.maxHash = s.maxHash ∧ s.clone.1.mins = s.mins
      ∧ s.clone.1.abunds = s.abunds ∧ s.clone.1.ksize = s.ksize := ⟨rfl, rfl, rfl, rfl, rfl⟩

theorem tree_md5sum_fields (s : Tree) :
    s.md5sum.2.num = s.num ∧ s.md5sum.2.maxHash = s.maxHash ∧ s.md5sum.2.mins = s.mins
      ∧ s.md5sum.2.abunds = s.abunds ∧ s.md5sum.2.currentMax = s.currentMax := by
  unfold Tree.md5sum; split <;> exact ⟨rfl, rfl, rfl, rfl, rfl⟩

theorem tree_clone_fields (s : Tree) :
    s.clone.1.num = s.num ∧ s.clone.1.maxHash = s.maxHash ∧ s.clone.1.mins = s.mins
      ∧ s.clone.1.abunds = s.abunds ∧ s.clone.1.currentMax = s.currentMax := ⟨rfl, rfl, rfl, rfl, rfl⟩

theorem VRef.observe {s : Vec} {σ : St} (r : VRef s σ) : VRef s.md5sum.2 σ := by
  obtain ⟨h1, h2, h3, h4, _⟩ := vec_md5sum_fields s
  exact ⟨h1.trans r.num, h2.trans r.mh, h3.trans r.mins, h4.trans r.ab⟩

theorem VRef.cloned {s : Vec} {σ : St} (r : VRef s σ) : VRef s.clone.1 σ := ⟨r.num, r.mh, r.mins, r.ab⟩

theorem TRef.observe {s : Tree} {σ : St} (r : TRef s σ) : TRef s.md5sum.2 σ := by
  obtain ⟨h1, h2, h3, h4, h5⟩ := tree_md5sum_fields s
  exact ⟨h1.trans r.num, h2.trans r.mh, h3.trans r.mins, h4.trans r.ab, by rw [h5, h3]; exact r.cur⟩

theorem TRef.cloned {s : Tree} {σ : St} (r : TRef s σ) : TRef s.clone.1 σ := ⟨r.num, r.mh, r.mins, r.ab, r.cur⟩

/-! ### folds of single steps refine folds of abstract steps -/

theorem SInv.foldSteps {σ : St} (i : SInv σ) (k : Kind) (ops : List Op) : SInv (ops.foldl (St.step k) σ) := by
  induction ops generalizing σ with
  | nil => exact i
  | cons o t ih => exact ih (i.step k o)

theorem VRef.foldSteps {s : Vec} {σ : St} (r : VRef s σ) (i : SInv σ) (ops : List Op) :
    VRef (ops.foldl Sample.vecStep s) (ops.foldl (St.step .vec) σ) := by
  induction ops generalizing s σ with
  | nil => exact r
  | cons o t ih => exact ih (r.vecStep i o) (i.step .vec o)

theorem TRef.foldSteps {s : Tree} {σ : St} (r : TRef s σ) (i : SInv σ) (ops : List Op)
    (hns : ∀ o ∈ ops, o.noSet) : TRef (ops.foldl Sample.treeStep s) (ops.foldl (St.step .tree) σ) := by
  induction ops generalizing s σ with
  | nil => exact r
  | cons o t ih =>
    exact ih (r.treeStep i o (hns o (List.mem_cons_self ..))) (i.step .tree o)
      (fun o' ho' => hns o' (List.mem_cons_of_mem _ ho'))

theorem SInv.stepB {σ : St} (i : SInv σ) (k : Kind) (o : BOp) : SInv (σ.stepB k o) := i.foldSteps k _

theorem expand_noSet {o : BOp} (h : o.noSet) : ∀ x ∈ o.expand, x.noSet := by
  cases o with
  | one o => intro x hx; simp only [BOp.expand, List.mem_singleton] at hx; subst hx; exact h
  | addMany hs => intro x hx; rcases List.mem_map.mp hx with ⟨_, _, rfl⟩; trivial
  | addManyAbund ps => intro x hx; rcases List.mem_map.mp hx with ⟨_, _, rfl⟩; trivial
  | setAbund ps c => exact absurd h (by simp [BOp.noSet])
  | observe => intro x hx; simp [BOp.expand] at hx

/-- one bulk step of the vector model lands on the fold of the abstract single steps -/
theorem VRef.stepB {s : Vec} {σ : St} (r : VRef s σ) (i : SInv σ) (o : BOp) :
    VRef (vecStepB s o) (σ.stepB .vec o) := by
  by_cases ho : o = .observe
  · subst ho; exact r.observe
  · rw [vecStepB_fold s o ho]; exact r.foldSteps i _

theorem TRef.stepB {s : Tree} {σ : St} (r : TRef s σ) (i : SInv σ) (o : BOp) (hns : o.noSet) :
    TRef (treeStepB s o) (σ.stepB .tree o) := by
  by_cases ho : o = .observe
  · subst ho; exact r.observe
  · rw [treeStepB_fold s o ho hns]; exact r.foldSteps i _ (expand_noSet hns)

theorem VRef.addFrom {s o : Vec} {σ τ : St} (r : VRef s σ) (q : VRef o τ) (i : SInv σ) :
    VRef (s.addFrom o) (σ.addFrom .vec τ) := by
  unfold Vec.addFrom St.addFrom
  rw [vec_addMany_fold, q.mins]; exact r.foldSteps i _

theorem VRef.removeFrom {s o : Vec} {σ τ : St} (r : VRef s σ) (q : VRef o τ) (i : SInv σ) :
    VRef (s.removeFrom o) (σ.removeFrom τ) := by
  unfold Vec.removeFrom St.removeFrom
  rw [q.mins]; exact r.removeMany i _

theorem TRef.addFrom {s o : Tree} {σ τ : St} (r : TRef s σ) (q : TRef o τ) (i : SInv σ) :
    TRef (s.addFrom o) (σ.addFrom .tree τ) := by
  unfold Tree.addFrom St.addFrom
  rw [tree_addMany_fold, q.mins]
  exact r.foldSteps i _ (fun x hx => by rcases List.mem_map.mp hx with ⟨_, _, rfl⟩; trivial)

theorem TRef.removeFromB {s o : Tree} {σ τ : St} (r : TRef s σ) (q : TRef o τ) :
    TRef (s.removeMany o.mins) (σ.removeFrom τ) := by
  unfold St.removeFrom
  rw [q.mins]; exact r.removeMany _

/-! ### whole bulk histories -/

theorem St.foldSteps_maxHash (σ : St) (k : Kind) (ops : List Op) :
    (ops.foldl (St.step k) σ).maxHash = σ.maxHash := by
  induction ops generalizing σ with
  | nil => rfl
  | cons o t ih => exact (ih _).trans (St.step_maxHash σ k o)

theorem runSpecB_params (k : Kind) (mh : Nat) (H : HistB) : (runSpecB k mh H).maxHash = mh := by
  induction H with
  | new n t => rfl
  | op H o ih => exact (St.foldSteps_maxHash _ k _).trans ih
  | merge H O ih _ => exact ih
  | addFrom H O ih _ => exact (St.foldSteps_maxHash _ k _).trans ih
  | removeFrom H O ih _ => exact (St.step_maxHash _ k (.removeMany _)).trans ih

theorem SInv.addFrom {σ : St} (i : SInv σ) (k : Kind) (τ : St) : SInv (σ.addFrom k τ) := i.foldSteps k _

theorem SInv.removeFrom {σ : St} (i : SInv σ) (τ : St) : SInv (σ.removeFrom τ) := i.removeMany _

theorem runSpecB_inv (k : Kind) (mh : Nat) (H : HistB) (hwf : H.WF mh) : SInv (runSpecB k mh H) := by
  induction H with
  | new n t => exact SInv.new t hwf
  | op H o ih => exact (ih hwf).stepB k o
  | merge H O ih1 ih2 =>
    refine (ih1 hwf.1).merge (ih2 hwf.2) ?_
    rw [runSpecB_params, runSpecB_params]
  | addFrom H O ih1 _ => exact (ih1 hwf.1).addFrom k _
  | removeFrom H O ih1 _ => exact (ih1 hwf.1).removeFrom _

theorem runVecB_ref (mh : Nat) (H : HistB) (hwf : H.WF mh) : VRef (runVecB mh H) (runSpecB .vec mh H) := by
  induction H with
  | new n t => exact VRef.new n mh t
  | op H o ih => exact (ih hwf).stepB (runSpecB_inv .vec mh H hwf) o
  | merge H O ih1 ih2 => exact (ih1 hwf.1).merge (ih2 hwf.2) (runSpecB_inv .vec mh O hwf.2)
  | addFrom H O ih1 ih2 => exact (ih1 hwf.1).addFrom (ih2 hwf.2) (runSpecB_inv .vec mh H hwf.1)
  | removeFrom H O ih1 ih2 => exact (ih1 hwf.1).removeFrom (ih2 hwf.2) (runSpecB_inv .vec mh H hwf.1)

theorem runTreeB_ref (mh : Nat) (H : HistB) (hwf : H.WF mh) (hns : H.NoSet) :
    TRef (runTreeB mh H) (runSpecB .tree mh H) := by
  induction H with
  | new n t => exact TRef.new n mh t
  | op H o ih => exact (ih hwf hns.1).stepB (runSpecB_inv .tree mh H hwf) o hns.2
  | merge H O ih1 ih2 =>
    exact (ih1 hwf.1 hns.1).merge (ih2 hwf.2 hns.2) (runSpecB_inv .tree mh H hwf.1) (runSpecB_inv .tree mh O hwf.2)
  | addFrom H O ih1 ih2 => exact (ih1 hwf.1 hns.1).addFrom (ih2 hwf.2 hns.2) (runSpecB_inv .tree mh H hwf.1)
  | removeFrom H O ih1 ih2 => exact (ih1 hwf.1 hns.1).removeFromB (ih2 hwf.2 hns.2)

/-! ### merging a sample with itself (a sketch with its own clone) -/

theorem mergeLists_self (m : FMap) : mergeLists m m = m.map (fun kv => (kv.1, kv.2 + kv.2)) := by
  induction m with
  | nil => simp [mergeLists_nil_left]
  | cons kv t ih =>
    cases kv with
    | mk k v => rw [mergeLists_cons_cons, if_neg (by omega), if_pos rfl, ih]; rfl

/-- the abstract merge of a sample with itself: same keys, every abundance doubled, nothing evicted -/
theorem St.merge_self {σ : St} (i : SInv σ) :
    (σ.merge σ).m = σ.m.map (fun kv => (kv.1, kv.2 + kv.2)) ∧ (σ.merge σ).track = σ.track := by
  refine ⟨?_, by simp [St.merge]⟩
  show σ.cap (union σ.m σ.m) = _
  rw [← mergeLists_eq_union σ.m σ.m i.sorted, mergeLists_self]
  exact cap_id (fun hn => by rw [List.length_map]; exact i.cap hn)

/-! ### single-step histories are bulk histories -/

theorem runSpecB_toB (k : Kind) (mh : Nat) (H : Hist) : runSpecB k mh H.toB = runSpec k mh H := by
  induction H with
  | new n t => rfl
  | op H o ih => simp only [Hist.toB, runSpecB, runSpec, ih]; rfl
  | merge H O ih1 ih2 => simp only [Hist.toB, runSpecB, runSpec, ih1, ih2]

theorem runVecB_toB (mh : Nat) (H : Hist) : runVecB mh H.toB = runVec mh H := by
  induction H with
  | new n t => rfl
  | op H o ih => simp only [Hist.toB, runVecB, runVec, ih]; rfl
  | merge H O ih1 ih2 => simp only [Hist.toB, runVecB, runVec, ih1, ih2]

theorem runTreeB_toB (mh : Nat) (H : Hist) : runTreeB mh H.toB = runTree mh H := by
  induction H with
  | new n t => rfl
  | op H o ih => simp only [Hist.toB, runTreeB, runTree, ih]; rfl
  | merge H O ih1 ih2 => simp only [Hist.toB, runTreeB, runTree, ih1, ih2]

end Sample
