import Sourmash.Lemmas.SetOpsSk
/-! Lemmas/Downsample.lean — `downsample_scaled` re-inserts the (sorted) content into an empty sketch
with the new ceiling; every insertion hits the push-at-end branch, so the result is the content
filtered by the new ceiling. -/
namespace SetOps
open SetSpec

theorem pos_eq_length {l : List Nat} {h : Nat} (hlt : ∀ x ∈ l, x < h) : pos l h = l.length := by
  unfold pos
  induction l with
  | nil => rfl
  | cons x t ih =>
    have hx : x < h := hlt x (by simp)
    simp only [List.takeWhile_cons, hx, decide_true, if_true, List.length_cons]
    rw [ih (fun y hy => hlt y (by simp [hy]))]

theorem insertAt_length {α : Type} (l : List α) (x : α) : insertAt l l.length x = l ++ [x] := by
  simp [insertAt]

/-- adding a hash larger than everything present to a scaled sketch: kept iff under the ceiling -/
theorem add_push (k : Kind) {t : Sk} {h a : Nat} (hn : t.num = 0) (hM : t.maxHash ≠ 0) (hw : t.WF)
    (hlt : ∀ x ∈ t.mins, x < h) (ha : a ≠ 0) :
    t.add k h a = if h ≤ t.maxHash then { t with mins := t.mins ++ [h], abunds := t.abunds.map (· ++ [a]) } else t := by
  have hp := pos_eq_length hlt
  by_cases hle : h ≤ t.maxHash
  · simp only [hle, if_true]
    have hgt : ¬ (h > t.maxHash ∧ t.maxHash ≠ 0) := by omega
    have h2 : ¬ (t.num = 0 ∧ t.maxHash = 0) := by omega
    cases k with
    | vec =>
      simp only [Sk.add, Sk.addV, hgt, h2, ha, if_false]
      by_cases he : t.mins = []
      · simp [he]
      · simp only [he, if_false, hle, true_or, if_true, hp]
    | tree =>
      simp only [Sk.add, Sk.addT, hgt, h2, ha, if_false]
      by_cases he : t.mins = []
      · simp only [he, if_true, List.nil_append]
        cases hab : t.abunds with
        | none => simp
        | some ab =>
          have := hw.2 ab hab
          simp only [he, List.length_nil, List.length_eq_zero_iff] at this
          simp [this]
      · have hnew : t.mins[t.mins.length]? ≠ some h := by simp
        simp only [he, if_false, hle, true_or, if_true, hp, hn, ne_eq, not_true_eq_false, false_and, hnew,
          not_false_eq_true, insertAt_length]
        cases hab : t.abunds with
        | none => simp
        | some ab =>
          have := hw.2 ab hab
          simp only [Option.map_some]
          rw [← this, insertAt_length]
  · simp only [hle, if_false]
    have hgt : (h > t.maxHash ∧ t.maxHash ≠ 0) := by omega
    cases k <;> simp [Sk.add, Sk.addV, Sk.addT, hgt]

theorem push_wf {t : Sk} {h a : Nat} (hw : t.WF) (hlt : ∀ x ∈ t.mins, x < h) :
    ({ t with mins := t.mins ++ [h], abunds := t.abunds.map (· ++ [a]) } : Sk).WF := by
  refine ⟨?_, ?_⟩
  · show SInc (t.mins ++ [h])
    rw [SInc, List.pairwise_append]
    refine ⟨hw.1, by simp, ?_⟩
    intro x hx y hy
    simp only [List.mem_singleton] at hy
    subst hy; exact hlt x hx
  · intro ab hab
    simp only [Option.map_eq_some_iff] at hab
    obtain ⟨ab0, h0, rfl⟩ := hab
    simp [hw.2 ab0 h0]

theorem addManyAb_push (k : Kind) (ps : List (Nat × Nat)) (t : Sk) (hn : t.num = 0) (hM : t.maxHash ≠ 0)
    (hw : t.WF) (hs : SInc (ps.map Prod.fst)) (hlt : ∀ x ∈ t.mins, ∀ p ∈ ps, x < p.1)
    (hpos : ∀ p ∈ ps, p.2 ≠ 0) :
    t.addManyAb k ps =
      { t with mins := t.mins ++ below t.maxHash (ps.map Prod.fst),
               abunds := t.abunds.map (· ++ (belowP t.maxHash ps).map Prod.snd) } := by
  induction ps generalizing t with
  | nil =>
    simp only [Sk.addManyAb, List.foldl_nil, below, belowP, List.map_nil, List.filter_nil, List.append_nil]
    cases t; simp
  | cons p rest ih =>
    simp only [List.map_cons] at hs
    rw [sinc_cons] at hs
    have hstep : t.addManyAb k (p :: rest) = (t.add k p.1 p.2).addManyAb k rest := by
      simp [Sk.addManyAb]
    rw [hstep, add_push k hn hM hw (fun x hx => hlt x hx p (by simp)) (hpos p (by simp))]
    by_cases hle : p.1 ≤ t.maxHash
    · simp only [hle, if_true]
      rw [ih { t with mins := t.mins ++ [p.1], abunds := t.abunds.map (· ++ [p.2]) } hn hM
        (push_wf hw (fun x hx => hlt x hx p (by simp))) hs.2]
      · simp only [below, belowP, List.map_cons, List.filter_cons, hle, decide_true, if_true,
          List.append_assoc, List.singleton_append]
        cases t.abunds <;> simp
      · intro x hx q hq
        simp only [List.mem_append, List.mem_singleton] at hx
        rcases hx with hx | hx
        · exact hlt x hx q (by simp [hq])
        · subst hx; exact hs.1 q.1 (List.mem_map_of_mem hq)
      · intro q hq; exact hpos q (by simp [hq])
    · simp only [hle, if_false]
      rw [ih _ hn hM hw hs.2 (fun x hx q hq => hlt x hx q (by simp [hq])) (fun q hq => hpos q (by simp [hq]))]
      simp [below, belowP, hle]

theorem addMany_eq (k : Kind) (t : Sk) (hs : List Nat) :
    t.addMany k hs = t.addManyAb k (hs.map (fun h => (h, 1))) := by
  simp [Sk.addMany, Sk.addManyAb, List.foldl_map]

theorem downsample_exact (k : Kind) {s : Sk} (hs : s.Scaled) {s' : Nat} (h0 : s.scaled ≠ 0)
    (hlt : s.scaled < s') (hM : Scaled.maxHashForScaled s' ≠ 0) :
    downsampleScaled k s s' = .ok (belowSk (Scaled.maxHashForScaled s') s) := by
  obtain ⟨hw, hn, _, _, hpos⟩ := hs
  have c1 : ¬ (s.scaled = s' ∨ s.scaled = 0) := by omega
  have c2 : ¬ (s.scaled > s') := by omega
  simp only [downsampleScaled, c1, c2, if_false]
  cases hab : s.abunds with
  | none =>
    have ht : s.track = false := by simp [Sk.track, hab]
    simp only [ht, Bool.false_eq_true, if_false, addMany_eq]
    rw [addManyAb_push k _ _ (by simpa [Sk.new] using hn) (by simpa [Sk.new] using hM)]
    · simp [Sk.new, belowSk, hab, below, List.map_map, Function.comp_def]
    · exact ⟨by simp [Sk.new], by simp [Sk.new]⟩
    · simpa [List.map_map, Function.comp_def] using hw.1
    · simp [Sk.new]
    · simp
  | some ab =>
    have ht : s.track = true := by simp [Sk.track, hab]
    have hl := hw.2 ab hab
    have hk : (s.mins.zip ab).map Prod.fst = s.mins := List.map_fst_zip (by omega)
    simp only [ht, if_true, pairs_tracked hab]
    rw [addManyAb_push k _ _ (by simpa [Sk.new] using hn) (by simpa [Sk.new] using hM)]
    · simp [Sk.new, belowSk, hab, hk]
    · refine ⟨by simp [Sk.new], ?_⟩
      intro ab' h'; simp [Sk.new] at h'; subst h'; simp [Sk.new]
    · rw [hk]; exact hw.1
    · simp [Sk.new]
    · intro p hp
      have := hpos ab hab p.2 (List.of_mem_zip hp).2
      omega
end SetOps
