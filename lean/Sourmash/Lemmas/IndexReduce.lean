import Sourmash.Lemmas.IndexMem
import Sourmash.Lemmas.LookupExact
/-! Lemmas/IndexReduce.lean (C09) — `add_to`, `reduce_hashes_colors` and reduction trees preserve the refcount
invariant and compute pointwise unions.  Core Lean only. -/
namespace RevIdx

theorem update_same {cs : Colors} {d : Nat} (h : cs [d] ≠ 0) :
    cs.update (some [d]) [d] = some (cs.bump [d], [d]) := by
  simp [Colors.update, h]

theorem refs_after_insert_new {m : H2C} {cs : Colors} {h : Nat} {col : Color}
    (hr : ∀ c, mapped m c ≤ cs c) : ∀ c, mapped (m.insert h col) c ≤ cs.bump col c := by
  intro c
  have := mapped_insert h col c m
  have := hr c
  simp only [Colors.bump]
  by_cases h1 : col = c
  · subst h1
    simp only [if_true] at *
    omega
  · have h2 : ¬ c = col := fun e => h1 e.symm
    simp only [h1, h2, if_false] at *
    omega

theorem sorted_after_insert {m : H2C} {h : Nat} {col : Color} (hs : ∀ e ∈ m, Sorted e.2) (hc : Sorted col) :
    ∀ e ∈ m.insert h col, Sorted e.2 := by
  intro e he
  rcases mem_insert he with rfl | he
  · exact hc
  · exact hs e he

/-- the loop of `add_to` -/
theorem addToGo_spec (d : Nat) : ∀ (hs : List Nat) (m : H2C) (cs : Colors) (color : Option Color),
    MemInv (m, cs) → (color = none ∨ (color = some [d] ∧ cs [d] ≠ 0)) →
    ∃ r, addToGo d m cs color hs = some r ∧ MemInv r ∧
      ∀ x, r.1.get x = if x ∈ hs then some [d] else m.get x
  | [], m, cs, _, hinv, _ => ⟨(m, cs), rfl, hinv, fun x => by simp⟩
  | h :: t, m, cs, color, hinv, hcol => by
    have hupd : cs.update color [d] = some (cs.bump [d], [d]) := by
      rcases hcol with rfl | ⟨rfl, hpos⟩
      · rfl
      · exact update_same hpos
    have hinv' : MemInv (m.insert h [d], cs.bump [d]) :=
      ⟨keys_insert hinv.keys, refs_after_insert_new hinv.refs,
        sorted_after_insert hinv.sorted (by simp [Sorted])⟩
    have hpos' : (cs.bump [d]) [d] ≠ 0 := by simp [Colors.bump]
    obtain ⟨r, hr, hri, hrg⟩ := addToGo_spec d t (m.insert h [d]) (cs.bump [d]) (some [d]) hinv' (Or.inr ⟨rfl, hpos'⟩)
    refine ⟨r, ?_, hri, fun x => ?_⟩
    · unfold addToGo
      rw [hupd]
      exact hr
    · rw [hrg x, get_insert]
      by_cases h1 : x ∈ t
      · simp [h1]
      · by_cases h2 : x = h <;> simp [h1, h2]

/-- one entry of the smaller map folded into the larger -/
theorem reduceEntry_spec {scs : Colors} {acc : H2C × Colors} {hash : Nat} {color : Color}
    (hinv : MemInv acc) (hc : scs color ≠ 0) (hs : Sorted color) :
    ∃ acc' col', reduceEntry scs acc (hash, color) = some acc' ∧ MemInv acc' ∧ Sorted col' ∧
      (∀ x, x ∈ col' ↔ x ∈ absHC acc hash ∨ x ∈ color) ∧
      ∀ h', acc'.1.get h' = if h' = hash then some col' else acc.1.get h' := by
  unfold reduceEntry
  simp only [Colors.indices, hc, if_false]
  cases hg : acc.1.get hash with
  | some entry =>
    have hpos : acc.2 entry ≠ 0 := hinv.count_pos hg
    have hse : Sorted entry := hinv.sorted _ (mem_of_get hg)
    obtain ⟨cs', col', hu, hsc, hmem, hcnt⟩ := update_some hpos hse color
    simp only [hu]
    refine ⟨_, col', rfl, ⟨keys_insert hinv.keys, ?_, sorted_after_insert hinv.sorted hsc⟩, hsc, ?_, fun h' => get_insert _ _ _ _⟩
    · intro c
      have hmi := mapped_insert hash col' c acc.1
      rw [hg] at hmi
      have hr := hinv.refs c
      have hre := hinv.refs entry
      have hme := mapped_pos_of_get hg
      show mapped (acc.1.insert hash col') c ≤ cs' c
      rcases hcnt with ⟨heq, hcs⟩ | ⟨hne, hcs⟩
      · rw [hcs c]
        subst heq
        by_cases h1 : col' = c
        · subst h1
          simp only [if_true] at hmi ⊢
          omega
        · have : ¬ (some col' = some c) := by simpa using h1
          simp only [this, h1, if_false] at hmi
          omega
      · rw [hcs c]
        by_cases h1 : c = entry
        · subst h1
          have h2 : ¬ col' = c := hne
          have h3 : ¬ c = col' := fun e => hne e.symm
          simp only [h2, h3, if_true, if_false] at hmi ⊢
          simp at hmi
          omega
        · have h1' : ¬ (some entry = some c) := by
            intro e; simp only [Option.some.injEq] at e; exact h1 e.symm
          simp only [h1, h1', if_false] at hmi ⊢
          by_cases h2 : col' = c
          · subst h2
            simp only [if_true] at hmi ⊢
            omega
          · have h3 : ¬ c = col' := fun e => h2 e.symm
            simp only [h2, h3, if_false] at hmi ⊢
            omega
    · intro x
      rw [hmem x]
      simp [absHC, hg]
  | none =>
    have hid : insertAll [] color = color := insertAll_nil_of_sorted hs
    simp only [update_none, hid, ne_eq, not_true_eq_false, if_false]
    refine ⟨_, color, rfl, ⟨keys_insert hinv.keys, refs_after_insert_new hinv.refs,
      sorted_after_insert hinv.sorted hs⟩, hs, ?_, fun h' => get_insert _ _ _ _⟩
    intro x
    simp [absHC, hg]

/-- the fold of `reduce_hashes_colors` over any list of entries of the smaller map -/
theorem foldReduce_spec {scs : Colors} : ∀ (es : List (Nat × Color)) (acc : H2C × Colors), MemInv acc →
    (∀ e ∈ es, scs e.2 ≠ 0 ∧ Sorted e.2) →
    ∃ acc', foldOpt (reduceEntry scs) acc es = some acc' ∧ MemInv acc' ∧
      ∀ h x, x ∈ absHC acc' h ↔ x ∈ absHC acc h ∨ ∃ col, (h, col) ∈ es ∧ x ∈ col
  | [], acc, hinv, _ => ⟨acc, rfl, hinv, fun h x => by simp⟩
  | (hash, color) :: es, acc, hinv, hes => by
    have ⟨hc, hs⟩ := hes (hash, color) (by simp)
    obtain ⟨acc1, col', h1, hinv1, _, hmem1, hget1⟩ := reduceEntry_spec (hash := hash) hinv hc hs
    obtain ⟨acc2, h2, hinv2, habs2⟩ := foldReduce_spec es acc1 hinv1 (fun e he => hes e (by simp [he]))
    refine ⟨acc2, ?_, hinv2, fun h x => ?_⟩
    · simp only [foldOpt, h1]
      exact h2
    · rw [habs2 h x]
      have : x ∈ absHC acc1 h ↔ x ∈ absHC acc h ∨ (h = hash ∧ x ∈ color) := by
        unfold absHC
        rw [hget1 h]
        by_cases hh : h = hash
        · subst hh
          simp only [if_true, Option.getD_some, true_and]
          exact hmem1 x
        · simp [hh]
      rw [this]
      simp only [List.mem_cons, Prod.mk.injEq]
      constructor
      · rintro ((h3 | ⟨rfl, h3⟩) | ⟨col, h3, h4⟩)
        · exact Or.inl h3
        · exact Or.inr ⟨color, Or.inl ⟨rfl, rfl⟩, h3⟩
        · exact Or.inr ⟨col, Or.inr h3, h4⟩
      · rintro (h3 | ⟨col, (⟨rfl, rfl⟩ | h3), h4⟩)
        · exact Or.inl (Or.inl h3)
        · exact Or.inl (Or.inr ⟨rfl, h4⟩)
        · exact Or.inr ⟨col, h3, h4⟩

/-- the entries of a map satisfying the invariant are what `absHC` reads -/
theorem entries_abs {r : H2C × Colors} (hr : MemInv r) (h x : Nat) :
    (∃ col, (h, col) ∈ r.1 ∧ x ∈ col) ↔ x ∈ absHC r h := by
  unfold absHC
  constructor
  · rintro ⟨col, hm, hx⟩
    rw [get_of_mem hr.keys hm]
    exact hx
  · intro hx
    cases hg : r.1.get h with
    | none => rw [hg] at hx; simp at hx
    | some col => rw [hg] at hx; exact ⟨col, mem_of_get hg, hx⟩

theorem entries_ok {r : H2C × Colors} (hr : MemInv r) : ∀ e ∈ r.1, r.2 e.2 ≠ 0 ∧ Sorted e.2 := by
  intro e he
  exact ⟨hr.count_pos (get_of_mem hr.keys (show (e.1, e.2) ∈ r.1 from he)), hr.sorted e he⟩

/-- T-mem_reduce: `reduce_hashes_colors` of two states satisfying the invariant does not panic, satisfies
the invariant and answers every hash with the union of the two answers -/
theorem reduceHC_spec {a b : H2C × Colors} (ha : MemInv a) (hb : MemInv b) :
    ∃ r, reduceHC a b = some r ∧ MemInv r ∧ ∀ h x, x ∈ absHC r h ↔ x ∈ absHC a h ∨ x ∈ absHC b h := by
  unfold reduceHC
  split
  · obtain ⟨r, h1, h2, h3⟩ := foldReduce_spec (scs := b.2) b.1 a ha (entries_ok hb)
    exact ⟨r, h1, h2, fun h x => by rw [h3 h x, entries_abs hb]⟩
  · obtain ⟨r, h1, h2, h3⟩ := foldReduce_spec (scs := a.2) a.1 b hb (entries_ok ha)
    exact ⟨r, h1, h2, fun h x => by rw [h3 h x, entries_abs ha, or_comm]⟩

/-- a leaf of the reduction: one dataset's `map_hashes_colors` -/
theorem memLeaf_spec (d : Nat) (hs : List Nat) :
    ∃ r, (match memLeaf d hs with
        | none => none
        | some none => some ([], Colors.empty)
        | some (some r) => some r) = some r ∧ MemInv r ∧
      ∀ h x, x ∈ absHC r h ↔ (h ∈ hs ∧ x = d) := by
  unfold memLeaf
  by_cases he : hs.isEmpty = true
  · have : hs = [] := List.isEmpty_iff.mp he
    subst this
    exact ⟨_, rfl, MemInv.empty, fun h x => by simp [absHC, H2C.get]⟩
  · simp only [he]
    obtain ⟨r, hr, hinv, hget⟩ := addToGo_spec d hs [] Colors.empty none MemInv.empty (Or.inl rfl)
    simp only [addTo, hr]
    refine ⟨r, rfl, hinv, fun h x => ?_⟩
    unfold absHC
    rw [hget h]
    by_cases hh : h ∈ hs
    · simp [hh]
    · simp [hh, H2C.get]

/-- every reduction tree — any shape, any leaf order, identities anywhere — evaluates without panic to a state
satisfying the invariant that answers each hash with exactly the leaves' datasets containing it -/
theorem RTree.eval_spec (C : List (List Nat)) : ∀ t : RTree,
    ∃ r, t.eval C = some r ∧ MemInv r ∧ ∀ h x, x ∈ absHC r h ↔ (x ∈ t.leaves ∧ h ∈ C.getD x [])
  | .ident => ⟨_, rfl, MemInv.empty, fun h x => by simp [absHC, H2C.get, RTree.leaves]⟩
  | .leaf d => by
    obtain ⟨r, h1, h2, h3⟩ := memLeaf_spec d (C.getD d [])
    refine ⟨r, ?_, h2, fun h x => ?_⟩
    · unfold RTree.eval
      exact h1
    · rw [h3 h x]
      simp only [RTree.leaves, List.mem_singleton]
      constructor
      · rintro ⟨hh, rfl⟩; exact ⟨rfl, hh⟩
      · rintro ⟨rfl, hh⟩; exact ⟨hh, rfl⟩
  | .node l r => by
    obtain ⟨a, ha1, ha2, ha3⟩ := RTree.eval_spec C l
    obtain ⟨b, hb1, hb2, hb3⟩ := RTree.eval_spec C r
    obtain ⟨res, hr1, hr2, hr3⟩ := reduceHC_spec ha2 hb2
    refine ⟨res, ?_, hr2, fun h x => ?_⟩
    · unfold RTree.eval
      rw [ha1, hb1]
      exact hr1
    · rw [hr3 h x, ha3 h x, hb3 h x]
      simp only [RTree.leaves, List.mem_append]
      constructor
      · rintro (⟨h1, h2⟩ | ⟨h1, h2⟩)
        · exact ⟨Or.inl h1, h2⟩
        · exact ⟨Or.inr h1, h2⟩
      · rintro ⟨h1 | h1, h2⟩
        · exact Or.inl ⟨h1, h2⟩
        · exact Or.inr ⟨h1, h2⟩

/-- what `counter_for_query` reads (`memIds`) is `absHC` under the invariant: the colour of a hash exists -/
theorem memIds_eq_abs {r : H2C × Colors} (hr : MemInv r) (h : Nat) : memIds r h = absHC r h := by
  unfold memIds absHC
  cases hg : r.1.get h with
  | none => rfl
  | some col =>
    have := hr.count_pos hg
    simp [Colors.indices, this]

theorem sorted_abs {r : H2C × Colors} (hr : MemInv r) (h : Nat) : Sorted (absHC r h) := by
  unfold absHC
  cases hg : r.1.get h with
  | none => simp [Sorted]
  | some col => exact hr.sorted _ (mem_of_get hg)

end RevIdx
