import Sourmash.Lemmas.Json
/-! Lemmas/JsonSort.lean — the legacy repair of C06: insertion sort is a sorted permutation; sorting the
zipped `(hash, abundance)` pairs lexicographically is sorting by hash when the hashes are distinct.
Core Lean only. -/
namespace SigJson

/-! ### insertion sort: permutation and sortedness -/

theorem perm_insertBy (le : α → α → Bool) (x : α) : ∀ l : List α, (insertBy le x l).Perm (x :: l)
  | [] => List.Perm.refl _
  | y :: t => by
    unfold insertBy
    split
    · exact List.Perm.refl _
    · exact ((perm_insertBy le x t).cons y).trans (List.Perm.swap x y t)

theorem perm_isortBy (le : α → α → Bool) : ∀ l : List α, (isortBy le l).Perm l
  | [] => List.Perm.refl _
  | x :: t => (perm_insertBy le x (isortBy le t)).trans ((perm_isortBy le t).cons x)

theorem mem_isortBy {le : α → α → Bool} {l : List α} {x : α} : x ∈ isortBy le l ↔ x ∈ l :=
  (perm_isortBy le l).mem_iff

theorem sorted_insertBy {le : α → α → Bool} (total : ∀ a b, le a b = true ∨ le b a = true)
    (trans : ∀ a b c, le a b = true → le b c = true → le a c = true) (x : α) :
    ∀ l : List α, l.Pairwise (fun a b => le a b = true) → (insertBy le x l).Pairwise (fun a b => le a b = true)
  | [], _ => by simp [insertBy]
  | y :: t, h => by
    have hy := (List.pairwise_cons.1 h).1
    have ht := (List.pairwise_cons.1 h).2
    unfold insertBy
    split
    · rename_i hxy
      refine List.pairwise_cons.2 ⟨?_, h⟩
      intro z hz
      rcases List.mem_cons.1 hz with rfl | hz
      · exact hxy
      · exact trans _ _ _ hxy (hy z hz)
    · rename_i hxy
      have hyx : le y x = true := by
        rcases total x y with h1 | h1
        · exact absurd h1 hxy
        · exact h1
      refine List.pairwise_cons.2 ⟨?_, sorted_insertBy total trans x t ht⟩
      intro z hz
      rcases List.mem_cons.1 ((perm_insertBy le x t).mem_iff.1 hz) with rfl | hz
      · exact hyx
      · exact hy z hz

theorem sorted_isortBy {le : α → α → Bool} (total : ∀ a b, le a b = true ∨ le b a = true)
    (trans : ∀ a b c, le a b = true → le b c = true → le a c = true) :
    ∀ l : List α, (isortBy le l).Pairwise (fun a b => le a b = true)
  | [] => List.Pairwise.nil
  | x :: t => sorted_insertBy total trans x _ (sorted_isortBy total trans t)

theorem natLe_total (a b : Nat) : natLe a b = true ∨ natLe b a = true := by simp [natLe]; omega
theorem natLe_trans (a b c : Nat) : natLe a b = true → natLe b c = true → natLe a c = true := by
  simp [natLe]; omega

/-- `sortNats` gives a non-decreasing list … -/
theorem sorted_sortNats (l : List Nat) : (sortNats l).Pairwise (· ≤ ·) :=
  (sorted_isortBy natLe_total natLe_trans l).imp (by intro a b h; simpa [natLe] using h)

/-- … that is a permutation of the input … -/
theorem perm_sortNats (l : List Nat) : (sortNats l).Perm l := perm_isortBy natLe l

/-- … hence strictly increasing when the input has no duplicates -/
theorem strict_sortNats {l : List Nat} (h : l.Nodup) : (sortNats l).Pairwise (· < ·) := by
  have hnd : (sortNats l).Nodup := (perm_sortNats l).nodup_iff.2 h
  exact ((sorted_sortNats l).and hnd).imp (by intro a b hab; omega)

/-! ### sorting pairs with distinct keys = sorting by key -/

theorem map_fst_insertBy_lex (a b : Nat) : ∀ l : List (Nat × Nat), (∀ p ∈ l, p.1 ≠ a) →
    (insertBy lexLe (a, b) l).map (·.1) = insertBy natLe a (l.map (·.1))
  | [], _ => rfl
  | y :: t, h => by
    have hy : y.1 ≠ a := h y (by simp)
    have ih := map_fst_insertBy_lex a b t (fun p hp => h p (by simp [hp]))
    by_cases hlt : a < y.1
    · have h1 : lexLe (a, b) y = true := by simp [lexLe, hlt]
      have h2 : natLe a y.1 = true := by simp [natLe]; omega
      simp [insertBy, h1, h2]
    · have h1 : lexLe (a, b) y = false := by
        simp only [lexLe, Bool.or_eq_false_iff, Bool.and_eq_false_iff, decide_eq_false_iff_not]
        exact ⟨hlt, Or.inl (fun e => hy e.symm)⟩
      have h2 : natLe a y.1 = false := by simp [natLe]; omega
      simp [insertBy, h1, h2, ih]

theorem map_fst_sortPairs : ∀ ps : List (Nat × Nat), (ps.map (·.1)).Nodup →
    (sortPairs ps).map (·.1) = sortNats (ps.map (·.1))
  | [], _ => rfl
  | (a, b) :: t, h => by
    have hnd : a ∉ t.map (·.1) ∧ (t.map (·.1)).Nodup := List.nodup_cons.1 h
    have ih := map_fst_sortPairs t hnd.2
    have hne : ∀ p ∈ isortBy lexLe t, p.1 ≠ a := by
      intro p hp e
      exact hnd.1 (List.mem_map.2 ⟨p, mem_isortBy.1 hp, e⟩)
    show (insertBy lexLe (a, b) (isortBy lexLe t)).map (·.1) = insertBy natLe a (isortBy natLe (t.map (·.1)))
    rw [map_fst_insertBy_lex a b _ hne]
    exact congrArg _ ih

theorem zip_map_fst_snd : ∀ l : List (Nat × Nat), (l.map (·.1)).zip (l.map (·.2)) = l
  | [] => rfl
  | p :: t => by simp [zip_map_fst_snd t]

end SigJson
