import Sourmash.Lemmas.Datasets
import Sourmash.Model.Index
/-! Lemmas/IndexMem.lean (C09) — the refcount invariant of `(HashToColor, Colors)` and what `Colors::update`,
`add_to` and one step of `reduce_hashes_colors` do to it.  Core Lean only. -/
namespace RevIdx

/-! ### HashToColor as an association list -/

/-- number of hashes currently mapped to a colour -/
def mapped (m : H2C) (col : Color) : Nat := (m.filter (fun e => e.2 = col)).length

/-- what the index answers for a hash: the ids of its colour (none = no dataset) -/
def absHC (r : H2C × Colors) (h : Nat) : List Nat := (r.1.get h).getD []

theorem get_cons (k : Nat) (v : Color) (t : H2C) (x : Nat) :
    H2C.get ((k, v) :: t) x = if x = k then some v else H2C.get t x := by
  unfold H2C.get
  rw [List.lookup_cons]
  by_cases h : x = k
  · simp [h]
  · have : (x == k) = false := by simp [h]
    simp [this, h]

theorem get_insert (h : Nat) (col : Color) (x : Nat) : ∀ m : H2C,
    (m.insert h col).get x = if x = h then some col else m.get x
  | [] => by
    show H2C.get [(h, col)] x = _
    rw [get_cons]
  | (k, v) :: t => by
    simp only [H2C.insert]
    split
    · rename_i hk
      subst hk
      rw [get_cons, get_cons]
      by_cases hx : x = k <;> simp [hx]
    · rename_i hk
      rw [get_cons, get_cons, get_insert h col x t]
      by_cases hx : x = k
      · subst hx
        simp [hk]
      · simp [hx]

theorem mem_insert {h : Nat} {col : Color} {e : Nat × Color} : ∀ {m : H2C},
    e ∈ m.insert h col → e = (h, col) ∨ e ∈ m
  | [], he => by simp [H2C.insert] at he; exact Or.inl he
  | (k, v) :: t, he => by
    simp only [H2C.insert] at he
    split at he
    · rename_i hk
      rcases List.mem_cons.mp he with rfl | he
      · exact Or.inl (by rw [hk])
      · exact Or.inr (by simp [he])
    · rcases List.mem_cons.mp he with rfl | he
      · exact Or.inr (by simp)
      · rcases mem_insert he with h1 | h1
        · exact Or.inl h1
        · exact Or.inr (by simp [h1])

theorem mapped_cons (k : Nat) (v : Color) (t : H2C) (c : Color) :
    mapped ((k, v) :: t) c = (if v = c then 1 else 0) + mapped t c := by
  simp only [mapped, List.filter_cons]
  by_cases h : v = c <;> simp [h] <;> omega

/-- the bookkeeping identity of `HashMap::insert` on the per-colour hash counts -/
theorem mapped_insert (h : Nat) (col c : Color) : ∀ m : H2C,
    mapped (m.insert h col) c + (if m.get h = some c then 1 else 0) = mapped m c + (if col = c then 1 else 0)
  | [] => by
    show mapped [(h, col)] c + (if H2C.get [] h = some c then 1 else 0) = mapped [] c + _
    rw [mapped_cons]
    simp [mapped, H2C.get]
  | (k, v) :: t => by
    have ih := mapped_insert h col c t
    simp only [H2C.insert]
    split
    · rename_i hk
      subst hk
      rw [get_cons, if_pos rfl, mapped_cons, mapped_cons]
      by_cases h2 : v = c <;> simp [h2] <;> omega
    · rename_i hk
      have hne : ¬ h = k := fun e => hk e.symm
      rw [get_cons, if_neg hne, mapped_cons, mapped_cons]
      omega

theorem mapped_pos_of_get {m : H2C} {h : Nat} {col : Color} : m.get h = some col → 1 ≤ mapped m col := by
  induction m with
  | nil => simp [H2C.get]
  | cons e t ih =>
    obtain ⟨k, v⟩ := e
    rw [get_cons]
    rw [mapped_cons]
    split
    · intro hv
      simp only [Option.some.injEq] at hv
      subst hv
      simp
    · intro hg
      have := ih hg
      omega

theorem get_of_mem {m : H2C} (hk : m.Pairwise (fun a b => a.1 ≠ b.1)) {h : Nat} {col : Color}
    (he : (h, col) ∈ m) : m.get h = some col := by
  induction m with
  | nil => simp at he
  | cons e t ih =>
    obtain ⟨k, v⟩ := e
    have ⟨hk1, hk2⟩ := List.pairwise_cons.mp hk
    rw [get_cons]
    rcases List.mem_cons.mp he with e' | he
    · simp only [Prod.mk.injEq] at e'
      simp [e'.1, e'.2]
    · have : h ≠ k := fun e' => hk1 (h, col) he (by simp [e'])
      rw [if_neg this]
      exact ih hk2 he

theorem mem_of_get {m : H2C} {h : Nat} {col : Color} : m.get h = some col → (h, col) ∈ m := by
  induction m with
  | nil => simp [H2C.get]
  | cons e t ih =>
    obtain ⟨k, v⟩ := e
    rw [get_cons]
    split
    · rename_i hk
      intro hv
      simp only [Option.some.injEq] at hv
      simp [hk, hv]
    · intro hg
      exact List.mem_cons_of_mem _ (ih hg)

theorem keys_insert {h : Nat} {col : Color} : ∀ {m : H2C}, m.Pairwise (fun a b => a.1 ≠ b.1) →
    (m.insert h col).Pairwise (fun a b => a.1 ≠ b.1)
  | [], _ => by simp [H2C.insert]
  | (k, v) :: t, hp => by
    have ⟨h1, h2⟩ := List.pairwise_cons.mp hp
    simp only [H2C.insert]
    split
    · exact List.pairwise_cons.mpr ⟨h1, h2⟩
    · rename_i hk
      refine List.pairwise_cons.mpr ⟨?_, keys_insert h2⟩
      intro b hb
      rcases mem_insert hb with rfl | hb
      · exact hk
      · exact h1 b hb

/-! ### the invariant -/

/-- T-refcount_inv, the invariant: hash keys are distinct; every colour's refcount is at least the number
of hashes mapped to it (so a colour in use is never dropped); colours in use are ascending id lists -/
structure MemInv (r : H2C × Colors) : Prop where
  keys : r.1.Pairwise (fun a b => a.1 ≠ b.1)
  refs : ∀ col, mapped r.1 col ≤ r.2 col
  sorted : ∀ e ∈ r.1, Sorted e.2

theorem MemInv.empty : MemInv ([], Colors.empty) :=
  ⟨List.Pairwise.nil, fun _ => by simp [mapped], fun _ h => by simp at h⟩

theorem MemInv.count_pos {r : H2C × Colors} (hr : MemInv r) {h : Nat} {col : Color} (hg : r.1.get h = some col) :
    r.2 col ≠ 0 := by
  have := mapped_pos_of_get hg
  have := hr.refs col
  omega

/-! ### Colors::update -/

theorem bump_release (cs : Colors) (color idxs c : Color) :
    Colors.bump (Colors.release cs color) idxs c = (if c = color then cs c - 1 else cs c) + (if c = idxs then 1 else 0) := by
  simp only [Colors.bump, Colors.release]
  by_cases h1 : c = idxs <;> simp [h1]

theorem update_none (cs : Colors) (new : List Nat) :
    cs.update none new = some (cs.bump (insertAll [] new), insertAll [] new) := rfl

/-- `update(Some(color), new)` when the colour exists: either the colour already covers `new` (refcount
+1), or the hash moves to the colour `color ∪ new` (old refcount −1, new refcount +1) -/
theorem update_some {cs : Colors} {color : Color} (hpos : cs color ≠ 0) (hs : Sorted color) (new : List Nat) :
    ∃ cs' col', cs.update (some color) new = some (cs', col') ∧ Sorted col' ∧
      (∀ x, x ∈ col' ↔ x ∈ color ∨ x ∈ new) ∧
      ((col' = color ∧ ∀ c, cs' c = cs c + (if c = color then 1 else 0)) ∨
       (col' ≠ color ∧ ∀ c, cs' c = (if c = color then cs c - 1 else cs c) + (if c = col' then 1 else 0))) := by
  unfold Colors.update
  simp only [hpos, if_false]
  by_cases hE : (new.filter (fun i => !color.contains i)).isEmpty = true
  · simp only [hE, if_true]
    refine ⟨_, _, rfl, hs, ?_, Or.inl ⟨rfl, fun c => ?_⟩⟩
    · intro x
      constructor
      · exact Or.inl
      · rintro (h | h)
        · exact h
        · have := List.isEmpty_iff.mp hE
          have hx : x ∉ new.filter (fun i => !color.contains i) := by rw [this]; simp
          simp only [List.mem_filter, h, true_and, Bool.not_eq_true', List.contains_eq_mem, decide_eq_false_iff_not,
            Decidable.not_not] at hx
          exact hx
    · simp only [Colors.bump]
      by_cases hc : c = color <;> simp [hc]
  · simp only [hE]
    have hne : insertAll color (new.filter (fun i => !color.contains i)) ≠ color := by
      intro e
      have hnil : new.filter (fun i => !color.contains i) ≠ [] := fun h => hE (List.isEmpty_iff.mpr h)
      obtain ⟨y, hy⟩ := List.exists_mem_of_ne_nil _ hnil
      have h1 : y ∈ insertAll color (new.filter (fun i => !color.contains i)) := mem_insertAll.mpr (Or.inr hy)
      rw [e] at h1
      simp only [List.mem_filter, Bool.not_eq_true', List.contains_eq_mem, decide_eq_false_iff_not] at hy
      exact hy.2 h1
    refine ⟨_, _, rfl, sorted_insertAll hs, ?_, Or.inr ⟨hne, fun c => ?_⟩⟩
    · intro x
      rw [mem_insertAll]
      simp only [List.mem_filter, Bool.not_eq_true', List.contains_eq_mem, decide_eq_false_iff_not]
      constructor
      · rintro (h | ⟨h, _⟩)
        · exact Or.inl h
        · exact Or.inr h
      · rintro (h | h)
        · exact Or.inl h
        · by_cases hx : x ∈ color
          · exact Or.inl hx
          · exact Or.inr ⟨h, hx⟩
    · show Colors.bump (if _ ≠ color then Colors.release cs color else cs) _ c = _
      rw [if_pos hne]
      exact bump_release cs color _ c

theorem insertAll_nil_of_sorted {l : List Nat} (h : Sorted l) : insertAll [] l = l :=
  sorted_ext (sorted_insertAll (by simp [Sorted])) h (fun x => by simp [mem_insertAll])

end RevIdx
