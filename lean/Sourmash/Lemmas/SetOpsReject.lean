import Sourmash.Model.SetOps
/-! Lemmas/SetOpsReject.lean — `count_common(other, downsample = true)` between sketches of different
`scaled()` still goes through `check_compatible` (after the finer sketch was downsampled, which keeps
ksize, molecule and seed): a pair that ALSO differs in ksize / molecule / seed (or a num sketch against
a scaled one) is refused.  Core Lean only. -/
namespace SetOps

/-- ksize, molecule, seed -/
def Sk.kms (s : Sk) : Nat × Mol × Nat := (s.ksize, s.mol, s.seed)

theorem remove_kms (s : Sk) (h : Nat) : (s.remove h).kms = s.kms := by
  unfold Sk.remove; dsimp only; split <;> rfl

theorem addV_kms (s : Sk) (h a : Nat) : (s.addV h a).kms = s.kms := by
  unfold Sk.addV
  dsimp only
  repeat' split
  all_goals first | rfl | exact remove_kms s h

theorem addT_kms (s : Sk) (h a : Nat) : (s.addT h a).kms = s.kms := by
  unfold Sk.addT
  dsimp only
  repeat' split
  all_goals rfl

theorem add_kms (k : Kind) (s : Sk) (h a : Nat) : (s.add k h a).kms = s.kms := by
  cases k
  · exact addV_kms s h a
  · exact addT_kms s h a

theorem addManyAb_kms (k : Kind) (s : Sk) (ps : List (Nat × Nat)) : (s.addManyAb k ps).kms = s.kms := by
  unfold Sk.addManyAb
  induction ps generalizing s with
  | nil => rfl
  | cons p t ih => simp only [List.foldl_cons]; rw [ih, add_kms]

theorem addMany_kms (k : Kind) (s : Sk) (hs : List Nat) : (s.addMany k hs).kms = s.kms := by
  unfold Sk.addMany
  induction hs generalizing s with
  | nil => rfl
  | cons p t ih => simp only [List.foldl_cons]; rw [ih, add_kms]

/-- downsampling keeps ksize, molecule and seed -/
theorem downsampleScaled_kms (k : Kind) (s d : Sk) (sc : Nat) (h : downsampleScaled k s sc = .ok d) :
    d.kms = s.kms := by
  unfold downsampleScaled at h
  split at h
  · cases h; rfl
  · split at h
    · cases h
    · split at h
      · cases h; rw [addManyAb_kms]; rfl
      · cases h; rw [addMany_kms]; rfl

/-- downsampling a num sketch (`scaled() = 0`) returns it as it is -/
theorem downsampleScaled_num (k : Kind) (s : Sk) (sc : Nat) (h : s.scaled = 0) : downsampleScaled k s sc = .ok s := by
  unfold downsampleScaled; rw [if_pos (Or.inr h)]

/-- the finer sketch is never refused by the downsample step itself -/
theorem downsampleScaled_ok (k : Kind) (s : Sk) (sc : Nat) (h : s.scaled < sc) : ∃ d, downsampleScaled k s sc = .ok d := by
  unfold downsampleScaled
  split
  · exact ⟨_, rfl⟩
  · rw [if_neg (by omega)]
    split <;> exact ⟨_, rfl⟩

theorem checkCompatible_kms_err {a b : Sk} (h : a.kms ≠ b.kms) : ∃ e, checkCompatible a b = .error e := by
  unfold checkCompatible
  by_cases h1 : a.ksize = b.ksize
  · by_cases h2 : a.mol = b.mol
    · by_cases h3 : a.maxHash = b.maxHash
      · have h4 : a.seed ≠ b.seed := fun e => h (by simp [Sk.kms, h1, h2, e])
        exact ⟨.MismatchSeed, by simp [h1, h2, h3, h4]⟩
      · exact ⟨.MismatchScaled, by simp [h1, h2, h3]⟩
    · exact ⟨.MismatchDNAProt, by simp [h1, h2]⟩
  · exact ⟨.MismatchKSizes, by simp [h1]⟩

theorem countCommonPlain_err {a b : Sk} {e : Err} (h : checkCompatible a b = .error e) :
    countCommonPlain a b = .error e := by
  simp [countCommonPlain, h, bind, Except.bind]

/-- the shape of `count_common(other, true)` when the scaled values differ: the finer sketch `second`
is downsampled to `d` (never refused), then `first.count_common(d, false)` -/
theorem countCommon_ds_shape (k : Kind) (a b : Sk) (hs : a.scaled ≠ b.scaled) :
    ∃ first second d, ((first = a ∧ second = b) ∨ (first = b ∧ second = a)) ∧ second.scaled < first.scaled
      ∧ downsampleScaled k second first.scaled = .ok d ∧ countCommon k a b true = countCommonPlain first d := by
  by_cases hgt : a.scaled > b.scaled
  · obtain ⟨d, hd⟩ := downsampleScaled_ok k b a.scaled hgt
    refine ⟨a, b, d, Or.inl ⟨rfl, rfl⟩, hgt, hd, ?_⟩
    simp [countCommon, hs, hgt, hd, bind, Except.bind]
  · have hlt : a.scaled < b.scaled := by omega
    obtain ⟨d, hd⟩ := downsampleScaled_ok k a b.scaled hlt
    refine ⟨b, a, d, Or.inr ⟨rfl, rfl⟩, hlt, hd, ?_⟩
    simp [countCommon, hs, hgt, hd, bind, Except.bind]

end SetOps
