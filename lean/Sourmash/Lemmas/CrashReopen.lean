import Sourmash.Lemmas.CrashLin
/-! Extension of a completed index (`open` + `update`, or `create` on the same directory), and
flush / close / open / internalize / move sequences on a completed index. -/
namespace Crash

/-! #### extension: the completed index of a prefix of the collection -/

theorem hashesOf_append_left (c1 ext : Coll) (d : Nat) (h : d < c1.length) :
    (c1 ++ ext).hashesOf d = c1.hashesOf d := by
  simp [Coll.hashesOf, List.getElem?_append_left h]

theorem lt_of_mem_hashesOf {c : Coll} {d h : Nat} (hx : h ∈ c.hashesOf d) : d < c.length := by
  by_cases hd : d < c.length
  · exact hd
  · rw [hashesOf_of_ge c d (by omega)] at hx; cases hx

theorem procNE_cleanState (c : Coll) (sp : Spec) (st : Store) : (cleanState c sp st).processed ≠ some [] := by
  unfold cleanState
  by_cases h : c.length = 0
  · simp [h]
  · simp only [h, if_false, ne_eq, Option.some.injEq]
    intro e
    have h0 : (List.range c.length).length = 0 := by rw [e]; rfl
    rw [List.length_range] at h0
    exact h h0

/-- the completed index of `c1` is a legitimate starting point for builds of `c1 ++ ext` -/
theorem inv_clean_prefix (c1 ext : Coll) (sp : Spec) (st : Store) : Inv (c1 ++ ext) (cleanState c1 sp st) where
  sortedH := sorted_graph c1
  sortedP := by rw [procSet_cleanState]; exact sorted_range _
  procNE := procNE_cleanState c1 sp st
  marker := by
    intro d hd
    rw [procSet_cleanState, List.mem_range] at hd
    refine ⟨by rw [List.length_append]; omega, fun h hh => ?_⟩
    rw [hashesOf_append_left c1 ext d hd] at hh
    exact (mem_graph c1 h d).mpr hh
  sound := by
    intro h d hm
    have hx : h ∈ c1.hashesOf d := (mem_graph c1 h d).mp hm
    rw [hashesOf_append_left c1 ext d (lt_of_mem_hashesOf hx)]
    exact hx
  manifestOK := by
    intro m hm
    have : m = c1.manifest := by
      simp only [cleanState, Option.some.injEq] at hm
      exact hm.symm
    subst this
    refine ⟨by simp [Coll.manifest], fun d hd => ?_⟩
    rw [procSet_cleanState, List.mem_range]
    simpa [Coll.manifest] using hd

theorem version_run (s : Disk) (ws : List Write) (h : s.version = some DB_VERSION) :
    (run s ws).version = some DB_VERSION := by
  induction ws generalizing s with
  | nil => exact h
  | cons w ws ih =>
    rw [run_cons]
    apply ih
    cases w <;> simp [apply, h]

theorem spec_run (s : Disk) (ws : List Write) (sp : Spec) (h : s.spec = some sp)
    (hw : ∀ x, Write.putSpec x ∈ ws → x = sp) : (run s ws).spec = some sp := by
  induction ws generalizing s with
  | nil => exact h
  | cons w ws ih =>
    rw [run_cons]
    apply ih _ _ (fun x hx => hw x (List.mem_cons_of_mem _ hx))
    cases w with
    | putSpec x => simp [apply, hw x (List.mem_cons_self ..)]
    | _ => simp [apply, h]

theorem manifest_run_two (s : Disk) (ws : List Write) (m0 mc : Manifest)
    (h : s.manifest = some m0 ∨ s.manifest = some mc)
    (hw : ∀ x, Write.putManifest x ∈ ws → x = mc) :
    (run s ws).manifest = some m0 ∨ (run s ws).manifest = some mc := by
  induction ws generalizing s with
  | nil => exact h
  | cons w ws ih =>
    rw [run_cons]
    apply ih _ _ (fun x hx => hw x (List.mem_cons_of_mem _ hx))
    cases w with
    | putManifest x => right; simp [apply, hw x (List.mem_cons_self ..)]
    | _ => simpa [apply] using h

theorem mem_build_prefix {c : Coll} {P : List Nat} {L : List Write} (sp : Spec) (hL : IsLin c P L) (k : Nat)
    (w : Write) (hw : w ∈ (L ++ metaLog c sp).take k) : w.owner ≠ none ∨ w ∈ metaLog c sp := by
  rcases List.mem_append.mp (List.mem_of_mem_take hw) with h | h
  · exact Or.inl (hL.1 w h)
  · exact Or.inr h

/-- metadata written by a completed build stays readable through every later interrupted build of
the (extended) collection: the version, a manifest (the old one or the new one) and the spec -/
theorem reach_meta {c : Coll} {sp : Spec} {s0 s : Disk} (hr : Reach c sp s0 s) (m0 : Manifest)
    (hv : s0.version = some DB_VERSION) (hm : s0.manifest = some m0) (hs : s0.spec = some sp) :
    s.version = some DB_VERSION ∧ (s.manifest = some m0 ∨ s.manifest = some c.manifest) ∧ s.spec = some sp := by
  induction hr with
  | start => exact ⟨hv, Or.inl hm, hs⟩
  | round k _ _ hL ih =>
    obtain ⟨i1, i2, i3⟩ := ih
    refine ⟨version_run _ _ i1, manifest_run_two _ _ _ _ i2 ?_, spec_run _ _ _ i3 ?_⟩
    · intro x hx
      rcases mem_build_prefix sp hL k _ hx with h | h
      · exact absurd rfl h
      · simpa [metaLog] using h
    · intro x hx
      rcases mem_build_prefix sp hL k _ hx with h | h
      · exact absurd rfl h
      · simpa [metaLog] using h

theorem zip_prefix_all (l r : List Nat) : ((l.zip (l ++ r)).all (fun p => p.1 == p.2)) = true := by
  induction l with
  | nil => simp
  | cons a as ih => simpa using ih

theorem checkSuperset_prefix (c1 ext : Coll) : checkSuperset c1.manifest (c1 ++ ext) = true := by
  unfold checkSuperset Coll.manifest
  rw [List.map_append]
  exact zip_prefix_all _ _

theorem checkSuperset_self (c : Coll) : checkSuperset c.manifest c = true := by
  have := checkSuperset_prefix c []
  simpa using this

theorem openIdx_eq (rt : Manifest → Option Manifest) (hrt : ∀ m, rt m = some m) (s : Disk) (ro : Bool)
    (m : Manifest) (sp : Spec) (hv : s.version = some DB_VERSION) (hm : s.manifest = some m)
    (hs : s.spec = some sp) :
    openIdx rt s ro = some { manifest := m, storage := sp, readOnly := ro,
                             processed := loadProcessed s false m.length } := by
  simp [openIdx, hv, hm, hs, hrt]

/-! #### reopen sequences -/

theorem load_put (s : Store) (k : Nat) (v : Sketch) (k' : Nat) :
    (s.put k v).load k' = if k = k' then some v else s.load k' := by
  unfold Store.put Store.load
  by_cases h : k = k'
  · subst h; simp
  · simp [h]

/-- STORAGE holds the signature of every record of the manifest, as the outside world has it -/
def Holds (w : World) (m : Manifest) (st : Store) : Prop :=
  ∀ loc, loc ∈ m → st.load loc = w.load loc

/-- the outside world has a signature for every record -/
def Present (w : World) (m : Manifest) : Prop := ∀ loc, loc ∈ m → (w.load loc).isSome

/-- the copying loop of `internalize_storage`, from a source that agrees with the world on the
manifest's locations: succeeds, and afterwards STORAGE holds every copied location -/
theorem internalize_fold (w : World) (src : Nat → Option Sketch) (m : Manifest)
    (hsrc : ∀ loc, loc ∈ m → src loc = w.load loc) (hp : Present w m) (st0 : Store) (done : List Nat)
    (hdone : ∀ loc, loc ∈ done → st0.load loc = w.load loc) :
    ∃ st, m.foldl (copyStep src) (some st0) = some st ∧
      ∀ loc, loc ∈ done ∨ loc ∈ m → st.load loc = w.load loc := by
  induction m generalizing st0 done with
  | nil => exact ⟨st0, rfl, fun loc h => by rcases h with h | h; exact hdone loc h; cases h⟩
  | cons a as ih =>
    have ha : src a = w.load a := hsrc a (List.mem_cons_self ..)
    obtain ⟨v, hv⟩ := Option.isSome_iff_exists.mp (hp a (List.mem_cons_self ..))
    rw [List.foldl_cons]
    have hstep : copyStep src (some st0) a = some (st0.put a v) := by simp [copyStep, ha, hv]
    rw [hstep]
    have := ih (fun loc h => hsrc loc (List.mem_cons_of_mem _ h)) (fun loc h => hp loc (List.mem_cons_of_mem _ h))
      (st0.put a v) (a :: done) (by
        intro loc hl
        rw [load_put]
        by_cases e : a = loc
        · subst e; simp [hv]
        · simp only [e, if_false]
          rcases List.mem_cons.mp hl with h | h
          · exact absurd h.symm e
          · exact hdone loc h)
    obtain ⟨st, h1, h2⟩ := this
    refine ⟨st, h1, fun loc h => h2 loc ?_⟩
    rcases h with h | h
    · exact Or.inl (List.mem_cons_of_mem _ h)
    · rcases List.mem_cons.mp h with e | h
      · exact Or.inl (by rw [e]; exact List.mem_cons_self ..)
      · exact Or.inr h

/-- invariant of a session on a completed index `d0` whose manifest is `m` -/
structure SInv (w : World) (m : Manifest) (d0 : Disk) (s : Sess) : Prop where
  hashes : s.disk.hashes = d0.hashes
  processed : s.disk.processed = d0.processed
  version : s.disk.version = some DB_VERSION
  manifest : s.disk.manifest = some m
  spec : s.disk.spec = some .fs ∨ (s.disk.spec = some .rocksdb ∧ Holds w m s.disk.storage)
  handle : ∀ h, s.handle = some h →
    h.manifest = m ∧ h.processed = loadProcessed d0 false m.length ∧
      (h.storage = .rocksdb → Holds w m s.disk.storage)

/-- a completed index: metadata saved, and if it is internal, STORAGE holds the signatures -/
structure Completed (w : World) (m : Manifest) (d0 : Disk) : Prop where
  version : d0.version = some DB_VERSION
  manifest : d0.manifest = some m
  spec : d0.spec = some .fs ∨ (d0.spec = some .rocksdb ∧ Holds w m d0.storage)

theorem SInv.init {w : World} {m : Manifest} {d0 : Disk} (hc : Completed w m d0) (p : Nat) :
    SInv w m d0 { disk := d0, handle := none, path := p } where
  hashes := rfl
  processed := rfl
  version := hc.version
  manifest := hc.manifest
  spec := hc.spec
  handle := by intro h e; cases e

theorem loadProcessed_congr (a b : Disk) (h : a.processed = b.processed) (e : Bool) (n : Nat) :
    loadProcessed a e n = loadProcessed b e n := by
  unfold loadProcessed; rw [h]

theorem SInv.open_ {w : World} {m : Manifest} {d0 : Disk} {s : Sess} (rt : Manifest → Option Manifest)
    (hrt : ∀ m, rt m = some m) (hi : SInv w m d0 s) (ro : Bool) :
    ∃ h, openIdx rt s.disk ro = some h ∧ h.manifest = m ∧
      h.processed = loadProcessed d0 false m.length ∧ h.readOnly = ro ∧
      (h.storage = .rocksdb → Holds w m s.disk.storage) := by
  rcases hi.spec with hs | ⟨hs, hh⟩
  · refine ⟨_, openIdx_eq rt hrt s.disk ro m .fs hi.version hi.manifest hs, rfl, ?_, rfl, ?_⟩
    · exact loadProcessed_congr _ _ hi.processed _ _
    · intro e; cases e
  · refine ⟨_, openIdx_eq rt hrt s.disk ro m .rocksdb hi.version hi.manifest hs, rfl, ?_, rfl, ?_⟩
    · exact loadProcessed_congr _ _ hi.processed _ _
    · intro _; exact hh

/-- every step of a reopen sequence keeps the session invariant -/
theorem SInv.step {w : World} {m : Manifest} {d0 : Disk} {s : Sess} (rt : Manifest → Option Manifest)
    (hrt : ∀ m, rt m = some m) (hp : Present w m) (hi : SInv w m d0 s) (op : ROp) :
    SInv w m d0 (reopenStep rt w s op).1 := by
  cases op with
  | flush =>
    unfold reopenStep
    cases hh : s.handle with
    | none => simpa using hi
    | some h => by_cases hr : h.readOnly <;> simpa [hr] using hi
  | close =>
    unfold reopenStep
    cases hh : s.handle with
    | none => simpa using hi
    | some h =>
      exact { hashes := hi.hashes, processed := hi.processed, version := hi.version,
              manifest := hi.manifest, spec := hi.spec, handle := by intro h e; cases e }
  | openRo =>
    unfold reopenStep
    cases hh : s.handle with
    | some h => simpa using hi
    | none =>
      obtain ⟨h, ho, h1, h2, _, h4⟩ := hi.open_ rt hrt true
      simp only [ho]
      exact { hashes := hi.hashes, processed := hi.processed, version := hi.version,
              manifest := hi.manifest, spec := hi.spec,
              handle := by intro h' e; cases e; exact ⟨h1, h2, h4⟩ }
  | openRw =>
    unfold reopenStep
    cases hh : s.handle with
    | some h => simpa using hi
    | none =>
      obtain ⟨h, ho, h1, h2, _, h4⟩ := hi.open_ rt hrt false
      simp only [ho]
      exact { hashes := hi.hashes, processed := hi.processed, version := hi.version,
              manifest := hi.manifest, spec := hi.spec,
              handle := by intro h' e; cases e; exact ⟨h1, h2, h4⟩ }
  | move =>
    unfold reopenStep
    cases hh : s.handle with
    | some h => simpa using hi
    | none =>
      exact { hashes := hi.hashes, processed := hi.processed, version := hi.version,
              manifest := hi.manifest, spec := hi.spec, handle := by intro h e; simp at e }
  | intern =>
    unfold reopenStep
    cases hh : s.handle with
    | none => simpa using hi
    | some h =>
      by_cases hr : h.readOnly
      · simpa [hr] using hi
      · obtain ⟨hm, hpz, hst⟩ := hi.handle h hh
        -- the source the handle reads from agrees with the world on the manifest's locations
        have hsrc : ∀ loc, loc ∈ h.manifest → h.src w s.disk loc = w.load loc := by
          intro loc hl
          unfold Handle.src
          cases hs : h.storage with
          | fs => rfl
          | rocksdb => exact hst hs loc (hm ▸ hl)
        obtain ⟨st, hfold, hall⟩ := internalize_fold w (h.src w s.disk)
          h.manifest hsrc (hm ▸ hp) s.disk.storage [] (by intro loc hl; cases hl)
        have hint : internalize w s.disk h =
            some ({ s.disk with storage := st, spec := some .rocksdb }, { h with storage := .rocksdb }) := by
          unfold internalize
          rw [hfold]
        simp only [hr, hint]
        have hholds : Holds w m st := fun loc hl => hall loc (Or.inr (hm ▸ hl))
        exact { hashes := hi.hashes, processed := hi.processed, version := hi.version,
                manifest := hi.manifest, spec := Or.inr ⟨rfl, hholds⟩,
                handle := by intro h' e; cases e; exact ⟨hm, hpz, fun _ => hholds⟩ }

theorem SInv.seq {w : World} {m : Manifest} {d0 : Disk} {s : Sess} (rt : Manifest → Option Manifest)
    (hrt : ∀ m, rt m = some m) (hp : Present w m) (hi : SInv w m d0 s) (ops : List ROp) :
    SInv w m d0 (reopenSeq rt w s ops).1 := by
  unfold reopenSeq
  suffices h : ∀ (acc : Sess × List RRes), SInv w m d0 acc.1 →
      SInv w m d0 (ops.foldl (fun (acc : Sess × List RRes) op =>
        let (s', r) := reopenStep rt w acc.1 op
        (s', acc.2 ++ [r])) acc).1 from h (s, []) hi
  induction ops with
  | nil => intro acc h; exact h
  | cons op ops ih =>
    intro acc h
    rw [List.foldl_cons]
    exact ih _ (h.step rt hrt hp op)

/-- `sig_for_dataset` through any handle that satisfies the invariant reads what the world holds -/
theorem sigFor_eq {w : World} {m : Manifest} {s : Sess} (h : Handle)
    (hm : h.manifest = m) (hst : h.storage = .rocksdb → Holds w m s.disk.storage) (i : Nat) :
    sigFor w s.disk h i = (m[i]?).bind (fun loc => w.load loc) := by
  unfold sigFor
  rw [hm]
  cases hl : m[i]? with
  | none => rfl
  | some loc =>
    have hmem : loc ∈ m := List.mem_of_getElem? hl
    simp only [Option.bind_some]
    unfold Handle.src
    cases hs : h.storage with
    | fs => rfl
    | rocksdb => exact hst hs loc hmem

end Crash
