import Sourmash.Lemmas.Gather
/-! The loop invariant of `Gather.step` and its lifting over `run` / `final` (core Lean only). -/
namespace Gather

/-- hashes of a `(hash, abundance)` list -/
def keys (l : List (Nat × Nat)) : List Nat := l.map (·.1)

/-- `|D_d ∩ remaining|`, computed from scratch -/
def ov (c : Cfg) (d : Nat) (rem : List (Nat × Nat)) : Nat := (isectL (dsOf c.dsets d) (keys rem)).length

/-- same-scaled sketches: every dataset and the query are duplicate-free hash lists -/
structure WF (c : Cfg) : Prop where
  ds : ∀ D ∈ c.dsets, D.Nodup
  q : (keys c.orig).Nodup

/-- strictly increasing lists (what a scaled sketch is) are duplicate-free -/
theorem WF.of_sorted {c : Cfg} (hd : ∀ D ∈ c.dsets, D.Pairwise (· < ·))
    (hq : (c.orig.map (·.1)).Pairwise (· < ·)) : WF c :=
  ⟨fun D h => (hd D h).imp (fun h => Nat.ne_of_lt h), hq.imp (fun h => Nat.ne_of_lt h)⟩

theorem dsOf_nodup {c : Cfg} (w : WF c) (d : Nat) : (dsOf c.dsets d).Nodup := by
  unfold dsOf List.getD
  cases h : c.dsets[d]? with
  | none => simp
  | some D => exact w.ds D (List.mem_of_getElem? h)

theorem dsOf_of_ge {dsets : List (List Nat)} {d : Nat} (h : dsets.length ≤ d) : dsOf dsets d = [] := by
  simp [dsOf, List.getD, List.getElem?_eq_none h]

/-- the query minus the hashes of the datasets in `rep` -/
def minus (c : Cfg) (rep : List Nat) : List (Nat × Nat) :=
  c.orig.filter (fun p => rep.all (fun d => !(dsOf c.dsets d).contains p.1))

theorem keys_filter (l : List (Nat × Nat)) (p : Nat → Bool) :
    keys (l.filter (fun e => p e.1)) = (keys l).filter p := by
  simp [keys, List.filter_map, Function.comp_def]

theorem keys_minus_nodup {c : Cfg} (w : WF c) (rep : List Nat) : (keys (minus c rep)).Nodup := by
  have : (keys (minus c rep)).Sublist (keys c.orig) := List.Sublist.map _ List.filter_sublist
  exact List.Nodup.sublist this w.q

theorem minus_snoc (c : Cfg) (rep : List Nat) (d : Nat) :
    minus c (rep ++ [d]) = (minus c rep).filter (fun p => !(dsOf c.dsets d).contains p.1) := by
  unfold minus
  rw [List.filter_filter]
  apply List.filter_congr
  intro p _
  simp [List.all_append, Bool.and_comm]

/-- the loop invariant -/
structure Inv (c : Cfg) (s : St) : Prop where
  /-- T-inv: every counter entry is the overlap with the remaining query -/
  cnt : ∀ e ∈ s.counter, e.2 = ov c e.1 s.remaining
  /-- the remaining query is the original one minus the reported datasets -/
  rem : s.remaining = minus c s.reported
  /-- a dataset without a counter entry was reported or shares nothing with the remaining query -/
  absent : ∀ d, d ∉ keys s.counter → d ∈ s.reported ∨ ov c d s.remaining = 0
  /-- reported datasets have left the counter -/
  fresh : ∀ d ∈ s.reported, d ∉ keys s.counter
  /-- after the first round no counter exceeds the last match size -/
  bound : s.reported ≠ [] → ∀ e ∈ s.counter, e.2 ≤ s.matchSize
  /-- counter keys are dataset ids of the collection -/
  inRange : ∀ e ∈ s.counter, e.1 < c.dsets.length

theorem mem_prepareCounter {dsets : List (List Nat)} {qk : List Nat} {e : Nat × Nat} :
    e ∈ prepareCounter dsets qk ↔
      e.1 < dsets.length ∧ e.2 = (qk.filter (fun h => (dsOf dsets e.1).contains h)).length ∧ e.2 ≠ 0 := by
  simp only [prepareCounter, List.mem_filterMap, List.mem_range]
  constructor
  · rintro ⟨d, hd, h⟩
    split at h
    · simp at h
    · rename_i hn
      simp only [Option.some.injEq] at h
      subst h
      exact ⟨hd, rfl, hn⟩
  · rintro ⟨h1, h2, h3⟩
    refine ⟨e.1, h1, ?_⟩
    rw [← h2]
    simp [h3]

theorem inv_init {c : Cfg} (w : WF c) : Inv c (init c) := by
  have hcomm : ∀ d, (List.filter (fun h => (dsOf c.dsets d).contains h) (keys c.orig)).length = ov c d c.orig := by
    intro d
    have := isectL_length_comm (a := keys c.orig) (b := dsOf c.dsets d) w.q (dsOf_nodup w d)
    simpa [isectL, ov] using this
  refine ⟨?_, ?_, ?_, ?_, ?_, ?_⟩
  · intro e he
    have := (mem_prepareCounter.mp he).2.1
    rw [this]; exact hcomm e.1
  · show c.orig = minus c []
    unfold minus
    exact (List.filter_eq_self.mpr (fun _ _ => by simp)).symm
  · intro d hd
    right
    by_cases hlt : d < c.dsets.length
    · show ov c d c.orig = 0
      rw [← hcomm d]
      apply Classical.byContradiction
      intro hne
      apply hd
      simp only [keys, init, List.mem_map]
      exact ⟨(d, _), mem_prepareCounter.mpr ⟨hlt, rfl, hne⟩, rfl⟩
    · simp [ov, dsOf_of_ge (Nat.le_of_not_lt hlt), isectL]
  · intro d hd; simp [init] at hd
  · intro h; simp [init] at h
  · intro e he; exact (mem_prepareCounter.mp he).1

/-- the hashes of the remaining query after a round -/
theorem keys_after (rem : List (Nat × Nat)) (m : List Nat) :
    keys (rem.filter (fun p => !m.contains p.1)) = (keys rem).filter (fun h => !m.contains h) :=
  keys_filter rem (fun h => !m.contains h)

theorem ov_after {c : Cfg} (w : WF c) (d' d : Nat) (rem : List (Nat × Nat)) :
    ov c d' rem
      = ov c d' (rem.filter (fun p => !(dsOf c.dsets d).contains p.1))
        + ((isectL (dsOf c.dsets d) (keys rem)).filter (fun h => (dsOf c.dsets d').contains h)).length := by
  unfold ov
  rw [keys_after]
  exact overlap_split (dsOf_nodup w d') (dsOf_nodup w d)

theorem stats_isect (c : Cfg) (rem : List (Nat × Nat)) (d size rank sumW : Nat) :
    (stats c rem d size rank sumW).isect = isectL (dsOf c.dsets d) (keys rem) := rfl

theorem stats_size (c : Cfg) (rem : List (Nat × Nat)) (d size rank sumW : Nat) :
    (stats c rem d size rank sumW).size = size := rfl

theorem stats_d (c : Cfg) (rem : List (Nat × Nat)) (d size rank sumW : Nat) :
    (stats c rem d size rank sumW).d = d := rfl

/-- membership in the counter after a round -/
theorem mem_counter_after {c : Cfg} {s s' : St} {row : Row} {d size : Nat}
    (hrow : row = stats c s.remaining d size s.reported.length s.sumW)
    (hs' : s'.counter = (decrement c.dsets row.isect s.counter).filter (fun e => e.1 != d))
    {e' : Nat × Nat} :
    e' ∈ s'.counter ↔ ∃ e ∈ s.counter, e.1 ≠ d ∧
      e' = (e.1, e.2 - ((isectL (dsOf c.dsets d) (keys s.remaining)).filter
              (fun h => (dsOf c.dsets e.1).contains h)).length) := by
  rw [hs', decrement_eq, hrow, stats_isect, List.mem_filter, List.mem_map]
  constructor
  · rintro ⟨⟨e, he, rfl⟩, hne⟩
    exact ⟨e, he, by simpa using hne, rfl⟩
  · rintro ⟨e, he, hne, rfl⟩
    exact ⟨⟨e, he, rfl⟩, by simpa using hne⟩

theorem inv_step {c : Cfg} (w : WF c) {s s' : St} {row : Row} (hi : Inv c s)
    (h : step c s = some (row, s')) : Inv c s' := by
  obtain ⟨d, size, _, _, ha, _, _, hrow, hs'⟩ := step_some h
  have hbest := argmax_isBest ha
  have hcounter : s'.counter = (decrement c.dsets row.isect s.counter).filter (fun e => e.1 != d) := by
    rw [hs']
  have hrem : s'.remaining = s.remaining.filter (fun p => !(dsOf c.dsets d).contains p.1) := by rw [hs']
  have hrep : s'.reported = s.reported ++ [d] := by rw [hs']
  have hms : s'.matchSize = size := by rw [hs']
  have hmem := @mem_counter_after c s s' row d size hrow hcounter
  have hkeys : ∀ d', d' ∈ keys s'.counter → d' ∈ keys s.counter ∧ d' ≠ d := by
    intro d' hd'
    simp only [keys, List.mem_map] at hd'
    obtain ⟨e', he', rfl⟩ := hd'
    obtain ⟨e, he, hne, rfl⟩ := hmem.mp he'
    exact ⟨List.mem_map.mpr ⟨e, he, rfl⟩, hne⟩
  refine ⟨?_, ?_, ?_, ?_, ?_, ?_⟩
  · intro e' he'
    obtain ⟨e, he, _, rfl⟩ := hmem.mp he'
    have h1 := hi.cnt e he
    have h2 := ov_after w e.1 d s.remaining
    rw [hrem]
    dsimp only
    omega
  · rw [hrem, hrep, minus_snoc, hi.rem]
  · intro d' hd'
    rw [hrep, hrem]
    by_cases hdd : d' = d
    · left; simp [hdd]
    · by_cases hk : d' ∈ keys s.counter
      · exfalso
        apply hd'
        simp only [keys, List.mem_map] at hk ⊢
        obtain ⟨e, he, rfl⟩ := hk
        exact ⟨_, hmem.mpr ⟨e, he, hdd, rfl⟩, rfl⟩
      · rcases hi.absent d' hk with h1 | h1
        · left; simp [h1]
        · right
          have := ov_after w d' d s.remaining
          omega
  · intro d' hd' hk
    rw [hrep, List.mem_append, List.mem_singleton] at hd'
    have := hkeys d' hk
    rcases hd' with h1 | h1
    · exact hi.fresh d' h1 this.1
    · exact this.2 h1
  · intro _ e' he'
    obtain ⟨e, he, _, rfl⟩ := hmem.mp he'
    rw [hms]
    have := hbest.2 e he
    show e.2 - _ ≤ size
    have h3 : (d, size).2 = size := rfl
    omega
  · intro e' he'
    obtain ⟨e, he, _, rfl⟩ := hmem.mp he'
    exact hi.inRange e he

/-! ### lifting over the loop -/

/-- every recorded round starts in a state satisfying the invariant and is a `step` -/
theorem run_inv {c : Cfg} (w : WF c) (f : Nat) {s : St} (hi : Inv c s) :
    ∀ p ∈ run c f s, Inv c p.1 ∧ ∃ s', step c p.1 = some (p.2, s') := by
  induction f generalizing s with
  | zero => intro p hp; simp [run] at hp
  | succ f ih =>
    intro p hp
    unfold run at hp
    split at hp
    · simp at hp
    · rename_i row s' hstep
      rw [List.mem_cons] at hp
      rcases hp with rfl | hp
      · exact ⟨hi, s', hstep⟩
      · exact ih (inv_step w hi hstep) p hp

theorem final_inv {c : Cfg} (w : WF c) (f : Nat) {s : St} (hi : Inv c s) : Inv c (final c f s) := by
  induction f generalizing s with
  | zero => exact hi
  | succ f ih =>
    unfold final
    split
    · exact hi
    · rename_i row s' hstep
      exact ih (inv_step w hi hstep)

theorem length_filter_map_lt (d : Nat) (g : Nat × Nat → Nat × Nat) (hg : ∀ e, (g e).1 = e.1) :
    ∀ (l : List (Nat × Nat)), d ∈ keys l → ((l.map g).filter (fun e => e.1 != d)).length < l.length := by
  intro l
  induction l with
  | nil => intro h; simp [keys] at h
  | cons x t ih =>
    intro hx
    simp only [keys, List.map_cons, List.mem_cons] at hx
    simp only [List.map_cons, List.filter_cons, List.length_cons]
    rcases hx with hx | hx
    · have : ((g x).1 != d) = false := by simp [hg, hx]
      simp only [this]
      have := List.length_filter_le (fun e => e.1 != d) (t.map g)
      simp only [List.length_map] at this
      simp only [Bool.false_eq_true, if_false]
      omega
    · have := ih hx
      split
      · simp only [List.length_cons]; omega
      · omega

/-- a round removes the chosen dataset from the counter -/
theorem step_counter_lt {c : Cfg} {s s' : St} {row : Row} (h : step c s = some (row, s')) :
    s'.counter.length < s.counter.length := by
  obtain ⟨d, size, _, _, ha, _, _, _, hs'⟩ := step_some h
  have hmem := (argmax_isBest ha).1
  have hc : s'.counter = (decrement c.dsets row.isect s.counter).filter (fun e => e.1 != d) := by rw [hs']
  rw [hc, decrement_eq]
  exact length_filter_map_lt d
    (fun e : Nat × Nat => (e.1, e.2 - (List.filter (fun h => (dsOf c.dsets e.1).contains h) row.isect).length))
    (fun _ => rfl) s.counter (List.mem_map.mpr ⟨(d, size), hmem, rfl⟩)

/-- fuel: once the fuel is at least the number of counter entries, more fuel changes nothing -/
theorem run_fuel {c : Cfg} (f : Nat) : ∀ {s : St}, s.counter.length ≤ f → run c (f + 1) s = run c f s := by
  induction f with
  | zero =>
    intro s hs
    have hnil : s.counter = [] := List.eq_nil_of_length_eq_zero (Nat.le_zero.mp hs)
    have : step c s = none := by
      unfold step
      simp [hnil]
    simp [run, this]
  | succ f ih =>
    intro s hs
    show (match step c s with | none => [] | some (row, s') => (s, row) :: run c (f + 1) s') = run c (f + 1) s
    conv => rhs; unfold run
    cases hstep : step c s with
    | none => rfl
    | some p =>
      obtain ⟨row, s'⟩ := p
      have := step_counter_lt hstep
      simp only
      rw [ih (by omega)]

theorem final_fuel {c : Cfg} (f : Nat) : ∀ {s : St}, s.counter.length ≤ f → step c (final c f s) = none := by
  induction f with
  | zero =>
    intro s hs
    have hnil : s.counter = [] := List.eq_nil_of_length_eq_zero (Nat.le_zero.mp hs)
    unfold final step
    simp [hnil]
  | succ f ih =>
    intro s hs
    unfold final
    cases hstep : step c s with
    | none => simpa using hstep
    | some p =>
      obtain ⟨row, s'⟩ := p
      have := step_counter_lt hstep
      simp only
      exact ih (by omega)

theorem prepareCounter_length (dsets : List (List Nat)) (qk : List Nat) :
    (prepareCounter dsets qk).length ≤ dsets.length := by
  have := List.length_filterMap_le (fun d =>
    let n := (qk.filter (fun h => (dsOf dsets d).contains h)).length
    if n = 0 then none else some (d, n)) (List.range dsets.length)
  simpa [prepareCounter] using this

end Gather
