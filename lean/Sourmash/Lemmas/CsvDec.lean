import Sourmash.Model.Manifest
/-! Decimal integers: `str::parse` reads back what `itoa` / `format!("{}")` wrote. -/
namespace Manifest
open Select

/-- the accumulator after reading the digits of `n` starting from `a` -/
def accDigits (a n : Nat) : Nat :=
  if n < 10 then a * 10 + n else accDigits a (n / 10) * 10 + n % 10
termination_by n
decreasing_by omega

theorem digit_ok : ∀ n, n < 10 → digitVal? (UInt8.ofNat (48 + n)) = some n := by decide

theorem digit_not_plus : ∀ n, n < 10 → (UInt8.ofNat (48 + n) == 43) = false := by decide

theorem parseDigits_decAux (n : Nat) : ∀ (t : Bytes) (a : Nat),
    parseDigits a (decAux n t) = parseDigits (accDigits a n) t := by
  induction n using Nat.strongRecOn with
  | _ n ih =>
    intro t a
    unfold decAux accDigits
    by_cases h : n < 10
    · simp only [h, dite_true, if_true, parseDigits, digit_ok n h]
    · simp only [h, dite_false, if_false]
      rw [ih (n / 10) (by omega)]
      simp only [parseDigits, digit_ok (n % 10) (by omega)]

theorem accDigits_zero (n : Nat) : accDigits 0 n = n := by
  induction n using Nat.strongRecOn with
  | _ n ih =>
    unfold accDigits
    by_cases h : n < 10
    · simp [h]
    · simp only [h, if_false]
      rw [ih (n / 10) (by omega)]
      omega

theorem decAux_head (n : Nat) : ∀ t : Bytes, ∃ k, k < 10 ∧ ∃ t', decAux n t = UInt8.ofNat (48 + k) :: t' := by
  induction n using Nat.strongRecOn with
  | _ n ih =>
    intro t
    unfold decAux
    by_cases h : n < 10
    · exact ⟨n, h, t, by simp [h]⟩
    · simp only [h, dite_false]
      exact ih (n / 10) (by omega) _

theorem decFuel_eq (f : Nat) : ∀ (n : Nat) (acc : Bytes), n ≤ f → decFuel f n acc = decAux n acc := by
  induction f with
  | zero =>
    intro n acc h
    have : n = 0 := by omega
    subst this
    unfold decAux
    simp [decFuel]
  | succ f ih =>
    intro n acc h
    unfold decAux
    by_cases h10 : n < 10
    · simp [decFuel, h10]
    · simp only [decFuel, h10, if_false, dite_false]
      exact ih _ _ (by omega)

theorem natBytes_eq (n : Nat) : natBytes n = decAux n [] := decFuel_eq n n [] (Nat.le_refl n)

theorem parseNat_natBytes (bound n : Nat) (h : n < bound) : parseNat? bound (natBytes n) = some n := by
  obtain ⟨k, hk, t', ht⟩ := decAux_head n []
  have hp : parseDigits 0 (natBytes n) = some n := by
    rw [natBytes_eq, parseDigits_decAux, accDigits_zero]
    rfl
  unfold parseNat?
  rw [natBytes_eq] at hp ⊢
  rw [ht] at hp ⊢
  simp only [stripPlus, digit_not_plus k hk, Bool.false_eq_true, if_false, hp, h, if_true]

/-- paths of `Collection::from_sigs` are distinct for distinct positions -/
theorem natBytes_injective (a b : Nat) (h : natBytes a = natBytes b) : a = b := by
  have ha := parseNat_natBytes (a + b + 1) a (by omega)
  have hb := parseNat_natBytes (a + b + 1) b (by omega)
  rw [h, hb] at ha
  cases ha; rfl

end Manifest
