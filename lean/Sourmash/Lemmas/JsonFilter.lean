import Sourmash.Lemmas.Json
/-! Lemmas/JsonFilter.lean — `load_signatures`: flatten-then-filter (the code) is filter-then-wrap (the spec). -/
namespace SigJson
open SigFormat

def isHll : Sketch → Bool
  | .hll .. => true
  | _ => false

theorem hasHll_eq (sigs : List Signature) : hasHll sigs = sigs.any fun s => s.sketches.any isHll := by
  unfold hasHll
  congr 1

theorem beq_dec {α : Type} [DecidableEq α] (a b : α) : (a == b) = decide (a = b) := by
  by_cases h : a = b <;> simp [h]

theorem sketchMatches_eq (k : Option Nat) (m : Option Mol) :
    ∀ sk : Sketch, isHll sk = false → sketchMatches k m sk = some (sketchOk k m sk)
  | .vec mh, _ => by
    cases k <;> cases m <;> simp [sketchMatches, sketchOk, matchesMH, eq_comm, beq_dec]
  | .tree mh, _ => by
    cases k <;> cases m <;> simp [sketchMatches, sketchOk, matchesMH, eq_comm, beq_dec]
  | .hll .., h => by simp [isHll] at h

theorem filterOne_single (k : Option Nat) (m : Option Mol) (s : Signature) (sk : Sketch) (h : isHll sk = false) :
    filterOne k m { s with sketches := [sk] } =
      .ok (if sketchOk k m sk then some { s with sketches := [sk] } else none) := by
  simp only [filterOne, filterOne.go, sketchMatches_eq k m sk h]
  cases sketchOk k m sk <;> simp

theorem filterAll_append_ok (k : Option Nat) (m : Option Mol) : ∀ (a b ra rb : List Signature),
    filterAll k m a = .ok ra → filterAll k m b = .ok rb → filterAll k m (a ++ b) = .ok (ra ++ rb)
  | [], b, ra, rb, ha, hb => by
    simp only [filterAll, Except.ok.injEq] at ha
    subst ha
    simpa using hb
  | s :: t, b, ra, rb, ha, hb => by
    simp only [List.cons_append, filterAll] at ha ⊢
    cases h1 : filterOne k m s with
    | error e => simp [h1] at ha
    | ok o =>
      cases h2 : filterAll k m t with
      | error e => simp [h1, h2] at ha
      | ok r =>
        simp only [h1, h2, Except.ok.injEq] at ha
        rw [filterAll_append_ok k m t b r rb h2 hb]
        subst ha
        cases o <;> simp

theorem filterAll_wrap (k : Option Nat) (m : Option Mol) (s : Signature) :
    ∀ l : List Sketch, l.any isHll = false →
      filterAll k m (l.map fun sk => { s with sketches := [sk] }) =
        .ok ((l.filter (sketchOk k m)).map fun sk => { s with sketches := [sk] })
  | [], _ => rfl
  | sk :: t, h => by
    simp only [List.any_cons, Bool.or_eq_false_iff] at h
    simp only [List.map_cons, filterAll, filterOne_single k m s sk h.1, filterAll_wrap k m s t h.2, List.filter_cons]
    cases sketchOk k m sk <;> simp

theorem filterAll_flatten (k : Option Nat) (m : Option Mol) :
    ∀ sigs : List Signature, (sigs.any fun s => s.sketches.any isHll) = false →
      filterAll k m (flatten sigs) = .ok (filterSpec k m sigs)
  | [], _ => rfl
  | s :: t, h => by
    simp only [List.any_cons, Bool.or_eq_false_iff] at h
    have h1 := filterAll_wrap k m s s.sketches h.1
    have h2 := filterAll_flatten k m t h.2
    simp only [flatten, filterSpec, List.flatMap_cons] at h2 ⊢
    exact filterAll_append_ok k m _ _ _ _ h1 h2

theorem isHll_normalise (sk : Sketch) : isHll sk.normalise = isHll sk := by cases sk <;> rfl

theorem any_isHll_normalise (sigs : List Signature) :
    ((sigs.map Signature.normalise).any fun s => s.sketches.any isHll) = sigs.any fun s => s.sketches.any isHll := by
  simp only [List.any_map]
  congr 1; funext s
  simp only [Function.comp, Signature.normalise, List.any_map]
  congr 1; funext sk
  exact isHll_normalise sk

end SigJson
