import Sourmash.Lemmas.DatasetsMerge
import Sourmash.Model.Index
/-! Lemmas/IndexBuild.lean (C09) — schedules are permutations of the task programs; what the HASHES and
PROCESSED keys denote after the writes of a build have been merged along any grouping.  Core Lean only. -/
namespace RevIdx

/-! ### interleavings -/

theorem flatten_nil_of_all_nil {α : Type} : ∀ {ps : List (List α)}, (∀ p ∈ ps, p = []) → ps.flatten = []
  | [], _ => rfl
  | p :: ps, h => by
    rw [List.flatten_cons, h p (by simp), flatten_nil_of_all_nil (fun q hq => h q (by simp [hq]))]
    rfl

/-- an interleaving is a permutation of the concatenated programs -/
theorem Interleaving.perm {α : Type} {ps : List (List α)} {l : List α} (h : Interleaving ps l) :
    l.Perm ps.flatten := by
  induction h with
  | done hnil => rw [flatten_nil_of_all_nil hnil]
  | @step pre p post x l _ ih =>
    have e1 : (pre ++ (x :: p) :: post).flatten = pre.flatten ++ x :: (p ++ post.flatten) := by simp
    have e2 : (pre ++ p :: post).flatten = pre.flatten ++ (p ++ post.flatten) := by simp
    rw [e1]
    rw [e2] at ih
    exact (ih.cons x).trans List.perm_middle.symm

theorem Interleaving.cons_nil {α : Type} {ps : List (List α)} {l : List α} (h : Interleaving ps l) :
    Interleaving ([] :: ps) l := by
  induction h with
  | done hnil =>
    exact Interleaving.done (by
      intro p hp
      rcases List.mem_cons.mp hp with rfl | hp
      · rfl
      · exact hnil p hp)
  | @step pre p post x l _ ih =>
    exact Interleaving.step (pre := [] :: pre) ih

theorem Interleaving.cons_prog {α : Type} (q : List α) {ps : List (List α)} {l : List α}
    (h : Interleaving (q :: ps) l) : ∀ p : List α, Interleaving ((p ++ q) :: ps) (p ++ l)
  | [] => h
  | _ :: p => Interleaving.step (pre := []) (Interleaving.cons_prog q h p)

/-- running the tasks one after the other is a schedule -/
theorem Interleaving.sequential {α : Type} : ∀ ps : List (List α), Interleaving ps ps.flatten
  | [] => Interleaving.done (by simp)
  | p :: ps => by
    have := Interleaving.cons_prog [] (Interleaving.sequential ps).cons_nil p
    simpa using this

theorem stepProgram_some {w : Write} : ∀ {ps ps' : List (List Write)} {i : Nat},
    stepProgram ps i = some (w, ps') → ∃ pre p post, ps = pre ++ (w :: p) :: post ∧ ps' = pre ++ p :: post
  | [], _, _, h => by simp [stepProgram] at h
  | [] :: ps, _, 0, h => by simp [stepProgram] at h
  | (_ :: p) :: ps, _, 0, h => by
    simp only [stepProgram, Option.some.injEq, Prod.mk.injEq] at h
    obtain ⟨rfl, rfl⟩ := h
    exact ⟨[], p, ps, rfl, rfl⟩
  | q :: ps, ps', i + 1, h => by
    cases q with
    | nil =>
      simp only [stepProgram, Option.map_eq_some_iff] at h
      obtain ⟨⟨w', ps''⟩, h1, h2⟩ := h
      simp only [Prod.mk.injEq] at h2
      obtain ⟨rfl, rfl⟩ := h2
      obtain ⟨pre, p, post, e1, e2⟩ := stepProgram_some h1
      exact ⟨[] :: pre, p, post, by rw [e1]; rfl, by rw [e2]; rfl⟩
    | cons y q =>
      simp only [stepProgram, Option.map_eq_some_iff] at h
      obtain ⟨⟨w', ps''⟩, h1, h2⟩ := h
      simp only [Prod.mk.injEq] at h2
      obtain ⟨rfl, rfl⟩ := h2
      obtain ⟨pre, p, post, e1, e2⟩ := stepProgram_some h1
      exact ⟨(y :: q) :: pre, p, post, by rw [e1]; rfl, by rw [e2]; rfl⟩

/-- every `runSchedule` is a schedule -/
theorem runSchedule_interleaving : ∀ (choices : List Nat) (ps : List (List Write)),
    Interleaving ps (runSchedule ps choices)
  | [], ps => Interleaving.sequential ps
  | i :: rest, ps => by
    unfold runSchedule
    split
    · rename_i w ps' h
      obtain ⟨pre, p, post, rfl, rfl⟩ := stepProgram_some h
      exact Interleaving.step (runSchedule_interleaving rest _)
    · exact runSchedule_interleaving rest ps

/-! ### what the writes of a build denote -/

theorem den_unique {c : ManyCodec} (hc : c.Lawful) {d : Nat} (hd : d < 2 ^ 32) :
    Good c ((Datasets.unique d).asBytes c) ∧ den c ((Datasets.unique d).asBytes c) = [d] := by
  have hb : (Datasets.unique d).Bounded := by intro x hx; simp [Datasets.ids] at hx; omega
  have hw : (Datasets.unique d).WF := trivial
  refine ⟨⟨_, hw, hb, rfl⟩, ?_⟩
  simp only [den]
  rw [Datasets.fromSlice_asBytes hc hw hb]
  rfl

/-- all dataset ids in a write sequence fit `u32` -/
def WritesBounded (ws : List Write) : Prop :=
  ∀ w ∈ ws, match w with
    | .hash _ d => d < 2 ^ 32
    | .processed d => d < 2 ^ 32

theorem operandsFor_spec {c : ManyCodec} (hc : c.Lawful) (h : Nat) :
    ∀ {ws : List Write}, WritesBounded ws →
      (∀ o ∈ operandsFor c h ws, Good c o) ∧
      ∀ x, (∃ o ∈ operandsFor c h ws, x ∈ den c o) ↔ Write.hash h x ∈ ws
  | [], _ => by simp [operandsFor]
  | w :: ws, hb => by
    have ih := operandsFor_spec hc h (ws := ws) (fun w' hw' => hb w' (by simp [hw']))
    have hw := hb w (by simp)
    cases w with
    | processed d =>
      have e : operandsFor c h (Write.processed d :: ws) = operandsFor c h ws := by
        simp [operandsFor]
      rw [e]
      refine ⟨ih.1, fun x => ?_⟩
      rw [ih.2 x]
      simp
    | hash h' d =>
      by_cases hh : h' = h
      · subst hh
        have e : operandsFor c h' (Write.hash h' d :: ws) = (Datasets.unique d).asBytes c :: operandsFor c h' ws := by
          simp [operandsFor]
        have hu := den_unique hc (d := d) hw
        rw [e]
        constructor
        · intro o ho
          rcases List.mem_cons.mp ho with rfl | ho
          · exact hu.1
          · exact ih.1 o ho
        · intro x
          simp only [List.mem_cons, exists_eq_or_imp, hu.2, ih.2 x, Write.hash.injEq, true_and, List.not_mem_nil,
            or_false]
      · have e : operandsFor c h (Write.hash h' d :: ws) = operandsFor c h ws := by
          simp [operandsFor, hh]
        rw [e]
        refine ⟨ih.1, fun x => ?_⟩
        rw [ih.2 x]
        simp only [List.mem_cons, Write.hash.injEq]
        constructor
        · intro h1; exact Or.inr h1
        · rintro (⟨h1, _⟩ | h1)
          · exact absurd h1.symm hh
          · exact h1

theorem processedOps_spec {c : ManyCodec} (hc : c.Lawful) :
    ∀ {ws : List Write}, WritesBounded ws →
      (∀ o ∈ processedOps c ws, Good c o) ∧
      ∀ x, (∃ o ∈ processedOps c ws, x ∈ den c o) ↔ Write.processed x ∈ ws
  | [], _ => by simp [processedOps]
  | w :: ws, hb => by
    have ih := processedOps_spec hc (ws := ws) (fun w' hw' => hb w' (by simp [hw']))
    have hw := hb w (by simp)
    cases w with
    | hash h' d =>
      have e : processedOps c (Write.hash h' d :: ws) = processedOps c ws := by simp [processedOps]
      rw [e]
      refine ⟨ih.1, fun x => ?_⟩
      rw [ih.2 x]
      simp
    | processed d =>
      have e : processedOps c (Write.processed d :: ws) = (Datasets.unique d).asBytes c :: processedOps c ws := by
        simp [processedOps]
      have hu := den_unique hc (d := d) hw
      rw [e]
      constructor
      · intro o ho
        rcases List.mem_cons.mp ho with rfl | ho
        · exact hu.1
        · exact ih.1 o ho
      · intro x
        simp only [List.mem_cons, exists_eq_or_imp, hu.2, ih.2 x, Write.processed.injEq, List.not_mem_nil, or_false]

theorem mem_programs_hash {C : List (List Nat)} {ds : List Nat} {h x : Nat} :
    Write.hash h x ∈ (programs C ds).flatten ↔ x ∈ ds ∧ h ∈ C.getD x [] := by
  simp only [programs, List.mem_flatten, List.mem_map]
  constructor
  · rintro ⟨p, ⟨d, hd, rfl⟩, hm⟩
    simp only [program, List.mem_append, List.mem_map, Write.hash.injEq, List.mem_singleton, reduceCtorEq, or_false] at hm
    obtain ⟨h', hh, rfl, rfl⟩ := hm
    exact ⟨hd, hh⟩
  · rintro ⟨hd, hh⟩
    exact ⟨_, ⟨x, hd, rfl⟩, by
      simp only [program, List.mem_append, List.mem_map, Write.hash.injEq]
      exact Or.inl ⟨h, hh, rfl, trivial⟩⟩

theorem mem_programs_processed {C : List (List Nat)} {ds : List Nat} {x : Nat} :
    Write.processed x ∈ (programs C ds).flatten ↔ x ∈ ds := by
  simp only [programs, List.mem_flatten, List.mem_map]
  constructor
  · rintro ⟨p, ⟨d, hd, rfl⟩, hm⟩
    simp only [program, List.mem_append, List.mem_map, reduceCtorEq, and_false, exists_false, false_or,
      List.mem_singleton, Write.processed.injEq] at hm
    rw [hm]; exact hd
  · intro hd
    exact ⟨_, ⟨x, hd, rfl⟩, by simp [program]⟩

theorem programs_bounded {C : List (List Nat)} {ds : List Nat} (hds : ∀ d ∈ ds, d < 2 ^ 32) :
    WritesBounded (programs C ds).flatten := by
  intro w hw
  cases w with
  | hash h d => exact hds d (mem_programs_hash.mp hw).1
  | processed d => exact hds d (mem_programs_processed.mp hw)

/-- every stored value is a valid encoding -/
def Db.Good (c : ManyCodec) (db : Db) : Prop :=
  (∀ h e, db.hashes h = some e → RevIdx.Good c e) ∧ (∀ e, db.processed = some e → RevIdx.Good c e)

/-- The state of HASHES and PROCESSED after the tasks for the datasets `ds` have run under any schedule
and RocksDB has merged their writes along any grouping: what was there, plus exactly the new pairs. -/
theorem build_lookup {c : ManyCodec} (hc : c.Lawful) (db : Db) (hdb : db.Good c) (C : List (List Nat))
    (ds : List Nat) (hds : ∀ d ∈ ds, d < 2 ^ 32) (sched : List Write)
    (hs : Interleaving (programs C ds) sched) (g : Grouping) (hg : GroupingOK g) :
    (applyWrites c db sched g).Good c ∧
    (∀ h x, x ∈ lookupIds c ((applyWrites c db sched g).hashes h) ↔
      (x ∈ lookupIds c (db.hashes h) ∨ (x ∈ ds ∧ h ∈ C.getD x []))) ∧
    (∀ x, x ∈ lookupIds c (applyWrites c db sched g).processed ↔
      (x ∈ lookupIds c db.processed ∨ x ∈ ds)) := by
  have hperm := hs.perm
  have hbound : WritesBounded sched := by
    intro w hw
    exact programs_bounded hds w (hperm.mem_iff.mp hw)
  have keyH : ∀ h, (∀ e, evalKey c (db.hashes h) (g (some h) (operandsFor c h sched)) = some e → RevIdx.Good c e) ∧
      ∀ x, x ∈ lookupIds c (evalKey c (db.hashes h) (g (some h) (operandsFor c h sched))) ↔
        (x ∈ lookupIds c (db.hashes h) ∨ (x ∈ ds ∧ h ∈ C.getD x [])) := by
    intro h
    have hop := operandsFor_spec hc h hbound
    have hgp := hg (some h) (operandsFor c h sched)
    have hk := evalKey_spec hc (g (some h) (operandsFor c h sched)) (db.hashes h) (hdb.1 h)
      (fun b hb => hop.1 b (hgp.mem_iff.mp hb))
    refine ⟨hk.1, fun x => ?_⟩
    rw [hk.2 x]
    have : (∃ b, b ∈ forestLeaves (g (some h) (operandsFor c h sched)) ∧ x ∈ den c b) ↔ (x ∈ ds ∧ h ∈ C.getD x []) := by
      rw [← mem_programs_hash, ← hperm.mem_iff, ← hop.2 x]
      constructor
      · rintro ⟨b, hb, hx⟩; exact ⟨b, hgp.mem_iff.mp hb, hx⟩
      · rintro ⟨b, hb, hx⟩; exact ⟨b, hgp.mem_iff.mpr hb, hx⟩
    rw [this]
  have keyP : (∀ e, evalKey c db.processed (g none (processedOps c sched)) = some e → RevIdx.Good c e) ∧
      ∀ x, x ∈ lookupIds c (evalKey c db.processed (g none (processedOps c sched))) ↔
        (x ∈ lookupIds c db.processed ∨ x ∈ ds) := by
    have hop := processedOps_spec hc hbound
    have hgp := hg none (processedOps c sched)
    have hk := evalKey_spec hc (g none (processedOps c sched)) db.processed hdb.2
      (fun b hb => hop.1 b (hgp.mem_iff.mp hb))
    refine ⟨hk.1, fun x => ?_⟩
    rw [hk.2 x]
    have : (∃ b, b ∈ forestLeaves (g none (processedOps c sched)) ∧ x ∈ den c b) ↔ x ∈ ds := by
      rw [← mem_programs_processed (C := C), ← hperm.mem_iff, ← hop.2 x]
      constructor
      · rintro ⟨b, hb, hx⟩; exact ⟨b, hgp.mem_iff.mp hb, hx⟩
      · rintro ⟨b, hb, hx⟩; exact ⟨b, hgp.mem_iff.mpr hb, hx⟩
    rw [this]
  refine ⟨⟨fun h e he => (keyH h).1 e he, fun e he => keyP.1 e he⟩, fun h x => (keyH h).2 x, keyP.2⟩

/-- a stored value lists its ids in ascending order -/
theorem sorted_lookupIds {c : ManyCodec} (hc : c.Lawful) {v : Option Bytes} (h : ∀ e, v = some e → Good c e) :
    Sorted (lookupIds c v) := by
  cases v with
  | none => simp [lookupIds, Sorted]
  | some e =>
    have ⟨hw, _, _⟩ := (h e rfl).decode hc
    simp only [lookupIds]
    generalize Datasets.fromSlice c e = d at hw
    cases d with
    | empty => simp [Datasets.ids, Sorted]
    | unique v => simp [Datasets.ids, Sorted]
    | many vs => exact hw.1

end RevIdx
