import Sourmash.Lemmas.HLL
/-!
Lemmas/HLLMerge.lean — registers against the specification, merge algebra, union homomorphism,
save/load.  Core Lean only.
-/
namespace Hll

/-- the sketch of a list of hashes: `new(p, k)` followed by `add_hash` for each, in list order -/
def sketch (p k : Nat) (hs : List Nat) : H := (H.empty p k).addMany hs

theorem sketch_wf (p k : Nat) (hs : List Nat) (h1 : 4 ≤ p) (h2 : p ≤ 18) : WF (sketch p k hs) :=
  (WF.empty p k h1 h2).addMany hs

theorem get!_replicate_zero (n i : Nat) : (Array.replicate n (0 : UInt8))[i]! = 0 := by
  by_cases h : i < n
  · rw [getElem!_pos _ i (by simpa using h)]; simp
  · rw [Array.getElem!_eq_getD, Array.getD_eq_getD_getElem?, Array.getElem?_eq_none (by simpa using h)]
    rfl

/-- register `i` of the model sketch is the specification's register -/
theorem sketch_get (p k : Nat) (hs : List Nat) (i : Nat) (hp : p ≤ 64) (hi : i < 2 ^ p)
    (h64 : ∀ h ∈ hs, h < 2 ^ 64) :
    ((sketch p k hs).regs[i]!).toNat = HllSpec.reg p hs i := by
  unfold sketch
  rw [addMany_get _ _ _ (by simpa [H.empty] using hi)]
  have e : (H.empty p k).p = p := rfl
  rw [e]
  rw [foldl_umax_toNat]
  · have z : ((H.empty p k).regs[i]!).toNat = 0 := by
      simp [H.empty, get!_replicate_zero]
    rw [z]
    unfold HllSpec.reg HllSpec.bucket
    have : (fun h => index p h == i) = (fun h => h % 2 ^ p == i) := by
      funext h; rw [index_eq_mod]
    rw [this]
    apply foldl_congr_mem
    intro acc x hx
    rw [rank_eq_rho p x hp (h64 x (List.mem_filter.1 hx).1)]
  · intro h hh
    have := rank_le p h (h64 h (List.mem_filter.1 hh).1)
    omega

/-- the array the driver prints in the spec column holds `reg p hs i` at every `i` -/
theorem spec_regs_aux (p : Nat) (hs : List Nat) (a : Array Nat) (i : Nat) (hi : i < a.size) :
    (hs.foldl (fun a h => a.set! (HllSpec.bucket p h) (max a[HllSpec.bucket p h]! (HllSpec.rho p h))) a)[i]!
      = (hs.filter (fun h => HllSpec.bucket p h == i)).foldl (fun acc h => max acc (HllSpec.rho p h)) a[i]! := by
  induction hs generalizing a with
  | nil => rfl
  | cons h t ih =>
    simp only [List.foldl_cons]
    rw [ih _ (by simpa [Array.set!_eq_setIfInBounds] using hi), get!_set!, List.filter_cons]
    by_cases hh : HllSpec.bucket p h = i
    · subst hh; simp [hi]
    · simp [hh]

theorem spec_regs_get (p : Nat) (hs : List Nat) (i : Nat) (hi : i < 2 ^ p) :
    (HllSpec.regs p hs)[i]! = HllSpec.reg p hs i := by
  unfold HllSpec.regs
  rw [spec_regs_aux p hs _ i (by simpa using hi)]
  have : (Array.replicate (2 ^ p) (0 : Nat))[i]! = 0 := by
    rw [getElem!_pos _ i (by simpa using hi)]; simp
  rw [this]; rfl

/-! ### merge -/

theorem merge_eq_ok (a b : H) (hk : a.ksize = b.ksize) (hs : a.regs.size = b.regs.size) :
    a.merge b = .ok { a with regs := Array.zipWith umax a.regs b.regs } := by
  simp [H.merge, checkCompatible, hk, hs]

theorem merge_ok_iff (a b c : H) :
    a.merge b = .ok c ↔
      a.ksize = b.ksize ∧ a.regs.size = b.regs.size ∧
      c = { a with regs := Array.zipWith umax a.regs b.regs } := by
  unfold H.merge checkCompatible
  by_cases hk : a.ksize = b.ksize
  · by_cases hs : a.regs.size = b.regs.size
    · simp [hk, hs]; exact eq_comm
    · simp [hk, hs]
  · simp [hk]

theorem merge_err_ksize (a b : H) (hk : a.ksize ≠ b.ksize) : a.merge b = .error .mismatchKSizes := by
  simp [H.merge, checkCompatible, hk]

theorem merge_err_size (a b : H) (hk : a.ksize = b.ksize) (hs : a.regs.size ≠ b.regs.size) :
    a.merge b = .error (.mismatchNum a.regs.size b.regs.size) := by
  simp [H.merge, checkCompatible, hk, hs]

theorem zipWith_umax_comm (x y : Array UInt8) : Array.zipWith umax x y = Array.zipWith umax y x := by
  apply Array.ext
  · simp [Nat.min_comm]
  · intro i h1 h2
    simp [umax_comm]

theorem zipWith_umax_assoc (x y z : Array UInt8) :
    Array.zipWith umax (Array.zipWith umax x y) z = Array.zipWith umax x (Array.zipWith umax y z) := by
  apply Array.ext
  · simp [Nat.min_assoc]
  · intro i h1 h2
    simp [umax_assoc]

theorem zipWith_umax_self (x : Array UInt8) : Array.zipWith umax x x = x := by
  apply Array.ext
  · simp
  · intro i h1 h2
    simp [umax_self]

theorem pow_two_inj {a b : Nat} (h : 2 ^ a = 2 ^ b) : a = b := by
  rcases Nat.lt_trichotomy a b with hlt | heq | hgt
  · have := Nat.pow_lt_pow_right (a := 2) (by omega) hlt; omega
  · exact heq
  · have := Nat.pow_lt_pow_right (a := 2) (by omega) hgt; omega

/-- two well-formed sketches with the same register count have the same p and q -/
theorem WF.same_pq {a b : H} (wa : WF a) (wb : WF b) (hs : a.regs.size = b.regs.size) :
    a.p = b.p ∧ a.q = b.q := by
  have : a.p = b.p := pow_two_inj (by rw [← wa.size_eq, ← wb.size_eq, hs])
  exact ⟨this, by rw [wa.q_eq, wb.q_eq, this]⟩

theorem WF.merge {a b c : H} (wa : WF a) (h : a.merge b = .ok c) : WF c := by
  obtain ⟨_, hs, rfl⟩ := (merge_ok_iff a b c).1 h
  exact ⟨wa.p_lo, wa.p_hi, wa.q_eq, by simp [← hs, wa.size_eq]⟩

theorem get!_zipWith_umax (x y : Array UInt8) (i : Nat) (hs : x.size = y.size) :
    (Array.zipWith umax x y)[i]! = umax x[i]! y[i]! := by
  by_cases h : i < x.size
  · rw [getElem!_pos _ i (by simpa [← hs] using h), getElem!_pos x i h, getElem!_pos y i (by omega)]
    simp
  · have e1 : (Array.zipWith umax x y)[i]! = default := by
      rw [Array.getElem!_eq_getD, Array.getD_eq_getD_getElem?, Array.getElem?_eq_none (by simp; omega)]; rfl
    have e2 : x[i]! = default := by
      rw [Array.getElem!_eq_getD, Array.getD_eq_getD_getElem?, Array.getElem?_eq_none (by omega)]; rfl
    have e3 : y[i]! = default := by
      rw [Array.getElem!_eq_getD, Array.getD_eq_getD_getElem?, Array.getElem?_eq_none (by omega)]; rfl
    rw [e1, e2, e3]; rfl

/-- union homomorphism on the registers -/
theorem sketch_append_regs (p k k' : Nat) (A B : List Nat) :
    (sketch p k (A ++ B)).regs = Array.zipWith umax (sketch p k A).regs (sketch p k' B).regs := by
  have sA : (sketch p k A).regs.size = 2 ^ p := by simp [sketch, H.empty]
  have sB : (sketch p k' B).regs.size = 2 ^ p := by simp [sketch, H.empty]
  apply ext_get!
  · simp [sketch, H.empty]
  · intro i hi
    have hi' : i < 2 ^ p := by simpa [sketch, H.empty] using hi
    rw [get!_zipWith_umax _ _ _ (by rw [sA, sB])]
    unfold sketch
    rw [addMany_get _ _ _ (by simpa [H.empty] using hi'), addMany_get _ _ _ (by simpa [H.empty] using hi'),
      addMany_get _ _ _ (by simpa [H.empty] using hi')]
    have e : ∀ k, (H.empty p k).p = p := fun _ => rfl
    have z : ∀ k, (H.empty p k).regs[i]! = 0 := by intro k; simp [H.empty, get!_replicate_zero]
    simp only [e, z]
    rw [List.filter_append, List.foldl_append]
    exact foldl_umax_init _ _ _

/-- the sketch of a concatenation is the merge of the sketches -/
theorem sketch_merge (p k : Nat) (A B : List Nat) :
    (sketch p k A).merge (sketch p k B) = .ok (sketch p k (A ++ B)) := by
  rw [merge_eq_ok _ _ (by simp [sketch]) (by simp [sketch, H.empty]), ← sketch_append_regs]
  congr 1
  apply H.ext' <;> simp [sketch]

/-! ### save / load -/

theorem load_save (s : H) (hp : s.p < 64) (hq : s.q < 256) (hk : s.ksize < 256)
    (hs : s.regs.size = 2 ^ s.p) : load s.save = .ok s := by
  have hp8 : (UInt8.ofNat s.p).toNat = s.p := by
    rw [UInt8.toNat_ofNat']; exact Nat.mod_eq_of_lt (by omega)
  have hq8 : (UInt8.ofNat s.q).toNat = s.q := by
    rw [UInt8.toNat_ofNat']; exact Nat.mod_eq_of_lt (by omega)
  have hk8 : (UInt8.ofNat s.ksize).toNat = s.ksize := by
    rw [UInt8.toNat_ofNat']; exact Nat.mod_eq_of_lt (by omega)
  have hl : s.regs.toList.length = 2 ^ s.p := by simpa using hs
  unfold load H.save
  rw [if_neg (by simp)]
  simp only [List.cons_append, List.nil_append]
  rw [if_neg (by decide)]
  rw [if_neg (by decide)]
  simp only [hp8, hq8, hk8]
  rw [if_neg (by omega), if_neg (by omega)]
  rw [← hl, List.take_length]

/-- the header keeps only the low byte of ksize -/
theorem load_save_ksize (s : H) (hp : s.p < 64) (hq : s.q < 256) (hs : s.regs.size = 2 ^ s.p) :
    load s.save = .ok { s with ksize := s.ksize % 256 } := by
  have hp8 : (UInt8.ofNat s.p).toNat = s.p := by
    rw [UInt8.toNat_ofNat']; exact Nat.mod_eq_of_lt (by omega)
  have hq8 : (UInt8.ofNat s.q).toNat = s.q := by
    rw [UInt8.toNat_ofNat']; exact Nat.mod_eq_of_lt (by omega)
  have hk8 : (UInt8.ofNat s.ksize).toNat = s.ksize % 256 := by
    rw [UInt8.toNat_ofNat']
  have hl : s.regs.toList.length = 2 ^ s.p := by simpa using hs
  unfold load H.save
  rw [if_neg (by simp)]
  simp only [List.cons_append, List.nil_append]
  rw [if_neg (by decide)]
  rw [if_neg (by decide)]
  simp only [hp8, hq8, hk8]
  rw [if_neg (by omega), if_neg (by omega)]
  rw [← hl, List.take_length]

/-! ### histories: every way content enters a sketch, on empty and non-empty receivers -/

/-- one step of the history of a sketch of precision `p` and k-mer size `k` -/
inductive Step where
  /-- `add_hash` / `add_many` / `hll_add_hash` for each hash; `add_word` and `add_sequence` /
      `hll_add_sequence` with the hashes of the word / of the valid k-mers -/
  | add (hs : List Nat)
  /-- `mh.update(&mut hll)` / `hll_update_mh` with a MinHash that holds `mins` -/
  | update (mins : List Nat)
  /-- `merge` / `hll_merge` with the sketch of `hs` -/
  | merge (hs : List Nat)

/-- the hashes a step brings -/
def Step.content : Step → List Nat
  | .add hs => hs
  | .update mins => mins
  | .merge hs => hs

/-- what the code does for one step, on whatever the receiver holds -/
def runStep (p k : Nat) (s : H) : Step → Except Err H
  | .add hs => .ok (s.addMany hs)
  | .update mins => .ok (s.update mins)
  | .merge hs => s.merge (sketch p k hs)

/-- steps in sequence; a refused merge ends the history with its error -/
def runHistory (p k : Nat) : H → List Step → Except Err H
  | s, [] => .ok s
  | s, st :: rest =>
    match runStep p k s st with
    | .ok s' => runHistory p k s' rest
    | .error e => .error e

theorem update_eq_addMany (s : H) (mins : List Nat) : s.update mins = s.addMany mins := rfl

theorem runStep_sketch (p k : Nat) (A : List Nat) (st : Step) :
    runStep p k (sketch p k A) st = .ok (sketch p k (A ++ st.content)) := by
  cases st with
  | add hs => simp [runStep, Step.content, sketch, addMany_append]
  | update mins => simp [runStep, Step.content, sketch, addMany_append, update_eq_addMany]
  | merge hs => simp [runStep, Step.content, sketch_merge]

theorem runHistory_sketch (p k : Nat) (A : List Nat) (steps : List Step) :
    runHistory p k (sketch p k A) steps = .ok (sketch p k (A ++ steps.flatMap Step.content)) := by
  induction steps generalizing A with
  | nil => simp [runHistory]
  | cons st rest ih => simp only [runHistory, runStep_sketch, ih, List.flatMap_cons, List.append_assoc]

theorem foldl_max_init (f : Nat → Nat) (l : List Nat) (a : Nat) :
    l.foldl (fun acc h => max acc (f h)) a = max a (l.foldl (fun acc h => max acc (f h)) 0) := by
  induction l generalizing a with
  | nil => simp
  | cons h t ih => simp only [List.foldl_cons]; rw [ih, ih (max 0 (f h))]; omega

theorem spec_reg_append (p : Nat) (A B : List Nat) (i : Nat) :
    HllSpec.reg p (A ++ B) i = max (HllSpec.reg p A i) (HllSpec.reg p B i) := by
  unfold HllSpec.reg
  rw [List.filter_append, List.foldl_append, foldl_max_init]

theorem spec_accum_size (p : Nat) (a : Array Nat) (hs : List Nat) : (HllSpec.accum p a hs).size = a.size := by
  unfold HllSpec.accum
  induction hs generalizing a with
  | nil => rfl
  | cons h t ih => simp only [List.foldl_cons]; rw [ih]; simp [Array.set!_eq_setIfInBounds]

theorem spec_regs_size (p : Nat) (hs : List Nat) : (HllSpec.regs p hs).size = 2 ^ p := by
  have := spec_accum_size p (Array.replicate (2 ^ p) 0) hs
  simpa [HllSpec.accum, HllSpec.regs] using this

theorem spec_accum_regs (p : Nat) (A B : List Nat) :
    HllSpec.accum p (HllSpec.regs p A) B = HllSpec.regs p (A ++ B) := by
  simp [HllSpec.accum, HllSpec.regs, List.foldl_append]

theorem spec_merge_get (p : Nat) (A B : List Nat) (i : Nat) (hi : i < 2 ^ p) :
    (HllSpec.mergeRegs (HllSpec.regs p A) (HllSpec.regs p B))[i]! = HllSpec.reg p (A ++ B) i := by
  have sA := spec_regs_size p A
  have sB := spec_regs_size p B
  unfold HllSpec.mergeRegs
  rw [getElem!_pos _ i (by simp [sA, sB]; exact hi), Array.getElem_zipWith, spec_reg_append,
    ← spec_regs_get p A i hi, ← spec_regs_get p B i hi,
    getElem!_pos _ i (by rw [sA]; exact hi), getElem!_pos _ i (by rw [sB]; exact hi)]

end Hll
