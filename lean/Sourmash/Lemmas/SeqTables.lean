import Sourmash.Model.Seq
/-! Lemmas/SeqTables.lean — the tables generated from /repo against the documentation-level
definitions of `Spec/Kmers.lean`, first on byte codes (`decide` over the whole finite tables), then
lifted to `UInt8`. -/
namespace Seq.Tables
open Gen.C02

/-! ### byte-code level (finite, by evaluation) -/

theorem complement_codes : ∀ n, n < 256 → complementTable.getD n 0 = Kmers.compCode n := by
  decide +kernel

theorem valid_codes : ∀ n, n < 256 → (validTable.getD n 0 == 1) = Kmers.isACGTCode n := by
  decide +kernel

theorem dayhoff_codes : ∀ n, n < 256 → dayhoffTable.getD n 88 = Kmers.dayhoffCode n := by
  decide +kernel

theorem hp_codes : ∀ n, n < 256 → hpTable.getD n 88 = Kmers.hpCode n := by
  decide +kernel

def bases : List Nat := [84, 67, 65, 71]
def basesN : List Nat := [84, 67, 65, 71, 78]

/-- the generated table and the standard code agree on the 64 ACGT codons and the 16 xyN codons … -/
theorem codon_codes_on_bases :
    ∀ a ∈ bases, ∀ b ∈ bases, ∀ c ∈ basesN,
      (lookupCodon codonTable a b c).getD 88 = Kmers.codonCode a b c := by
  decide +kernel

/-- … and the generated table has no key outside those 80 -/
theorem codon_keys_are_bases :
    ∀ e ∈ codonTable, e.1 ∈ bases ∧ e.2.1 ∈ bases ∧ e.2.2.1 ∈ basesN := by
  decide +kernel

theorem lookupCodon_mem {t : List (Nat × Nat × Nat × Nat)} {a b c v : Nat}
    (h : lookupCodon t a b c = some v) : (a, b, c, v) ∈ t := by
  induction t with
  | nil => simp [lookupCodon] at h
  | cons e t ih =>
    obtain ⟨x, y, z, w⟩ := e
    unfold lookupCodon at h
    split at h
    · rename_i hk
      obtain ⟨rfl, rfl, rfl⟩ := hk
      cases h
      exact List.mem_cons_self
    · exact List.mem_cons_of_mem _ (ih h)

theorem baseIdx_none_of_not_mem {n : Nat} (h : n ∉ bases) : Kmers.baseIdx n = none := by
  simp only [bases, List.mem_cons, List.not_mem_nil, or_false, not_or] at h
  simp [Kmers.baseIdx, h]

theorem baseIdx_some_of_mem {n : Nat} (h : n ∈ bases) : ∃ i, Kmers.baseIdx n = some i := by
  simp only [bases, List.mem_cons, List.not_mem_nil, or_false] at h
  rcases h with rfl | rfl | rfl | rfl <;> simp [Kmers.baseIdx]

/-- outside the 80 keys the standard code says X -/
theorem codonCode_off_bases {a b c : Nat} (h : ¬(a ∈ bases ∧ b ∈ bases ∧ c ∈ basesN)) :
    Kmers.codonCode a b c = 88 := by
  unfold Kmers.codonCode
  by_cases ha : a ∈ bases
  · by_cases hb : b ∈ bases
    · have hc : c ∉ basesN := fun hc => h ⟨ha, hb, hc⟩
      obtain ⟨i, hi⟩ := baseIdx_some_of_mem ha
      obtain ⟨j, hj⟩ := baseIdx_some_of_mem hb
      have hc' : c ∉ bases ∧ c ≠ 78 := by
        simp only [basesN, bases, List.mem_cons, List.not_mem_nil, or_false, not_or] at hc ⊢
        omega
      simp [hi, hj, baseIdx_none_of_not_mem hc'.1, hc'.2]
    · obtain ⟨i, hi⟩ := baseIdx_some_of_mem ha
      simp [hi, baseIdx_none_of_not_mem hb]
  · simp [baseIdx_none_of_not_mem ha]

/-- the generated table = the standard genetic code with the N-wobble rule, on every triple -/
theorem codon_codes (a b c : Nat) :
    (lookupCodon codonTable a b c).getD 88 = Kmers.codonCode a b c := by
  by_cases h : a ∈ bases ∧ b ∈ bases ∧ c ∈ basesN
  · exact codon_codes_on_bases a h.1 b h.2.1 c h.2.2
  · rw [codonCode_off_bases h]
    cases hl : lookupCodon codonTable a b c with
    | none => rfl
    | some v =>
      exfalso
      exact h (codon_keys_are_bases _ (lookupCodon_mem hl))

/-! ### lifted to bytes -/

theorem complement_eq (b : UInt8) : complement b = Kmers.comp b := by
  simp only [complement, Kmers.comp, complement_codes b.toNat b.toNat_lt]

theorem valid_eq (b : UInt8) : valid b = Kmers.isACGT b := by
  simp only [valid, Kmers.isACGT, valid_codes b.toNat b.toNat_lt]

theorem dayhoff_eq (b : UInt8) : dayhoff b = Kmers.dayhoff b := by
  simp only [dayhoff, Kmers.dayhoff, dayhoff_codes b.toNat b.toNat_lt]

theorem hp_eq (b : UInt8) : hp b = Kmers.hp b := by
  simp only [hp, Kmers.hp, hp_codes b.toNat b.toNat_lt]

theorem codon3_eq (a b c : UInt8) : codon3 a b c = Kmers.codon a b c := by
  have h := codon_codes a.toNat b.toNat c.toNat
  unfold codon3 Kmers.codon
  rw [← h]
  cases lookupCodon codonTable a.toNat b.toNat c.toNat <;> rfl

theorem revcomp_eq (s : List UInt8) : revcomp s = Kmers.revcomp s := by
  simp only [revcomp, Kmers.revcomp, List.map_reverse]
  congr 1
  exact List.map_congr_left (fun b _ => complement_eq b)

theorem upper_eq (b : UInt8) : upper b = Kmers.upper b := by
  simp [upper, Kmers.upper]

end Seq.Tables
