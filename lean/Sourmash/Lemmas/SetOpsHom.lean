import Sourmash.Lemmas.SetOpsAdd
/-! Lemmas/SetOpsHom.lean — extensionality of well-formed sketches (parameters, hashes, abundance
function) and the homomorphism "sketch of A ++ B = merge of the sketches". -/
namespace SetOps
open SetSpec

theorem zip_fst_snd {α β : Type} (q : List (α × β)) : (q.map Prod.fst).zip (q.map Prod.snd) = q := by
  induction q with
  | nil => rfl
  | cons p t ih => simp [ih]

theorem sk_ext {x y : Sk} (wx : x.WF) (wy : y.WF) (h1 : x.num = y.num) (h2 : x.maxHash = y.maxHash)
    (h3 : x.ksize = y.ksize) (h4 : x.seed = y.seed) (h5 : x.mol = y.mol) (hm : x.mins = y.mins)
    (ht : x.abunds.isSome = y.abunds.isSome)
    (hab : x.abunds.isSome → ∀ h ∈ x.mins, x.ab h = y.ab h) : x = y := by
  obtain ⟨n1, m1, k1, s1, l1, mx, ax⟩ := x
  obtain ⟨n2, m2, k2, s2, l2, my, ay⟩ := y
  simp only at h1 h2 h3 h4 h5 hm ht hab
  subst h1 h2 h3 h4 h5 hm
  congr 1
  cases ax with
  | none => cases ay with
    | none => rfl
    | some b => simp at ht
  | some a => cases ay with
    | none => simp at ht
    | some b =>
      have la := wx.2 a rfl
      have lb := wy.2 b rfl
      simp only at la lb
      have ea : a = mx.map (look (mx.zip a)) := by
        have := map_snd_eq_look (m := mx.zip a) (by rw [List.map_fst_zip (by omega)]; exact wx.1)
        rw [List.map_snd_zip (by omega), List.map_fst_zip (by omega)] at this
        exact this
      have eb : b = mx.map (look (mx.zip b)) := by
        have := map_snd_eq_look (m := mx.zip b) (by rw [List.map_fst_zip (by omega)]; exact wy.1)
        rw [List.map_snd_zip (by omega), List.map_fst_zip (by omega)] at this
        exact this
      rw [ea, eb]
      congr 1
      apply List.map_congr_left
      intro h hh
      have := hab rfl h hh
      simpa [Sk.ab, Sk.pairs] using this

theorem look_zip_map (K : List Nat) (f : Nat → Nat) (h : Nat) :
    look (K.zip (K.map f)) h = if h ∈ K then f h else 0 := by
  induction K with
  | nil => simp [look]
  | cons k t ih =>
    simp only [List.map_cons, List.zip_cons_cons, look, List.mem_cons]
    by_cases e : k = h
    · subst e; simp
    · have : ¬ h = k := fun e' => e e'.symm
      simp [e, this, ih]

theorem ab_of_not_mem {s : Sk} {h : Nat} (hw : s.WF) (hn : h ∉ s.mins) : s.ab h = 0 := by
  apply look_of_not_mem
  unfold Sk.pairs
  cases hab : s.abunds with
  | none => simpa [List.map_map, Function.comp_def] using hn
  | some ab => simp only; rw [List.map_fst_zip (by have := hw.2 ab hab; omega)]; exact hn

theorem ab_mergeSpec {a b : Sk} (wa : a.WF) (wb : b.WF) (hn : a.num = 0)
    (ha : a.abunds.isSome) (hb : b.abunds.isSome) (h : Nat) :
    (mergeSpec a b).ab h = a.ab h + b.ab h := by
  have hk : bottom a.num (union a.mins b.mins) = union a.mins b.mins := by simp [bottom, hn]
  simp only [Sk.ab, Sk.pairs, mergeSpec, Sk.track, ha, hb, Bool.and_self, if_true, hk]
  rw [look_zip_map]
  by_cases hm : h ∈ union a.mins b.mins
  · simp only [hm, if_true]
  · simp only [hm, if_false]
    rw [mem_union] at hm
    have h1 := ab_of_not_mem wa (fun e => hm (Or.inl e))
    have h2 := ab_of_not_mem wb (fun e => hm (Or.inr e))
    simp only [Sk.ab, Sk.pairs] at h1 h2
    omega

theorem addManyAb_append (k : Kind) (t : Sk) (A B : List (Nat × Nat)) :
    t.addManyAb k (A ++ B) = (t.addManyAb k A).addManyAb k B := by
  simp [Sk.addManyAb, List.foldl_append]

/-- T-merge_hom at the level of the fold -/
theorem merge_hom_fold (k : Kind) (e : Sk) (he : Sc e) (hemp : e.mins = []) (A B : List (Nat × Nat))
    (hA : ∀ p ∈ A, p.2 ≠ 0) (hB : ∀ p ∈ B, p.2 ≠ 0) :
    (e.addManyAb k A).merge k (e.addManyAb k B) = .ok (e.addManyAb k (A ++ B)) := by
  obtain ⟨x1, x2, x3, x4, x5, x6, x7, x8⟩ := fold_scaled k A e he hA
  obtain ⟨y1, y2, y3, y4, y5, y6, y7, y8⟩ := fold_scaled k B e he hB
  obtain ⟨z1, z2, z3, z4, z5, z6, z7, z8⟩ := fold_scaled k (A ++ B) e he
    (by intro p hp; rcases List.mem_append.1 hp with h | h; exact hA p h; exact hB p h)
  have hc : checkCompatible (e.addManyAb k A) (e.addManyAb k B) = .ok () :=
    (checkCompatible_ok_iff _ _).2 ⟨by rw [x3, y3], by rw [x5, y5], by rw [x2, y2], by rw [x4, y4]⟩
  rw [merge_ok k x1.1 y1.1 hc]
  congr 1
  have hk : bottom (e.addManyAb k A).num (union (e.addManyAb k A).mins (e.addManyAb k B).mins)
      = union (e.addManyAb k A).mins (e.addManyAb k B).mins := by simp [bottom, x1.2.1]
  have e0 : ∀ h, e.ab h = 0 := fun h => ab_of_not_mem he.1 (by simp [hemp])
  apply sk_ext mergeSpec_wf z1.1
  · show (e.addManyAb k A).num = _; rw [x1.2.1, z1.2.1]
  · show (e.addManyAb k A).maxHash = _; rw [x2, z2]
  · show (e.addManyAb k A).ksize = _; rw [x3, z3]
  · show (e.addManyAb k A).seed = _; rw [x4, z4]
  · show (e.addManyAb k A).mol = _; rw [x5, z5]
  · show bottom _ _ = _
    rw [hk]
    apply sinc_ext (sinc_union _ _) z1.1.1
    intro z
    rw [mem_union, x7, y7, z7]
    simp only [hemp, List.not_mem_nil, false_or, List.mem_append]
    constructor
    · rintro (⟨p, hp, h⟩ | ⟨p, hp, h⟩)
      · exact ⟨p, Or.inl hp, h⟩
      · exact ⟨p, Or.inr hp, h⟩
    · rintro ⟨p, hp | hp, h⟩
      · exact Or.inl ⟨p, hp, h⟩
      · exact Or.inr ⟨p, hp, h⟩
  · simp only [mergeSpec, Sk.track, x6, y6, z6]
    cases e.abunds <;> simp
  · intro ht h _
    have hte : e.abunds.isSome = true := by
      simp only [mergeSpec, Sk.track, x6, y6] at ht
      cases hh : e.abunds <;> simp [hh] at ht ⊢
    rw [ab_mergeSpec x1.1 y1.1 x1.2.1 (by rw [x6]; exact hte) (by rw [y6]; exact hte),
      x8 hte, y8 hte, z8 hte, e0]
    simp only [belowP, List.filter_append, total_append]
    omega
end SetOps
