import Sourmash.Lemmas.Json
/-! Lemmas/JsonDescribe.lean — what `toJson` writes is, field by field, what a reader that only knows the
published names (`SigFormat.describes`) expects for that state; and the sketch objects written for coherent states
have no defect of their own (`SigFormat.sketchDefect`). -/
namespace SigJson
open SigFormat
open Sourmash.Generated.C06

theorem str_names :
    str "num" = K.num ∧ str "ksize" = K.ksize ∧ str "seed" = K.seed ∧ str "max_hash" = K.max_hash ∧
    str "mins" = K.mins ∧ str "md5sum" = K.md5sum ∧ str "abundances" = K.abundances ∧ str "molecule" = K.molecule ∧
    str "class" = K.class_ ∧ str "email" = K.email ∧ str "hash_function" = K.hash_function ∧
    str "filename" = K.filename ∧ str "name" = K.name ∧ str "license" = K.license ∧
    str "signatures" = K.signatures ∧ str "version" = K.version ∧
    str "registers" = K.registers ∧ str "p" = K.p ∧ str "q" = K.q := by decide

theorem isNums_u64s (l : List Nat) : isNums l (u64s l) = true := by
  induction l with
  | nil => rfl
  | cons x t ih =>
    simp only [isNums, u64s, List.map_cons, List.length_cons, List.length_map, List.zip_cons_cons, List.all_cons,
      beq_self_eq_true, Bool.true_and] at ih ⊢
    exact ih

theorem moleculeName_eq_display (m : Mol) : moleculeName m = m.display := by
  cases m <;> first | rfl | decide

theorem describesMH_written (m : MinHash) :
    describesSketch (toJsonMH kmhSer m) (.vec m) = true ∧ describesSketch (toJsonMH kmhSer m) (.tree m) = true := by
  obtain ⟨n1, n2, n3, n4, n5, n6, n7, n8, -⟩ := str_names
  have hm := moleculeName_eq_display m.mol
  cases hab : m.abunds <;>
  simp [describesSketch, describesMH, toJsonMH, serFields, kmhSer, mhField, SigFormat.get, onlyKeys, sketchFieldNames, isNum, isStr,
    n1, n2, n3, n4, n5, n6, n7, n8, hm, hab, isNums_u64s,
    K.num, K.ksize, K.seed, K.max_hash, K.mins, K.md5sum, K.abundances, K.molecule]

theorem describesSketch_written : ∀ sk : Sketch, describesSketch (toJsonSketch sk) sk = true
  | .vec m => (describesMH_written m).1
  | .tree m => by rw [toJsonSketch, btreeSer_eq]; exact (describesMH_written m).2
  | .hll regs p q k => by
    obtain ⟨-, n2, -, -, -, -, -, -, -, -, -, -, -, -, -, -, n17, n18, n19⟩ := str_names
    simp [describesSketch, toJsonSketch, G.hllFields, hllFields, hllField, SigFormat.get, onlyKeys, hllFieldNames, isNum,
      n2, n17, n18, n19, isNums_u64s, K.registers, K.p, K.q, K.ksize]

theorem all_zip_map_self {α β : Type} (f : α → β) (P : β → α → Bool) (h : ∀ a, P (f a) a = true) :
    ∀ l : List α, ((l.map f).zip l).all (fun p => P p.1 p.2) = true
  | [] => rfl
  | a :: t => by simp [h a, all_zip_map_self f P h t]

theorem describesSig_written (s : Signature) : describesSig (toJsonSig s) s = true := by
  obtain ⟨-, -, -, -, -, -, -, -, n9, n10, n11, n12, n13, n14, n15, n16, -⟩ := str_names
  have hsk := all_zip_map_self toJsonSketch describesSketch describesSketch_written s.sketches
  cases s with
  | mk cls email hf filename name license sketches version =>
    cases filename <;> cases name <;>
    simp [describesSig, toJsonSig, G.sigFields, sigFields, sigField, optStrJson, SigFormat.get, onlyKeys, signatureFieldNames,
      isStr, n9, n10, n11, n12, n13, n14, n15, n16,
      K.class_, K.email, K.hash_function, K.filename, K.name, K.license, K.signatures, K.version] <;>
    simpa using hsk

/-! ### a written sketch object stands on its own (`SigFormat.sketchDefect`) -/

theorem numsOf_u64s (l : List Nat) : numsOf (u64s l) = some l := by
  simp only [numsOf, u64s]
  induction l with
  | nil => rfl
  | cons x t ih => simp [List.mapM_cons, ih]

theorem sketchDefect_written (m : MinHash) (h : Coherent m) :
    sketchDefect (toJsonMH kmhSer m) = none := by
  obtain ⟨-, n2, -, -, n5, n6, n7, -⟩ := str_names
  have hs := h.sorted
  have hmd := h.md5
  cases hab : m.abunds with
  | none =>
    simp [sketchDefect, toJsonMH, serFields, kmhSer, mhField, SigFormat.get, n2, n5, n6, n7, hab,
      numsOf_u64s, hs, hmd,
      K.num, K.ksize, K.seed, K.max_hash, K.mins, K.md5sum, K.abundances, K.molecule]
  | some a =>
    have hal := h.aligned a hab
    simp [sketchDefect, toJsonMH, serFields, kmhSer, mhField, SigFormat.get, n2, n5, n6, n7, hab,
      numsOf_u64s, hs, hmd, hal,
      K.num, K.ksize, K.seed, K.max_hash, K.mins, K.md5sum, K.abundances, K.molecule]

theorem sketchDefect_toJsonSketch : ∀ sk : Sketch, CoherentSketch sk → sketchDefect (toJsonSketch sk) = none
  | .vec m, h => sketchDefect_written m h
  | .tree m, h => by rw [toJsonSketch, btreeSer_eq]; exact sketchDefect_written m h
  | .hll .., h => h.elim

theorem sketchObjects_written (sigs : List Signature) :
    sketchObjects (toJson sigs) = sigs.map fun s => s.sketches.map toJsonSketch := by
  obtain ⟨-, -, -, -, -, -, -, -, -, -, -, -, -, -, n15, -⟩ := str_names
  simp only [sketchObjects, toJson, List.map_map]
  apply List.map_congr_left
  intro s _
  cases s with
  | mk cls email hf filename name license sketches version =>
    cases filename <;> cases name <;>
    simp [toJsonSig, G.sigFields, sigFields, sigField, optStrJson, SigFormat.get, n15,
      K.class_, K.email, K.hash_function, K.filename, K.name, K.license, K.signatures, K.version]

theorem documentDefect_written (sigs : List Signature) (which : List (List Bool))
    (h : ∀ s ∈ sigs, ∀ sk ∈ s.sketches, CoherentSketch sk) : documentDefect (toJson sigs) which = none := by
  have hnil : (((sketchObjects (toJson sigs)).zip which).flatMap fun p => (p.1.zip p.2).filterMap fun q =>
      if q.2 then sketchDefect q.1 else none) = [] := by
    rw [sketchObjects_written]
    simp only [List.flatMap_eq_nil_iff, List.filterMap_eq_nil_iff]
    intro p hp q hq
    have hp1 := (List.of_mem_zip hp).1
    have hq1 := (List.of_mem_zip hq).1
    simp only [List.mem_map] at hp1
    obtain ⟨s, hs, hps⟩ := hp1
    rw [← hps] at hq1
    simp only [List.mem_map] at hq1
    obtain ⟨sk, hsk, hqsk⟩ := hq1
    rw [← hqsk, sketchDefect_toJsonSketch sk (h s hs sk hsk)]
    simp
  simp only [documentDefect, hnil, List.head?_nil]
end SigJson
