import Sourmash.Model.Ani
import Mathlib.Analysis.SpecialFunctions.Pow.Real
import Mathlib.Analysis.SpecialFunctions.Sqrt
/-!
The ideal-arithmetic instance of the ANI model: `RealLike ℝ`, and the unfolding lemmas that turn model
expressions over it into ordinary real-number expressions.
-/
namespace Sourmash.Ani

noncomputable instance instRealLikeReal : RealLike ℝ where
  toAdd := inferInstance
  toSub := inferInstance
  toMul := inferInstance
  toDiv := inferInstance
  ofNat n := (n : ℝ)
  ofDec m e := (m : ℝ) / 10 ^ e
  powf x y := x ^ y
  sqrt := Real.sqrt
  beq a b := decide (a = b)
  blt a b := decide (a < b)

@[simp] theorem lit_real (n : Nat) : (lit n : ℝ) = (n : ℝ) := rfl
@[simp] theorem ofNat_real (n : Nat) : (RealLike.ofNat n : ℝ) = (n : ℝ) := rfl
@[simp] theorem ofDec_real (m e : Nat) : (RealLike.ofDec m e : ℝ) = (m : ℝ) / 10 ^ e := rfl
@[simp] theorem powf_real (x y : ℝ) : RealLike.powf x y = x ^ y := rfl
@[simp] theorem sqrt_real (x : ℝ) : RealLike.sqrt x = Real.sqrt x := rfl
@[simp] theorem beq_real (a b : ℝ) : RealLike.beq a b = decide (a = b) := rfl
@[simp] theorem blt_real (a b : ℝ) : RealLike.blt a b = decide (a < b) := rfl

/-- the square-and-multiply loop computes `acc · a ^ n` -/
theorem powiLoop_real (a : ℝ) (n : Nat) (acc : ℝ) : powiLoop a n acc = acc * a ^ n := by
  induction n using Nat.strong_induction_on generalizing a acc with
  | _ n ih =>
    rw [powiLoop]
    have hn : n = 2 * (n / 2) + n % 2 := (Nat.div_add_mod n 2).symm
    by_cases h0 : n / 2 = 0
    · have hlt : n < 2 := by omega
      simp only [h0, ↓reduceDIte]
      rcases Nat.lt_or_ge n 1 with h | h
      · have : n = 0 := by omega
        subst this; simp
      · have : n = 1 := by omega
        subst this; simp
    · simp only [h0, ↓reduceDIte]
      rw [ih (n / 2) (by omega)]
      rcases Nat.mod_two_eq_zero_or_one n with h | h
      · simp only [h, zero_ne_one, ↓reduceIte]
        conv_rhs => rw [hn, h, add_zero, pow_mul]
        rw [pow_two]
      · simp only [h, ↓reduceIte]
        conv_rhs => rw [hn, h, pow_succ, pow_mul]
        rw [pow_two]; ring

/-- `powi` over ℝ is the power -/
@[simp] theorem powi_real (a : ℝ) (n : Nat) : powi a n = a ^ n := by
  simp [powi, powiLoop_real]

end Sourmash.Ani
