import Sourmash.Lemmas.ScaledVal
/-! Lemmas/ScaledBounds.lean — `max_hash_for_scaled` / `scaled_for_max_hash` as one correctly rounded
division of 2^64 by the (rounded) argument, and the error bound of the truncated quotient. -/
set_option linter.unusedVariables false
namespace Scaled

theorem sat_mono {v w : Nat} (h : v ≤ w) : sat v ≤ sat w := by
  unfold sat; split <;> split <;> omega

theorem sat_le (v : Nat) : sat v ≤ 2 ^ 64 - 1 := by
  unfold sat; split <;> omega

theorem sat_of_lt {v : Nat} (h : v < 2 ^ 64) : sat v = v := by
  unfold sat; split <;> omega

theorem div_le_div_cross (x1 y1 x2 y2 : Nat) (hy1 : 0 < y1) (hy2 : 0 < y2)
    (h : x1 * y2 ≤ x2 * y1) : x1 / y1 ≤ x2 / y2 := by
  rw [Nat.le_div_iff_mul_le hy2]
  apply Nat.le_of_mul_le_mul_right _ hy1
  have := Nat.mul_le_mul_right y2 (Nat.div_mul_le_self x1 y1)
  calc x1 / y1 * y2 * y1 = x1 / y1 * y1 * y2 := by grind
    _ ≤ x1 * y2 := this
    _ ≤ _ := h

theorem maxHash_eq (s : Nat) (hs : 2 ≤ s) :
    maxHashForScaled s = sat (num (rnDiv (2 ^ 64) (rnNat s)) / den (rnDiv (2 ^ 64) (rnNat s))) := by
  have h : maxHashForScaled s = toNatTrunc (fdiv (ofNat u64max) (ofNat s)) := by
    match s, hs with
    | n + 2, _ => rfl
  rw [h, fdiv_ofNat _ _ (by decide) (by omega), rnNat_u64max, toNatTrunc_eq]

theorem scaled_eq (m : Nat) (hm : 1 ≤ m) :
    scaledForMaxHash m = sat ((2 * num (rnDiv (2 ^ 64) (rnNat m)) + den (rnDiv (2 ^ 64) (rnNat m)))
      / (2 * den (rnDiv (2 ^ 64) (rnNat m)))) := by
  have h : scaledForMaxHash m = toNatRound (fdiv (ofNat u64max) (ofNat m)) := by
    match m, hm with
    | n + 1, _ => rfl
  rw [h, fdiv_ofNat _ _ (by decide) (by omega), rnNat_u64max, toNatRound_eq]

/-- `M = ⌊X/A⌋` where `X/A ≈ 2^64/S` and `S ≈ s` (both to relative error 2^-53):
    then `M·s ≤ 2^64 + 2^12` and `(M+1)·s > 2^64 − 2^12`. -/
theorem floor_bounds (X A S s : Nat) (hA : 0 < A) (hs : 0 < s)
    (h1 : Approx X A (2 ^ 64) S) (h2 : Approx S 1 s 1) :
    X / A * s ≤ 2 ^ 64 + 2 ^ 12 ∧ 2 ^ 64 + 1 ≤ (X / A + 1) * s + 2 ^ 12 := by
  have t1 : X / A * A ≤ X := Nat.div_mul_le_self X A
  have t1' : X < X / A * A + A := Nat.lt_div_mul_add hA
  generalize X / A = M at *
  have a1 := h2.dn_x; have a2 := h2.up_n
  have b1 := h1.up_n; have b2 := h1.dn_x
  simp only [Nat.mul_one] at a1 a2
  constructor
  · have u1 := Nat.mul_le_mul_right s t1
    have u2 := Nat.mul_le_mul_left X a1
    have e2 : X * (2 ^ 53 * s) = 2 ^ 53 * (X * s) := by grind
    have e3 : X * (2 ^ 53 * S + S) = (2 ^ 53 + 1) * (X * S) := by grind
    rw [e2, e3] at u2
    have key : M * s * 2 ^ 106 * A ≤ 2 ^ 64 * (2 ^ 53 + 1) * (2 ^ 53 + 1) * A := by
      have e1 : M * s * 2 ^ 106 * A = 2 ^ 106 * (M * A * s) := by grind
      rw [e1]
      omega
    have := Nat.le_of_mul_le_mul_right key hA
    omega
  · have v1 := Nat.mul_lt_mul_of_pos_right t1' hs
    have v2 := Nat.mul_le_mul_left X a2
    have e2 : X * (2 ^ 53 * S) = 2 ^ 53 * (X * S) := by grind
    have e3 : X * (2 ^ 53 * s + s) = (2 ^ 53 + 1) * (X * s) := by grind
    have e4 : (M * A + A) * s = (M + 1) * s * A := by grind
    rw [e2, e3] at v2
    rw [e4] at v1
    have key : 2 ^ 170 * A < (2 ^ 53 + 1) * (2 ^ 53 + 1) * ((M + 1) * s) * A := by
      have e1 : (2 ^ 53 + 1) * (2 ^ 53 + 1) * ((M + 1) * s) * A
          = (2 ^ 53 + 1) * (2 ^ 53 + 1) * ((M + 1) * s * A) := by grind
      rw [e1]
      omega
    have := Nat.lt_of_mul_lt_mul_right key
    omega

end Scaled
