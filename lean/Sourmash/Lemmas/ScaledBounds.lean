import Sourmash.Lemmas.ScaledVal
/-! Lemmas/ScaledBounds.lean — `max_hash_for_scaled` / `scaled_for_max_hash` as one correctly rounded
division of 2^64 by the (rounded) argument, and the error bound of the truncated quotient. -/
set_option linter.unusedVariables false
namespace Scaled

theorem sat_mono {v w : Nat} (h : v ≤ w) : sat v ≤ sat w := by
  unfold sat; split <;> split <;> omega

theorem sat_le (v : Nat) : sat v ≤ 2 ^ 64 - 1 := by
  unfold sat; split <;> omega

theorem sat_of_lt {v : Nat} (h : v < 2 ^ 64) : sat v = v := by
  unfold sat; split <;> omega

theorem div_le_div_cross (x1 y1 x2 y2 : Nat) (hy1 : 0 < y1) (hy2 : 0 < y2)
    (h : x1 * y2 ≤ x2 * y1) : x1 / y1 ≤ x2 / y2 := by
  rw [Nat.le_div_iff_mul_le hy2]
  apply Nat.le_of_mul_le_mul_right _ hy1
  have := Nat.mul_le_mul_right y2 (Nat.div_mul_le_self x1 y1)
  calc x1 / y1 * y2 * y1 = x1 / y1 * y1 * y2 := by grind
    _ ≤ x1 * y2 := this
    _ ≤ _ := h

theorem maxHash_eq (s : Nat) (hs : 2 ≤ s) :
    maxHashForScaled s = sat (num (rnDiv (2 ^ 64) (rnNat s)) / den (rnDiv (2 ^ 64) (rnNat s))) := by
  have h : maxHashForScaled s = toNatTrunc (fdiv (ofNat u64max) (ofNat s)) := by
    match s, hs with
    | n + 2, _ => rfl
  rw [h, fdiv_ofNat _ _ (by decide) (by omega), rnNat_u64max, toNatTrunc_eq]

theorem scaled_eq (m : Nat) (hm : 1 ≤ m) :
    scaledForMaxHash m = sat ((2 * num (rnDiv (2 ^ 64) (rnNat m)) + den (rnDiv (2 ^ 64) (rnNat m)))
      / (2 * den (rnDiv (2 ^ 64) (rnNat m)))) := by
  have h : scaledForMaxHash m = toNatRound (fdiv (ofNat u64max) (ofNat m)) := by
    match m, hm with
    | n + 1, _ => rfl
  rw [h, fdiv_ofNat _ _ (by decide) (by omega), rnNat_u64max, toNatRound_eq]

/-- `M = ⌊X/A⌋` where `X/A ≈ 2^64/S` and `S ≈ s` (both to relative error 2^-53):
    then `M·s ≤ 2^64 + 2^12` and `(M+1)·s > 2^64 − 2^12`. -/
theorem floor_bounds (X A S s : Nat) (hA : 0 < A) (hs : 0 < s)
    (h1 : Approx X A (2 ^ 64) S) (h2 : Approx S 1 s 1) :
    X / A * s ≤ 2 ^ 64 + 2 ^ 12 ∧ 2 ^ 64 + 1 ≤ (X / A + 1) * s + 2 ^ 12 := by
  have t1 : X / A * A ≤ X := Nat.div_mul_le_self X A
  have t1' : X < X / A * A + A := Nat.lt_div_mul_add hA
  generalize X / A = M at *
  have a1 := h2.dn_x; have a2 := h2.up_n
  have b1 := h1.up_n; have b2 := h1.dn_x
  simp only [Nat.mul_one] at a1 a2
  constructor
  · have u1 := Nat.mul_le_mul_right s t1
    have u2 := Nat.mul_le_mul_left X a1
    have e2 : X * (2 ^ 53 * s) = 2 ^ 53 * (X * s) := by grind
    have e3 : X * (2 ^ 53 * S + S) = (2 ^ 53 + 1) * (X * S) := by grind
    rw [e2, e3] at u2
    have key : M * s * 2 ^ 106 * A ≤ 2 ^ 64 * (2 ^ 53 + 1) * (2 ^ 53 + 1) * A := by
      have e1 : M * s * 2 ^ 106 * A = 2 ^ 106 * (M * A * s) := by grind
      rw [e1]
      omega
    have := Nat.le_of_mul_le_mul_right key hA
    omega
  · have v1 := Nat.mul_lt_mul_of_pos_right t1' hs
    have v2 := Nat.mul_le_mul_left X a2
    have e2 : X * (2 ^ 53 * S) = 2 ^ 53 * (X * S) := by grind
    have e3 : X * (2 ^ 53 * s + s) = (2 ^ 53 + 1) * (X * s) := by grind
    have e4 : (M * A + A) * s = (M + 1) * s * A := by grind
    rw [e2, e3] at v2
    rw [e4] at v1
    have key : 2 ^ 170 * A < (2 ^ 53 + 1) * (2 ^ 53 + 1) * ((M + 1) * s) * A := by
      have e1 : (2 ^ 53 + 1) * (2 ^ 53 + 1) * ((M + 1) * s) * A
          = (2 ^ 53 + 1) * (2 ^ 53 + 1) * ((M + 1) * s * A) := by grind
      rw [e1]
      omega
    have := Nat.lt_of_mul_lt_mul_right key
    omega

theorem maxHash_le (t : Nat) : maxHashForScaled t ≤ 2 ^ 64 - 1 := by
  match t with
  | 0 => decide
  | 1 => decide
  | n + 2 => rw [maxHash_eq (n + 2) (by omega)]; exact sat_le _

theorem maxHash_antitone_ge2 (s t : Nat) (hs : 2 ≤ s) (hst : s ≤ t) :
    maxHashForScaled t ≤ maxHashForScaled s := by
  rw [maxHash_eq s hs, maxHash_eq t (by omega)]
  apply sat_mono
  have hm := rnNat_mono s t (by omega) hst
  have ps := rnNat_pos s (by omega)
  have pt := rnNat_pos t (by omega)
  have p64 : 0 < 2 ^ 64 := Nat.pow_pos (by decide)
  apply div_le_div_cross _ _ _ _ (den_pos _) (den_pos _)
  exact rnDiv_mono (2 ^ 64) (rnNat t) (2 ^ 64) (rnNat s) p64 pt p64 ps (Nat.mul_le_mul_left _ hm)

/-- the truncated quotient does not saturate and is within the stated distance of 2^64/s -/
theorem maxHash_bounds (s : Nat) (hs : 2 ≤ s) :
    maxHashForScaled s * s ≤ 2 ^ 64 + 2 ^ 12 ∧ 2 ^ 64 + 1 ≤ (maxHashForScaled s + 1) * s + 2 ^ 12 := by
  have p64 : 0 < 2 ^ 64 := Nat.pow_pos (by decide)
  have ps := rnNat_pos s (by omega)
  have h1 := rnDiv_approx (2 ^ 64) (rnNat s) p64 ps
  have h2 := rnNat_approx s (by omega)
  have hA := den_pos (rnDiv (2 ^ 64) (rnNat s))
  have ⟨k1, k2⟩ := floor_bounds _ _ _ s hA (by omega) h1 h2
  rw [maxHash_eq s hs]
  generalize num (rnDiv (2 ^ 64) (rnNat s)) / den (rnDiv (2 ^ 64) (rnNat s)) = M at *
  have hlt : M < 2 ^ 64 := by
    have := Nat.mul_le_mul_left M hs
    omega
  rw [sat_of_lt hlt]
  exact ⟨k1, k2⟩

theorem round_bounds (X2 A2 M s : Nat) (hA : 0 < A2) (hs2 : 2 ≤ s) (hs : s ≤ 2 ^ 31)
    (h : Approx X2 A2 (2 ^ 64) M) (k1 : M * s ≤ 2 ^ 64 + 2 ^ 12)
    (k2 : 2 ^ 64 + 1 ≤ (M + 1) * s + 2 ^ 12) : (2 * X2 + A2) / (2 * A2) = s := by
  have c1 : (M + 1) * s ≤ (M + 1) * 2 ^ 31 := Nat.mul_le_mul_left _ hs
  have c2 : (M + 1) * s = M * s + s := by grind
  have hM : 2 ^ 33 - 2 ≤ M := by omega
  have hMpos : 0 < M * 2 ^ 53 := by omega
  have hKlo : 2 ^ 64 - 2 ^ 12 - 2 ^ 31 ≤ M * s := by omega
  have q1 := Nat.mul_le_mul_right A2 hKlo
  have q2 := Nat.mul_le_mul_right A2 k1
  have q3 := Nat.mul_le_mul_right A2 hM
  have b1 := h.up_n
  have b2 := h.dn_n
  have h2A : 0 < 2 * A2 := by omega
  apply Nat.le_antisymm
  · apply Nat.le_of_lt_succ
    rw [Nat.div_lt_iff_lt_mul h2A]
    apply Nat.lt_of_mul_lt_mul_right (a := M * 2 ^ 53)
    have e1 : (2 * X2 + A2) * (M * 2 ^ 53) = 2 ^ 53 * (2 * (X2 * M) + M * A2) := by grind
    have e2 : (s + 1) * (2 * A2) * (M * 2 ^ 53) = 2 ^ 53 * (2 * (M * s * A2) + 2 * (M * A2)) := by grind
    rw [e1, e2]
    omega
  · rw [Nat.le_div_iff_mul_le h2A]
    apply Nat.le_of_mul_le_mul_right _ hMpos
    have e1 : (2 * X2 + A2) * (M * 2 ^ 53) = 2 ^ 53 * (2 * (X2 * M) + M * A2) := by grind
    have e2 : s * (2 * A2) * (M * 2 ^ 53) = 2 ^ 53 * (2 * (M * s * A2)) := by grind
    rw [e1, e2]
    omega

/-- `⌊m·2^b / 2^a⌋` with `m ≤ 2^53` and `a = 0 ∨ b = 0` has at most 53 significant bits -/
theorem rnNat_floor (n d : Nat) (hn : 0 < n) (hd : 0 < d)
    (hpos : 0 < num (rnDiv n d) / den (rnDiv n d)) :
    rnNat (num (rnDiv n d) / den (rnDiv n d)) = num (rnDiv n d) / den (rnDiv n d) := by
  obtain ⟨m, a, b, hab, h, x, y⟩ := rnDiv_nd n d hn hd
  rw [x, y] at hpos ⊢
  have hm := h.m_le hd
  rcases hab with rfl | rfl
  · simp only [Nat.pow_zero, Nat.div_one] at hpos ⊢
    exact rnNat_exact m b (by have := h.m_ge hd; omega) hm
  · simp only [Nat.pow_zero, Nat.mul_one] at hpos ⊢
    apply rnNat_small _ hpos
    exact Nat.le_trans (Nat.div_le_self _ _) hm

theorem roundtrip_ge2 (s : Nat) (hs2 : 2 ≤ s) (hs : s ≤ 2 ^ 31) :
    scaledForMaxHash (maxHashForScaled s) = s := by
  have ⟨k1, k2⟩ := maxHash_bounds s hs2
  have c1 : (maxHashForScaled s + 1) * s ≤ (maxHashForScaled s + 1) * 2 ^ 31 := Nat.mul_le_mul_left _ hs
  have hMpos : 1 ≤ maxHashForScaled s := by omega
  have p64 : 0 < 2 ^ 64 := Nat.pow_pos (by decide)
  -- the ceiling converts back to binary64 exactly
  have hex : rnNat (maxHashForScaled s) = maxHashForScaled s := by
    have hsm : rnNat s = s := rnNat_small s (by omega) (by omega)
    have hM := maxHash_eq s hs2
    rw [hsm] at hM
    have hlt : num (rnDiv (2 ^ 64) s) / den (rnDiv (2 ^ 64) s) < 2 ^ 64 := by
      rcases Nat.lt_or_ge (num (rnDiv (2 ^ 64) s) / den (rnDiv (2 ^ 64) s)) (2 ^ 64) with h | h
      · exact h
      · exfalso
        have : sat (num (rnDiv (2 ^ 64) s) / den (rnDiv (2 ^ 64) s)) = 2 ^ 64 - 1 := by
          unfold sat; simp [h]
        rw [this] at hM
        rw [hM] at k1
        omega
    rw [sat_of_lt hlt] at hM
    rw [hM]
    exact rnNat_floor (2 ^ 64) s p64 (by omega) (by rw [← hM]; exact hMpos)
  rw [scaled_eq _ hMpos, hex]
  have happ := rnDiv_approx (2 ^ 64) (maxHashForScaled s) p64 hMpos
  rw [round_bounds _ _ _ s (den_pos _) hs2 hs happ k1 k2]
  exact sat_of_lt (by omega)

end Scaled
