import Sourmash.Model.Scaled
import Sourmash.Lemmas.Binary64
/-! Lemmas/RnDiv.lean — specification-level characterisation of `Scaled.rnDiv` (core Lean only).

`rnDiv n d = (rnStep (n·2^a) (d·2^b), b − a)` for *every* pair `a b` that puts the scaled quotient
into the binade `[2^52, 2^53)`; such a pair always exists (from the `Nat.log2` bounds). -/
set_option linter.unusedVariables false
namespace Scaled

def expOf (n d : Nat) : Int :=
  let e0 : Int := (Nat.log2 n : Int) - (Nat.log2 d : Int)
  let ge : Bool := if e0 ≥ 0 then n ≥ d * 2 ^ e0.toNat else n * 2 ^ (-e0).toNat ≥ d
  if ge then e0 else e0 - 1

/-- ln ≥ ld: X = 2^ld ≤ d < 2X, XY ≤ n < 2XY with Y = 2^(ln-ld) -/
theorem expOf_aux1 (n d X Y : Nat) (hY : 0 < Y) (hd1 : X ≤ d) (hd2 : d < 2 * X)
    (hn1 : X * Y ≤ n) (hn2 : n < 2 * (X * Y)) :
    (d * Y ≤ n → n < d * (Y * 2)) ∧ (¬ d * Y ≤ n → d * Y ≤ n * 2 ∧ n * 2 < d * (Y * 2)) := by
  have m1 : X * Y ≤ d * Y := Nat.mul_le_mul_right Y hd1
  have m2 : d * Y < 2 * X * Y := Nat.mul_lt_mul_of_pos_right hd2 hY
  have e1 : d * (Y * 2) = 2 * (d * Y) := by rw [← Nat.mul_assoc, Nat.mul_comm]
  have e2 : 2 * X * Y = 2 * (X * Y) := Nat.mul_assoc _ _ _
  rw [e1]; omega

/-- ln < ld: X = 2^ln ≤ n < 2X, XY ≤ d < 2XY with Y = 2^(ld-ln) -/
theorem expOf_aux2 (n d X Y : Nat) (hY : 0 < Y) (hn1 : X ≤ n) (hn2 : n < 2 * X)
    (hd1 : X * Y ≤ d) (hd2 : d < 2 * (X * Y)) :
    (d ≤ n * Y → n * Y < d * 2) ∧ (¬ d ≤ n * Y → d ≤ n * (Y * 2) ∧ n * (Y * 2) < d * 2) := by
  have m1 : X * Y ≤ n * Y := Nat.mul_le_mul_right Y hn1
  have m2 : n * Y < 2 * X * Y := Nat.mul_lt_mul_of_pos_right hn2 hY
  have e1 : n * (Y * 2) = 2 * (n * Y) := by rw [← Nat.mul_assoc, Nat.mul_comm]
  have e2 : 2 * X * Y = 2 * (X * Y) := Nat.mul_assoc _ _ _
  rw [e1]; omega

theorem expOf_spec (n d : Nat) (hn : 0 < n) (hd : 0 < d) :
    ∃ p q : Nat, expOf n d = (p : Int) - q ∧ d * 2 ^ p ≤ n * 2 ^ q ∧ n * 2 ^ q < d * 2 ^ (p + 1) := by
  have hn1 : 2 ^ n.log2 ≤ n := Nat.log2_self_le (Nat.pos_iff_ne_zero.mp hn)
  have hn2 : n < 2 ^ (n.log2 + 1) := Nat.lt_log2_self
  have hd1 : 2 ^ d.log2 ≤ d := Nat.log2_self_le (Nat.pos_iff_ne_zero.mp hd)
  have hd2 : d < 2 ^ (d.log2 + 1) := Nat.lt_log2_self
  unfold expOf
  generalize n.log2 = ln at *
  generalize d.log2 = ld at *
  rw [Nat.pow_succ, Nat.mul_comm] at hn2 hd2
  by_cases h : ld ≤ ln
  · obtain ⟨k, rfl⟩ := Nat.exists_eq_add_of_le h
    have he0 : ((ld + k : Nat) : Int) - (ld : Int) = (k : Int) := by omega
    simp only [he0, Int.toNat_natCast, ge_iff_le, Int.natCast_nonneg, if_true, decide_eq_true_eq]
    rw [Nat.pow_add] at hn1 hn2
    have ⟨a1, a2⟩ := expOf_aux1 n d (2 ^ ld) (2 ^ k) (Nat.pow_pos (by decide)) hd1 hd2 hn1 hn2
    by_cases hge : d * 2 ^ k ≤ n
    · refine ⟨k, 0, ?_, ?_, ?_⟩
      · simp [hge]
      · simpa using hge
      · simpa [Nat.pow_succ] using a1 hge
    · have ⟨b1, b2⟩ := a2 hge
      refine ⟨k, 1, ?_, ?_, ?_⟩
      · simp [hge]
      · simpa using b1
      · simpa [Nat.pow_succ] using b2
  · have h' : ln ≤ ld := by omega
    obtain ⟨k, rfl⟩ := Nat.exists_eq_add_of_le h'
    have hk : 0 < k := by omega
    have he0 : ((ln : Nat) : Int) - ((ln + k : Nat) : Int) = -(k : Int) := by omega
    have hneg : ¬ (0 : Int) ≤ -(k : Int) := by omega
    simp only [he0, ge_iff_le, hneg, if_false, Int.neg_neg, Int.toNat_natCast, decide_eq_true_eq]
    rw [Nat.pow_add] at hd1 hd2
    have ⟨a1, a2⟩ := expOf_aux2 n d (2 ^ ln) (2 ^ k) (Nat.pow_pos (by decide)) hn1 hn2 hd1 hd2
    by_cases hge : d ≤ n * 2 ^ k
    · refine ⟨0, k, ?_, ?_, ?_⟩
      · simp [hge]
      · simpa using hge
      · simpa using a1 hge
    · have ⟨b1, b2⟩ := a2 hge
      refine ⟨0, k + 1, ?_, ?_, ?_⟩
      · simp [hge]; omega
      · simpa [Nat.pow_succ] using b1
      · simpa [Nat.pow_succ] using b2

theorem rnDiv_eq_expOf (n d : Nat) :
    rnDiv n d = (rnStep (n * 2 ^ (52 - expOf n d).toNat) (d * 2 ^ (expOf n d - 52).toNat),
                 expOf n d - 52) := by
  have hdef : rnDiv n d =
      (rnStep (if 52 - expOf n d ≥ 0 then n * 2 ^ (52 - expOf n d).toNat else n)
              (if 52 - expOf n d ≥ 0 then d else d * 2 ^ (-(52 - expOf n d)).toNat),
       -(52 - expOf n d)) := rfl
  rw [hdef]
  generalize expOf n d = e
  by_cases h : 52 - e ≥ 0
  · have h0 : (e - 52).toNat = 0 := by omega
    simp only [h, if_true, h0, Nat.pow_zero, Nat.mul_one]
    congr 1; omega
  · have h0 : (52 - e).toNat = 0 := by omega
    have h1 : (-(52 - e)).toNat = (e - 52).toNat := by congr 1; omega
    simp only [h, if_false, h0, h1, Nat.pow_zero, Nat.mul_one]
    congr 1; omega

/-- `n·2^a / (d·2^b)` lies in the binade `[2^52, 2^53)` -/
def Bnd (n d a b : Nat) : Prop :=
  2 ^ 52 * (d * 2 ^ b) ≤ n * 2 ^ a ∧ n * 2 ^ a < 2 ^ 53 * (d * 2 ^ b)

theorem Bnd_shift (n d a b t : Nat) : Bnd n d (a + t) (b + t) ↔ Bnd n d a b := by
  unfold Bnd
  have e1 : 2 ^ 52 * (d * 2 ^ (b + t)) = 2 ^ 52 * (d * 2 ^ b) * 2 ^ t := by grind
  have e2 : n * 2 ^ (a + t) = n * 2 ^ a * 2 ^ t := by grind
  have e3 : 2 ^ 53 * (d * 2 ^ (b + t)) = 2 ^ 53 * (d * 2 ^ b) * 2 ^ t := by grind
  have ht : 0 < 2 ^ t := Nat.pow_pos (by decide)
  rw [e1, e2, e3, Nat.mul_le_mul_right_iff ht, Nat.mul_lt_mul_right ht]

theorem Bnd_scale (c n d a b : Nat) (hc : 0 < c) : Bnd (c * n) (c * d) a b ↔ Bnd n d a b := by
  unfold Bnd
  have e1 : 2 ^ 52 * (c * d * 2 ^ b) = c * (2 ^ 52 * (d * 2 ^ b)) := by grind
  have e2 : c * n * 2 ^ a = c * (n * 2 ^ a) := by grind
  have e3 : 2 ^ 53 * (c * d * 2 ^ b) = c * (2 ^ 53 * (d * 2 ^ b)) := by grind
  rw [e1, e2, e3, Nat.mul_le_mul_left_iff hc, Nat.mul_lt_mul_left hc]

theorem Bnd_exp_le (n d a b a' b' : Nat) (hd : 0 < d) (h : Bnd n d a b) (h' : Bnd n d a' b') :
    b + a' ≤ b' + a := by
  rcases Nat.lt_or_ge (b' + a) (b + a') with hlt | hge
  · exfalso
    have hp : 2 ^ (b' + a + 1) ≤ 2 ^ (b + a') := Nat.pow_le_pow_right (by decide) hlt
    have h1 := Nat.mul_le_mul_right (2 ^ a') h.1
    have h2 := Nat.mul_lt_mul_of_pos_right h'.2 (Nat.pow_pos (n := a) (by decide : 0 < 2))
    have h3 := Nat.mul_le_mul_left (2 ^ 52 * d) hp
    have e1 : 2 ^ 52 * (d * 2 ^ b) * 2 ^ a' = 2 ^ 52 * d * 2 ^ (b + a') := by grind
    have e2 : 2 ^ 53 * (d * 2 ^ b') * 2 ^ a = 2 ^ 52 * d * 2 ^ (b' + a + 1) := by grind
    have e3 : n * 2 ^ a * 2 ^ a' = n * 2 ^ a' * 2 ^ a := by grind
    rw [e1, e3] at h1; rw [e2] at h2
    omega
  · exact hge

theorem Bnd_exp_eq (n d a b a' b' : Nat) (hd : 0 < d) (h : Bnd n d a b) (h' : Bnd n d a' b') :
    b + a' = b' + a :=
  Nat.le_antisymm (Bnd_exp_le n d a b a' b' hd h h') (by have := Bnd_exp_le n d a' b' a b hd h' h; omega)

/-- `m` is the correctly rounded 53-bit mantissa of `n/d` at scaling `2^a / 2^b` -/
structure RN (n d m a b : Nat) : Prop where
  bnd : Bnd n d a b
  m_eq : m = rnStep (n * 2 ^ a) (d * 2 ^ b)

theorem expOf_Bnd (n d : Nat) (hn : 0 < n) (hd : 0 < d) :
    ∃ p q : Nat, expOf n d = (p : Int) - q ∧ Bnd n d (q + 52) p := by
  obtain ⟨p, q, he, h1, h2⟩ := expOf_spec n d hn hd
  refine ⟨p, q, he, ?_, ?_⟩
  · have := Nat.mul_le_mul_left (2 ^ 52) h1
    have e1 : n * 2 ^ (q + 52) = 2 ^ 52 * (n * 2 ^ q) := by grind
    rw [e1]; exact this
  · have := Nat.mul_lt_mul_of_pos_left h2 (Nat.pow_pos (n := 52) (by decide : 0 < 2))
    have e1 : n * 2 ^ (q + 52) = 2 ^ 52 * (n * 2 ^ q) := by grind
    have e2 : 2 ^ 53 * (d * 2 ^ p) = 2 ^ 52 * (d * 2 ^ (p + 1)) := by grind
    rw [e1, e2]; exact this

/-- any scaling that lands in the binade gives the result of `rnDiv` -/
theorem rnDiv_eq (n d m a b : Nat) (hn : 0 < n) (hd : 0 < d) (h : RN n d m a b) :
    rnDiv n d = (m, (b : Int) - a) := by
  obtain ⟨p, q, he, hB⟩ := expOf_Bnd n d hn hd
  have hx := Bnd_exp_eq n d a b (q + 52) p hd h.bnd hB
  have he' : expOf n d = (b : Int) - a + 52 := by omega
  rw [rnDiv_eq_expOf, he']
  have ha0 : (52 - ((b : Int) - a + 52)).toNat = a - b := by omega
  have hb0 : ((b : Int) - a + 52 - 52).toNat = b - a := by omega
  rw [ha0, hb0]
  refine Prod.ext ?_ (by simp)
  show rnStep (n * 2 ^ (a - b)) (d * 2 ^ (b - a)) = m
  rw [h.m_eq]
  have e1 : n * 2 ^ a = 2 ^ (min a b) * (n * 2 ^ (a - b)) := by
    have : a = min a b + (a - b) := by omega
    conv => lhs; rw [this, Nat.pow_add]
    grind
  have e2 : d * 2 ^ b = 2 ^ (min a b) * (d * 2 ^ (b - a)) := by
    have : b = min a b + (b - a) := by omega
    conv => lhs; rw [this, Nat.pow_add]
    grind
  rw [e1, e2, rnStep_scale _ _ _ (Nat.pow_pos (by decide))]

theorem rnDiv_spec (n d : Nat) (hn : 0 < n) (hd : 0 < d) :
    ∃ m a b : Nat, (a = 0 ∨ b = 0) ∧ RN n d m a b ∧ rnDiv n d = (m, (b : Int) - a) := by
  obtain ⟨p, q, he, hB⟩ := expOf_Bnd n d hn hd
  have hB' : Bnd n d (q + 52 - min (q + 52) p) (p - min (q + 52) p) := by
    rw [← Bnd_shift n d _ _ (min (q + 52) p)]
    have e1 : q + 52 - min (q + 52) p + min (q + 52) p = q + 52 := by omega
    have e2 : p - min (q + 52) p + min (q + 52) p = p := by omega
    rw [e1, e2]; exact hB
  refine ⟨_, q + 52 - min (q + 52) p, p - min (q + 52) p, by omega, ⟨hB', rfl⟩, ?_⟩
  exact rnDiv_eq n d _ _ _ hn hd ⟨hB', rfl⟩

theorem rnDiv_scale (c n d : Nat) (hc : 0 < c) (hn : 0 < n) (hd : 0 < d) :
    rnDiv (c * n) (c * d) = rnDiv n d := by
  obtain ⟨m, a, b, _, h, heq⟩ := rnDiv_spec n d hn hd
  rw [heq]
  apply rnDiv_eq _ _ _ _ _ (Nat.mul_pos hc hn) (Nat.mul_pos hc hd)
  refine ⟨(Bnd_scale c n d a b hc).mpr h.bnd, ?_⟩
  rw [h.m_eq, Nat.mul_assoc, Nat.mul_assoc, rnStep_scale _ _ _ hc]

theorem RN.m_ge {n d m a b : Nat} (hd : 0 < d) (h : RN n d m a b) : 2 ^ 52 ≤ m := by
  rw [h.m_eq]
  exact rnStep_ge _ _ _ (Nat.mul_pos hd (Nat.pow_pos (by decide))) h.bnd.1

theorem RN.m_le {n d m a b : Nat} (hd : 0 < d) (h : RN n d m a b) : m ≤ 2 ^ 53 := by
  rw [h.m_eq]
  exact rnStep_le _ _ _ (Nat.mul_pos hd (Nat.pow_pos (by decide))) (Nat.le_of_lt h.bnd.2)

end Scaled
