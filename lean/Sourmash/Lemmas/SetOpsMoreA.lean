import Sourmash.Lemmas.SetOpsAdd
/-! Lemmas/SetOpsMoreA.lean — `remove_hash` / `remove_many` / `remove_from` compute the set
difference; the `merge_join_by` walk of `inflate` computes (shared hashes, abundances of the source). -/
namespace SetOps
open SetSpec

theorem filter_ne_of_not_mem {l : List Nat} {h : Nat} (hn : h ∉ l) : l.filter (· != h) = l := by
  rw [List.filter_eq_self]
  intro x hx
  have : x ≠ h := fun e => hn (e ▸ hx)
  simp [this]

theorem pos_found {l : List Nat} {h : Nat} (hs : SInc l) : l[pos l h]? = some h ↔ h ∈ l := by
  induction l with
  | nil => simp [pos]
  | cons y t ih =>
    rw [sinc_cons] at hs
    rw [pos_cons]
    by_cases hy : y < h
    · simp only [hy, if_true, List.getElem?_cons_succ, List.mem_cons]
      rw [ih hs.2]
      constructor
      · intro h1; exact Or.inr h1
      · rintro (h1 | h1)
        · omega
        · exact h1
    · simp only [hy, if_false, List.getElem?_cons_zero, Option.some.injEq, List.mem_cons]
      constructor
      · intro h1; exact Or.inl h1.symm
      · rintro (h1 | h1)
        · exact h1.symm
        · have := hs.1 h h1; omega

theorem eraseIdx_pos {l : List Nat} {h : Nat} (hs : SInc l) (hm : h ∈ l) :
    l.eraseIdx (pos l h) = l.filter (· != h) := by
  induction l with
  | nil => simp at hm
  | cons y t ih =>
    rw [sinc_cons] at hs
    rw [pos_cons]
    by_cases hy : y < h
    · have hne : y ≠ h := by omega
      have hm' : h ∈ t := by
        simp only [List.mem_cons] at hm
        rcases hm with e | e
        · omega
        · exact e
      simp only [hy, if_true, List.eraseIdx_cons_succ, List.filter_cons, bne_iff_ne, ne_eq, hne,
        not_false_eq_true, ih hs.2 hm']
    · have hyh : y = h := by
        simp only [List.mem_cons] at hm
        rcases hm with e | e
        · exact e.symm
        · have := hs.1 h e; omega
      subst hyh
      have hn : y ∉ t := fun e => by have := hs.1 y e; omega
      simp [filter_ne_of_not_mem hn]

theorem remove_mins {s : Sk} (hs : SInc s.mins) (h : Nat) :
    (s.remove h).mins = s.mins.filter (· != h) := by
  unfold Sk.remove
  by_cases hm : h ∈ s.mins
  · simp only [(pos_found hs).2 hm, if_true]; exact eraseIdx_pos hs hm
  · have : ¬ s.mins[pos s.mins h]? = some h := fun e => hm ((pos_found hs).1 e)
    simp only [this, if_false]; exact (filter_ne_of_not_mem hm).symm

theorem remove_wf {s : Sk} (hw : s.WF) (h : Nat) : (s.remove h).WF := by
  refine ⟨by rw [remove_mins hw.1]; exact sinc_filter _ hw.1, ?_⟩
  unfold Sk.remove
  by_cases hf : s.mins[pos s.mins h]? = some h
  · simp only [hf, if_true]
    intro ab hab
    simp only [Option.map_eq_some_iff] at hab
    obtain ⟨ab0, h0, rfl⟩ := hab
    have := hw.2 ab0 h0
    simp only [List.length_eraseIdx, this]
  · simp only [hf, if_false]; exact hw.2

theorem removeMany_mins (hs : List Nat) {s : Sk} (hw : s.WF) :
    (s.removeMany hs).mins = diff s.mins hs ∧ (s.removeMany hs).WF := by
  induction hs generalizing s with
  | nil =>
    refine ⟨?_, hw⟩
    simp only [Sk.removeMany, List.foldl_nil, diff]
    exact (List.filter_eq_self.2 (by intro x _; simp)).symm
  | cons h rest ih =>
    have hstep : s.removeMany (h :: rest) = (s.remove h).removeMany rest := by simp [Sk.removeMany]
    rw [hstep]
    obtain ⟨i1, i2⟩ := ih (remove_wf hw h)
    refine ⟨?_, i2⟩
    rw [i1, remove_mins hw.1]
    simp only [diff, List.filter_filter]
    apply List.filter_congr
    intro z _
    by_cases e : z = h <;> simp [e]

/-! inflate -/

theorem inflateWalk_nil_right (a : List Nat) : inflateWalk a [] = [] := by
  cases a <;> simp [inflateWalk]

theorem inflateWalk_keys (a : List Nat) (q : List (Nat × Nat)) :
    (inflateWalk a q).map Prod.fst = interIter a (q.map Prod.fst) := by
  fun_induction inflateWalk a q <;> grind [interIter]

theorem inflateWalk_snd {a : List Nat} {q : List (Nat × Nat)} (ha : SInc a) (hq : SInc (q.map Prod.fst)) :
    (inflateWalk a q).map Prod.snd = (interIter a (q.map Prod.fst)).map (look q) := by
  fun_induction inflateWalk a q with
  | case1 o => simp [interIter]
  | case2 x s => simp [interIter]
  | case3 x s y b o hlt ih =>
    rw [sinc_cons] at ha
    simp only [List.map_cons, interIter, hlt, if_true] at ih ⊢
    exact ih ha.2 hq
  | case4 x s y b o hnlt hlt ih =>
    simp only [List.map_cons] at hq
    rw [sinc_cons] at hq
    simp only [List.map_cons, interIter, hnlt, hlt, if_true, if_false]
    rw [ih ha hq.2]
    apply List.map_congr_left
    intro z hz
    have hz' := (mem_interIter ha hq.2 z).1 hz
    have hxz : x ≤ z := by
      rcases List.mem_cons.1 hz'.1 with e | e
      · omega
      · have := (sinc_cons.1 ha).1 z e; omega
    simp only [look]
    rw [if_neg (by omega)]
  | case5 x s y b o hnlt hnlt2 ih =>
    have hxy : x = y := by omega
    subst hxy
    simp only [List.map_cons] at hq
    rw [sinc_cons] at hq ha
    simp only [List.map_cons, interIter, hnlt, if_false, look, if_true]
    congr 1
    rw [ih ha.2 hq.2]
    apply List.map_congr_left
    intro z hz
    have hz' := (mem_interIter ha.2 hq.2 z).1 hz
    have := ha.1 z hz'.1
    rw [if_neg (by omega)]
end SetOps
