import Sourmash.Model.HLL
import Sourmash.Spec.HLL
/-!
Lemmas/HLL.lean — helper lemmas for C17 (registers, merge, file format).  Core Lean only.
-/
deriving instance DecidableEq for Except

namespace Hll

theorem H.ext' {a b : H} (h1 : a.p = b.p) (h2 : a.q = b.q) (h3 : a.ksize = b.ksize)
    (h4 : a.regs = b.regs) : a = b := by
  cases a; cases b; simp_all

/-! ### `cmp::max` on u8 -/
theorem umax_toNat (a b : UInt8) : (umax a b).toNat = max a.toNat b.toNat := by
  unfold umax
  split
  · rename_i h; rw [UInt8.le_iff_toNat_le] at h; omega
  · rename_i h; rw [UInt8.le_iff_toNat_le] at h; omega

theorem umax_comm (a b : UInt8) : umax a b = umax b a := by
  apply UInt8.toNat_inj.1; simp only [umax_toNat]; omega
theorem umax_assoc (a b c : UInt8) : umax (umax a b) c = umax a (umax b c) := by
  apply UInt8.toNat_inj.1; simp only [umax_toNat]; omega
theorem umax_self (a : UInt8) : umax a a = a := by
  apply UInt8.toNat_inj.1; simp only [umax_toNat]; omega

theorem umax_zero_left (a : UInt8) : umax 0 a = a := by
  apply UInt8.toNat_inj.1; simp only [umax_toNat]; simp

/-! ### index and rank -/

/-- `hash - ((hash >> p) << p)` is the low `p` bits -/
theorem index_eq_mod (p h : Nat) : index p h = h % 2 ^ p := by
  unfold index
  rw [Nat.shiftRight_eq_div_pow, Nat.shiftLeft_eq]
  have := Nat.div_add_mod h (2^p)
  rw [Nat.mul_comm] at this
  omega

theorem log2_div_pow (p h : Nat) (hp : 2 ^ p ≤ h) : (h / 2 ^ p).log2 = h.log2 - p := by
  have h0 : h ≠ 0 := by have := Nat.two_pow_pos p; omega
  have hv : h / 2 ^ p ≠ 0 := by
    have := (Nat.le_div_iff_mul_le (Nat.two_pow_pos p)).2 (by omega : 1 * 2 ^ p ≤ h); omega
  have hM : p ≤ h.log2 := by
    apply Nat.le_of_not_lt; intro hlt
    have := (Nat.log2_lt h0).1 hlt; omega
  rw [Nat.log2_eq_iff hv]
  have h1 := Nat.log2_self_le h0
  have h2 := @Nat.lt_log2_self h
  constructor
  · rw [Nat.le_div_iff_mul_le (Nat.two_pow_pos p), ← Nat.pow_add]
    have : h.log2 - p + p = h.log2 := by omega
    rw [this]; exact h1
  · rw [Nat.div_lt_iff_lt_mul (Nat.two_pow_pos p), ← Nat.pow_add]
    have : h.log2 - p + 1 + p = h.log2 + 1 := by omega
    rw [this]; exact h2

/-- low hashes: all upper bits zero -/
theorem rank_low (p h : Nat) (hlt : h < 2 ^ p) : rank p h = 64 + 1 - p := by
  unfold rank clz64
  rw [Nat.shiftRight_eq_div_pow, Nat.div_eq_of_lt hlt]; simp

theorem rank_high (p h : Nat) (hge : 2 ^ p ≤ h) (h64 : h < 2 ^ 64) : rank p h = 64 - h.log2 := by
  have h0 : h ≠ 0 := by have := Nat.two_pow_pos p; omega
  have hv : h / 2 ^ p ≠ 0 := by
    have := (Nat.le_div_iff_mul_le (Nat.two_pow_pos p)).2 (by omega : 1 * 2 ^ p ≤ h); omega
  have hM : p ≤ h.log2 := by
    apply Nat.le_of_not_lt; intro hlt
    have := (Nat.log2_lt h0).1 hlt; omega
  have hL : h.log2 < 64 := (Nat.log2_lt h0).2 h64
  unfold rank clz64
  rw [Nat.shiftRight_eq_div_pow, if_neg hv, log2_div_pow p h hge]
  omega

theorem rho_low (p h : Nat) (hlt : h < 2 ^ p) : HllSpec.rho p h = 64 - p + 1 := by
  unfold HllSpec.rho
  have : (List.range (64 - p)).find? (fun j => h.testBit (63 - j)) = none := by
    rw [List.find?_range_eq_none]
    intro i hi
    have : h < 2 ^ (63 - i) := Nat.lt_of_lt_of_le hlt (Nat.pow_le_pow_right (by omega) (by omega))
    simp [Nat.testBit_lt_two_pow this]
  rw [this]

theorem rho_high (p h : Nat) (hge : 2 ^ p ≤ h) (h64 : h < 2 ^ 64) : HllSpec.rho p h = 64 - h.log2 := by
  have h0 : h ≠ 0 := by have := Nat.two_pow_pos p; omega
  have hM : p ≤ h.log2 := by
    apply Nat.le_of_not_lt; intro hlt
    have := (Nat.log2_lt h0).1 hlt; omega
  have hL : h.log2 < 64 := (Nat.log2_lt h0).2 h64
  unfold HllSpec.rho
  have : (List.range (64 - p)).find? (fun j => h.testBit (63 - j)) = some (63 - h.log2) := by
    rw [List.find?_range_eq_some]
    refine ⟨?_, ?_, ?_⟩
    · have : 63 - (63 - h.log2) = h.log2 := by omega
      simp only [this]; exact Nat.testBit_log2 h0
    · simp; omega
    · intro j hj
      have : h < 2 ^ (63 - j) :=
        Nat.lt_of_lt_of_le (@Nat.lt_log2_self h) (Nat.pow_le_pow_right (by omega) (by omega))
      simp [Nat.testBit_lt_two_pow this]
  rw [this]; simp; omega

/-- the code's `clz + 1 - p` is the property's "position of the first set bit among the upper 64-p bits" -/
theorem rank_eq_rho (p h : Nat) (hp : p ≤ 64) (h64 : h < 2 ^ 64) : rank p h = HllSpec.rho p h := by
  by_cases hlt : h < 2 ^ p
  · rw [rank_low p h hlt, rho_low p h hlt]; omega
  · rw [rank_high p h (by omega) h64, rho_high p h (by omega) h64]

theorem rank_le (p h : Nat) (h64 : h < 2 ^ 64) : rank p h ≤ 64 - p + 1 := by
  by_cases hlt : h < 2 ^ p
  · rw [rank_low p h hlt]; omega
  · have hge : 2 ^ p ≤ h := by omega
    have h0 : h ≠ 0 := by have := Nat.two_pow_pos p; omega
    have hM : p ≤ h.log2 := by
      apply Nat.le_of_not_lt; intro hlt
      have := (Nat.log2_lt h0).1 hlt; omega
    rw [rank_high p h hge h64]; omega

theorem rank_pos (p h : Nat) (hp : p ≤ 64) (h64 : h < 2 ^ 64) : 1 ≤ rank p h := by
  by_cases hlt : h < 2 ^ p
  · rw [rank_low p h hlt]; omega
  · have hge : 2 ^ p ≤ h := by omega
    have h0 : h ≠ 0 := by have := Nat.two_pow_pos p; omega
    have hL : h.log2 < 64 := (Nat.log2_lt h0).2 h64
    rw [rank_high p h hge h64]; omega

/-! ### arrays -/

theorem get!_set! {α} [Inhabited α] (a : Array α) (i j : Nat) (v : α) :
    (a.set! i v)[j]! = if i = j ∧ i < a.size then v else a[j]! := by
  simp only [Array.set!_eq_setIfInBounds, Array.getElem!_eq_getD, Array.getD_eq_getD_getElem?,
    Array.getElem?_setIfInBounds]
  by_cases h : i = j
  · subst h
    by_cases h2 : i < a.size
    · simp [h2]
    · simp [h2]
  · simp [h]

theorem set!_set!_same {α} (a : Array α) (i : Nat) (v w : α) :
    (a.set! i v).set! i w = a.set! i w := by
  simp [Array.set!_eq_setIfInBounds]

theorem set!_comm {α} (a : Array α) (i j : Nat) (v w : α) (h : i ≠ j) :
    (a.set! i v).set! j w = (a.set! j w).set! i v := by
  simp only [Array.set!_eq_setIfInBounds]; exact Array.setIfInBounds_comm v w h

theorem set!_get!_self {α} [Inhabited α] (a : Array α) (i : Nat) : a.set! i a[i]! = a := by
  apply Array.ext_getElem?
  intro j
  simp only [Array.set!_eq_setIfInBounds, Array.getElem?_setIfInBounds]
  by_cases h : i = j
  · subst h
    by_cases h2 : i < a.size
    · simp [h2]
    · simp [h2]
  · simp [h]

theorem ext_get! {α} [Inhabited α] (a b : Array α) (hs : a.size = b.size)
    (h : ∀ i, i < a.size → a[i]! = b[i]!) : a = b := by
  apply Array.ext hs
  intro i h1 h2
  have := h i h1
  rwa [getElem!_pos a i h1, getElem!_pos b i h2] at this

/-! ### add_hash -/

theorem add_comm (s : H) (a b : Nat) : (s.add a).add b = (s.add b).add a := by
  unfold H.add
  simp only
  congr 1
  by_cases h : index s.p a = index s.p b
  · rw [h]
    simp only [get!_set!, set!_set!_same]
    by_cases h2 : index s.p b < s.regs.size
    · simp only [h2, and_self, if_true]
      rw [umax_assoc, umax_assoc, umax_comm (UInt8.ofNat _)]
    · simp only [h2, and_false, if_false]
      simp [Array.set!_eq_setIfInBounds, Array.setIfInBounds_eq_of_size_le (Nat.le_of_not_lt h2)]
  · simp only [get!_set!]
    rw [if_neg (by intro hh; exact h hh.1), if_neg (by intro hh; exact h hh.1.symm)]
    exact set!_comm _ _ _ _ _ h

theorem add_idem (s : H) (a : Nat) : (s.add a).add a = s.add a := by
  unfold H.add
  simp only
  congr 1
  simp only [get!_set!, set!_set!_same]
  by_cases h2 : index s.p a < s.regs.size
  · simp only [h2, and_self, if_true]
    rw [umax_assoc, umax_self]
  · simp only [h2, and_false, if_false]

@[simp] theorem add_p (s : H) (h : Nat) : (s.add h).p = s.p := rfl
@[simp] theorem add_q (s : H) (h : Nat) : (s.add h).q = s.q := rfl
@[simp] theorem add_ksize (s : H) (h : Nat) : (s.add h).ksize = s.ksize := rfl
@[simp] theorem add_size (s : H) (h : Nat) : (s.add h).regs.size = s.regs.size := by
  simp [H.add, Array.set!_eq_setIfInBounds]

@[simp] theorem addMany_nil (s : H) : s.addMany [] = s := rfl
@[simp] theorem addMany_cons (s : H) (h : Nat) (l : List Nat) :
    s.addMany (h :: l) = (s.add h).addMany l := rfl
theorem addMany_append (s : H) (l₁ l₂ : List Nat) :
    s.addMany (l₁ ++ l₂) = (s.addMany l₁).addMany l₂ := by
  simp [H.addMany, List.foldl_append]

@[simp] theorem addMany_p (s : H) (l : List Nat) : (s.addMany l).p = s.p := by
  induction l generalizing s with
  | nil => rfl
  | cons h t ih => simp [ih]
@[simp] theorem addMany_q (s : H) (l : List Nat) : (s.addMany l).q = s.q := by
  induction l generalizing s with
  | nil => rfl
  | cons h t ih => simp [ih]
@[simp] theorem addMany_ksize (s : H) (l : List Nat) : (s.addMany l).ksize = s.ksize := by
  induction l generalizing s with
  | nil => rfl
  | cons h t ih => simp [ih]
@[simp] theorem addMany_size (s : H) (l : List Nat) : (s.addMany l).regs.size = s.regs.size := by
  induction l generalizing s with
  | nil => rfl
  | cons h t ih => simp [ih]

/-- insertion order does not matter -/
theorem addMany_perm (s : H) {l₁ l₂ : List Nat} (h : l₁.Perm l₂) : s.addMany l₁ = s.addMany l₂ := by
  induction h generalizing s with
  | nil => rfl
  | cons x _ ih => simp only [addMany_cons]; exact ih (s.add x)
  | swap x y l => simp only [addMany_cons]; rw [add_comm]
  | trans _ _ ih1 ih2 => exact (ih1 s).trans (ih2 s)

theorem addMany_add (s : H) (a : Nat) (l : List Nat) :
    (s.addMany l).add a = (s.add a).addMany l := by
  induction l generalizing s with
  | nil => rfl
  | cons h t ih => simp only [addMany_cons]; rw [ih, add_comm]

/-- inserting a hash that was inserted before changes nothing -/
theorem addMany_add_mem (s : H) (a : Nat) (l : List Nat) (h : a ∈ l) :
    (s.addMany l).add a = s.addMany l := by
  have hp := List.perm_cons_erase h
  rw [addMany_perm s hp, addMany_cons, addMany_add, add_idem]

/-- value of one register after `add_hash` -/
theorem add_get (s : H) (h i : Nat) (hi : i < s.regs.size) :
    (s.add h).regs[i]! =
      if index s.p h = i then umax s.regs[i]! (UInt8.ofNat (rank s.p h)) else s.regs[i]! := by
  unfold H.add
  simp only [get!_set!]
  by_cases hh : index s.p h = i
  · subst hh; simp [hi]
  · simp [hh]

/-- register `i` after a run of insertions: a left fold of `max` over the hashes routed to `i` -/
theorem addMany_get (s : H) (l : List Nat) (i : Nat) (hi : i < s.regs.size) :
    (s.addMany l).regs[i]! =
      (l.filter (fun h => index s.p h == i)).foldl
        (fun acc h => umax acc (UInt8.ofNat (rank s.p h))) s.regs[i]! := by
  induction l generalizing s with
  | nil => rfl
  | cons h t ih =>
    rw [addMany_cons, ih (s.add h) (by simpa using hi), add_p, add_get s h i hi, List.filter_cons]
    by_cases hh : index s.p h = i
    · simp [hh]
    · simp [hh]

theorem foldl_umax_toNat (f : Nat → Nat) (l : List Nat) (a : UInt8) (hf : ∀ h ∈ l, f h < 256) :
    (l.foldl (fun acc h => umax acc (UInt8.ofNat (f h))) a).toNat =
      l.foldl (fun acc h => max acc (f h)) a.toNat := by
  induction l generalizing a with
  | nil => rfl
  | cons h t ih =>
    simp only [List.foldl_cons]
    rw [ih _ (fun x hx => hf x (List.mem_cons_of_mem _ hx)), umax_toNat, UInt8.toNat_ofNat']
    have := hf h (List.mem_cons_self)
    rw [Nat.mod_eq_of_lt (by simpa using this)]

theorem foldl_umax_init (g : Nat → UInt8) (l : List Nat) (a : UInt8) :
    l.foldl (fun acc h => umax acc (g h)) a = umax a (l.foldl (fun acc h => umax acc (g h)) 0) := by
  induction l generalizing a with
  | nil => simp [umax_comm a 0, umax_zero_left]
  | cons h t ih =>
    simp only [List.foldl_cons]
    rw [ih (umax a (g h)), ih (umax 0 (g h)), umax_zero_left, umax_assoc]

theorem foldl_congr_mem {α β} (f g : β → α → β) (l : List α) (b : β)
    (h : ∀ acc x, x ∈ l → f acc x = g acc x) : l.foldl f b = l.foldl g b := by
  induction l generalizing b with
  | nil => rfl
  | cons x t ih =>
    simp only [List.foldl_cons]
    rw [h b x List.mem_cons_self]
    exact ih _ (fun acc y hy => h acc y (List.mem_cons_of_mem _ hy))

/-! ### well-formed sketches (everything `new` / `add_hash` / `merge` can build) -/

structure WF (s : H) : Prop where
  p_lo : 4 ≤ s.p
  p_hi : s.p ≤ 18
  q_eq : s.q = 64 - s.p
  size_eq : s.regs.size = 2 ^ s.p

theorem WF.empty (p k : Nat) (h1 : 4 ≤ p) (h2 : p ≤ 18) : WF (H.empty p k) :=
  ⟨h1, h2, rfl, by simp [H.empty]⟩

theorem WF.add {s : H} (w : WF s) (h : Nat) : WF (s.add h) :=
  ⟨w.p_lo, w.p_hi, w.q_eq, by simpa using w.size_eq⟩

theorem WF.addMany {s : H} (w : WF s) (l : List Nat) : WF (s.addMany l) :=
  ⟨by simpa using w.p_lo, by simpa using w.p_hi, by simpa using w.q_eq, by simpa using w.size_eq⟩

theorem new_ok (p k : Nat) (h1 : 4 ≤ p) (h2 : p ≤ 18) : H.new p k = .ok (H.empty p k) := by
  simp [H.new, h1, h2]

theorem new_err (p k : Nat) (h : p < 4 ∨ 18 < p) : H.new p k = .error .precisionBounds := by
  unfold H.new
  rw [if_neg (by omega)]

end Hll
