import Sourmash.Lemmas.CrashReopen
/-! Extension HISTORIES: `update` on an open handle with a collection whose internal locations are
renumbered, between reopen sequences (C10). -/
namespace Crash

/-- `c₂` extends `c₁` as far as the index can see: the same sketches at the same positions.  The
internal locations of `c₂` are free — they may reuse the locations of `c₁` for other sketches. -/
def Extends (c₁ c₂ : Coll) : Prop :=
  c₁.length ≤ c₂.length ∧ ∀ d, d < c₁.length → c₂.hashesOf d = c₁.hashesOf d

theorem extends_append (c₁ ext : Coll) : Extends c₁ (c₁ ++ ext) :=
  ⟨by simp, fun d hd => hashesOf_append_left c₁ ext d hd⟩

/-- the completed index of `c₁` is a legitimate starting point for builds of any `c₂` that extends it -/
theorem inv_clean_extends {c₁ c₂ : Coll} (he : Extends c₁ c₂) (sp : Spec) (st : Store) :
    Inv c₂ (cleanState c₁ sp st) where
  sortedH := sorted_graph c₁
  sortedP := by rw [procSet_cleanState]; exact sorted_range _
  procNE := procNE_cleanState c₁ sp st
  marker := by
    intro d hd
    rw [procSet_cleanState, List.mem_range] at hd
    refine ⟨by have := he.1; omega, fun h hh => ?_⟩
    rw [he.2 d hd] at hh
    exact (mem_graph c₁ h d).mpr hh
  sound := by
    intro h d hm
    have hx : h ∈ c₁.hashesOf d := (mem_graph c₁ h d).mp hm
    rw [he.2 d (lt_of_mem_hashesOf hx)]
    exact hx
  manifestOK := by
    intro m hm
    have : m = c₁.manifest := by
      simp only [cleanState, Option.some.injEq] at hm
      exact hm.symm
    subst this
    refine ⟨by simpa [Coll.manifest] using he.1, fun d hd => ?_⟩
    rw [procSet_cleanState, List.mem_range]
    simpa [Coll.manifest] using hd

/-- the invariant only looks at HASHES, PROCESSED and the manifest -/
theorem Inv.congr {c : Coll} {a b : Disk} (hi : Inv c a) (h1 : b.hashes = a.hashes)
    (h2 : b.processed = a.processed) (h3 : b.manifest = a.manifest) : Inv c b := by
  have hps : b.procSet = a.procSet := by unfold Disk.procSet; rw [h2]
  exact { sortedH := by rw [h1]; exact hi.sortedH
          sortedP := by rw [hps]; exact hi.sortedP
          procNE := by rw [h2]; exact hi.procNE
          marker := by intro d hd; rw [hps] at hd; rw [h1]; exact hi.marker d hd
          sound := by intro h d hm; rw [h1] at hm; exact hi.sound h d hm
          manifestOK := by intro m hm; rw [h3] at hm; rw [hps]; exact hi.manifestOK m hm }

theorem loadProcessed_cleanState (c : Coll) (sp : Spec) (st : Store) :
    loadProcessed (cleanState c sp st) false c.manifest.length = List.range c.length := by
  unfold loadProcessed cleanState
  by_cases h : c.length = 0
  · simp [h, Coll.manifest]
  · simp [h]

/-- `update(c₂)` on a read-write handle of a session that has only been reopened / internalized /
moved since the build of `c₁` completed: accepted rows (`sup`), the run ends in the completed index
of `c₂` (STORAGE keeps whatever it held), the handle holds the new collection. -/
theorem extendSess_ok {w₁ : World} {c₁ c₂ : Coll} {sp : Spec} {st : Store} {s : Sess}
    (he : Extends c₁ c₂) (hi : SInv w₁ c₁.manifest (cleanState c₁ sp st) s)
    (h : Handle) (hh : s.handle = some h) (hrw : h.readOnly = false) (sp₂ : Spec) :
    extendSess true s c₂ sp₂ =
      ({ s with disk := cleanState c₂ sp₂ s.disk.storage,
                handle := some { manifest := c₂.manifest, storage := sp₂,
                                 processed := List.range c₂.length, readOnly := false } }, .ok) := by
  have hinv : Inv c₂ s.disk :=
    (inv_clean_extends he sp st).congr hi.hashes hi.processed (by rw [hi.manifest]; rfl)
  have hproc : h.processed = loadProcessed s.disk false c₁.manifest.length := by
    rw [(hi.handle h hh).2.1]
    exact (loadProcessed_congr _ _ hi.processed _ _).symm
  have hag : Agrees h.processed s.disk := by
    rw [hproc]; exact agrees_open hinv _ hi.manifest
  have hrun := run_complete sp₂ hinv hag (isLin_seqLog c₂ h.processed)
  unfold extendSess
  simp only [hh, hrw, Bool.false_eq_true, if_false, Bool.not_true]
  rw [hrun]

/-- the session right after an extension satisfies the session invariant of the NEW collection in the
NEW world — whatever STORAGE holds under the new collection's locations -/
theorem SInv.after_extend (w₂ : World) (c₂ : Coll) (st' : Store) (p : Nat) :
    SInv w₂ c₂.manifest (cleanState c₂ .fs st')
      { disk := cleanState c₂ .fs st',
        handle := some { manifest := c₂.manifest, storage := .fs,
                         processed := List.range c₂.length, readOnly := false },
        path := p } where
  hashes := rfl
  processed := rfl
  version := rfl
  manifest := rfl
  spec := Or.inl rfl
  handle := by
    intro h e
    cases e
    exact ⟨rfl, (loadProcessed_cleanState c₂ .fs st').symm, fun e => by cases e⟩

/-- the world holds every dataset of `c` under its location -/
def Serves (w : World) (c : Coll) : Prop := ∀ d (hd : d < c.length), w.load c[d].loc = some c[d].hashes

theorem present_of_serves {w : World} {c : Coll} (hw : Serves w c) : Present w c.manifest := by
  intro loc hl
  simp only [Coll.manifest, List.mem_map] at hl
  obtain ⟨ds, hds, e⟩ := hl
  obtain ⟨i, hi, e2⟩ := List.getElem_of_mem hds
  rw [← e, ← e2, hw i hi]
  rfl

theorem sig_of_serves {w : World} {c : Coll} (hw : Serves w c) (i : Nat) :
    (c.manifest[i]?).bind (fun loc => w.load loc) = c[i]?.map DS.hashes := by
  by_cases hi : i < c.length
  · simp [Coll.manifest, List.getElem?_eq_getElem hi, hw i hi]
  · simp [Coll.manifest, List.getElem?_eq_none (Nat.le_of_not_lt hi)]

/-- what a session that satisfies the invariant answers -/
theorem SInv.answers {w : World} {c : Coll} {d0 : Disk} {s : Sess} (rt : Manifest → Option Manifest)
    (hrt : ∀ m, rt m = some m) (hw : Serves w c) (hi : SInv w c.manifest d0 s) (q : List Nat) :
    (∀ ro, ∃ h, openIdx rt s.disk ro = some h ∧ h.manifest = c.manifest ∧
        (∀ i, sigFor w s.disk h i = c[i]?.map DS.hashes) ∧
        gather s.disk.hashes (sigFor w s.disk h) q = gather d0.hashes (fun i => c[i]?.map DS.hashes) q) ∧
    (∀ h, s.handle = some h → h.manifest = c.manifest ∧
        (∀ i, sigFor w s.disk h i = c[i]?.map DS.hashes) ∧
        gather s.disk.hashes (sigFor w s.disk h) q = gather d0.hashes (fun i => c[i]?.map DS.hashes) q) := by
  refine ⟨?_, ?_⟩
  · intro ro
    obtain ⟨h, ho, h1, _, _, h4⟩ := hi.open_ rt hrt ro
    have hs : ∀ i, sigFor w s.disk h i = c[i]?.map DS.hashes := fun i => by
      rw [sigFor_eq h h1 h4 i, sig_of_serves hw i]
    exact ⟨h, ho, h1, hs, by rw [hi.hashes, funext hs]⟩
  · intro h hh
    obtain ⟨h1, _, h4⟩ := hi.handle h hh
    have hs : ∀ i, sigFor w s.disk h i = c[i]?.map DS.hashes := fun i => by
      rw [sigFor_eq h h1 h4 i, sig_of_serves hw i]
    exact ⟨h1, hs, by rw [hi.hashes, funext hs]⟩

end Crash
