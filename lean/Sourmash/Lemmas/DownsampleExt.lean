import Sourmash.Lemmas.SetOpsHom
/-! Lemmas/DownsampleExt.lean — algebra of `belowSk` (filter by a ceiling): well-formedness, abundance
function, composition, and "filtering the sketch of a multiset = sketching it at the lower ceiling". -/
namespace SetOps
open SetSpec

theorem belowP_keys (m : Nat) (mins ab : List Nat) (hl : ab.length = mins.length) :
    (belowP m (mins.zip ab)).map Prod.fst = below m mins := by
  induction mins generalizing ab with
  | nil => simp [belowP, below]
  | cons y t ih =>
    cases ab with
    | nil => simp at hl
    | cons v vs =>
      have := ih vs (by simpa using hl)
      unfold belowP below at this ⊢
      by_cases h : y ≤ m <;> simp [List.filter_cons, h, this]

theorem look_belowP (m : Nat) (p : List (Nat × Nat)) (h : Nat) :
    look (belowP m p) h = if h ≤ m then look p h else 0 := by
  induction p with
  | nil => simp [belowP, look]
  | cons kv t ih =>
    obtain ⟨k, v⟩ := kv
    unfold belowP at ih ⊢
    by_cases hk : k ≤ m
    · simp only [List.filter_cons, hk, decide_true, if_true, look, ih]
      by_cases e : k = h
      · subst e; simp [hk]
      · simp [e]
    · simp only [List.filter_cons, hk, decide_false, Bool.false_eq_true, if_false, look, ih]
      by_cases e : k = h
      · subst e; simp [hk]
      · simp [e]

theorem belowSk_wf {x : Sk} (m : Nat) (hw : x.WF) : (belowSk m x).WF := by
  refine ⟨sinc_filter _ hw.1, ?_⟩
  intro ab hab
  simp only [belowSk, Option.map_eq_some_iff] at hab
  obtain ⟨ab0, h0, rfl⟩ := hab
  show _ = (below m x.mins).length
  rw [← belowP_keys m x.mins ab0 (hw.2 ab0 h0)]; simp

theorem pairs_belowSk {x : Sk} (m : Nat) (hw : x.WF) (ht : x.abunds.isSome) :
    (belowSk m x).pairs = belowP m x.pairs := by
  obtain ⟨ab, hab⟩ := Option.isSome_iff_exists.1 ht
  simp only [Sk.pairs, belowSk, hab, Option.map_some]
  rw [← belowP_keys m x.mins ab (hw.2 ab hab), zip_fst_snd]

theorem ab_belowSk {x : Sk} (m : Nat) (hw : x.WF) (ht : x.abunds.isSome) (h : Nat) :
    (belowSk m x).ab h = if h ≤ m then x.ab h else 0 := by
  simp only [Sk.ab, pairs_belowSk m hw ht, look_belowP]

theorem belowSk_belowSk {x : Sk} {m1 m2 : Nat} (hw : x.WF) (hle : m2 ≤ m1) :
    belowSk m2 (belowSk m1 x) = belowSk m2 x := by
  apply sk_ext (belowSk_wf _ (belowSk_wf _ hw)) (belowSk_wf _ hw) rfl rfl rfl rfl rfl
  · show below m2 (below m1 x.mins) = below m2 x.mins
    simp only [below, List.filter_filter]
    apply List.filter_congr
    intro z _
    by_cases h : z ≤ m2 <;> simp [h]; omega
  · simp [belowSk]
  · intro ht h _
    have ht' : x.abunds.isSome := by simpa [belowSk] using ht
    rw [ab_belowSk m2 (belowSk_wf _ hw) (by simpa [belowSk] using ht'), ab_belowSk m1 hw ht',
      ab_belowSk m2 hw ht']
    by_cases h2 : h ≤ m2 <;> simp [h2]
    intro h1; omega

theorem abunds_pos_of_ab {x : Sk} (hw : x.WF) (hp : ∀ h ∈ x.mins, 0 < x.ab h) :
    ∀ ab, x.abunds = some ab → ∀ a ∈ ab, 0 < a := by
  intro ab hab a ha
  have l := hw.2 ab hab
  have ea : ab = x.mins.map (look (x.mins.zip ab)) := by
    have := map_snd_eq_look (m := x.mins.zip ab) (by rw [List.map_fst_zip (by omega)]; exact hw.1)
    rw [List.map_snd_zip (by omega), List.map_fst_zip (by omega)] at this
    exact this
  rw [ea] at ha
  obtain ⟨h, hh, rfl⟩ := List.mem_map.1 ha
  have := hp h hh
  simpa [Sk.ab, Sk.pairs, hab] using this

theorem ab_pos_of_abunds {x : Sk} (hw : x.WF) (ht : x.abunds.isSome)
    (hp : ∀ ab, x.abunds = some ab → ∀ a ∈ ab, 0 < a) : ∀ h ∈ x.mins, 0 < x.ab h := by
  intro h hh
  obtain ⟨ab, hab⟩ := Option.isSome_iff_exists.1 ht
  have l := hw.2 ab hab
  have ea : ab = x.mins.map (look (x.mins.zip ab)) := by
    have := map_snd_eq_look (m := x.mins.zip ab) (by rw [List.map_fst_zip (by omega)]; exact hw.1)
    rw [List.map_snd_zip (by omega), List.map_fst_zip (by omega)] at this
    exact this
  have : look (x.mins.zip ab) h ∈ ab := by rw [ea]; exact List.mem_map.2 ⟨h, hh, by rw [← ea]⟩
  have := hp ab hab _ this
  simpa [Sk.ab, Sk.pairs, hab] using this

theorem belowSk_scaled {x : Sk} {m : Nat} (hx : x.Scaled) (hm : m ≠ 0) : (belowSk m x).Scaled := by
  obtain ⟨hw, hn, _, _, hpos⟩ := hx
  refine ⟨belowSk_wf m hw, hn, hm, ?_, ?_⟩
  · intro h hh
    have : h ∈ below m x.mins := hh
    simp only [below, List.mem_filter, decide_eq_true_eq] at this
    exact this.2
  · by_cases ht : x.abunds.isSome
    · apply abunds_pos_of_ab (belowSk_wf m hw)
      intro h hh
      have hh' : h ∈ below m x.mins := hh
      simp only [below, List.mem_filter, decide_eq_true_eq] at hh'
      rw [ab_belowSk m hw ht, if_pos hh'.2]
      exact ab_pos_of_abunds hw ht hpos h hh'.1
    · intro ab hab
      simp only [belowSk, Option.map_eq_some_iff] at hab
      obtain ⟨ab0, h0, _⟩ := hab
      simp [h0] at ht

theorem total_pos {items : List (Nat × Nat)} {p : Nat × Nat} (hp : p ∈ items) (h0 : p.2 ≠ 0) :
    0 < total items p.1 := by
  induction items with
  | nil => simp at hp
  | cons q t ih =>
    rw [total_cons]
    simp only [List.mem_cons] at hp
    rcases hp with rfl | hp
    · simp; omega
    · have := ih hp; omega

theorem fold_is_scaled (k : Kind) (e : Sk) (he : Sc e) (hemp : e.mins = []) (items : List (Nat × Nat))
    (hpos : ∀ p ∈ items, p.2 ≠ 0) : (e.addManyAb k items).Scaled := by
  obtain ⟨x1, x2, x3, x4, x5, x6, x7, x8⟩ := fold_scaled k items e he hpos
  refine ⟨x1.1, x1.2.1, x1.2.2, ?_, ?_⟩
  · intro h hh
    rw [x7] at hh
    rcases hh with hh | ⟨p, _, _, hle⟩
    · simp [hemp] at hh
    · rw [x2]; exact hle
  · by_cases ht : e.abunds.isSome
    · apply abunds_pos_of_ab x1.1
      intro h hh
      rw [x7] at hh
      rcases hh with hh | ⟨p, hp, rfl, hle⟩
      · simp [hemp] at hh
      · rw [x8 ht, total_belowP, if_pos hle]
        have := total_pos hp (hpos p hp); omega
    · intro ab hab
      rw [← x6] at ht; simp [hab] at ht

/-- second half of T-ds_exact: filtering the sketch of `items` at ceiling `M` by a smaller ceiling
`M'` gives the sketch of the same `items` made directly at `M'` -/
theorem below_fold (k : Kind) (e : Sk) (he : Sc e) (hemp : e.mins = []) (M' : Nat) (hM' : M' ≠ 0)
    (hle : M' ≤ e.maxHash) (items : List (Nat × Nat)) (hpos : ∀ p ∈ items, p.2 ≠ 0) :
    belowSk M' (e.addManyAb k items) = ({ e with maxHash := M' } : Sk).addManyAb k items := by
  have he' : Sc ({ e with maxHash := M' } : Sk) := ⟨he.1, he.2.1, hM'⟩
  obtain ⟨x1, x2, x3, x4, x5, x6, x7, x8⟩ := fold_scaled k items e he hpos
  obtain ⟨y1, y2, y3, y4, y5, y6, y7, y8⟩ := fold_scaled k items _ he' hpos
  have e0 : ∀ h, e.ab h = 0 := fun h => ab_of_not_mem he.1 (by simp [hemp])
  have e0' : ∀ h, ({ e with maxHash := M' } : Sk).ab h = 0 := fun h => e0 h
  apply sk_ext (belowSk_wf _ x1.1) y1.1
  · show (e.addManyAb k items).num = _; rw [x1.2.1, y1.2.1]
  · show M' = _; rw [y2]
  · show (e.addManyAb k items).ksize = _; rw [x3, y3]
  · show (e.addManyAb k items).seed = _; rw [x4, y4]
  · show (e.addManyAb k items).mol = _; rw [x5, y5]
  · apply sinc_ext (sinc_filter _ x1.1.1) y1.1.1
    intro z
    show z ∈ below M' _ ↔ _
    simp only [below, List.mem_filter, decide_eq_true_eq]
    rw [x7, y7]
    simp only [hemp, List.not_mem_nil, false_or]
    constructor
    · rintro ⟨⟨p, hp, rfl, _⟩, h2⟩; exact ⟨p, hp, rfl, h2⟩
    · rintro ⟨p, hp, rfl, h2⟩; exact ⟨⟨p, hp, rfl, by omega⟩, h2⟩
  · simp only [belowSk, Option.isSome_map, x6, y6]
  · intro ht h _
    have hte : e.abunds.isSome = true := by
      simpa only [belowSk, Option.isSome_map, x6] using ht
    rw [ab_belowSk M' x1.1 (by rw [x6]; exact hte), x8 hte, y8 hte, e0, e0', total_belowP, total_belowP]
    by_cases h2 : h ≤ M'
    · have : h ≤ e.maxHash := by omega
      simp [h2, this]
    · simp [h2]
end SetOps
