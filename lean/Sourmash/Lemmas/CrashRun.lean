import Sourmash.Lemmas.CrashSets
import Sourmash.Spec.Crash
/-! Effect of a sequence of writes on the durable state, field by field; the invariant `Inv` of
every state a (repeatedly) interrupted build can leave behind; prefixes of linearisations. -/
namespace Crash

theorem run_nil (s : Disk) : run s [] = s := rfl
theorem run_cons (s : Disk) (w : Write) (ws : List Write) : run s (w :: ws) = run (apply s w) ws := rfl
theorem run_append (s : Disk) (a b : List Write) : run s (a ++ b) = run (run s a) b := by
  simp [run, List.foldl_append]

theorem Disk.ext' {a b : Disk} (h1 : a.hashes = b.hashes) (h2 : a.processed = b.processed)
    (h3 : a.version = b.version) (h4 : a.manifest = b.manifest) (h5 : a.spec = b.spec)
    (h6 : a.storage = b.storage) : a = b := by
  cases a; cases b; simp_all

/-! #### HASHES -/

theorem mem_hashes_apply (s : Disk) (w : Write) (p : Nat × Nat) :
    p ∈ (apply s w).hashes ↔ p ∈ s.hashes ∨ w = Write.hash p.1 p.2 := by
  cases w with
  | hash h d =>
    simp only [apply, mem_union, List.mem_singleton, Write.hash.injEq]
    constructor
    · rintro (h1 | h1)
      · exact Or.inl h1
      · subst h1; exact Or.inr ⟨rfl, rfl⟩
    · rintro (h1 | ⟨h1, h2⟩)
      · exact Or.inl h1
      · right; cases p; simp_all
  | _ => simp [apply]

theorem mem_hashes_run (s : Disk) (ws : List Write) (p : Nat × Nat) :
    p ∈ (run s ws).hashes ↔ p ∈ s.hashes ∨ Write.hash p.1 p.2 ∈ ws := by
  induction ws generalizing s with
  | nil => simp [run_nil]
  | cons w ws ih =>
    rw [run_cons, ih, mem_hashes_apply, List.mem_cons]
    constructor
    · rintro ((h | h) | h)
      · exact Or.inl h
      · exact Or.inr (Or.inl h.symm)
      · exact Or.inr (Or.inr h)
    · rintro (h | h | h)
      · exact Or.inl (Or.inl h)
      · exact Or.inl (Or.inr h.symm)
      · exact Or.inr h

theorem sorted_hashes_apply (s : Disk) (w : Write) (h : Sorted s.hashes) : Sorted (apply s w).hashes := by
  cases w with
  | hash h' d => exact sorted_union _ h
  | _ => exact h

theorem sorted_hashes_run (s : Disk) (ws : List Write) (h : Sorted s.hashes) : Sorted (run s ws).hashes := by
  induction ws generalizing s with
  | nil => exact h
  | cons w ws ih => exact ih _ (sorted_hashes_apply s w h)

/-! #### PROCESSED -/

theorem mem_procSet_apply (s : Disk) (w : Write) (d : Nat) :
    d ∈ (apply s w).procSet ↔ d ∈ s.procSet ∨ w = Write.proc d := by
  cases w with
  | proc d' =>
    simp only [apply, Disk.procSet, Option.getD_some, mem_union, List.mem_singleton, Write.proc.injEq]
    constructor
    · rintro (h | h)
      · exact Or.inl h
      · exact Or.inr h.symm
    · rintro (h | h)
      · exact Or.inl h
      · exact Or.inr h.symm
  | _ => simp [apply, Disk.procSet]

theorem mem_procSet_run (s : Disk) (ws : List Write) (d : Nat) :
    d ∈ (run s ws).procSet ↔ d ∈ s.procSet ∨ Write.proc d ∈ ws := by
  induction ws generalizing s with
  | nil => simp [run_nil]
  | cons w ws ih =>
    rw [run_cons, ih, mem_procSet_apply, List.mem_cons]
    constructor
    · rintro ((h | h) | h)
      · exact Or.inl h
      · exact Or.inr (Or.inl h.symm)
      · exact Or.inr (Or.inr h)
    · rintro (h | h | h)
      · exact Or.inl (Or.inl h)
      · exact Or.inl (Or.inr h.symm)
      · exact Or.inr h

theorem sorted_procSet_apply (s : Disk) (w : Write) (h : Sorted s.procSet) : Sorted (apply s w).procSet := by
  cases w with
  | proc d => exact sorted_union _ h
  | _ => exact h

theorem sorted_procSet_run (s : Disk) (ws : List Write) (h : Sorted s.procSet) : Sorted (run s ws).procSet := by
  induction ws generalizing s with
  | nil => exact h
  | cons w ws ih => exact ih _ (sorted_procSet_apply s w h)

/-- the PROCESSED key never holds the empty set (every merge adds an id) -/
theorem procNE_apply (s : Disk) (w : Write) (h : s.processed ≠ some []) : (apply s w).processed ≠ some [] := by
  cases w with
  | proc d =>
    simp only [apply, ne_eq, Option.some.injEq]
    intro e
    have : d ∈ union (s.processed.getD []) [d] := (mem_union _ _ _).mpr (Or.inr (by simp))
    rw [e] at this
    cases this
  | _ => exact h

theorem procNE_run (s : Disk) (ws : List Write) (h : s.processed ≠ some []) : (run s ws).processed ≠ some [] := by
  induction ws generalizing s with
  | nil => exact h
  | cons w ws ih => exact ih _ (procNE_apply s w h)

/-- under that invariant the stored value is a function of the set it denotes -/
theorem processed_eq_of_procSet {a b : Disk} (ha : a.processed ≠ some []) (hb : b.processed ≠ some [])
    (h : a.procSet = b.procSet) : a.processed = b.processed := by
  unfold Disk.procSet at h
  cases hpa : a.processed with
  | none =>
    cases hpb : b.processed with
    | none => rfl
    | some q =>
      rw [hpa, hpb] at h
      simp only [Option.getD_none, Option.getD_some] at h
      subst h
      exact absurd hpb hb
  | some p =>
    cases hpb : b.processed with
    | none =>
      rw [hpa, hpb] at h
      simp only [Option.getD_none, Option.getD_some] at h
      subst h
      exact absurd hpa ha
    | some q =>
      rw [hpa, hpb] at h
      simp only [Option.getD_some] at h
      rw [h]

/-! #### the other keys -/

theorem storage_run (s : Disk) (ws : List Write) : (run s ws).storage = s.storage := by
  induction ws generalizing s with
  | nil => rfl
  | cons w ws ih => rw [run_cons, ih]; cases w <;> rfl

theorem manifest_run (s : Disk) (ws : List Write) (m : Manifest) (h : (run s ws).manifest = some m) :
    s.manifest = some m ∨ Write.putManifest m ∈ ws := by
  induction ws generalizing s with
  | nil => exact Or.inl h
  | cons w ws ih =>
    rw [run_cons] at h
    rcases ih _ h with h' | h'
    · cases w with
      | putManifest m' =>
        simp only [apply, Option.some.injEq] at h'
        subst h'
        exact Or.inr (List.mem_cons_self ..)
      | _ => exact Or.inl h'
    · exact Or.inr (List.mem_cons_of_mem _ h')

/-- a completed `save_collection` + `compact` -/
theorem run_metaLog (s : Disk) (c : Coll) (sp : Spec) :
    run s (metaLog c sp) =
      { s with version := some DB_VERSION, manifest := some c.manifest, spec := some sp } := rfl

/-! #### linearisations and their prefixes -/

theorem mem_todo (c : Coll) (P : List Nat) (d : Nat) : d ∈ todo c P ↔ d < c.length ∧ d ∉ P := by
  simp [todo, List.mem_filter, List.mem_range]

theorem hashesOf_of_ge (c : Coll) (d : Nat) (h : c.length ≤ d) : c.hashesOf d = [] := by
  simp [Coll.hashesOf, List.getElem?_eq_none h]

theorem mem_dsWrites_hash (c : Coll) (d h d' : Nat) :
    Write.hash h d' ∈ dsWrites c d ↔ d' = d ∧ h ∈ c.hashesOf d := by
  simp only [dsWrites, List.mem_append, List.mem_map, List.mem_singleton, Write.hash.injEq]
  constructor
  · rintro (⟨a, ha, e1, e2⟩ | h)
    · subst e1; exact ⟨e2.symm, ha⟩
    · cases h
  · rintro ⟨e, hh⟩
    exact Or.inl ⟨h, hh, rfl, e.symm⟩

theorem mem_dsWrites_proc (c : Coll) (d d' : Nat) : Write.proc d' ∈ dsWrites c d ↔ d' = d := by
  simp [dsWrites]

theorem owner_of_mem_dsWrites (c : Coll) (d : Nat) (w : Write) (h : w ∈ dsWrites c d) : w.owner = some d := by
  simp only [dsWrites, List.mem_append, List.mem_map, List.mem_singleton] at h
  rcases h with ⟨a, _, e⟩ | e
  · subst e; rfl
  · subst e; rfl

/-- a write that belongs to dataset `d` is in `L` iff it is in the restriction of `L` to `d` -/
theorem mem_lin_iff {c : Coll} {P : List Nat} {L : List Write} (hL : IsLin c P L) (w : Write) (d : Nat)
    (hw : w.owner = some d) : w ∈ L ↔ d ∈ todo c P ∧ w ∈ dsWrites c d := by
  have h2 := hL.2 d
  constructor
  · intro h
    have : w ∈ L.filter (fun w => w.owner == some d) := by
      simp [List.mem_filter, h, hw]
    rw [h2] at this
    by_cases hd : d ∈ todo c P
    · rw [if_pos hd] at this; exact ⟨hd, this⟩
    · rw [if_neg hd] at this; cases this
  · rintro ⟨hd, hm⟩
    rw [if_pos hd] at h2
    have : w ∈ L.filter (fun w => w.owner == some d) := by rw [h2]; exact hm
    exact (List.mem_filter.mp this).1

/-- if the restriction of `L` to some class ends with `x`, a prefix of `L` that contains `x`
contains the whole restriction: a dataset's marker is preceded by all of its hash writes -/
theorem prefix_closed {β : Type} (p : β → Bool) (L : List β) (k : Nat) (A : List β) (x : β)
    (hf : L.filter p = A ++ [x]) (hx : x ∉ A) (hp : p x = true) (hxk : x ∈ L.take k) :
    ∀ a ∈ A, a ∈ L.take k := by
  have hsplit : (L.take k).filter p ++ (L.drop k).filter p = A ++ [x] := by
    rw [← List.filter_append, List.take_append_drop, hf]
  have hxin : x ∈ (L.take k).filter p := List.mem_filter.mpr ⟨hxk, hp⟩
  rcases List.append_eq_append_iff.mp hsplit with ⟨a', h1, _⟩ | ⟨c', h1, _⟩
  · -- the prefix's restriction is a prefix of A: then x ∈ A
    exfalso
    apply hx
    rw [h1]
    exact List.mem_append_left _ hxin
  · intro a ha
    have : a ∈ (L.take k).filter p := by rw [h1]; exact List.mem_append_left _ ha
    exact (List.mem_filter.mp this).1

/-! #### the invariant -/

/-- what every state left behind by completed or interrupted builds of `c` satisfies -/
structure Inv (c : Coll) (s : Disk) : Prop where
  sortedH : Sorted s.hashes
  sortedP : Sorted s.procSet
  procNE : s.processed ≠ some []
  /-- T-marker: a processed dataset has all of its hashes indexed -/
  marker : ∀ d, d ∈ s.procSet → d < c.length ∧ ∀ h, h ∈ c.hashesOf d → (h, d) ∈ s.hashes
  /-- nothing spurious: an indexed pair comes from the collection -/
  sound : ∀ h d, (h, d) ∈ s.hashes → h ∈ c.hashesOf d
  /-- a stored manifest only lists processed datasets (so `open`'s "absent ⇒ all" is harmless) -/
  manifestOK : ∀ m, s.manifest = some m → m.length ≤ c.length ∧ ∀ d, d < m.length → d ∈ s.procSet

theorem Inv.empty (c : Coll) : Inv c Disk.empty where
  sortedH := sorted_nil
  sortedP := sorted_nil
  procNE := by simp [Disk.empty]
  marker := by intro d h; cases h
  sound := by intro h d hm; cases hm
  manifestOK := by intro m h; cases h

/-- a set of writes that may be applied to `s` without breaking the invariant -/
structure Closed (c : Coll) (s : Disk) (ws : List Write) : Prop where
  hashOK : ∀ h d, Write.hash h d ∈ ws → h ∈ c.hashesOf d
  procOK : ∀ d, Write.proc d ∈ ws → d < c.length ∧ ∀ h, h ∈ c.hashesOf d → Write.hash h d ∈ ws
  manOK : ∀ m, Write.putManifest m ∈ ws →
    m.length ≤ c.length ∧ ∀ d, d < m.length → d ∈ s.procSet ∨ Write.proc d ∈ ws

theorem Inv.run {c : Coll} {s : Disk} {ws : List Write} (hi : Inv c s) (hc : Closed c s ws) :
    Inv c (run s ws) where
  sortedH := sorted_hashes_run _ _ hi.sortedH
  sortedP := sorted_procSet_run _ _ hi.sortedP
  procNE := procNE_run _ _ hi.procNE
  marker := by
    intro d hd
    rcases (mem_procSet_run _ _ _).mp hd with h | h
    · refine ⟨(hi.marker d h).1, fun x hx => ?_⟩
      exact (mem_hashes_run _ _ _).mpr (Or.inl ((hi.marker d h).2 x hx))
    · refine ⟨(hc.procOK d h).1, fun x hx => ?_⟩
      exact (mem_hashes_run _ _ (x, d)).mpr (Or.inr ((hc.procOK d h).2 x hx))
  sound := by
    intro h d hm
    rcases (mem_hashes_run _ _ (h, d)).mp hm with h' | h'
    · exact hi.sound h d h'
    · exact hc.hashOK h d h'
  manifestOK := by
    intro m hm
    rcases manifest_run _ _ _ hm with h | h
    · refine ⟨(hi.manifestOK m h).1, fun d hd => ?_⟩
      exact (mem_procSet_run _ _ _).mpr (Or.inl ((hi.manifestOK m h).2 d hd))
    · refine ⟨(hc.manOK m h).1, fun d hd => ?_⟩
      exact (mem_procSet_run _ _ _).mpr ((hc.manOK m h).2 d hd)

theorem not_meta_of_lin {c : Coll} {P : List Nat} {L : List Write} (hL : IsLin c P L) (m : Manifest) :
    Write.putManifest m ∉ L := by
  intro h
  exact hL.1 _ h rfl

/-- every prefix of (a linearisation of the parallel phase ++ the metadata writes) is closed -/
theorem closed_prefix {c : Coll} {s : Disk} {P : List Nat} {L : List Write} (sp : Spec)
    (hP : Agrees P s) (hL : IsLin c P L) (k : Nat) :
    Closed c s ((L ++ metaLog c sp).take k) := by
  have hmem : ∀ w, w ∈ (L ++ metaLog c sp).take k → w ∈ L.take k ∨ (w ∈ metaLog c sp ∧ L.length < k) := by
    intro w hw
    rw [List.take_append] at hw
    rcases List.mem_append.mp hw with h | h
    · exact Or.inl h
    · right
      refine ⟨List.mem_of_mem_take h, ?_⟩
      by_cases hk : L.length < k
      · exact hk
      · have : k - L.length = 0 := by omega
        rw [this] at h
        simp at h
  have hfull : L.length < k → ∀ w, w ∈ L → w ∈ (L ++ metaLog c sp).take k := by
    intro hk w hw
    rw [List.take_append]
    apply List.mem_append_left
    rw [List.take_of_length_le (by omega)]
    exact hw
  constructor
  · intro h d hw
    rcases hmem _ hw with h1 | ⟨h1, _⟩
    · exact ((mem_dsWrites_hash c d h d).mp ((mem_lin_iff hL _ d rfl).mp (List.mem_of_mem_take h1)).2).2
    · simp [metaLog] at h1
  · intro d hw
    rcases hmem _ hw with h1 | ⟨h1, _⟩
    · have hin := (mem_lin_iff hL _ d rfl).mp (List.mem_of_mem_take h1)
      refine ⟨((mem_todo c P d).mp hin.1).1, fun x hx => ?_⟩
      -- all hash writes of d precede its marker
      have hf := hL.2 d
      rw [if_pos hin.1] at hf
      have hcl := prefix_closed (fun w => w.owner == some d) L k
        ((c.hashesOf d).map (fun h => Write.hash h d)) (Write.proc d) hf (by simp) (by simp [Write.owner]) h1
      have : Write.hash x d ∈ L.take k := hcl _ (List.mem_map.mpr ⟨x, hx, rfl⟩)
      rw [List.take_append]
      exact List.mem_append_left _ this
    · simp [metaLog] at h1
  · intro m hw
    rcases hmem _ hw with h1 | ⟨h1, hk⟩
    · exact absurd (List.mem_of_mem_take h1) (not_meta_of_lin hL m)
    · have hm : m = c.manifest := by simpa [metaLog] using h1
      subst hm
      refine ⟨by simp [Coll.manifest], fun d hd => ?_⟩
      have hd' : d < c.length := by simpa [Coll.manifest] using hd
      by_cases hp : d ∈ P
      · exact Or.inl ((hP d).mp hp)
      · right
        apply hfull hk
        exact (mem_lin_iff hL _ d rfl).mpr ⟨(mem_todo c P d).mpr ⟨hd', hp⟩, (mem_dsWrites_proc c d d).mpr rfl⟩

/-! #### the reference state of a completed build -/

theorem mem_graph (c : Coll) (h d : Nat) : (h, d) ∈ graph c ↔ h ∈ c.hashesOf d := by
  simp only [graph, mem_union, List.not_mem_nil, false_or, List.mem_flatMap, List.mem_range,
    List.mem_map, Prod.mk.injEq]
  constructor
  · rintro ⟨d', _, x, hx, e1, e2⟩
    subst e1; subst e2; exact hx
  · intro hx
    refine ⟨d, ?_, h, hx, rfl, rfl⟩
    by_cases hd : d < c.length
    · exact hd
    · rw [hashesOf_of_ge c d (by omega)] at hx; cases hx

theorem sorted_graph (c : Coll) : Sorted (graph c) := sorted_union _ sorted_nil

theorem procSet_cleanState (c : Coll) (sp : Spec) (st : Store) :
    (cleanState c sp st).procSet = List.range c.length := by
  unfold cleanState Disk.procSet
  by_cases h : c.length = 0
  · simp [h]
  · simp [h]

/-- a build that runs to completion from any state satisfying the invariant ends in the reference
state — whatever the interleaving -/
theorem run_complete {c : Coll} {s : Disk} {P : List Nat} {L : List Write} (sp : Spec)
    (hi : Inv c s) (hP : Agrees P s) (hL : IsLin c P L) :
    run s (L ++ metaLog c sp) = cleanState c sp s.storage := by
  rw [run_append, run_metaLog]
  have hprocSet : ∀ d, d ∈ (run s L).procSet ↔ d < c.length := by
    intro d
    rw [mem_procSet_run]
    constructor
    · rintro (h | h)
      · exact (hi.marker d h).1
      · exact ((mem_todo c P d).mp ((mem_lin_iff hL _ d rfl).mp h).1).1
    · intro hd
      by_cases hp : d ∈ P
      · exact Or.inl ((hP d).mp hp)
      · exact Or.inr ((mem_lin_iff hL _ d rfl).mpr
          ⟨(mem_todo c P d).mpr ⟨hd, hp⟩, (mem_dsWrites_proc c d d).mpr rfl⟩)
  apply Disk.ext'
  · -- HASHES
    apply sorted_ext (sorted_hashes_run _ _ hi.sortedH) (sorted_graph c)
    rintro ⟨h, d⟩
    rw [mem_graph, mem_hashes_run]
    constructor
    · rintro (h1 | h1)
      · exact hi.sound h d h1
      · exact ((mem_dsWrites_hash c d h d).mp ((mem_lin_iff hL _ d rfl).mp h1).2).2
    · intro hx
      have hd : d < c.length := by
        by_cases hd : d < c.length
        · exact hd
        · rw [hashesOf_of_ge c d (by omega)] at hx; cases hx
      by_cases hp : d ∈ P
      · exact Or.inl ((hi.marker d ((hP d).mp hp)).2 h hx)
      · exact Or.inr ((mem_lin_iff hL _ d rfl).mpr
          ⟨(mem_todo c P d).mpr ⟨hd, hp⟩, (mem_dsWrites_hash c d h d).mpr ⟨rfl, hx⟩⟩)
  · -- PROCESSED
    have h1 : (run s L).procSet = List.range c.length := by
      apply sorted_ext (sorted_procSet_run _ _ hi.sortedP) (sorted_range _)
      intro d
      rw [hprocSet, List.mem_range]
    have hne : (cleanState c sp s.storage).processed ≠ some [] := by
      unfold cleanState
      by_cases h : c.length = 0
      · simp [h]
      · simp only [h, if_false, ne_eq, Option.some.injEq]
        intro e
        have h0 : (List.range c.length).length = 0 := by rw [e]; rfl
        rw [List.length_range] at h0
        exact h h0
    have := processed_eq_of_procSet (a := run s L) (b := cleanState c sp s.storage)
      (procNE_run _ _ hi.procNE) hne (by rw [h1, procSet_cleanState])
    simpa using this
  · rfl
  · rfl
  · rfl
  · simp [storage_run, cleanState]

end Crash
