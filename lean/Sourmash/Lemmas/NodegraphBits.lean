import Sourmash.Model.Nodegraph
import Sourmash.Spec.Khmer
/-! Bit- and byte-level lemmas for the nodegraph file format (C16): little-endian words, `testBit`
of bytes, the spec-level byte `Khmer.byteOf`.  Core Lean only. -/
namespace NG

theorem getD_eq (l : List Nat) (i : Nat) : l.getD i 0 = l[i]?.getD 0 := List.getD_eq_getElem?_getD

theorem getD_of_lt (l : List Nat) (i : Nat) (h : i < l.length) : l.getD i 0 = l[i] := by
  simp [List.getD_eq_getElem?_getD, List.getElem?_eq_getElem h]

theorem testBit_false_of_lt32 {x j : Nat} (hx : x < 2 ^ 32) (hj : 32 ≤ j) : x.testBit j = false := by
  apply Nat.testBit_lt_two_pow
  exact Nat.lt_of_lt_of_le hx (Nat.pow_le_pow_right (by decide) hj)

/-- bit j of byte c of n -/
theorem testBit_byte (n c j : Nat) :
    ((n >>> (8 * c)) % 256).testBit j = (decide (j < 8) && n.testBit (8 * c + j)) := by
  have : (256 : Nat) = 2 ^ 8 := by decide
  rw [this, Nat.testBit_mod_two_pow, Nat.testBit_shiftRight]

theorem le_length (n k : Nat) : (le n k).length = k := by simp [le]

theorem le_getElem? (n k i : Nat) :
    (le n k)[i]? = if i < k then some ((n >>> (8 * i)) % 256) else none := by
  unfold le
  rw [List.getElem?_map]
  by_cases h : i < k
  · simp [h]
  · simp [h]

theorem le_lt (n k : Nat) : ∀ x ∈ le n k, x < 256 := by
  intro x hx
  simp [le] at hx
  obtain ⟨i, _, rfl⟩ := hx
  omega

theorem fromLE_cons (b : Nat) (t : List Nat) : fromLE (b :: t) = 2 ^ 8 * fromLE t + b := by
  simp [fromLE]; omega

/-- bit j of a little-endian byte string -/
theorem fromLE_testBit (bs : List Nat) (hb : ∀ x ∈ bs, x < 256) (j : Nat) :
    (fromLE bs).testBit j = (bs.getD (j / 8) 0).testBit (j % 8) := by
  induction bs generalizing j with
  | nil => simp [fromLE]
  | cons b t ih =>
    have hb0 : b < 2 ^ 8 := by have := hb b (by simp); omega
    rw [fromLE_cons, Nat.testBit_two_pow_mul_add _ hb0]
    by_cases h : j < 8
    · have h1 : j / 8 = 0 := by omega
      have h2 : j % 8 = j := by omega
      simp [h, h1, h2]
    · have h1 : j / 8 = (j - 8) / 8 + 1 := by omega
      have h2 : j % 8 = (j - 8) % 8 := by omega
      rw [if_neg h, ih (fun x hx => hb x (by simp [hx])), h1, h2]
      simp

theorem fromLE_lt (bs : List Nat) (hb : ∀ x ∈ bs, x < 256) : fromLE bs < 2 ^ (8 * bs.length) := by
  induction bs with
  | nil => simp [fromLE]
  | cons b t ih =>
    have hb0 : b < 256 := hb b (by simp)
    have := ih (fun x hx => hb x (by simp [hx]))
    rw [fromLE_cons]
    have e : 2 ^ (8 * (b :: t).length) = 2 ^ 8 * 2 ^ (8 * t.length) := by
      rw [← Nat.pow_add]; congr 1; simp; omega
    rw [e]
    have : (2:Nat) ^ 8 = 256 := by decide
    rw [this]
    omega

/-- reading back what was written: the value modulo the field width -/
theorem fromLE_le (n k : Nat) : fromLE (le n k) = n % 2 ^ (8 * k) := by
  apply Nat.eq_of_testBit_eq
  intro j
  rw [fromLE_testBit _ (le_lt n k), Nat.testBit_mod_two_pow, getD_eq, le_getElem?]
  by_cases h : j / 8 < k
  · have : j < 8 * k := by omega
    simp [h, this, testBit_byte]
    have : 8 * (j / 8) + j % 8 = j := by omega
    rw [this]; simp; omega
  · have : ¬ j < 8 * k := by omega
    simp [h, this]

/-! ### the spec-level byte -/
theorem bitsToNat_testBit (l : List Bool) (j : Nat) : (Khmer.bitsToNat l).testBit j = l.getD j false := by
  induction l generalizing j with
  | nil => simp [Khmer.bitsToNat]
  | cons b t ih =>
    cases j with
    | zero =>
      rw [Nat.testBit_zero]
      cases b <;> simp [Khmer.bitsToNat] <;> omega
    | succ j =>
      rw [Nat.testBit_succ]
      have : (Khmer.bitsToNat (b :: t)) / 2 = Khmer.bitsToNat t := by
        cases b <;> simp [Khmer.bitsToNat] <;> omega
      rw [this, ih]; simp

theorem byteOf_testBit (f : Nat → Bool) (j : Nat) :
    (Khmer.byteOf f).testBit j = (decide (j < 8) && f j) := by
  unfold Khmer.byteOf
  rw [bitsToNat_testBit, List.getD_eq_getElem?_getD, List.getElem?_map]
  by_cases h : j < 8
  · simp [h]
  · simp [h]

theorem bitsToNat_lt (l : List Bool) : Khmer.bitsToNat l < 2 ^ l.length := by
  induction l with
  | nil => simp [Khmer.bitsToNat]
  | cons b t ih =>
    simp only [Khmer.bitsToNat, List.length_cons, Nat.pow_succ]
    cases b <;> simp <;> omega

theorem byteOf_lt (f : Nat → Bool) : Khmer.byteOf f < 256 := by
  have := bitsToNat_lt ((List.range 8).map f)
  simpa [Khmer.byteOf] using this

/-! ### u32le / u64le of the format description are `le` -/
theorem u32le_eq (n : Nat) : Khmer.u32le n = le n 4 := by
  simp [Khmer.u32le, le, List.range, List.range.loop, Nat.shiftRight_eq_div_pow]
theorem u64le_eq (n : Nat) : Khmer.u64le n = le n 8 := by
  simp [Khmer.u64le, Khmer.u32le, le, List.range, List.range.loop, Nat.shiftRight_eq_div_pow]
  omega

end NG
