import Sourmash.Model.Csv
import Sourmash.Model.Manifest
import Sourmash.Lemmas.CsvDec
/-! Lemmas for C12, T-csv_roundtrip: the four-state reader run over the writer's bytes.
Byte level first (`Csv.parse_writeManifest`: any rows, any bytes), then the typed layer
(`Manifest.roundtrip`). -/
namespace Csv

theorem special_false {b : UInt8} (h : special b = false) :
    (b == 44) = false ∧ (b == 34) = false ∧ (b == 13) = false ∧ (b == 10) = false ∧ (b == 35) = false := by
  simp only [special, Bool.or_eq_false_iff] at h
  obtain ⟨⟨⟨⟨h1, h2⟩, h3⟩, h4⟩, h5⟩ := h
  exact ⟨h1, h2, h3, h4, h5⟩

theorem plain_of_not_needsQuote {f : Bytes} (h : needsQuote f = false) : ∀ b ∈ f, special b = false := by
  intro b hb
  unfold needsQuote at h
  rw [List.any_eq_false] at h
  simpa using h b hb

/-- unquoted bytes accumulate -/
theorem unq_run (t : Bytes) (ht : ∀ b ∈ t, special b = false) (g : Bytes) (cur : List Bytes)
    (out : List (List Bytes)) :
    t.foldl step ⟨.unq, g, cur, out⟩ = ⟨.unq, g ++ t, cur, out⟩ := by
  induction t generalizing g with
  | nil => simp
  | cons b t ih =>
    obtain ⟨h1, h2, h3, h4, _⟩ := special_false (ht b (List.mem_cons_self ..))
    have hs : step ⟨.unq, g, cur, out⟩ b = ⟨.unq, g ++ [b], cur, out⟩ := by
      simp [step, h1, h2, h3, h4]
    rw [List.foldl_cons, hs, ih (fun c hc => ht c (List.mem_cons_of_mem _ hc))]
    simp

/-- inside quotes everything accumulates, doubled quotes as one -/
theorem quo_run (f : Bytes) (g : Bytes) (cur : List Bytes) (out : List (List Bytes)) :
    (escape f).foldl step ⟨.quo, g, cur, out⟩ = ⟨.quo, g ++ f, cur, out⟩ := by
  induction f generalizing g with
  | nil => simp [escape]
  | cons b t ih =>
    have he : escape (b :: t) = (if b == 34 then [34, 34] else [b]) ++ escape t := by
      simp [escape, List.flatMap_cons]
    rw [he, List.foldl_append]
    have ih' := ih (g ++ [b])
    by_cases hb : b = 34
    · subst hb
      have : List.foldl step ⟨.quo, g, cur, out⟩ [34, 34] = ⟨.quo, g ++ [34], cur, out⟩ := by
        simp [step]
      simp only [beq_self_eq_true, if_true, this, ih']
      simp
    · have hb' : (b == 34) = false := by simpa using hb
      have : List.foldl step ⟨.quo, g, cur, out⟩ [b] = ⟨.quo, g ++ [b], cur, out⟩ := by
        simp [step, hb']
      simp only [hb', Bool.false_eq_true, if_false, this, ih']
      simp

/-- a quoted field read from the start of a later field … -/
theorem quoted_from_unq (f : Bytes) (cur : List Bytes) (out : List (List Bytes)) :
    ([34] ++ escape f ++ [34]).foldl step ⟨.unq, [], cur, out⟩ = ⟨.afterq, f, cur, out⟩ := by
  rw [List.foldl_append, List.foldl_append]
  have h1 : List.foldl step ⟨.unq, [], cur, out⟩ [34] = ⟨.quo, [], cur, out⟩ := by simp [step]
  rw [h1, quo_run]
  simp [step]

/-- … and from the start of a record -/
theorem quoted_from_sor (f : Bytes) (out : List (List Bytes)) :
    ([34] ++ escape f ++ [34]).foldl step ⟨.sor, [], [], out⟩ = ⟨.afterq, f, [], out⟩ := by
  rw [List.foldl_append, List.foldl_append]
  have h1 : List.foldl step ⟨.sor, [], [], out⟩ [34] = ⟨.quo, [], [], out⟩ := by simp [step]
  rw [h1, quo_run]
  simp [step]

/-- an unquoted non-empty field read from the start of a record -/
theorem plain_from_sor (b : UInt8) (t : Bytes) (h : ∀ c ∈ b :: t, special c = false)
    (out : List (List Bytes)) :
    (b :: t).foldl step ⟨.sor, [], [], out⟩ = ⟨.unq, b :: t, [], out⟩ := by
  obtain ⟨h1, h2, h3, h4, h5⟩ := special_false (h b (List.mem_cons_self ..))
  have hs : step ⟨.sor, [], [], out⟩ b = ⟨.unq, [b], [], out⟩ := by
    simp [step, h1, h2, h3, h4, h5]
  rw [List.foldl_cons, hs, unq_run t (fun c hc => h c (List.mem_cons_of_mem _ hc))]
  simp

/-- a field followed by the delimiter, from the start of a later field -/
theorem field_delim_unq (f : Bytes) (cur : List Bytes) (out : List (List Bytes)) :
    (writeField f ++ [44]).foldl step ⟨.unq, [], cur, out⟩ = ⟨.unq, [], cur ++ [f], out⟩ := by
  rw [List.foldl_append]
  unfold writeField
  cases hq : needsQuote f
  · simp only [Bool.false_eq_true, if_false]
    rw [unq_run f (plain_of_not_needsQuote hq)]
    simp [step, endField]
  · simp only [if_true]
    rw [quoted_from_unq]
    simp [step, endField]

/-- a field followed by the terminator, from the start of a later field -/
theorem field_term_unq (f : Bytes) (cur : List Bytes) (out : List (List Bytes)) :
    (writeField f ++ [10]).foldl step ⟨.unq, [], cur, out⟩ = ⟨.sor, [], [], out ++ [cur ++ [f]]⟩ := by
  rw [List.foldl_append]
  unfold writeField
  cases hq : needsQuote f
  · simp only [Bool.false_eq_true, if_false]
    rw [unq_run f (plain_of_not_needsQuote hq)]
    simp [step, endRecord]
  · simp only [if_true]
    rw [quoted_from_unq]
    simp [step, endRecord]

/-- the first field of a record followed by the delimiter -/
theorem field_delim_sor (f : Bytes) (out : List (List Bytes)) :
    (writeField f ++ [44]).foldl step ⟨.sor, [], [], out⟩ = ⟨.unq, [], [f], out⟩ := by
  rw [List.foldl_append]
  unfold writeField
  cases hq : needsQuote f
  · simp only [Bool.false_eq_true, if_false]
    cases f with
    | nil => simp [step, endField]
    | cons b t =>
      rw [plain_from_sor b t (plain_of_not_needsQuote hq)]
      simp [step, endField]
  · simp only [if_true]
    rw [quoted_from_sor]
    simp [step, endField]

/-- the only field of a record followed by the terminator (the empty field is written `""`) -/
theorem field_term_sor (f : Bytes) (hf : f ≠ []) (out : List (List Bytes)) :
    (writeField f ++ [10]).foldl step ⟨.sor, [], [], out⟩ = ⟨.sor, [], [], out ++ [[f]]⟩ := by
  rw [List.foldl_append]
  unfold writeField
  cases hq : needsQuote f
  · simp only [Bool.false_eq_true, if_false]
    cases f with
    | nil => exact absurd rfl hf
    | cons b t =>
      rw [plain_from_sor b t (plain_of_not_needsQuote hq)]
      simp [step, endRecord]
  · simp only [if_true]
    rw [quoted_from_sor]
    simp [step, endRecord]

/-- the bytes of the fields after the first one -/
def tailBytes (g : Bytes) (rest : List Bytes) : Bytes :=
  writeField g ++ rest.flatMap (fun x => [44] ++ writeField x) ++ [10]

theorem tail_run (rest : List Bytes) (g : Bytes) (cur : List Bytes) (out : List (List Bytes)) :
    (tailBytes g rest).foldl step ⟨.unq, [], cur, out⟩ = ⟨.sor, [], [], out ++ [cur ++ g :: rest]⟩ := by
  induction rest generalizing g cur with
  | nil =>
    have := field_term_unq g cur out
    simpa [tailBytes] using this
  | cons x rest ih =>
    have e : tailBytes g (x :: rest) = (writeField g ++ [44]) ++ tailBytes x rest := by
      simp [tailBytes, List.flatMap_cons]
    rw [e, List.foldl_append, field_delim_unq, ih]
    simp

/-- one record: from the start of a record back to the start of a record, the record appended -/
theorem record_run (fs : List Bytes) (hne : fs ≠ []) (out : List (List Bytes)) :
    (writeRecord fs).foldl step ⟨.sor, [], [], out⟩ = ⟨.sor, [], [], out ++ [fs]⟩ := by
  match fs, hne with
  | [[]], _ => simp [writeRecord, step, endRecord]
  | [b :: t], _ =>
    have := field_term_sor (b :: t) (by simp) out
    simpa [writeRecord] using this
  | f :: g :: rest, _ =>
    have e : writeRecord (f :: g :: rest) = (writeField f ++ [44]) ++ tailBytes g rest := by
      cases f <;> simp [writeRecord, tailBytes, List.flatMap_cons]
    rw [e, List.foldl_append, field_delim_sor, tail_run]
    simp

theorem records_run (rows : List (List Bytes)) (hne : ∀ r ∈ rows, r ≠ []) (out : List (List Bytes)) :
    (rows.flatMap writeRecord).foldl step ⟨.sor, [], [], out⟩ = ⟨.sor, [], [], out ++ rows⟩ := by
  induction rows generalizing out with
  | nil => simp
  | cons r rows ih =>
    rw [List.flatMap_cons, List.foldl_append, record_run r (hne r (List.mem_cons_self ..)),
      ih (fun q hq => hne q (List.mem_cons_of_mem _ hq))]
    simp

theorem banner_run : banner.foldl step {} = ⟨.sor, [], [], []⟩ := by decide

/-- the reader recovers the header and the rows from the writer's bytes -/
theorem parse_writeManifest (rows : List (List Bytes)) (hne : ∀ r ∈ rows, r ≠ []) (h0 : rows ≠ []) :
    parse (writeManifest rows) = header :: rows := by
  have e : writeManifest rows = banner ++ writeRecord header ++ rows.flatMap writeRecord := by
    cases rows with
    | nil => exact absurd rfl h0
    | cons r rs => rfl
  unfold parse
  rw [e, List.foldl_append, List.foldl_append, banner_run, record_run header (by decide), records_run rows hne]
  simp [finish]

theorem parse_banner : parse (writeManifest []) = [] := by decide

end Csv

namespace Manifest
open Select

theorem toBool_boolField (b : Bool) : toBool? (boolField b) = some b := by cases b <;> decide

theorem recordFields_length (r : Record) : (recordFields r).length = Csv.header.length := rfl

theorem recordOfRow_fields (r : Record)
    (hfit : r.ksize < u32 ∧ r.num < u32 ∧ r.scaled < u64 ∧ r.nHashes < u64) :
    recordOfRow Csv.header (recordFields r) = some r := by
  obtain ⟨h1, h2, h3, h4⟩ := hfit
  have c0 : column Csv.header (recordFields r) (h 0) = some r.internalLocation := rfl
  have c1 : column Csv.header (recordFields r) (h 1) = some r.md5 := rfl
  have c2 : column Csv.header (recordFields r) (h 2) = some r.md5short := rfl
  have c3 : column Csv.header (recordFields r) (h 3) = some (natBytes r.ksize) := rfl
  have c4 : column Csv.header (recordFields r) (h 4) = some r.moltype := rfl
  have c5 : column Csv.header (recordFields r) (h 5) = some (natBytes r.num) := rfl
  have c6 : column Csv.header (recordFields r) (h 6) = some (natBytes r.scaled) := rfl
  have c7 : column Csv.header (recordFields r) (h 7) = some (natBytes r.nHashes) := rfl
  have c8 : column Csv.header (recordFields r) (h 8) = some (boolField r.withAbundance) := rfl
  have c9 : column Csv.header (recordFields r) (h 9) = some r.name := rfl
  have c10 : column Csv.header (recordFields r) (h 10) = some r.filename := rfl
  simp only [recordOfRow, c0, c1, c2, c3, c4, c5, c6, c7, c8, c9, c10,
    parseNat_natBytes _ _ h1, parseNat_natBytes _ _ h2, parseNat_natBytes _ _ h3, parseNat_natBytes _ _ h4,
    toBool_boolField, Option.pure_def, bind, Option.bind]

theorem rowsToRecords_fields (m : List Record)
    (hfit : ∀ r ∈ m, r.ksize < u32 ∧ r.num < u32 ∧ r.scaled < u64 ∧ r.nHashes < u64) :
    rowsToRecords Csv.header (m.map recordFields) = some m := by
  induction m with
  | nil => rfl
  | cons r m ih =>
    simp only [List.map_cons, rowsToRecords, recordOfRow_fields r (hfit r (List.mem_cons_self ..)),
      ih (fun q hq => hfit q (List.mem_cons_of_mem _ hq))]

/-- `from_reader (to_writer m) = Ok m` -/
theorem roundtrip (m : List Record)
    (hfit : ∀ r ∈ m, r.ksize < u32 ∧ r.num < u32 ∧ r.scaled < u64 ∧ r.nHashes < u64) :
    fromReader (toWriter m) = some m := by
  cases m with
  | nil =>
    have : Csv.readTable (toWriter []) = some none := by
      unfold Csv.readTable toWriter; rw [List.map_nil, Csv.parse_banner]
    simp [fromReader, this]
  | cons r rest =>
    have hp := Csv.parse_writeManifest ((r :: rest).map recordFields)
      (by intro q hq; obtain ⟨x, _, rfl⟩ := List.mem_map.1 hq; simp [recordFields]) (by simp)
    have hall : (((r :: rest).map recordFields).all (fun q => q.length == Csv.header.length)) = true := by
      rw [List.all_eq_true]
      intro q hq
      obtain ⟨x, _, rfl⟩ := List.mem_map.1 hq
      simp [recordFields_length]
    have : Csv.readTable (toWriter (r :: rest)) = some (some (Csv.header, (r :: rest).map recordFields)) := by
      unfold Csv.readTable toWriter
      rw [hp]
      simp only [hall, if_true]
    rw [fromReader, this]
    exact rowsToRecords_fields (r :: rest) hfit

end Manifest
