import Sourmash.Spec.Sample
/-! Lemmas/SampleList.lean — list-level facts behind C01 (core Lean only). -/
namespace Sample

theorem evict_eq_take (n : Nat) (m : FMap) : evict n m = m.take n := by
  induction hlen : m.length generalizing m with
  | zero =>
    have : m = [] := List.eq_nil_of_length_eq_zero hlen
    subst this
    unfold evict; simp
  | succ k ih =>
    unfold evict
    by_cases h : n < m.length
    · simp only [h, if_true]
      have hl : m.dropLast.length = k := by simp [hlen]
      rw [ih _ hl, List.dropLast_eq_take, List.take_take]
      congr 1
      omega
    · simp only [h, if_false]
      exact (List.take_of_length_le (by omega)).symm

end Sample
