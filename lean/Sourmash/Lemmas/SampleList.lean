import Sourmash.Spec.Sample
/-! Lemmas/SampleList.lean — facts about the abstract sample (finite maps as strictly increasing
association lists) and about the list primitives of the sketch models.  Core Lean only. -/
namespace Sample
open MH

/-- strictly increasing -/
abbrev Sorted (l : List Nat) : Prop := l.Pairwise (· < ·)

theorem Sorted.tail {k : Nat} {t : List Nat} (h : Sorted (k :: t)) : Sorted t :=
  (List.pairwise_cons.mp h).2

theorem Sorted.head_lt {k : Nat} {t : List Nat} (h : Sorted (k :: t)) : ∀ x ∈ t, k < x :=
  (List.pairwise_cons.mp h).1

/-! ### keys / vals -/

@[simp] theorem keys_nil : keys [] = [] := rfl
@[simp] theorem vals_nil : vals [] = [] := rfl
@[simp] theorem keys_cons (k v : Nat) (t : FMap) : keys ((k, v) :: t) = k :: keys t := rfl
@[simp] theorem vals_cons (k v : Nat) (t : FMap) : vals ((k, v) :: t) = v :: vals t := rfl
@[simp] theorem keys_length (m : FMap) : (keys m).length = m.length := by simp [keys]
@[simp] theorem vals_length (m : FMap) : (vals m).length = m.length := by simp [vals]

theorem keys_eq_nil {m : FMap} (h : keys m = []) : m = [] := by
  cases m with
  | nil => rfl
  | cons a t => simp [keys] at h

theorem zip_keys_vals (m : FMap) : (keys m).zip (vals m) = m := by
  induction m with
  | nil => rfl
  | cons kv t ih => cases kv; simp [ih]

theorem keys_take (n : Nat) (m : FMap) : keys (m.take n) = (keys m).take n := by simp [keys, List.map_take]
theorem vals_take (n : Nat) (m : FMap) : vals (m.take n) = (vals m).take n := by simp [vals, List.map_take]
theorem keys_dropLast (m : FMap) : keys m.dropLast = (keys m).dropLast := by simp [keys, List.map_dropLast]
theorem vals_dropLast (m : FMap) : vals m.dropLast = (vals m).dropLast := by simp [vals, List.map_dropLast]
theorem keys_append (m o : FMap) : keys (m ++ o) = keys m ++ keys o := by simp [keys]
theorem vals_append (m o : FMap) : vals (m ++ o) = vals m ++ vals o := by simp [vals]

/-! ### evict -/

theorem evict_eq_take (n : Nat) (m : FMap) : evict n m = m.take n := by
  induction hlen : m.length generalizing m with
  | zero =>
    have : m = [] := List.eq_nil_of_length_eq_zero hlen
    subst this
    unfold evict; simp
  | succ k ih =>
    unfold evict
    by_cases h : n < m.length
    · simp only [h, if_true]
      have hl : m.dropLast.length = k := by simp [hlen]
      rw [ih _ hl, List.dropLast_eq_take, List.take_take]
      congr 1
      omega
    · simp only [h, if_false]
      exact (List.take_of_length_le (by omega)).symm

/-- `cap` is "keep the `num` smallest" on a num sketch and the identity on a scaled one -/
theorem cap_eq (σ : St) (m : FMap) : σ.cap m = if σ.num = 0 then m else m.take σ.num := by
  unfold St.cap; split <;> simp [evict_eq_take]

/-! ### pos -/

@[simp] theorem pos_nil (h : Nat) : pos [] h = 0 := rfl
theorem pos_cons (k : Nat) (t : List Nat) (h : Nat) : pos (k :: t) h = if k < h then pos t h + 1 else 0 := rfl

theorem pos_le_length (l : List Nat) (h : Nat) : pos l h ≤ l.length := by
  induction l with
  | nil => simp
  | cons k t ih => rw [pos_cons]; split <;> simp <;> omega

/-- past the last element: every element is smaller -/
theorem pos_eq_length {l : List Nat} {h : Nat} (hp : pos l h = l.length) : ∀ x ∈ l, x < h := by
  induction l with
  | nil => simp
  | cons k t ih =>
    rw [pos_cons] at hp
    split at hp
    · next hk =>
      intro x hx
      rcases List.mem_cons.mp hx with rfl | hx
      · exact hk
      · exact ih (by simpa using hp) x hx
    · simp at hp

theorem pos_of_all_lt {l : List Nat} {h : Nat} (hl : ∀ x ∈ l, x < h) : pos l h = l.length := by
  induction l with
  | nil => rfl
  | cons k t ih =>
    rw [pos_cons, if_pos (hl k (List.mem_cons_self ..)), ih (fun x hx => hl x (List.mem_cons_of_mem _ hx))]
    rfl

/-- the largest element of a strictly increasing list bounds all of them -/
theorem le_last_of_mem {l : List Nat} (hs : Sorted l) : ∀ x ∈ l, x ≤ lastOr0 l := by
  induction l with
  | nil => simp
  | cons k t ih =>
    intro x hx
    cases t with
    | nil => simp at hx; subst hx; simp [lastOr0]
    | cons k' t' =>
      have e : lastOr0 (k :: k' :: t') = lastOr0 (k' :: t') := by simp [lastOr0, List.getLast?_cons_cons]
      rw [e]
      rcases List.mem_cons.mp hx with rfl | hx
      · have := ih hs.tail k' (List.mem_cons_self ..)
        have := hs.head_lt k' (List.mem_cons_self ..)
        omega
      · exact ih hs.tail x hx

theorem lastOr0_mem {l : List Nat} (hne : l ≠ []) : lastOr0 l ∈ l := by
  unfold lastOr0
  cases h : l.getLast? with
  | none => simp at h; exact absurd h hne
  | some x => simpa using List.mem_of_getLast? h

/-! ### ins -/

theorem ins_ne_nil (m : FMap) (h a : Nat) : ins m h a ≠ [] := by
  cases m with
  | nil => simp [ins]
  | cons kv t =>
    cases kv with
    | mk k v =>
      simp only [ins]
      split
      · simp
      · split <;> simp

theorem mem_keys_ins {m : FMap} {h a x : Nat} : x ∈ keys (ins m h a) ↔ x = h ∨ x ∈ keys m := by
  induction m with
  | nil => simp [ins]
  | cons kv t ih =>
    cases kv with
    | mk k v =>
      simp only [ins]
      split
      · simp
      · split
        · next he => subst he; simp
        · simp only [keys_cons, List.mem_cons, ih]
          constructor
          · rintro (h1 | h1 | h1) <;> simp [h1]
          · rintro (h1 | h1 | h1) <;> simp [h1]

theorem sorted_ins {m : FMap} (hs : Sorted (keys m)) (h a : Nat) : Sorted (keys (ins m h a)) := by
  induction m with
  | nil => simp [ins]
  | cons kv t ih =>
    cases kv with
    | mk k v =>
      simp only [ins]
      split
      · next hlt =>
        simp only [keys_cons]
        refine List.pairwise_cons.mpr ⟨?_, hs⟩
        intro x hx
        rcases List.mem_cons.mp hx with rfl | hx
        · exact hlt
        · have := hs.head_lt x hx; omega
      · split
        · exact hs
        · next hnlt hne =>
          simp only [keys_cons]
          refine List.pairwise_cons.mpr ⟨?_, ih hs.tail⟩
          intro x hx
          rcases mem_keys_ins.mp hx with rfl | hx
          · omega
          · exact hs.head_lt x hx

theorem length_ins_le (m : FMap) (h a : Nat) : (ins m h a).length ≤ m.length + 1 := by
  induction m with
  | nil => simp [ins]
  | cons kv t ih =>
    cases kv with
    | mk k v =>
      simp only [ins]
      split
      · simp
      · split
        · simp
        · simp only [List.length_cons]; omega

/-- where the vector code finds the insertion point: three shapes of `ins` -/
theorem ins_at_end {m : FMap} {h : Nat} (a : Nat) (hp : pos (keys m) h = m.length) :
    ins m h a = m ++ [(h, a)] := by
  induction m with
  | nil => rfl
  | cons kv t ih =>
    cases kv with
    | mk k v =>
      simp only [keys_cons, pos_cons] at hp
      split at hp
      · next hk =>
        have hp' : pos (keys t) h = t.length := by simpa using hp
        simp only [ins]
        rw [if_neg (by omega), if_neg (by omega), ih hp']
        rfl
      · simp at hp

theorem ins_middle {m : FMap} {h : Nat} (a : Nat) (hlt : pos (keys m) h < m.length)
    (hnf : (keys m)[pos (keys m) h]? ≠ some h) :
    keys (ins m h a) = insertAt (keys m) (pos (keys m) h) h
    ∧ vals (ins m h a) = insertAt (vals m) (pos (keys m) h) a := by
  induction m with
  | nil => simp at hlt
  | cons kv t ih =>
    cases kv with
    | mk k v =>
      simp only [keys_cons, pos_cons] at hlt hnf ⊢
      by_cases hk : k < h
      · simp only [hk, if_true] at hlt hnf ⊢
        have hlt' : pos (keys t) h < t.length := by simpa using hlt
        have hnf' : (keys t)[pos (keys t) h]? ≠ some h := by simpa using hnf
        have := ih hlt' hnf'
        simp only [ins]
        rw [if_neg (by omega), if_neg (by omega)]
        simp [insertAt, this.1, this.2]
      · simp only [hk, if_false] at hlt hnf ⊢
        have hne : k ≠ h := by simpa using hnf
        simp only [ins]
        rw [if_pos (by omega)]
        simp [insertAt]

theorem ins_found {m : FMap} {h : Nat} (a : Nat) (hf : (keys m)[pos (keys m) h]? = some h) :
    keys (ins m h a) = keys m ∧ vals (ins m h a) = bump (vals m) (pos (keys m) h) a := by
  induction m with
  | nil => simp at hf
  | cons kv t ih =>
    cases kv with
    | mk k v =>
      simp only [keys_cons, pos_cons] at hf ⊢
      by_cases hk : k < h
      · simp only [hk, if_true] at hf ⊢
        have hf' : (keys t)[pos (keys t) h]? = some h := by simpa using hf
        have := ih hf'
        simp only [ins]
        rw [if_neg (by omega), if_neg (by omega)]
        simp [bump, this.1, this.2]
      · simp only [hk, if_false] at hf ⊢
        have he : k = h := by simpa using hf
        subst he
        simp [ins, bump]

/-! ### del -/

theorem keys_del (m : FMap) (h : Nat) : keys (del m h) = (keys m).filter (· != h) := by
  induction m with
  | nil => rfl
  | cons kv t ih =>
    cases kv with
    | mk k v =>
      simp only [del, List.filter_cons, keys_cons] at ih ⊢
      split <;> simp [ih]

theorem del_length_le (m : FMap) (h : Nat) : (del m h).length ≤ m.length := List.length_filter_le _ _

theorem sorted_del {m : FMap} (hs : Sorted (keys m)) (h : Nat) : Sorted (keys (del m h)) := by
  rw [keys_del]; exact hs.filter _

theorem mem_keys_del {m : FMap} {h x : Nat} (hx : x ∈ keys (del m h)) : x ∈ keys m := by
  rw [keys_del] at hx; exact (List.mem_filter.mp hx).1

/-- deleting a key smaller than all keys, or absent, changes nothing -/
theorem del_of_not_mem {m : FMap} {h : Nat} (hn : h ∉ keys m) : del m h = m := by
  unfold del
  rw [List.filter_eq_self]
  intro kv hkv
  have : kv.1 ∈ keys m := List.mem_map_of_mem hkv
  simp only [bne_iff_ne, ne_eq]
  intro he; exact hn (he ▸ this)

theorem del_not_found {m : FMap} {h : Nat} (hs : Sorted (keys m))
    (hnf : (keys m)[pos (keys m) h]? ≠ some h) : del m h = m := by
  apply del_of_not_mem
  induction m with
  | nil => simp
  | cons kv t ih =>
    cases kv with
    | mk k v =>
      simp only [keys_cons, pos_cons] at hnf ⊢
      by_cases hk : k < h
      · simp only [hk, if_true] at hnf
        have hnf' : (keys t)[pos (keys t) h]? ≠ some h := by simpa using hnf
        have := ih hs.tail hnf'
        simp only [List.mem_cons, not_or]
        exact ⟨by omega, this⟩
      · simp only [hk, if_false] at hnf
        have hne : k ≠ h := by simpa using hnf
        simp only [List.mem_cons, not_or]
        refine ⟨by omega, ?_⟩
        intro hm
        have := hs.head_lt h hm
        omega

theorem del_found {m : FMap} {h : Nat} (hs : Sorted (keys m))
    (hf : (keys m)[pos (keys m) h]? = some h) :
    keys (del m h) = removeAt (keys m) (pos (keys m) h)
    ∧ vals (del m h) = removeAt (vals m) (pos (keys m) h) := by
  induction m with
  | nil => simp at hf
  | cons kv t ih =>
    cases kv with
    | mk k v =>
      simp only [keys_cons, pos_cons] at hf ⊢
      by_cases hk : k < h
      · simp only [hk, if_true] at hf ⊢
        have hf' : (keys t)[pos (keys t) h]? = some h := by simpa using hf
        have := ih hs.tail hf'
        have hne : (k != h) = true := by simp; omega
        simp only [del, List.filter_cons, hne, if_true, keys_cons, vals_cons, removeAt] at this ⊢
        simp [this.1, this.2]
      · simp only [hk, if_false] at hf ⊢
        have he : k = h := by simpa using hf
        subst he
        have hnm : k ∉ keys t := fun hm => by have := hs.head_lt k hm; omega
        have := del_of_not_mem hnm
        simp only [del] at this
        simp [del, removeAt, this]

/-! ### has / setv -/

theorem has_iff_mem (m : FMap) (h : Nat) : has m h = true ↔ h ∈ keys m := by
  simp [has, keys]

theorem found_iff_mem {l : List Nat} (hs : Sorted l) (h : Nat) : l[pos l h]? = some h ↔ h ∈ l := by
  induction l with
  | nil => simp
  | cons k t ih =>
    rw [pos_cons]
    by_cases hk : k < h
    · simp only [hk, if_true, List.getElem?_cons_succ, ih hs.tail, List.mem_cons]
      constructor
      · exact Or.inr
      · rintro (rfl | hm)
        · omega
        · exact hm
    · simp only [hk, if_false, List.getElem?_cons_zero, List.mem_cons, Option.some.injEq]
      constructor
      · intro he; exact Or.inl he.symm
      · rintro (rfl | hm)
        · rfl
        · have := hs.head_lt h hm; omega

theorem keys_setv (m : FMap) (h a : Nat) : keys (setv m h a) = keys m := by
  unfold keys setv
  rw [List.map_map]
  apply List.map_congr_left
  intro kv _
  simp only [Function.comp]
  split <;> rfl

theorem setv_of_not_mem {m : FMap} {h : Nat} (a : Nat) (hn : h ∉ keys m) : setv m h a = m := by
  induction m with
  | nil => rfl
  | cons kv t ih =>
    cases kv with
    | mk k v =>
      simp only [keys_cons, List.mem_cons, not_or] at hn
      simp only [setv, List.map_cons] at ih ⊢
      rw [if_neg (fun he => hn.1 he.symm), ih hn.2]

theorem vals_setv_found {m : FMap} {h : Nat} (a : Nat) (hs : Sorted (keys m))
    (hf : (keys m)[pos (keys m) h]? = some h) :
    vals (setv m h a) = setAt (vals m) (pos (keys m) h) a := by
  induction m with
  | nil => simp at hf
  | cons kv t ih =>
    cases kv with
    | mk k v =>
      simp only [keys_cons, pos_cons] at hf ⊢
      by_cases hk : k < h
      · simp only [hk, if_true] at hf ⊢
        have hf' : (keys t)[pos (keys t) h]? = some h := by simpa using hf
        have := ih hs.tail hf'
        simp only [setv, List.map_cons] at this ⊢
        rw [if_neg (by omega)]
        simp [setAt, this]
      · simp only [hk, if_false] at hf ⊢
        have he : k = h := by simpa using hf
        subst he
        have hnm : k ∉ keys t := fun hm => by have := hs.head_lt k hm; omega
        have := setv_of_not_mem a hnm
        simp only [setv] at this
        simp [setv, setAt, this]

end Sample
