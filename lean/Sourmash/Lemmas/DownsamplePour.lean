import Sourmash.Lemmas.Downsample
/-! Helper lemmas for C04's "pour" clause (`pourScaled`: a new empty sketch at the target value, the
old sketch poured in through `add_from`). -/
namespace SetOps
open SetSpec

theorem belowP_ones (m : Nat) (l : List Nat) :
    (belowP m (l.map (fun h => (h, 1)))).map Prod.snd = (below m l).map (fun _ => 1) := by
  induction l with
  | nil => rfl
  | cons x t ih =>
    by_cases hx : x ≤ m
    · simpa [belowP, below, List.filter_cons, hx] using ih
    · simpa [belowP, below, List.filter_cons, hx] using ih

theorem belowP_ones_fst (m : Nat) (l : List Nat) :
    below m ((l.map (fun h => (h, 1))).map Prod.fst) = below m l := by
  simp [List.map_map, Function.comp_def]

/-- pouring a sketch without a `num` bound into an empty sketch made at `s'`: exactly the hashes under
the new ceiling, every one counted once -/
theorem pour_exact' (k : Kind) {x : Sk} (hw : SInc x.mins) (hn : x.num = 0) {s' : Nat}
    (hM : Scaled.maxHashForScaled s' ≠ 0) :
    pourScaled k x s' =
      { x with maxHash := Scaled.maxHashForScaled s', mins := below (Scaled.maxHashForScaled s') x.mins,
               abunds := x.abunds.map (fun _ => (below (Scaled.maxHashForScaled s') x.mins).map (fun _ => 1)) } := by
  simp only [pourScaled, Sk.addFrom, addMany_eq]
  rw [addManyAb_push k _ _ (by simpa [Sk.new] using hn) (by simpa [Sk.new] using hM)]
  · simp only [Sk.new, belowP_ones, belowP_ones_fst, List.nil_append, hn]
    cases hab : x.abunds <;> simp [Sk.track, hab]
  · refine ⟨by simp [Sk.new], ?_⟩
    intro ab h'
    by_cases ht : x.track <;> simp [Sk.new, ht] at h' <;> subst h' <;> simp [Sk.new]
  · simpa [List.map_map, Function.comp_def] using hw
  · simp [Sk.new]
  · simp

end SetOps
