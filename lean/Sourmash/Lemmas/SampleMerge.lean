import Sourmash.Lemmas.SampleList
/-! Lemmas/SampleMerge.lean — the two-pointer walks of `merge` (vector type) and the
`BTreeSet::union` + map-lookup rebuild (tree type) both compute the abstract key union with summed
abundances.  Core Lean only. -/
namespace Sample
open MH

/-! ### equations of the walks -/

theorem mergeLists_nil_left (o : FMap) : mergeLists [] o = o := by simp [mergeLists]
theorem mergeLists_nil_right (s : FMap) : mergeLists s [] = s := by cases s <;> simp [mergeLists]
theorem mergeLists_cons_cons (x a y b : Nat) (s o : FMap) :
    mergeLists ((x, a) :: s) ((y, b) :: o) =
      if y < x then (y, b) :: mergeLists ((x, a) :: s) o
      else if y = x then (x, a + b) :: mergeLists s o
      else (x, a) :: mergeLists s ((y, b) :: o) := by
  rw [mergeLists]

theorem mergeMins_nil_left (o : List Nat) : mergeMins [] o = o := by simp [mergeMins]
theorem mergeMins_nil_right (s : List Nat) : mergeMins s [] = s := by cases s <;> simp [mergeMins]
theorem mergeMins_cons_cons (x y : Nat) (s o : List Nat) :
    mergeMins (x :: s) (y :: o) =
      if y < x then y :: mergeMins (x :: s) o
      else if y = x then x :: mergeMins s o
      else x :: mergeMins s (y :: o) := by
  rw [mergeMins]

theorem unionSorted_eq_mergeMins (s o : List Nat) : unionSorted s o = mergeMins s o := by
  induction s, o using mergeMins.induct with
  | case1 o => simp [unionSorted, mergeMins]
  | case2 s hs => cases s <;> simp [unionSorted, mergeMins]
  | case3 x s y o hlt ih => rw [unionSorted, mergeMins_cons_cons, if_pos hlt, if_pos hlt, ih]
  | case4 y s o hlt ih =>
    rw [unionSorted, mergeMins_cons_cons, if_neg hlt, if_neg hlt, if_pos rfl, if_pos rfl, ih]
  | case5 x s y o hlt hne ih =>
    rw [unionSorted, mergeMins_cons_cons, if_neg hlt, if_neg hlt, if_neg hne, if_neg hne, ih]

/-- the hashes of the abundance-carrying walk are the hashes of the plain walk -/
theorem keys_mergeLists (m o : FMap) : keys (mergeLists m o) = mergeMins (keys m) (keys o) := by
  induction m, o using mergeLists.induct with
  | case1 o => simp [mergeLists_nil_left, mergeMins_nil_left]
  | case2 s hs => simp [mergeLists_nil_right, mergeMins_nil_right]
  | case3 x a s y b o hlt ih =>
    rw [mergeLists_cons_cons, if_pos hlt]
    simp only [keys_cons] at ih ⊢
    rw [mergeMins_cons_cons, if_pos hlt, ih]
  | case4 a s y b o hlt ih =>
    rw [mergeLists_cons_cons, if_neg hlt, if_pos rfl]
    simp only [keys_cons] at ih ⊢
    rw [mergeMins_cons_cons, if_neg hlt, if_pos rfl, ih]
  | case5 x a s y b o hlt hne ih =>
    rw [mergeLists_cons_cons, if_neg hlt, if_neg hne]
    simp only [keys_cons] at ih ⊢
    rw [mergeMins_cons_cons, if_neg hlt, if_neg hne, ih]

/-! ### the walk is the abstract union -/

@[simp] theorem union_nil (m : FMap) : union m [] = m := rfl
theorem union_cons (m : FMap) (k v : Nat) (o : FMap) : union m ((k, v) :: o) = union (ins m k v) o := rfl

/-- adding one entry that is below every key of `o` first, then walking = walking with it in front -/
theorem mergeLists_ins (m : FMap) (k v : Nat) (o : FMap) (hk : ∀ y ∈ keys o, k < y) :
    mergeLists (ins m k v) o = mergeLists m ((k, v) :: o) := by
  induction m with
  | nil =>
    simp only [ins, mergeLists_nil_left]
    cases o with
    | nil => simp [mergeLists_nil_right]
    | cons yb o' =>
      cases yb with
      | mk y b =>
        have : k < y := hk y (by simp)
        rw [mergeLists_cons_cons, if_neg (by omega), if_neg (by omega), mergeLists_nil_left]
  | cons xa s ih =>
    cases xa with
    | mk x a =>
      simp only [ins]
      by_cases h1 : k < x
      · rw [if_pos h1, mergeLists_cons_cons x a k v, if_pos h1]
        cases o with
        | nil => simp [mergeLists_nil_right]
        | cons yb o' =>
          cases yb with
          | mk y b =>
            have : k < y := hk y (by simp)
            rw [mergeLists_cons_cons k v y b, if_neg (by omega), if_neg (by omega)]
      · rw [if_neg h1]
        by_cases h2 : k = x
        · subst h2
          rw [if_pos rfl, mergeLists_cons_cons k a k v, if_neg h1, if_pos rfl]
          cases o with
          | nil => simp [mergeLists_nil_right]
          | cons yb o' =>
            cases yb with
            | mk y b =>
              have : k < y := hk y (by simp)
              rw [mergeLists_cons_cons k (a + v) y b, if_neg (by omega), if_neg (by omega)]
        · rw [if_neg h2, mergeLists_cons_cons x a k v, if_neg h1, if_neg h2, ← ih]
          cases o with
          | nil => simp [mergeLists_nil_right]
          | cons yb o' =>
            cases yb with
            | mk y b =>
              have : k < y := hk y (by simp)
              rw [mergeLists_cons_cons x a y b, if_neg (by omega), if_neg (by omega)]

/-- **the vector type's two-pointer walk is the key union with summed abundances** -/
theorem mergeLists_eq_union (m o : FMap) (ho : Sorted (keys o)) : mergeLists m o = union m o := by
  induction o generalizing m with
  | nil => simp [mergeLists_nil_right]
  | cons kv o' ih =>
    cases kv with
    | mk k v =>
      rw [union_cons, ← ih _ ho.tail, mergeLists_ins m k v o' ho.head_lt]

/-! ### invariants of the union -/

theorem sorted_union {m : FMap} (o : FMap) (hs : Sorted (keys m)) : Sorted (keys (union m o)) := by
  induction o generalizing m with
  | nil => exact hs
  | cons kv o' ih => cases kv; rw [union_cons]; exact ih (sorted_ins hs _ _)

theorem mem_keys_union {m o : FMap} {x : Nat} : x ∈ keys (union m o) → x ∈ keys m ∨ x ∈ keys o := by
  induction o generalizing m with
  | nil => exact Or.inl
  | cons kv o' ih =>
    cases kv with
    | mk k v =>
      rw [union_cons]
      intro hx
      rcases ih hx with h | h
      · rcases mem_keys_ins.mp h with rfl | h
        · right; simp
        · exact Or.inl h
      · right; simp [h]

/-! ### lookups (tree type) -/

theorem mapAdd_eq_ins (m : FMap) (h a : Nat) : mapAdd m h a = ins m h a := by
  induction m with
  | nil => rfl
  | cons kv t ih => cases kv; simp only [mapAdd, ins, ih]

theorem mapGet_nil (h : Nat) : mapGet [] h = 0 := rfl
theorem mapGet_cons (k v : Nat) (t : FMap) (h : Nat) :
    mapGet ((k, v) :: t) h = if k = h then v else mapGet t h := by
  unfold mapGet
  rw [List.find?_cons]
  by_cases hk : k = h
  · simp [hk]
  · have : (k == h) = false := by simp [hk]
    simp [hk, this]

theorem mapGet_of_not_mem {m : FMap} {h : Nat} (hn : h ∉ keys m) : mapGet m h = 0 := by
  induction m with
  | nil => rfl
  | cons kv t ih =>
    cases kv with
    | mk k v =>
      simp only [keys_cons, List.mem_cons, not_or] at hn
      rw [mapGet_cons, if_neg (fun e => hn.1 e.symm), ih hn.2]

/-- a map with distinct keys is its keys paired with their lookups -/
theorem map_self_of_sorted {m : FMap} (hs : Sorted (keys m)) :
    m = (keys m).map (fun h => (h, mapGet m h)) := by
  induction m with
  | nil => rfl
  | cons kv t ih =>
    cases kv with
    | mk k v =>
      simp only [keys_cons, List.map_cons, mapGet_cons, if_true]
      congr 1
      have h1 := ih hs.tail
      rw [List.map_congr_left (g := fun h => (h, mapGet t h))]
      · exact h1
      · intro x hx
        have := hs.head_lt x hx
        rw [if_neg (by omega)]

/-- lookup in the walk = sum of the lookups -/
theorem mapGet_mergeLists {m o : FMap} (hm : Sorted (keys m)) (ho : Sorted (keys o)) (h : Nat) :
    mapGet (mergeLists m o) h = mapGet m h + mapGet o h := by
  induction m, o using mergeLists.induct with
  | case1 o => simp [mergeLists_nil_left, mapGet_nil]
  | case2 s hs => simp [mergeLists_nil_right, mapGet_nil]
  | case3 x a s y b o hlt ih =>
    rw [mergeLists_cons_cons, if_pos hlt, mapGet_cons, ih hm ho.tail, mapGet_cons y b]
    by_cases hy : y = h
    · subst hy
      have : y ∉ keys ((x, a) :: s) := by
        simp only [keys_cons, List.mem_cons, not_or]
        refine ⟨by omega, fun hmem => ?_⟩
        have := hm.head_lt y hmem
        omega
      simp [mapGet_of_not_mem this]
    · simp [hy]
  | case4 a s y b o hlt ih =>
    rw [mergeLists_cons_cons, if_neg hlt, if_pos rfl, mapGet_cons, ih hm.tail ho.tail, mapGet_cons y a,
      mapGet_cons y b]
    by_cases hy : y = h
    · simp [hy]
    · simp [hy]
  | case5 x a s y b o hlt hne ih =>
    rw [mergeLists_cons_cons, if_neg hlt, if_neg hne, mapGet_cons, ih hm.tail ho, mapGet_cons x a]
    by_cases hx : x = h
    · subst hx
      have : x ∉ keys ((y, b) :: o) := by
        simp only [keys_cons, List.mem_cons, not_or]
        refine ⟨by omega, fun hmem => ?_⟩
        have := ho.head_lt x hmem
        omega
      simp [mapGet_of_not_mem this]
    · simp [hx]

theorem sorted_mergeLists {m o : FMap} (hm : Sorted (keys m)) (ho : Sorted (keys o)) :
    Sorted (keys (mergeLists m o)) := by
  rw [mergeLists_eq_union m o ho]; exact sorted_union o hm

/-- **the tree type's `union` + per-hash lookup rebuild is the key union with summed abundances** -/
theorem union_eq_lookup {m o : FMap} (hm : Sorted (keys m)) (ho : Sorted (keys o)) :
    union m o = (unionSorted (keys m) (keys o)).map (fun h => (h, mapGet m h + mapGet o h)) := by
  rw [← mergeLists_eq_union m o ho, unionSorted_eq_mergeMins, ← keys_mergeLists]
  have h1 := map_self_of_sorted (sorted_mergeLists hm ho)
  rw [List.map_congr_left (g := fun h => (h, mapGet m h + mapGet o h))] at h1
  · exact h1
  · intro x _; rw [mapGet_mergeLists hm ho]

theorem keys_union {m o : FMap} (ho : Sorted (keys o)) :
    keys (union m o) = mergeMins (keys m) (keys o) := by
  rw [← mergeLists_eq_union m o ho, keys_mergeLists]

end Sample
