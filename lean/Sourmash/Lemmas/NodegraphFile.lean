import Sourmash.Lemmas.NodegraphBits
/-! `save_to_writer` / `from_reader` of one table (C16): what the bytes are, position by position,
and what `with_capacity_and_blocks` makes of any byte string. -/
namespace NG

/-- byte m of the raw block dump -/
def blockByte (blocks : List Nat) (m : Nat) : Nat := (blocks.getD (m / 4) 0 >>> (8 * (m % 4))) % 256

theorem flatMap_le_length (L : List Nat) : (L.flatMap (fun b => le b 4)).length = 4 * L.length := by
  induction L with
  | nil => simp
  | cons x t ih => simp [List.flatMap_cons, le_length, ih]; omega

theorem flatMap_le_getElem? (L : List Nat) (m : Nat) :
    (L.flatMap (fun b => le b 4))[m]? = if m < 4 * L.length then some (blockByte L m) else none := by
  induction L generalizing m with
  | nil => simp
  | cons x t ih =>
    rw [List.flatMap_cons, List.getElem?_append, le_length]
    by_cases h : m < 4
    · have h0 : m / 4 = 0 := by omega
      have h1 : m % 4 = m := by omega
      have h2 : m < 4 * (t.length + 1) := by omega
      simp [h, le_getElem?, blockByte, h0, h1, h2]
    · rw [if_neg h, ih]
      have h0 : m / 4 = (m - 4) / 4 + 1 := by omega
      have h1 : m % 4 = (m - 4) % 4 := by omega
      by_cases h2 : m - 4 < 4 * t.length
      · have h3 : m < 4 * (t.length + 1) := by omega
        simp [h2, h3, blockByte, h0, h1]
      · have h3 : ¬ m < 4 * (t.length + 1) := by omega
        simp [h2, h3]

theorem blockByte_take (blocks : List Nat) (d m : Nat) (h : m < 4 * d) :
    blockByte (blocks.take d) m = blockByte blocks m := by
  have : m / 4 < d := by omega
  simp [blockByte, List.getD_eq_getElem?_getD, this]

/-- the data bytes `save_to_writer` emits for one table -/
def Table.dataBytes (t : Table) : List Nat := (List.range (t.size / 8 + 1)).map (blockByte t.blocks)

theorem Table.save_eq (t : Table) (hlen : t.blocks.length = nblocks t.size) :
    t.save = some (le t.size 8 ++ t.dataBytes) := by
  unfold Table.save
  have hdiv : ¬ (t.size / 8 + 1) / 4 > t.blocks.length := by rw [hlen]; unfold nblocks; omega
  simp only [hdiv, if_false, List.append_assoc]
  congr 2
  apply List.ext_getElem?
  intro m
  rw [List.getElem?_append, flatMap_le_length, flatMap_le_getElem?, List.length_take]
  have hmin : min ((t.size / 8 + 1) / 4) t.blocks.length = (t.size / 8 + 1) / 4 := by omega
  rw [hmin]
  unfold Table.dataBytes
  rw [List.getElem?_map]
  by_cases h1 : m < 4 * ((t.size / 8 + 1) / 4)
  · have h2 : m < t.size / 8 + 1 := by omega
    simp [h1, List.getElem?_range h2, blockByte_take _ _ _ h1]
  · rw [if_neg h1]
    by_cases h2 : m < t.size / 8 + 1
    · have hrem : (t.size / 8 + 1) % 4 ≠ 0 := by omega
      have h3 : m - 4 * ((t.size / 8 + 1) / 4) < (t.size / 8 + 1) % 4 := by omega
      have h4 : m - 4 * ((t.size / 8 + 1) / 4) < 4 := by omega
      have h5 : m / 4 = (t.size / 8 + 1) / 4 := by omega
      have h6 : m % 4 = m - 4 * ((t.size / 8 + 1) / 4) := by omega
      simp [hrem, h3, le_getElem?, h4, List.getElem?_range h2, blockByte, h5, h6]
    · have h3 : ¬ m - 4 * ((t.size / 8 + 1) / 4) < (t.size / 8 + 1) % 4 := by omega
      have : (List.range (t.size / 8 + 1))[m]? = none := by simp; omega
      simp [this]
      split
      · simp
      · simp [le_length]; omega

/-- the i-th little-endian 32-bit word of a byte string (missing bytes read as 0) -/
def chunk (data : List Nat) (i : Nat) : Nat := fromLE ((data.drop (4 * i)).take 4)

theorem chunk_lt (data : List Nat) (hb : ∀ x ∈ data, x < 256) (i : Nat) : chunk data i < 2 ^ 32 := by
  have hb' : ∀ x ∈ (data.drop (4 * i)).take 4, x < 256 :=
    fun x hx => hb x (List.mem_of_mem_drop (List.mem_of_mem_take hx))
  have h := fromLE_lt _ hb'
  have hl : ((data.drop (4 * i)).take 4).length ≤ 4 := by simp [List.length_take]; omega
  exact Nat.lt_of_lt_of_le h (Nat.pow_le_pow_right (by decide) (by omega))

theorem chunk_testBit (data : List Nat) (hb : ∀ x ∈ data, x < 256) (i j : Nat) :
    (chunk data i).testBit j = (decide (j < 32) && (data.getD (4 * i + j / 8) 0).testBit (j % 8)) := by
  have hb' : ∀ x ∈ (data.drop (4 * i)).take 4, x < 256 :=
    fun x hx => hb x (List.mem_of_mem_drop (List.mem_of_mem_take hx))
  unfold chunk
  rw [fromLE_testBit _ hb', List.getD_eq_getElem?_getD, List.getD_eq_getElem?_getD, List.getElem?_take,
    List.getElem?_drop]
  by_cases h : j < 32
  · have : j / 8 < 4 := by omega
    simp [h, this]
  · have : ¬ j / 8 < 4 := by omega
    simp [h, this]

theorem readBlocks_length (n : Nat) (bs : List Nat) : (readBlocks n bs).length = n := by
  induction n generalizing bs with
  | zero => simp [readBlocks]
  | succ n ih => simp [readBlocks, ih]

theorem readBlocks_getElem? (n : Nat) (bs : List Nat) (i : Nat) :
    (readBlocks n bs)[i]? = if i < n then some (chunk bs i) else none := by
  induction n generalizing bs i with
  | zero => simp [readBlocks]
  | succ n ih =>
    cases i with
    | zero => simp [readBlocks, chunk]
    | succ i =>
      simp only [readBlocks, List.getElem?_cons_succ, ih]
      have : 4 * (i + 1) = 4 + 4 * i := by omega
      simp [chunk, this, List.drop_drop]
      

/-- the block list `from_reader` hands to `with_capacity_and_blocks` -/
def rawBlocks (data : List Nat) : List Nat :=
  let nfull := data.length / 4
  let rem := data.length % 4
  if rem != 0 then readBlocks nfull data ++ [fromLE (data.drop (4 * nfull))] else readBlocks nfull data

theorem rawBlocks_getD (data : List Nat) (i : Nat) : (rawBlocks data).getD i 0 = chunk data i := by
  unfold rawBlocks
  simp only [List.getD_eq_getElem?_getD]
  by_cases hrem : data.length % 4 = 0
  · simp only [hrem, bne_self_eq_false, Bool.false_eq_true, if_false, readBlocks_getElem?]
    by_cases hi : i < data.length / 4
    · simp [hi]
    · have : data.drop (4 * i) = [] := List.drop_eq_nil_of_le (by omega)
      simp [hi, chunk, this, fromLE]
  · have hne : (data.length % 4 != 0) = true := by simp [hrem]
    simp only [hne, if_true, List.getElem?_append, readBlocks_length, readBlocks_getElem?]
    by_cases hi : i < data.length / 4
    · simp [hi]
    · rw [if_neg hi]
      by_cases hi2 : i = data.length / 4
      · subst hi2
        have : ((data.drop (4 * (data.length / 4))).take 4) = data.drop (4 * (data.length / 4)) :=
          List.take_of_length_le (by simp; omega)
        simp [chunk, this]
      · have h1 : data.drop (4 * i) = [] := List.drop_eq_nil_of_le (by omega)
        have h2 : i - data.length / 4 = (i - data.length / 4 - 1) + 1 := by omega
        rw [h2]
        simp [chunk, h1, fromLE]

theorem maskBlock_testBit (size i x j : Nat) (hx : x < 2 ^ 32) :
    (maskBlock size i x).testBit j = (decide (32 * i + j < size) && x.testBit j) := by
  unfold maskBlock
  by_cases h1 : 32 * (i + 1) ≤ size
  · rw [if_pos h1]
    by_cases hj : j < 32
    · have : 32 * i + j < size := by omega
      simp [this]
    · rw [testBit_false_of_lt32 hx (by omega)]; simp
  · rw [if_neg h1]
    by_cases h2 : 32 * i ≥ size
    · have : ¬ 32 * i + j < size := by omega
      simp [h2, this]
    · rw [if_neg h2, Nat.testBit_mod_two_pow]
      congr 1
      apply decide_eq_decide.mpr
      omega

theorem maskBlock_le (size i x : Nat) : maskBlock size i x ≤ x := by
  unfold maskBlock
  split
  · exact Nat.le_refl _
  · split
    · exact Nat.zero_le _
    · exact Nat.mod_le _ _

theorem wcab_length (size : Nat) (raw : List Nat) :
    (withCapacityAndBlocks size raw).blocks.length = nblocks size := by
  simp [withCapacityAndBlocks, List.length_take]

theorem wcab_getD (size : Nat) (raw : List Nat) (i : Nat) :
    (withCapacityAndBlocks size raw).blocks.getD i 0 =
      if i < nblocks size then maskBlock size i (raw.getD i 0) else 0 := by
  simp only [withCapacityAndBlocks, List.getD_eq_getElem?_getD, List.getElem?_mapIdx, List.getElem?_take,
    List.getElem?_append, List.getElem?_replicate]
  by_cases hi : i < nblocks size
  · simp only [hi, if_true]
    by_cases hr : i < raw.length
    · simp [hr]
    · have : i - raw.length < nblocks size := by omega
      have hn : raw[i]? = none := by simp; omega
      simp [hr, this]
  · simp [hi]

theorem wcab_get (size : Nat) (raw : List Nat) (hraw : ∀ i, raw.getD i 0 < 2 ^ 32) (b : Nat) :
    (withCapacityAndBlocks size raw).get b =
      (decide (b < size) && (raw.getD (b / 32) 0).testBit (b % 32)) := by
  unfold Table.get
  rw [wcab_getD]
  by_cases h1 : b / 32 < nblocks size
  · rw [if_pos h1, maskBlock_testBit _ _ _ _ (hraw _)]
    congr 1
    apply decide_eq_decide.mpr
    omega
  · rw [if_neg h1]
    have : ¬ b < size := by unfold nblocks at h1; omega
    simp [this]

theorem wcab_lt (size : Nat) (raw : List Nat) (hraw : ∀ i, raw.getD i 0 < 2 ^ 32) :
    ∀ x ∈ (withCapacityAndBlocks size raw).blocks, x < 2 ^ 32 := by
  intro x hx
  obtain ⟨i, hi, rfl⟩ := List.getElem_of_mem hx
  have h := wcab_getD size raw i
  have hi' : i < nblocks size := by rw [wcab_length] at hi; exact hi
  rw [if_pos hi', getD_of_lt _ _ hi] at h
  rw [h]
  exact Nat.lt_of_le_of_lt (maskBlock_le _ _ _) (hraw i)

end NG
