import Sourmash.Lemmas.GatherRun
import Sourmash.Spec.Gather
/-! Lemmas behind T-cover and T-stats (core Lean only): sizes of the remaining query, weighted sums,
which hashes a run explains. -/
namespace Gather

/-! ### sizes -/

theorem length_filter_add_not {α} (l : List α) (q : α → Bool) :
    (l.filter q).length + (l.filter (fun x => !q x)).length = l.length := by
  induction l with
  | nil => rfl
  | cons x t ih =>
    simp only [List.filter_cons]
    cases q x <;> simp <;> omega

theorem inv_keys_nodup {c : Cfg} (w : WF c) {s : St} (hi : Inv c s) : (keys s.remaining).Nodup := by
  rw [hi.rem]; exact keys_minus_nodup w _

/-- the intersection of a dataset with the remaining query has as many hashes as the query has entries
    inside the dataset -/
theorem isect_length_eq {c : Cfg} (w : WF c) {s : St} (hi : Inv c s) (d : Nat) :
    (isectL (dsOf c.dsets d) (keys s.remaining)).length
      = (s.remaining.filter (fun p => (dsOf c.dsets d).contains p.1)).length := by
  rw [isectL_length_comm (dsOf_nodup w d) (inv_keys_nodup w hi)]
  unfold isectL
  rw [← keys_filter s.remaining (fun h => (dsOf c.dsets d).contains h)]
  simp [keys]

/-- a round takes exactly the intersection out of the remaining query -/
theorem step_remaining_length {c : Cfg} (w : WF c) {s s' : St} {row : Row} (hi : Inv c s)
    (h : step c s = some (row, s')) : s'.remaining.length + row.isect.length = s.remaining.length := by
  obtain ⟨d, size, _, _, _, _, _, hrow, hs'⟩ := step_some h
  have h1 : s'.remaining = s.remaining.filter (fun p => !(dsOf c.dsets d).contains p.1) := by rw [hs']
  rw [h1, hrow, stats_isect, isect_length_eq w hi d]
  have := length_filter_add_not s.remaining (fun p => (dsOf c.dsets d).contains p.1)
  omega

/-- `remaining_bp` of a row is the size of the remaining query after the round, in bp -/
theorem step_remaining_bp {c : Cfg} (w : WF c) {s s' : St} {row : Row} (hi : Inv c s)
    (h : step c s = some (row, s')) : row.remainingBp = s'.remaining.length * c.scaled := by
  have hl := step_remaining_length w hi h
  obtain ⟨d, size, _, _, _, _, _, hrow, hs'⟩ := step_some h
  have : row.remainingBp = ((keys s.remaining).length - row.isect.length) * c.scaled := by rw [hrow]; rfl
  rw [this]
  simp only [keys, List.length_map]
  congr 1
  omega

/-- sum of the intersection sizes of the rows of a run -/
def isectSum (l : List (St × Row)) : Nat := (l.map (·.2.isect.length)).sum

/-- positional version: the remaining query at a round plus everything explained before it is what the run
    started with -/
theorem run_split_length {c : Cfg} (w : WF c) {pre : List (St × Row)} :
    ∀ {f : Nat} {s : St} {p : St × Row} {post : List (St × Row)},
    run c f s = pre ++ p :: post → Inv c s →
    p.1.remaining.length + isectSum pre = s.remaining.length := by
  induction pre with
  | nil =>
    intro f s p post h hi
    obtain ⟨hp, _⟩ := run_cons h
    rw [hp]; simp [isectSum]
  | cons x pre ih =>
    intro f s p post h hi
    obtain ⟨hx, f', s2, _, hstep, hpost⟩ := run_cons h
    have h1 := ih hpost.symm (inv_step w hi hstep)
    have h2 := step_remaining_length w hi hstep
    simp only [isectSum, List.map_cons, List.sum_cons] at h1 ⊢
    omega

/-- whole run: what is left at the end plus everything explained is what the run started with -/
theorem final_length {c : Cfg} (w : WF c) : ∀ (f : Nat) {s : St}, Inv c s →
    (final c f s).remaining.length + isectSum (run c f s) = s.remaining.length := by
  intro f
  induction f with
  | zero => intro s _; simp [final, run, isectSum]
  | succ f ih =>
    intro s hi
    unfold final run
    cases hstep : step c s with
    | none => simp [isectSum]
    | some p =>
      obtain ⟨row, s'⟩ := p
      have h1 := ih (inv_step w hi hstep)
      have h2 := step_remaining_length w hi hstep
      simp only [isectSum, List.map_cons, List.sum_cons] at h1 ⊢
      omega

/-! ### weighted figures -/

theorem eq_of_key_eq {l : List (Nat × Nat)} (hn : (keys l).Nodup) {e e' : Nat × Nat}
    (he : e ∈ l) (he' : e' ∈ l) (hk : e.1 = e'.1) : e = e' := by
  induction l with
  | nil => simp at he
  | cons x t ih =>
    simp only [keys, List.map_cons, List.nodup_cons] at hn
    rw [List.mem_cons] at he he'
    rcases he with rfl | he <;> rcases he' with rfl | he'
    · rfl
    · exact absurd (List.mem_map.mpr ⟨e', he', hk.symm⟩) hn.1
    · exact absurd (List.mem_map.mpr ⟨e, he, hk⟩) hn.1
    · exact ih hn.2 he he'

/-- the entries of the remaining query inside the match are the entries of the original query whose
    hash is in the reported intersection -/
theorem remaining_in_match {c : Cfg} (w : WF c) {s : St} (hi : Inv c s) (d : Nat) :
    s.remaining.filter (fun p => (dsOf c.dsets d).contains p.1)
      = c.orig.filter (fun p => (isectL (dsOf c.dsets d) (keys s.remaining)).contains p.1) := by
  rw [hi.rem]
  unfold minus
  rw [List.filter_filter]
  apply List.filter_congr
  intro e he
  rw [Bool.eq_iff_iff]
  simp only [Bool.and_eq_true, List.contains_iff_mem, mem_isectL, keys, List.mem_map, List.mem_filter]
  constructor
  · rintro ⟨h1, h2⟩
    exact ⟨h1, e, ⟨he, h2⟩, rfl⟩
  · rintro ⟨h1, e', ⟨he', h2⟩, hk⟩
    have := eq_of_key_eq w.q he' he hk
    subst this
    exact ⟨h1, h2⟩

/-- weighted sum of a hash set under the query's abundances: Σ over the query entries whose hash is in it -/
def weightIn (q : List (Nat × Nat)) (hs : List Nat) : Nat := ((q.filter (fun p => hs.contains p.1)).map (·.2)).sum

theorem stats_nUniqueW (c : Cfg) (rem : List (Nat × Nat)) (d size rank sumW : Nat) :
    (stats c rem d size rank sumW).nUniqueW
      = if c.track then ((rem.filter (fun p => (dsOf c.dsets d).contains p.1)).map (·.2)).sum else 0 := rfl

theorem stats_sumW (c : Cfg) (rem : List (Nat × Nat)) (d size rank sumW : Nat) :
    (stats c rem d size rank sumW).sumW
      = if c.track then sumW + (stats c rem d size rank sumW).nUniqueW else 0 := by
  simp only [stats]

/-- `n_unique_weighted_found` of a round -/
theorem step_nUniqueW {c : Cfg} (w : WF c) {s s' : St} {row : Row} (hi : Inv c s)
    (h : step c s = some (row, s')) :
    row.nUniqueW = if c.track then weightIn c.orig row.isect else 0 := by
  obtain ⟨d, size, _, _, _, _, _, hrow, _⟩ := step_some h
  rw [hrow, stats_nUniqueW, stats_isect, remaining_in_match w hi d]
  rfl

/-- `sum_weighted_found` accumulates (for untracked queries both figures stay 0) -/
theorem step_sumW {c : Cfg} {s s' : St} {row : Row} (h : step c s = some (row, s'))
    (h0 : c.track = false → s.sumW = 0) :
    row.sumW = s.sumW + row.nUniqueW ∧ s'.sumW = row.sumW ∧ (c.track = false → s'.sumW = 0) := by
  obtain ⟨d, size, _, _, _, _, _, hrow, hs'⟩ := step_some h
  have h1 : s'.sumW = row.sumW := by rw [hs']
  have h2 : row.sumW = if c.track then s.sumW + row.nUniqueW else 0 := by rw [hrow, stats_sumW]
  have h3 : c.track = false → row.nUniqueW = 0 := by
    intro ht; rw [hrow, stats_nUniqueW]; simp [ht]
  cases ht : c.track
  · have := h0 ht
    have h3 := h3 ht
    simp only [ht, Bool.false_eq_true, if_false] at h2
    refine ⟨by omega, h1, fun _ => by omega⟩
  · simp only [ht, if_true] at h2
    exact ⟨h2, h1, fun h => by simp at h⟩

def weightSum (l : List (St × Row)) : Nat := (l.map (·.2.nUniqueW)).sum

theorem run_split_sumW {c : Cfg} {pre : List (St × Row)} :
    ∀ {f : Nat} {s : St} {p : St × Row} {post : List (St × Row)},
    run c f s = pre ++ p :: post → (c.track = false → s.sumW = 0) →
    p.1.sumW = s.sumW + weightSum pre ∧ (c.track = false → p.1.sumW = 0) := by
  induction pre with
  | nil =>
    intro f s p post h h0
    obtain ⟨hp, _⟩ := run_cons h
    rw [hp]; simp [weightSum]; exact h0
  | cons x pre ih =>
    intro f s p post h h0
    obtain ⟨hx, f', s2, _, hstep, hpost⟩ := run_cons h
    have hs := step_sumW hstep h0
    have h1 := ih hpost.symm hs.2.2
    refine ⟨?_, h1.2⟩
    simp only [weightSum, List.map_cons, List.sum_cons] at h1 ⊢
    omega

/-! ### which hashes a run explains -/

/-- a hash of the remaining query that is gone when the loop stops is in some reported intersection -/
theorem run_explains {c : Cfg} (h : Nat) : ∀ (f : Nat) {s : St},
    h ∈ keys s.remaining → h ∉ keys (final c f s).remaining → ∃ p ∈ run c f s, h ∈ p.2.isect := by
  intro f
  induction f with
  | zero => intro s h1 h2; exact absurd h1 h2
  | succ f ih =>
    intro s h1 h2
    unfold final at h2
    unfold run
    cases hstep : step c s with
    | none => rw [hstep] at h2; exact absurd h1 h2
    | some p =>
      obtain ⟨row, s'⟩ := p
      rw [hstep] at h2
      simp only at h2 ⊢
      by_cases h3 : h ∈ keys s'.remaining
      · obtain ⟨p, hp, hh⟩ := ih h3 h2
        exact ⟨p, List.mem_cons_of_mem _ hp, hh⟩
      · refine ⟨(s, row), List.mem_cons_self, ?_⟩
        obtain ⟨d, size, _, _, _, _, _, hrow, hs'⟩ := step_some hstep
        have h4 : s'.remaining = s.remaining.filter (fun p => !(dsOf c.dsets d).contains p.1) := by rw [hs']
        rw [h4, keys_after, List.mem_filter] at h3
        show h ∈ row.isect
        rw [hrow, stats_isect, mem_isectL]
        refine ⟨?_, h1⟩
        apply Classical.byContradiction
        intro hn
        exact h3 ⟨h1, by simpa using hn⟩

/-- a hash in the query minus some datasets is in none of them -/
theorem mem_keys_minus {c : Cfg} {rep : List Nat} {h : Nat} :
    h ∈ keys (minus c rep) ↔ h ∈ keys c.orig ∧ ∀ d ∈ rep, h ∉ dsOf c.dsets d := by
  simp only [keys, minus, List.mem_map, List.mem_filter, List.all_eq_true]
  constructor
  · rintro ⟨e, ⟨he, hall⟩, rfl⟩
    refine ⟨⟨e, he, rfl⟩, fun d hd hm => ?_⟩
    have := hall d hd
    rw [List.contains_iff_mem.mpr hm] at this
    simp at this
  · rintro ⟨⟨e, he, rfl⟩, hall⟩
    refine ⟨e, ⟨he, fun d hd => ?_⟩, rfl⟩
    have := hall d hd
    cases hc : (dsOf c.dsets d).contains e.1
    · rfl
    · exact absurd (List.contains_iff_mem.mp hc) this

/-! ### the weighted sum as a sum of per-hash lookups (the specification's `abundOf`) -/

theorem sum_filter_or (q : List (Nat × Nat)) (a b : Nat × Nat → Bool)
    (hdisj : ∀ e ∈ q, ¬ (a e = true ∧ b e = true)) :
    ((q.filter (fun e => a e || b e)).map (·.2)).sum
      = ((q.filter a).map (·.2)).sum + ((q.filter b).map (·.2)).sum := by
  induction q with
  | nil => rfl
  | cons x t ih =>
    have ih := ih (fun e he => hdisj e (List.mem_cons_of_mem _ he))
    have hx := hdisj x List.mem_cons_self
    simp only [List.filter_cons]
    cases ha : a x <;> cases hb : b x
    · simpa using ih
    · simp only [Bool.false_or, if_true, List.map_cons, List.sum_cons, Bool.false_eq_true, if_false]; omega
    · simp only [Bool.true_or, if_true, List.map_cons, List.sum_cons, Bool.false_eq_true, if_false]; omega
    · exact absurd ⟨ha, hb⟩ hx

theorem sum_filter_key (q : List (Nat × Nat)) (hq : (keys q).Nodup) (h : Nat) :
    ((q.filter (fun e => e.1 == h)).map (·.2)).sum = GatherSpec.abundOf q h := by
  induction q with
  | nil => rfl
  | cons x t ih =>
    simp only [keys, List.map_cons, List.nodup_cons] at hq
    have ih := ih hq.2
    simp only [List.filter_cons, GatherSpec.abundOf, List.find?_cons]
    cases hx : x.1 == h
    · simpa [GatherSpec.abundOf] using ih
    · have hxh : x.1 = h := by simpa using hx
      have : t.filter (fun e => e.1 == h) = [] := by
        rw [List.filter_eq_nil_iff]
        intro e he hc
        have hc : e.1 = h := by simpa using hc
        exact hq.1 (List.mem_map.mpr ⟨e, he, by rw [hc, hxh]⟩)
      simp [this]

/-- `Σ_{h ∈ hs} abund_Q(h)` with `abund_Q` the lookup of the specification -/
theorem weightIn_eq_sum_abundOf {q : List (Nat × Nat)} (hq : (keys q).Nodup) :
    ∀ {hs : List Nat}, hs.Nodup → weightIn q hs = (hs.map (GatherSpec.abundOf q)).sum := by
  intro hs
  induction hs with
  | nil =>
    intro _
    have : q.filter (fun _ => false) = [] := List.filter_eq_nil_iff.mpr (fun _ _ h => by simp at h)
    simp [weightIn, this]
  | cons h t ih =>
    intro hn
    rw [List.nodup_cons] at hn
    have ih := ih hn.2
    simp only [List.map_cons, List.sum_cons]
    rw [← ih, ← sum_filter_key q hq h]
    unfold weightIn
    have : (fun p : Nat × Nat => (h :: t).contains p.1) = (fun e => (e.1 == h) || t.contains e.1) := by
      funext p; rw [List.contains_cons]
    rw [this]
    apply sum_filter_or
    intro e _ hc
    have h1 : e.1 = h := by simpa using hc.1
    have h2 : e.1 ∈ t := by simpa using hc.2
    exact hn.1 (h1 ▸ h2)

end Gather
