import Sourmash.Lemmas.Select
import Sourmash.Lemmas.CsvDec
/-! Lemmas for C12, T-lookup: from a record of `Collection::from_sigs` back to its one sketch. -/
namespace Select
open Scaled

/-- what `Selection::from_record` can tell sketches apart by -/
def lookupKey (s : Sketch) : Nat × Mol × Bool := (s.described.ksize, s.mol, s.tracked)

theorem filter_unique {α β : Type} [DecidableEq β] (key : α → β) (p : α → Bool) (s : α) (l : List α)
    (hp : ∀ t, p t = decide (key t = key s))
    (hd : l.Pairwise (fun a b => key a ≠ key b)) (hs : s ∈ l) : l.filter p = [s] := by
  induction l with
  | nil => cases hs
  | cons a l ih =>
    rw [List.pairwise_cons] at hd
    obtain ⟨ha, hl⟩ := hd
    by_cases hsa : s = a
    · subst hsa
      have h1 : p s = true := by rw [hp]; simp
      have h2 : l.filter p = [] := by
        rw [List.filter_eq_nil_iff]
        intro b hb
        rw [hp]
        have := ha b hb
        simpa using fun h => this h.symm
      rw [List.filter_cons, h1, if_pos rfl, h2]
    · have hs' : s ∈ l := by
        cases hs with
        | head => exact absurd rfl hsa
        | tail _ h => exact h
      have h1 : p a = false := by
        rw [hp]
        have := ha s hs'
        simpa using this
      rw [List.filter_cons, h1]
      simpa using ih hl hs'

/-- `Selection::from_record` of the record of `s` -/
def recSel (s : Sketch) : Selection := { ksize := some s.described.ksize, abund := some s.tracked, moltype := some s.mol }

/-- the record of sketch `s` selects exactly `s` out of a signature whose sketches have pairwise
    different keys -/
theorem select_fromRecord (md5of : Sketch → Bytes) (nm fn path : Bytes) (sg : Sig) (s : Sketch)
    (hk : ∀ t ∈ sg.sketches, t.mol.proteinFamily = true → t.ksize % 3 = 0)
    (hd : sg.sketches.Pairwise (fun a b => lookupKey a ≠ lookupKey b)) (hs : s ∈ sg.sketches) :
    ∃ sel, Selection.fromRecord (mkRecord md5of nm fn path s) = some sel ∧
      sg.select sel = .ok { sg with sketches := [s] } := by
  refine ⟨recSel s, ?_, ?_⟩
  · simp [Selection.fromRecord, mkRecord, Record.mol?, Mol.parse_name, Sketch.described, recSel]
  · have hf : sg.sketches.filter (keep (recSel s)) = [s] := by
      have e : sg.sketches.filter (keep (recSel s))
          = sg.sketches.filter (fun t => decide (lookupKey t = lookupKey s)) := by
        apply List.filter_congr
        intro t ht
        rw [keep_eq_satisfies _ t (hk t ht), Bool.eq_iff_iff]
        simp [satisfies, crit, lookupKey, Sketch.described, recSel]
        grind
      rw [e]
      exact filter_unique lookupKey _ s _ (fun _ => rfl) hd hs
    have hn : (recSel s).scaled = none := rfl
    simp only [Sig.select, hn, hf]

/-- … and whenever the number of sketches with the record's key is not one, the look-up panics -/
theorem sigFromRecord_panics (md5of : Sketch → Bytes) (nm fn path : Bytes) (c : Collection) (sg : Sig)
    (s : Sketch) (hk : ∀ t ∈ sg.sketches, t.mol.proteinFamily = true → t.ksize % 3 = 0)
    (hl : loadSig c.storage path = some sg)
    (hcount : (sg.sketches.filter (fun t => decide (lookupKey t = lookupKey s))).length ≠ 1) :
    c.sigFromRecord (mkRecord md5of nm fn path s) = none := by
  have hsel : Selection.fromRecord (mkRecord md5of nm fn path s) = some (recSel s) := by
    simp [Selection.fromRecord, mkRecord, Record.mol?, Mol.parse_name, Sketch.described, recSel]
  have e : sg.sketches.filter (keep (recSel s))
      = sg.sketches.filter (fun t => decide (lookupKey t = lookupKey s)) := by
    apply List.filter_congr
    intro t ht
    rw [keep_eq_satisfies _ t (hk t ht), Bool.eq_iff_iff]
    simp [satisfies, crit, lookupKey, Sketch.described, recSel]
    grind
  have hn : (recSel s).scaled = none := rfl
  have hloc : (mkRecord md5of nm fn path s).internalLocation = path := rfl
  simp only [Collection.sigFromRecord, hsel, hloc, hl, sigStoreSelect, Sig.select, hn, e]
  simp [hcount]

theorem loadSig_cons_ne (p : Bytes × Sig) (st : List (Bytes × Sig)) (path : Bytes) (h : p.1 ≠ path) :
    loadSig (p :: st) path = loadSig st path := by
  have : (p.1 == path) = false := by simpa using h
  simp [loadSig, this]

theorem loadSig_cons_eq (path : Bytes) (sg : Sig) (st : List (Bytes × Sig)) :
    loadSig ((path, sg) :: st) path = some sg := by
  simp [loadSig]

/-- what `from_sigs` builds: every record is the record of a sketch of one of the signatures, its
    location is the decimal position of that signature, and the storage has the signature there -/
theorem fromSigsAux_spec (md5of : Sketch → Bytes) (sigs : List Sig) :
    ∀ (k : Nat) (rs : List Record) (sts : List (Bytes × Sig)),
      fromSigsAux md5of k sigs = some (rs, sts) →
      ∀ r ∈ rs, ∃ j, k ≤ j ∧ ∃ sg ∈ sigs, ∃ s ∈ sg.sketches, ∃ nm,
        r = mkRecord md5of nm sg.filenameStr (natBytes j) s ∧ loadSig sts (natBytes j) = some sg := by
  induction sigs with
  | nil =>
    intro k rs sts h r hr
    simp only [fromSigsAux] at h
    cases h; cases hr
  | cons sg rest ih =>
    intro k rs sts h r hr
    simp only [fromSigsAux] at h
    split at h
    · cases h
    · rename_i recs hrecs
      split at h
      · cases h
      · rename_i st hst
        split at h
        · cases h
        · rename_i rs' sts' haux
          cases h
          have hst' : st = sg := by
            unfold sigStoreOf at hst
            split at hst
            · cases hst
            · cases hst; rfl
          subst hst'
          rcases List.mem_append.1 hr with hr | hr
          · -- a record of this signature
            unfold fromSig at hrecs
            split at hrecs
            · cases hrecs; cases hr
            · split at hrecs
              · cases hrecs
              · rename_i nm _
                cases hrecs
                obtain ⟨s, hs, rfl⟩ := List.mem_map.1 hr
                exact ⟨k, Nat.le_refl k, st, List.mem_cons_self .., s, hs, nm, rfl, loadSig_cons_eq ..⟩
          · obtain ⟨j, hj, sg', hsg', s, hs, nm, hr', hl⟩ := ih (k + 1) rs' sts' haux r hr
            refine ⟨j, by omega, sg', List.mem_cons_of_mem _ hsg', s, hs, nm, hr', ?_⟩
            rw [loadSig_cons_ne _ _ _ ?_]
            · exact hl
            · intro e
              have := Manifest.natBytes_injective k j e
              omega

theorem lookup_ok (md5of : Sketch → Bytes) (sigs : List Sig) (c : Collection)
    (hc : Collection.fromSigs md5of sigs = some c)
    (hk : ∀ sg ∈ sigs, ∀ s ∈ sg.sketches, s.mol.proteinFamily = true → s.ksize % 3 = 0)
    (hd : ∀ sg ∈ sigs, sg.sketches.Pairwise (fun s t => lookupKey s ≠ lookupKey t))
    (i : Nat) (hi : i < c.manifest.length) :
    ∃ sg ∈ sigs, ∃ s ∈ sg.sketches,
      c.sigForDataset i = some (.ok { sg with sketches := [s] }) ∧
      ∃ nm, c.manifest[i] = mkRecord md5of nm sg.filenameStr c.manifest[i].internalLocation s := by
  unfold Collection.fromSigs at hc
  split at hc
  · cases hc
  · rename_i rs sts haux
    cases hc
    obtain ⟨j, _, sg, hsg, s, hs, nm, hr, hl⟩ :=
      fromSigsAux_spec md5of sigs 0 rs sts haux rs[i] (List.getElem_mem hi)
    refine ⟨sg, hsg, s, hs, ?_, nm, ?_⟩
    · obtain ⟨sel, hsel, hselect⟩ := select_fromRecord md5of nm sg.filenameStr (natBytes j) sg s
        (hk sg hsg) (hd sg hsg) hs
      have hloc : (mkRecord md5of nm sg.filenameStr (natBytes j) s).internalLocation = natBytes j := rfl
      simp only [Collection.sigForDataset, List.getElem?_eq_getElem hi, Collection.sigFromRecord]
      rw [hr, hsel]
      simp only [hloc, hl, sigStoreSelect, hselect]
      simp
    · show rs[i] = _
      rw [hr]
      rfl
end Select
