import Sourmash.Lemmas.Similarity
/-!
Lemmas/SimilarityNum.lean — C05, integer core, part 2 (core Lean only): the num branch of
`intersection_size`.  The combined sketch (`new(.., num)`, `merge(self)`, `merge(other)`) holds the
`num` smallest members of the union in both containers, and the pair the code returns is
`(|A ∩ B ∩ bottom_n(A ∪ B)|, |bottom_n(A ∪ B)|)`.
-/
namespace Similarity
open SimilaritySpec

/-! ### the two merges agree -/

theorem treeUnion_eq_mergeWalk (a b : List Nat) : treeUnion a b = mergeWalk a b := by
  fun_induction treeUnion a b with
  | case1 ys => simp [mergeWalk]
  | case2 x xs => simp [mergeWalk]
  | case3 x xs y ys hxy ih =>
    have h1 : ¬ y < x := by omega
    have h2 : ¬ y = x := by omega
    rw [mergeWalk]; simp [h1, h2, ih]
  | case4 x xs y ys hxy hyx ih => rw [mergeWalk]; simp [hyx, ih]
  | case5 x xs y ys hxy hyx ih =>
    have : y = x := by omega
    subst this
    rw [mergeWalk]; simp [ih]

theorem mergeVec_eq_mergeTree (n : Nat) (a b : List Nat) : mergeVec n a b = mergeTree n a b := by
  unfold mergeVec mergeTree
  rw [treeUnion_eq_mergeWalk]
  by_cases hn : n = 0
  · simp [hn]
  · simp only [hn, ne_eq, not_false_eq_true, and_true, if_false]
    split
    · rfl
    · rw [List.take_of_length_le (by omega)]

theorem mergeMins_eq (c : Container) (n : Nat) (a b : List Nat) :
    mergeMins c n a b = if n = 0 then mergeWalk a b else (mergeWalk a b).take n := by
  cases c
  · simp only [mergeMins]; rw [mergeVec_eq_mergeTree]; simp [mergeTree, treeUnion_eq_mergeWalk]
  · simp [mergeMins, mergeTree, treeUnion_eq_mergeWalk]

theorem mergeWalk_nil_left (b : List Nat) : mergeWalk [] b = b := by
  simp [mergeWalk]

theorem mergeWalk_nil_right (a : List Nat) : mergeWalk a [] = a := by
  cases a <;> simp [mergeWalk]

theorem mem_mergeWalk (a b : List Nat) (h : Nat) : h ∈ mergeWalk a b ↔ h ∈ a ∨ h ∈ b := by
  fun_induction mergeWalk a b with
  | case1 ys => simp
  | case2 x xs => simp
  | case3 x xs y ys hyx ih => simp only [List.mem_cons, ih]; grind
  | case4 xs y ys hyx ih => simp only [List.mem_cons, ih]; grind
  | case5 x xs y ys hyx hxy ih => simp only [List.mem_cons, ih]; grind

theorem sorted_mergeWalk (a b : List Nat) (ha : Sorted a) (hb : Sorted b) :
    Sorted (mergeWalk a b) := by
  fun_induction mergeWalk a b with
  | case1 ys => exact hb
  | case2 x xs => exact ha
  | case3 x xs y ys hyx ih =>
    refine List.pairwise_cons.mpr ⟨?_, ih ha hb.tail⟩
    intro k hk
    rcases (mem_mergeWalk _ _ k).mp hk with hk | hk
    · rcases List.mem_cons.mp hk with rfl | hk
      · exact hyx
      · have := ha.head_lt k hk; omega
    · exact hb.head_lt k hk
  | case4 xs y ys hyx ih =>
    refine List.pairwise_cons.mpr ⟨?_, ih ha.tail hb.tail⟩
    intro k hk
    rcases (mem_mergeWalk _ _ k).mp hk with hk | hk
    · have := ha.head_lt k hk; omega
    · exact hb.head_lt k hk
  | case5 x xs y ys hyx hxy ih =>
    refine List.pairwise_cons.mpr ⟨?_, ih ha.tail hb⟩
    intro k hk
    rcases (mem_mergeWalk _ _ k).mp hk with hk | hk
    · exact ha.head_lt k hk
    · rcases List.mem_cons.mp hk with rfl | hk
      · omega
      · have := hb.head_lt k hk; omega

/-- truncating the first operand to at least `n` does not change the first `n` merged hashes -/
theorem take_mergeWalk_take (a b : List Nat) :
    ∀ n m, n ≤ m → (mergeWalk (a.take m) b).take n = (mergeWalk a b).take n := by
  fun_induction mergeWalk a b with
  | case1 ys => intro n m _; simp [mergeWalk_nil_left]
  | case2 x xs =>
    intro n m h
    rw [mergeWalk_nil_right, List.take_take, Nat.min_eq_left h]
  | case3 x xs y ys hyx ih =>
    intro n m h
    cases n with
    | zero => simp
    | succ n =>
      cases m with
      | zero => omega
      | succ m =>
        have e : mergeWalk ((x :: xs).take (m + 1)) (y :: ys)
            = y :: mergeWalk ((x :: xs).take (m + 1)) ys := by
          simp only [List.take_succ_cons]; rw [mergeWalk]; simp [hyx]
        have ih' := ih n (m + 1) (by omega)
        rw [e]
        simp only [List.take_succ_cons] at ih' ⊢
        rw [ih']
  | case4 xs y ys hyx ih =>
    intro n m h
    cases n with
    | zero => simp
    | succ n =>
      cases m with
      | zero => omega
      | succ m =>
        have e : mergeWalk ((y :: xs).take (m + 1)) (y :: ys) = y :: mergeWalk (xs.take m) ys := by
          simp only [List.take_succ_cons]; rw [mergeWalk]; simp
        rw [e, List.take_succ_cons, List.take_succ_cons, ih n m (by omega)]
  | case5 x xs y ys hyx hxy ih =>
    intro n m h
    cases n with
    | zero => simp
    | succ n =>
      cases m with
      | zero => omega
      | succ m =>
        have e : mergeWalk ((x :: xs).take (m + 1)) (y :: ys)
            = x :: mergeWalk (xs.take m) (y :: ys) := by
          simp only [List.take_succ_cons]; rw [mergeWalk]; simp [hyx, hxy]
        rw [e, List.take_succ_cons, List.take_succ_cons, ih n m (by omega)]

/-- the combined sketch of the num branch, both containers: the first `n` hashes of the sorted union -/
theorem combined_eq (c : Container) (n : Nat) (hn : n ≠ 0) (a b : List Nat) :
    combined c n a b = (mergeWalk a b).take n := by
  unfold combined
  rw [mergeMins_eq, mergeMins_eq]
  simp only [hn, if_false, mergeWalk_nil_left]
  exact take_mergeWalk_take a b n n (Nat.le_refl n)

/-! ### bottom-n of a sorted list is `take n` -/

theorem rank_cons_self {x : Nat} {xs : List Nat} (h : Sorted (x :: xs)) : rank (x :: xs) x = 0 := by
  unfold rank
  rw [List.length_eq_zero_iff, List.filter_eq_nil_iff]
  intro k hk
  rcases List.mem_cons.mp hk with rfl | hk
  · simp
  · have := h.head_lt k hk; simp; omega

theorem rank_cons_of_mem {x k : Nat} {xs : List Nat} (h : Sorted (x :: xs)) (hk : k ∈ xs) :
    rank (x :: xs) k = rank xs k + 1 := by
  have := h.head_lt k hk
  unfold rank
  simp [List.filter_cons, this]

theorem bottom_sorted (m : List Nat) (hm : Sorted m) : ∀ n, bottom n m = m.take n := by
  induction m with
  | nil => intro n; simp [bottom]
  | cons x xs ih =>
    intro n
    cases n with
    | zero => simp [bottom]
    | succ n =>
      unfold bottom
      rw [List.filter_cons, rank_cons_self hm]
      simp only [Nat.zero_lt_succ, decide_true, if_true, List.take_succ_cons]
      congr 1
      rw [← ih hm.tail n]
      unfold bottom
      apply List.filter_congr
      intro k hk
      rw [rank_cons_of_mem hm hk]
      simp

/-- `rank` only depends on the members of a duplicate-free list -/
theorem rank_congr {l u : List Nat} (hl : l.Nodup) (hu : u.Nodup) (hmem : ∀ k, k ∈ l ↔ k ∈ u)
    (h : Nat) : rank l h = rank u h := by
  have hp : l.Perm u := (List.perm_ext_iff_of_nodup hl hu).mpr hmem
  exact (hp.filter _).length_eq

theorem mem_union (a b : List Nat) (h : Nat) : h ∈ union a b ↔ h ∈ a ∨ h ∈ b := by
  unfold union
  simp only [List.mem_append, List.mem_filter, List.contains_eq_mem, Bool.not_eq_true',
    decide_eq_false_iff_not]
  constructor
  · rintro (h | ⟨h, _⟩)
    · exact Or.inl h
    · exact Or.inr h
  · rintro (h | h')
    · exact Or.inl h
    · by_cases hh : h ∈ a
      · exact Or.inl hh
      · exact Or.inr ⟨h', hh⟩

theorem nodup_union (a b : List Nat) (ha : a.Nodup) (hb : b.Nodup) : (union a b).Nodup := by
  unfold union
  rw [List.nodup_append]
  refine ⟨ha, hb.filter _, ?_⟩
  intro x hx y hy
  simp only [List.mem_filter, List.contains_eq_mem, Bool.not_eq_true', decide_eq_false_iff_not] at hy
  rintro rfl
  exact hy.2 hx

/-- T-jaccard_pair, num sketches, on the lists (both containers) -/
theorem isizeNum_eq_spec (c : Container) (n : Nat) (hn : n ≠ 0) (a b : List Nat)
    (ha : Sorted a) (hb : Sorted b) : isizeNum c n a b = jaccardPair n a b := by
  have hm := sorted_mergeWalk a b ha hb
  have hperm : (mergeWalk a b).Perm (union a b) :=
    (List.perm_ext_iff_of_nodup hm.nodup (nodup_union a b ha.nodup hb.nodup)).mpr
      (fun k => by rw [mem_mergeWalk, mem_union])
  have hrank : ∀ k, rank (mergeWalk a b) k = rank (union a b) k :=
    fun k => (hperm.filter _).length_eq
  -- the combined sketch is the bottom-n of the sorted union …
  have hcomb : combined c n a b = bottom n (mergeWalk a b) := by
    rw [combined_eq c n hn, bottom_sorted _ hm]
  -- … which has the members, and the size, of the spec's bottom-n
  have hbot : (bottom n (mergeWalk a b)).Perm (bottom n (union a b)) := by
    unfold bottom
    have : (mergeWalk a b).filter (fun h => decide (rank (mergeWalk a b) h < n))
        = (mergeWalk a b).filter (fun h => decide (rank (union a b) h < n)) := by
      apply List.filter_congr; intro k _; rw [hrank]
    rw [this]
    exact hperm.filter _
  have hsc : Sorted (combined c n a b) := by rw [combined_eq c n hn]; exact hm.take
  have hsi : Sorted (inter a b) := ha.filter _
  unfold isizeNum
  simp only [jaccardPair, hn, if_false]
  apply Prod.ext
  · simp only
    rw [interIter_eq_inter a b ha hb, interIter_eq_inter _ _ hsi hsc]
    unfold inter
    congr 1
    apply List.filter_congr
    intro k _
    rw [hcomb]
    simp only [List.contains_eq_mem, decide_eq_decide]
    exact hbot.mem_iff
  · simp only
    rw [hcomb]
    exact hbot.length_eq

theorem isectNum_eq (c : Container) (n : Nat) (a b : List Nat) :
    ((isectNum c n a b).1.length, (isectNum c n a b).2) = isizeNum c n a b := rfl

/-! ### symmetry of the num branch and of the sketch-level entry points -/

theorem mergeWalk_comm (a b : List Nat) : mergeWalk a b = mergeWalk b a := by
  fun_induction mergeWalk a b with
  | case1 ys => rw [mergeWalk_nil_right]
  | case2 x xs => rw [mergeWalk_nil_left]
  | case3 x xs y ys hyx ih =>
    have h1 : ¬ x < y := by omega
    have h2 : ¬ x = y := by omega
    rw [ih]; conv => rhs; rw [mergeWalk]
    simp [h1, h2]
  | case4 xs y ys hyx ih =>
    rw [ih]; conv => rhs; rw [mergeWalk]
    simp
  | case5 x xs y ys hyx hxy ih =>
    have h1 : x < y := by omega
    rw [ih]; conv => rhs; rw [mergeWalk]
    simp [h1]

theorem isizeNum_comm (c : Container) (n : Nat) (hn : n ≠ 0) (a b : List Nat) :
    isizeNum c n a b = isizeNum c n b a := by
  unfold isizeNum
  simp only [combined_eq c n hn, mergeWalk_comm a b, interIter_comm a b]

theorem isizeNum_container (n : Nat) (a b : List Nat) :
    isizeNum .vec n a b = isizeNum .tree n a b := by
  unfold isizeNum combined
  simp only [mergeMins, mergeVec_eq_mergeTree]

theorem checkCompatible_comm (a b : Sketch) : checkCompatible a b = checkCompatible b a := by
  unfold checkCompatible
  by_cases h1 : a.ksize = b.ksize <;> by_cases h2 : a.hf = b.hf <;>
    by_cases h3 : a.maxHash = b.maxHash <;> by_cases h4 : a.seed = b.seed <;>
    simp [h1, h2, h3, h4, eq_comm]

theorem checkCompatible_ok {a b : Sketch} (h : checkCompatible a b = .ok ()) :
    a.ksize = b.ksize ∧ a.hf = b.hf ∧ a.maxHash = b.maxHash ∧ a.seed = b.seed := by
  unfold checkCompatible at h
  by_cases h1 : a.ksize = b.ksize <;> by_cases h2 : a.hf = b.hf <;>
    by_cases h3 : a.maxHash = b.maxHash <;> by_cases h4 : a.seed = b.seed <;>
    simp_all

end Similarity
