import Sourmash.Model.SetOps
/-! Helper lemmas for C03's statements about the tree type's `current_max` cache (`Sk.addTc`: the
transcription of `KmerMinHashBTree::add_hash_with_abundance` with the cached field explicit). -/
namespace SetOps

/-- with the exact cache the cache-carrying transcription of the tree's `add_hash_with_abundance` is
`Sk.addT` -/
theorem addTc_fst (s : Sk) (h a : Nat) : (s.addTc s.curMax h a).1 = s.addT h a := by
  unfold Sk.addTc Sk.addT Sk.curMax
  dsimp only
  by_cases c1 : h > s.maxHash ∧ s.maxHash ≠ 0
  · rw [if_pos c1, if_pos c1]
  rw [if_neg c1, if_neg c1]
  by_cases c2 : s.num = 0 ∧ s.maxHash = 0
  · rw [if_pos c2, if_pos c2]
  rw [if_neg c2, if_neg c2]
  by_cases c3 : a = 0
  · rw [if_pos c3, if_pos c3]
  rw [if_neg c3, if_neg c3]
  by_cases c4 : s.mins = []
  · rw [if_pos c4, if_pos c4]
  rw [if_neg c4, if_neg c4]
  by_cases c5 : h ≤ s.maxHash ∨ h ≤ s.mins.getLast?.getD 0 ∨ s.mins.length < s.num
  · rw [if_pos c5, if_pos c5, apply_ite Prod.fst]
  · rw [if_neg c5, if_neg c5]

/-- an explicitly stale cache, for every sketch: a FULL num sketch of the tree type whose cache is 0
(`KmerMinHashBTree::builder()…mins(..).current_max(0).build()`; before /repo 04873e6 also what the
builder made without the field) ignores every non-zero hash, however small -/
theorem addTc_stale_full (s : Sk) (h a : Nat) (hm : s.maxHash = 0) (hfull : s.mins.length = s.num)
    (hne : s.mins ≠ []) (h0 : h ≠ 0) : s.addTc 0 h a = (s, 0) := by
  have hn : s.num ≠ 0 := by
    intro hz; rw [hz] at hfull; exact hne (List.length_eq_zero_iff.mp hfull)
  unfold Sk.addTc
  simp only [hm, ne_eq, not_true_eq_false, and_false, if_false, hn, false_and, hne]
  by_cases ha : a = 0
  · simp [ha]
  · have h2 : ¬ s.mins.length < s.num := by omega
    simp [ha, h0, h2]

end SetOps
