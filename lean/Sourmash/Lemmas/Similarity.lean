import Sourmash.Model.Similarity
import Sourmash.Spec.Similarity
/-!
Lemmas/Similarity.lean — C05, integer core, part 1 (core Lean only): the two-pointer walks over
strictly increasing lists compute the set-level definitions; symmetry; the combined bottom-`num`
sketch of the num branch.
-/
namespace Similarity
open SimilaritySpec

/-- strictly increasing -/
abbrev Sorted (l : List Nat) : Prop := l.Pairwise (· < ·)

theorem Sorted.tail {x : Nat} {xs : List Nat} (h : Sorted (x :: xs)) : Sorted xs :=
  (List.pairwise_cons.mp h).2

theorem Sorted.head_lt {x : Nat} {xs : List Nat} (h : Sorted (x :: xs)) : ∀ k ∈ xs, x < k :=
  (List.pairwise_cons.mp h).1

theorem Sorted.nodup {l : List Nat} (h : Sorted l) : l.Nodup :=
  List.Pairwise.imp (fun hab => Nat.ne_of_lt hab) h

theorem Sorted.not_mem_of_lt {x y : Nat} {ys : List Nat} (h : Sorted (y :: ys)) (hxy : x < y) :
    x ∉ y :: ys := by
  intro hm
  rcases List.mem_cons.mp hm with rfl | hm
  · exact Nat.lt_irrefl _ hxy
  · have := h.head_lt x hm; omega

/-! ### the `Intersection` iterator is `filter (· ∈ b)` -/

theorem interIter_eq_inter (a b : List Nat) (ha : Sorted a) (hb : Sorted b) :
    interIter a b = inter a b := by
  unfold inter
  fun_induction interIter a b with
  | case1 => simp
  | case2 => simp
  | case3 x xs y ys hxy ih =>
    have hx : x ∉ y :: ys := hb.not_mem_of_lt hxy
    rw [ih ha.tail hb]
    simp only [List.mem_cons, not_or] at hx
    simp [List.filter_cons, hx]
  | case4 x xs y ys hxy hyx ih =>
    rw [ih ha hb.tail]
    apply List.filter_congr
    intro h hh
    have : y < h := by
      rcases List.mem_cons.mp hh with rfl | hh
      · exact hyx
      · have := ha.head_lt h hh; omega
    simp only [List.contains_cons]
    have : (h == y) = false := by simp; omega
    simp [this]
  | case5 x xs y ys hxy hyx ih =>
    have hxy' : x = y := by omega
    subst hxy'
    rw [ih ha.tail hb.tail]
    simp only [List.filter_cons, List.contains_cons, BEq.rfl, Bool.true_or, if_true]
    congr 1
    apply List.filter_congr
    intro h hh
    have := ha.head_lt h hh
    have : (h == x) = false := by simp; omega
    simp [this]

/-! ### the free functions -/

theorem interIter_nil_right (a : List Nat) : interIter a [] = [] := by
  cases a <;> simp [interIter]

theorem isect_fst (a b : List Nat) : (isect a b).1 = interIter a b := by
  fun_induction isect a b with
  | case1 => simp [interIter]
  | case2 y ys r ih => simpa [interIter, r] using ih
  | case3 x xs r ih => simpa [interIter, r, interIter_nil_right] using ih
  | case4 x xs y ys hxy r ih => rw [interIter]; simp [hxy, r, ih]
  | case5 x xs y ys hxy hyx r ih => rw [interIter]; simp [hxy, hyx, r, ih]
  | case6 x xs y ys hxy hyx r ih => rw [interIter]; simp [hxy, hyx, r, ih]

theorem isect_snd (a b : List Nat) : (isect a b).2 = (isize a b).2 := by
  fun_induction isect a b with
  | case1 => simp [isize]
  | case2 y ys r ih => rw [isize]; simp [r, ih]
  | case3 x xs r ih => rw [isize]; simp [r, ih]
  | case4 x xs y ys hxy r ih => rw [isize]; simp [hxy, r, ih]
  | case5 x xs y ys hxy hyx r ih => rw [isize]; simp [hxy, hyx, r, ih]
  | case6 x xs y ys hxy hyx r ih => rw [isize]; simp [hxy, hyx, r, ih]

theorem isize_fst (a b : List Nat) : (isize a b).1 = (interIter a b).length := by
  fun_induction isize a b with
  | case1 => simp [interIter]
  | case2 y ys r ih => simpa [interIter, r] using ih
  | case3 x xs r ih => simpa [interIter, r, interIter_nil_right] using ih
  | case4 x xs y ys hxy r ih => rw [interIter]; simp [hxy, r, ih]
  | case5 x xs y ys hxy hyx r ih => rw [interIter]; simp [hxy, hyx, r, ih]
  | case6 x xs y ys hxy hyx r ih => rw [interIter]; simp [hxy, hyx, r, ih]

theorem union_nil_left (b : List Nat) : union [] b = b := by
  simp [union]

theorem isize_snd (a b : List Nat) (ha : Sorted a) (hb : Sorted b) :
    (isize a b).2 = (union a b).length := by
  fun_induction isize a b with
  | case1 => simp [union]
  | case2 y ys r ih =>
    simp only [r, union_nil_left] at ih ⊢
    rw [ih ha hb.tail]; simp
  | case3 x xs r ih =>
    simp only [r] at ih ⊢
    rw [ih ha.tail hb]; simp [union]
  | case4 x xs y ys hxy r ih =>
    simp only [r]
    rw [ih ha.tail hb]
    have hx : x ∉ y :: ys := hb.not_mem_of_lt hxy
    unfold union
    have : (y :: ys).filter (fun h => !(x :: xs).contains h) = (y :: ys).filter (fun h => !xs.contains h) := by
      apply List.filter_congr
      intro h hh
      have hne : h ≠ x := by rintro rfl; exact hx hh
      simp [hne]
    rw [this]; simp only [List.length_append, List.length_cons]; omega
  | case5 x xs y ys hxy hyx r ih =>
    simp only [r]
    rw [ih ha hb.tail]
    have hy : y ∉ x :: xs := ha.not_mem_of_lt hyx
    unfold union
    have : (y :: ys).filter (fun h => !(x :: xs).contains h)
        = y :: ys.filter (fun h => !(x :: xs).contains h) := by
      rw [List.filter_cons]
      simp only [List.mem_cons, not_or] at hy
      simp [hy]
    rw [this]; simp only [List.length_append, List.length_cons]; omega
  | case6 x xs y ys hxy hyx r ih =>
    have hxy' : x = y := by omega
    subst hxy'
    simp only [r]
    rw [ih ha.tail hb.tail]
    unfold union
    have h1 : (x :: ys).filter (fun h => !(x :: xs).contains h)
        = ys.filter (fun h => !(x :: xs).contains h) := by
      rw [List.filter_cons]; simp
    have h2 : ys.filter (fun h => !(x :: xs).contains h) = ys.filter (fun h => !xs.contains h) := by
      apply List.filter_congr
      intro h hh
      have := hb.head_lt h hh
      have hne : h ≠ x := by omega
      simp [hne]
    rw [h1, h2]; simp only [List.length_append, List.length_cons]; omega

/-- T-jaccard_pair, scaled sketches, on the lists -/
theorem isize_eq_spec (a b : List Nat) (ha : Sorted a) (hb : Sorted b) :
    isize a b = jaccardPair 0 a b := by
  have h1 := isize_fst a b
  have h2 := isize_snd a b ha hb
  rw [interIter_eq_inter a b ha hb] at h1
  simp only [jaccardPair, if_true]
  exact Prod.ext h1 h2

theorem isect_eq_spec (a b : List Nat) (ha : Sorted a) (hb : Sorted b) :
    isect a b = (inter a b, (union a b).length) := by
  apply Prod.ext
  · simp [isect_fst, interIter_eq_inter a b ha hb]
  · simp [isect_snd, isize_snd a b ha hb]

/-! ### symmetry of the walks (no sortedness needed) -/

theorem isize_comm (a b : List Nat) : isize a b = isize b a := by
  fun_induction isize a b with
  | case1 => simp [isize]
  | case2 y ys r ih => conv => rhs; rw [isize]
                       simp [r, ih]
  | case3 x xs r ih => conv => rhs; rw [isize]
                       simp [r, ih]
  | case4 x xs y ys hxy r ih =>
    have : ¬ y < x := by omega
    conv => rhs; rw [isize]
    simp [this, hxy, r, ih]
  | case5 x xs y ys hxy hyx r ih =>
    conv => rhs; rw [isize]
    simp [hyx, r, ih]
  | case6 x xs y ys hxy hyx r ih =>
    conv => rhs; rw [isize]
    simp [hyx, hxy, r, ih]

theorem interIter_comm (a b : List Nat) : interIter a b = interIter b a := by
  fun_induction interIter a b with
  | case1 b => cases b <;> simp [interIter]
  | case2 => simp [interIter]
  | case3 x xs y ys hxy ih =>
    have : ¬ y < x := by omega
    rw [ih]; conv => rhs; rw [interIter]
    simp [this, hxy]
  | case4 x xs y ys hxy hyx ih =>
    rw [ih]; conv => rhs; rw [interIter]
    simp [hyx]
  | case5 x xs y ys hxy hyx ih =>
    have : x = y := by omega
    subst this
    rw [ih]; conv => rhs; rw [interIter]
    simp

theorem countCommonMins_eq (a b : List Nat) : countCommonMins a b = (interIter a b).length := by
  unfold countCommonMins
  split
  · rfl
  · rw [interIter_comm]

theorem countCommonMins_comm (a b : List Nat) : countCommonMins a b = countCommonMins b a := by
  rw [countCommonMins_eq, countCommonMins_eq, interIter_comm]

end Similarity
