import Sourmash.Lemmas.SampleSpec
/-! Lemmas/SampleTree.lean — every operation of the tree-backed sketch model refines the abstract
step.  `TRef s σ`: same parameters, `mins s = keys σ`, the abundance map *is* the abstract map when
tracked / absent when not, and `current_max` is the largest hash held (0 when empty).
Core Lean only. -/
namespace Sample
open MH

structure TRef (s : Tree) (σ : St) : Prop where
  num : s.num = σ.num
  mh : s.maxHash = σ.maxHash
  mins : s.mins = keys σ.m
  ab : s.abunds = if σ.track then some σ.m else none
  cur : s.currentMax = lastOr0 s.mins

theorem TRef.obs {s : Tree} {σ : St} (r : TRef s σ) : treeObs s = σ.obs := by
  simp only [treeObs, St.obs, Tree.abundVals, r.mins, r.ab]
  cases σ.track <;> simp [vals]

theorem TRef.new (n mh : Nat) (t : Bool) : TRef (Tree.new n mh t) { num := n, maxHash := mh, track := t } :=
  ⟨rfl, rfl, rfl, by cases t <;> rfl, rfl⟩

theorem TRef.step {s s' : Tree} {σ : St} (r : TRef s σ) (m' : FMap) (f : FMap → FMap)
    (hn : s'.num = s.num) (hh : s'.maxHash = s.maxHash) (hm : s'.mins = keys m')
    (ha : s'.abunds = s.abunds.map f) (hf : f σ.m = m') (hc : s'.currentMax = lastOr0 s'.mins) :
    TRef s' { σ with m := m' } := by
  refine ⟨hn.trans r.num, hh.trans r.mh, hm, ?_, hc⟩
  rw [ha, r.ab]
  cases σ.track <;> simp [hf]

/-! ### set primitives -/

theorem insSet_keys (m : FMap) (h a : Nat) : (insSet (keys m) h).1 = keys (ins m h a) := by
  induction m with
  | nil => rfl
  | cons kv t ih =>
    cases kv with
    | mk k v =>
      simp only [keys_cons, insSet, ins]
      split
      · rfl
      · split
        · rfl
        · simp [ih]

theorem insSet_not_new {l : List Nat} {h : Nat} (hr : (insSet l h).2 = false) : (insSet l h).1 = l := by
  induction l with
  | nil => simp [insSet] at hr
  | cons k t ih =>
    simp only [insSet] at hr ⊢
    split
    · next hlt => simp [hlt] at hr
    · next hlt =>
      split
      · rfl
      · next hne =>
        simp only [hlt, hne, if_false] at hr
        simp [ih hr]

theorem lastOr0_concat (l : List Nat) (x : Nat) : lastOr0 (l ++ [x]) = x := by
  simp [lastOr0]

/-- the largest key after an insertion -/
theorem lastOr0_ins {m : FMap} (hs : Sorted (keys m)) (hne : m ≠ []) (h a : Nat) :
    lastOr0 (keys (ins m h a)) = if h > lastOr0 (keys m) then h else lastOr0 (keys m) := by
  have hkne : keys m ≠ [] := fun e => hne (keys_eq_nil e)
  split
  · next hgt =>
    have hall : ∀ x ∈ keys m, x < h := fun x hx => by have := le_last_of_mem hs x hx; omega
    have hp : pos (keys m) h = m.length := by rw [pos_of_all_lt hall]; simp
    rw [ins_at_end a hp, keys_append]
    exact lastOr0_concat _ _
  · next hle =>
    have hs' := sorted_ins hs h a
    have h1 : lastOr0 (keys m) ≤ lastOr0 (keys (ins m h a)) :=
      le_last_of_mem hs' _ (mem_keys_ins.mpr (Or.inr (lastOr0_mem hkne)))
    have hne' : keys (ins m h a) ≠ [] := fun e => ins_ne_nil m h a (keys_eq_nil e)
    have h2 : lastOr0 (keys (ins m h a)) ≤ lastOr0 (keys m) := by
      rcases mem_keys_ins.mp (lastOr0_mem hne') with e | hx
      · rw [e]; omega
      · exact le_last_of_mem hs _ hx
    omega

theorem lastOr0_cons_cons (x y : Nat) (t : List Nat) : lastOr0 (x :: y :: t) = lastOr0 (y :: t) := by
  simp [lastOr0, List.getLast?_cons_cons]

/-- removing the largest element of a strictly increasing list drops its last entry -/
theorem filter_last_eq_dropLast {l : List Nat} (hs : Sorted l) :
    l.filter (· != lastOr0 l) = l.dropLast := by
  induction l with
  | nil => rfl
  | cons x t ih =>
    cases t with
    | nil => simp [lastOr0]
    | cons y t' =>
      rw [lastOr0_cons_cons, List.filter_cons]
      have hmem : lastOr0 (y :: t') ∈ y :: t' := lastOr0_mem (by simp)
      have hlt : x < lastOr0 (y :: t') := hs.head_lt _ hmem
      have : (x != lastOr0 (y :: t')) = true := by simp; omega
      rw [if_pos this, ih hs.tail]
      rfl

theorem map_filter_last_eq_dropLast {m : FMap} (hs : Sorted (keys m)) :
    m.filter (fun kv => kv.1 != lastOr0 (keys m)) = m.dropLast := by
  induction m with
  | nil => rfl
  | cons kv t ih =>
    cases kv with
    | mk x v =>
      cases t with
      | nil => simp [lastOr0]
      | cons yw t' =>
        cases yw with
        | mk y w =>
          simp only [keys_cons] at hs ih ⊢
          rw [lastOr0_cons_cons, List.filter_cons]
          have hmem : lastOr0 (y :: keys t') ∈ y :: keys t' := lastOr0_mem (by simp)
          have hlt : x < lastOr0 (y :: keys t') := hs.head_lt _ hmem
          have : ((x, v).1 != lastOr0 (y :: keys t')) = true := by simp; omega
          rw [if_pos this, ih hs.tail]
          rfl

theorem filter_ne_of_not_mem {l : List Nat} {h : Nat} (hn : h ∉ l) : l.filter (· != h) = l := by
  rw [List.filter_eq_self]
  intro x hx
  simp only [bne_iff_ne, ne_eq]
  intro e; exact hn (e ▸ hx)

theorem lastOr0_filter_ne {l : List Nat} {h : Nat} (hne : h ≠ lastOr0 l) :
    lastOr0 (l.filter (· != h)) = lastOr0 l := by
  rcases List.eq_nil_or_concat l with rfl | ⟨L, b, rfl⟩
  · rfl
  · rw [List.concat_eq_append] at hne ⊢
    rw [lastOr0_concat] at hne ⊢
    have : (b != h) = true := by simp; omega
    rw [List.filter_append, List.filter_cons, if_pos this]
    exact lastOr0_concat _ _

/-! ### remove, clear -/

theorem removeFromSet_spec {s : Tree} {σ : St} (r : TRef s σ) (h : Nat) :
    (s.removeFromSet h).num = s.num ∧ (s.removeFromSet h).maxHash = s.maxHash
      ∧ (s.removeFromSet h).mins = keys (del σ.m h)
      ∧ (s.removeFromSet h).abunds = s.abunds.map (fun m => del m h)
      ∧ (s.removeFromSet h).currentMax = s.currentMax := by
  unfold Tree.removeFromSet
  split
  · refine ⟨rfl, rfl, ?_, rfl, rfl⟩
    show s.mins.filter (· != h) = _
    rw [keys_del, r.mins]
  · next hc =>
    have hn : h ∉ keys σ.m := by rw [← r.mins]; simpa using hc
    refine ⟨rfl, rfl, ?_, ?_, rfl⟩
    · rw [del_of_not_mem hn, r.mins]
    · rw [r.ab]
      cases σ.track <;> simp [del_of_not_mem hn]

theorem TRef.remove {s : Tree} {σ : St} (r : TRef s σ) (h : Nat) : TRef (s.remove h) (σ.remove h) := by
  obtain ⟨k1, k2, k3, k4, k5⟩ := removeFromSet_spec r h
  have hk3' : keys (del σ.m h) = s.mins.filter (· != h) := by rw [keys_del, r.mins]
  unfold Tree.remove St.remove
  simp only []
  split
  · next hcm =>
    exact r.step (del σ.m h) (fun m => del m h) k1 k2 k3 k4 rfl rfl
  · next hcm =>
    refine r.step (del σ.m h) (fun m => del m h) k1 k2 k3 k4 rfl ?_
    rw [k5, k3, hk3', r.cur]
    have hne : h ≠ lastOr0 s.mins := by
      rw [k5, r.cur] at hcm; simpa using hcm
    exact (lastOr0_filter_ne hne).symm

theorem TRef.removeMany {s : Tree} {σ : St} (r : TRef s σ) (hs : List Nat) :
    TRef (s.removeMany hs) (σ.removeMany hs) := by
  unfold Tree.removeMany St.removeMany
  induction hs generalizing s σ with
  | nil => exact r
  | cons x t ih => exact ih (r.remove x)

theorem TRef.clear {s : Tree} {σ : St} (r : TRef s σ) : TRef s.clear σ.clear :=
  r.step [] (fun _ => []) rfl rfl rfl rfl rfl rfl

/-! ### add -/

/-- the state after the insertion of the guarded branch -/
theorem TRef.insertHash {s : Tree} {σ : St} (r : TRef s σ) (i : SInv σ) (hne : σ.m ≠ []) (h a : Nat) :
    TRef (s.insertHash h a) { σ with m := ins σ.m h a } := by
  have hset := insSet_keys σ.m h a
  have hlast := lastOr0_ins i.sorted hne h a
  unfold Tree.insertHash
  simp only []
  cases hr : (insSet s.mins h).2
  · -- already present: nothing but the abundance changes
    have hsame : keys (ins σ.m h a) = s.mins := by
      rw [← hset, ← r.mins]; exact insSet_not_new hr
    simp only [Bool.false_eq_true, if_false]
    refine r.step _ (fun m => mapAdd m h a) rfl rfl hsame.symm rfl (mapAdd_eq_ins _ _ _) r.cur
  · simp only [if_true]
    refine r.step _ (fun m => mapAdd m h a) rfl rfl ?_ rfl (mapAdd_eq_ins _ _ _) ?_
    · show (insSet s.mins h).1 = _
      rw [r.mins, hset]
    · show (if h > s.currentMax then h else s.currentMax) = lastOr0 (insSet s.mins h).1
      rw [r.mins, hset, hlast, r.cur, r.mins]

theorem TRef.evictLargest {s : Tree} {σ : St} (r : TRef s σ) (i : Sorted (keys σ.m)) :
    TRef s.evictLargest { σ with m := σ.m.dropLast } := by
  unfold Tree.evictLargest
  simp only []
  refine r.step _ (fun mp => mp.filter (fun kv => kv.1 != lastOr0 s.mins)) rfl rfl ?_ rfl ?_ rfl
  · show s.mins.filter (· != lastOr0 s.mins) = _
    rw [r.mins, filter_last_eq_dropLast i, keys_dropLast]
  · show σ.m.filter (fun kv => kv.1 != lastOr0 s.mins) = _
    rw [r.mins, map_filter_last_eq_dropLast i]

theorem TRef.add {s : Tree} {σ : St} (r : TRef s σ) (i : SInv σ) (h a : Nat) :
    TRef (s.add h a) (σ.add .tree h a) := by
  have hsort : Sorted (keys σ.m) := i.sorted
  unfold Tree.add
  split
  · next hc =>
    have hc' : σ.maxHash ≠ 0 ∧ σ.maxHash < h := by
      simp [r.mh] at hc; exact ⟨hc.2, hc.1⟩
    unfold St.add; rw [if_pos hc']; exact r
  next hc =>
  have hc' : ¬ (σ.maxHash ≠ 0 ∧ σ.maxHash < h) := by
    simp [r.mh] at hc; intro ⟨h1, h2⟩; exact h1 (hc h2)
  split
  · next h0 =>
    simp [r.mh, r.num] at h0
    rcases i.wf with ⟨_, h2⟩ | ⟨h1, _⟩ <;> omega
  split
  · -- abundance 0: nothing
    next ha =>
    have ha' : a = 0 := by simpa using ha
    have e : σ.add .tree h a = σ := by
      unfold St.add; rw [if_neg hc', if_pos ha']
    rw [e]; exact r
  next ha =>
  have ha' : a ≠ 0 := by simpa using ha
  rw [St.add_pos hc' ha']
  split
  · -- first insert
    next he =>
    have hm0 : σ.m = [] := keys_eq_nil (by rw [← r.mins]; simpa using he)
    have hcap : σ.cap (ins σ.m h a) = [(h, a)] := by
      rw [hm0]; apply cap_id; intro hn; simp [ins]; omega
    rw [hcap]
    refine r.step [(h, a)] (fun m => mapAdd m h a) rfl rfl ?_ rfl ?_ ?_
    · show (insSet s.mins h).1 = _
      rw [r.mins, hm0]; rfl
    · rw [hm0]; rfl
    · show h = lastOr0 (insSet s.mins h).1
      rw [r.mins, hm0]; rfl
  next he =>
  have hne : keys σ.m ≠ [] := by rw [← r.mins]; simpa using he
  have hmne : σ.m ≠ [] := fun e => hne (by rw [e]; rfl)
  have hlen : s.mins.length = σ.m.length := by rw [r.mins]; simp
  split
  · next hg =>
    have r2 := r.insertHash i hmne h a
    have hl := length_ins_le σ.m h a
    simp only []
    split
    · -- over `num`: evict the largest
      next hev =>
      have hev' : σ.num ≠ 0 ∧ σ.num < (ins σ.m h a).length := by
        rw [r2.num, r2.mins] at hev; simpa using hev
      have hnum : (ins σ.m h a).length = σ.num + 1 := by have := i.cap hev'.1; omega
      have hcap : σ.cap (ins σ.m h a) = (ins σ.m h a).dropLast := by
        rw [cap_eq, if_neg hev'.1, List.dropLast_eq_take, hnum]; rfl
      rw [hcap]
      exact r2.evictLargest (sorted_ins hsort h a)
    · next hev =>
      have hev' : σ.num ≠ 0 → (ins σ.m h a).length ≤ σ.num := by
        rw [r2.num, r2.mins] at hev
        intro hn; simp [hn] at hev; exact hev
      rw [cap_id hev']
      exact r2
  · -- guard false: a full num sketch and `h` above everything held
    next hg =>
    have hmh : σ.maxHash = 0 := by
      rcases i.wf with ⟨h1, _⟩ | ⟨h1, _⟩
      · exact h1
      · simp [r.mh] at hg
        have : ¬ σ.maxHash < h := fun hlt => hc' ⟨by omega, hlt⟩
        omega
    have hnum : σ.num ≠ 0 := by rcases i.wf with ⟨_, h2⟩ | ⟨h1, _⟩ <;> omega
    simp [r.mh, r.num, hmh, hlen, r.cur] at hg
    have hlast : lastOr0 (keys σ.m) < h := by rw [← r.mins]; exact hg.1.2
    have hall : ∀ x ∈ keys σ.m, x < h := fun x hx => by
      have := le_last_of_mem hsort x hx; omega
    have hp : pos (keys σ.m) h = σ.m.length := by rw [pos_of_all_lt hall]; simp
    have hfull : σ.m.length = σ.num := by have := i.cap hnum; omega
    have hcap : σ.cap (ins σ.m h a) = σ.m := by
      rw [cap_eq, if_neg hnum, ins_at_end a hp, ← hfull, List.take_left]
    rw [hcap]
    exact r

/-! ### merge -/

theorem TRef.merge {s o : Tree} {σ τ : St} (r : TRef s σ) (q : TRef o τ) (i : SInv σ) (j : SInv τ) :
    TRef (s.merge o) (σ.merge τ) := by
  have hk : unionSorted s.mins o.mins = keys (union σ.m τ.m) := by
    rw [r.mins, q.mins, keys_union j.sorted, unionSorted_eq_mergeMins]
  have hu := union_eq_lookup i.sorted j.sorted
  rw [← r.mins, ← q.mins] at hu
  unfold Tree.merge St.merge
  simp only []
  have hcapk : (if (s.num == 0) = true then unionSorted s.mins o.mins else (unionSorted s.mins o.mins).take s.num)
      = keys (σ.cap (union σ.m τ.m)) := by
    rw [cap_eq, r.num, hk]
    by_cases hn : σ.num = 0
    · simp [hn]
    · simp [hn, keys_take]
  refine ⟨r.num, r.mh, hcapk, ?_, rfl⟩
  show (match s.abunds with
    | some a => match o.abunds with
      | some b => some ((if (s.num == 0) = true then unionSorted s.mins o.mins
          else (unionSorted s.mins o.mins).take s.num).map (fun h => (h, mapGet a h + mapGet b h)))
      | none => none
    | none => none) = _
  rw [r.ab, q.ab]
  cases σ.track <;> cases τ.track <;> simp only [Bool.and_self, Bool.and_false,
    Bool.false_and, Bool.false_eq_true, if_false, if_true]
  -- both tracked
  rw [cap_eq, r.num]
  by_cases hn : σ.num = 0
  · simp only [hn, beq_self_eq_true, if_true]; rw [hu]
  · have : (σ.num == 0) = false := by simp [hn]
    simp only [hn, this, Bool.false_eq_true, if_false]
    rw [hu, List.map_take]

/-! ### whole histories -/

theorem TRef.treeStep {s : Tree} {σ : St} (r : TRef s σ) (i : SInv σ) (o : Op) (ho : o.noSet) :
    TRef (treeStep s o) (σ.step .tree o) := by
  cases o with
  | add h a => exact r.add i h a
  | set h a => exact absurd ho (by simp [Op.noSet])
  | remove h => exact r.remove h
  | removeMany hs => exact r.removeMany hs
  | clear => exact r.clear

theorem runTree_ref (mh : Nat) (H : Hist) (hwf : H.WF mh) (hns : H.NoSet) :
    TRef (runTree mh H) (runSpec .tree mh H) := by
  induction H with
  | new n t => exact TRef.new n mh t
  | op H o ih => exact (ih hwf hns.1).treeStep (runSpec_inv .tree mh H hwf) o hns.2
  | merge H O ih1 ih2 =>
    exact (ih1 hwf.1 hns.1).merge (ih2 hwf.2 hns.2) (runSpec_inv .tree mh H hwf.1) (runSpec_inv .tree mh O hwf.2)

end Sample
