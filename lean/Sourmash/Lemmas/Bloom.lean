import Sourmash.Model.Nodegraph
import Sourmash.Spec.Bloom
/-! Lemmas for C15: `put` / `union_with` at the bit level, the simulation invariant between the block
model and the reference Bloom filter, reachability by histories.  Core Lean only. -/
namespace NG
open Bloom

theorem Table.put_size (t : Table) (bit : Nat) : (t.put bit).1.size = t.size := rfl
theorem Table.put_length (t : Table) (bit : Nat) : (t.put bit).1.blocks.length = t.blocks.length := by
  simp [Table.put]
theorem Table.put_prev (t : Table) (bit : Nat) : (t.put bit).2 = t.get bit := rfl

/-- `put` sets exactly the one bit -/
theorem Table.put_get (t : Table) (bit b : Nat) (h : bit / 32 < t.blocks.length) :
    (t.put bit).1.get b = (t.get b || b == bit) := by
  simp only [Table.put, Table.get, List.getD_eq_getElem?_getD, List.getElem?_set]
  by_cases hq : bit / 32 = b / 32
  · simp only [hq, if_true]
    have h' : b / 32 < t.blocks.length := hq ▸ h
    simp only [h', if_true, Option.getD_some, Nat.testBit_or, Nat.one_shiftLeft, Nat.testBit_two_pow]
    congr 1
    by_cases hb : b = bit
    · subst hb; simp
    · have : ¬ bit % 32 = b % 32 := by omega
      simp [hb, this]
  · have hb : ¬ b = bit := by intro e; subst e; exact hq rfl
    simp [hq, hb]

theorem Table.new_get (s b : Nat) : (Table.new s).get b = false := by
  simp [Table.get, Table.new, List.getD_eq_getElem?_getD, List.getElem?_replicate]
  split <;> simp

theorem Table.new_length (s : Nat) : (Table.new s).blocks.length = nblocks s := by simp [Table.new]

theorem orBlocks_length (xs ys : List Nat) : (orBlocks xs ys).length = xs.length := by
  induction xs generalizing ys with
  | nil => cases ys <;> simp [orBlocks]
  | cons x xs ih => cases ys <;> simp [orBlocks, ih]

theorem orBlocks_getD (xs ys : List Nat) (h : xs.length = ys.length) (i : Nat) :
    (orBlocks xs ys).getD i 0 = (xs.getD i 0 ||| ys.getD i 0) := by
  induction xs generalizing ys i with
  | nil => cases ys <;> simp [orBlocks] at h ⊢
  | cons x xs ih =>
    cases ys with
    | nil => simp at h
    | cons y ys =>
      cases i with
      | zero => simp [orBlocks]
      | succ i =>
        have := ih ys (by simpa using h) i
        simpa [orBlocks] using this

/-- `union_with` between tables of the same size is the bitwise OR -/
theorem Table.unionWith_get (t o : Table) (hs : t.size = o.size) (hl : t.blocks.length = o.blocks.length) (b : Nat) :
    (t.unionWith o).get b = (t.get b || o.get b) := by
  have : ¬ o.size > t.size := by omega
  simp only [Table.unionWith, this, if_false, Table.get]
  rw [orBlocks_getD _ _ hl, Nat.testBit_or]

theorem Table.unionWith_size (t o : Table) (hs : t.size = o.size) : (t.unionWith o).size = t.size := by
  have : ¬ o.size > t.size := by omega
  simp [Table.unionWith, this]

theorem Table.unionWith_length (t o : Table) (hs : t.size = o.size) :
    (t.unionWith o).blocks.length = t.blocks.length := by
  have : ¬ o.size > t.size := by omega
  simp [Table.unionWith, this, orBlocks_length]

/-! reference bits -/
theorem refBit_cons (h : Nat) (H : List Nat) (s b : Nat) :
    refBit (h :: H) s b = (h % s == b || refBit H s b) := by simp [refBit]
theorem refBit_append (H K : List Nat) (s b : Nat) :
    refBit (H ++ K) s b = (refBit H s b || refBit K s b) := by simp [refBit]
theorem refBit_nil (s b : Nat) : refBit [] s b = false := rfl
theorem refBit_mem (H : List Nat) (s h : Nat) (hm : h ∈ H) : refBit H s (h % s) = true := by
  simp only [refBit, List.any_eq_true]
  exact ⟨h, hm, by simp⟩
theorem refBit_lt (H : List Nat) (s b : Nat) (hs : 1 ≤ s) (hb : s ≤ b) : refBit H s b = false := by
  simp only [refBit, List.any_eq_false]
  intro h _
  have : h % s < s := Nat.mod_lt _ (by omega)
  simp; omega

theorem all_map_of_mem {α β : Type} (l : List α) (f : α → β) (p : α → Bool) (q : β → Bool)
    (h : ∀ t ∈ l, p t = q (f t)) : l.all p = (l.map f).all q := by
  induction l with
  | nil => rfl
  | cons a l ih =>
    simp only [List.all_cons, List.map_cons]
    rw [h a (by simp), ih (fun t ht => h t (by simp [ht]))]

theorem any_map_of_mem {α β : Type} (l : List α) (f : α → β) (p : α → Bool) (q : β → Bool)
    (h : ∀ t ∈ l, p t = q (f t)) : l.any p = (l.map f).any q := by
  induction l with
  | nil => rfl
  | cons a l ih =>
    simp only [List.any_cons, List.map_cons]
    rw [h a (by simp), ih (fun t ht => h t (by simp [ht]))]

/-! ### counting set bits -/
theorem filter_or_eq_length (p : Nat → Bool) (n x : Nat) (hx : x < n) :
    ((List.range n).filter (fun b => p b || b == x)).length =
      if p x then ((List.range n).filter p).length else ((List.range n).filter p).length + 1 := by
  induction n with
  | zero => omega
  | succ n ih =>
    rw [List.range_succ, List.filter_append, List.filter_append, List.length_append, List.length_append]
    by_cases hxn : x = n
    · subst hxn
      have hc : (List.range x).filter (fun b => p b || b == x) = (List.range x).filter p := by
        apply List.filter_congr
        intro b hb
        have : b ≠ x := by have := List.mem_range.mp hb; omega
        simp [this]
      rw [hc]
      cases hp : p x <;> simp [hp]
    · have hlt : x < n := by omega
      rw [ih hlt]
      have hn : (n == x) = false := by simp; omega
      cases hp : p x <;> cases hpn : p n <;> simp [hpn, hn] <;> omega

theorem Table.countOnes_put (t : Table) (bit : Nat) (hbit : bit < t.size)
    (hlen : t.blocks.length = nblocks t.size) :
    (t.put bit).1.countOnes = if t.get bit then t.countOnes else t.countOnes + 1 := by
  have hq : bit / 32 < t.blocks.length := by rw [hlen]; unfold nblocks; omega
  unfold Table.countOnes Table.ones
  rw [Table.put_size]
  have : (List.range t.size).filter (t.put bit).1.get = (List.range t.size).filter (fun b => t.get b || b == bit) := by
    apply List.filter_congr
    intro b _
    exact Table.put_get t bit b hq
  rw [this]
  exact filter_or_eq_length t.get t.size bit hbit

/-! ### the simulation invariant -/

/-- the model filter carries exactly the reference bits of the hashes `H` over the size vector -/
structure Inv (sizes : List Nat) (g : G) (H : List Nat) : Prop where
  sizes_eq : g.tables.map Table.size = sizes
  len : ∀ t ∈ g.tables, t.blocks.length = nblocks t.size
  bits : ∀ t ∈ g.tables, ∀ b, t.get b = refBit H t.size b
  occ : g.occupied = (g.tables.head?.map Table.countOnes).getD 0

theorem Inv.size_pos {sizes : List Nat} {g : G} {H : List Nat} (inv : Inv sizes g H)
    (hs : ∀ s ∈ sizes, 1 ≤ s) : ∀ t ∈ g.tables, 1 ≤ t.size := by
  intro t ht
  apply hs
  rw [← inv.sizes_eq]
  exact List.mem_map.mpr ⟨t, ht, rfl⟩

theorem countOnes_new (s : Nat) : (Table.new s).countOnes = 0 := by
  unfold Table.countOnes Table.ones
  rw [List.length_eq_zero_iff, List.filter_eq_nil_iff]
  intro b _
  simp [Table.new_get]

theorem inv_new (sizes : List Nat) (k : Nat) : Inv sizes (G.new sizes k) [] := by
  refine ⟨by simp [G.new, List.map_map, Function.comp_def, Table.new], ?_, ?_, ?_⟩
  · intro t ht
    simp only [G.new, List.mem_map] at ht
    obtain ⟨s, _, rfl⟩ := ht
    exact Table.new_length s
  · intro t ht b
    simp only [G.new, List.mem_map] at ht
    obtain ⟨s, _, rfl⟩ := ht
    rw [Table.new_get, refBit_nil]
  · cases sizes with
    | nil => simp [G.new]
    | cons s ss => simp [G.new, countOnes_new]

theorem count_tables (g : G) (h : Nat) :
    (g.count h).1.tables = g.tables.map (fun t => (t.put (h % t.size)).1) := by
  simp [G.count, List.map_map, Function.comp_def]

theorem count_ret (g : G) (h : Nat) :
    (g.count h).2 = g.tables.any (fun t => !t.get (h % t.size)) := by
  simp [G.count, List.any_map, Function.comp_def, Table.put_prev]

theorem count_unique (g : G) (h : Nat) :
    (g.count h).1.unique = if (g.count h).2 then g.unique + 1 else g.unique := by
  simp [G.count]

theorem count_occupied (g : G) (h : Nat) :
    (g.count h).1.occupied = match g.tables with
      | t :: _ => if t.get (h % t.size) then g.occupied else g.occupied + 1
      | [] => g.occupied := by
  cases hg : g.tables with
  | nil => simp [G.count, hg]
  | cons t ts =>
    cases hp : t.get (h % t.size) <;> simp [G.count, hg, Table.put, hp]

theorem inv_count {sizes : List Nat} {g : G} {H : List Nat} (inv : Inv sizes g H)
    (hs : ∀ s ∈ sizes, 1 ≤ s) (h : Nat) : Inv sizes (g.count h).1 (h :: H) := by
  have hpos := inv.size_pos hs
  refine ⟨?_, ?_, ?_, ?_⟩
  · rw [count_tables, List.map_map, ← inv.sizes_eq]
    apply List.map_congr_left
    intro t _
    rfl
  · intro t' ht'
    rw [count_tables] at ht'
    obtain ⟨t, ht, rfl⟩ := List.mem_map.mp ht'
    rw [Table.put_length, Table.put_size]
    exact inv.len t ht
  · intro t' ht' b
    rw [count_tables] at ht'
    obtain ⟨t, ht, rfl⟩ := List.mem_map.mp ht'
    have hlt : h % t.size < t.size := Nat.mod_lt _ (hpos t ht)
    have hq : h % t.size / 32 < t.blocks.length := by rw [inv.len t ht]; unfold nblocks; omega
    rw [Table.put_get _ _ _ hq, Table.put_size, refBit_cons, inv.bits t ht]
    rw [Bool.or_comm]
    congr 1
    apply Bool.eq_iff_iff.mpr
    rw [beq_iff_eq, beq_iff_eq]
    exact eq_comm
  · rw [count_occupied, count_tables]
    cases hg : g.tables with
    | nil => simpa [hg] using inv.occ
    | cons t ts =>
      have ht : t ∈ g.tables := by rw [hg]; simp
      have hlt : h % t.size < t.size := Nat.mod_lt _ (hpos t ht)
      have hocc : g.occupied = t.countOnes := by simpa [hg] using inv.occ
      simp only [List.map_cons, List.head?_cons, Option.map_some, Option.getD_some]
      rw [Table.countOnes_put t _ hlt (inv.len t ht), hocc]

theorem zipUnion_inv (H Ho : List Nat) (ds ss : List Table)
    (hsz : ds.map Table.size = ss.map Table.size)
    (hdl : ∀ t ∈ ds, t.blocks.length = nblocks t.size) (hsl : ∀ t ∈ ss, t.blocks.length = nblocks t.size)
    (hdb : ∀ t ∈ ds, ∀ b, t.get b = refBit H t.size b) (hsb : ∀ t ∈ ss, ∀ b, t.get b = refBit Ho t.size b) :
    (zipUnion ds ss).map Table.size = ds.map Table.size ∧
    ∀ t ∈ zipUnion ds ss, t.blocks.length = nblocks t.size ∧ ∀ b, t.get b = refBit (H ++ Ho) t.size b := by
  induction ds generalizing ss with
  | nil =>
    cases ss with
    | nil => simp [zipUnion]
    | cons s ss => simp at hsz
  | cons d ds ih =>
    cases ss with
    | nil => simp at hsz
    | cons s ss =>
      simp only [List.map_cons, List.cons.injEq] at hsz
      obtain ⟨h1, h2⟩ := hsz
      have hl : d.blocks.length = s.blocks.length := by
        rw [hdl d (by simp), hsl s (by simp), h1]
      obtain ⟨ih1, ih2⟩ := ih ss h2 (fun t ht => hdl t (by simp [ht])) (fun t ht => hsl t (by simp [ht]))
        (fun t ht => hdb t (by simp [ht])) (fun t ht => hsb t (by simp [ht]))
      refine ⟨by simp [zipUnion, Table.unionWith_size d s h1, ih1], ?_⟩
      intro t ht
      simp only [zipUnion, List.mem_cons] at ht
      cases ht with
      | inl e =>
        subst e
        refine ⟨by rw [Table.unionWith_length d s h1, Table.unionWith_size d s h1]; exact hdl d (by simp), ?_⟩
        intro b
        rw [Table.unionWith_get d s h1 hl, Table.unionWith_size d s h1, refBit_append, hdb d (by simp),
          hsb s (by simp), h1]
      | inr hm => exact ih2 t hm

theorem inv_update {sizes : List Nat} {g o : G} {H Ho : List Nat} (inv : Inv sizes g H) (invo : Inv sizes o Ho) :
    Inv sizes (g.updateFrom o) (H ++ Ho) := by
  have hsz : g.tables.map Table.size = o.tables.map Table.size := by rw [inv.sizes_eq, invo.sizes_eq]
  obtain ⟨z1, z2⟩ := zipUnion_inv H Ho g.tables o.tables hsz inv.len invo.len inv.bits invo.bits
  refine ⟨by simp only [G.updateFrom]; rw [z1, inv.sizes_eq], fun t ht => (z2 t ht).1, fun t ht => (z2 t ht).2, ?_⟩
  simp only [G.updateFrom]
  cases hg : g.tables with
  | nil =>
    cases ho : o.tables with
    | nil => simp [zipUnion]
    | cons s ss => rw [hg, ho] at hsz; simp at hsz
  | cons d ds =>
    cases ho : o.tables with
    | nil => rw [hg, ho] at hsz; simp at hsz
    | cons s ss => simp [zipUnion]

/-! ### histories -/

/-- `Reach sizes g H u`: the model state `g` is reachable from `Nodegraph::new(sizes, _)` by some
    history of `count` (directly, through `count_kmer`, or through a sketch `update`) and
    `update` from other filters that were themselves built this way over the same size vector;
    `H` collects every hash inserted on the way (own insertions and those of the unioned-in
    filters) and `u` counts the `count` calls on this filter that returned `true`. -/
inductive Reach (sizes : List Nat) : G → List Nat → Nat → Prop
  | new (k : Nat) : Reach sizes (G.new sizes k) [] 0
  | count {g : G} {H : List Nat} {u : Nat} (h : Nat) :
      Reach sizes g H u → Reach sizes (g.count h).1 (h :: H) (if (g.count h).2 then u + 1 else u)
  | update {g o : G} {H Ho : List Nat} {u uo : Nat} :
      Reach sizes g H u → Reach sizes o Ho uo → Reach sizes (g.updateFrom o) (H ++ Ho) u

theorem Reach.inv {sizes : List Nat} (hs : ∀ s ∈ sizes, 1 ≤ s) {g : G} {H : List Nat} {u : Nat}
    (r : Reach sizes g H u) : Inv sizes g H := by
  induction r with
  | new k => exact inv_new sizes k
  | count h _ ih => exact inv_count ih hs h
  | update _ _ ih1 ih2 => exact inv_update ih1 ih2

theorem Reach.unique_eq {sizes : List Nat} {g : G} {H : List Nat} {u : Nat}
    (r : Reach sizes g H u) : g.unique = u := by
  induction r with
  | new k => rfl
  | count h _ ih => rw [count_unique, ih]
  | update _ _ ih1 _ => simpa [G.updateFrom] using ih1

/-- a sketch update is the sequence of `count`s of its hashes -/
theorem Reach.updateHashes {sizes : List Nat} {g : G} {H : List Nat} {u : Nat}
    (r : Reach sizes g H u) (hs : List Nat) :
    ∃ u', u ≤ u' ∧ Reach sizes (g.updateHashes hs) (hs.reverse ++ H) u' := by
  induction hs generalizing g H u with
  | nil => exact ⟨u, Nat.le_refl _, by simpa [G.updateHashes] using r⟩
  | cons h hs ih =>
    obtain ⟨u', hu, r'⟩ := ih (Reach.count h r)
    refine ⟨u', ?_, ?_⟩
    · split at hu <;> omega
    · simpa [G.updateHashes, List.reverse_cons, List.append_assoc] using r'
theorem countOnes_eq_refCount {H : List Nat} (t : Table) (hb : ∀ b, t.get b = refBit H t.size b) :
    t.countOnes = refCount H t.size := by
  unfold Table.countOnes Table.ones refCount refOnes
  congr 1
  apply List.filter_congr
  intro b _
  exact hb b

end NG
