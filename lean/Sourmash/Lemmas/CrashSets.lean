import Sourmash.Model.Crash
/-! Finite sets as strictly increasing lists (`Crash.ins`, `Crash.union`, `Crash.Sorted`):
membership, preservation of sortedness, extensionality.  Core Lean only. -/
namespace Crash
variable {α : Type} [SOrd α]

theorem lt_asymm {a b : α} (h : SOrd.lt a b = true) : SOrd.lt b a = false := by
  cases hb : SOrd.lt b a with
  | false => rfl
  | true =>
    have := SOrd.trans a b a h hb
    rw [SOrd.irrefl] at this
    cases this

theorem lt_ne {a b : α} (h : SOrd.lt a b = true) : a ≠ b := by
  intro e
  subst e
  rw [SOrd.irrefl] at h
  cases h

theorem eq_of_not_lt {a b : α} (h1 : SOrd.lt a b = false) (h2 : SOrd.lt b a = false) : a = b := by
  rcases SOrd.tri a b with h | h | h
  · rw [h1] at h; cases h
  · exact h
  · rw [h2] at h; cases h

theorem ins_cons (a y : α) (ys : List α) :
    ins a (y :: ys) = if SOrd.lt a y = true then a :: y :: ys
      else if SOrd.lt y a = true then y :: ins a ys else y :: ys := rfl

theorem mem_ins (a x : α) (l : List α) : x ∈ ins a l ↔ x = a ∨ x ∈ l := by
  induction l with
  | nil => simp [ins]
  | cons y ys ih =>
    rw [ins_cons]
    cases h1 : SOrd.lt a y with
    | true => simp
    | false =>
      cases h2 : SOrd.lt y a with
      | true =>
        simp only [Bool.false_eq_true, if_false, if_true, List.mem_cons, ih]
        constructor
        · rintro (h | h | h)
          · exact Or.inr (Or.inl h)
          · exact Or.inl h
          · exact Or.inr (Or.inr h)
        · rintro (h | h | h)
          · exact Or.inr (Or.inl h)
          · exact Or.inl h
          · exact Or.inr (Or.inr h)
      | false =>
        have e : a = y := eq_of_not_lt h1 h2
        subst e
        simp

theorem sorted_cons {a : α} {l : List α} :
    Sorted (a :: l) ↔ (∀ b ∈ l, SOrd.lt a b = true) ∧ Sorted l := by
  unfold Sorted
  exact List.pairwise_cons

theorem sorted_ins (a : α) {l : List α} (h : Sorted l) : Sorted (ins a l) := by
  induction l with
  | nil => simp [ins, Sorted]
  | cons y ys ih =>
    obtain ⟨hy, hys⟩ := sorted_cons.mp h
    rw [ins_cons]
    cases h1 : SOrd.lt a y with
    | true =>
      simp only [if_true]
      refine sorted_cons.mpr ⟨?_, h⟩
      intro b hb
      rcases List.mem_cons.mp hb with e | hb
      · subst e; exact h1
      · exact SOrd.trans _ _ _ h1 (hy b hb)
    | false =>
      cases h2 : SOrd.lt y a with
      | true =>
        simp only [Bool.false_eq_true, if_false, if_true]
        refine sorted_cons.mpr ⟨?_, ih hys⟩
        intro b hb
        rcases (mem_ins a b ys).mp hb with e | hb
        · subst e; exact h2
        · exact hy b hb
      | false =>
        simp only [Bool.false_eq_true, if_false]
        exact h

/-- inserting an element that is already there changes nothing (idempotence of the merge) -/
theorem ins_of_mem {a : α} {l : List α} (h : Sorted l) (ha : a ∈ l) : ins a l = l := by
  induction l with
  | nil => cases ha
  | cons y ys ih =>
    obtain ⟨hy, hys⟩ := sorted_cons.mp h
    rw [ins_cons]
    rcases List.mem_cons.mp ha with e | ha
    · subst e
      simp [SOrd.irrefl]
    · have hlt : SOrd.lt y a = true := hy a ha
      rw [lt_asymm hlt, hlt, ih hys ha]
      simp

/-- two strictly increasing lists with the same elements are equal -/
theorem sorted_ext {l₁ l₂ : List α} (h₁ : Sorted l₁) (h₂ : Sorted l₂)
    (h : ∀ x, x ∈ l₁ ↔ x ∈ l₂) : l₁ = l₂ := by
  induction l₁ generalizing l₂ with
  | nil =>
    cases l₂ with
    | nil => rfl
    | cons b bs => exact absurd ((h b).mpr (List.mem_cons_self ..)) (by simp)
  | cons a as ih =>
    cases l₂ with
    | nil => exact absurd ((h a).mp (List.mem_cons_self ..)) (by simp)
    | cons b bs =>
      obtain ⟨ha, has⟩ := sorted_cons.mp h₁
      obtain ⟨hb, hbs⟩ := sorted_cons.mp h₂
      have hab : a = b := by
        have h1 := (h a).mp (List.mem_cons_self ..)
        have h2 := (h b).mpr (List.mem_cons_self ..)
        rcases List.mem_cons.mp h1 with e | h1
        · exact e
        · rcases List.mem_cons.mp h2 with e | h2
          · exact e.symm
          · have := lt_asymm (hb a h1)
            rw [ha b h2] at this
            cases this
      subst hab
      have : as = bs := by
        apply ih has hbs
        intro x
        constructor
        · intro hx
          rcases List.mem_cons.mp ((h x).mp (List.mem_cons_of_mem _ hx)) with e | hx'
          · subst e; exact absurd (ha x hx) (by simp [SOrd.irrefl])
          · exact hx'
        · intro hx
          rcases List.mem_cons.mp ((h x).mpr (List.mem_cons_of_mem _ hx)) with e | hx'
          · subst e; exact absurd (hb x hx) (by simp [SOrd.irrefl])
          · exact hx'
      rw [this]

theorem mem_union (s t : List α) (x : α) : x ∈ union s t ↔ x ∈ s ∨ x ∈ t := by
  unfold union
  induction t generalizing s with
  | nil => simp
  | cons y ys ih =>
    simp only [List.foldl_cons, ih, mem_ins, List.mem_cons]
    constructor
    · rintro ((h | h) | h)
      · exact Or.inr (Or.inl h)
      · exact Or.inl h
      · exact Or.inr (Or.inr h)
    · rintro (h | h | h)
      · exact Or.inl (Or.inr h)
      · exact Or.inl (Or.inl h)
      · exact Or.inr h

theorem sorted_union {s : List α} (t : List α) (h : Sorted s) : Sorted (union s t) := by
  unfold union
  induction t generalizing s with
  | nil => exact h
  | cons y ys ih => exact ih (sorted_ins y h)

theorem sorted_nil : Sorted ([] : List α) := by simp [Sorted]

/-- the merge operator is idempotent: merging an operand whose elements are all present is a no-op -/
theorem union_of_subset {s t : List α} (h : Sorted s) (ht : ∀ x ∈ t, x ∈ s) : union s t = s := by
  unfold union
  induction t generalizing s with
  | nil => rfl
  | cons y ys ih =>
    simp only [List.foldl_cons]
    rw [ins_of_mem h (ht y (List.mem_cons_self ..))]
    exact ih h (fun x hx => ht x (List.mem_cons_of_mem _ hx))

theorem nat_lt_iff (a b : Nat) : (SOrd.lt a b = true) ↔ a < b := by
  show decide (a < b) = true ↔ a < b
  simp

theorem sorted_range (n : Nat) : Sorted (List.range n) := by
  unfold Sorted
  have := @List.pairwise_lt_range n
  exact this.imp (fun h => (nat_lt_iff _ _).mpr h)

end Crash
