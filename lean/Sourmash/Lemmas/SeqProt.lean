import Sourmash.Lemmas.SeqDna
/-! Lemmas/SeqProt.lean — protein input and six-frame translation arms of `SeqToHashes.next`. -/
namespace Seq
open Kmers (Mol)

/-! ### slice::windows, to_aa -/

theorem windows_eq_spec {α : Type} (k : Nat) (hk : 1 ≤ k) (l : List α) :
    windows k l = Kmers.windows k l := by
  have hk0 : k ≠ 0 := by omega
  induction l with
  | nil =>
    have : 0 + 1 - k = 0 := by omega
    simp [windows, Kmers.windows, hk0, this]
  | cons a t ih =>
    unfold windows
    by_cases h : k ≤ t.length + 1
    · rw [if_pos h, ih]
      simp only [Kmers.windows, hk0, if_false, List.length_cons]
      have : t.length + 1 + 1 - k = (t.length + 1 - k) + 1 := by omega
      rw [this, List.range_succ_eq_map, List.map_cons, List.map_map]
      congr 1
    · rw [if_neg h]
      have : t.length + 1 + 1 - k = 0 := by omega
      simp [Kmers.windows, hk0, this]

theorem windows_length {α : Type} (k : Nat) (hk : 1 ≤ k) (l : List α) :
    (windows k l).length = l.length + 1 - k := by
  rw [windows_eq_spec k hk]
  have hk0 : k ≠ 0 := by omega
  simp [Kmers.windows, hk0]

/-- `to_aa` is: translate with the standard code, then reduce the alphabet -/
theorem toAA_eq (m : Mol) : ∀ (n : Nat) (nt : List UInt8), nt.length ≤ n →
    toAA (m == .dayhoff) (m == .hp) nt = (Kmers.translate nt).map (Kmers.reduce m) := by
  intro n
  induction n using Nat.strongRecOn with
  | _ n ih =>
    intro nt hn
    match nt with
    | [] => simp [toAA, Kmers.translate]
    | [_] => simp [toAA, Kmers.translate]
    | [_, _] => simp [toAA, Kmers.translate]
    | a :: b :: c :: rest =>
      simp only [toAA, Kmers.translate, List.map_cons]
      rw [ih (n - 3) (by simp at hn; omega) rest (by simp at hn; omega)]
      congr 1
      rw [Tables.codon3_eq]
      cases m <;> simp [Kmers.reduce, Tables.dayhoff_eq, Tables.hp_eq]

theorem translate_length : ∀ (n : Nat) (nt : List UInt8), nt.length ≤ n →
    (Kmers.translate nt).length = nt.length / 3 := by
  intro n
  induction n using Nat.strongRecOn with
  | _ n ih =>
    intro nt hn
    match nt with
    | [] => simp [Kmers.translate]
    | [_] => simp [Kmers.translate]
    | [_, _] => simp [Kmers.translate]
    | a :: b :: c :: rest =>
      simp only [Kmers.translate, List.length_cons]
      rw [ih (n - 3) (by simp at hn; omega) rest (by simp at hn; omega)]
      omega

/-! ### protein input -/

/-- the residue string the protein arms window over -/
def reducedU (m : Mol) (u : List UInt8) : List UInt8 :=
  match m with
  | .dayhoff => u.map dayhoff
  | .hp => u.map hp
  | _ => u

theorem reducedU_eq (m : Mol) (u : List UInt8) : reducedU m u = u.map (Kmers.reduce m) := by
  have hid : ∀ l : List UInt8, l = l.map (fun b => b) := fun l => (List.map_id' l).symm
  cases m
  · exact hid u
  · exact hid u
  · simp only [reducedU]
    exact List.map_congr_left (fun b _ => Tables.dayhoff_eq b)
  · simp only [reducedU]
    exact List.map_congr_left (fun b _ => Tables.hp_eq b)

/-- every state of an iterator over protein input -/
def protSt (u : List UInt8) (k : Nat) (seed : UInt64) (force : Bool) (m : Mol) (ki : Nat)
    (aa : List UInt8) : St :=
  { sequence := u, kmerIndex := ki, kSize := k, maxIndex := u.length + 1 - k, force := force,
    isProtein := true, mol := m, seed := seed, aaSeq := aa }

theorem new_prot (seq : List UInt8) (ksize : Nat) (seed : UInt64) (force : Bool) (m : Mol) :
    St.new seq ksize force true m seed = protSt (seq.map upper) (ksize / 3) seed force m 0 [] := by
  simp only [St.new, protSt, List.length_map, Bool.true_or, if_true]
  have : (if seq.length ≥ ksize / 3 then seq.length - ksize / 3 + 1 else 0)
      = seq.length + 1 - ksize / 3 := by split <;> omega
  simp [this]

theorem next_prot_none (u : List UInt8) (k : Nat) (seed : UInt64) (force : Bool) (m : Mol) (ki : Nat)
    (aa : List UInt8) (h : ¬ ki < u.length + 1 - k) :
    (protSt u k seed force m ki aa).next = none := by
  simp [St.next, protSt, h]

theorem next_prot_some (u : List UInt8) (k : Nat) (seed : UInt64) (force : Bool) (m : Mol) (ki : Nat)
    (aa : List UInt8) (hm : m ≠ .dna) (h : ki < u.length + 1 - k) :
    ∃ aa', (protSt u k seed force m ki aa).next
      = some (.ok (Murmur.hash64 (kmerAt (reducedU m u) k ki) seed),
              protSt u k seed force m (ki + 1) aa') := by
  cases m with
  | dna => exact absurd rfl hm
  | protein =>
    exact ⟨aa, by simp [St.next, protSt, nextProtein, h, kmerAt, reducedU]⟩
  | dayhoff =>
    exact ⟨u.map dayhoff, by simp [St.next, protSt, nextProtein, reducedSeq, h, kmerAt, reducedU]⟩
  | hp =>
    exact ⟨u.map hp, by simp [St.next, protSt, nextProtein, reducedSeq, h, kmerAt, reducedU]⟩

theorem next_prot_dna (u : List UInt8) (k : Nat) (seed : UInt64) (force : Bool) (ki : Nat)
    (aa : List UInt8) (h : ki < u.length + 1 - k) :
    (protSt u k seed force .dna ki aa).next = some (.errHf, protSt u k seed force .dna ki aa) := by
  simp [St.next, protSt, nextProtein, reducedSeq, h]

theorem run_prot (u : List UInt8) (k : Nat) (seed : UInt64) (force : Bool) (m : Mol) (hm : m ≠ .dna) :
    ∀ (n ki : Nat) (aa : List UInt8) (fuel : Nat), u.length + 1 - k - ki = n → n + 1 ≤ fuel →
      run (protSt u k seed force m ki aa) fuel
        = ((List.range' ki n).map (kmerAt (reducedU m u) k)).map (fun w => .ok (Murmur.hash64 w seed)) := by
  intro n
  induction n with
  | zero =>
    intro ki aa fuel hn hf
    obtain ⟨f, rfl⟩ : ∃ f, fuel = f + 1 := ⟨fuel - 1, by omega⟩
    have : ¬ ki < u.length + 1 - k := by omega
    simp [run, next_prot_none u k seed force m ki aa this]
  | succ n ih =>
    intro ki aa fuel hn hf
    obtain ⟨f, rfl⟩ : ∃ f, fuel = f + 1 := ⟨fuel - 1, by omega⟩
    obtain ⟨aa', hnext⟩ := next_prot_some u k seed force m ki aa hm (by omega)
    rw [List.range'_succ, List.map_cons, List.map_cons]
    unfold run
    rw [hnext]
    simp only
    rw [ih (ki + 1) aa' f (by omega) (by omega)]

/-! ### six-frame translation -/

/-- every state of a protein-family iterator over DNA input -/
def trSt (u : List UInt8) (k : Nat) (seed : UInt64) (force : Bool) (m : Mol) (ki : Nat) (cfg : Bool)
    (buf : List UInt64) (step : Nat) : St :=
  { sequence := u, kmerIndex := ki, kSize := k, maxIndex := u.length + 1 - k, force := force,
    isProtein := false, mol := m, seed := seed, hashesBuffer := buf,
    dnaConfigured := cfg, dnaRc := if cfg then revcomp u else [],
    dnaKsize := if cfg then k else 0, dnaLen := if cfg then u.length else 0,
    translateIterStep := step }

theorem new_tr (seq : List UInt8) (ksize : Nat) (seed : UInt64) (force : Bool) (m : Mol) (hm : m ≠ .dna) :
    St.new seq ksize force false m seed
      = trSt (seq.map upper) (ksize / 3) seed force m 0 false [] 0 := by
  have hb : (m != Mol.dna) = true := by simpa using hm
  simp only [St.new, trSt, List.length_map, hb, Bool.false_or, if_true]
  have : (if seq.length ≥ ksize / 3 then seq.length - ksize / 3 + 1 else 0)
      = seq.length + 1 - ksize / 3 := by split <;> omega
  simp [this]

/-- the buffer the first call fills -/
def trBuf (u : List UInt8) (k : Nat) (seed : UInt64) (m : Mol) : List UInt64 :=
  (List.range 3).flatMap (fun f =>
    (windows k (toAA (m == .dayhoff) (m == .hp) ((u.drop f).take (u.length - f)))).map
        (fun w => Murmur.hash64 w seed)
    ++ (windows k (toAA (m == .dayhoff) (m == .hp)
          (((revcomp u).drop f).take ((revcomp u).length - f)))).map (fun w => Murmur.hash64 w seed))

theorem drop_take_all {α : Type} (l : List α) (f : Nat) : (l.drop f).take (l.length - f) = l.drop f :=
  List.take_of_length_le (by simp)

/-- the buffer holds the specification's six-frame hashes -/
theorem trBuf_eq (u : List UInt8) (k : Nat) (hk : 1 ≤ k) (seed : UInt64) (m : Mol) :
    trBuf u k seed m = (List.range 3).flatMap (fun f =>
      Kmers.frameHashes m k seed (u.drop f) ++ Kmers.frameHashes m k seed ((Kmers.revcomp u).drop f)) := by
  unfold trBuf Kmers.frameHashes
  simp only [drop_take_all, windows_eq_spec k hk, toAA_eq m _ _ (Nat.le_refl _), Tables.revcomp_eq]

/-- too short for even one codon window: `None` straight away -/
theorem next_tr_short (u : List UInt8) (k : Nat) (seed : UInt64) (force : Bool) (m : Mol) (hm : m ≠ .dna)
    (h : u.length < 3 * k) : (trSt u k seed force m 0 false [] 0).next = none := by
  have hb : (m != Mol.dna) = true := by simpa using hm
  by_cases h1 : 0 < u.length + 1 - k
  · have h2 : u.length < k * 3 := by omega
    simp [St.next, trSt, h1, hb, h2]
  · simp [St.next, trSt, h1]

theorem next_tr_first (u : List UInt8) (k : Nat) (seed : UInt64) (force : Bool) (m : Mol) (hm : m ≠ .dna)
    (hk : 1 ≤ k) (h : 3 * k ≤ u.length) :
    (trSt u k seed force m 0 false [] 0).next
      = some (.ok 0, trSt u k seed force m 0 true (trBuf u k seed m) 0) := by
  have hb : (m != Mol.dna) = true := by simpa using hm
  have hb' : (m == Mol.dna) = false := by simpa using hm
  have h1 : 0 < u.length + 1 - k := by omega
  have h2 : ¬ u.length < k := by omega
  have h3 : ¬ u.length < k * 3 := by omega
  have h4 : ¬ k = 0 := by omega
  simp [St.next, trSt, nextTranslate, trBuf, h1, h2, h3, h4, hb, hb']
  refine congrArg (fun g => List.flatMap g (List.range 3)) ?_
  funext f
  simp [framePair]

theorem next_tr_item (u : List UInt8) (k : Nat) (seed : UInt64) (force : Bool) (m : Mol) (hm : m ≠ .dna)
    (ki : Nat) (buf : List UInt64) (t : Nat) (ht : t < buf.length) :
    (trSt u k seed force m ki true buf t).next
      = some (.ok buf[t], trSt u k seed force m ki true buf (t + 1)) := by
  have hb' : (m == Mol.dna) = false := by simpa using hm
  have hne : buf ≠ [] := List.ne_nil_of_length_pos (by omega)
  have he : buf.isEmpty = false := by simpa using hne
  have h1 : ¬ t = buf.length := by omega
  simp [St.next, trSt, nextTranslate, he, hb', h1, ht]

theorem next_tr_last (u : List UInt8) (k : Nat) (seed : UInt64) (force : Bool) (m : Mol) (hm : m ≠ .dna)
    (ki : Nat) (buf : List UInt64) (hne : buf ≠ []) :
    (trSt u k seed force m ki true buf buf.length).next
      = some (.ok 0, trSt u k seed force m (u.length + 1 - k) true [] buf.length) := by
  have hb' : (m == Mol.dna) = false := by simpa using hm
  have he : buf.isEmpty = false := by simpa using hne
  simp [St.next, trSt, nextTranslate, he, hb']

theorem next_tr_end (u : List UInt8) (k : Nat) (seed : UInt64) (force : Bool) (m : Mol) (t : Nat) :
    (trSt u k seed force m (u.length + 1 - k) true [] t).next = none := by
  simp [St.next, trSt]

theorem run_tr (u : List UInt8) (k : Nat) (seed : UInt64) (force : Bool) (m : Mol) (hm : m ≠ .dna)
    (ki : Nat) (buf : List UInt64) (hne : buf ≠ []) :
    ∀ (n t fuel : Nat), buf.length - t = n → t ≤ buf.length → n + 2 ≤ fuel →
      run (trSt u k seed force m ki true buf t) fuel = (buf.drop t).map .ok ++ [.ok 0] := by
  intro n
  induction n with
  | zero =>
    intro t fuel hn ht hf
    obtain ⟨f, rfl⟩ : ∃ f, fuel = f + 2 := ⟨fuel - 2, by omega⟩
    have : t = buf.length := by omega
    subst this
    simp [run, next_tr_last u k seed force m hm ki buf hne, next_tr_end]
  | succ n ih =>
    intro t fuel hn ht hf
    obtain ⟨f, rfl⟩ : ∃ f, fuel = f + 1 := ⟨fuel - 1, by omega⟩
    have htl : t < buf.length := by omega
    unfold run
    rw [next_tr_item u k seed force m hm ki buf t htl]
    simp only
    rw [ih (t + 1) f (by omega) (by omega) (by omega), List.drop_eq_getElem_cons htl]
    rfl

/-- the buffer is never empty once the length guard has passed (otherwise the iterator would refill
    it forever) and never longer than twice the sequence -/
theorem trBuf_length (u : List UInt8) (k : Nat) (hk : 1 ≤ k) (seed : UInt64) (m : Mol)
    (h : 3 * k ≤ u.length) :
    1 ≤ (trBuf u k seed m).length ∧ (trBuf u k seed m).length ≤ 2 * u.length := by
  have hlen : ∀ nt : List UInt8,
      (windows k (toAA (m == .dayhoff) (m == .hp) nt)).length = nt.length / 3 + 1 - k := by
    intro nt
    rw [windows_length k hk, toAA_eq m _ _ (Nat.le_refl _), List.length_map,
      translate_length _ _ (Nat.le_refl _)]
  have hr : (revcomp u).length = u.length := by simp [revcomp]
  have e : List.range 3 = [0, 1, 2] := by decide
  unfold trBuf
  simp only [drop_take_all]
  simp only [e, List.flatMap_cons, List.flatMap_nil, List.length_append, List.length_map, hlen,
    List.length_drop, hr, List.append_nil]
  omega

/-! ### what reaches the sketch -/

theorem fedHashes_ok (hs : List UInt64) : fedHashes (hs.map .ok) = hs.filter (· != 0) := by
  induction hs with
  | nil => rfl
  | cons h t ih =>
    simp only [List.map_cons, fedHashes, List.filter_cons, ih]
    by_cases h0 : h = 0 <;> simp [h0]

theorem firstErr_ok (hs : List UInt64) : firstErr (hs.map .ok) = none := by
  induction hs with
  | nil => rfl
  | cons h t ih => simpa [firstErr] using ih

end Seq
