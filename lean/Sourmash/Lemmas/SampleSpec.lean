import Sourmash.Lemmas.SampleMerge
/-! Lemmas/SampleSpec.lean — the abstract sample keeps its own invariant (keys strictly increasing,
at most `num` of them on a num sketch, all ≤ `maxHash` on a scaled sketch) under every abstract step.
Core Lean only. -/
namespace Sample
open MH

structure SInv (σ : St) : Prop where
  wf : WFp σ.num σ.maxHash
  sorted : Sorted (keys σ.m)
  cap : σ.num ≠ 0 → σ.m.length ≤ σ.num
  ceil : σ.maxHash ≠ 0 → ∀ k ∈ keys σ.m, k ≤ σ.maxHash

theorem SInv.new {n mh : Nat} (t : Bool) (h : WFp n mh) : SInv { num := n, maxHash := mh, track := t } :=
  ⟨h, List.Pairwise.nil, fun _ => Nat.zero_le _, fun _ k hk => by simp at hk⟩

/-! ### cap -/

theorem cap_id {σ : St} {m : FMap} (hl : σ.num ≠ 0 → m.length ≤ σ.num) : σ.cap m = m := by
  rw [cap_eq]
  split
  · rfl
  · next hn => exact List.take_of_length_le (hl hn)

theorem sorted_cap (σ : St) {m : FMap} (hs : Sorted (keys m)) : Sorted (keys (σ.cap m)) := by
  rw [cap_eq]
  split
  · exact hs
  · rw [keys_take]; exact hs.take

theorem length_cap (σ : St) (m : FMap) (hn : σ.num ≠ 0) : (σ.cap m).length ≤ σ.num := by
  rw [cap_eq, if_neg hn, List.length_take]
  exact Nat.min_le_left _ _

theorem mem_keys_cap {σ : St} {m : FMap} {x : Nat} (hx : x ∈ keys (σ.cap m)) : x ∈ keys m := by
  rw [cap_eq] at hx
  split at hx
  · exact hx
  · rw [keys_take] at hx; exact List.mem_of_mem_take hx

/-- replacing the sample by a capped map with sorted, bounded keys keeps the invariant -/
theorem SInv.withCap {σ : St} (i : SInv σ) {m : FMap} (hs : Sorted (keys m))
    (hc : σ.maxHash ≠ 0 → ∀ k ∈ keys m, k ≤ σ.maxHash) (t : Bool) :
    SInv { σ with m := σ.cap m, track := t } :=
  ⟨i.wf, sorted_cap σ hs, fun hn => length_cap σ m hn, fun hmh k hk => hc hmh k (mem_keys_cap hk)⟩

/-- a sub-sample (sorted, not longer, keys among the old ones) keeps the invariant -/
theorem SInv.shrink {σ : St} (i : SInv σ) {m : FMap} (hs : Sorted (keys m)) (hl : m.length ≤ σ.m.length)
    (hsub : ∀ k ∈ keys m, k ∈ keys σ.m) : SInv { σ with m := m } :=
  ⟨i.wf, hs, fun hn => Nat.le_trans hl (i.cap hn), fun hmh k hk => i.ceil hmh k (hsub k hk)⟩

/-! ### steps -/

theorem St.add_pos {σ : St} {k : Kind} {h a : Nat} (hc : ¬ (σ.maxHash ≠ 0 ∧ σ.maxHash < h)) (ha : a ≠ 0) :
    σ.add k h a = { σ with m := σ.cap (ins σ.m h a) } := by
  unfold St.add; rw [if_neg hc, if_neg ha]


theorem SInv.remove {σ : St} (i : SInv σ) (h : Nat) : SInv (σ.remove h) :=
  i.shrink (sorted_del i.sorted h) (del_length_le _ _) (fun _ hk => mem_keys_del hk)

theorem SInv.removeMany {σ : St} (i : SInv σ) (hs : List Nat) : SInv (σ.removeMany hs) := by
  unfold St.removeMany
  induction hs generalizing σ with
  | nil => exact i
  | cons x t ih => exact ih (i.remove x)

theorem SInv.clear {σ : St} (i : SInv σ) : SInv σ.clear :=
  i.shrink List.Pairwise.nil (Nat.zero_le _) (fun k hk => by simp at hk)

theorem SInv.add {σ : St} (i : SInv σ) (k : Kind) (h a : Nat) : SInv (σ.add k h a) := by
  unfold St.add
  split
  · exact i
  · next hc =>
    split
    · cases k with
      | vec => exact i.remove h
      | tree => exact i
    · refine i.withCap (sorted_ins i.sorted h a) ?_ σ.track
      intro hmh x hx
      rcases mem_keys_ins.mp hx with rfl | hx
      · have : ¬ σ.maxHash < x := fun hlt => hc ⟨hmh, hlt⟩
        omega
      · exact i.ceil hmh x hx

theorem SInv.set {σ : St} (i : SInv σ) (h a : Nat) : SInv (σ.set h a) := by
  unfold St.set
  split
  · refine i.shrink ?_ ?_ ?_
    · rw [keys_setv]; exact i.sorted
    · simp [setv]
    · intro k hk; rw [keys_setv] at hk; exact hk
  · exact i.add .vec h a

theorem SInv.step {σ : St} (i : SInv σ) (k : Kind) (o : Op) : SInv (σ.step k o) := by
  cases o with
  | add h a => exact i.add k h a
  | set h a => exact i.set h a
  | remove h => exact i.remove h
  | removeMany hs => exact i.removeMany hs
  | clear => exact i.clear

theorem SInv.merge {σ o : St} (i : SInv σ) (j : SInv o) (hmh : o.maxHash = σ.maxHash) : SInv (σ.merge o) := by
  unfold St.merge
  refine i.withCap (sorted_union o.m i.sorted) ?_ _
  intro hne x hx
  rcases mem_keys_union hx with hx | hx
  · exact i.ceil hne x hx
  · rw [← hmh] at hne ⊢; exact j.ceil hne x hx

/-! ### whole histories -/

theorem St.add_maxHash (σ : St) (k : Kind) (h a : Nat) : (σ.add k h a).maxHash = σ.maxHash := by
  unfold St.add
  split
  · rfl
  · split
    · cases k <;> rfl
    · rfl

theorem St.step_maxHash (σ : St) (k : Kind) (o : Op) : (σ.step k o).maxHash = σ.maxHash := by
  cases o with
  | add h a => exact St.add_maxHash σ k h a
  | set h a =>
    simp only [St.step, St.set]
    split
    · rfl
    · exact St.add_maxHash σ .vec h a
  | remove h => rfl
  | removeMany hs =>
    simp only [St.step, St.removeMany]
    induction hs generalizing σ with
    | nil => rfl
    | cons x t ih => exact (ih (σ.remove x)).trans rfl
  | clear => rfl

theorem runSpec_params (k : Kind) (mh : Nat) (H : Hist) : (runSpec k mh H).maxHash = mh := by
  induction H with
  | new n t => rfl
  | op H o ih => simp only [runSpec]; rw [St.step_maxHash]; exact ih
  | merge H O ih _ => exact ih

theorem runSpec_inv (k : Kind) (mh : Nat) (H : Hist) (hwf : H.WF mh) : SInv (runSpec k mh H) := by
  induction H with
  | new n t => exact SInv.new t hwf
  | op H o ih => exact (ih hwf).step k o
  | merge H O ih1 ih2 =>
    refine (ih1 hwf.1).merge (ih2 hwf.2) ?_
    rw [runSpec_params, runSpec_params]

end Sample
