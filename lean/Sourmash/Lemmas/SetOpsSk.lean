import Sourmash.Lemmas.SetOps
/-! Lemmas/SetOpsSk.lean — sketch-level consequences: `merge` of either container type computes
`mergeSpec`; the fallible entry points fail exactly with `check_compatible`'s error. -/
namespace SetOps
open SetSpec

theorem mergePairs_keys (p q : List (Nat × Nat)) :
    (mergePairs p q).map Prod.fst = mergeKeys (p.map Prod.fst) (q.map Prod.fst) := by
  fun_induction mergePairs p q <;> grind [mergeKeys]

theorem look_of_not_mem {p : List (Nat × Nat)} {h : Nat} (hn : h ∉ p.map Prod.fst) : look p h = 0 := by
  fun_induction look p h <;> grind

theorem look_mergePairs {p q : List (Nat × Nat)} (hp : SInc (p.map Prod.fst)) (hq : SInc (q.map Prod.fst))
    (h : Nat) : look (mergePairs p q) h = look p h + look q h := by
  fun_induction mergePairs p q <;> grind [look, sinc_cons, look_of_not_mem]

theorem map_snd_eq_look {m : List (Nat × Nat)} (hm : SInc (m.map Prod.fst)) :
    m.map Prod.snd = (m.map Prod.fst).map (look m) := by
  induction m with
  | nil => rfl
  | cons kv t ih =>
    obtain ⟨k, v⟩ := kv
    simp only [List.map_cons] at hm ⊢
    rw [sinc_cons] at hm
    simp only [look, if_true]
    congr 1
    rw [ih hm.2]
    apply List.map_congr_left
    intro z hz
    have := hm.1 z hz
    rw [if_neg (by omega)]

theorem bottom_map {α β : Type} (f : α → β) (n : Nat) (l : List α) : (bottom n l).map f = bottom n (l.map f) := by
  unfold bottom; split <;> simp [List.map_take]

theorem vec_trunc {α : Type} (n : Nat) (m : List α) :
    (if m.length > n ∧ n ≠ 0 then m.take n else m) = bottom n m := by
  unfold bottom
  by_cases h0 : n = 0
  · simp [h0]
  · by_cases hl : m.length > n
    · simp [h0, hl]
    · simp only [hl, h0, false_and, if_false]
      rw [List.take_of_length_le (by omega)]

theorem pairs_tracked {s : Sk} {ab : List Nat} (h : s.abunds = some ab) : s.pairs = s.mins.zip ab := by
  simp [Sk.pairs, h]

theorem merge_ok (k : Kind) {a b : Sk} (wa : a.WF) (wb : b.WF) (hc : checkCompatible a b = .ok ()) :
    a.merge k b = .ok (mergeSpec a b) := by
  obtain ⟨ha, hla⟩ := wa
  obtain ⟨hb, hlb⟩ := wb
  cases k with
  | vec =>
    simp only [Sk.merge, Sk.mergeV, hc, bind, Except.bind, pure, Except.pure]
    cases haa : a.abunds with
    | none => simp [mergeSpec, Sk.track, haa, vec_trunc, mergeKeys_eq_union ha hb]
    | some sa =>
      cases hbb : b.abunds with
      | none => simp [mergeSpec, Sk.track, haa, hbb, vec_trunc, mergeKeys_eq_union ha hb]
      | some sb =>
        have l1 := hla sa haa
        have l2 := hlb sb hbb
        have k1 : (a.mins.zip sa).map Prod.fst = a.mins := List.map_fst_zip (by omega)
        have k2 : (b.mins.zip sb).map Prod.fst = b.mins := List.map_fst_zip (by omega)
        have hk : (mergePairs (a.mins.zip sa) (b.mins.zip sb)).map Prod.fst = union a.mins b.mins := by
          rw [mergePairs_keys, k1, k2, mergeKeys_eq_union ha hb]
        have hs : SInc ((mergePairs (a.mins.zip sa) (b.mins.zip sb)).map Prod.fst) := by
          rw [hk]; exact sinc_union _ _
        simp only [vec_trunc, bottom_map, hk, mergeSpec, Sk.track, haa, hbb, Option.isSome_some, Bool.and_self, if_true]
        congr 2
        rw [map_snd_eq_look hs, hk]; simp only [← bottom_map]
        congr 1
        apply List.map_congr_left
        intro h _
        rw [look_mergePairs (by rw [k1]; exact ha) (by rw [k2]; exact hb)]
        simp [Sk.ab, pairs_tracked haa, pairs_tracked hbb]
  | tree =>
    simp only [Sk.merge, Sk.mergeT, hc, bind, Except.bind, pure, Except.pure]
    have hu : (if a.num = 0 then mergeKeys a.mins b.mins else (mergeKeys a.mins b.mins).take a.num)
        = bottom a.num (union a.mins b.mins) := by rw [mergeKeys_eq_union ha hb]; rfl
    rw [hu]
    cases haa : a.abunds with
    | none => simp [mergeSpec, Sk.track, haa]
    | some sa =>
      cases hbb : b.abunds with
      | none => simp [mergeSpec, Sk.track, haa, hbb]
      | some sb => simp [mergeSpec, Sk.track, haa, hbb, Sk.ab, pairs_tracked haa, pairs_tracked hbb]

/-! ### `check_compatible` -/

theorem checkCompatible_ok_iff (a b : Sk) :
    checkCompatible a b = .ok () ↔
      a.ksize = b.ksize ∧ a.mol = b.mol ∧ a.maxHash = b.maxHash ∧ a.seed = b.seed := by
  unfold checkCompatible
  by_cases h1 : a.ksize = b.ksize <;> by_cases h2 : a.mol = b.mol <;>
    by_cases h3 : a.maxHash = b.maxHash <;> by_cases h4 : a.seed = b.seed <;> simp [h1, h2, h3, h4]

theorem checkCompatible_symm (a b : Sk) : checkCompatible a b = checkCompatible b a := by
  unfold checkCompatible
  by_cases h1 : a.ksize = b.ksize <;> by_cases h2 : a.mol = b.mol <;>
    by_cases h3 : a.maxHash = b.maxHash <;> by_cases h4 : a.seed = b.seed <;>
    simp [h1, h2, h3, h4, Ne, eq_comm]

theorem checkCompatible_cases (a b : Sk) :
    checkCompatible a b = .ok () ∨ ∃ e, checkCompatible a b = .error e := by
  cases h : checkCompatible a b with
  | ok u => left; rfl
  | error e => right; exact ⟨e, rfl⟩

theorem merge_err (k : Kind) {a b : Sk} {e : Err} (hc : checkCompatible a b = .error e) :
    a.merge k b = .error e := by
  cases k <;> simp [Sk.merge, Sk.mergeV, Sk.mergeT, hc, bind, Except.bind]

/-! ### intersections of scaled sketches -/

theorem intersection_scaled (k : Kind) {a b : Sk} (ha : SInc a.mins) (hb : SInc b.mins) (hn : a.num = 0)
    (hc : checkCompatible a b = .ok ()) :
    intersection k a b = .ok (inter a.mins b.mins, unionSize a.mins b.mins) := by
  simp only [intersection, hc, bind, Except.bind, hn, ne_eq, not_true_eq_false, if_false, pure, Except.pure]
  congr 1
  apply Prod.ext
  · rw [interWalk_fst, interIter_eq_inter ha hb]
  · rw [interWalk_snd, length_mergeKeys ha hb]

theorem intersectionSize_scaled (k : Kind) {a b : Sk} (ha : SInc a.mins) (hb : SInc b.mins) (hn : a.num = 0)
    (hc : checkCompatible a b = .ok ()) :
    intersectionSize k a b = .ok ((inter a.mins b.mins).length, unionSize a.mins b.mins) := by
  simp only [intersectionSize, hc, bind, Except.bind, hn, ne_eq, not_true_eq_false, if_false, pure, Except.pure]
  congr 1
  rw [interSizeWalk_eq]
  apply Prod.ext
  · simp only; rw [interWalk_fst, interIter_eq_inter ha hb]
  · simp only; rw [interWalk_snd, length_mergeKeys ha hb]

theorem inter_comm_length {a b : List Nat} (ha : SInc a) (hb : SInc b) :
    (inter b a).length = (inter a b).length := by
  rw [← interIter_eq_inter ha hb, ← interIter_eq_inter hb ha, interIter_comm]

theorem countCommonPlain_ok {a b : Sk} (ha : SInc a.mins) (hb : SInc b.mins)
    (hc : checkCompatible a b = .ok ()) :
    countCommonPlain a b = .ok (inter a.mins b.mins).length := by
  simp only [countCommonPlain, hc, bind, Except.bind, pure, Except.pure]
  split
  · rw [interIter_eq_inter ha hb]
  · rw [interIter_eq_inter hb ha, inter_comm_length ha hb]

end SetOps

namespace SetOps
open SetSpec

theorem mergeSpec_wf {a b : Sk} : (mergeSpec a b).WF := by
  refine ⟨sinc_bottom _ (sinc_union _ _), ?_⟩
  intro ab h
  simp only [mergeSpec] at h ⊢
  split at h
  · cases h; simp
  · cases h

theorem merge_wf (k : Kind) {a b r : Sk} (wa : a.WF) (wb : b.WF) (h : a.merge k b = .ok r) : r.WF := by
  rcases checkCompatible_cases a b with hc | ⟨e, hc⟩
  · rw [merge_ok k wa wb hc] at h; cases h; exact mergeSpec_wf
  · rw [merge_err k hc] at h; cases h

theorem merge_num (k : Kind) {a b r : Sk} (h : a.merge k b = .ok r) : r.num = a.num := by
  cases k
  · simp only [Sk.merge, Sk.mergeV, bind, Except.bind] at h
    split at h
    · cases h
    · split at h <;> (simp only [pure, Except.pure] at h; cases h; rfl)
  · simp only [Sk.merge, Sk.mergeT, bind, Except.bind] at h
    split at h
    · cases h
    · simp only [pure, Except.pure] at h; cases h; rfl
end SetOps
