import Sourmash.Lemmas.SampleInv
/-! Lemmas/SampleHistory.lean — set-theoretic readings of the abstract sample, independent of its
operational definition:
* num sketches built by insertions: the sample is the `num` smallest of *all* distinct inserted
  hashes, each with the sum of the abundances inserted for it (`bottom` lemmas);
* scaled sketches under add / remove / remove_many / clear: per hash, a three-line state machine
  ("absent" / "present with the abundance accumulated since it was last absent") (`pt` lemmas).
Core Lean only. -/
namespace Sample
open MH

/-! ### flat histories -/

/-- the history `new; op₁; …; opₙ` -/
def opsHist (n : Nat) (t : Bool) (ops : List Op) : Hist := ops.foldl Hist.op (.new n t)

/-- the history of insertions `(h₁,a₁), …` -/
def addsHist (n : Nat) (t : Bool) (adds : List (Nat × Nat)) : Hist :=
  opsHist n t (adds.map (fun p => Op.add p.1 p.2))

theorem runSpec_foldl (k : Kind) (mh : Nat) (ops : List Op) (H : Hist) :
    runSpec k mh (ops.foldl Hist.op H) = ops.foldl (St.step k) (runSpec k mh H) := by
  induction ops generalizing H with
  | nil => rfl
  | cons o t ih => simp only [List.foldl_cons, ih, runSpec]

theorem opsHist_wf {n mh : Nat} (t : Bool) (ops : List Op) (h : WFp n mh) : (opsHist n t ops).WF mh := by
  unfold opsHist
  suffices ∀ H : Hist, H.WF mh → (ops.foldl Hist.op H).WF mh from this _ h
  induction ops with
  | nil => exact fun _ h => h
  | cons o t ih => exact fun H h => ih (H.op o) h

/-! ### bottom-`n` of a stream = bottom-`n` of the whole set -/

theorem take_ins_take (n : Nat) (m : FMap) (h a : Nat) :
    (ins (m.take n) h a).take n = (ins m h a).take n := by
  induction m generalizing n with
  | nil => simp
  | cons kv t ih =>
    cases kv with
    | mk k v =>
      cases n with
      | zero => simp
      | succ n =>
        simp only [List.take_succ_cons, ins]
        split
        · simp only [List.take_succ_cons]
          congr 1
          cases n with
          | zero => simp
          | succ j => simp [List.take_take]
        · split
          · simp [List.take_take]
          · simp only [List.take_succ_cons, ih]

theorem foldl_take_ins (n : Nat) (adds : List (Nat × Nat)) (m : FMap) :
    adds.foldl (fun acc p => (ins acc p.1 p.2).take n) (m.take n) = (union m adds).take n := by
  induction adds generalizing m with
  | nil => rfl
  | cons p t ih =>
    cases p with
    | mk h a =>
      simp only [List.foldl_cons]
      rw [take_ins_take, ih, union_cons]

theorem mem_keys_union_iff {m o : FMap} {x : Nat} : x ∈ keys (union m o) ↔ x ∈ keys m ∨ x ∈ keys o := by
  refine ⟨mem_keys_union, ?_⟩
  induction o generalizing m with
  | nil => rintro (h | h) <;> simp at h ⊢; exact h
  | cons kv o' ih =>
    cases kv with
    | mk k v =>
      rw [union_cons]
      rintro (h | h)
      · exact ih (Or.inl (mem_keys_ins.mpr (Or.inr h)))
      · simp only [keys_cons, List.mem_cons] at h
        rcases h with rfl | h
        · exact ih (Or.inl (mem_keys_ins.mpr (Or.inl rfl)))
        · exact ih (Or.inr h)

/-- lookup after an insertion -/
theorem mapGet_ins {m : FMap} (hs : Sorted (keys m)) (h a x : Nat) :
    mapGet (ins m h a) x = if x = h then mapGet m x + a else mapGet m x := by
  induction m with
  | nil =>
    simp only [ins, mapGet_cons, mapGet_nil]
    by_cases hx : x = h
    · subst hx; simp
    · have hx' : ¬ h = x := fun e => hx e.symm
      simp [hx, hx']
  | cons kv t ih =>
    cases kv with
    | mk k v =>
      simp only [ins]
      split
      · next hlt =>
        rw [mapGet_cons]
        by_cases hx : x = h
        · subst hx
          have hn : x ∉ keys ((k, v) :: t) := by
            simp only [keys_cons, List.mem_cons, not_or]
            exact ⟨by omega, fun hm => by have := hs.head_lt x hm; omega⟩
          simp [mapGet_of_not_mem hn]
        · have hx' : ¬ h = x := fun e => hx e.symm
          simp [hx, hx']
      · next hnlt =>
        split
        · next he =>
          subst he
          rw [mapGet_cons, mapGet_cons]
          by_cases hx : x = h
          · subst hx; simp
          · have hx' : ¬ h = x := fun e => hx e.symm
            simp [hx, hx']
        · next hne =>
          rw [mapGet_cons, mapGet_cons, ih hs.tail]
          by_cases hk : k = x
          · subst hk
            have : ¬ k = h := fun e => hne e.symm
            simp [this]
          · simp [hk]

/-- total abundance inserted for `x` -/
def sumFor (adds : List (Nat × Nat)) (x : Nat) : Nat :=
  adds.foldl (fun acc p => if p.1 = x then acc + p.2 else acc) 0

theorem sumFor_foldl (adds : List (Nat × Nat)) (x c : Nat) :
    adds.foldl (fun acc p => if p.1 = x then acc + p.2 else acc) c = c + sumFor adds x := by
  unfold sumFor
  induction adds generalizing c with
  | nil => rfl
  | cons p t ih =>
    simp only [List.foldl_cons]
    rw [ih, ih (c := if p.1 = x then 0 + p.2 else 0)]
    split <;> omega

theorem mapGet_union {m : FMap} (hs : Sorted (keys m)) (adds : List (Nat × Nat)) (x : Nat) :
    mapGet (union m adds) x = mapGet m x + sumFor adds x := by
  induction adds generalizing m with
  | nil => simp [sumFor]
  | cons p t ih =>
    cases p with
    | mk h a =>
      rw [union_cons, ih (sorted_ins hs h a), mapGet_ins hs]
      have : sumFor ((h, a) :: t) x = (if h = x then a else 0) + sumFor t x := by
        show List.foldl _ _ _ = _
        simp only [List.foldl_cons]
        rw [sumFor_foldl]
        split <;> simp
      rw [this]
      by_cases hx : x = h
      · subst hx; simp; omega
      · rw [if_neg hx, if_neg (fun e => hx e.symm)]; omega

/-- the abstract run of a num sketch over insertions with abundance ≥ 1 -/
theorem runSpec_adds_num (k : Kind) (n : Nat) (t : Bool) (adds : List (Nat × Nat)) (hn : 1 ≤ n)
    (hpos : ∀ p ∈ adds, 1 ≤ p.2) :
    (runSpec k 0 (addsHist n t adds)).m = (union [] adds).take n := by
  unfold addsHist opsHist
  rw [runSpec_foldl, List.foldl_map]
  suffices ∀ (σ : St), σ.maxHash = 0 → σ.num = n →
      (adds.foldl (fun σ p => σ.step k (Op.add p.1 p.2)) σ).m
        = adds.foldl (fun acc p => (ins acc p.1 p.2).take n) σ.m by
    rw [this _ rfl rfl]
    have h0 := foldl_take_ins n adds []
    rw [List.take_nil] at h0
    exact h0
  intro σ hmh hnum
  induction adds generalizing σ with
  | nil => rfl
  | cons p t ih =>
    simp only [List.foldl_cons]
    have hp : 1 ≤ p.2 := hpos p (List.mem_cons_self ..)
    have e : σ.step k (Op.add p.1 p.2) = { σ with m := (ins σ.m p.1 p.2).take n } := by
      show σ.add k p.1 p.2 = _
      rw [St.add_pos (by simp [hmh]) (by omega), cap_eq, if_neg (by omega), hnum]
    rw [e]
    exact ih (fun q hq => hpos q (List.mem_cons_of_mem _ hq))
      { σ with m := (ins σ.m p.1 p.2).take n } hmh hnum

/-! ### scaled sketches: per-hash reading -/

/-- lookup as an option (a held hash may carry abundance 0 after `set h 0`) -/
def lookup (m : FMap) (x : Nat) : Option Nat := (m.find? (fun kv => kv.1 == x)).map Prod.snd

theorem lookup_nil (x : Nat) : lookup [] x = none := rfl
theorem lookup_cons (k v : Nat) (t : FMap) (x : Nat) :
    lookup ((k, v) :: t) x = if k = x then some v else lookup t x := by
  unfold lookup
  rw [List.find?_cons]
  by_cases hk : k = x
  · simp [hk]
  · have : (k == x) = false := by simp [hk]
    simp [hk, this]

theorem lookup_of_not_mem {m : FMap} {x : Nat} (hn : x ∉ keys m) : lookup m x = none := by
  induction m with
  | nil => rfl
  | cons kv t ih =>
    cases kv with
    | mk k v =>
      simp only [keys_cons, List.mem_cons, not_or] at hn
      rw [lookup_cons, if_neg (fun e => hn.1 e.symm), ih hn.2]

theorem lookup_isSome_iff {m : FMap} {x : Nat} : (lookup m x).isSome = true ↔ x ∈ keys m := by
  induction m with
  | nil => simp [lookup_nil]
  | cons kv t ih =>
    cases kv with
    | mk k v =>
      rw [lookup_cons]
      by_cases hk : k = x
      · simp [hk]
      · rw [if_neg hk, ih]
        simp only [keys_cons, List.mem_cons]
        constructor
        · exact Or.inr
        · rintro (e | hm)
          · exact absurd e.symm hk
          · exact hm

theorem lookup_ins {m : FMap} (hs : Sorted (keys m)) (h a x : Nat) :
    lookup (ins m h a) x = if x = h then some ((lookup m x).getD 0 + a) else lookup m x := by
  induction m with
  | nil =>
    simp only [ins, lookup_cons, lookup_nil]
    by_cases hx : x = h
    · subst hx; simp
    · have hx' : ¬ h = x := fun e => hx e.symm
      simp [hx, hx']
  | cons kv t ih =>
    cases kv with
    | mk k v =>
      simp only [ins]
      split
      · next hlt =>
        rw [lookup_cons]
        by_cases hx : x = h
        · subst hx
          have hn : x ∉ keys ((k, v) :: t) := by
            simp only [keys_cons, List.mem_cons, not_or]
            exact ⟨by omega, fun hm => by have := hs.head_lt x hm; omega⟩
          simp [lookup_of_not_mem hn]
        · have hx' : ¬ h = x := fun e => hx e.symm
          simp [hx, hx']
      · next hnlt =>
        split
        · next he =>
          subst he
          rw [lookup_cons, lookup_cons]
          by_cases hx : x = h
          · subst hx; simp
          · have hx' : ¬ h = x := fun e => hx e.symm
            simp [hx, hx']
        · next hne =>
          rw [lookup_cons, lookup_cons, ih hs.tail]
          by_cases hk : k = x
          · subst hk
            have : ¬ k = h := fun e => hne e.symm
            simp [this]
          · simp [hk]

theorem lookup_del (m : FMap) (h x : Nat) : lookup (del m h) x = if x = h then none else lookup m x := by
  induction m with
  | nil => simp [del, lookup_nil]
  | cons kv t ih =>
    cases kv with
    | mk k v =>
      simp only [del, List.filter_cons] at ih ⊢
      by_cases hk : k = h
      · subst hk
        rw [if_neg (by simp), ih, lookup_cons]
        by_cases hx : x = k
        · rw [if_pos hx, if_pos hx]
        · rw [if_neg hx, if_neg hx, if_neg (fun e => hx e.symm)]
      · have : ((k, v).1 != h) = true := by simp [hk]
        rw [if_pos this, lookup_cons, lookup_cons, ih]
        by_cases hkx : k = x
        · subst hkx; rw [if_pos rfl, if_pos rfl, if_neg hk]
        · rw [if_neg hkx, if_neg hkx]

/-- what one operation does to hash `x` on a scaled sketch with ceiling `mh`:
    `none` = absent, `some a` = held with abundance `a` -/
def pt (k : Kind) (mh x : Nat) (cur : Option Nat) : Op → Option Nat
  | .add h a =>
    if h = x ∧ x ≤ mh then
      (if a = 0 then (match k with | .vec => none | .tree => cur) else some (cur.getD 0 + a))
    else cur
  | .set h a =>
    if h = x then (match cur with | some _ => some a | none => (if x ≤ mh ∧ a ≠ 0 then some a else none)) else cur
  | .remove h => if h = x then none else cur
  | .removeMany hs => if x ∈ hs then none else cur
  | .clear => none

theorem lookup_removeMany (σ : St) (hs : List Nat) (x : Nat) :
    lookup (σ.removeMany hs).m x = if x ∈ hs then none else lookup σ.m x := by
  unfold St.removeMany
  induction hs generalizing σ with
  | nil => simp
  | cons h t ih =>
    simp only [List.foldl_cons]
    rw [ih]
    simp only [St.remove, lookup_del, List.mem_cons]
    by_cases h1 : x ∈ t
    · simp [h1]
    · by_cases h2 : x = h
      · simp [h2]
      · simp [h1, h2]

theorem lookup_setv {m : FMap} (h a x : Nat) :
    lookup (setv m h a) x = if x = h then (match lookup m x with | some _ => some a | none => none) else lookup m x := by
  induction m with
  | nil => simp [setv, lookup_nil]
  | cons kv t ih =>
    cases kv with
    | mk k v =>
      simp only [setv, List.map_cons] at ih ⊢
      by_cases hk : k = h
      · subst hk
        rw [if_pos rfl, lookup_cons, lookup_cons]
        by_cases hx : k = x
        · subst hx; simp
        · rw [if_neg hx, if_neg hx, ih]
      · rw [if_neg hk, lookup_cons, lookup_cons, ih]
        by_cases hx : k = x
        · subst hx; rw [if_pos rfl, if_pos rfl, if_neg hk]
        · rw [if_neg hx, if_neg hx]

/-- one abstract step of a scaled sketch, read per hash -/
theorem lookup_step_scaled (k : Kind) {σ : St} (i : SInv σ) (hmh : 1 ≤ σ.maxHash) (o : Op) (x : Nat) :
    lookup (σ.step k o).m x = pt k σ.maxHash x (lookup σ.m x) o := by
  have hnum : σ.num = 0 := by rcases i.wf with ⟨h1, _⟩ | ⟨_, h2⟩ <;> omega
  have hcap : ∀ m, σ.cap m = m := fun m => by rw [cap_eq, if_pos hnum]
  have hadd : ∀ (k : Kind) (h a : Nat), lookup (σ.add k h a).m x = pt k σ.maxHash x (lookup σ.m x) (.add h a) := by
    intro k h a
    unfold St.add
    simp only [pt]
    by_cases hc : σ.maxHash ≠ 0 ∧ σ.maxHash < h
    · rw [if_pos hc, if_neg (by intro ⟨e, hle⟩; omega)]
    · rw [if_neg hc]
      have hle : h ≤ σ.maxHash := by
        have : ¬ σ.maxHash < h := fun hlt => hc ⟨by omega, hlt⟩
        omega
      by_cases ha : a = 0
      · rw [if_pos ha]
        cases k with
        | vec =>
          simp only [lookup_del]
          by_cases hx : x = h
          · subst hx; simp [hle, ha]
          · rw [if_neg hx, if_neg (by intro ⟨e, _⟩; exact hx e.symm)]
        | tree =>
          simp only []
          by_cases hx : h = x
          · subst hx; simp [hle, ha]
          · rw [if_neg (by intro ⟨e, _⟩; exact hx e)]
      · rw [if_neg ha]
        simp only [hcap, lookup_ins i.sorted]
        by_cases hx : x = h
        · subst hx; simp [hle, ha]
        · rw [if_neg hx, if_neg (by intro ⟨e, _⟩; exact hx e.symm)]
  cases o with
  | add h a => exact hadd k h a
  | set h a =>
    simp only [St.step, St.set]
    by_cases hh : has σ.m h = true
    · rw [if_pos hh]
      have hmem := (has_iff_mem _ _).mp hh
      have hsome : (lookup σ.m h).isSome = true := lookup_isSome_iff.mpr hmem
      simp only [lookup_setv, pt]
      by_cases hx : x = h
      · subst hx
        rw [if_pos rfl, if_pos rfl]
        cases hl : lookup σ.m x with
        | none => rw [hl] at hsome; simp at hsome
        | some v => rfl
      · rw [if_neg hx, if_neg (fun e => hx e.symm)]
    · rw [if_neg hh, hadd .vec h a]
      have hnm : h ∉ keys σ.m := fun hm => hh ((has_iff_mem _ _).mpr hm)
      simp only [pt]
      by_cases hx : h = x
      · subst hx
        rw [lookup_of_not_mem hnm]
        by_cases hle : h ≤ σ.maxHash
        · by_cases ha : a = 0
          · simp [hle, ha]
          · simp [hle, ha]
        · simp [hle]
      · rw [if_neg (by intro ⟨e, _⟩; exact hx e), if_neg hx]
  | remove h =>
    simp only [St.step, St.remove, lookup_del, pt]
    by_cases hx : x = h
    · rw [if_pos hx, if_pos hx.symm]
    · rw [if_neg hx, if_neg (fun e => hx e.symm)]
  | removeMany hs => simp only [St.step, lookup_removeMany, pt]
  | clear => simp only [St.step, St.clear, lookup_nil, pt]

theorem St.add_num (σ : St) (k : Kind) (h a : Nat) : (σ.add k h a).num = σ.num := by
  unfold St.add
  split
  · rfl
  · split
    · cases k <;> rfl
    · rfl

theorem St.removeMany_num (σ : St) (hs : List Nat) : (σ.removeMany hs).num = σ.num := by
  unfold St.removeMany
  induction hs generalizing σ with
  | nil => rfl
  | cons x t ih => exact (ih (σ.remove x)).trans rfl

theorem St.step_num (σ : St) (k : Kind) (o : Op) : (σ.step k o).num = σ.num := by
  cases o with
  | add h a => exact St.add_num σ k h a
  | set h a =>
    simp only [St.step, St.set]
    split
    · rfl
    · exact St.add_num σ .vec h a
  | remove h => rfl
  | removeMany hs => exact St.removeMany_num σ hs
  | clear => rfl

/-- a whole flat history of a scaled sketch, read per hash -/
theorem lookup_run_scaled (k : Kind) (mh : Nat) (t : Bool) (ops : List Op) (hmh : 1 ≤ mh) (x : Nat) :
    lookup (runSpec k mh (opsHist 0 t ops)).m x = ops.foldl (pt k mh x) none := by
  unfold opsHist
  rw [runSpec_foldl]
  suffices ∀ (σ : St), SInv σ → σ.maxHash = mh →
      lookup (ops.foldl (St.step k) σ).m x = ops.foldl (pt k mh x) (lookup σ.m x) by
    exact this _ (SInv.new t (Or.inr ⟨hmh, rfl⟩)) rfl
  intro σ i hσ
  induction ops generalizing σ with
  | nil => rfl
  | cons o rest ih =>
    simp only [List.foldl_cons]
    rw [ih _ (i.step k o) ((St.step_maxHash σ k o).trans hσ), lookup_step_scaled k i (by omega) o x, hσ]

theorem St.add_track (σ : St) (k : Kind) (h a : Nat) : (σ.add k h a).track = σ.track := by
  unfold St.add
  split
  · rfl
  · split
    · cases k <;> rfl
    · rfl

theorem St.removeMany_track (σ : St) (hs : List Nat) : (σ.removeMany hs).track = σ.track := by
  unfold St.removeMany
  induction hs generalizing σ with
  | nil => rfl
  | cons x t ih => exact (ih (σ.remove x)).trans rfl

theorem St.step_track (σ : St) (k : Kind) (o : Op) : (σ.step k o).track = σ.track := by
  cases o with
  | add h a => exact St.add_track σ k h a
  | set h a =>
    simp only [St.step, St.set]
    split
    · rfl
    · exact St.add_track σ .vec h a
  | remove h => rfl
  | removeMany hs => exact St.removeMany_track σ hs
  | clear => rfl

theorem runSpec_opsHist_track (k : Kind) (mh n : Nat) (t : Bool) (ops : List Op) :
    (runSpec k mh (opsHist n t ops)).track = t := by
  unfold opsHist
  rw [runSpec_foldl]
  suffices ∀ σ : St, (ops.foldl (St.step k) σ).track = σ.track from this _
  induction ops with
  | nil => exact fun _ => rfl
  | cons o rest ih => exact fun σ => (ih _).trans (St.step_track σ k o)

theorem opsHist_noSet (n : Nat) (t : Bool) (ops : List Op) (h : ∀ o ∈ ops, o.noSet) : (opsHist n t ops).NoSet := by
  unfold opsHist
  suffices ∀ H : Hist, H.NoSet → (ops.foldl Hist.op H).NoSet from this _ trivial
  induction ops with
  | nil => exact fun _ h => h
  | cons o rest ih =>
    exact fun H hH => ih (fun o' ho' => h o' (List.mem_cons_of_mem _ ho')) (H.op o)
      ⟨hH, h o (List.mem_cons_self ..)⟩

theorem addsHist_noSet (n : Nat) (t : Bool) (adds : List (Nat × Nat)) : (addsHist n t adds).NoSet := by
  apply opsHist_noSet
  intro o ho
  rcases List.mem_map.mp ho with ⟨p, _, rfl⟩
  trivial

end Sample
