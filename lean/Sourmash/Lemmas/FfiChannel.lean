import Sourmash.Model.Ffi
/-! Helper lemmas for C20 (error channel): generic in the error-kind type. -/
namespace Sourmash.Ffi
variable {κ α : Type}

theorem run_append (pk : κ) (s : Chan κ) (xs ys : List (Call κ)) :
    run pk s (xs ++ ys) = (run pk s xs).bind (fun s' => run pk s' ys) := by
  induction xs generalizing s with
  | nil => simp [run]
  | cons c cs ih =>
    simp only [List.cons_append, run]
    cases h : step pk s c with
    | none => simp
    | some s1 => simp [ih]

theorem run_snoc (pk : κ) (s : Chan κ) (xs : List (Call κ)) (c : Call κ) :
    run pk s (xs ++ [c]) = (run pk s xs).bind (fun s' => step pk s' c) := by
  rw [run_append]
  cases run pk s xs with
  | none => rfl
  | some s1 =>
    simp only [Option.bind_some, run]
    cases step pk s1 c <;> rfl

/-- the hook flag is never reset -/
theorem step_hook (pk : κ) (s s' : Chan κ) (c : Call κ) (h : step pk s c = some s')
    (hk : s.hook = true) : s'.hook = true := by
  cases c with
  | init => simp [step, sourmashInit] at h; subst h; rfl
  | clear => simp [step, errClear] at h; subst h; exact hk
  | getCode => simp [step] at h; subst h; exact hk
  | getMessage => simp [step] at h; subst h; exact hk
  | getBacktrace => simp [step] at h; subst h; exact hk
  | exported g o =>
    cases g <;> cases o <;>
      simp [step, callExport, landingpad, unguardedCall, panicHook, setLastError, hk] at h <;>
      (subst h; first | exact hk | rfl)

/-- one call, seen through the specification (hook installed) -/
theorem step_last (pk : κ) (s s' : Chan κ) (c : Call κ) (h : step pk s c = some s')
    (hk : s.hook = true) (rest : List (Call κ)) (dflt : Option κ)
    (ih : s.last = specLast pk dflt rest) : s'.last = specLast pk dflt (c :: rest) := by
  cases c with
  | init => simp [step, sourmashInit] at h; subst h; simpa [specLast] using ih
  | clear => simp [step, errClear] at h; subst h; simp [specLast]
  | getCode => simp [step] at h; subst h; simpa [specLast] using ih
  | getMessage => simp [step] at h; subst h; simpa [specLast] using ih
  | getBacktrace => simp [step] at h; subst h; simpa [specLast] using ih
  | exported g o =>
    cases g <;> cases o <;>
      simp [step, callExport, landingpad, unguardedCall, panicHook, setLastError, hk] at h <;>
      (subst h; simp [specLast]; try exact ih)

/-- the channel invariant: after any history (most recent first in `hist`) that did not abort,
    started in a state with the hook installed, the stored error is what the specification says -/
theorem run_spec (pk : κ) (hist : List (Call κ)) (s0 s : Chan κ) (hk : s0.hook = true)
    (h : run pk s0 hist.reverse = some s) :
    s.hook = true ∧ s.last = specLast pk s0.last hist := by
  induction hist generalizing s with
  | nil => simp [run] at h; subst h; exact ⟨hk, by simp [specLast]⟩
  | cons c rest ih =>
    rw [List.reverse_cons, run_snoc] at h
    cases h1 : run pk s0 rest.reverse with
    | none => simp [h1] at h
    | some s1 =>
      simp only [h1, Option.bind_some] at h
      obtain ⟨hk1, hl1⟩ := ih s1 h1
      exact ⟨step_hook pk s1 s c h hk1, step_last pk s1 s c h hk1 rest s0.last hl1⟩

end Sourmash.Ffi
