import Sourmash.Lemmas.Bloom
/-! Lemmas for C15 (T-ratios): intersection / union counts of two tables against the reference sets. -/
namespace NG
open Bloom

theorem length_filter_or {α : Type} (l : List α) (p q : α → Bool) :
    (l.filter (fun x => p x || q x)).length =
      (l.filter p).length + (l.filter (fun x => q x && !p x)).length := by
  induction l with
  | nil => rfl
  | cons a l ih =>
    simp only [List.filter_cons]
    cases hp : p a <;> cases hq : q a <;> simp [ih] <;> omega

theorem interCount_eq (Ha Hb : List Nat) (t o : Table) (hs : t.size = o.size)
    (ht : ∀ b, t.get b = refBit Ha t.size b) (ho : ∀ b, o.get b = refBit Hb o.size b) :
    t.interCount o = refInter Ha Hb t.size := by
  unfold Table.interCount Table.ones refInter
  rw [List.filter_filter]
  congr 1
  apply List.filter_congr
  intro b _
  rw [ht b, ho b, hs, Bool.and_comm]

theorem unionCount_eq (Ha Hb : List Nat) (t o : Table) (hs : t.size = o.size)
    (ht : ∀ b, t.get b = refBit Ha t.size b) (ho : ∀ b, o.get b = refBit Hb o.size b) :
    t.unionCount o = refUnion Ha Hb t.size := by
  unfold Table.unionCount Table.ones refUnion
  rw [List.filter_filter, length_filter_or, ← hs]
  congr 2
  · apply List.filter_congr
    intro b _
    exact ht b
  · apply List.filter_congr
    intro b _
    rw [ht b, ho b, hs, Bool.and_comm]

theorem zip_sums (Ha Hb : List Nat) (ds ss : List Table) (hsz : ds.map Table.size = ss.map Table.size)
    (hd : ∀ t ∈ ds, ∀ b, t.get b = refBit Ha t.size b) (hs : ∀ t ∈ ss, ∀ b, t.get b = refBit Hb t.size b) :
    ((ds.zip ss).map (fun p => p.1.interCount p.2)).sum = ((ds.map Table.size).map (refInter Ha Hb)).sum ∧
    ((ds.zip ss).map (fun p => p.1.unionCount p.2)).sum = ((ds.map Table.size).map (refUnion Ha Hb)).sum := by
  induction ds generalizing ss with
  | nil => simp
  | cons d ds ih =>
    cases ss with
    | nil => simp at hsz
    | cons s ss =>
      simp only [List.map_cons, List.cons.injEq] at hsz
      obtain ⟨h1, h2⟩ := hsz
      obtain ⟨i1, i2⟩ := ih ss h2 (fun t ht => hd t (by simp [ht])) (fun t ht => hs t (by simp [ht]))
      simp only [List.zip_cons_cons, List.map_cons, List.sum_cons, i1, i2,
        interCount_eq Ha Hb d s h1 (hd d (by simp)) (hs s (by simp)),
        unionCount_eq Ha Hb d s h1 (hd d (by simp)) (hs s (by simp))]
      exact ⟨trivial, trivial⟩

theorem countOnes_sum (Ha : List Nat) (ds : List Table) (hd : ∀ t ∈ ds, ∀ b, t.get b = refBit Ha t.size b) :
    (ds.map Table.countOnes).sum = ((ds.map Table.size).map (refCount Ha)).sum := by
  induction ds with
  | nil => rfl
  | cons d ds ih =>
    simp only [List.map_cons, List.sum_cons, ih (fun t ht => hd t (by simp [ht]))]
    congr 1
    unfold Table.countOnes Table.ones refCount refOnes
    congr 1
    apply List.filter_congr
    intro b _
    exact hd d (by simp) b

theorem ratios_of_inv {sizes : List Nat} {a b : G} {Ha Hb : List Nat} (ia : Inv sizes a Ha) (ib : Inv sizes b Hb) :
    a.similarity b = Ref.similarity { sizes := sizes, hashes := Ha } { sizes := sizes, hashes := Hb } ∧
    a.containment b = Ref.containment { sizes := sizes, hashes := Ha } { sizes := sizes, hashes := Hb } := by
  have hsz : a.tables.map Table.size = b.tables.map Table.size := by rw [ia.sizes_eq, ib.sizes_eq]
  obtain ⟨z1, z2⟩ := zip_sums Ha Hb a.tables b.tables hsz ia.bits ib.bits
  have z3 := countOnes_sum Ha a.tables ia.bits
  rw [ia.sizes_eq] at z1 z2 z3
  simp [G.similarity, G.containment, Ref.similarity, Ref.containment, z1, z2, z3]
end NG
