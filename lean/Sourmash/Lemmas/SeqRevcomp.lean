import Sourmash.Lemmas.SeqDna
/-! Lemmas/SeqRevcomp.lean — reverse complement: involutive on ACGTN, canonical form symmetric,
windows of the reverse complement are the reverse complements of the windows in reverse order. -/
namespace Seq
open Kmers

/-! ### complement on codes -/

def isBaseNCode (n : Nat) : Bool := isACGTCode n || n == 78

theorem compCode_facts : ∀ n, n < 256 → isBaseNCode n = true →
    compCode (compCode n) = n ∧ isBaseNCode (compCode n) = true ∧ compCode n < 256
      ∧ (isACGTCode n = true → isACGTCode (compCode n) = true) := by
  decide +kernel

def isBaseN (b : UInt8) : Bool := isBaseNCode b.toNat

theorem isBaseN_of_isACGT {b : UInt8} (h : isACGT b = true) : isBaseN b = true := by
  simp only [isACGT] at h; simp [isBaseN, isBaseNCode, h]

theorem comp_toNat (b : UInt8) (h : isBaseN b = true) : (comp b).toNat = compCode b.toNat := by
  have := (compCode_facts b.toNat b.toNat_lt h).2.2.1
  simp only [comp, UInt8.toNat_ofNat']
  omega

/-- the complement is an involution on {A, C, G, T, N} -/
theorem comp_comp (b : UInt8) (h : isBaseN b = true) : comp (comp b) = b := by
  have hf := compCode_facts b.toNat b.toNat_lt h
  have : comp (comp b) = UInt8.ofNat (compCode (comp b).toNat) := rfl
  rw [this, comp_toNat b h, hf.1, UInt8.ofNat_toNat]

theorem comp_isACGT (b : UInt8) (h : isACGT b = true) : isACGT (comp b) = true := by
  have hb := isBaseN_of_isACGT h
  have hf := compCode_facts b.toNat b.toNat_lt hb
  simp only [isACGT, comp_toNat b hb]
  exact hf.2.2.2 h

/-- `revcomp` is an involution on sequences over {A, C, G, T, N} -/
theorem revcomp_revcomp (w : List UInt8) (h : ∀ b ∈ w, isBaseN b = true) :
    Kmers.revcomp (Kmers.revcomp w) = w := by
  simp only [Kmers.revcomp, List.map_reverse, List.reverse_reverse, List.map_map]
  conv => rhs; rw [← List.map_id w]
  exact List.map_congr_left (fun b hb => comp_comp b (h b hb))

theorem revcomp_all_acgt (w : List UInt8) (h : ∀ b ∈ w, isACGT b = true) :
    ∀ b ∈ Kmers.revcomp w, isACGT b = true := by
  intro b hb
  simp only [Kmers.revcomp, List.mem_reverse, List.mem_map] at hb
  obtain ⟨a, ha, rfl⟩ := hb
  exact comp_isACGT a (h a ha)

/-- the canonical form does not depend on the strand -/
theorem canonical_revcomp (w : List UInt8) (h : ∀ b ∈ w, isBaseN b = true) :
    canonical (Kmers.revcomp w) = canonical w := by
  unfold canonical
  rw [revcomp_revcomp w h]
  by_cases h1 : w < Kmers.revcomp w
  · rw [if_pos h1, if_neg (List.lt_asymm h1)]
  · rw [if_neg h1]
    by_cases h2 : Kmers.revcomp w < w
    · rw [if_pos h2]
    · rw [if_neg h2]
      exact List.le_antisymm (List.not_lt.mp h1) (List.not_lt.mp h2)

/-- … in the model's terms: `min(kmer, krc)` is symmetric -/
theorem lexMin_revcomp (w : List UInt8) (h : ∀ b ∈ w, isBaseN b = true) :
    lexMin (revcomp w) (revcomp (revcomp w)) = lexMin w (revcomp w) := by
  rw [lexMin_eq_canonical, lexMin_eq_canonical, Tables.revcomp_eq, canonical_revcomp w h]

/-! ### windows of the reverse complement -/

theorem revcomp_length (u : List UInt8) : (Kmers.revcomp u).length = u.length := by
  simp [Kmers.revcomp]

theorem windows_revcomp (k : Nat) (hk : k ≠ 0) (u : List UInt8) :
    Kmers.windows k (Kmers.revcomp u) = ((Kmers.windows k u).map Kmers.revcomp).reverse := by
  rw [windows_eq_range' k hk, windows_eq_range' k hk, revcomp_length, List.map_map, ← List.map_reverse,
    List.reverse_range', List.range'_eq_map_range, List.map_map, List.map_map]
  apply List.map_congr_left
  intro x hx
  have hx' : x < u.length + 1 - k := by simpa using hx
  simp only [Function.comp]
  have hik : (0 + (u.length + 1 - k) - 1 - x) + k ≤ u.length := by omega
  have := rc_window u k (0 + (u.length + 1 - k) - 1 - x) hik
  rw [Tables.revcomp_eq, Tables.revcomp_eq] at this
  rw [← this]
  unfold kmerAt
  congr 2
  omega

theorem kmerAt_mem {u : List UInt8} {k i : Nat} {b : UInt8} (h : b ∈ kmerAt u k i) : b ∈ u :=
  List.mem_of_mem_drop (List.mem_of_mem_take h)

theorem windows_mem {k : Nat} {u w : List UInt8} (hw : w ∈ Kmers.windows k u) : ∀ b ∈ w, b ∈ u := by
  by_cases hk : k = 0
  · simp [Kmers.windows, hk] at hw
  · rw [windows_eq_range' k hk] at hw
    obtain ⟨i, _, rfl⟩ := List.mem_map.mp hw
    exact fun b hb => kmerAt_mem hb

/-- when every window is over ACGT, every window contributes its canonical hash -/
theorem dnaEvents_all_valid (seed : UInt64) (force : Bool) (ws : List (List UInt8))
    (h : ∀ w ∈ ws, ∀ b ∈ w, isACGT b = true) :
    dnaEvents seed force ws = ws.map (fun w => Ev.hash (Murmur.hash64 (canonical w) seed)) := by
  induction ws with
  | nil => rfl
  | cons w t ih =>
    have hw : w.all isACGT = true := List.all_eq_true.mpr (h w List.mem_cons_self)
    simp only [dnaEvents, hw, if_true, List.map_cons]
    rw [ih (fun w' hw' => h w' (List.mem_cons_of_mem _ hw'))]

theorem upper_of_isACGT (b : UInt8) (h : isACGT b = true) : Kmers.upper b = b := by
  have hb : b.toNat < 97 := by
    simp only [isACGT, isACGTCode, Bool.or_eq_true, beq_iff_eq] at h
    omega
  have : ¬ (97 ≤ b) := by
    intro hle
    have := UInt8.le_iff_toNat_le.mp hle
    simp at this
    omega
  simp [Kmers.upper, this]

theorem map_upper_of_acgt (u : List UInt8) (h : ∀ b ∈ u, isACGT b = true) : u.map Kmers.upper = u := by
  conv => rhs; rw [← List.map_id u]
  exact List.map_congr_left (fun b hb => upper_of_isACGT b (h b hb))

/-- specification level: the reverse complement of an all-ACGT sequence yields the same events in
    reverse order -/
theorem dnaStream_revcomp (k : Nat) (hk : k ≠ 0) (seed : UInt64) (force : Bool) (u : List UInt8)
    (h : ∀ b ∈ u, isACGT b = true) :
    dnaStream k seed force (Kmers.revcomp u) = (dnaStream k seed force u).reverse := by
  have hr := revcomp_all_acgt u h
  have hws : ∀ w ∈ Kmers.windows k u, ∀ b ∈ w, isACGT b = true :=
    fun w hw b hb => h b (windows_mem hw b hb)
  have hws' : ∀ w ∈ ((Kmers.windows k u).map Kmers.revcomp).reverse, ∀ b ∈ w, isACGT b = true := by
    intro w hw b hb
    simp only [List.mem_reverse, List.mem_map] at hw
    obtain ⟨w0, hw0, rfl⟩ := hw
    exact revcomp_all_acgt w0 (hws w0 hw0) b hb
  have e1 := dnaEvents_all_valid seed force _ hws
  have e2 := dnaEvents_all_valid seed force _ hws'
  unfold dnaStream
  rw [map_upper_of_acgt u h, map_upper_of_acgt _ hr, windows_revcomp k hk, e1, e2,
    List.map_reverse, List.map_map]
  refine congrArg List.reverse (List.map_congr_left ?_)
  intro w hw
  simp only [Function.comp]
  rw [canonical_revcomp w (fun b hb => isBaseN_of_isACGT (hws w hw b hb))]

end Seq
