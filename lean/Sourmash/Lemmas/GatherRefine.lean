import Sourmash.Lemmas.GatherStats
/-! The counter-based loop of the model computes the naive greedy cover of `Spec/Gather.lean`
(core Lean only). -/
namespace Gather
open GatherSpec (overlap best greedy)

/-- what the specification's `best` returns, as a property: an unreported dataset of maximal overlap,
    lowest id among the maxima -/
def BestChar (dsets : List (List Nat)) (R reported : List Nat) (k : Nat) (b : Nat × Nat) : Prop :=
  b.1 < k ∧ b.1 ∉ reported ∧ b.2 = overlap (dsets.getD b.1 []) R ∧
  ∀ d', d' < k → d' ∉ reported →
    overlap (dsets.getD d' []) R < b.2 ∨ (overlap (dsets.getD d' []) R = b.2 ∧ b.1 ≤ d')

theorem bestChar_unique {dsets : List (List Nat)} {R reported : List Nat} {k : Nat} {a b : Nat × Nat}
    (ha : BestChar dsets R reported k a) (hb : BestChar dsets R reported k b) : a = b := by
  obtain ⟨a1, a2, a3, a4⟩ := ha
  obtain ⟨b1, b2, b3, b4⟩ := hb
  have h1 := a4 b.1 b1 b2
  have h2 := b4 a.1 a1 a2
  have : a.1 = b.1 ∧ a.2 = b.2 := by omega
  exact Prod.ext this.1 this.2

/-- the scan of `best` over the ids below `k` -/
theorem best_prefix (dsets : List (List Nat)) (R reported : List Nat) (k : Nat) :
    let b := (List.range k).foldl (fun b d =>
      if reported.contains d then b else
      let o := overlap (dsets.getD d []) R
      match b with
      | none => some (d, o)
      | some (_, bo) => if o > bo then some (d, o) else b) none
    (b = none ∧ ∀ d, d < k → d ∈ reported) ∨ (∃ x, b = some x ∧ BestChar dsets R reported k x) := by
  induction k with
  | zero => left; exact ⟨rfl, fun d h => absurd h (Nat.not_lt_zero d)⟩
  | succ k ih =>
    simp only [List.range_succ, List.foldl_append, List.foldl_cons, List.foldl_nil]
    simp only at ih
    generalize (List.range k).foldl _ none = b at ih ⊢
    by_cases hr : reported.contains k = true
    · have hmem : k ∈ reported := List.contains_iff_mem.mp hr
      simp only [hr, if_true]
      rcases ih with ⟨hb, hall⟩ | ⟨x, hb, hx⟩
      · left
        refine ⟨hb, fun d hd => ?_⟩
        by_cases hdk : d = k
        · exact hdk ▸ hmem
        · exact hall d (by omega)
      · right
        refine ⟨x, hb, by have := hx.1; omega, hx.2.1, hx.2.2.1, fun d' hd' hn => ?_⟩
        by_cases hdk : d' = k
        · exact absurd (hdk ▸ hmem) hn
        · exact hx.2.2.2 d' (by omega) hn
    · have hmem : k ∉ reported := fun h => hr (List.contains_iff_mem.mpr h)
      simp only [hr]
      right
      rcases ih with ⟨hb, hall⟩ | ⟨x, hb, hx⟩
      · subst hb
        refine ⟨_, rfl, Nat.lt_succ_self k, hmem, rfl, fun d' hd' hn => ?_⟩
        by_cases hdk : d' = k
        · subst hdk; right; exact ⟨rfl, Nat.le_refl _⟩
        · exact absurd (hall d' (by omega)) hn
      · subst hb
        obtain ⟨x1, x2, x3, x4⟩ := hx
        obtain ⟨xd, xo⟩ := x
        simp only at x1 x2 x3 x4 ⊢
        by_cases hgt : overlap (dsets.getD k []) R > xo
        · refine ⟨(k, overlap (dsets.getD k []) R), by simp only [Bool.false_eq_true, if_false]; rw [if_pos hgt], Nat.lt_succ_self k, hmem, rfl, fun d' hd' hn => ?_⟩
          by_cases hdk : d' = k
          · subst hdk; right; exact ⟨rfl, Nat.le_refl _⟩
          · have := x4 d' (by omega) hn
            left
            show overlap (dsets.getD d' []) R < overlap (dsets.getD k []) R
            omega
        · refine ⟨(xd, xo), by simp only [Bool.false_eq_true, if_false]; rw [if_neg hgt], by show xd < k + 1; omega, x2, x3, fun d' hd' hn => ?_⟩
          by_cases hdk : d' = k
          · subst hdk
            have : overlap (dsets.getD d' []) R ≤ xo := by omega
            rcases Nat.lt_or_eq_of_le this with h | h
            · exact Or.inl h
            · exact Or.inr ⟨h, by show xd ≤ d'; omega⟩
          · exact x4 d' (by omega) hn

theorem best_spec (dsets : List (List Nat)) (R reported : List Nat) :
    (best dsets R reported = none ∧ ∀ d, d < dsets.length → d ∈ reported) ∨
    (∃ x, best dsets R reported = some x ∧ BestChar dsets R reported dsets.length x) :=
  best_prefix dsets R reported dsets.length

theorem ov_eq_overlap (c : Cfg) (d : Nat) (rem : List (Nat × Nat)) :
    ov c d rem = overlap (c.dsets.getD d []) (keys rem) := rfl

/-- what the rows and the specification's matches are compared on -/
def rowKey (r : Row) : Nat × Nat × List Nat := (r.d, r.size, r.isect)
def matchKey (m : GatherSpec.Match) : Nat × Nat × List Nat := (m.d, m.overlap, m.isect)

/-- the loop from any state satisfying the invariant (last match above the threshold) reports exactly
    what the naive greedy cover reports from the same remaining query and reported list -/
theorem run_refines {c : Cfg} (w : WF c) : ∀ (fm fs : Nat) {s : St}, Inv c s →
    s.matchSize > c.threshold → s.counter.length ≤ fm → s.counter.length ≤ fs →
    (run c fm s).map (fun p => rowKey p.2)
      = (greedy c.dsets c.threshold fs (keys s.remaining) s.reported).map matchKey := by
  intro fm
  induction fm with
  | zero =>
    intro fs s hi hms hfm hfs
    have hnil : s.counter = [] := List.eq_nil_of_length_eq_zero (Nat.le_zero.mp hfm)
    have hstep : step c s = none := by unfold step; simp [hnil]
    have hstop := stopped hi hstep
    cases fs with
    | zero => rfl
    | succ fs =>
      simp only [run, List.map_nil]
      unfold greedy
      rcases best_spec c.dsets (keys s.remaining) s.reported with ⟨hb, _⟩ | ⟨x, hb, hx⟩
      · rw [hb]; rfl
      · rw [hb]
        rcases hstop with h1 | h1
        · omega
        · have := h1 x.1 hx.2.1
          rw [ov_eq_overlap, ← hx.2.2.1] at this
          simp [this]
  | succ fm ih =>
    intro fs s hi hms hfm hfs
    cases hstep : step c s with
    | none =>
      have hstop := stopped hi hstep
      have hrun : run c (fm + 1) s = [] := by simp [run, hstep]
      rw [hrun]
      cases fs with
      | zero => rfl
      | succ fs =>
        simp only [List.map_nil]
        unfold greedy
        rcases best_spec c.dsets (keys s.remaining) s.reported with ⟨hb, _⟩ | ⟨x, hb, hx⟩
        · rw [hb]; rfl
        · rw [hb]
          rcases hstop with h1 | h1
          · omega
          · have := h1 x.1 hx.2.1
            rw [ov_eq_overlap, ← hx.2.2.1] at this
            simp [this]
    | some pr =>
      obtain ⟨row, s'⟩ := pr
      have hlt := step_counter_lt hstep
      have hg := step_greedy hi hstep
      obtain ⟨_, hsz, his, _⟩ := step_choice hi hstep
      have hthr := (step_some hstep)
      obtain ⟨d0, size0, _, _, _, hge, hne, hrow0, hs'⟩ := hthr
      have hrsz : row.size = size0 := by rw [hrow0, stats_size]
      have hrep := step_reported hstep
      have hrem : keys s'.remaining = (keys s.remaining).filter (fun h => !(dsOf c.dsets row.d).contains h) := by
        have : s'.remaining = s.remaining.filter (fun p => !(dsOf c.dsets d0).contains p.1) := by rw [hs']
        have hd : row.d = d0 := by rw [hrow0, stats_d]
        rw [this, keys_after, hd]
      have hrun : run c (fm + 1) s = (s, row) :: run c fm s' := by simp [run, hstep]
      rw [hrun]
      cases fs with
      | zero => omega
      | succ fs =>
        -- the specification picks the same dataset
        have hchar : BestChar c.dsets (keys s.remaining) s.reported c.dsets.length (row.d, row.size) := by
          refine ⟨hg.1, hg.2.1, by rw [hsz]; rfl, fun d' _ hn => ?_⟩
          have := hg.2.2 d' hn
          rw [← hsz] at this
          exact this
        have hbest : best c.dsets (keys s.remaining) s.reported = some (row.d, row.size) := by
          rcases best_spec c.dsets (keys s.remaining) s.reported with ⟨_, hall⟩ | ⟨x, hb, hx⟩
          · exact absurd (hall row.d hg.1) hg.2.1
          · rw [hb, bestChar_unique hx hchar]
        unfold greedy
        rw [hbest]
        have hnot : ¬ (row.size < c.threshold ∨ row.size = 0) := by omega
        simp only [hnot, if_false]
        have hkey : rowKey row = matchKey ⟨row.d, row.size,
            (c.dsets.getD row.d []).filter (fun h => (keys s.remaining).contains h)⟩ := by
          simp only [rowKey, matchKey, his]
          rfl
        by_cases heq : row.size = c.threshold
        · simp only [heq, if_true, List.map_cons, List.map_nil]
          rw [step_at_threshold_last hstep heq fm]
          simp only [List.map_nil, List.cons.injEq, and_true]
          rw [hkey, heq]
        · simp only [heq, if_false, List.map_cons]
          have := ih fs (inv_step w hi hstep) (by rw [hrep.2.1]; omega) (by omega) (by omega)
          rw [this, hrem, hrep.1, hkey]
          rfl

/-! ### the statistics of the rows are the specification's statistics of the matches -/

def toMatch (r : Row) : GatherSpec.Match := ⟨r.d, r.size, r.isect⟩

def rowUnweighted (r : Row) : Nat × Nat × Nat × (Nat × Nat) := (r.rank, r.uniqueBp, r.remainingBp, r.fUnique)
def statUnweighted (x : GatherSpec.Stat) : Nat × Nat × Nat × (Nat × Nat) :=
  (x.rank, x.uniqueBp, x.remainingBp, x.fUnique)
def rowWeighted (r : Row) : Nat × Nat × Nat × (Nat × Nat) := (r.nUniqueW, r.sumW, r.totalW, r.fUniqueW)
def statWeighted (x : GatherSpec.Stat) : Nat × Nat × Nat × (Nat × Nat) :=
  (x.nUniqueW, x.sumW, x.totalW, x.fUniqueW)

theorem matchKey_injective : ∀ x y : GatherSpec.Match, matchKey x = matchKey y → x = y := by
  intro x y h
  cases x; cases y
  simp only [matchKey, Prod.mk.injEq] at h
  obtain ⟨rfl, rfl, rfl⟩ := h
  rfl

theorem run_stats_unweighted {c : Cfg} (w : WF c) : ∀ (f : Nat) {s : St}, Inv c s →
    ∀ (explained sumW : Nat), explained + s.remaining.length = c.orig.length →
    (run c f s).map (fun p => rowUnweighted p.2)
      = (GatherSpec.statsFrom c.scaled c.orig s.reported.length explained sumW
          ((run c f s).map (fun p => toMatch p.2))).map statUnweighted := by
  intro f
  induction f with
  | zero => intro s _ _ _ _; rfl
  | succ f ih =>
    intro s hi explained sumW hex
    cases hstep : step c s with
    | none => simp [run, hstep, GatherSpec.statsFrom]
    | some pr =>
      obtain ⟨row, s'⟩ := pr
      have hrun : run c (f + 1) s = (s, row) :: run c f s' := by simp [run, hstep]
      have hrep := step_reported hstep
      have hlen := step_remaining_length w hi hstep
      have hbp := step_remaining_bp w hi hstep
      obtain ⟨d, size, _, _, _, _, _, hrow, _⟩ := step_some hstep
      have hu : row.uniqueBp = c.scaled * row.isect.length := by rw [hrow]; rfl
      have hf : row.fUnique = (row.isect.length, c.orig.length) := by rw [hrow]; simp [stats]
      have hsl : s'.reported.length = s.reported.length + 1 := by rw [hrep.1]; simp
      have := ih (inv_step w hi hstep) (explained + row.isect.length)
        (sumW + (row.isect.map (GatherSpec.abundOf c.orig)).sum) (by omega)
      rw [hrun]
      simp only [List.map_cons, GatherSpec.statsFrom, toMatch]
      rw [this, hsl]
      congr 1
      simp only [rowUnweighted, statUnweighted, Prod.mk.injEq]
      refine ⟨hrep.2.2.1, hu, ?_, hf⟩
      rw [hbp, Nat.mul_comm]
      congr 1
      omega

theorem run_stats_weighted {c : Cfg} (w : WF c) (htr : c.track = true) : ∀ (f : Nat) {s : St}, Inv c s →
    ∀ (rank explained : Nat),
    (run c f s).map (fun p => rowWeighted p.2)
      = (GatherSpec.statsFrom c.scaled c.orig rank explained s.sumW
          ((run c f s).map (fun p => toMatch p.2))).map statWeighted := by
  intro f
  induction f with
  | zero => intro s _ _ _; rfl
  | succ f ih =>
    intro s hi rank explained
    cases hstep : step c s with
    | none => simp [run, hstep, GatherSpec.statsFrom]
    | some pr =>
      obtain ⟨row, s'⟩ := pr
      have hrun : run c (f + 1) s = (s, row) :: run c f s' := by simp [run, hstep]
      have hsum := step_sumW hstep (fun h => by rw [htr] at h; exact absurd h (by simp))
      have hn := step_nUniqueW w hi hstep
      obtain ⟨_, _, his, _⟩ := step_choice hi hstep
      have hnd : row.isect.Nodup := by rw [his]; exact nodup_isectL (dsOf_nodup w _)
      have hw : row.nUniqueW = (row.isect.map (GatherSpec.abundOf c.orig)).sum := by
        rw [hn, htr, if_pos rfl, weightIn_eq_sum_abundOf w.q hnd]
      obtain ⟨d, size, _, _, _, _, _, hrow, _⟩ := step_some hstep
      have htot : row.totalW = (c.orig.map (·.2)).sum := by rw [hrow]; simp [stats, Cfg.totalW, htr]
      have hfw : row.fUniqueW = (row.nUniqueW, (c.orig.map (·.2)).sum) := by
        rw [hrow]; simp [stats, Cfg.totalW, htr]
      have := ih (inv_step w hi hstep) (rank + 1) (explained + row.isect.length)
      rw [hrun]
      simp only [List.map_cons, GatherSpec.statsFrom, toMatch]
      rw [this, hsum.2.1, hsum.1, hw]
      congr 1
      simp only [rowWeighted, statWeighted, Prod.mk.injEq]
      exact ⟨hw, by rw [hsum.1, hw], htot, by rw [hfw, hw]⟩

end Gather
