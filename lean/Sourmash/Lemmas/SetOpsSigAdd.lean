import Sourmash.Model.SigAdd
/-! Lemmas about `Model/SigAdd.lean`: the invariant of the parallel machine (`Inv`) — every slot holds
its own sketch, untouched or after its own call; the flag is set exactly when a finished call
failed; an item is only skipped under a set flag — and its consequences.  Core Lean only. -/
namespace SigAdd
variable {σ ε α : Type}

theorem getElem?_modifyAt (g : α → α) (l : List α) (i j : Nat) :
    (modifyAt g l i)[j]? = if i = j then l[j]?.map g else l[j]? := by
  induction l generalizing i j with
  | nil => simp [modifyAt]
  | cons a t ih =>
    cases i with
    | zero => cases j <;> simp [modifyAt]
    | succ i =>
      cases j with
      | zero => simp [modifyAt]
      | succ j => simp [modifyAt, ih]

theorem length_modifyAt (g : α → α) (l : List α) (i : Nat) : (modifyAt g l i).length = l.length := by
  induction l generalizing i with
  | nil => rfl
  | cons a t ih => cases i <;> simp [modifyAt, ih]

/-- slot `sl` belongs to the sketch that was `s0` before the call -/
def SlotOK (f : σ → σ × Option ε) (s0 : σ) (sl : σ × Status ε) : Prop :=
  match sl.2 with
  | .done r => sl.1 = (f s0).1 ∧ r = (f s0).2
  | _ => sl.1 = s0

theorem slotOK_onCheck {f : σ → σ × Option ε} {s0 : σ} {sl : σ × Status ε} (b : Bool)
    (h : SlotOK f s0 sl) : SlotOK f s0 (onCheck b sl) := by
  obtain ⟨s, st⟩ := sl
  cases st <;> simp_all [SlotOK, onCheck]
  cases b <;> simp

theorem slotOK_onFinish {f : σ → σ × Option ε} {s0 : σ} {sl : σ × Status ε}
    (h : SlotOK f s0 sl) : SlotOK f s0 (onFinish f sl) := by
  obtain ⟨s, st⟩ := sl
  cases st <;> simp_all [SlotOK, onFinish]

theorem onCheck_done {b : Bool} {sl : σ × Status ε} {r : Option ε} (h : sl.2 = .done r) :
    onCheck b sl = sl := by
  obtain ⟨s, st⟩ := sl
  cases st <;> simp_all [onCheck]

theorem onFinish_done {f : σ → σ × Option ε} {sl : σ × Status ε} {r : Option ε} (h : sl.2 = .done r) :
    onFinish f sl = sl := by
  obtain ⟨s, st⟩ := sl
  cases st <;> simp_all [onFinish]

theorem done_of_onCheck {b : Bool} {sl : σ × Status ε} {r : Option ε} (h : (onCheck b sl).2 = .done r) :
    sl.2 = .done r := by
  obtain ⟨s, st⟩ := sl
  cases st <;> simp_all [onCheck]
  cases b <;> simp at h

theorem skipped_of_onCheck {b : Bool} {sl : σ × Status ε} (h : (onCheck b sl).2 = .skipped) :
    sl.2 = .skipped ∨ b = true := by
  obtain ⟨s, st⟩ := sl
  cases st <;> simp_all [onCheck]

theorem skipped_of_onFinish {f : σ → σ × Option ε} {sl : σ × Status ε} (h : (onFinish f sl).2 = .skipped) :
    sl.2 = .skipped := by
  obtain ⟨s, st⟩ := sl
  cases st <;> simp_all [onFinish]

theorem done_of_onFinish {f : σ → σ × Option ε} {sl : σ × Status ε} {e : ε}
    (h : (onFinish f sl).2 = .done (some e)) :
    sl.2 = .done (some e) ∨ failsNow f (some sl) = true := by
  obtain ⟨s, st⟩ := sl
  cases st <;> simp_all [onFinish, failsNow]

theorem failsNow_spec {f : σ → σ × Option ε} {o : Option (σ × Status ε)} (h : failsNow f o = true) :
    ∃ s e, o = some (s, .running) ∧ (f s).2 = some e := by
  match o, h with
  | some (s, .running), h =>
    simp only [failsNow, Option.isSome_iff_exists] at h
    obtain ⟨e, he⟩ := h
    exact ⟨s, e, rfl, he⟩

structure Inv (f : σ → σ × Option ε) (sigs : List σ) (m : Par σ ε) : Prop where
  len : m.tasks.length = sigs.length
  slot : ∀ (j : Nat) (s0 : σ) (sl : σ × Status ε), sigs[j]? = some s0 → m.tasks[j]? = some sl → SlotOK f s0 sl
  full_iff : m.full = true ↔ ∃ (j : Nat) (sl : σ × Status ε) (e : ε), m.tasks[j]? = some sl ∧ sl.2 = .done (some e)
  skip : ∀ (j : Nat) (sl : σ × Status ε), m.tasks[j]? = some sl → sl.2 = .skipped → m.full = true

theorem inv_init (f : σ → σ × Option ε) (sigs : List σ) : Inv f sigs (Par.init sigs) := by
  refine ⟨by simp [Par.init], ?_, ?_, ?_⟩
  · intro j s0 sl h0 h
    simp only [Par.init, List.getElem?_map, h0, Option.map_some, Option.some.injEq] at h
    subst h; simp [SlotOK]
  · simp only [Par.init, List.getElem?_map]
    constructor
    · intro h; cases h
    · rintro ⟨j, sl, e, h, hd⟩
      cases hs : sigs[j]? with
      | none => simp [hs] at h
      | some s => simp [hs] at h; subst h; cases hd
  · intro j sl h hd
    simp only [Par.init, List.getElem?_map] at h
    cases hs : sigs[j]? with
    | none => simp [hs] at h
    | some s => simp [hs] at h; subst h; cases hd

theorem inv_step {f : σ → σ × Option ε} {sigs : List σ} {m : Par σ ε} (h : Inv f sigs m) (ev : Ev) :
    Inv f sigs (step f m ev) := by
  cases ev with
  | check i =>
    refine ⟨by simp [step, length_modifyAt, h.len], ?_, ?_, ?_⟩
    · intro j s0 sl h0 hj
      simp only [step, getElem?_modifyAt] at hj
      split at hj
      · cases ht : m.tasks[j]? with
        | none => simp [ht] at hj
        | some sl0 =>
          simp only [ht, Option.map_some, Option.some.injEq] at hj
          subst hj
          exact slotOK_onCheck _ (h.slot j s0 sl0 h0 ht)
      · exact h.slot j s0 sl h0 hj
    · simp only [step]
      rw [h.full_iff]
      constructor
      · rintro ⟨j, sl, e, hj, hd⟩
        refine ⟨j, sl, e, ?_, hd⟩
        rw [getElem?_modifyAt]
        split
        · simp [hj, onCheck_done hd]
        · exact hj
      · rintro ⟨j, sl, e, hj, hd⟩
        rw [getElem?_modifyAt] at hj
        split at hj
        · cases ht : m.tasks[j]? with
          | none => simp [ht] at hj
          | some sl0 =>
            simp only [ht, Option.map_some, Option.some.injEq] at hj
            subst hj
            have := done_of_onCheck hd
            exact ⟨j, sl0, e, ht, this⟩
        · exact ⟨j, sl, e, hj, hd⟩
    · intro j sl hj hd
      simp only [step, getElem?_modifyAt] at hj ⊢
      split at hj
      · cases ht : m.tasks[j]? with
        | none => simp [ht] at hj
        | some sl0 =>
          simp only [ht, Option.map_some, Option.some.injEq] at hj
          subst hj
          rcases skipped_of_onCheck hd with h1 | h1
          · exact h.skip j sl0 ht h1
          · exact h1
      · exact h.skip j sl hj hd
  | finish i =>
    refine ⟨by simp [step, length_modifyAt, h.len], ?_, ?_, ?_⟩
    · intro j s0 sl h0 hj
      simp only [step, getElem?_modifyAt] at hj
      split at hj
      · cases ht : m.tasks[j]? with
        | none => simp [ht] at hj
        | some sl0 =>
          simp only [ht, Option.map_some, Option.some.injEq] at hj
          subst hj
          exact slotOK_onFinish (h.slot j s0 sl0 h0 ht)
      · exact h.slot j s0 sl h0 hj
    · simp only [step, Bool.or_eq_true]
      constructor
      · rintro (hf | hf)
        · obtain ⟨j, sl, e, hj, hd⟩ := h.full_iff.1 hf
          refine ⟨j, sl, e, ?_, hd⟩
          rw [getElem?_modifyAt]
          split
          · simp [hj, onFinish_done hd]
          · exact hj
        · obtain ⟨s, e, ht, he⟩ := failsNow_spec hf
          refine ⟨i, ((f s).1, .done (f s).2), e, ?_, by simp [he]⟩
          rw [getElem?_modifyAt]
          simp [ht, onFinish]
      · rintro ⟨j, sl, e, hj, hd⟩
        rw [getElem?_modifyAt] at hj
        split at hj
        · cases ht : m.tasks[j]? with
          | none => simp [ht] at hj
          | some sl0 =>
            simp only [ht, Option.map_some, Option.some.injEq] at hj
            subst hj
            rename_i hij
            subst hij
            rcases done_of_onFinish hd with h1 | h1
            · exact Or.inl (h.full_iff.2 ⟨i, sl0, e, ht, h1⟩)
            · exact Or.inr (by rw [ht]; exact h1)
        · exact Or.inl (h.full_iff.2 ⟨j, sl, e, hj, hd⟩)
    · intro j sl hj hd
      simp only [step, getElem?_modifyAt, Bool.or_eq_true] at hj ⊢
      left
      split at hj
      · cases ht : m.tasks[j]? with
        | none => simp [ht] at hj
        | some sl0 =>
          simp only [ht, Option.map_some, Option.some.injEq] at hj
          subst hj
          exact h.skip j sl0 ht (skipped_of_onFinish hd)
      · exact h.skip j sl hj hd

theorem inv_exec {f : σ → σ × Option ε} {sigs : List σ} (evs : List Ev) {m : Par σ ε} (h : Inv f sigs m) :
    Inv f sigs (exec f m evs) := by
  induction evs generalizing m with
  | nil => exact h
  | cons ev t ih => exact ih (inv_step h ev)

theorem inv_run (f : σ → σ × Option ε) (sigs : List σ) (evs : List Ev) :
    Inv f sigs (exec f (Par.init sigs) evs) := inv_exec evs (inv_init f sigs)

end SigAdd
