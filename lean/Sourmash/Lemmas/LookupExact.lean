import Sourmash.Lemmas.LookupCounter
/-! Lemmas/LookupExact.lean — an inverted index that maps each hash to the datasets containing it yields
exactly the overlap counter; the linear scan does too; `most_common` / threshold search.  Core Lean only. -/
namespace RevIdx

theorem mem_refIds {C : Coll} {h d : Nat} : d ∈ refIds C h ↔ d < C.length ∧ h ∈ C.getD d [] := by
  simp [refIds]

theorem nodup_refIds (C : Coll) (h : Nat) : (refIds C h).Nodup :=
  List.Pairwise.filter _ (List.nodup_range (n := C.length))

theorem sorted_refIds (C : Coll) (h : Nat) : Sorted (refIds C h) :=
  List.Pairwise.filter _ (sorted_range C.length)

theorem count_le_one_of_nodup {l : List Nat} (h : l.Nodup) (d : Nat) : l.count d = if d ∈ l then 1 else 0 := by
  induction l with
  | nil => simp
  | cons a t ih =>
    have ⟨ha, ht⟩ := List.pairwise_cons.mp h
    rw [List.count_cons, ih ht]
    by_cases hd : d = a
    · subst hd
      have : d ∉ t := fun hm => ha d hm rfl
      simp [this]
    · have : (a == d) = false := by simp; omega
      simp [hd, this]

/-- occurrences of `d` in the concatenated lookups = number of query hashes whose lookup holds `d` -/
theorem count_flatMap {f : Nat → List Nat} (hf : ∀ h, (f h).Nodup) (d : Nat) :
    ∀ Q : List Nat, (Q.flatMap f).count d = (Q.filter (fun h => (f h).contains d)).length
  | [] => by simp
  | q :: Q => by
    rw [List.flatMap_cons, List.count_append, count_flatMap hf d Q, count_le_one_of_nodup (hf q), List.filter_cons]
    by_cases hm : d ∈ f q
    · simp [hm]; omega
    · simp [hm]

/-- the counter an exact inverted index produces is the reference counter -/
theorem tally_exact (C : Coll) (Q : List Nat) (look : Nat → List Nat) (hl : ∀ h ∈ Q, look h = refIds C h) :
    tally (Q.flatMap look) = refCounter C Q := by
  have e1 : Q.flatMap look = Q.flatMap (refIds C) := by
    induction Q with
    | nil => rfl
    | cons q Q ih =>
      rw [List.flatMap_cons, List.flatMap_cons, hl q (by simp), ih (fun h hh => hl h (by simp [hh]))]
  rw [e1]
  have e2 : refCounter C Q = countsOver (List.range C.length) (fun i => overlap Q (C.getD i [])) := rfl
  rw [e2]
  apply counter_ext (wf_tally _) (wf_countsOver (sorted_range _))
  intro d
  rw [cget_tally, cget_countsOver d (sorted_range _), count_flatMap (nodup_refIds C) d Q]
  by_cases hd : d < C.length
  · simp only [List.mem_range, hd, if_true, overlap]
    congr 1
    apply List.filter_congr
    intro h _
    have := mem_refIds (C := C) (h := h) (d := d)
    simp only [List.contains_eq_mem, decide_eq_decide]
    rw [this]
    simp [hd]
  · simp only [List.mem_range, hd, if_false]
    rw [List.length_eq_zero_iff, List.filter_eq_nil_iff]
    intro h _
    have := mem_refIds (C := C) (h := h) (d := d)
    simp [this, hd]

/-- |A ∩ B| does not depend on which sketch is scanned -/
theorem overlap_comm {A B : List Nat} (ha : A.Nodup) (hb : B.Nodup) : overlap A B = overlap B A := by
  unfold overlap
  apply List.Perm.length_eq
  rw [List.perm_ext_iff_of_nodup (List.Pairwise.filter _ ha) (List.Pairwise.filter _ hb)]
  intro x
  simp only [List.mem_filter, List.contains_eq_mem, decide_eq_true_eq]
  exact And.comm

theorem filterMap_congr_mem {α β : Type} {f g : α → Option β} :
    ∀ {l : List α}, (∀ x ∈ l, f x = g x) → l.filterMap f = l.filterMap g
  | [], _ => rfl
  | a :: t, h => by
    rw [List.filterMap_cons, List.filterMap_cons, h a (by simp),
      filterMap_congr_mem (l := t) (fun x hx => h x (by simp [hx]))]

/-! ### most_common and threshold search -/

/-- non-increasing in the count -/
abbrev CountDesc (l : List (Nat × Nat)) : Prop := l.Pairwise (fun a b => b.2 ≤ a.2)

theorem perm_insertDesc (e : Nat × Nat) : ∀ l : List (Nat × Nat), (insertDesc e l).Perm (e :: l)
  | [] => List.Perm.refl _
  | f :: t => by
    simp only [insertDesc]
    split
    · exact List.Perm.refl _
    · exact ((perm_insertDesc e t).cons f).trans (List.Perm.swap e f t)

theorem desc_insertDesc (e : Nat × Nat) : ∀ {l : List (Nat × Nat)}, CountDesc l → CountDesc (insertDesc e l)
  | [], _ => by simp [insertDesc]
  | f :: t, h => by
    have ⟨hf, ht⟩ := List.pairwise_cons.mp h
    simp only [insertDesc]
    split
    · rename_i hc
      have hfe : f.2 ≤ e.2 := by
        simp only [Bool.or_eq_true, decide_eq_true_eq, Bool.and_eq_true, beq_iff_eq] at hc
        omega
      refine List.pairwise_cons.mpr ⟨?_, h⟩
      intro b hb
      rcases List.mem_cons.mp hb with rfl | hb
      · exact hfe
      · exact Nat.le_trans (hf b hb) hfe
    · rename_i hc
      have hef : e.2 ≤ f.2 := by
        simp only [Bool.or_eq_true, decide_eq_true_eq, Bool.and_eq_true, beq_iff_eq, not_or] at hc
        omega
      refine List.pairwise_cons.mpr ⟨?_, desc_insertDesc e ht⟩
      intro b hb
      rcases List.mem_cons.mp ((perm_insertDesc e t).mem_iff.mp hb) with rfl | hb
      · exact hef
      · exact hf b hb

theorem perm_mostCommon : ∀ cnt : List (Nat × Nat), (mostCommon cnt).Perm cnt
  | [] => List.Perm.refl _
  | e :: t => by
    simp only [mostCommon, List.foldr_cons]
    exact (perm_insertDesc e _).trans ((perm_mostCommon t).cons e)

theorem desc_mostCommon : ∀ cnt : List (Nat × Nat), CountDesc (mostCommon cnt)
  | [] => List.Pairwise.nil
  | e :: t => by
    simp only [mostCommon, List.foldr_cons]
    exact desc_insertDesc e (desc_mostCommon t)

/-- on a list sorted by non-increasing count, stopping at the first entry below the threshold loses nothing -/
theorem takeWhile_eq_filter (t : Nat) : ∀ {l : List (Nat × Nat)}, CountDesc l →
    l.takeWhile (fun e => t ≤ e.2) = l.filter (fun e => t ≤ e.2)
  | [], _ => rfl
  | a :: l, h => by
    have ⟨ha, hl⟩ := List.pairwise_cons.mp h
    rw [List.takeWhile_cons, List.filter_cons]
    by_cases hp : t ≤ a.2
    · simp only [hp, decide_true, if_true]
      rw [takeWhile_eq_filter t hl]
    · simp only [hp, decide_false, Bool.false_eq_true, if_false]
      symm
      rw [List.filter_eq_nil_iff]
      intro b hb
      have := ha b hb
      simp only [decide_eq_true_eq]
      omega

end RevIdx
