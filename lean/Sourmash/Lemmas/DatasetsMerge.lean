import Sourmash.Lemmas.Datasets
/-! Lemmas/DatasetsMerge.lean — the length-discriminated codec round-trips on well-formed values (given
the two roaring assumptions), `merge_datasets` computes the union on valid encodings, and so does
every merge tree.  Core Lean only. -/
namespace RevIdx

theorem readU32le_u32le {v : Nat} (h : v < 2 ^ 32) (rest : Bytes) : readU32le (u32le v ++ rest) = v := by
  simp only [u32le, readU32le, List.cons_append, List.nil_append]
  omega

namespace Datasets

/-- decode ∘ encode = id on well-formed, `u32`-bounded values -/
theorem fromSlice_asBytes {c : ManyCodec} (hc : c.Lawful) {d : Datasets} (hw : d.WF) (hb : d.Bounded) :
    fromSlice c (asBytes c d) = d := by
  cases d with
  | empty => simp [asBytes, fromSlice]
  | unique v =>
    have hv : v < 2 ^ 32 := hb v (by simp [ids])
    have : readU32le (u32le v ++ [0, 0, 0, 0]) = v := readU32le_u32le hv _
    simp [asBytes, fromSlice, u32le] at this ⊢
    exact this
  | many vs =>
    have h8 := hc.len_ne_eight vs hw.2
    have h1 := hc.len_ne_one vs hw.2
    have hd := hc.dec_enc vs hw.1 hw.2 hb
    simp [asBytes, fromSlice, h8, h1, hd]

end Datasets

/-- bytes that are the encoding of a well-formed bounded value (everything the index ever writes) -/
def Good (c : ManyCodec) (b : Bytes) : Prop := ∃ d : Datasets, d.WF ∧ d.Bounded ∧ b = d.asBytes c

/-- the set a stored byte string denotes -/
def den (c : ManyCodec) (b : Bytes) : List Nat := (Datasets.fromSlice c b).ids

theorem Good.decode {c : ManyCodec} (hc : c.Lawful) {b : Bytes} (h : Good c b) :
    (Datasets.fromSlice c b).WF ∧ (Datasets.fromSlice c b).Bounded ∧ b = (Datasets.fromSlice c b).asBytes c := by
  obtain ⟨d, hw, hb, rfl⟩ := h
  rw [Datasets.fromSlice_asBytes hc hw hb]
  exact ⟨hw, hb, rfl⟩

/-- two valid encodings denoting the same set are the same bytes -/
theorem Good.ext {c : ManyCodec} (hc : c.Lawful) {a b : Bytes} (ha : Good c a) (hb : Good c b)
    (h : ∀ x, x ∈ den c a ↔ x ∈ den c b) : a = b := by
  have ⟨wa, _, ea⟩ := ha.decode hc
  have ⟨wb, _, eb⟩ := hb.decode hc
  rw [ea, eb, Datasets.canonical wa wb h]

/-- the fold inside `merge_datasets` -/
theorem foldUnion_spec {c : ManyCodec} (hc : c.Lawful) :
    ∀ (ops : List Bytes) (start : Datasets), start.WF → start.Bounded → (∀ o ∈ ops, Good c o) →
      let r := ops.foldl (fun acc op => acc.union (Datasets.fromSlice c op)) start
      r.WF ∧ r.Bounded ∧ ∀ x, x ∈ r.ids ↔ (x ∈ start.ids ∨ ∃ o ∈ ops, x ∈ den c o)
  | [], start, hw, hb, _ => by simp [hw, hb]
  | o :: ops, start, hw, hb, hg => by
    have ⟨wo, bo, _⟩ := (hg o (by simp)).decode hc
    have ih := foldUnion_spec hc ops (start.union (Datasets.fromSlice c o))
      (Datasets.union_wf hw wo) (Datasets.union_bounded hb bo) (fun o' ho' => hg o' (by simp [ho']))
    simp only [List.foldl_cons] at ih ⊢
    refine ⟨ih.1, ih.2.1, ?_⟩
    intro x
    rw [ih.2.2 x, Datasets.mem_union]
    simp only [den, List.mem_cons, exists_eq_or_imp]
    constructor
    · rintro ((h | h) | h)
      · exact Or.inl h
      · exact Or.inr (Or.inl h)
      · exact Or.inr (Or.inr h)
    · rintro (h | h | h)
      · exact Or.inl (Or.inl h)
      · exact Or.inl (Or.inr h)
      · exact Or.inr h

/-- `merge_datasets` on valid encodings yields the valid encoding of the union -/
theorem mergeDatasets_spec {c : ManyCodec} (hc : c.Lawful) (ex : Option Bytes) (ops : List Bytes)
    (hex : ∀ e, ex = some e → Good c e) (hops : ∀ o ∈ ops, Good c o) :
    Good c (mergeDatasets c ex ops) ∧
    ∀ x, x ∈ den c (mergeDatasets c ex ops) ↔ (x ∈ lookupIds c ex ∨ ∃ o ∈ ops, x ∈ den c o) := by
  have hstart : ∀ start : Datasets, start.WF → start.Bounded →
      Good c ((ops.foldl (fun acc op => acc.union (Datasets.fromSlice c op)) start).asBytes c) ∧
      ∀ x, x ∈ den c ((ops.foldl (fun acc op => acc.union (Datasets.fromSlice c op)) start).asBytes c) ↔
        (x ∈ start.ids ∨ ∃ o ∈ ops, x ∈ den c o) := by
    intro start hw hb
    have ⟨rw_, rb, rm⟩ := foldUnion_spec hc ops start hw hb hops
    refine ⟨⟨_, rw_, rb, rfl⟩, ?_⟩
    intro x
    simp only [den]
    rw [Datasets.fromSlice_asBytes hc rw_ rb]
    exact rm x
  cases ex with
  | none => exact hstart Datasets.empty trivial (by intro x hx; simp [Datasets.ids] at hx)
  | some e =>
    have ⟨we, be, _⟩ := (hex e rfl).decode hc
    exact hstart (Datasets.fromSlice c e) we be

mutual
/-- every subtree of a merge tree collapses to the valid encoding of the union of its leaves -/
theorem MTree.eval_spec {c : ManyCodec} (hc : c.Lawful) :
    ∀ t : MTree, (∀ b ∈ t.leaves, Good c b) →
      Good c (t.eval c) ∧ ∀ x, x ∈ den c (t.eval c) ↔ ∃ b ∈ t.leaves, x ∈ den c b
  | .leaf b, h => by
    refine ⟨h b (by simp [MTree.leaves]), ?_⟩
    intro x
    simp [MTree.eval, MTree.leaves]
  | .node ts, h => by
    have hl := MTree.evalList_spec hc ts (by simpa [MTree.leaves] using h)
    have := mergeDatasets_spec hc none (MTree.evalList c ts) (by intro e he; cases he) hl.1
    simp only [MTree.eval, MTree.leaves]
    refine ⟨this.1, ?_⟩
    intro x
    rw [this.2 x, hl.2 x]
    simp [lookupIds]
theorem MTree.evalList_spec {c : ManyCodec} (hc : c.Lawful) :
    ∀ ts : List MTree, (∀ b ∈ MTree.leavesList ts, Good c b) →
      (∀ o ∈ MTree.evalList c ts, Good c o) ∧
      ∀ x, (∃ o ∈ MTree.evalList c ts, x ∈ den c o) ↔ ∃ b ∈ MTree.leavesList ts, x ∈ den c b
  | [], _ => by simp [MTree.evalList, MTree.leavesList]
  | t :: ts, h => by
    have ht := MTree.eval_spec hc t (fun b hb => h b (by simp [MTree.leavesList, hb]))
    have hts := MTree.evalList_spec hc ts (fun b hb => h b (by simp [MTree.leavesList, hb]))
    simp only [MTree.evalList, MTree.leavesList, List.mem_cons, List.mem_append, forall_eq_or_imp,
      exists_eq_or_imp]
    refine ⟨⟨ht.1, hts.1⟩, ?_⟩
    intro x
    rw [ht.2 x, hts.2 x]
    constructor
    · rintro (⟨b, hb, hx⟩ | ⟨b, hb, hx⟩)
      · exact ⟨b, Or.inl hb, hx⟩
      · exact ⟨b, Or.inr hb, hx⟩
    · rintro ⟨b, hb | hb, hx⟩
      · exact Or.inl ⟨b, hb, hx⟩
      · exact Or.inr ⟨b, hb, hx⟩

end

/-- a succession of full merges over any forest: the stored value is the valid encoding of
`existing ∪ ⋃ leaves` -/
theorem evalKey_spec {c : ManyCodec} (hc : c.Lawful) :
    ∀ (groups : List (List MTree)) (ex : Option Bytes), (∀ e, ex = some e → Good c e) →
      (∀ b ∈ forestLeaves groups, Good c b) →
      (∀ e, evalKey c ex groups = some e → Good c e) ∧
      ∀ x, x ∈ lookupIds c (evalKey c ex groups) ↔ (x ∈ lookupIds c ex ∨ ∃ b ∈ forestLeaves groups, x ∈ den c b)
  | [], ex, hex, _ => ⟨by simpa [evalKey] using hex, by simp [evalKey, forestLeaves]⟩
  | g :: gs, ex, hex, hl => by
    have hg := MTree.evalList_spec hc g (fun b hb => hl b (by simp [forestLeaves, hb]))
    have hm := mergeDatasets_spec hc ex (MTree.evalList c g) hex hg.1
    have ih := evalKey_spec hc gs (fullMerge c ex g) (by intro e he; simp [fullMerge] at he; rw [← he]; exact hm.1)
      (fun b hb => hl b (by
        simp only [forestLeaves, List.map_cons, List.flatten_cons, List.mem_append] at hb ⊢
        exact Or.inr hb))
    simp only [evalKey, List.foldl_cons] at ih ⊢
    refine ⟨ih.1, ?_⟩
    intro x
    rw [ih.2 x]
    have e1 : lookupIds c (fullMerge c ex g) = den c (mergeDatasets c ex (MTree.evalList c g)) := rfl
    rw [e1, hm.2 x, hg.2 x]
    simp only [forestLeaves, List.map_cons, List.flatten_cons, List.mem_append]
    constructor
    · rintro ((h | ⟨b, hb, hx⟩) | ⟨b, hb, hx⟩)
      · exact Or.inl h
      · exact Or.inr ⟨b, Or.inl hb, hx⟩
      · exact Or.inr ⟨b, Or.inr hb, hx⟩
    · rintro (h | ⟨b, hb | hb, hx⟩)
      · exact Or.inl (Or.inl h)
      · exact Or.inl (Or.inr ⟨b, hb, hx⟩)
      · exact Or.inr ⟨b, hb, hx⟩

/-! ### the satisfiability witness for the assumptions -/
theorem listCodec_lawful : listCodec.Lawful where
  dec_enc := by intro vs _ _ _; simp [listCodec]
  len_ne_one := by intro vs _; simp [listCodec]
  len_ne_eight := by intro vs _; simp [listCodec]

end RevIdx
