import Sourmash.Model.Md5Cache
/-! Lemmas/Md5Cache.lean — every operation of both sketch models keeps the md5 cache either empty or
equal to the digest of the current (ksize, hashes).  Core Lean only. -/
namespace Md5Cache
open MH

/-- the cache invariant of the vector type -/
def VOk (s : Vec) : Prop := s.md5 = none ∨ s.md5 = some s.digest
/-- the cache invariant of the tree type -/
def TOk (s : Tree) : Prop := s.md5 = none ∨ s.md5 = some s.digest

/-! ### vector type -/

theorem VOk.reset (s : Vec) : VOk s.reset := Or.inl rfl

theorem VOk.same {s s' : Vec} (hm : s'.md5 = s.md5) (hmins : s'.mins = s.mins) (hk : s'.ksize = s.ksize)
    (h : VOk s) : VOk s' := by
  unfold VOk Vec.digest at *
  rw [hm, hmins, hk]; exact h

theorem VOk.new (num mh : Nat) (t : Bool) (k : Nat) : VOk (Vec.new num mh t k) := Or.inl rfl

/-- a sketch loaded with the digest of the hashes stored next to it -/
theorem VOk.loaded (s : Vec) (h : s.md5 = some s.digest) : VOk s := Or.inr h

theorem VOk.remove {s : Vec} (h : Nat) (hs : VOk s) : VOk (s.remove h) := by
  unfold Vec.remove
  simp only []
  split
  · exact VOk.reset _
  · exact hs

theorem VOk.removeMany {s : Vec} (hs : List Nat) (h : VOk s) : VOk (s.removeMany hs) := by
  unfold Vec.removeMany
  induction hs generalizing s with
  | nil => exact h
  | cons x t ih => exact ih (VOk.remove x h)

theorem VOk.add {s : Vec} (h a : Nat) (hs : VOk s) : VOk (s.add h a) := by
  unfold Vec.add
  split
  · exact hs
  split
  · exact hs
  split
  · exact VOk.remove h hs
  split
  · exact VOk.reset _
  simp only []
  split
  · split
    · exact VOk.reset _
    · split
      · split
        · exact VOk.reset _
        · exact VOk.reset _
      · exact VOk.same rfl rfl rfl hs
  · exact hs

theorem VOk.set {s : Vec} (h a : Nat) (hs : VOk s) : VOk (s.set h a) := by
  unfold Vec.set
  simp only []
  split
  · exact VOk.same rfl rfl rfl hs
  · exact VOk.add h a hs

theorem Vec.remove_ksize (s : Vec) (h : Nat) : (s.remove h).ksize = s.ksize := by
  unfold Vec.remove
  simp only []
  split <;> rfl

theorem Vec.add_ksize (s : Vec) (h a : Nat) : (s.add h a).ksize = s.ksize := by
  unfold Vec.add
  split
  · rfl
  split
  · rfl
  split
  · exact Vec.remove_ksize s h
  split
  · rfl
  simp only []
  split
  · split
    · rfl
    · split
      · split <;> rfl
      · rfl
  · rfl

theorem Vec.addMany_ksize (s : Vec) (hs : List Nat) : (s.addMany hs).ksize = s.ksize := by
  unfold Vec.addMany
  induction hs generalizing s with
  | nil => rfl
  | cons x t ih => exact (ih (s.add x 1)).trans (Vec.add_ksize s x 1)

theorem VOk.addMany {s : Vec} (hs : List Nat) (h : VOk s) : VOk (s.addMany hs) := by
  unfold Vec.addMany
  induction hs generalizing s with
  | nil => exact h
  | cons x t ih => exact ih (VOk.add x 1 h)

theorem VOk.addManyAbund {s : Vec} (ps : List (Nat × Nat)) (h : VOk s) : VOk (s.addManyAbund ps) := by
  unfold Vec.addManyAbund
  induction ps generalizing s with
  | nil => exact h
  | cons x t ih => exact ih (VOk.add x.1 x.2 h)

theorem VOk.addFrom {s : Vec} (o : Vec) (h : VOk s) : VOk (s.addFrom o) := VOk.addMany _ h

theorem VOk.removeFrom {s : Vec} (o : Vec) (h : VOk s) : VOk (s.removeFrom o) := VOk.removeMany _ h

theorem VOk.clear (s : Vec) : VOk s.clear := VOk.reset _

theorem VOk.setAbundances {s : Vec} (ps : List (Nat × Nat)) (c : Bool) (h : VOk s) :
    VOk (s.setAbundances ps c) := by
  unfold Vec.setAbundances
  cases c with
  | true => exact VOk.addManyAbund _ (VOk.clear s)
  | false => exact VOk.addManyAbund _ h

/-- `downsample_scaled`: the sketch that comes back (the moved one or a new one) is consistent -/
theorem VOk.downsampleScaled {s t : Vec} (sc : Nat) (hs : VOk s) (h : s.downsampleScaled sc = .ok t) : VOk t := by
  unfold Vec.downsampleScaled at h
  simp only [] at h
  split at h
  · cases h; exact hs
  · split at h
    · cases h
    · cases h
      split
      · exact VOk.addManyAbund _ (VOk.new ..)
      · exact VOk.addMany _ (VOk.new ..)

theorem VOk.downsampleMaxHash {s t : Vec} (mh : Nat) (hs : VOk s) (h : s.downsampleMaxHash mh = .ok t) : VOk t := by
  unfold Vec.downsampleMaxHash at h
  split at h
  · cases h; exact hs
  · exact VOk.downsampleScaled _ hs h

/-- `From<KmerMinHashBTree>`: the converted sketch starts with an empty cache -/
theorem VOk.ofTree (t : Tree) : VOk t.toVec := Or.inl rfl

theorem VOk.merge (s o : Vec) : VOk (s.merge o) := by
  unfold Vec.merge
  simp only []
  split <;> exact VOk.reset _

theorem VOk.mergeChecked {s o t : Vec} (h : s.mergeChecked o = .ok t) : VOk t := by
  unfold Vec.mergeChecked at h
  split at h
  · cases h
  · cases h; exact VOk.merge s o

theorem VOk.enable {s t : Vec} (hs : VOk s) (h : s.enableAbundance = .ok t) : VOk t := by
  unfold Vec.enableAbundance at h
  split at h
  · cases h
  · cases h; exact VOk.same rfl rfl rfl hs

theorem VOk.disable {s : Vec} (hs : VOk s) : VOk s.disableAbundance := VOk.same rfl rfl rfl hs

theorem VOk.inflate {s o t : Vec} (h : s.inflate o = .ok t) : VOk t := by
  unfold Vec.inflate at h
  split at h
  · cases h
  · cases h; exact VOk.reset _

/-- `md5sum` reports the digest of the current contents, fills the cache and changes nothing else -/
theorem Vec.md5sum_spec {s : Vec} (hs : VOk s) :
    s.md5sum.1 = s.digest ∧ s.md5sum.2.md5 = some s.digest
      ∧ s.md5sum.2.mins = s.mins ∧ s.md5sum.2.ksize = s.ksize ∧ s.md5sum.2.abunds = s.abunds := by
  unfold Vec.md5sum
  rcases hs with h | h
  · simp only [h]; exact ⟨trivial, trivial, trivial, trivial, trivial⟩
  · simp only [h]; exact ⟨trivial, trivial, trivial, trivial, trivial⟩

theorem Vec.md5sum_digest (s : Vec) : s.md5sum.2.digest = s.digest := by
  unfold Vec.md5sum
  split <;> rfl

theorem VOk.md5sum {s : Vec} (hs : VOk s) : VOk s.md5sum.2 := by
  have h := Vec.md5sum_spec hs
  right; rw [h.2.1, Vec.md5sum_digest]

/-- the clone holds the same (ksize, hashes) and the digest of them; the source stays consistent -/
theorem Vec.clone_spec {s : Vec} (hs : VOk s) :
    s.clone.1.mins = s.mins ∧ s.clone.1.ksize = s.ksize ∧ s.clone.1.md5 = some s.digest
      ∧ VOk s.clone.1 ∧ VOk s.clone.2 ∧ s.clone.2.mins = s.mins ∧ s.clone.2.ksize = s.ksize := by
  have h := Vec.md5sum_spec hs
  refine ⟨rfl, rfl, ?_, ?_, VOk.md5sum hs, h.2.2.1, h.2.2.2.1⟩
  · show some s.md5sum.1 = some s.digest
    rw [h.1]
  · right
    show some s.md5sum.1 = some s.digest
    rw [h.1]

/-- serde round trip of a consistent sketch: the loaded sketch holds the same (ksize, hashes) and their
    digest as its cache; the serialised source stays consistent -/
theorem Vec.serde_spec {s : Vec} (hs : VOk s) :
    s.serde.1.mins = s.mins ∧ s.serde.1.ksize = s.ksize ∧ s.serde.1.md5 = some s.digest
      ∧ VOk s.serde.1 ∧ VOk s.serde.2 := by
  have h := Vec.md5sum_spec hs
  refine ⟨rfl, rfl, ?_, ?_, VOk.md5sum hs⟩
  · show some s.md5sum.1 = some s.digest
    rw [h.1]
  · right
    show some s.md5sum.1 = some s.digest
    rw [h.1]

theorem Vec.eq_spec {s o : Vec} (hs : VOk s) (ho : VOk o) :
    (s.eq o).1 = (s.digest == o.digest) ∧ VOk (s.eq o).2.1 ∧ VOk (s.eq o).2.2
      ∧ (s.eq o).2.1.mins = s.mins ∧ (s.eq o).2.2.mins = o.mins := by
  have h1 := Vec.md5sum_spec hs
  have h2 := Vec.md5sum_spec ho
  unfold Vec.eq
  simp only []
  refine ⟨?_, VOk.md5sum hs, VOk.md5sum ho, h1.2.2.1, h2.2.2.1⟩
  rw [h1.1, h2.1]

/-- one machine op keeps both sketches consistent -/
theorem vecOp_ok {t s : Vec} (op : Op) (ht : VOk t) (hs : VOk s) :
    VOk (vecOp t s op).1 ∧ VOk (vecOp t s op).2.1 := by
  cases op with
  | add h a => exact ⟨VOk.add h a ht, hs⟩
  | set h a => exact ⟨VOk.set h a ht, hs⟩
  | remove h => exact ⟨VOk.remove h ht, hs⟩
  | removeMany l => exact ⟨VOk.removeMany l ht, hs⟩
  | clear => exact ⟨VOk.clear t, hs⟩
  | merge =>
    simp only [vecOp]
    split
    · next t' h => exact ⟨VOk.mergeChecked h, hs⟩
    · exact ⟨ht, hs⟩
  | enable =>
    simp only [vecOp]
    split
    · next t' h => exact ⟨VOk.enable ht h, hs⟩
    · exact ⟨ht, hs⟩
  | disable => exact ⟨VOk.disable ht, hs⟩
  | inflate =>
    simp only [vecOp]
    split
    · exact ⟨ht, hs⟩
    · split
      · next t' h => exact ⟨VOk.inflate h, hs⟩
      · exact ⟨ht, hs⟩
  | md5 => exact ⟨VOk.md5sum ht, hs⟩
  | clone => exact ⟨(Vec.clone_spec ht).2.2.2.1, hs⟩
  | copy => exact ⟨(Vec.clone_spec ht).2.2.2.2.1, (Vec.clone_spec ht).2.2.2.1⟩
  | addMany l => exact ⟨VOk.addMany l ht, hs⟩
  | addManyAbund l => exact ⟨VOk.addManyAbund l ht, hs⟩
  | addFrom => exact ⟨VOk.addFrom s ht, hs⟩
  | removeFrom => exact ⟨VOk.removeFrom s ht, hs⟩
  | addSeq l e =>
    simp only [vecOp]
    split <;> exact ⟨VOk.addMany l ht, hs⟩
  | setAbundances l c => exact ⟨VOk.setAbundances l c ht, hs⟩
  | downScaled sc =>
    simp only [vecOp]
    split
    · next t' h => exact ⟨VOk.downsampleScaled sc (Vec.clone_spec ht).2.2.2.1 h, hs⟩
    · exact ⟨(Vec.clone_spec ht).2.2.2.2.1, hs⟩
  | downMaxHash mh =>
    simp only [vecOp]
    split
    · next t' h => exact ⟨VOk.downsampleMaxHash mh (Vec.clone_spec ht).2.2.2.1 h, hs⟩
    · exact ⟨(Vec.clone_spec ht).2.2.2.2.1, hs⟩
  | downMove sc =>
    simp only [vecOp]
    split
    · next t' h => exact ⟨VOk.downsampleScaled sc ht h, hs⟩
    · exact ⟨VOk.new .., hs⟩
  | serde => exact ⟨(Vec.serde_spec ht).2.2.2.1, hs⟩

/-- what an observer op answers: the digest of the contents of the sketch it reports on -/
theorem vecOp_digest {t s : Vec} (ht : VOk t) :
    (vecOp t s .md5).2.2 = .digest t.digest ∧ (vecOp t s .md5).1.mins = t.mins
    ∧ (vecOp t s .clone).2.2 = .digest t.digest ∧ (vecOp t s .clone).1.mins = t.mins
    ∧ (vecOp t s .copy).2.2 = .digest t.digest ∧ (vecOp t s .copy).2.1.mins = t.mins := by
  have h := Vec.md5sum_spec ht
  have hc := Vec.clone_spec ht
  have hcm : t.clone.1.md5sum.1 = t.digest := by
    unfold Vec.md5sum; rw [hc.2.2.1]
  refine ⟨?_, h.2.2.1, ?_, hc.1, ?_, hc.1⟩
  · simp only [vecOp, h.1]
  · simp only [vecOp, hcm]
  · simp only [vecOp, hcm]

def VPair.Ok (p : VPair) : Prop := VOk p.main ∧ VOk p.other

theorem VPair.step_ok {p : VPair} (c : Cmd) (h : p.Ok) : (p.step c).1.Ok := by
  cases c with
  | on w op =>
    cases w with
    | false => exact vecOp_ok op h.1 h.2
    | true => exact ⟨(vecOp_ok op h.2 h.1).2, (vecOp_ok op h.2 h.1).1⟩
  | eq => exact ⟨(Vec.eq_spec h.1 h.2).2.1, (Vec.eq_spec h.1 h.2).2.2.1⟩
  | eqRev => exact ⟨(Vec.eq_spec h.2 h.1).2.2.1, (Vec.eq_spec h.2 h.1).2.1⟩

theorem VPair.run_ok {p : VPair} (cs : List Cmd) (h : p.Ok) : (p.run cs).Ok := by
  unfold VPair.run
  induction cs generalizing p with
  | nil => exact h
  | cons c t ih => exact ih (VPair.step_ok c h)

/-! ### tree type -/

theorem TOk.reset (s : Tree) : TOk s.reset := Or.inl rfl

theorem TOk.same {s s' : Tree} (hm : s'.md5 = s.md5) (hmins : s'.mins = s.mins) (hk : s'.ksize = s.ksize)
    (h : TOk s) : TOk s' := by
  unfold TOk Tree.digest at *
  rw [hm, hmins, hk]; exact h

theorem TOk.new (num mh : Nat) (t : Bool) (k : Nat) : TOk (Tree.new num mh t k) := Or.inl rfl

theorem TOk.loaded (s : Tree) (h : s.md5 = some s.digest) : TOk s := Or.inr h

theorem TOk.ite {c : Prop} [Decidable c] {a b : Tree} (ha : TOk a) (hb : TOk b) :
    TOk (if c then a else b) := by
  split <;> assumption

theorem TOk.removeFromSet {s : Tree} (h : Nat) (hs : TOk s) : TOk (s.removeFromSet h) := by
  unfold Tree.removeFromSet
  exact TOk.ite (TOk.reset _) hs

theorem TOk.remove {s : Tree} (h : Nat) (hs : TOk s) : TOk (s.remove h) := by
  unfold Tree.remove
  exact TOk.ite (TOk.same rfl rfl rfl (TOk.removeFromSet h hs)) (TOk.removeFromSet h hs)

theorem TOk.removeMany {s : Tree} (hs : List Nat) (h : TOk s) : TOk (s.removeMany hs) := by
  unfold Tree.removeMany
  induction hs generalizing s with
  | nil => exact h
  | cons x t ih => exact ih (TOk.remove x h)

theorem TOk.insertHash {s : Tree} (h a : Nat) (hs : TOk s) : TOk (s.insertHash h a) := by
  unfold Tree.insertHash
  exact TOk.same rfl rfl rfl (TOk.ite (TOk.reset _) hs)

theorem TOk.add {s : Tree} (h a : Nat) (hs : TOk s) : TOk (s.add h a) := by
  unfold Tree.add
  exact TOk.ite hs (TOk.ite hs (TOk.ite hs (TOk.ite (TOk.reset _)
    (TOk.ite (TOk.ite (TOk.reset _) (TOk.insertHash h a hs)) hs))))

theorem Tree.ite_ksize {c : Prop} [Decidable c] {a b : Tree} {k : Nat} (ha : a.ksize = k) (hb : b.ksize = k) :
    (if c then a else b).ksize = k := by
  split <;> assumption

theorem Tree.insertHash_ksize (s : Tree) (h a : Nat) : (s.insertHash h a).ksize = s.ksize := by
  unfold Tree.insertHash
  simp only []
  split <;> rfl

theorem Tree.add_ksize (s : Tree) (h a : Nat) : (s.add h a).ksize = s.ksize := by
  unfold Tree.add
  exact Tree.ite_ksize rfl (Tree.ite_ksize rfl (Tree.ite_ksize rfl (Tree.ite_ksize rfl
    (Tree.ite_ksize (Tree.ite_ksize (Tree.insertHash_ksize s h a) (Tree.insertHash_ksize s h a)) rfl))))

theorem Tree.addMany_ksize (s : Tree) (hs : List Nat) : (s.addMany hs).ksize = s.ksize := by
  unfold Tree.addMany
  induction hs generalizing s with
  | nil => rfl
  | cons x t ih => exact (ih (s.add x 1)).trans (Tree.add_ksize s x 1)

theorem TOk.addMany {s : Tree} (hs : List Nat) (h : TOk s) : TOk (s.addMany hs) := by
  unfold Tree.addMany
  induction hs generalizing s with
  | nil => exact h
  | cons x t ih => exact ih (TOk.add x 1 h)

theorem TOk.addManyAbund {s : Tree} (ps : List (Nat × Nat)) (h : TOk s) : TOk (s.addManyAbund ps) := by
  unfold Tree.addManyAbund
  induction ps generalizing s with
  | nil => exact h
  | cons x t ih => exact ih (TOk.add x.1 x.2 h)

theorem TOk.addFrom {s : Tree} (o : Tree) (h : TOk s) : TOk (s.addFrom o) := TOk.addMany _ h

theorem TOk.downsampleScaled {s t : Tree} (sc : Nat) (hs : TOk s) (h : s.downsampleScaled sc = .ok t) : TOk t := by
  unfold Tree.downsampleScaled at h
  simp only [] at h
  split at h
  · cases h; exact hs
  · split at h
    · cases h
    · cases h
      split
      · exact TOk.addManyAbund _ (TOk.new ..)
      · exact TOk.addMany _ (TOk.new ..)

theorem TOk.downsampleMaxHash {s t : Tree} (mh : Nat) (hs : TOk s) (h : s.downsampleMaxHash mh = .ok t) : TOk t := by
  unfold Tree.downsampleMaxHash at h
  split at h
  · cases h; exact hs
  · exact TOk.downsampleScaled _ hs h

/-- `From<KmerMinHash>`: the converted sketch starts with an empty cache -/
theorem TOk.ofVec (v : Vec) : TOk v.toTree := Or.inl rfl

theorem TOk.clear (s : Tree) : TOk s.clear := TOk.reset _

theorem TOk.merge (s o : Tree) : TOk (s.merge o) := TOk.reset _

theorem TOk.mergeChecked {s o t : Tree} (h : s.mergeChecked o = .ok t) : TOk t := by
  unfold Tree.mergeChecked at h
  split at h
  · cases h
  · cases h; exact TOk.merge s o

theorem TOk.enable {s t : Tree} (hs : TOk s) (h : s.enableAbundance = .ok t) : TOk t := by
  unfold Tree.enableAbundance at h
  split at h
  · cases h
  · cases h; exact TOk.same rfl rfl rfl hs

theorem TOk.disable {s : Tree} (hs : TOk s) : TOk s.disableAbundance := TOk.same rfl rfl rfl hs

theorem Tree.md5sum_spec {s : Tree} (hs : TOk s) :
    s.md5sum.1 = s.digest ∧ s.md5sum.2.md5 = some s.digest
      ∧ s.md5sum.2.mins = s.mins ∧ s.md5sum.2.ksize = s.ksize ∧ s.md5sum.2.abunds = s.abunds := by
  unfold Tree.md5sum
  rcases hs with h | h
  · simp only [h]; exact ⟨trivial, trivial, trivial, trivial, trivial⟩
  · simp only [h]; exact ⟨trivial, trivial, trivial, trivial, trivial⟩

theorem Tree.md5sum_digest (s : Tree) : s.md5sum.2.digest = s.digest := by
  unfold Tree.md5sum
  split <;> rfl

theorem TOk.md5sum {s : Tree} (hs : TOk s) : TOk s.md5sum.2 := by
  have h := Tree.md5sum_spec hs
  right; rw [h.2.1, Tree.md5sum_digest]

theorem Tree.clone_spec {s : Tree} (hs : TOk s) :
    s.clone.1.mins = s.mins ∧ s.clone.1.ksize = s.ksize ∧ s.clone.1.md5 = some s.digest
      ∧ TOk s.clone.1 ∧ TOk s.clone.2 ∧ s.clone.2.mins = s.mins ∧ s.clone.2.ksize = s.ksize := by
  have h := Tree.md5sum_spec hs
  refine ⟨rfl, rfl, ?_, ?_, TOk.md5sum hs, h.2.2.1, h.2.2.2.1⟩
  · show some s.md5sum.1 = some s.digest
    rw [h.1]
  · right
    show some s.md5sum.1 = some s.digest
    rw [h.1]

theorem Tree.serde_spec {s : Tree} (hs : TOk s) :
    s.serde.1.mins = s.mins ∧ s.serde.1.ksize = s.ksize ∧ s.serde.1.md5 = some s.digest
      ∧ TOk s.serde.1 ∧ TOk s.serde.2 := by
  have h := Tree.md5sum_spec hs
  refine ⟨rfl, rfl, ?_, ?_, TOk.md5sum hs⟩
  · show some s.md5sum.1 = some s.digest
    rw [h.1]
  · right
    show some s.md5sum.1 = some s.digest
    rw [h.1]

theorem Tree.eq_spec {s o : Tree} (hs : TOk s) (ho : TOk o) :
    (s.eq o).1 = (s.digest == o.digest) ∧ TOk (s.eq o).2.1 ∧ TOk (s.eq o).2.2
      ∧ (s.eq o).2.1.mins = s.mins ∧ (s.eq o).2.2.mins = o.mins := by
  have h1 := Tree.md5sum_spec hs
  have h2 := Tree.md5sum_spec ho
  unfold Tree.eq
  simp only []
  refine ⟨?_, TOk.md5sum hs, TOk.md5sum ho, h1.2.2.1, h2.2.2.1⟩
  rw [h1.1, h2.1]

theorem treeOp_ok {t s : Tree} (op : Op) (ht : TOk t) (hs : TOk s) :
    TOk (treeOp t s op).1 ∧ TOk (treeOp t s op).2.1 := by
  cases op with
  | add h a => exact ⟨TOk.add h a ht, hs⟩
  | set h a => exact ⟨ht, hs⟩
  | remove h => exact ⟨TOk.remove h ht, hs⟩
  | removeMany l => exact ⟨TOk.removeMany l ht, hs⟩
  | clear => exact ⟨TOk.clear t, hs⟩
  | merge =>
    simp only [treeOp]
    split
    · next t' h => exact ⟨TOk.mergeChecked h, hs⟩
    · exact ⟨ht, hs⟩
  | enable =>
    simp only [treeOp]
    split
    · next t' h => exact ⟨TOk.enable ht h, hs⟩
    · exact ⟨ht, hs⟩
  | disable => exact ⟨TOk.disable ht, hs⟩
  | inflate => exact ⟨ht, hs⟩
  | md5 => exact ⟨TOk.md5sum ht, hs⟩
  | clone => exact ⟨(Tree.clone_spec ht).2.2.2.1, hs⟩
  | copy => exact ⟨(Tree.clone_spec ht).2.2.2.2.1, (Tree.clone_spec ht).2.2.2.1⟩
  | addMany l => exact ⟨TOk.addMany l ht, hs⟩
  | addManyAbund l => exact ⟨TOk.addManyAbund l ht, hs⟩
  | addFrom => exact ⟨TOk.addFrom s ht, hs⟩
  | removeFrom => exact ⟨ht, hs⟩
  | addSeq l e =>
    simp only [treeOp]
    split <;> exact ⟨TOk.addMany l ht, hs⟩
  | setAbundances l c => exact ⟨ht, hs⟩
  | downScaled sc =>
    simp only [treeOp]
    split
    · next t' h => exact ⟨TOk.downsampleScaled sc (Tree.clone_spec ht).2.2.2.1 h, hs⟩
    · exact ⟨(Tree.clone_spec ht).2.2.2.2.1, hs⟩
  | downMaxHash mh =>
    simp only [treeOp]
    split
    · next t' h => exact ⟨TOk.downsampleMaxHash mh (Tree.clone_spec ht).2.2.2.1 h, hs⟩
    · exact ⟨(Tree.clone_spec ht).2.2.2.2.1, hs⟩
  | downMove sc =>
    simp only [treeOp]
    split
    · next t' h => exact ⟨TOk.downsampleScaled sc ht h, hs⟩
    · exact ⟨TOk.new .., hs⟩
  | serde => exact ⟨(Tree.serde_spec ht).2.2.2.1, hs⟩

theorem treeOp_digest {t s : Tree} (ht : TOk t) :
    (treeOp t s .md5).2.2 = .digest t.digest ∧ (treeOp t s .md5).1.mins = t.mins
    ∧ (treeOp t s .clone).2.2 = .digest t.digest ∧ (treeOp t s .clone).1.mins = t.mins
    ∧ (treeOp t s .copy).2.2 = .digest t.digest ∧ (treeOp t s .copy).2.1.mins = t.mins := by
  have h := Tree.md5sum_spec ht
  have hc := Tree.clone_spec ht
  have hcm : t.clone.1.md5sum.1 = t.digest := by
    unfold Tree.md5sum; rw [hc.2.2.1]
  refine ⟨?_, h.2.2.1, ?_, hc.1, ?_, hc.1⟩
  · simp only [treeOp, h.1]
  · simp only [treeOp, hcm]
  · simp only [treeOp, hcm]

def TPair.Ok (p : TPair) : Prop := TOk p.main ∧ TOk p.other

theorem TPair.step_ok {p : TPair} (c : Cmd) (h : p.Ok) : (p.step c).1.Ok := by
  cases c with
  | on w op =>
    cases w with
    | false => exact treeOp_ok op h.1 h.2
    | true => exact ⟨(treeOp_ok op h.2 h.1).2, (treeOp_ok op h.2 h.1).1⟩
  | eq => exact ⟨(Tree.eq_spec h.1 h.2).2.1, (Tree.eq_spec h.1 h.2).2.2.1⟩
  | eqRev => exact ⟨(Tree.eq_spec h.2 h.1).2.2.1, (Tree.eq_spec h.2 h.1).2.1⟩

theorem TPair.run_ok {p : TPair} (cs : List Cmd) (h : p.Ok) : (p.run cs).Ok := by
  unfold TPair.run
  induction cs generalizing p with
  | nil => exact h
  | cons c t ih => exact ih (TPair.step_ok c h)

/-! ### the mixed machine (both types and the `From` conversions) -/

def Pair.Ok : Pair → Prop
  | .v p => p.Ok
  | .t p => p.Ok

theorem Pair.step_ok {p : Pair} (c : PCmd) (h : p.Ok) : (p.step c).1.Ok := by
  cases p with
  | v q =>
    cases c with
    | cmd c => exact VPair.step_ok c h
    | conv => exact ⟨TOk.ofVec _, TOk.ofVec _⟩
  | t q =>
    cases c with
    | cmd c => exact TPair.step_ok c h
    | conv => exact ⟨VOk.ofTree _, VOk.ofTree _⟩

theorem Pair.run_ok {p : Pair} (cs : List PCmd) (h : p.Ok) : (p.run cs).Ok := by
  unfold Pair.run
  induction cs generalizing p with
  | nil => exact h
  | cons c t ih => exact ih (Pair.step_ok c h)

/-! ### the register machine (any number of live sketches, copies next to their sources) -/

def Sk.Ok : Sk → Prop
  | .v x => VOk x
  | .t x => TOk x

/-- every register's cache is empty or the digest of that register's own contents -/
def RegsOk (rs : List Sk) : Prop := ∀ s ∈ rs, s.Ok

theorem RegsOk.set {rs : List Sk} {s : Sk} (i : Nat) (h : RegsOk rs) (hs : s.Ok) : RegsOk (rs.set i s) := by
  intro x hx
  rcases List.mem_or_eq_of_mem_set hx with h' | h'
  · exact h x h'
  · exact h' ▸ hs

theorem RegsOk.setV {rs : List Sk} {x : Vec} (i : Nat) (h : RegsOk rs) (hs : VOk x) : RegsOk (rs.set i (.v x)) :=
  h.set i hs

theorem RegsOk.setT {rs : List Sk} {x : Tree} (i : Nat) (h : RegsOk rs) (hs : TOk x) : RegsOk (rs.set i (.t x)) :=
  h.set i hs

theorem RegsOk.get {rs : List Sk} {s : Sk} {i : Nat} (h : RegsOk rs) (e : rs[i]? = some s) : s.Ok :=
  h s (List.mem_of_getElem? e)

theorem Sk.clone_ok {s : Sk} (h : s.Ok) : s.clone.1.Ok ∧ s.clone.2.Ok := by
  cases s with
  | v x => exact ⟨(Vec.clone_spec h).2.2.2.1, (Vec.clone_spec h).2.2.2.2.1⟩
  | t x => exact ⟨(Tree.clone_spec h).2.2.2.1, (Tree.clone_spec h).2.2.2.2.1⟩

theorem Sk.serde_ok {s : Sk} (h : s.Ok) : s.serde.1.Ok ∧ s.serde.2.Ok := by
  cases s with
  | v x => exact ⟨(Vec.serde_spec h).2.2.2.1, (Vec.serde_spec h).2.2.2.2⟩
  | t x => exact ⟨(Tree.serde_spec h).2.2.2.1, (Tree.serde_spec h).2.2.2.2⟩

theorem Sk.conv_ok (s : Sk) : s.conv.Ok := by
  cases s with
  | v x => exact TOk.ofVec x
  | t x => exact VOk.ofTree x

theorem Sk.md5sum_spec {s : Sk} (h : s.Ok) :
    s.md5sum.1 = Md5.digest s.ksize s.mins ∧ s.md5sum.2.Ok ∧ s.md5sum.2.mins = s.mins
      ∧ s.md5sum.2.ksize = s.ksize := by
  cases s with
  | v x => exact ⟨(Vec.md5sum_spec h).1, VOk.md5sum h, (Vec.md5sum_spec h).2.2.1, (Vec.md5sum_spec h).2.2.2.1⟩
  | t x => exact ⟨(Tree.md5sum_spec h).1, TOk.md5sum h, (Tree.md5sum_spec h).2.2.1, (Tree.md5sum_spec h).2.2.2.1⟩

/-- a copy holds its source's ksize and hashes at the moment it is taken -/
theorem Sk.clone_same (s : Sk) : s.clone.1.mins = s.mins ∧ s.clone.1.ksize = s.ksize := by
  cases s <;> exact ⟨rfl, rfl⟩

theorem Sk.serde_same (s : Sk) : s.serde.1.mins = s.mins ∧ s.serde.1.ksize = s.ksize := by
  cases s <;> exact ⟨rfl, rfl⟩

theorem Sk.conv_same (s : Sk) : s.conv.mins = s.mins ∧ s.conv.ksize = s.ksize := by
  cases s <;> exact ⟨rfl, rfl⟩

/-- one command keeps every register consistent -/
theorem regsStep_ok {rs : List Sk} (c : RCmd) (h : RegsOk rs) : RegsOk (regsStep rs c).1 := by
  cases c with
  | on i j op =>
    simp only [regsStep]
    split
    · exact h
    · split
      · next t s hi hj =>
        have := vecOp_ok op (t := t) (s := s) (h.get hi) (h.get hj)
        exact (h.setV i this.1).setV j this.2
      · next t s hi hj =>
        have := treeOp_ok op (t := t) (s := s) (h.get hi) (h.get hj)
        exact (h.setT i this.1).setT j this.2
      · next t s hi hj =>
        split
        · exact h
        · exact h.setV i (vecOp_ok op (t := t) (s := t) (h.get hi) (h.get hi)).1
      · next t s hi hj =>
        split
        · exact h
        · exact h.setT i (treeOp_ok op (t := t) (s := t) (h.get hi) (h.get hi)).1
      · exact h
  | eq i j =>
    simp only [regsStep]
    split
    · exact h
    · split
      · next a b hi hj =>
        have := Vec.eq_spec (s := a) (o := b) (h.get hi) (h.get hj)
        exact (h.setV i this.2.1).setV j this.2.2.1
      · next a b hi hj =>
        have := Tree.eq_spec (s := a) (o := b) (h.get hi) (h.get hj)
        exact (h.setT i this.2.1).setT j this.2.2.1
      · exact h
  | dup i j =>
    simp only [regsStep]
    split
    · exact h
    · split
      · next s hi => exact (h.set i (Sk.clone_ok (h.get hi)).2).set j (Sk.clone_ok (h.get hi)).1
      · exact h
  | serdeTo i j =>
    simp only [regsStep]
    split
    · exact h
    · split
      · next s hi => exact (h.set i (Sk.serde_ok (h.get hi)).2).set j (Sk.serde_ok (h.get hi)).1
      · exact h
  | convTo i j c =>
    simp only [regsStep]
    split
    · exact h
    · split
      · next s hi =>
        split
        · exact (h.set i (Sk.clone_ok (h.get hi)).2).set j (Sk.conv_ok _)
        · split
          · exact h.set j (Sk.conv_ok _)
          · exact h
      · exact h
  | conv i =>
    simp only [regsStep]
    split
    · exact h.set i (Sk.conv_ok _)
    · exact h

theorem regsRun_ok {rs : List Sk} (cs : List RCmd) (h : RegsOk rs) : RegsOk (regsRun rs cs) := by
  unfold regsRun
  induction cs generalizing rs with
  | nil => exact h
  | cons c t ih => exact ih (regsStep_ok c h)

/-- frame: a command on registers `i` and `j` leaves every other register exactly as it was
    (hashes AND cache) — in particular a copy is not touched by what happens to its source, nor
    the source by what happens to the copy -/
theorem regsStep_frame {rs : List Sk} (i j k : Nat) (op : Op) (hi : k ≠ i) (hj : k ≠ j) :
    (regsStep rs (.on i j op)).1[k]? = rs[k]? := by
  simp only [regsStep]
  split
  · rfl
  · split
    · rw [List.getElem?_set_ne (Ne.symm hj), List.getElem?_set_ne (Ne.symm hi)]
    · rw [List.getElem?_set_ne (Ne.symm hj), List.getElem?_set_ne (Ne.symm hi)]
    · split
      · rfl
      · rw [List.getElem?_set_ne (Ne.symm hi)]
    · split
      · rfl
      · rw [List.getElem?_set_ne (Ne.symm hi)]
    · rfl

end Md5Cache

/-! ### the ksize is part of the digested bytes -/
namespace Md5

def dval (l : List Nat) (a : Nat) : Nat := l.foldl (fun a d => 10 * a + d) a

theorem digitsAux_val (fuel n : Nat) (acc : List Nat) (h : n < fuel) :
    dval (digitsAux fuel n acc) 0 = dval acc n := by
  induction fuel generalizing n acc with
  | zero => omega
  | succ f ih =>
    unfold digitsAux
    split
    · simp [dval]
    · rw [ih (n / 10) (n % 10 :: acc) (by omega)]
      show dval acc (10 * (n / 10) + n % 10) = dval acc n
      congr 1; omega

theorem digits_val (n : Nat) : dval (digits n) 0 = n := by
  unfold digits
  rw [digitsAux_val _ _ _ (by omega)]
  rfl

theorem digitsAux_lt (fuel n : Nat) (acc : List Nat) (hacc : ∀ d ∈ acc, d < 10) :
    ∀ d ∈ digitsAux fuel n acc, d < 10 := by
  induction fuel generalizing n acc with
  | zero => unfold digitsAux; exact hacc
  | succ f ih =>
    unfold digitsAux
    split
    · intro d hd
      cases hd with
      | head => assumption
      | tail _ h => exact hacc d h
    · apply ih
      intro d hd
      cases hd with
      | head => omega
      | tail _ h => exact hacc d h

theorem digits_lt (n : Nat) : ∀ d ∈ digits n, d < 10 :=
  digitsAux_lt _ _ _ (fun _ h => by cases h)

theorem byte_inj {a b : Nat} (ha : a < 10) (hb : b < 10) (h : UInt8.ofNat (48 + a) = UInt8.ofNat (48 + b)) : a = b := by
  have := congrArg UInt8.toNat h
  simp [UInt8.toNat_ofNat'] at this
  omega

theorem map_byte_inj : ∀ {l1 l2 : List Nat}, (∀ d ∈ l1, d < 10) → (∀ d ∈ l2, d < 10) →
    l1.map (fun d => UInt8.ofNat (48 + d)) = l2.map (fun d => UInt8.ofNat (48 + d)) → l1 = l2
  | [], [], _, _, _ => rfl
  | [], _ :: _, _, _, h => by simp at h
  | _ :: _, [], _, _, h => by simp at h
  | a :: t1, b :: t2, h1, h2, h => by
    simp only [List.map_cons, List.cons.injEq] at h
    have hab := byte_inj (h1 a (List.mem_cons_self ..)) (h2 b (List.mem_cons_self ..)) h.1
    have ht := map_byte_inj (fun d hd => h1 d (List.mem_cons_of_mem _ hd)) (fun d hd => h2 d (List.mem_cons_of_mem _ hd)) h.2
    rw [hab, ht]

/-- the ksize is part of what is digested: with the SAME hashes, different ksizes give different
    preimages -/
theorem preimage_ksize_inj {k1 k2 : Nat} {mins : List Nat} (h : preimage k1 mins = preimage k2 mins) : k1 = k2 := by
  unfold preimage preimageDigits at h
  rw [List.map_append, List.map_append] at h
  have h' := List.append_cancel_right h
  have hd := map_byte_inj (digits_lt k1) (digits_lt k2) h'
  rw [← digits_val k1, ← digits_val k2, hd]

end Md5
