import Sourmash.Model.Md5Cache
/-! Lemmas/Md5Cache.lean — every operation of both sketch models keeps the md5 cache either empty or
equal to the digest of the current (ksize, hashes).  Core Lean only. -/
namespace Md5Cache
open MH

/-- the cache invariant of the vector type -/
def VOk (s : Vec) : Prop := s.md5 = none ∨ s.md5 = some s.digest
/-- the cache invariant of the tree type -/
def TOk (s : Tree) : Prop := s.md5 = none ∨ s.md5 = some s.digest

/-! ### vector type -/

theorem VOk.reset (s : Vec) : VOk s.reset := Or.inl rfl

theorem VOk.same {s s' : Vec} (hm : s'.md5 = s.md5) (hmins : s'.mins = s.mins) (hk : s'.ksize = s.ksize)
    (h : VOk s) : VOk s' := by
  unfold VOk Vec.digest at *
  rw [hm, hmins, hk]; exact h

theorem VOk.new (num mh : Nat) (t : Bool) (k : Nat) : VOk (Vec.new num mh t k) := Or.inl rfl

/-- a sketch loaded with the digest of the hashes stored next to it -/
theorem VOk.loaded (s : Vec) (h : s.md5 = some s.digest) : VOk s := Or.inr h

theorem VOk.remove {s : Vec} (h : Nat) (hs : VOk s) : VOk (s.remove h) := by
  unfold Vec.remove
  simp only []
  split
  · exact VOk.reset _
  · exact hs

theorem VOk.removeMany {s : Vec} (hs : List Nat) (h : VOk s) : VOk (s.removeMany hs) := by
  unfold Vec.removeMany
  induction hs generalizing s with
  | nil => exact h
  | cons x t ih => exact ih (VOk.remove x h)

theorem VOk.add {s : Vec} (h a : Nat) (hs : VOk s) : VOk (s.add h a) := by
  unfold Vec.add
  split
  · exact hs
  split
  · exact hs
  split
  · exact VOk.remove h hs
  split
  · exact VOk.reset _
  simp only []
  split
  · split
    · exact VOk.reset _
    · split
      · split
        · exact VOk.reset _
        · exact VOk.reset _
      · exact VOk.same rfl rfl rfl hs
  · exact hs

theorem VOk.set {s : Vec} (h a : Nat) (hs : VOk s) : VOk (s.set h a) := by
  unfold Vec.set
  simp only []
  split
  · exact VOk.same rfl rfl rfl hs
  · exact VOk.add h a hs

theorem VOk.clear (s : Vec) : VOk s.clear := VOk.reset _

theorem VOk.merge (s o : Vec) : VOk (s.merge o) := by
  unfold Vec.merge
  simp only []
  split <;> exact VOk.reset _

theorem VOk.mergeChecked {s o t : Vec} (h : s.mergeChecked o = .ok t) : VOk t := by
  unfold Vec.mergeChecked at h
  split at h
  · cases h
  · cases h; exact VOk.merge s o

theorem VOk.enable {s t : Vec} (hs : VOk s) (h : s.enableAbundance = .ok t) : VOk t := by
  unfold Vec.enableAbundance at h
  split at h
  · cases h
  · cases h; exact VOk.same rfl rfl rfl hs

theorem VOk.disable {s : Vec} (hs : VOk s) : VOk s.disableAbundance := VOk.same rfl rfl rfl hs

theorem VOk.inflate {s o t : Vec} (h : s.inflate o = .ok t) : VOk t := by
  unfold Vec.inflate at h
  split at h
  · cases h
  · cases h; exact VOk.reset _

/-- `md5sum` reports the digest of the current contents, fills the cache and changes nothing else -/
theorem Vec.md5sum_spec {s : Vec} (hs : VOk s) :
    s.md5sum.1 = s.digest ∧ s.md5sum.2.md5 = some s.digest
      ∧ s.md5sum.2.mins = s.mins ∧ s.md5sum.2.ksize = s.ksize ∧ s.md5sum.2.abunds = s.abunds := by
  unfold Vec.md5sum
  rcases hs with h | h
  · simp only [h]; exact ⟨trivial, trivial, trivial, trivial, trivial⟩
  · simp only [h]; exact ⟨trivial, trivial, trivial, trivial, trivial⟩

theorem Vec.md5sum_digest (s : Vec) : s.md5sum.2.digest = s.digest := by
  unfold Vec.md5sum
  split <;> rfl

theorem VOk.md5sum {s : Vec} (hs : VOk s) : VOk s.md5sum.2 := by
  have h := Vec.md5sum_spec hs
  right; rw [h.2.1, Vec.md5sum_digest]

/-- the clone holds the same (ksize, hashes) and the digest of them; the source stays consistent -/
theorem Vec.clone_spec {s : Vec} (hs : VOk s) :
    s.clone.1.mins = s.mins ∧ s.clone.1.ksize = s.ksize ∧ s.clone.1.md5 = some s.digest
      ∧ VOk s.clone.1 ∧ VOk s.clone.2 ∧ s.clone.2.mins = s.mins ∧ s.clone.2.ksize = s.ksize := by
  have h := Vec.md5sum_spec hs
  refine ⟨rfl, rfl, ?_, ?_, VOk.md5sum hs, h.2.2.1, h.2.2.2.1⟩
  · show some s.md5sum.1 = some s.digest
    rw [h.1]
  · right
    show some s.md5sum.1 = some s.digest
    rw [h.1]

theorem Vec.eq_spec {s o : Vec} (hs : VOk s) (ho : VOk o) :
    (s.eq o).1 = (s.digest == o.digest) ∧ VOk (s.eq o).2.1 ∧ VOk (s.eq o).2.2
      ∧ (s.eq o).2.1.mins = s.mins ∧ (s.eq o).2.2.mins = o.mins := by
  have h1 := Vec.md5sum_spec hs
  have h2 := Vec.md5sum_spec ho
  unfold Vec.eq
  simp only []
  refine ⟨?_, VOk.md5sum hs, VOk.md5sum ho, h1.2.2.1, h2.2.2.1⟩
  rw [h1.1, h2.1]

/-- one machine op keeps both sketches consistent -/
theorem vecOp_ok {t s : Vec} (op : Op) (ht : VOk t) (hs : VOk s) :
    VOk (vecOp t s op).1 ∧ VOk (vecOp t s op).2.1 := by
  cases op with
  | add h a => exact ⟨VOk.add h a ht, hs⟩
  | set h a => exact ⟨VOk.set h a ht, hs⟩
  | remove h => exact ⟨VOk.remove h ht, hs⟩
  | removeMany l => exact ⟨VOk.removeMany l ht, hs⟩
  | clear => exact ⟨VOk.clear t, hs⟩
  | merge =>
    simp only [vecOp]
    split
    · next t' h => exact ⟨VOk.mergeChecked h, hs⟩
    · exact ⟨ht, hs⟩
  | enable =>
    simp only [vecOp]
    split
    · next t' h => exact ⟨VOk.enable ht h, hs⟩
    · exact ⟨ht, hs⟩
  | disable => exact ⟨VOk.disable ht, hs⟩
  | inflate =>
    simp only [vecOp]
    split
    · exact ⟨ht, hs⟩
    · split
      · next t' h => exact ⟨VOk.inflate h, hs⟩
      · exact ⟨ht, hs⟩
  | md5 => exact ⟨VOk.md5sum ht, hs⟩
  | clone => exact ⟨(Vec.clone_spec ht).2.2.2.1, hs⟩
  | copy => exact ⟨(Vec.clone_spec ht).2.2.2.2.1, (Vec.clone_spec ht).2.2.2.1⟩

/-- what an observer op answers: the digest of the contents of the sketch it reports on -/
theorem vecOp_digest {t s : Vec} (ht : VOk t) :
    (vecOp t s .md5).2.2 = .digest t.digest ∧ (vecOp t s .md5).1.mins = t.mins
    ∧ (vecOp t s .clone).2.2 = .digest t.digest ∧ (vecOp t s .clone).1.mins = t.mins
    ∧ (vecOp t s .copy).2.2 = .digest t.digest ∧ (vecOp t s .copy).2.1.mins = t.mins := by
  have h := Vec.md5sum_spec ht
  have hc := Vec.clone_spec ht
  have hcm : t.clone.1.md5sum.1 = t.digest := by
    unfold Vec.md5sum; rw [hc.2.2.1]
  refine ⟨?_, h.2.2.1, ?_, hc.1, ?_, hc.1⟩
  · simp only [vecOp, h.1]
  · simp only [vecOp, hcm]
  · simp only [vecOp, hcm]

def VPair.Ok (p : VPair) : Prop := VOk p.main ∧ VOk p.other

theorem VPair.step_ok {p : VPair} (c : Cmd) (h : p.Ok) : (p.step c).1.Ok := by
  cases c with
  | on w op =>
    cases w with
    | false => exact vecOp_ok op h.1 h.2
    | true => exact ⟨(vecOp_ok op h.2 h.1).2, (vecOp_ok op h.2 h.1).1⟩
  | eq => exact ⟨(Vec.eq_spec h.1 h.2).2.1, (Vec.eq_spec h.1 h.2).2.2.1⟩

theorem VPair.run_ok {p : VPair} (cs : List Cmd) (h : p.Ok) : (p.run cs).Ok := by
  unfold VPair.run
  induction cs generalizing p with
  | nil => exact h
  | cons c t ih => exact ih (VPair.step_ok c h)

/-! ### tree type -/

theorem TOk.reset (s : Tree) : TOk s.reset := Or.inl rfl

theorem TOk.same {s s' : Tree} (hm : s'.md5 = s.md5) (hmins : s'.mins = s.mins) (hk : s'.ksize = s.ksize)
    (h : TOk s) : TOk s' := by
  unfold TOk Tree.digest at *
  rw [hm, hmins, hk]; exact h

theorem TOk.new (num mh : Nat) (t : Bool) (k : Nat) : TOk (Tree.new num mh t k) := Or.inl rfl

theorem TOk.loaded (s : Tree) (h : s.md5 = some s.digest) : TOk s := Or.inr h

theorem TOk.ite {c : Prop} [Decidable c] {a b : Tree} (ha : TOk a) (hb : TOk b) :
    TOk (if c then a else b) := by
  split <;> assumption

theorem TOk.removeFromSet {s : Tree} (h : Nat) (hs : TOk s) : TOk (s.removeFromSet h) := by
  unfold Tree.removeFromSet
  exact TOk.ite (TOk.reset _) hs

theorem TOk.remove {s : Tree} (h : Nat) (hs : TOk s) : TOk (s.remove h) := by
  unfold Tree.remove
  exact TOk.ite (TOk.same rfl rfl rfl (TOk.removeFromSet h hs)) (TOk.removeFromSet h hs)

theorem TOk.removeMany {s : Tree} (hs : List Nat) (h : TOk s) : TOk (s.removeMany hs) := by
  unfold Tree.removeMany
  induction hs generalizing s with
  | nil => exact h
  | cons x t ih => exact ih (TOk.remove x h)

theorem TOk.insertHash {s : Tree} (h a : Nat) (hs : TOk s) : TOk (s.insertHash h a) := by
  unfold Tree.insertHash
  exact TOk.same rfl rfl rfl (TOk.ite (TOk.reset _) hs)

theorem TOk.add {s : Tree} (h a : Nat) (hs : TOk s) : TOk (s.add h a) := by
  unfold Tree.add
  exact TOk.ite hs (TOk.ite hs (TOk.ite hs (TOk.ite (TOk.reset _)
    (TOk.ite (TOk.ite (TOk.reset _) (TOk.insertHash h a hs)) hs))))

theorem TOk.clear (s : Tree) : TOk s.clear := TOk.reset _

theorem TOk.merge (s o : Tree) : TOk (s.merge o) := TOk.reset _

theorem TOk.mergeChecked {s o t : Tree} (h : s.mergeChecked o = .ok t) : TOk t := by
  unfold Tree.mergeChecked at h
  split at h
  · cases h
  · cases h; exact TOk.merge s o

theorem TOk.enable {s t : Tree} (hs : TOk s) (h : s.enableAbundance = .ok t) : TOk t := by
  unfold Tree.enableAbundance at h
  split at h
  · cases h
  · cases h; exact TOk.same rfl rfl rfl hs

theorem TOk.disable {s : Tree} (hs : TOk s) : TOk s.disableAbundance := TOk.same rfl rfl rfl hs

theorem Tree.md5sum_spec {s : Tree} (hs : TOk s) :
    s.md5sum.1 = s.digest ∧ s.md5sum.2.md5 = some s.digest
      ∧ s.md5sum.2.mins = s.mins ∧ s.md5sum.2.ksize = s.ksize ∧ s.md5sum.2.abunds = s.abunds := by
  unfold Tree.md5sum
  rcases hs with h | h
  · simp only [h]; exact ⟨trivial, trivial, trivial, trivial, trivial⟩
  · simp only [h]; exact ⟨trivial, trivial, trivial, trivial, trivial⟩

theorem Tree.md5sum_digest (s : Tree) : s.md5sum.2.digest = s.digest := by
  unfold Tree.md5sum
  split <;> rfl

theorem TOk.md5sum {s : Tree} (hs : TOk s) : TOk s.md5sum.2 := by
  have h := Tree.md5sum_spec hs
  right; rw [h.2.1, Tree.md5sum_digest]

theorem Tree.clone_spec {s : Tree} (hs : TOk s) :
    s.clone.1.mins = s.mins ∧ s.clone.1.ksize = s.ksize ∧ s.clone.1.md5 = some s.digest
      ∧ TOk s.clone.1 ∧ TOk s.clone.2 ∧ s.clone.2.mins = s.mins ∧ s.clone.2.ksize = s.ksize := by
  have h := Tree.md5sum_spec hs
  refine ⟨rfl, rfl, ?_, ?_, TOk.md5sum hs, h.2.2.1, h.2.2.2.1⟩
  · show some s.md5sum.1 = some s.digest
    rw [h.1]
  · right
    show some s.md5sum.1 = some s.digest
    rw [h.1]

theorem Tree.eq_spec {s o : Tree} (hs : TOk s) (ho : TOk o) :
    (s.eq o).1 = (s.digest == o.digest) ∧ TOk (s.eq o).2.1 ∧ TOk (s.eq o).2.2
      ∧ (s.eq o).2.1.mins = s.mins ∧ (s.eq o).2.2.mins = o.mins := by
  have h1 := Tree.md5sum_spec hs
  have h2 := Tree.md5sum_spec ho
  unfold Tree.eq
  simp only []
  refine ⟨?_, TOk.md5sum hs, TOk.md5sum ho, h1.2.2.1, h2.2.2.1⟩
  rw [h1.1, h2.1]

theorem treeOp_ok {t s : Tree} (op : Op) (ht : TOk t) (hs : TOk s) :
    TOk (treeOp t s op).1 ∧ TOk (treeOp t s op).2.1 := by
  cases op with
  | add h a => exact ⟨TOk.add h a ht, hs⟩
  | set h a => exact ⟨ht, hs⟩
  | remove h => exact ⟨TOk.remove h ht, hs⟩
  | removeMany l => exact ⟨TOk.removeMany l ht, hs⟩
  | clear => exact ⟨TOk.clear t, hs⟩
  | merge =>
    simp only [treeOp]
    split
    · next t' h => exact ⟨TOk.mergeChecked h, hs⟩
    · exact ⟨ht, hs⟩
  | enable =>
    simp only [treeOp]
    split
    · next t' h => exact ⟨TOk.enable ht h, hs⟩
    · exact ⟨ht, hs⟩
  | disable => exact ⟨TOk.disable ht, hs⟩
  | inflate => exact ⟨ht, hs⟩
  | md5 => exact ⟨TOk.md5sum ht, hs⟩
  | clone => exact ⟨(Tree.clone_spec ht).2.2.2.1, hs⟩
  | copy => exact ⟨(Tree.clone_spec ht).2.2.2.2.1, (Tree.clone_spec ht).2.2.2.1⟩

theorem treeOp_digest {t s : Tree} (ht : TOk t) :
    (treeOp t s .md5).2.2 = .digest t.digest ∧ (treeOp t s .md5).1.mins = t.mins
    ∧ (treeOp t s .clone).2.2 = .digest t.digest ∧ (treeOp t s .clone).1.mins = t.mins
    ∧ (treeOp t s .copy).2.2 = .digest t.digest ∧ (treeOp t s .copy).2.1.mins = t.mins := by
  have h := Tree.md5sum_spec ht
  have hc := Tree.clone_spec ht
  have hcm : t.clone.1.md5sum.1 = t.digest := by
    unfold Tree.md5sum; rw [hc.2.2.1]
  refine ⟨?_, h.2.2.1, ?_, hc.1, ?_, hc.1⟩
  · simp only [treeOp, h.1]
  · simp only [treeOp, hcm]
  · simp only [treeOp, hcm]

def TPair.Ok (p : TPair) : Prop := TOk p.main ∧ TOk p.other

theorem TPair.step_ok {p : TPair} (c : Cmd) (h : p.Ok) : (p.step c).1.Ok := by
  cases c with
  | on w op =>
    cases w with
    | false => exact treeOp_ok op h.1 h.2
    | true => exact ⟨(treeOp_ok op h.2 h.1).2, (treeOp_ok op h.2 h.1).1⟩
  | eq => exact ⟨(Tree.eq_spec h.1 h.2).2.1, (Tree.eq_spec h.1 h.2).2.2.1⟩

theorem TPair.run_ok {p : TPair} (cs : List Cmd) (h : p.Ok) : (p.run cs).Ok := by
  unfold TPair.run
  induction cs generalizing p with
  | nil => exact h
  | cons c t ih => exact ih (TPair.step_ok c h)

end Md5Cache
