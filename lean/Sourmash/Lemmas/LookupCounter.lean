import Sourmash.Model.Index
import Sourmash.Spec.Index
/-! Lemmas/LookupCounter.lean (C07) — counters as finite maps: `tally` counts occurrences, counters with
ascending keys and positive counts are determined by their lookups, the reference counter of
Spec/Index.lean is one of them.  Core Lean only. -/
namespace RevIdx

/-- the count a counter holds for `d` (0 when absent) -/
def cget (cnt : List (Nat × Nat)) (d : Nat) : Nat := (cnt.lookup d).getD 0

/-- ascending keys, positive counts -/
def CounterWF (cnt : List (Nat × Nat)) : Prop :=
  cnt.Pairwise (fun a b => a.1 < b.1) ∧ ∀ e ∈ cnt, 0 < e.2

theorem lookup_none_of_lt {d : Nat} : ∀ {l : List (Nat × Nat)}, (∀ e ∈ l, d < e.1) → l.lookup d = none
  | [], _ => rfl
  | (k, v) :: t, h => by
    have hk : d < k := h (k, v) (by simp)
    have : (d == k) = false := by simp; omega
    rw [List.lookup_cons, this]
    exact lookup_none_of_lt (fun e he => h e (by simp [he]))

theorem cget_cons (k v : Nat) (t : List (Nat × Nat)) (d : Nat) :
    cget ((k, v) :: t) d = if d = k then v else cget t d := by
  unfold cget
  rw [List.lookup_cons]
  by_cases h : d = k
  · simp [h]
  · have : (d == k) = false := by simp [h]
    simp [this, h]

theorem key_counterAdd {d : Nat} : ∀ {l : List (Nat × Nat)} {x : Nat × Nat},
    x ∈ counterAdd d l → x.1 = d ∨ ∃ y ∈ l, y.1 = x.1
  | [], x, h => by simp [counterAdd] at h; simp [h]
  | (e, n) :: t, x, h => by
    simp only [counterAdd] at h
    split at h
    · rcases List.mem_cons.mp h with rfl | h
      · simp
      · exact Or.inr ⟨x, h, rfl⟩
    · split at h
      · rcases List.mem_cons.mp h with rfl | h
        · exact Or.inr ⟨(e, n), by simp, rfl⟩
        · exact Or.inr ⟨x, by simp [h], rfl⟩
      · rcases List.mem_cons.mp h with rfl | h
        · exact Or.inr ⟨(e, n), by simp, rfl⟩
        · rcases key_counterAdd h with h | ⟨y, hy, e'⟩
          · exact Or.inl h
          · exact Or.inr ⟨y, by simp [hy], e'⟩

theorem wf_counterAdd {d : Nat} : ∀ {l : List (Nat × Nat)}, CounterWF l → CounterWF (counterAdd d l)
  | [], _ => by simp [counterAdd, CounterWF]
  | (e, n) :: t, h => by
    have ⟨hp, hpos⟩ := h
    have ⟨he, ht⟩ := List.pairwise_cons.mp hp
    simp only [counterAdd]
    split
    · rename_i hd
      refine ⟨List.pairwise_cons.mpr ⟨?_, hp⟩, ?_⟩
      · intro b hb
        rcases List.mem_cons.mp hb with rfl | hb
        · exact hd
        · exact Nat.lt_trans hd (he b hb)
      · intro x hx
        rcases List.mem_cons.mp hx with rfl | hx
        · simp
        · exact hpos x hx
    · split
      · refine ⟨List.pairwise_cons.mpr ⟨he, ht⟩, ?_⟩
        intro x hx
        rcases List.mem_cons.mp hx with rfl | hx
        · simp
        · exact hpos x (by simp [hx])
      · rename_i h1 h2
        have ih := wf_counterAdd (d := d) (l := t) ⟨ht, fun x hx => hpos x (by simp [hx])⟩
        refine ⟨List.pairwise_cons.mpr ⟨?_, ih.1⟩, ?_⟩
        · intro b hb
          rcases key_counterAdd hb with h | ⟨y, hy, e'⟩
          · simp only [h]; omega
          · rw [← e']; exact he y hy
        · intro x hx
          rcases List.mem_cons.mp hx with rfl | hx
          · exact hpos _ (by simp)
          · exact ih.2 x hx

theorem cget_eq_zero_of_lt {d : Nat} {l : List (Nat × Nat)} (h : ∀ e ∈ l, d < e.1) : cget l d = 0 := by
  simp [cget, lookup_none_of_lt h]

theorem cget_counterAdd {d : Nat} (x : Nat) : ∀ {l : List (Nat × Nat)}, l.Pairwise (fun a b => a.1 < b.1) →
    cget (counterAdd d l) x = cget l x + (if x = d then 1 else 0)
  | [], _ => by
    simp only [counterAdd, cget_cons]
    by_cases hx : x = d <;> simp [hx, cget]
  | (e, n) :: t, hp => by
    have ⟨he, ht⟩ := List.pairwise_cons.mp hp
    simp only [counterAdd]
    split
    · rename_i hd
      rw [cget_cons]
      by_cases hx : x = d
      · subst hx
        have : cget ((e, n) :: t) x = 0 := cget_eq_zero_of_lt (by
          intro b hb
          rcases List.mem_cons.mp hb with rfl | hb
          · exact hd
          · exact Nat.lt_trans hd (he b hb))
        simp [this]
      · simp [hx]
    · split
      · rename_i h1 h2
        subst h2
        rw [cget_cons, cget_cons]
        by_cases hx : x = d <;> simp [hx]
      · rename_i h1 h2
        rw [cget_cons, cget_cons, cget_counterAdd x ht]
        by_cases hx : x = e
        · have : ¬ x = d := by omega
          have h3 : ¬ e = d := by omega
          simp [hx, h3]
        · simp [hx]

theorem wf_tally_aux : ∀ (ids : List Nat) (acc : List (Nat × Nat)), CounterWF acc →
    CounterWF (ids.foldl (fun acc d => counterAdd d acc) acc) ∧
    ∀ x, cget (ids.foldl (fun acc d => counterAdd d acc) acc) x = cget acc x + ids.count x
  | [], acc, h => by simp [h]
  | d :: t, acc, h => by
    have ih := wf_tally_aux t (counterAdd d acc) (wf_counterAdd h)
    simp only [List.foldl_cons]
    refine ⟨ih.1, fun x => ?_⟩
    rw [ih.2 x, cget_counterAdd x h.1, List.count_cons]
    by_cases hx : x = d
    · subst hx; simp; omega
    · have : (d == x) = false := by simp; omega
      simp [hx, this]

theorem wf_tally (ids : List Nat) : CounterWF (tally ids) :=
  (wf_tally_aux ids [] ⟨List.Pairwise.nil, by simp⟩).1

theorem cget_tally (ids : List Nat) (x : Nat) : cget (tally ids) x = ids.count x := by
  have := (wf_tally_aux ids [] ⟨List.Pairwise.nil, by simp⟩).2 x
  simpa [tally, cget] using this

/-- counters with ascending keys and positive counts are determined by their lookups -/
theorem counter_ext : ∀ {a b : List (Nat × Nat)}, CounterWF a → CounterWF b → (∀ d, cget a d = cget b d) → a = b
  | [], [], _, _, _ => rfl
  | [], (k, v) :: t, _, hb, h => by
    have := h k; rw [cget_cons] at this; simp [cget] at this
    have := hb.2 (k, v) (by simp); simp at this; omega
  | (k, v) :: t, [], ha, _, h => by
    have := h k; rw [cget_cons] at this; simp [cget] at this
    have := ha.2 (k, v) (by simp); simp at this; omega
  | (k1, v1) :: ta, (k2, v2) :: tb, ha, hb, h => by
    have ⟨ha1, hta⟩ := List.pairwise_cons.mp ha.1
    have ⟨hb1, htb⟩ := List.pairwise_cons.mp hb.1
    have p1 : 0 < v1 := ha.2 (k1, v1) (by simp)
    have p2 : 0 < v2 := hb.2 (k2, v2) (by simp)
    have hk : k1 = k2 := by
      rcases Nat.lt_trichotomy k1 k2 with hlt | heq | hgt
      · have := h k1
        rw [cget_cons, if_pos rfl, cget_eq_zero_of_lt (l := (k2, v2) :: tb) (by
          intro e he
          rcases List.mem_cons.mp he with rfl | he
          · exact hlt
          · exact Nat.lt_trans hlt (hb1 e he))] at this
        omega
      · exact heq
      · have := h k2
        rw [cget_cons (k2) , if_pos rfl, cget_eq_zero_of_lt (l := (k1, v1) :: ta) (by
          intro e he
          rcases List.mem_cons.mp he with rfl | he
          · exact hgt
          · exact Nat.lt_trans hgt (ha1 e he))] at this
        omega
    subst hk
    have hv : v1 = v2 := by
      have := h k1; rw [cget_cons, cget_cons, if_pos rfl, if_pos rfl] at this; exact this
    subst hv
    congr 1
    apply counter_ext ⟨hta, fun e he => ha.2 e (by simp [he])⟩ ⟨htb, fun e he => hb.2 e (by simp [he])⟩
    intro d
    by_cases hd : d = k1
    · subst hd
      rw [cget_eq_zero_of_lt ha1, cget_eq_zero_of_lt hb1]
    · have := h d
      rw [cget_cons, cget_cons, if_neg hd, if_neg hd] at this
      exact this

/-! ### the reference counter -/

/-- generic form of `refCounter`: ascending ids, a count function, zeros dropped -/
def countsOver (is : List Nat) (f : Nat → Nat) : List (Nat × Nat) :=
  is.filterMap (fun i => if f i = 0 then none else some (i, f i))

theorem mem_countsOver {is : List Nat} {f : Nat → Nat} {e : Nat × Nat} :
    e ∈ countsOver is f ↔ e.1 ∈ is ∧ e.2 = f e.1 ∧ f e.1 ≠ 0 := by
  simp only [countsOver, List.mem_filterMap]
  constructor
  · rintro ⟨i, hi, h⟩
    split at h
    · cases h
    · cases h; exact ⟨hi, rfl, by assumption⟩
  · rintro ⟨hi, h2, h3⟩
    refine ⟨e.1, hi, ?_⟩
    rw [if_neg h3, ← h2]

theorem wf_countsOver {is : List Nat} {f : Nat → Nat} (h : is.Pairwise (· < ·)) : CounterWF (countsOver is f) := by
  constructor
  · unfold countsOver
    rw [List.pairwise_filterMap]
    refine h.imp ?_
    intro a b hab x hx y hy
    split at hx
    · cases hx
    · split at hy
      · cases hy
      · cases hx; cases hy; exact hab
  · intro e he
    have := mem_countsOver.mp he
    omega

theorem cget_countsOver {f : Nat → Nat} (d : Nat) : ∀ {is : List Nat}, is.Pairwise (· < ·) →
    cget (countsOver is f) d = if d ∈ is then f d else 0
  | [], _ => by simp [countsOver, cget]
  | i :: t, h => by
    have ⟨hi, ht⟩ := List.pairwise_cons.mp h
    have ih := cget_countsOver (f := f) d ht
    unfold countsOver at ih ⊢
    rw [List.filterMap_cons]
    split
    · rename_i hz
      split at hz
      · rename_i h0
        rw [ih]
        by_cases hd : d = i
        · subst hd
          have : d ∉ t := fun hm => by have := hi d hm; omega
          simp [this, h0]
        · simp [hd]
      · cases hz
    · rename_i hz
      split at hz
      · cases hz
      · cases hz
        rw [cget_cons, ih]
        by_cases hd : d = i
        · simp [hd]
        · simp [hd]

theorem sorted_range (n : Nat) : (List.range n).Pairwise (· < ·) := by
  simpa using List.pairwise_lt_range (n := n)

end RevIdx
