import Sourmash.Theorems.C14
import Sourmash.Lemmas.DownsampleCmp
/-! Lemmas/DownsampleClosed.lean — the facts about `max_hash_for_scaled` / `scaled_for_max_hash` that
C04's theorems take as hypotheses, in the form in which C14 (`Theorems/C14.lean`,
`Lemmas/ScaledBounds.lean`) proves them, plus the one that was not stated there: the ceiling of a
non-zero 64-bit scaled value is not 0. Core Lean only. -/
namespace Scaled

/-- `2^64 as f64 / 2^64 as f64 = 1.0` in the model -/
theorem rnDiv_one : num (rnDiv (2 ^ 64) (2 ^ 64)) = 2 ^ 52 ∧ den (rnDiv (2 ^ 64) (2 ^ 64)) = 2 ^ 52 := by
  decide

/-- the ceiling of a scaled value `1 ≤ s < 2^64` is at least 1 (`u64::MAX as f64 = 2^64` and
`s as f64 ≤ 2^64`, so the correctly rounded quotient is `≥ 1.0` and so is its truncation). -/
theorem maxHash_pos (s : Nat) (h1 : 1 ≤ s) (h2 : s < 2 ^ 64) : 1 ≤ maxHashForScaled s := by
  rcases Nat.lt_or_ge s 2 with h | h
  · have : s = 1 := by omega
    subst this; decide
  · rw [maxHash_eq s h]
    have p64 : 0 < 2 ^ 64 := Nat.pow_pos (by decide)
    have ps := rnNat_pos s (by omega)
    have hle : rnNat s ≤ 2 ^ 64 := by
      have := rnNat_mono s u64max (by omega) (by unfold u64max; omega)
      rw [rnNat_u64max] at this; exact this
    have hm := rnDiv_mono (2 ^ 64) (2 ^ 64) (2 ^ 64) (rnNat s) p64 p64 p64 ps (Nat.mul_le_mul_left _ hle)
    rw [rnDiv_one.1, rnDiv_one.2] at hm
    have hd := den_pos (rnDiv (2 ^ 64) (rnNat s))
    generalize num (rnDiv (2 ^ 64) (rnNat s)) = N at *
    generalize den (rnDiv (2 ^ 64) (rnNat s)) = D at *
    have hq : 1 ≤ N / D := by
      rw [Nat.le_div_iff_mul_le hd]
      omega
    unfold sat; split <;> omega

theorem maxHash_ne_zero (s : Nat) (h1 : 1 ≤ s) (h2 : s < 2 ^ 64) : maxHashForScaled s ≠ 0 := by
  have := maxHash_pos s h1 h2; omega

example : maxHashForScaled (2 ^ 64 - 1) = 1 := by decide

end Scaled

namespace SetOps
open Scaled SetSpec

/-- a sketch whose ceiling is `max_hash_for_scaled s` for `1 ≤ s ≤ 2^31` reports `scaled() = s`
(C14's round trip, read on the sketch) -/
theorem Sk.scaled_of_created {x : Sk} {s : Nat} (hm : x.maxHash = maxHashForScaled s)
    (h1 : 1 ≤ s) (h2 : s ≤ 2 ^ 31) : x.scaled = s := by
  show scaledForMaxHash x.maxHash = s
  rw [hm]; exact Sourmash.C14.roundtrip s h1 h2

end SetOps
