import Sourmash.Lemmas.SimilarityAng
import Sourmash.Lemmas.Binary64
import Mathlib.Analysis.SpecialFunctions.Trigonometric.Inverse
import Mathlib.Analysis.SpecialFunctions.Sqrt
import Mathlib.Tactic.Linarith
/-!
Lemmas/SimilarityReal.lean — C05, part 4 (Mathlib): Cauchy–Schwarz for the integer triple, the ideal
real-number reading of the float tails (`RealLike ℝ`), and the rounding-step facts for the one
division of `jaccard` / `containment`.
-/
namespace Similarity
open SimilaritySpec

/-! ### Cauchy–Schwarz on the walk -/

/-- Σ of the squared values of a `(hash, abundance)` list -/
def sqV : List (Nat × Nat) → Nat
  | [] => 0
  | (_, x) :: l => x * x + sqV l

theorem cauchy_step (x y D SA SB : ℕ) (h : D * D ≤ SA * SB) :
    (x * y + D) * (x * y + D) ≤ (x * x + SA) * (y * y + SB) := by
  -- 2xyD ≤ x²SB + y²SA, from (2xyD)² ≤ 4·(x²SB)(y²SA) ≤ (x²SB + y²SA)²
  have key : 2 * (x * y * D) ≤ x * x * SB + y * y * SA := by
    by_contra hlt
    simp only [not_le] at hlt
    have h2 := Nat.mul_self_lt_mul_self hlt
    have h3 : (x * y) * (x * y) * (D * D) ≤ (x * y) * (x * y) * (SA * SB) :=
      Nat.mul_le_mul_left _ h
    zify at h2 h3
    nlinarith [sq_nonneg ((x : ℤ) * x * SB - y * y * SA)]
  nlinarith [key, h]

theorem dotMerge_cauchy (A B : List (Nat × Nat)) :
    dotMerge A B * dotMerge A B ≤ sqV A * sqV B := by
  fun_induction dotMerge A B with
  | case1 B => simp
  | case2 p as => simp
  | case3 h x as k y bs hkh ih =>
    calc _ ≤ sqV ((h, x) :: as) * sqV bs := ih
      _ ≤ sqV ((h, x) :: as) * sqV ((k, y) :: bs) :=
        Nat.mul_le_mul_left _ (by simp only [sqV]; omega)
  | case4 x as k y bs hkk ih =>
    simp only [sqV]
    exact cauchy_step x y _ _ _ ih
  | case5 h x as k y bs hkh hne ih =>
    calc _ ≤ sqV as * sqV ((k, y) :: bs) := ih
      _ ≤ sqV ((h, x) :: as) * sqV ((k, y) :: bs) :=
        Nat.mul_le_mul_right _ (by simp only [sqV]; omega)

theorem sqV_zip (m ab : List Nat) (hl : ab.length = m.length) :
    sqV (m.zip ab) = SimilaritySpec.sumSq ab := by
  induction m generalizing ab with
  | nil =>
    have : ab = [] := List.eq_nil_of_length_eq_zero (by simpa using hl)
    subst this; rfl
  | cons h hs ih =>
    cases ab with
    | nil => simp at hl
    | cons x xs =>
      simp only [List.zip_cons_cons, sqV, ih xs (by simpa using hl)]
      simp [SimilaritySpec.sumSq, SimilaritySpec.sum]

theorem dot_eq_dotMerge (am aab bm bab : List Nat) (ha : Sorted am) (hb : Sorted bm)
    (hla : aab.length = am.length) (hlb : bab.length = bm.length) :
    dot am aab bm bab = dotMerge (am.zip aab) (bm.zip bab) := by
  rw [← dotLookup_eq_dot _ _ _ _ ha hlb hla,
      ← dotMerge_eq_dotLookup _ _ (sortedK_zip _ _ ha) (sortedK_zip _ _ hb)]

/-- T-cauchy on the specification's triple -/
theorem dot_cauchy (am aab bm bab : List Nat) (ha : Sorted am) (hb : Sorted bm)
    (hla : aab.length = am.length) (hlb : bab.length = bm.length) :
    dot am aab bm bab * dot am aab bm bab ≤ SimilaritySpec.sumSq aab * SimilaritySpec.sumSq bab := by
  rw [dot_eq_dotMerge am aab bm bab ha hb hla hlb, ← sqV_zip am aab hla, ← sqV_zip bm bab hlb]
  exact dotMerge_cauchy _ _

theorem dotMerge_self (A : List (Nat × Nat)) : dotMerge A A = sqV A := by
  induction A with
  | nil => simp [dotMerge, sqV]
  | cons p as ih =>
    obtain ⟨h, x⟩ := p
    rw [dotMerge]; simp [sqV, ih]

/-- identical sketches: the product is the squared norm -/
theorem dot_self (am aab : List Nat) (ha : Sorted am) (hla : aab.length = am.length) :
    dot am aab am aab = SimilaritySpec.sumSq aab := by
  rw [dot_eq_dotMerge am aab am aab ha ha hla hla, dotMerge_self, sqV_zip am aab hla]

/-- disjoint sketches: the product is 0 -/
theorem dot_disjoint (am aab bm bab : List Nat) (hd : ∀ h ∈ am, h ∉ bm) :
    dot am aab bm bab = 0 := by
  unfold dot inter
  have : am.filter (fun h => bm.contains h) = [] := by
    rw [List.filter_eq_nil_iff]
    intro h hh
    simpa using hd h hh
  rw [this]; rfl

/-! ### ideal real arithmetic -/

noncomputable instance : RealLike ℝ where
  ofNat n := (n : ℝ)
  sub := (· - ·)
  mul := (· * ·)
  div := (· / ·)
  sqrt := Real.sqrt
  acos := Real.arccos
  min := min
  pi := Real.pi
  isZero x := @decide (x = 0) (Classical.propDecidable _)

theorem jaccardTail_real (c s : ℕ) : (jaccardTail c s : ℝ) = (c : ℝ) / ((max 1 s : ℕ) : ℝ) := rfl

theorem containmentTail_real (c s : ℕ) : (containmentTail c s : ℝ) = (c : ℝ) / (s : ℝ) := rfl

theorem angularTail_real (p a b : ℕ) :
    (angularTail p a b : ℝ) =
      if Real.sqrt a = 0 ∨ Real.sqrt b = 0 then 0
      else 1 - 2 * Real.arccos (min ((p : ℝ) / (Real.sqrt a * Real.sqrt b)) 1) / Real.pi := by
  unfold angularTail
  simp only [RealLike.isZero, RealLike.sqrt, RealLike.ofNat, RealLike.sub, RealLike.mul,
    RealLike.div, RealLike.min, RealLike.acos, RealLike.pi, Bool.or_eq_true, decide_eq_true_eq,
    Nat.cast_zero, Nat.cast_one, Nat.cast_ofNat]

theorem angularTail_mem (p a b : ℕ) : 0 ≤ (angularTail p a b : ℝ) ∧ (angularTail p a b : ℝ) ≤ 1 := by
  rw [angularTail_real]
  split
  · exact ⟨le_refl _, zero_le_one⟩
  · have hpi := Real.pi_pos
    set c := min ((p : ℝ) / (Real.sqrt a * Real.sqrt b)) 1 with hc
    have hc0 : 0 ≤ c := by
      apply le_min _ zero_le_one
      exact div_nonneg (Nat.cast_nonneg _) (mul_nonneg (Real.sqrt_nonneg _) (Real.sqrt_nonneg _))
    have h1 : Real.arccos c ≤ Real.pi / 2 := Real.arccos_le_pi_div_two.mpr hc0
    have h0 : 0 ≤ Real.arccos c := Real.arccos_nonneg c
    have hq : 2 * Real.arccos c / Real.pi ≤ 1 := by
      rw [div_le_one hpi]; linarith
    have hq0 : 0 ≤ 2 * Real.arccos c / Real.pi := by positivity
    constructor <;> linarith

theorem angularTail_zero_prod (a b : ℕ) : (angularTail 0 a b : ℝ) = 0 := by
  rw [angularTail_real]
  split
  · rfl
  · have hpi := Real.pi_pos
    have : min ((((0 : ℕ) : ℝ)) / (Real.sqrt a * Real.sqrt b)) 1 = 0 := by simp
    rw [this, Real.arccos_zero]
    field_simp
    ring

theorem angularTail_self (a : ℕ) (ha : 0 < a) : (angularTail a a a : ℝ) = 1 := by
  rw [angularTail_real]
  have hpos : (0 : ℝ) < a := Nat.cast_pos.mpr ha
  have hs : Real.sqrt a ≠ 0 := (Real.sqrt_pos.mpr hpos).ne'
  simp only [hs, or_self, if_false]
  rw [Real.mul_self_sqrt hpos.le, div_self hpos.ne', min_self, Real.arccos_one]
  simp

theorem angularTail_symm (p a b : ℕ) : (angularTail p a b : ℝ) = (angularTail p b a : ℝ) := by
  rw [angularTail_real, angularTail_real, mul_comm (Real.sqrt a)]
  by_cases h : Real.sqrt a = 0 ∨ Real.sqrt b = 0
  · rw [if_pos h, if_pos (Or.symm h)]
  · rw [if_neg h, if_neg (fun h' => h (Or.symm h'))]

/-- with Cauchy–Schwarz the clamp `min(·, 1)` is the identity in ℝ: the value is
    `1 − (2/π)·arccos(cos θ)` with `cos θ = prod / √(a_sq·b_sq)` -/
theorem angularTail_cosine (p a b : ℕ) (ha : 0 < a) (hb : 0 < b) (hcs : p * p ≤ a * b) :
    (angularTail p a b : ℝ) = 1 - 2 / Real.pi * Real.arccos ((p : ℝ) / Real.sqrt ((a : ℝ) * b)) := by
  rw [angularTail_real]
  have hpa : (0 : ℝ) < a := Nat.cast_pos.mpr ha
  have hpb : (0 : ℝ) < b := Nat.cast_pos.mpr hb
  have hsa : Real.sqrt a ≠ 0 := (Real.sqrt_pos.mpr hpa).ne'
  have hsb : Real.sqrt b ≠ 0 := (Real.sqrt_pos.mpr hpb).ne'
  simp only [hsa, hsb, or_self, if_false]
  rw [← Real.sqrt_mul hpa.le]
  have hab : (0 : ℝ) < Real.sqrt ((a : ℝ) * b) := Real.sqrt_pos.mpr (mul_pos hpa hpb)
  have hle : (p : ℝ) / Real.sqrt ((a : ℝ) * b) ≤ 1 := by
    rw [div_le_one hab]
    apply Real.le_sqrt_of_sq_le
    have : ((p * p : ℕ) : ℝ) ≤ ((a * b : ℕ) : ℝ) := Nat.cast_le.mpr hcs
    push_cast at this
    nlinarith
  rw [min_eq_left hle]
  ring

/-! ### the one division of `jaccard` / `containment`, on ℝ -/

theorem ratio_mem (c s : ℕ) (hs : 0 < s) (hcs : c ≤ s) : 0 ≤ (c : ℝ) / s ∧ (c : ℝ) / s ≤ 1 := by
  have hp : (0 : ℝ) < s := Nat.cast_pos.mpr hs
  refine ⟨div_nonneg (Nat.cast_nonneg _) hp.le, ?_⟩
  rw [div_le_one hp]; exact Nat.cast_le.mpr hcs

theorem ratio_eq_one_iff (c s : ℕ) (hs : 0 < s) : (c : ℝ) / s = 1 ↔ c = s := by
  have hp : (0 : ℝ) < s := Nat.cast_pos.mpr hs
  rw [div_eq_one_iff_eq hp.ne']
  exact Nat.cast_inj

theorem ratio_eq_zero_iff (c s : ℕ) (hs : 0 < s) : (c : ℝ) / s = 0 ↔ c = 0 := by
  have hp : (0 : ℝ) < s := Nat.cast_pos.mpr hs
  rw [div_eq_zero_iff]
  constructor
  · rintro (h | h)
    · exact Nat.cast_eq_zero.mp h
    · exact absurd h hp.ne'
  · intro h; left; exact Nat.cast_eq_zero.mpr h

theorem ratio_mono (c c' s : ℕ) (hs : 0 < s) (h : c ≤ c') : (c : ℝ) / s ≤ (c' : ℝ) / s := by
  have hp : (0 : ℝ) < s := Nat.cast_pos.mpr hs
  exact div_le_div_of_nonneg_right (Nat.cast_le.mpr h) hp.le

/-! ### … and through the rounding step of a binary division (`rnStep`, Lemmas/Binary64.lean):
the quotient mantissa at scale `K = 2^k` -/

theorem rn_le_one (c s K : ℕ) (hs : 0 < s) (hcs : c ≤ s) : rnStep (c * K) s ≤ K :=
  rnStep_le _ _ _ hs (by rw [Nat.mul_comm c K]; exact Nat.mul_le_mul_left K hcs)

theorem rn_eq_one_iff (c s K : ℕ) (hs : 0 < s) (hcs : c ≤ s) (hK : s ≤ K) :
    rnStep (c * K) s = K ↔ c = s := by
  constructor
  · intro h
    by_contra hne
    have hlt : c + 1 ≤ s := by omega
    have h1 : 0 < K := by omega
    have : rnStep (c * K) s ≤ K - 1 := by
      apply rnStep_le _ _ _ hs
      -- c·K ≤ (s−1)·K ≤ (K−1)·s  since s ≤ K
      have e1 : c * K ≤ (s - 1) * K := Nat.mul_le_mul_right K (by omega)
      have e2 : (s - 1) * K ≤ (K - 1) * s := by
        obtain ⟨s', rfl⟩ : ∃ s', s = s' + 1 := ⟨s - 1, by omega⟩
        obtain ⟨K', rfl⟩ : ∃ K', K = K' + 1 := ⟨K - 1, by omega⟩
        simp only [Nat.add_sub_cancel]
        nlinarith
      omega
    omega
  · rintro rfl
    exact rnStep_exact K c hs |> fun h => by rwa [Nat.mul_comm] at h

theorem rn_mono (c c' s K : ℕ) (hs : 0 < s) (h : c ≤ c') : rnStep (c * K) s ≤ rnStep (c' * K) s :=
  rnStep_mono _ _ _ hs (Nat.mul_le_mul_right K h)

theorem rn_zero (s K : ℕ) (hs : 0 < s) : rnStep (0 * K) s = 0 := by
  have := rnStep_exact 0 s hs
  simpa using this

theorem rn_pos (c s K : ℕ) (hs : 0 < s) (h : s ≤ c * K) : 1 ≤ rnStep (c * K) s :=
  rnStep_ge _ _ _ hs (by simpa using h)

end Similarity
