import Sourmash.Lemmas.Bloom
import Sourmash.Lemmas.NodegraphRoundtrip
/-! Every nodegraph built through the API (C15's histories) is well formed in the sense of C16, so the
file-format theorems apply to it. -/
namespace NG
open Bloom

theorem Table.put_blocks_lt (t : Table) (bit : Nat) (h : ∀ x ∈ t.blocks, x < 2 ^ 32) :
    ∀ x ∈ (t.put bit).1.blocks, x < 2 ^ 32 := by
  intro x hx
  simp only [Table.put] at hx
  rcases List.mem_or_eq_of_mem_set hx with hm | rfl
  · exact h x hm
  · apply Nat.or_lt_two_pow
    · rw [List.getD_eq_getElem?_getD]
      cases hg : t.blocks[bit / 32]? with
      | none => simp
      | some y => simpa using h y (List.mem_of_getElem? hg)
    · rw [Nat.one_shiftLeft]
      exact Nat.pow_lt_pow_right (by decide) (Nat.mod_lt _ (by decide))

theorem orBlocks_lt (xs ys : List Nat) (hx : ∀ x ∈ xs, x < 2 ^ 32) (hy : ∀ y ∈ ys, y < 2 ^ 32) :
    ∀ z ∈ orBlocks xs ys, z < 2 ^ 32 := by
  induction xs generalizing ys with
  | nil => cases ys <;> simp [orBlocks]
  | cons x xs ih =>
    cases ys with
    | nil => simpa [orBlocks] using hx
    | cons y ys =>
      intro z hz
      simp only [orBlocks, List.mem_cons] at hz
      rcases hz with rfl | hz
      · exact Nat.or_lt_two_pow (hx x (by simp)) (hy y (by simp))
      · exact ih ys (fun a ha => hx a (by simp [ha])) (fun a ha => hy a (by simp [ha])) z hz

theorem Table.unionWith_blocks_lt (t o : Table) (ht : ∀ x ∈ t.blocks, x < 2 ^ 32) (ho : ∀ x ∈ o.blocks, x < 2 ^ 32) :
    ∀ x ∈ (t.unionWith o).blocks, x < 2 ^ 32 := by
  unfold Table.unionWith
  split
  · apply orBlocks_lt _ _ _ ho
    intro x hx
    simp only [List.mem_append, List.mem_replicate] at hx
    rcases hx with hx | ⟨_, rfl⟩
    · exact ht x hx
    · exact Nat.two_pow_pos 32
  · exact orBlocks_lt _ _ ht ho

theorem zipUnion_blocks_lt (ds ss : List Table) (hd : ∀ t ∈ ds, ∀ x ∈ t.blocks, x < 2 ^ 32)
    (hs : ∀ t ∈ ss, ∀ x ∈ t.blocks, x < 2 ^ 32) : ∀ t ∈ zipUnion ds ss, ∀ x ∈ t.blocks, x < 2 ^ 32 := by
  induction ds generalizing ss with
  | nil => cases ss <;> simp [zipUnion]
  | cons d ds ih =>
    cases ss with
    | nil => simpa [zipUnion] using hd
    | cons s ss =>
      intro t ht
      simp only [zipUnion, List.mem_cons] at ht
      rcases ht with rfl | ht
      · exact Table.unionWith_blocks_lt d s (hd d (by simp)) (hs s (by simp))
      · exact ih ss (fun a ha => hd a (by simp [ha])) (fun a ha => hs a (by simp [ha])) t ht

theorem Reach.blocks_lt {sizes : List Nat} {g : G} {H : List Nat} {u : Nat} (r : Reach sizes g H u) :
    ∀ t ∈ g.tables, ∀ x ∈ t.blocks, x < 2 ^ 32 := by
  induction r with
  | new k =>
    intro t ht x hx
    simp only [G.new, List.mem_map] at ht
    obtain ⟨s, _, rfl⟩ := ht
    simp only [Table.new, List.mem_replicate] at hx
    rw [hx.2]; exact Nat.two_pow_pos 32
  | count h _ ih =>
    intro t ht
    rw [count_tables] at ht
    obtain ⟨t0, ht0, rfl⟩ := List.mem_map.mp ht
    exact Table.put_blocks_lt t0 _ (ih t0 ht0)
  | update _ _ ih1 ih2 =>
    exact zipUnion_blocks_lt _ _ ih1 ih2

theorem countOnes_le (t : Table) : t.countOnes ≤ t.size := by
  unfold Table.countOnes Table.ones
  have := List.length_filter_le t.get (List.range t.size)
  simpa using this

/-- a nodegraph reached by any history over sizes in 1..2^64-1 is well formed (given ≤ 255 tables and
    a k that fits its field) -/
theorem Reach.wf {sizes : List Nat} {g : G} {H : List Nat} {u : Nat} (r : Reach sizes g H u)
    (hs : ∀ s ∈ sizes, 1 ≤ s ∧ s < 2 ^ 64) (hn : sizes.length ≤ 255) (hk : g.ksize < 2 ^ 32) : g.WF := by
  have inv := r.inv (fun s h => (hs s h).1)
  have hlen : g.tables.length = sizes.length := by rw [← inv.sizes_eq]; simp
  have hsize : ∀ t ∈ g.tables, 1 ≤ t.size ∧ t.size < 2 ^ 64 := by
    intro t ht
    apply hs
    rw [← inv.sizes_eq]
    exact List.mem_map.mpr ⟨t, ht, rfl⟩
  refine ⟨by omega, hk, ?_, ?_⟩
  · rw [inv.occ]
    cases hg : g.tables with
    | nil => simp
    | cons t ts =>
      have ht : t ∈ g.tables := by rw [hg]; simp
      have := countOnes_le t
      have := (hsize t ht).2
      simp only [List.head?_cons, Option.map_some, Option.getD_some]
      omega
  · intro t ht
    refine ⟨(hsize t ht).2, inv.len t ht, r.blocks_lt t ht, ?_⟩
    intro b hb
    rw [inv.bits t ht]
    exact refBit_lt H t.size b (hsize t ht).1 hb

/-! ### "forever": later states of a history -/

/-- `Later sizes g H u g' H' u'`: the state `g'` is reached from `g` by further `count`s and unions -/
inductive Later (sizes : List Nat) (g : G) (H : List Nat) (u : Nat) : G → List Nat → Nat → Prop
  | refl : Later sizes g H u g H u
  | count {g' : G} {H' : List Nat} {u' : Nat} (h : Nat) :
      Later sizes g H u g' H' u' →
      Later sizes g H u (g'.count h).1 (h :: H') (if (g'.count h).2 then u' + 1 else u')
  | update {g' o : G} {H' Ho : List Nat} {u' uo : Nat} :
      Later sizes g H u g' H' u' → Reach sizes o Ho uo → Later sizes g H u (g'.updateFrom o) (H' ++ Ho) u'

theorem Later.reach {sizes : List Nat} {g g' : G} {H H' : List Nat} {u u' : Nat}
    (l : Later sizes g H u g' H' u') (r : Reach sizes g H u) :
    Reach sizes g' H' u' ∧ ∀ h ∈ H, h ∈ H' := by
  induction l with
  | refl => exact ⟨r, fun _ h => h⟩
  | count h _ ih => exact ⟨Reach.count h ih.1, fun x hx => by simp [ih.2 x hx]⟩
  | update _ ro ih => exact ⟨Reach.update ih.1 ro, fun x hx => by simp [ih.2 x hx]⟩
end NG
