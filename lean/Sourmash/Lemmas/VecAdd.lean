/-! Lemmas/VecAdd.lean (prototype, core Lean) — code-shaped vector update refines the finite-map insert -/
-- Prototype: vector-type add (scaled case core) refines a finite-map spec. Core Lean only.
namespace V

/-- abstract spec: insert-with-add on a strictly increasing association list -/
def ins : List (Nat × Nat) → Nat → Nat → List (Nat × Nat)
  | [], h, a => [(h, a)]
  | (k, v) :: t, h, a =>
    if h < k then (h, a) :: (k, v) :: t
    else if h = k then (k, v + a) :: t
    else (k, v) :: ins t h a

/-- code-shaped model: position by counting smaller elements (= binary_search on a sorted vec) -/
def pos (mins : List Nat) (h : Nat) : Nat := (mins.takeWhile (· < h)).length

def insertAt (l : List α) (i : Nat) (x : α) : List α := l.take i ++ x :: l.drop i

def bump (l : List Nat) (i a : Nat) : List Nat := l.take i ++ (match l.drop i with | [] => [] | v :: t => (v + a) :: t)

def addVec (mins abunds : List Nat) (h a : Nat) : List Nat × List Nat :=
  let p := pos mins h
  if p = mins.length then (mins ++ [h], abunds ++ [a])
  else if mins.getD p 0 ≠ h then (insertAt mins p h, insertAt abunds p a)
  else (mins, bump abunds p a)

def Sorted : List Nat → Prop
  | [] => True
  | [_] => True
  | a :: b :: t => a < b ∧ Sorted (b :: t)

theorem sorted_tail {a : Nat} {t : List Nat} (h : Sorted (a :: t)) : Sorted t := by
  cases t with
  | nil => trivial
  | cons b t => exact h.2

theorem addVec_cons_gt (k : Nat) (t : List Nat) (v : Nat) (vs : List Nat) (h a : Nat) (hgt : k < h) :
    addVec (k :: t) (v :: vs) h a = (k :: (addVec t vs h a).1, v :: (addVec t vs h a).2) := by
  have hp : pos (k :: t) h = pos t h + 1 := by simp [pos, List.takeWhile, hgt]
  unfold addVec
  simp only [hp]
  by_cases hend : pos t h = t.length
  · simp [hend]
  · have hend' : ¬ (pos t h + 1 = (k :: t).length) := by simp; exact hend
    simp only [hend, hend', if_false]
    by_cases hfound : t.getD (pos t h) 0 ≠ h
    · have hf' : ¬ (t[pos t h]?.getD 0 = h) := by simpa using hfound
      simp [hf', insertAt]
    · have hf : t.getD (pos t h) 0 = h := by simpa using hfound
      have hf' : t[pos t h]?.getD 0 = h := by simpa using hf
      simp [hf', bump]

theorem addVec_refines (mins abunds : List Nat) (h a : Nat)
    (hl : abunds.length = mins.length) :
    (addVec mins abunds h a).1.zip (addVec mins abunds h a).2 = ins (mins.zip abunds) h a := by
  induction mins generalizing abunds with
  | nil =>
    cases abunds with
    | nil => simp [addVec, pos, ins]
    | cons _ _ => simp at hl
  | cons k t ih =>
    cases abunds with
    | nil => simp at hl
    | cons v vs =>
      have hl' : vs.length = t.length := by simpa using hl
      by_cases hlt : h < k
      · have hp : pos (k :: t) h = 0 := by simp [pos, List.takeWhile, Nat.not_lt.mpr (Nat.le_of_lt hlt)]
        have hne : k ≠ h := by omega
        simp [addVec, hp, insertAt, ins, hlt, hne]
      · by_cases heq : h = k
        · subst heq
          have hp : pos (h :: t) h = 0 := by simp [pos, List.takeWhile]
          simp [addVec, hp, bump, ins]
        · have hgt : k < h := by omega
          rw [addVec_cons_gt k t v vs h a hgt]
          simp [ins, hlt, heq, ih vs hl']
end V
