import Sourmash.Lemmas.Downsample
/-! Lemmas/DownsampleHybrid.lean — `downsample_scaled` of a sketch that carries a `num` bound next to its
ceiling (what `Signature::from_params` builds when `num_hashes` keeps its default, what
`KmerMinHash::new(scaled, .., num > 0)` gives).  The re-insertion still only ever hits the push-at-end
branch; the vector type never looks at `num` there, the tree type evicts only when more than `num`
hashes are held — so as long as the content fits under `num` the result is again the content filtered
by the new ceiling, with `num` carried over. -/
namespace SetOps
open SetSpec

/-- adding a hash larger than everything present to a sketch with a ceiling and room under `num` -/
theorem add_push_room (k : Kind) {t : Sk} {h a : Nat} (hr : t.num = 0 ∨ t.mins.length < t.num)
    (hM : t.maxHash ≠ 0) (hw : t.WF) (hlt : ∀ x ∈ t.mins, x < h) (ha : a ≠ 0) :
    t.add k h a = if h ≤ t.maxHash then { t with mins := t.mins ++ [h], abunds := t.abunds.map (· ++ [a]) } else t := by
  have hp := pos_eq_length hlt
  by_cases hle : h ≤ t.maxHash
  · simp only [hle, if_true]
    have hgt : ¬ (h > t.maxHash ∧ t.maxHash ≠ 0) := by omega
    have h2 : ¬ (t.num = 0 ∧ t.maxHash = 0) := by omega
    cases k with
    | vec =>
      simp only [Sk.add, Sk.addV, hgt, h2, ha, if_false]
      by_cases he : t.mins = []
      · simp [he]
      · simp only [he, if_false, hle, true_or, if_true, hp]
    | tree =>
      simp only [Sk.add, Sk.addT, hgt, h2, ha, if_false]
      by_cases he : t.mins = []
      · simp only [he, if_true, List.nil_append]
        cases hab : t.abunds with
        | none => simp
        | some ab =>
          have := hw.2 ab hab
          simp only [he, List.length_nil, List.length_eq_zero_iff] at this
          simp [this]
      · have hnew : t.mins[t.mins.length]? ≠ some h := by simp
        have hev : ¬ (t.num ≠ 0 ∧ (t.mins ++ [h]).length > t.num) := by
          simp only [List.length_append, List.length_singleton]; omega
        simp only [he, if_false, hle, true_or, if_true, hp, hnew, ne_eq,
          not_false_eq_true, insertAt_length, hev]
        cases hab : t.abunds with
        | none => simp
        | some ab =>
          have := hw.2 ab hab
          simp only [Option.map_some]
          rw [← this, insertAt_length]
  · simp only [hle, if_false]
    have hgt : (h > t.maxHash ∧ t.maxHash ≠ 0) := by omega
    cases k <;> simp [Sk.add, Sk.addV, Sk.addT, hgt]

theorem addManyAb_push_room (k : Kind) (ps : List (Nat × Nat)) (t : Sk)
    (hr : t.num = 0 ∨ t.mins.length + ps.length ≤ t.num) (hM : t.maxHash ≠ 0)
    (hw : t.WF) (hs : SInc (ps.map Prod.fst)) (hlt : ∀ x ∈ t.mins, ∀ p ∈ ps, x < p.1)
    (hpos : ∀ p ∈ ps, p.2 ≠ 0) :
    t.addManyAb k ps =
      { t with mins := t.mins ++ below t.maxHash (ps.map Prod.fst),
               abunds := t.abunds.map (· ++ (belowP t.maxHash ps).map Prod.snd) } := by
  induction ps generalizing t with
  | nil =>
    simp only [Sk.addManyAb, List.foldl_nil, below, belowP, List.map_nil, List.filter_nil, List.append_nil]
    cases t; simp
  | cons p rest ih =>
    simp only [List.map_cons] at hs
    rw [sinc_cons] at hs
    simp only [List.length_cons] at hr
    have hstep : t.addManyAb k (p :: rest) = (t.add k p.1 p.2).addManyAb k rest := by
      simp [Sk.addManyAb]
    rw [hstep, add_push_room k (by omega) hM hw (fun x hx => hlt x hx p (by simp)) (hpos p (by simp))]
    by_cases hle : p.1 ≤ t.maxHash
    · simp only [hle, if_true]
      rw [ih { t with mins := t.mins ++ [p.1], abunds := t.abunds.map (· ++ [p.2]) }
        (by simp only [List.length_append, List.length_singleton]; omega) hM
        (push_wf hw (fun x hx => hlt x hx p (by simp))) hs.2]
      · simp only [below, belowP, List.map_cons, List.filter_cons, hle, decide_true, if_true,
          List.append_assoc, List.singleton_append]
        cases t.abunds <;> simp
      · intro x hx q hq
        simp only [List.mem_append, List.mem_singleton] at hx
        rcases hx with hx | hx
        · exact hlt x hx q (by simp [hq])
        · subst hx; exact hs.1 q.1 (List.mem_map_of_mem hq)
      · intro q hq; exact hpos q (by simp [hq])
    · simp only [hle, if_false]
      rw [ih _ (by omega) hM hw hs.2 (fun x hx q hq => hlt x hx q (by simp [hq])) (fun q hq => hpos q (by simp [hq]))]
      simp [below, belowP, hle]

/-- a sketch with a ceiling whose `num` bound (if any) is not exceeded by what it holds: a scaled
sketch in every respect but the value of `num` -/
def Sk.ScaledRoom (s : Sk) : Prop :=
  s.WF ∧ (s.num = 0 ∨ s.mins.length ≤ s.num) ∧ s.maxHash ≠ 0 ∧ (∀ h ∈ s.mins, h ≤ s.maxHash) ∧
  (∀ ab, s.abunds = some ab → ∀ a ∈ ab, 0 < a)

theorem Sk.Scaled.room {s : Sk} (h : s.Scaled) : s.ScaledRoom :=
  ⟨h.1, Or.inl h.2.1, h.2.2.1, h.2.2.2.1, h.2.2.2.2⟩

theorem downsample_exact_room (k : Kind) {s : Sk} (hs : s.ScaledRoom) {s' : Nat} (h0 : s.scaled ≠ 0)
    (hlt : s.scaled < s') (hM : Scaled.maxHashForScaled s' ≠ 0) :
    downsampleScaled k s s' = .ok (belowSk (Scaled.maxHashForScaled s') s) := by
  obtain ⟨hw, hn, _, _, hpos⟩ := hs
  have c1 : ¬ (s.scaled = s' ∨ s.scaled = 0) := by omega
  have c2 : ¬ (s.scaled > s') := by omega
  simp only [downsampleScaled, c1, c2, if_false]
  cases hab : s.abunds with
  | none =>
    have ht : s.track = false := by simp [Sk.track, hab]
    simp only [ht, Bool.false_eq_true, if_false, addMany_eq]
    rw [addManyAb_push_room k _ _ (by simpa [Sk.new] using hn) (by simpa [Sk.new] using hM)]
    · simp [Sk.new, belowSk, hab, below, List.map_map, Function.comp_def]
    · exact ⟨by simp [Sk.new], by simp [Sk.new]⟩
    · simpa [List.map_map, Function.comp_def] using hw.1
    · simp [Sk.new]
    · simp
  | some ab =>
    have ht : s.track = true := by simp [Sk.track, hab]
    have hl := hw.2 ab hab
    have hk : (s.mins.zip ab).map Prod.fst = s.mins := List.map_fst_zip (by omega)
    simp only [ht, if_true, pairs_tracked hab]
    rw [addManyAb_push_room k _ _ (by simp [Sk.new]; omega) (by simpa [Sk.new] using hM)]
    · simp [Sk.new, belowSk, hab, hk]
    · refine ⟨by simp [Sk.new], ?_⟩
      intro ab' h'; simp [Sk.new] at h'; subst h'; simp [Sk.new]
    · rw [hk]; exact hw.1
    · simp [Sk.new]
    · intro p hp
      have := hpos ab hab p.2 (List.of_mem_zip hp).2
      omega

end SetOps
