/-! Lemmas/Binary64.lean (prototype, core Lean) — the three rounding lemmas C14 rests on -/
-- core-only attempt: half-ulp bound of the rounding step, cross-multiplied in Nat
def rnStep (n d : Nat) : Nat :=
  let q := n / d
  let r := n % d
  if 2 * r > d then q + 1 else if 2 * r == d then (if q % 2 == 1 then q + 1 else q) else q

theorem rnStep_err (n d : Nat) (hd : 0 < d) :
    2 * (rnStep n d * d) ≤ 2 * n + d ∧ 2 * n ≤ 2 * (rnStep n d * d) + d := by
  have h1 := Nat.div_add_mod n d
  have h2 := Nat.mod_lt n hd
  unfold rnStep
  simp only []
  generalize hq : n / d = q at *
  generalize hr : n % d = r at *
  have hm : d * q = q * d := Nat.mul_comm _ _
  have e1 : (q + 1) * d = q * d + d := by rw [Nat.add_mul, Nat.one_mul]
  split
  · rw [e1]; omega
  · split
    · split
      · rw [e1]; simp at *; omega
      · omega
    · omega

theorem rnStep_mono (n m d : Nat) (hd : 0 < d) (h : n ≤ m) : rnStep n d ≤ rnStep m d := by
  rcases Nat.lt_or_ge (rnStep m d) (rnStep n d) with hlt | hge
  · exfalso
    have ⟨a1, _⟩ := rnStep_err n d hd
    have ⟨_, b2⟩ := rnStep_err m d hd
    have hmul : (rnStep m d + 1) * d ≤ rnStep n d * d := Nat.mul_le_mul_right d hlt
    have e1 : (rnStep m d + 1) * d = rnStep m d * d + d := by rw [Nat.add_mul, Nat.one_mul]
    -- chain forces n = m, hence equal roundings
    have hnm : n = m := by omega
    subst hnm
    omega
  · exact hge

-- representable values are fixed points: if d ∣ n then rnStep n d = n / d
theorem rnStep_exact (k d : Nat) (hd : 0 < d) : rnStep (k * d) d = k := by
  unfold rnStep
  simp [Nat.mul_div_cancel _ hd, Nat.mul_mod_left]
  omega

-- the rounding step depends only on the ratio n/d
theorem rnStep_scale (c n d : Nat) (hc : 0 < c) : rnStep (c * n) (c * d) = rnStep n d := by
  unfold rnStep
  simp only [Nat.mul_div_mul_left _ _ hc, Nat.mul_mod_mul_left]
  have h1 : (2 * (c * (n % d)) > c * d) ↔ (2 * (n % d) > d) := by
    rw [Nat.mul_left_comm]; exact Nat.mul_lt_mul_left hc
  have h2 : (2 * (c * (n % d)) == c * d) = (2 * (n % d) == d) := by
    rw [Nat.mul_left_comm, Bool.eq_iff_iff]
    simp only [beq_iff_eq]
    exact ⟨fun h => Nat.eq_of_mul_eq_mul_left hc h, fun h => by rw [h]⟩
  simp only [h1, h2]

theorem rnStep_one (n : Nat) : rnStep n 1 = n := by
  have := rnStep_exact n 1 (by decide)
  simpa using this

theorem rnStep_ge (n d L : Nat) (hd : 0 < d) (h : L * d ≤ n) : L ≤ rnStep n d := by
  have := rnStep_mono (L * d) n d hd h
  rwa [rnStep_exact L d hd] at this

theorem rnStep_le (n d U : Nat) (hd : 0 < d) (h : n ≤ U * d) : rnStep n d ≤ U := by
  have := rnStep_mono n (U * d) d hd h
  rwa [rnStep_exact U d hd] at this
