import Sourmash.Lemmas.SampleVec
import Sourmash.Lemmas.SampleTree
/-! Lemmas/SampleInv.lean — the representation invariants of both sketch models, derived from the
refinement relation and the abstract invariant; the two abstract runs agree when every inserted
abundance is ≥ 1.  Core Lean only. -/
namespace Sample
open MH

/-- representation invariant of the vector-backed sketch -/
structure VInv (s : Vec) : Prop where
  /-- hashes strictly increasing -/
  sorted : Sorted s.mins
  /-- abundances aligned one-to-one with the hashes -/
  aligned : ∀ l, s.abunds = some l → l.length = s.mins.length
  /-- a num sketch holds at most `num` hashes -/
  cap : s.num > 0 → s.mins.length ≤ s.num
  /-- a scaled sketch holds only hashes up to its ceiling -/
  ceil : s.maxHash > 0 → ∀ h ∈ s.mins, h ≤ s.maxHash

/-- representation invariant of the tree-backed sketch -/
structure TInv (s : Tree) : Prop where
  sorted : Sorted s.mins
  /-- the abundance map has exactly the hashes as its keys, in the same order -/
  aligned : ∀ m, s.abunds = some m → m.map Prod.fst = s.mins
  cap : s.num > 0 → s.mins.length ≤ s.num
  ceil : s.maxHash > 0 → ∀ h ∈ s.mins, h ≤ s.maxHash
  /-- `current_max` is the largest hash held (0 when empty) -/
  cur : s.currentMax = lastOr0 s.mins

theorem VRef.inv {s : Vec} {σ : St} (r : VRef s σ) (i : SInv σ) : VInv s := by
  refine ⟨by rw [r.mins]; exact i.sorted, ?_, ?_, ?_⟩
  · intro l hl
    rw [r.ab] at hl
    split at hl
    · cases hl; rw [r.mins]; simp
    · cases hl
  · intro hn; rw [r.mins, r.num]; simpa using i.cap (by rw [← r.num]; omega)
  · intro hm h hh
    rw [r.mins] at hh; rw [r.mh]
    exact i.ceil (by rw [← r.mh]; omega) h hh

theorem TRef.inv {s : Tree} {σ : St} (r : TRef s σ) (i : SInv σ) : TInv s := by
  refine ⟨by rw [r.mins]; exact i.sorted, ?_, ?_, ?_, r.cur⟩
  · intro m hm
    rw [r.ab] at hm
    split at hm
    · cases hm; rw [r.mins]; rfl
    · cases hm
  · intro hn; rw [r.mins, r.num]; simpa using i.cap (by rw [← r.num]; omega)
  · intro hm h hh
    rw [r.mins] at hh; rw [r.mh]
    exact i.ceil (by rw [← r.mh]; omega) h hh

/-! ### abundances ≥ 1: both abstract runs coincide -/

theorem Hist.PosAb.noSet {H : Hist} (h : H.PosAb) : H.NoSet := by
  induction H with
  | new n t => trivial
  | op H o ih =>
    refine ⟨ih h.1, ?_⟩
    cases o <;> first | trivial | exact h.2
  | merge H O ih1 ih2 => exact ⟨ih1 h.1, ih2 h.2⟩

theorem St.add_kind_irrel (σ : St) (h a : Nat) (ha : 1 ≤ a) : σ.add .vec h a = σ.add .tree h a := by
  unfold St.add
  split
  · rfl
  · rw [if_neg (by omega), if_neg (by omega)]

theorem runSpec_kind_irrel (mh : Nat) (H : Hist) (h : H.PosAb) : runSpec .vec mh H = runSpec .tree mh H := by
  induction H with
  | new n t => rfl
  | op H o ih =>
    simp only [runSpec, ih h.1]
    cases o with
    | add x a => exact St.add_kind_irrel _ x a h.2
    | set x a => exact absurd h.2 (by simp [Op.posAb])
    | remove x => rfl
    | removeMany xs => rfl
    | clear => rfl
  | merge H O ih1 ih2 => simp only [runSpec, ih1 h.1, ih2 h.2]

end Sample
