import Sourmash.Lemmas.Similarity
/-!
Lemmas/SimilarityAng.lean — C05, integer core, part 3 (core Lean only): the abundance walk.

`angWalk` (vector container: indices `i`, `j`, unchecked accesses) is related to `dotMerge`, a plain
two-pointer recursion over the zipped `(hash, abundance)` lists; `dotMerge` is related to the tree
container's map look-ups (`dotLookup`) and to the set-level `SimilaritySpec.dot`.
-/
namespace Similarity
open SimilaritySpec

/-- Σ over the common keys of the products of the values, as a two-pointer recursion that consumes
    both sides (proof device; the code's walks are `angWalk` and `dotLookup`) -/
def dotMerge : List (Nat × Nat) → List (Nat × Nat) → Nat
  | [], _ => 0
  | _ :: _, [] => 0
  | (h, x) :: as, (k, y) :: bs =>
    if k < h then dotMerge ((h, x) :: as) bs
    else if k = h then x * y + dotMerge as bs
    else dotMerge as ((k, y) :: bs)
termination_by a b => a.length + b.length

/-- strictly increasing keys -/
abbrev SortedK (l : List (Nat × Nat)) : Prop := l.Pairwise (fun p q => p.1 < q.1)

theorem dotMerge_nil_right (A : List (Nat × Nat)) : dotMerge A [] = 0 := by
  cases A <;> simp [dotMerge]

theorem dotMerge_skip (A : List (Nat × Nat)) (k y : Nat) (bs : List (Nat × Nat))
    (hA : ∀ p ∈ A, k < p.1) : dotMerge A ((k, y) :: bs) = dotMerge A bs := by
  cases A with
  | nil => simp [dotMerge]
  | cons p as =>
    obtain ⟨h, x⟩ := p
    have : k < h := hA (h, x) (List.mem_cons_self)
    rw [dotMerge]; simp [this]

/-! ### the index walk never leaves the abundance vectors and computes `dotMerge` -/

theorem drop_cons_of_length {l : List Nat} {i n : Nat} (h : (l.drop i).length = n + 1) :
    ∃ x, l[i]? = some x ∧ l.drop i = x :: l.drop (i + 1) ∧ (l.drop (i + 1)).length = n := by
  have hi : i < l.length := by
    rw [List.length_drop] at h; omega
  refine ⟨l[i], List.getElem?_eq_getElem hi, List.drop_eq_getElem_cons hi, ?_⟩
  rw [List.length_drop] at h ⊢; omega

/-- T-angular_triple, vector walk: when the remaining abundance vectors are as long as the remaining
    hash lists, every unchecked access is in range (the result is `some`) and the accumulated value is
    the two-pointer sum of products over the common hashes. -/
theorem angWalk_eq (aab bab : List Nat) :
    ∀ i hs j ks prod, Sorted hs → (aab.drop i).length = hs.length → (bab.drop j).length = ks.length →
      angWalk aab bab i hs j ks prod
        = some (prod + dotMerge (hs.zip (aab.drop i)) (ks.zip (bab.drop j))) := by
  intro i hs j ks prod
  fun_induction angWalk aab bab i hs j ks prod with
  | case1 i j ks prod => intro _ _ _; simp [dotMerge]
  | case2 i h hs j prod => intro _ _ _; simp [dotMerge_nil_right]
  | case3 i h hs j k ks prod hkh ih =>
    intro hs' ha hb
    obtain ⟨x, _, ea, _⟩ := drop_cons_of_length (n := hs.length) (by simpa using ha)
    obtain ⟨y, _, eb, lb⟩ := drop_cons_of_length (n := ks.length) (by simpa using hb)
    rw [ih hs' ha lb, ea, eb]
    simp only [List.zip_cons_cons]
    conv => rhs; rw [dotMerge]
    simp [hkh]
  | case4 i hs j k ks prod x y hy hx hkk ih =>
    intro hs' ha hb
    obtain ⟨x', hx', ea, la⟩ := drop_cons_of_length (n := hs.length) (by simpa using ha)
    obtain ⟨y', hy', eb, _⟩ := drop_cons_of_length (n := ks.length) (by simpa using hb)
    have ex : x' = x := by rw [hx] at hx'; exact (Option.some.inj hx').symm
    have ey : y' = y := by rw [hy] at hy'; exact (Option.some.inj hy').symm
    subst ex ey
    rw [ih hs'.tail la hb, ea, eb]
    simp only [List.zip_cons_cons]
    have hskip : dotMerge (hs.zip (aab.drop (i + 1))) ((k, y') :: ks.zip (bab.drop (j + 1)))
        = dotMerge (hs.zip (aab.drop (i + 1))) (ks.zip (bab.drop (j + 1))) := by
      apply dotMerge_skip
      intro p hp
      obtain ⟨p1, p2⟩ := p
      exact hs'.head_lt p1 (List.of_mem_zip hp).1
    rw [hskip]
    conv => rhs; rw [dotMerge]
    simp [Nat.add_assoc]
  | case5 i hs j k ks prod hnone hkk =>
    intro hs' ha hb
    obtain ⟨x, hx, _, _⟩ := drop_cons_of_length (n := hs.length) (by simpa using ha)
    obtain ⟨y, hy, _, _⟩ := drop_cons_of_length (n := ks.length) (by simpa using hb)
    exact (hnone x y hx hy).elim
  | case6 i h hs j k ks prod hkh hne ih =>
    intro hs' ha hb
    obtain ⟨x, _, ea, la⟩ := drop_cons_of_length (n := hs.length) (by simpa using ha)
    obtain ⟨y, _, eb, _⟩ := drop_cons_of_length (n := ks.length) (by simpa using hb)
    rw [ih hs'.tail la hb, ea, eb]
    simp only [List.zip_cons_cons]
    conv => rhs; rw [dotMerge]
    simp [hkh, hne]

/-! ### the tree container's look-ups -/

theorem lookup_none_of_lt (B : List (Nat × Nat)) (h : Nat) (hB : ∀ p ∈ B, h < p.1) :
    B.lookup h = none := by
  induction B with
  | nil => rfl
  | cons p bs ih =>
    obtain ⟨k, y⟩ := p
    have hk : h < k := hB (k, y) List.mem_cons_self
    have : (h == k) = false := by simp; omega
    rw [List.lookup_cons, this]
    exact ih (fun p hp => hB p (List.mem_cons_of_mem _ hp))

theorem dotLookup_nil_right (A : List (Nat × Nat)) : dotLookup A [] = 0 := by
  induction A with
  | nil => rfl
  | cons p as ih => obtain ⟨h, x⟩ := p; simp [dotLookup, ih]

theorem dotLookup_skip (A : List (Nat × Nat)) (k y : Nat) (bs : List (Nat × Nat))
    (hA : ∀ p ∈ A, k < p.1) : dotLookup A ((k, y) :: bs) = dotLookup A bs := by
  induction A with
  | nil => rfl
  | cons p as ih =>
    obtain ⟨h, x⟩ := p
    have hk : k < h := hA (h, x) List.mem_cons_self
    have : (h == k) = false := by simp; omega
    simp only [dotLookup, List.lookup_cons, this]
    rw [ih (fun p hp => hA p (List.mem_cons_of_mem _ hp))]

theorem SortedK.tail {p : Nat × Nat} {l : List (Nat × Nat)} (h : SortedK (p :: l)) : SortedK l :=
  (List.pairwise_cons.mp h).2

theorem SortedK.head_lt {p : Nat × Nat} {l : List (Nat × Nat)} (h : SortedK (p :: l)) :
    ∀ q ∈ l, p.1 < q.1 := (List.pairwise_cons.mp h).1

/-- T-angular_triple, tree walk: the map look-ups compute the same sum as the two-pointer recursion -/
theorem dotMerge_eq_dotLookup (A B : List (Nat × Nat)) (hA : SortedK A) (hB : SortedK B) :
    dotMerge A B = dotLookup A B := by
  fun_induction dotMerge A B with
  | case1 B => rfl
  | case2 p as => rw [dotLookup_nil_right]
  | case3 h x as k y bs hkh ih =>
    rw [ih hA hB.tail]
    symm
    apply dotLookup_skip
    intro p hp
    rcases List.mem_cons.mp hp with rfl | hp
    · exact hkh
    · have := hA.head_lt p hp; simp only at this; omega
  | case4 x as k y bs hkk ih =>
    rw [ih hA.tail hB.tail]
    simp only [dotLookup, List.lookup_cons_self]
    congr 1
    symm
    apply dotLookup_skip
    intro p hp
    exact hA.head_lt p hp
  | case5 h x as k y bs hkh hne ih =>
    rw [ih hA.tail hB]
    have hlt : h < k := by omega
    have : ((k, y) :: bs).lookup h = none := by
      apply lookup_none_of_lt
      intro p hp
      rcases List.mem_cons.mp hp with rfl | hp
      · exact hlt
      · have := hB.head_lt p hp; simp only at this; omega
    simp [dotLookup, this]

/-! ### … and the set-level sum -/

theorem sortedK_zip (m ab : List Nat) (hm : Sorted m) : SortedK (m.zip ab) := by
  induction m generalizing ab with
  | nil => simp
  | cons h hs ih =>
    cases ab with
    | nil => simp
    | cons x xs =>
      simp only [List.zip_cons_cons]
      refine List.pairwise_cons.mpr ⟨?_, ih xs hm.tail⟩
      intro p hp
      obtain ⟨p1, p2⟩ := p
      exact hm.head_lt p1 (List.of_mem_zip hp).1

theorem lookup_zip_of_not_mem (m ab : List Nat) (h : Nat) (hm : h ∉ m) :
    (m.zip ab).lookup h = none := by
  induction m generalizing ab with
  | nil => simp
  | cons k ks ih =>
    cases ab with
    | nil => simp
    | cons y ys =>
      simp only [List.mem_cons, not_or] at hm
      have : (h == k) = false := by simp; exact hm.1
      simp only [List.zip_cons_cons, List.lookup_cons, this]
      exact ih ys hm.2

theorem lookup_zip_of_mem (m ab : List Nat) (h : Nat) (hl : ab.length = m.length) (hm : h ∈ m) :
    ∃ y, (m.zip ab).lookup h = some y := by
  induction m generalizing ab with
  | nil => simp at hm
  | cons k ks ih =>
    cases ab with
    | nil => simp at hl
    | cons y ys =>
      simp only [List.zip_cons_cons, List.lookup_cons]
      by_cases hk : h = k
      · subst hk; exact ⟨y, by simp⟩
      · have : (h == k) = false := by simp; exact hk
        rw [this]
        rcases List.mem_cons.mp hm with rfl | hm'
        · exact (hk rfl).elim
        · exact ih ys (by simpa using hl) hm'

/-- the tree walk is the set-level Σ_{h ∈ A ∩ B} a_h · b_h -/
theorem dotLookup_eq_dot (am aab bm bab : List Nat) (ha : Sorted am)
    (hlb : bab.length = bm.length) (hla : aab.length = am.length) :
    dotLookup (am.zip aab) (bm.zip bab) = dot am aab bm bab := by
  unfold dot inter
  induction am generalizing aab with
  | nil => simp [dotLookup, SimilaritySpec.sum]
  | cons h hs ih =>
    cases aab with
    | nil => simp at hla
    | cons x xs =>
      have hl' : xs.length = hs.length := by simpa using hla
      simp only [List.zip_cons_cons, dotLookup]
      rw [ih xs ha.tail hl']
      -- the tail of the sum does not see the head entry
      have htail : (hs.filter (fun h => bm.contains h)).map
            (fun k => abundOf (h :: hs) (x :: xs) k * abundOf bm bab k)
          = (hs.filter (fun h => bm.contains h)).map
            (fun k => abundOf hs xs k * abundOf bm bab k) := by
        apply List.map_congr_left
        intro k hk
        have hk' : k ∈ hs := (List.mem_filter.mp hk).1
        have := ha.head_lt k hk'
        have hne : (k == h) = false := by simp; omega
        simp [abundOf, List.lookup_cons, hne]
      rw [List.filter_cons]
      by_cases hc : bm.contains h = true
      · have hmem : h ∈ bm := by simpa using hc
        obtain ⟨y, hy⟩ := lookup_zip_of_mem bm bab h hlb hmem
        simp only [hc, if_true, List.map_cons, SimilaritySpec.sum, htail, hy]
        simp [abundOf, hy]
      · have hmem : h ∉ bm := by simpa using hc
        have hy := lookup_zip_of_not_mem bm bab h hmem
        simp only [hc, Bool.false_eq_true, if_false, htail, hy]
        simp

theorem sumSq_eq_spec (l : List Nat) : Similarity.sumSq l = SimilaritySpec.sumSq l := by
  induction l with
  | nil => rfl
  | cons x xs ih => simp [Similarity.sumSq, SimilaritySpec.sumSq, SimilaritySpec.sum, ih] at *

/-! ### symmetry -/

theorem dotMerge_comm (A B : List (Nat × Nat)) : dotMerge A B = dotMerge B A := by
  fun_induction dotMerge A B with
  | case1 B => rw [dotMerge_nil_right]
  | case2 p as => simp [dotMerge]
  | case3 h x as k y bs hkh ih =>
    have h1 : ¬ h < k := by omega
    have h2 : ¬ h = k := by omega
    rw [ih]; conv => rhs; rw [dotMerge]
    simp [h1, h2]
  | case4 x as k y bs hkk ih =>
    rw [ih]; conv => rhs; rw [dotMerge]
    simp [Nat.mul_comm]
  | case5 h x as k y bs hkh hne ih =>
    have h1 : h < k := by omega
    rw [ih]; conv => rhs; rw [dotMerge]
    simp [h1]

end Similarity
