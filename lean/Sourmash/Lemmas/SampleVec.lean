import Sourmash.Lemmas.SampleSpec
/-! Lemmas/SampleVec.lean — every operation of the vector-backed sketch model refines the abstract
step.  `VRef s σ`: same parameters, `mins s = keys σ`, `abunds s = vals σ` when tracked / `none` when
not.  Core Lean only. -/
namespace Sample
open MH

structure VRef (s : Vec) (σ : St) : Prop where
  num : s.num = σ.num
  mh : s.maxHash = σ.maxHash
  mins : s.mins = keys σ.m
  ab : s.abunds = if σ.track then some (vals σ.m) else none

theorem VRef.obs {s : Vec} {σ : St} (r : VRef s σ) : vecObs s = σ.obs := by
  simp [vecObs, St.obs, r.mins, r.ab]

theorem VRef.new (n mh : Nat) (t : Bool) : VRef (Vec.new n mh t) { num := n, maxHash := mh, track := t } :=
  ⟨rfl, rfl, rfl, by cases t <;> rfl⟩

/-- generic step: the model changed `mins` to the keys of `m'` and mapped `f` over the abundances,
    where `f` turns the old values into the new ones -/
theorem VRef.step {s s' : Vec} {σ : St} (r : VRef s σ) (m' : FMap) (f : List Nat → List Nat)
    (hn : s'.num = s.num) (hh : s'.maxHash = s.maxHash) (hm : s'.mins = keys m')
    (ha : s'.abunds = s.abunds.map f) (hf : f (vals σ.m) = vals m') : VRef s' { σ with m := m' } := by
  refine ⟨hn.trans r.num, hh.trans r.mh, hm, ?_⟩
  rw [ha, r.ab]
  cases σ.track <;> simp [hf]

theorem length_insertAt {α : Type} (l : List α) (p : Nat) (x : α) (hp : p ≤ l.length) :
    (insertAt l p x).length = l.length + 1 := by
  induction l generalizing p with
  | nil => cases p <;> simp [insertAt]
  | cons y t ih =>
    cases p with
    | zero => simp [insertAt]
    | succ p => simp [insertAt, ih p (by simpa using hp)]

/-! ### remove, clear -/

theorem VRef.remove {s : Vec} {σ : St} (r : VRef s σ) (i : SInv σ) (h : Nat) :
    VRef (s.remove h) (σ.remove h) := by
  unfold Vec.remove St.remove
  simp only []
  have hs : Sorted (keys σ.m) := i.sorted
  split
  · next hf =>
    rw [r.mins] at hf
    have := del_found hs hf
    refine r.step (del σ.m h) (removeAt · (pos s.mins h)) rfl rfl ?_ rfl ?_
    · show removeAt s.mins (pos s.mins h) = _
      rw [r.mins, this.1]
    · show removeAt (vals σ.m) (pos s.mins h) = _
      rw [r.mins, this.2]
  · next hnf =>
    rw [r.mins] at hnf
    rw [del_not_found hs hnf]
    exact r

theorem VRef.removeMany {s : Vec} {σ : St} (r : VRef s σ) (i : SInv σ) (hs : List Nat) :
    VRef (s.removeMany hs) (σ.removeMany hs) := by
  unfold Vec.removeMany St.removeMany
  induction hs generalizing s σ with
  | nil => exact r
  | cons x t ih => exact ih (r.remove i x) (i.remove x)

theorem VRef.clear {s : Vec} {σ : St} (r : VRef s σ) : VRef s.clear σ.clear :=
  r.step [] (fun _ => []) rfl rfl rfl rfl rfl

/-! ### add -/

theorem VRef.add {s : Vec} {σ : St} (r : VRef s σ) (i : SInv σ) (h a : Nat) :
    VRef (s.add h a) (σ.add .vec h a) := by
  have hsort : Sorted (keys σ.m) := i.sorted
  unfold Vec.add
  split
  · -- above the ceiling
    next hc =>
    have hc' : σ.maxHash ≠ 0 ∧ σ.maxHash < h := by
      simp [r.mh] at hc; exact ⟨hc.2, hc.1⟩
    unfold St.add; rw [if_pos hc']; exact r
  next hc =>
  have hc' : ¬ (σ.maxHash ≠ 0 ∧ σ.maxHash < h) := by
    simp [r.mh] at hc; intro ⟨h1, h2⟩; exact h1 (hc h2)
  split
  · -- num = 0 and maxHash = 0: excluded by well-formedness
    next h0 =>
    simp [r.mh, r.num] at h0
    rcases i.wf with ⟨_, h2⟩ | ⟨h1, _⟩ <;> omega
  split
  · -- abundance 0 removes
    next ha =>
    have ha' : a = 0 := by simpa using ha
    have e : σ.add .vec h a = σ.remove h := by
      unfold St.add St.remove; rw [if_neg hc', if_pos ha']
    rw [e]; exact r.remove i h
  next ha =>
  have ha' : a ≠ 0 := by simpa using ha
  rw [St.add_pos hc' ha']
  split
  · -- first insert
    next he =>
    have hm0 : σ.m = [] := keys_eq_nil (by rw [← r.mins]; simpa using he)
    have hcap : σ.cap (ins σ.m h a) = [(h, a)] := by
      rw [hm0]; apply cap_id; intro hn; simp [ins]; omega
    rw [hcap]
    refine r.step [(h, a)] (· ++ [a]) rfl rfl ?_ rfl ?_
    · show s.mins ++ [h] = _
      rw [r.mins, hm0]; rfl
    · rw [hm0]; rfl
  next he =>
  have hne : keys σ.m ≠ [] := by rw [← r.mins]; simpa using he
  have hlen : s.mins.length = σ.m.length := by rw [r.mins]; simp
  simp only []
  split
  · next hg =>
    -- guard true
    split
    · -- at end: push
      next hp =>
      have hp' : pos (keys σ.m) h = σ.m.length := by
        rw [r.mins] at hp; simpa using hp
      have hins := ins_at_end a hp'
      have hall := pos_eq_length (l := keys σ.m) (by simpa using hp')
      have hcap : σ.cap (ins σ.m h a) = σ.m ++ [(h, a)] := by
        rw [hins]; apply cap_id; intro hn
        -- num mode: the guard can only have held through `len < num`
        have hmh : σ.maxHash = 0 := by
          rcases i.wf with ⟨h1, _⟩ | ⟨_, h2⟩
          · exact h1
          · exact absurd h2 hn
        have hlast := hall _ (lastOr0_mem hne)
        simp [r.mh, r.num, hmh, hlen] at hg
        have : lastOr0 s.mins = lastOr0 (keys σ.m) := by rw [r.mins]
        simp only [lastOr0] at this hlast
        rw [this] at hg
        simp; omega
      rw [hcap]
      refine r.step _ (· ++ [a]) rfl rfl ?_ rfl ?_
      · show s.mins ++ [h] = _
        rw [r.mins, keys_append]; rfl
      · rw [vals_append]; rfl
    next hp =>
    have hp' : pos (keys σ.m) h < σ.m.length := by
      have h1 := pos_le_length (keys σ.m) h
      have h2 : pos (keys σ.m) h ≠ σ.m.length := by
        rw [r.mins] at hp; simpa using hp
      simp at h1; omega
    split
    · -- not found: insert in the middle
      next hnf =>
      have hnf' : (keys σ.m)[pos (keys σ.m) h]? ≠ some h := by
        rw [r.mins] at hnf; simpa using hnf
      have hins := ins_middle a hp' hnf'
      have hl1 : (insertAt (keys σ.m) (pos (keys σ.m) h) h).length = σ.m.length + 1 := by
        rw [length_insertAt _ _ _ (by simp; omega)]; simp
      have hl2 : (insertAt (vals σ.m) (pos (keys σ.m) h) a).length = σ.m.length + 1 := by
        rw [length_insertAt _ _ _ (by simp; omega)]; simp
      have hl3 : (ins σ.m h a).length = σ.m.length + 1 := by
        have := congrArg List.length hins.1
        rw [hl1] at this; simpa using this
      split
      · -- over `num`: pop
        next hev =>
        have hev' : σ.num ≠ 0 ∧ σ.num < σ.m.length + 1 := by
          rw [r.mins, hl1, r.num] at hev; simpa using hev
        have hnum : σ.num = σ.m.length := by have := i.cap hev'.1; omega
        have hcap : σ.cap (ins σ.m h a) = (ins σ.m h a).take σ.num := by
          rw [cap_eq, if_neg hev'.1]
        rw [hcap]
        refine r.step _ (fun l => (insertAt l (pos s.mins h) a).dropLast) rfl rfl ?_ ?_ ?_
        · show (insertAt s.mins (pos s.mins h) h).dropLast = _
          rw [r.mins, keys_take, hins.1, List.dropLast_eq_take, hl1, hnum]; rfl
        · show Option.map List.dropLast (Option.map _ s.abunds) = _
          rw [Option.map_map]; rfl
        · show (insertAt (vals σ.m) (pos s.mins h) a).dropLast = _
          rw [r.mins, vals_take, hins.2, List.dropLast_eq_take, hl2, hnum]; rfl
      · next hev =>
        have hev' : σ.num ≠ 0 → σ.m.length + 1 ≤ σ.num := by
          rw [r.mins, hl1, r.num] at hev
          intro hn; simp [hn] at hev; exact hev
        have hcap : σ.cap (ins σ.m h a) = ins σ.m h a := cap_id (by rw [hl3]; exact hev')
        rw [hcap]
        refine r.step _ (fun l => insertAt l (pos s.mins h) a) rfl rfl ?_ rfl ?_
        · show insertAt s.mins (pos s.mins h) h = _
          rw [r.mins, hins.1]
        · show insertAt (vals σ.m) (pos s.mins h) a = _
          rw [r.mins, hins.2]
    · -- found: increment
      next hf =>
      have hf' : (keys σ.m)[pos (keys σ.m) h]? = some h := by
        rw [r.mins] at hf; simpa using hf
      have hins := ins_found a hf'
      have hl3 : (ins σ.m h a).length = σ.m.length := by
        have := congrArg List.length hins.1
        simpa using this
      have hcap : σ.cap (ins σ.m h a) = ins σ.m h a := cap_id (by rw [hl3]; exact i.cap)
      rw [hcap]
      refine r.step _ (fun l => bump l (pos s.mins h) a) rfl rfl ?_ rfl ?_
      · show s.mins = _
        rw [r.mins, hins.1]
      · show bump (vals σ.m) (pos s.mins h) a = _
        rw [r.mins, hins.2]
  · -- guard false: a num sketch that is full, and `h` is larger than everything held
    next hg =>
    have hmh : σ.maxHash = 0 := by
      rcases i.wf with ⟨h1, _⟩ | ⟨h1, _⟩
      · exact h1
      · simp [r.mh] at hg
        have : ¬ σ.maxHash < h := fun hlt => hc' ⟨by omega, hlt⟩
        omega
    have hnum : σ.num ≠ 0 := by rcases i.wf with ⟨_, h2⟩ | ⟨h1, _⟩ <;> omega
    simp [r.mh, r.num, hmh, hlen] at hg
    have hlast : lastOr0 (keys σ.m) < h := by
      have : lastOr0 s.mins = lastOr0 (keys σ.m) := by rw [r.mins]
      simp only [lastOr0] at this ⊢
      rw [← this]; exact hg.1.2
    have hall : ∀ x ∈ keys σ.m, x < h := fun x hx => by
      have := le_last_of_mem hsort x hx; omega
    have hp : pos (keys σ.m) h = σ.m.length := by rw [pos_of_all_lt hall]; simp
    have hfull : σ.m.length = σ.num := by have := i.cap hnum; omega
    have hcap : σ.cap (ins σ.m h a) = σ.m := by
      rw [cap_eq, if_neg hnum, ins_at_end a hp, ← hfull, List.take_left]
    rw [hcap]
    exact r

/-! ### set -/

theorem VRef.set {s : Vec} {σ : St} (r : VRef s σ) (i : SInv σ) (h a : Nat) :
    VRef (s.set h a) (σ.set h a) := by
  unfold Vec.set St.set
  simp only []
  split
  · next hf =>
    rw [r.mins] at hf
    have hhas : has σ.m h = true := (has_iff_mem _ _).mpr ((found_iff_mem i.sorted h).mp hf)
    rw [if_pos hhas]
    refine r.step _ (fun l => setAt l (pos s.mins h) a) rfl rfl ?_ rfl ?_
    · show s.mins = _
      rw [keys_setv, r.mins]
    · show setAt (vals σ.m) (pos s.mins h) a = _
      rw [r.mins, vals_setv_found a i.sorted hf]
  · next hnf =>
    rw [r.mins] at hnf
    have hhas : ¬ has σ.m h = true := fun hh =>
      hnf ((found_iff_mem i.sorted h).mpr ((has_iff_mem _ _).mp hh))
    rw [if_neg hhas]
    exact r.add i h a

/-! ### merge -/

theorem VRef.merge {s o : Vec} {σ τ : St} (r : VRef s σ) (q : VRef o τ) (j : SInv τ) :
    VRef (s.merge o) (σ.merge τ) := by
  have hk : mergeMins s.mins o.mins = keys (union σ.m τ.m) := by
    rw [r.mins, q.mins, keys_union j.sorted]
  have hv : (σ.track && τ.track) = true → s.mergedAbunds o = some (vals (union σ.m τ.m)) := by
    intro hb
    simp only [Bool.and_eq_true] at hb
    unfold Vec.mergedAbunds
    rw [r.ab, q.ab, if_pos hb.1, if_pos hb.2]
    simp only []
    rw [r.mins, q.mins, zip_keys_vals, zip_keys_vals, mergeLists_eq_union _ _ j.sorted]
    rfl
  have hn : ¬ (σ.track && τ.track) = true → s.mergedAbunds o = none := by
    intro hb
    unfold Vec.mergedAbunds
    rw [r.ab, q.ab]
    cases h1 : σ.track <;> cases h2 : τ.track <;> simp [h1, h2] at hb ⊢
  unfold Vec.merge St.merge
  simp only []
  rw [hk]
  split
  · next hc =>
    have hc' : σ.num < (union σ.m τ.m).length ∧ σ.num ≠ 0 := by
      rw [r.num] at hc; simpa using hc
    rw [cap_eq, if_neg hc'.2]
    refine ⟨r.num, r.mh, ?_, ?_⟩
    · show (keys (union σ.m τ.m)).take s.num = _
      rw [keys_take, r.num]
    · show Option.map (List.take s.num) _ = _
      by_cases hb : (σ.track && τ.track) = true
      · rw [hv hb]; simp only [hb, if_true, Option.map_some, vals_take, r.num]
      · rw [hn hb]; simp only [hb]; rfl
  · next hc =>
    have hc' : σ.num ≠ 0 → (union σ.m τ.m).length ≤ σ.num := by
      rw [r.num] at hc
      intro hne; simp [hne] at hc; exact hc
    rw [cap_id hc']
    refine ⟨r.num, r.mh, rfl, ?_⟩
    · by_cases hb : (σ.track && τ.track) = true
      · show s.mergedAbunds o = _
        rw [hv hb]; simp only [hb, if_true]
      · show s.mergedAbunds o = _
        rw [hn hb]; simp only [hb]; rfl

/-! ### whole histories -/

theorem VRef.vecStep {s : Vec} {σ : St} (r : VRef s σ) (i : SInv σ) (o : Op) :
    VRef (vecStep s o) (σ.step .vec o) := by
  cases o with
  | add h a => exact r.add i h a
  | set h a => exact r.set i h a
  | remove h => exact r.remove i h
  | removeMany hs => exact r.removeMany i hs
  | clear => exact r.clear

theorem runVec_ref (mh : Nat) (H : Hist) (hwf : H.WF mh) : VRef (runVec mh H) (runSpec .vec mh H) := by
  induction H with
  | new n t => exact VRef.new n mh t
  | op H o ih => exact (ih hwf).vecStep (runSpec_inv .vec mh H hwf) o
  | merge H O ih1 ih2 => exact (ih1 hwf.1).merge (ih2 hwf.2) (runSpec_inv .vec mh O hwf.2)

end Sample
