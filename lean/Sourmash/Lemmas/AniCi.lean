import Sourmash.Model.Ani
import Sourmash.Lemmas.AniReal
import Mathlib.Topology.Order.IntermediateValue
import Mathlib.Topology.Algebra.Polynomial
/-!
Helper lemmas for the confidence-interval part of C19 over the ideal reals: the closures `f1`, `f2`
of `ani_ci_from_containment` as real functions, their continuity where no error is swallowed, the
Brent contract, the `as i32` saturation.
-/
namespace Sourmash.Ani
open Set

/-! ### `as i32` saturation (any number type) -/

theorem satI32_of_le {k : Nat} (h : k ≤ i32Max) : satI32 k = k := by simp [satI32, h]
theorem satI32_of_gt {n : Nat} (h : i32Max < n) : satI32 n = i32Max := by
  simp [satI32, Nat.not_le.mpr h]
theorem satI32_le (n : Nat) : satI32 n ≤ i32Max := by
  unfold satI32; split <;> omega

/-! ### the Brent contract -/

/-- what `T-ci_range` assumes of `roots::find_root_brent` (`none` = `Err`): a returned root lies in
the bracket it was given. -/
structure BrentContract (brent : ℝ → ℝ → (ℝ → ℝ) → Option ℝ) : Prop where
  in_bracket : ∀ lo hi f r, lo ≤ hi → brent lo hi f = some r → lo ≤ r ∧ r ≤ hi

theorem bracket_real : (bracketLo : ℝ) = 1 / 10 ^ 7 ∧ (bracketHi : ℝ) = 9999999 / 10 ^ 7 := by
  constructor <;> simp [bracketLo, bracketHi]

theorem bracketLo_pos : (0 : ℝ) < bracketLo := by rw [bracket_real.1]; norm_num
theorem bracketHi_lt_one : (bracketHi : ℝ) < 1 := by rw [bracket_real.2]; norm_num
theorem bracket_le : (bracketLo : ℝ) ≤ bracketHi := by
  rw [bracket_real.1, bracket_real.2]; norm_num

/-- `find_root_brent(..).unwrap_or_default()` lies in [0,1] under the contract -/
theorem sol_range (brent : ℝ → ℝ → (ℝ → ℝ) → Option ℝ) (hb : BrentContract brent) (f : ℝ → ℝ) :
    0 ≤ (brent bracketLo bracketHi f).getD (lit 0) ∧ (brent bracketLo bracketHi f).getD (lit 0) ≤ 1 := by
  cases h : brent bracketLo bracketHi f with
  | none => simp
  | some r =>
    have := hb.in_bracket _ _ f r bracket_le h
    simp only [Option.getD_some]
    exact ⟨le_trans bracketLo_pos.le this.1, le_trans this.2 bracketHi_lt_one.le⟩

/-! ### the closures over ℝ -/

/-- the distance at the point estimate, `p* = 1 − c^(1/k)` -/
noncomputable def pStar (c : ℝ) (k : Nat) : ℝ := 1 - c ^ (1 / (k : ℝ))

theorem pow_at_pStar (c : ℝ) (k : Nat) (hc : 0 ≤ c) (hk : 1 ≤ k) : (1 - pStar c k) ^ k = c := by
  have : (1 - pStar c k) = c ^ ((k : ℝ)⁻¹) := by simp [pStar]
  rw [this, Real.rpow_inv_natCast_pow hc (by omega)]

theorem ciF1_real (z c : ℝ) (k scaled n : Nat) (hk : k ≤ i32Max) (p : ℝ) :
    ciF1 z c k scaled n p = (1 - p) ^ k + z * Real.sqrt (varDirect scaled n k p) - c := by
  simp [ciF1, satI32_of_le hk]

theorem ciF2_real (z c : ℝ) (k scaled n : Nat) (hk : k ≤ i32Max) (p : ℝ) :
    ciF2 z c k scaled n p = (1 - p) ^ k - z * Real.sqrt (varDirect scaled n k p) - c := by
  simp [ciF2, satI32_of_le hk]

theorem point_is_one_sub_pStar (c : ℝ) (k : Nat) (hk : 1 ≤ k) :
    aniFromContainment c (lit k) = 1 - pStar c k := by
  have hk1 : (1:ℝ) ≤ (k:ℝ) := by exact_mod_cast hk
  have hk0 : (1 / (k:ℝ)) ≠ 0 := by positivity
  unfold aniFromContainment pStar
  simp only [beq_real, lit_real, Nat.cast_zero, Nat.cast_one, powf_real, decide_eq_true_eq]
  split_ifs with h0 h1
  · subst h0; rw [Real.zero_rpow hk0]; ring
  · subst h1; rw [Real.one_rpow]; ring
  · ring

theorem r1ToQ_real (k : Nat) (hk : k ≤ i32Max) (p : ℝ) : r1ToQ k p = 1 - (1 - p) ^ k := by
  simp [r1ToQ, satI32, hk]

theorem varNExpr_real (l : ℝ) (k : Nat) (hk : k ≤ i32Max) (p : ℝ) :
    varNExpr l k p =
      l * (1 - (1 - (1 - p) ^ k)) * ((1 - (1 - p) ^ k) * (2 * (k:ℝ) + 2 / p - 1) - 2 * (k:ℝ))
      + (k:ℝ) * ((k:ℝ) - 1) * (1 - (1 - (1 - p) ^ k)) ^ 2
      + (2 * (1 - (1 - (1 - p) ^ k)) / p ^ 2)
          * ((1 + ((k:ℝ) - 1) * (1 - (1 - (1 - p) ^ k))) * p - (1 - (1 - p) ^ k)) := by
  simp [varNExpr, r1ToQ_real k hk]

theorem varNExpr_continuousOn (l : ℝ) (k : Nat) (hk : k ≤ i32Max) :
    ContinuousOn (fun p : ℝ => varNExpr l k p) {p | p ≠ 0} := by
  simp only [varNExpr_real l k hk]
  intro p hp
  have hp' : p ≠ 0 := hp
  apply ContinuousAt.continuousWithinAt
  fun_prop (disch := simp [hp'])

/-- away from `r1 = 0` and when the variance expression is non-negative, `var_n_mutated` is `Ok` -/
theorem varNMutated_some (l : ℝ) (k : Nat) (p : ℝ) (hp : p ≠ 0) (hv : 0 ≤ varNExpr l k p) :
    varNMutated l k p = some (varNExpr l k p) := by
  simp [varNMutated, hp, not_lt.mpr hv]

theorem varDirect_real (scaled n k : Nat) (p : ℝ) (hp : p ≠ 0) (hv : 0 ≤ varNExpr (n:ℝ) k p) :
    varDirect scaled n k p =
      term1 scaled n * ((n:ℝ) * expNMutated (n:ℝ) k p - (varNExpr (n:ℝ) k p + (expNMutated (n:ℝ) k p) ^ 2))
        + varNExpr (n:ℝ) k p / (n:ℝ) ^ 2 := by
  simp [varDirect, term2, term3, expNMutatedSquared, varNMutated_some _ k p hp hv]

theorem expNMutated_continuous (l : ℝ) (k : Nat) (hk : k ≤ i32Max) :
    Continuous (fun p : ℝ => expNMutated l k p) := by
  simp only [expNMutated, r1ToQ_real k hk]
  fun_prop

theorem varDirect_continuousOn (scaled n k : Nat) (hk : k ≤ i32Max) (s : Set ℝ)
    (hs : ∀ p ∈ s, p ≠ 0 ∧ 0 ≤ varNExpr (n:ℝ) k p) :
    ContinuousOn (fun p : ℝ => varDirect scaled n k p) s := by
  have hv : ContinuousOn (fun p : ℝ => varNExpr (n:ℝ) k p) s :=
    (varNExpr_continuousOn (n:ℝ) k hk).mono (fun p hp => (hs p hp).1)
  have he := (expNMutated_continuous (n:ℝ) k hk).continuousOn (s := s)
  refine ContinuousOn.congr
    (f := fun p => term1 scaled n
        * ((n:ℝ) * expNMutated (n:ℝ) k p - (varNExpr (n:ℝ) k p + (expNMutated (n:ℝ) k p) ^ 2))
        + varNExpr (n:ℝ) k p / (n:ℝ) ^ 2) ?_
    (fun p hp => varDirect_real scaled n k p (hs p hp).1 (hs p hp).2)
  by_cases hn : (n:ℝ) ^ 2 = 0
  · simp only [hn, div_zero, add_zero]; fun_prop
  · fun_prop (disch := exact hn)

/-- `f1`, `f2` are continuous wherever no `var_n_mutated` error is swallowed and `pest ≠ 0` -/
theorem ciF_continuousOn (z c : ℝ) (scaled n k : Nat) (hk : k ≤ i32Max) (s : Set ℝ)
    (hs : ∀ p ∈ s, p ≠ 0 ∧ 0 ≤ varNExpr (n:ℝ) k p) :
    ContinuousOn (ciF1 z c k scaled n) s ∧ ContinuousOn (ciF2 z c k scaled n) s := by
  have hv := varDirect_continuousOn scaled n k hk s hs
  have e1 : ciF1 z c k scaled n = fun p => (1 - p) ^ k + z * Real.sqrt (varDirect scaled n k p) - c := by
    funext p; simp [ciF1, satI32, hk]
  have e2 : ciF2 z c k scaled n = fun p => (1 - p) ^ k - z * Real.sqrt (varDirect scaled n k p) - c := by
    funext p; simp [ciF2, satI32, hk]
  rw [e1, e2]
  constructor <;> fun_prop

/-- for k = 1 the variance expression is the binomial variance `l·p·(1−p)` -/
theorem varNExpr_k1 (l p : ℝ) (hp : p ≠ 0) : varNExpr l 1 p = l * p * (1 - p) := by
  rw [varNExpr_real l 1 (by decide)]
  field_simp
  ring

end Sourmash.Ani
