import Sourmash.Spec.SigFormat
/-! Lemmas/Json.lean — helper lemmas for C06 (core Lean only): what `fromJson` computes on a document
written by `toJson`. -/
namespace SigJson
open SigFormat
open Sourmash.Generated.C06

/-! ### arrays of numbers -/

theorem getNums_map_num {B : Nat} : ∀ {l : List Nat}, (∀ x ∈ l, x < B) → getNums B (l.map Json.num) = .ok l
  | [], _ => rfl
  | x :: t, h => by
    have hx : x < B := h x (by simp)
    have ht := getNums_map_num (l := t) (fun y hy => h y (by simp [hy]))
    simp [getNums, getU, hx, ht]

/-! ### sorting -/

theorem isortBy_eq_self {le : α → α → Bool} :
    ∀ l : List α, l.Pairwise (fun a b => le a b = true) → isortBy le l = l
  | [], _ => rfl
  | [_], _ => rfl
  | x :: y :: t, h => by
    have ht : isortBy le (y :: t) = y :: t := isortBy_eq_self (y :: t) (List.Pairwise.of_cons h)
    have hxy : le x y = true := (List.pairwise_cons.1 h).1 y (by simp)
    show insertBy le x (isortBy le (y :: t)) = _
    rw [ht]
    simp [insertBy, hxy]

theorem sortNats_eq_self {l : List Nat} (h : l.Pairwise (· < ·)) : sortNats l = l :=
  isortBy_eq_self l (h.imp (by intro a b hab; simp [natLe]; omega))

theorem pairwise_zip_lex : ∀ {l₁ l₂ : List Nat}, l₁.Pairwise (· < ·) →
    (l₁.zip l₂).Pairwise (fun a b => lexLe a b = true)
  | [], _, _ => by simp
  | _ :: _, [], _ => by simp
  | x :: t, y :: u, h => by
    rw [List.zip_cons_cons, List.pairwise_cons]
    refine ⟨?_, pairwise_zip_lex (List.Pairwise.of_cons h)⟩
    intro p hp
    have hx : x < p.1 := (List.pairwise_cons.1 h).1 p.1 (List.of_mem_zip hp).1
    simp [lexLe, hx]

theorem sortPairs_zip_eq_self {l₁ l₂ : List Nat} (h : l₁.Pairwise (· < ·)) :
    sortPairs (l₁.zip l₂) = l₁.zip l₂ := isortBy_eq_self _ (pairwise_zip_lex h)

theorem map_fst_zip' : ∀ (l₁ l₂ : List Nat), l₁.length ≤ l₂.length → (l₁.zip l₂).map (fun p => p.1) = l₁
  | [], _, _ => by simp
  | _ :: _, [], h => by simp at h
  | x :: t, y :: u, h => by
    simp only [List.zip_cons_cons, List.map_cons, map_fst_zip' t u (by simpa using h)]

theorem map_snd_zip' : ∀ (l₁ l₂ : List Nat), l₂.length ≤ l₁.length → (l₁.zip l₂).map (fun p => p.2) = l₂
  | _, [], _ => by simp
  | [], _ :: _, h => by simp at h
  | x :: t, y :: u, h => by
    simp only [List.zip_cons_cons, List.map_cons, map_snd_zip' t u (by simpa using h)]

/-! ### one sketch -/

/-- the `TempSig` a written sketch object is read into -/
def tempOf (m : MinHash) : Temp :=
  { num := m.num, ksize := m.ksize, seed := m.seed, maxHash := m.maxHash, md5 := m.md5, mins := m.mins,
    abunds := m.abunds, molecule := m.mol.display }

theorem parseTemp_toJsonMH (m : MinHash) (h : InRange m) :
    parseTemp kmhTemp (toJsonMH kmhSer m) = .ok (tempOf m) := by
  obtain ⟨h1, h2, h3, h4, h5, h6⟩ := h
  cases hab : m.abunds with
  | none =>
    simp [parseTemp, toJsonMH, serFields, kmhSer, kmhTemp, mhField, hab, K.num, K.ksize, K.seed, K.max_hash, K.mins,
      K.md5sum, K.abundances, K.molecule, lookup, dupKnown, count, reqU, reqStr, reqNums, optNums, getU, getStr,
      getNumArr, u64s, u32, u64, getNums_map_num h5, h1, h2, h3, h4, tempOf, bind, Except.bind, pure, Except.pure]
  | some a =>
    have h6' := h6 a hab
    simp [parseTemp, toJsonMH, serFields, kmhSer, kmhTemp, mhField, hab, K.num, K.ksize, K.seed, K.max_hash, K.mins,
      K.md5sum, K.abundances, K.molecule, lookup, dupKnown, count, reqU, reqStr, reqNums, optNums, getU, getStr,
      getNumArr, u64s, u32, u64, getNums_map_num h5, getNums_map_num h6', h1, h2, h3, h4, tempOf, bind, Except.bind,
      pure, Except.pure]

theorem btreeSer_eq : btreeSer = kmhSer := by decide
theorem btreeTemp_eq : btreeTemp = kmhTemp := by decide

theorem molOfString_display : ∀ {mol : Mol}, standard mol → molOfString mol.display = .ok mol
  | .dna, _ => rfl
  | .protein, _ => rfl
  | .dayhoff, _ => rfl
  | .hp, _ => rfl
  | .custom _, h => h.elim

/-- what loading does to a written vector/tree sketch state whatever its hashes look like
    (the legacy repair and the `num` rule) -/
def repair (m : MinHash) : MinHash :=
  { m with
    num := if m.maxHash ≠ 0 then 0 else m.num
    mins := match m.abunds with
      | some ab => (sortPairs (m.mins.zip ab)).map (·.1)
      | none => sortNats m.mins
    abunds := match m.abunds with
      | some ab => some ((sortPairs (m.mins.zip ab)).map (·.2))
      | none => none }

theorem vecOfTemp_tempOf (m : MinHash) (hm : standard m.mol) : vecOfTemp (tempOf m) = .ok (repair m) := by
  unfold vecOfTemp
  simp only [tempOf, molOfString_display hm]
  cases hab : m.abunds <;> by_cases h0 : m.maxHash = 0 <;> simp [repair, hab, h0]

/-- loading a sketch object written for any in-range state: the hashes come back sorted, `num` zeroed for
    a scaled sketch, everything else as written -/
theorem fromJsonVec_written (m : MinHash) (h : InRange m) (hm : standard m.mol) :
    fromJsonVec (toJsonMH kmhSer m) = .ok (repair m) := by
  simp only [fromJsonVec, parseTemp_toJsonMH m h, vecOfTemp_tempOf m hm]

theorem repair_wf {m : MinHash} (h : WFMinHash m) : repair m = m := by
  have hnum : (if m.maxHash ≠ 0 then 0 else m.num) = m.num := by
    by_cases hz : m.maxHash = 0
    · simp [hz]
    · simp [hz, h.numOrScaled hz]
  have hs := h.sorted
  have ha := h.aligned
  cases m with
  | mk num ksize seed maxHash mins abunds md5 mol =>
    cases abunds with
    | none =>
      simp only [repair] at hnum ⊢
      rw [hnum, sortNats_eq_self hs]
    | some ab =>
      have hlen : ab.length = mins.length := ha ab rfl
      have e1 : (mins.zip ab).map (fun p => p.1) = mins := map_fst_zip' mins ab (by omega)
      have e2 : (mins.zip ab).map (fun p => p.2) = ab := map_snd_zip' mins ab (by omega)
      simp only [repair] at hnum ⊢
      rw [hnum, sortPairs_zip_eq_self (l₂ := ab) hs, e1, e2]

theorem fromJsonVec_wf (m : MinHash) (h : WFMinHash m) : fromJsonVec (toJsonMH kmhSer m) = .ok m := by
  rw [fromJsonVec_written m h.toInRange h.mol, repair_wf h]

/-! ### HyperLogLog objects fall through the two MinHash variants -/

theorem fromJsonSketch_hll (regs : List Nat) (p q k : Nat)
    (h : (∀ r ∈ regs, r < 256) ∧ p < 2^64 ∧ q < 2^64 ∧ k < 2^64) :
    fromJsonSketch (toJsonSketch (.hll regs p q k)) = .ok (.hll regs p q k) := by
  obtain ⟨hr, hp, hq, hk⟩ := h
  simp [fromJsonSketch, fromJsonVec, fromJsonTree, fromJsonHll, toJsonSketch, G.hllFields, G.kmhTemp, G.btreeTemp,
    hllFields, kmhTemp, btreeTemp, hllField, parseTemp, K.registers, K.p, K.q, K.ksize, K.num, lookup, dupKnown, count,
    reqU, reqNums, getU, getNumArr, u64s, u64, getNums_map_num hr, hp, hq, hk, bind, Except.bind, pure, Except.pure]

/-! ### sketches, signatures, documents -/

theorem fromJsonSketch_written : ∀ (sk : Sketch), WFSketch sk → fromJsonSketch (toJsonSketch sk) = .ok sk.normalise
  | .vec m, h => by simp only [fromJsonSketch, toJsonSketch, fromJsonVec_wf m h, Sketch.normalise]
  | .tree m, h => by
    simp only [fromJsonSketch, toJsonSketch, btreeSer_eq, fromJsonVec_wf m h, Sketch.normalise]
  | .hll regs p q k, h => by simpa [Sketch.normalise] using fromJsonSketch_hll regs p q k h

theorem fromJsonSketches_written : ∀ (l : List Sketch), (∀ sk ∈ l, WFSketch sk) →
    fromJsonSketches (l.map toJsonSketch) = .ok (l.map Sketch.normalise)
  | [], _ => rfl
  | sk :: t, h => by
    have h1 := fromJsonSketch_written sk (h sk (by simp))
    have h2 := fromJsonSketches_written t (fun x hx => h x (by simp [hx]))
    simp [fromJsonSketches, h1, h2]

theorem fromJsonSig_written (s : Signature) (h : WFSignature s) : fromJsonSig (toJsonSig s) = .ok s.normalise := by
  have hs := fromJsonSketches_written s.sketches h
  cases s with
  | mk cls email hf filename name license sketches version =>
    cases filename <;> cases name <;>
    simp [fromJsonSig, toJsonSig, G.sigFields, sigFields, sigField, optStrJson, K.class_, K.email, K.hash_function,
      K.filename, K.name, K.license, K.signatures, K.version, lookup, dupKnown, count, dfltStr, reqStr, req, optStr,
      dfltF64, getF64, getStr, Signature.normalise, bind, Except.bind, pure, Except.pure] <;>
    simp_all

theorem fromJsonSigs_written : ∀ (l : List Signature), (∀ s ∈ l, WFSignature s) →
    fromJsonSigs (l.map toJsonSig) = .ok (l.map Signature.normalise)
  | [], _ => rfl
  | s :: t, h => by
    have h1 := fromJsonSig_written s (h s (by simp))
    have h2 := fromJsonSigs_written t (fun x hx => h x (by simp [hx]))
    simp [fromJsonSigs, h1, h2]

end SigJson
