import Sourmash.Lemmas.CrashReopen
import Sourmash.Theorems.C12
/-! Lemmas/CrashCsv.lean — the link between C10's abstract manifest and C12's CSV round trip.

**The abstraction.**  In `Model/Crash.lean` a manifest is `List Nat`: one *internal location* per
dataset, by dataset id.  The other ten columns of a real manifest row (md5, md5short, ksize, moltype,
num, scaled, n_hashes, with_abundance, name, filename) do not occur in the model, because nothing the
index does between `save_collection` and `open` depends on them: `check_superset` compares rows,
`sig_for_dataset` loads by location.  `RevIndex::open` reads the manifest back with
`Manifest::from_reader` from the bytes `Manifest::to_writer` wrote; the model takes that trip as a
parameter `rt : Manifest → Option Manifest` and the reopen theorems assume `∀ m, rt m = some m`.

**The link.**  C12's theorem (`Sourmash.C12.csv_roundtrip`) is about lists of full rows
(`Select.Record`, eleven fields).  To instantiate `rt` with the real trip one has to say which full row
stands behind an abstract location: an *interpretation* `enc : Nat → Select.Record` (the row that
`Record::from_sig` builds for the signature stored at that location) together with the projection
`dec : Select.Record → Nat` back to the abstract identity.  `csvTrip enc dec` is then literally
"encode the rows, `to_writer`, `from_reader`, project": the model of what `open ∘ save_collection` does
to the abstract manifest.  For every interpretation that
* is faithful (`dec (enc n) = n`: distinct locations give distinguishable rows — in the code the
  location *is* a column of the row), and
* produces rows whose integer fields fit their Rust types (`ksize`, `num` : `u32`; `scaled`,
  `n_hashes` : `u64` — true of every row the Rust code can hold),
C12's theorem gives `csvTrip enc dec m = some m` for every `m`, which is the hypothesis `hrt`.
The string columns are unconstrained (any bytes: commas, quotes, CR/LF, leading `#`).

What this does **not** prove: that the ten columns the model drops are irrelevant to the real
`open` / `check_superset` (that is the model/code correspondence, checked differentially by
`./check C10`), nor anything about rows that `from_sig` cannot build. -/
namespace Crash

/-- the integer columns of a row fit their Rust types (hypothesis of `Sourmash.C12.csv_roundtrip`) -/
def RowFits (r : Select.Record) : Prop :=
  r.ksize < _root_.Manifest.u32 ∧ r.num < _root_.Manifest.u32 ∧
  r.scaled < _root_.Manifest.u64 ∧ r.nHashes < _root_.Manifest.u64

/-- `Manifest::from_reader ∘ Manifest::to_writer` on the abstract manifest, through an interpretation
`enc` of locations as full rows and the projection `dec` back -/
def csvTrip (enc : Nat → Select.Record) (dec : Select.Record → Nat) (m : Manifest) : Option Manifest :=
  (_root_.Manifest.fromReader (_root_.Manifest.toWriter (m.map enc))).map (fun rows => rows.map dec)

/-- C12's CSV round trip discharges the round-trip hypothesis of C10's reopen theorems -/
theorem csvTrip_id (enc : Nat → Select.Record) (dec : Select.Record → Nat)
    (hdec : ∀ n, dec (enc n) = n) (hfit : ∀ n, RowFits (enc n)) (m : Manifest) :
    csvTrip enc dec m = some m := by
  unfold csvTrip
  rw [Sourmash.C12.csv_roundtrip (m.map enc) (by
    intro r hr
    obtain ⟨n, _, rfl⟩ := List.mem_map.1 hr
    exact hfit n)]
  simp [List.map_map, Function.comp_def, hdec]

/-- an example interpretation: location `n` is the path `"a…a"` (`n` letters); all other columns of
the row are those of `base` -/
def exEnc (base : Select.Record) (n : Nat) : Select.Record :=
  { base with internalLocation := List.replicate n 97 }
def exDec (r : Select.Record) : Nat := r.internalLocation.length

theorem exEnc_faithful (base : Select.Record) (n : Nat) : exDec (exEnc base n) = n := by
  simp [exDec, exEnc]
theorem exEnc_fits (base : Select.Record) (hb : RowFits base) (n : Nat) : RowFits (exEnc base n) := hb
theorem rowFits_default : RowFits default := by unfold RowFits; decide

end Crash
