import Sourmash.Lemmas.IndexBuild
import Sourmash.Lemmas.LookupExact
/-! Lemmas/IndexExtend.lean (C09) — a from-scratch build equals the sequential reference; `check_superset`;
`update` after `create`.  Core Lean only. -/
namespace RevIdx

theorem empty_db_good (c : ManyCodec) : ({} : Db).Good c := by
  unfold Db.Good
  constructor
  · intro h e he; exact absurd he (by simp)
  · intro e he; exact absurd he (by simp)

theorem todo_mem {P : Datasets} {n x : Nat} : x ∈ todo P n ↔ x < n ∧ x ∉ P.ids := by
  simp [todo, Datasets.contains]

theorem todo_empty (n : Nat) : todo Datasets.empty n = List.range n := by
  simp [todo, Datasets.contains, Datasets.ids]

/-- two ascending lists with the same members -/
theorem eq_of_sorted_of_mem {a b : List Nat} (ha : Sorted a) (hb : Sorted b) (h : ∀ x, x ∈ a ↔ x ∈ b) : a = b :=
  sorted_ext ha hb h

/-- the state after the tasks `ds` ran on top of `db`, as ascending id lists -/
theorem build_from_scratch {c : ManyCodec} (hc : c.Lawful) (C : Coll) (hn : C.length ≤ 2 ^ 32)
    (sched : List Write) (hs : Interleaving (programs C (List.range C.length)) sched)
    (g : Grouping) (hg : GroupingOK g) :
    (applyWrites c {} sched g).Good c ∧
    (∀ h, lookupIds c ((applyWrites c {} sched g).hashes h) = refIds C h) ∧
    lookupIds c (applyWrites c {} sched g).processed = List.range C.length := by
  have hds : ∀ d ∈ List.range C.length, d < 2 ^ 32 := by
    intro d hd; have := List.mem_range.mp hd; omega
  have hb := build_lookup hc {} (empty_db_good c) C _ hds sched hs g hg
  refine ⟨hb.1, fun h => ?_, ?_⟩
  · apply eq_of_sorted_of_mem (sorted_lookupIds hc (hb.1.1 h)) (sorted_refIds C h)
    intro x
    rw [hb.2.1 h x, mem_refIds]
    simp [lookupIds]
  · apply eq_of_sorted_of_mem (sorted_lookupIds hc hb.1.2) (sorted_range _)
    intro x
    rw [hb.2.2 x]
    simp [lookupIds]

theorem createDb_eq (c : ManyCodec) (C : Coll) (choices : List Nat) (g : Grouping) :
    createDb c C choices g = applyWrites c {} (runSchedule (programs C (List.range C.length)) choices) g := by
  simp [createDb, buildInto, loadProcessed, todo_empty]

/-! ### check_superset -/

theorem checkSuperset_false_iff {ρ : Type} [BEq ρ] [LawfulBEq ρ] :
    ∀ (s o : List ρ), checkSuperset s o = false ↔ ∃ i, ∃ (h1 : i < s.length) (h2 : i < o.length), s[i] ≠ o[i]
  | [], o => by simp [checkSuperset]
  | a :: s, [] => by simp [checkSuperset]
  | a :: s, b :: o => by
    have ih := checkSuperset_false_iff s o
    simp only [checkSuperset, List.zip_cons_cons, List.all_cons, Bool.and_eq_false_iff] at ih ⊢
    rw [ih]
    constructor
    · rintro (h | ⟨i, h1, h2, hne⟩)
      · refine ⟨0, by simp, by simp, ?_⟩
        simp only [List.getElem_cons_zero]
        intro e; subst e; simp at h
      · exact ⟨i + 1, by simp; omega, by simp; omega, by simpa using hne⟩
    · rintro ⟨i, h1, h2, hne⟩
      cases i with
      | zero =>
        left
        simp only [List.getElem_cons_zero] at hne
        simpa using hne
      | succ j =>
        right
        exact ⟨j, by simp at h1; omega, by simp at h2; omega, by simpa using hne⟩

theorem checkSuperset_prefix {ρ : Type} [BEq ρ] [LawfulBEq ρ] (s ext : List ρ) :
    checkSuperset s (s ++ ext) = true := by
  cases h : checkSuperset s (s ++ ext) with
  | true => rfl
  | false =>
    obtain ⟨i, h1, h2, hne⟩ := (checkSuperset_false_iff s (s ++ ext)).mp h
    exact absurd (List.getElem_append_left h1).symm hne

/-! ### update after create -/

theorem getD_append_lt {C₁ C₂ : Coll} {x : Nat} (h : x < C₁.length) : (C₁ ++ C₂).getD x [] = C₁.getD x [] := by
  simp [List.getD_eq_getElem?_getD, List.getElem?_append_left h]

/-- `create(C₁)` under any schedule/grouping, then `update(C₁ ++ C₂)` under any schedule/grouping, yields
the sequential reference of `C₁ ++ C₂` on HASHES and PROCESSED -/
theorem update_after_create {c : ManyCodec} (hc : c.Lawful) (C₁ C₂ : Coll) (hn : (C₁ ++ C₂).length ≤ 2 ^ 32)
    {ρ : Type} [BEq ρ] [LawfulBEq ρ] (old ext : List ρ) (hold : old.length = C₁.length)
    (ch₁ ch₂ : List Nat) (g₁ g₂ : Grouping) (hg₁ : GroupingOK g₁) (hg₂ : GroupingOK g₂) :
    ∃ db, updateDb c (createDb c C₁ ch₁ g₁) old (old ++ ext) (C₁ ++ C₂) ch₂ g₂ = some db ∧
      (∀ h, lookupIds c (db.hashes h) = refIds (C₁ ++ C₂) h) ∧
      lookupIds c db.processed = List.range (C₁ ++ C₂).length := by
  have hn₁ : C₁.length ≤ 2 ^ 32 := by simp at hn; omega
  have h1 := build_from_scratch hc C₁ hn₁ _ (runSchedule_interleaving ch₁ _) g₁ hg₁
  rw [← createDb_eq] at h1
  generalize createDb c C₁ ch₁ g₁ = db1 at h1
  obtain ⟨good1, hash1, proc1⟩ := h1
  -- the processed set loaded by `open`
  have hP : (loadProcessed c db1 old.length false).ids = List.range C₁.length := by
    unfold loadProcessed
    cases hp : db1.processed with
    | some b => rw [hp] at proc1; simpa [lookupIds] using proc1
    | none =>
      rw [hp] at proc1
      simp only [lookupIds] at proc1
      have : C₁.length = 0 := by
        cases hC : C₁.length with
        | zero => rfl
        | succ k => rw [hC, List.range_succ] at proc1; simp at proc1
      simp [hold, this, Datasets.new, Datasets.ids]
  let n := (C₁ ++ C₂).length
  let ds := todo (loadProcessed c db1 old.length false) n
  have hds_mem : ∀ x, x ∈ ds ↔ x < n ∧ ¬ x < C₁.length := by
    intro x
    show x ∈ todo _ _ ↔ _
    rw [todo_mem, hP, List.mem_range]
  have hds : ∀ d ∈ ds, d < 2 ^ 32 := by
    intro d hd
    have := ((hds_mem d).mp hd).1
    show d < 2 ^ 32
    omega
  have hb := build_lookup hc db1 good1 (C₁ ++ C₂) ds hds _ (runSchedule_interleaving ch₂ _) g₂ hg₂
  refine ⟨applyWrites c db1 (runSchedule (programs (C₁ ++ C₂) ds) ch₂) g₂, ?_, fun h => ?_, ?_⟩
  · unfold updateDb
    rw [checkSuperset_prefix, if_pos rfl]
    rfl
  · apply eq_of_sorted_of_mem (sorted_lookupIds hc (hb.1.1 h)) (sorted_refIds _ h)
    intro x
    rw [hb.2.1 h x, hash1 h, mem_refIds, mem_refIds, hds_mem]
    have hlen : n = C₁.length + C₂.length := by simp [n]
    constructor
    · rintro (⟨hx, hm⟩ | ⟨⟨hx, _⟩, hm⟩)
      · exact ⟨by show x < n; omega, by rw [getD_append_lt hx]; exact hm⟩
      · exact ⟨hx, hm⟩
    · rintro ⟨hx, hm⟩
      by_cases hlt : x < C₁.length
      · exact Or.inl ⟨hlt, by rw [getD_append_lt hlt] at hm; exact hm⟩
      · exact Or.inr ⟨⟨hx, hlt⟩, hm⟩
  · apply eq_of_sorted_of_mem (sorted_lookupIds hc hb.1.2) (sorted_range _)
    intro x
    rw [hb.2.2 x, proc1, hds_mem, List.mem_range, List.mem_range]
    have hlen : n = C₁.length + C₂.length := by simp [n]
    constructor
    · rintro (hx | ⟨hx, _⟩)
      · show x < n; omega
      · exact hx
    · intro hx
      by_cases hlt : x < C₁.length
      · exact Or.inl hlt
      · exact Or.inr ⟨hx, hlt⟩

end RevIdx
