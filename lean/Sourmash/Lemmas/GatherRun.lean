import Sourmash.Lemmas.GatherInv
/-! Positional facts about `Gather.run` / `Gather.final` (core Lean only): what the head of a run is,
what any position of a run is, and what one round tells about the next ones. -/
namespace Gather

/-- head of a run: a `step` from the start state, followed by the run from the successor -/
theorem run_cons {c : Cfg} {f : Nat} {s : St} {p : St × Row} {post : List (St × Row)}
    (h : run c f s = p :: post) :
    p.1 = s ∧ ∃ f' s2, f = f' + 1 ∧ step c s = some (p.2, s2) ∧ post = run c f' s2 := by
  cases f with
  | zero => simp [run] at h
  | succ f' =>
    unfold run at h
    split at h
    · simp at h
    · rename_i row s' hstep
      simp only [List.cons.injEq] at h
      obtain ⟨rfl, rfl⟩ := h
      exact ⟨rfl, f', s', rfl, hstep, rfl⟩

theorem step_reported {c : Cfg} {s s' : St} {row : Row} (h : step c s = some (row, s')) :
    s'.reported = s.reported ++ [row.d] ∧ s'.matchSize = row.size ∧ row.rank = s.reported.length ∧
    s'.sumW = row.sumW := by
  obtain ⟨d, size, _, _, _, _, _, hrow, hs'⟩ := step_some h
  subst hrow
  rw [hs']
  exact ⟨rfl, rfl, rfl, rfl⟩

/-- any position of a run is the head of a run from its own state; its state's `reported` is the start's
    plus the datasets of the rows before it -/
theorem run_split {c : Cfg} (w : WF c) {pre : List (St × Row)} :
    ∀ {f : Nat} {s : St} {p : St × Row} {post : List (St × Row)},
    run c f s = pre ++ p :: post → Inv c s →
    (∃ f', run c f' p.1 = p :: post) ∧ Inv c p.1 ∧
    p.1.reported = s.reported ++ pre.map (·.2.d) := by
  induction pre with
  | nil =>
    intro f s p post h hi
    obtain ⟨hp, _⟩ := run_cons h
    rw [hp]
    refine ⟨⟨f, by simpa using h⟩, hi, by simp⟩
  | cons x pre ih =>
    intro f s p post h hi
    obtain ⟨hx, f', s2, _, hstep, hpost⟩ := run_cons h
    have := ih hpost.symm (inv_step w hi hstep)
    refine ⟨this.1, this.2.1, ?_⟩
    rw [this.2.2, (step_reported hstep).1]
    simp

/-- no counter value above `B` ⇒ no later match size above `B` -/
theorem run_sizes_le {c : Cfg} (B : Nat) :
    ∀ (f : Nat) {s : St}, (∀ e ∈ s.counter, e.2 ≤ B) → ∀ p ∈ run c f s, p.2.size ≤ B := by
  intro f
  induction f with
  | zero => intro s _ p hp; simp [run] at hp
  | succ f ih =>
    intro s hB p hp
    unfold run at hp
    split at hp
    · simp at hp
    · rename_i row s' hstep
      obtain ⟨d, size, _, _, ha, _, _, hrow, hs'⟩ := step_some hstep
      have hmem := (argmax_isBest ha).1
      rw [List.mem_cons] at hp
      rcases hp with rfl | hp
      · rw [hrow, stats_size]; exact hB _ hmem
      · apply ih _ p hp
        intro e' he'
        have hc : s'.counter = (decrement c.dsets row.isect s.counter).filter (fun e => e.1 != d) := by rw [hs']
        obtain ⟨e, he, _, rfl⟩ := (mem_counter_after hrow hc).mp he'
        have := hB e he
        show e.2 - _ ≤ B
        omega

/-- after a round, every counter value is at most the size just reported -/
theorem step_counter_le {c : Cfg} {s s' : St} {row : Row} (h : step c s = some (row, s')) :
    ∀ e ∈ s'.counter, e.2 ≤ row.size := by
  obtain ⟨d, size, _, _, ha, _, _, hrow, hs'⟩ := step_some h
  have hbest := argmax_isBest ha
  intro e' he'
  have hc : s'.counter = (decrement c.dsets row.isect s.counter).filter (fun e => e.1 != d) := by rw [hs']
  obtain ⟨e, he, _, rfl⟩ := (mem_counter_after hrow hc).mp he'
  have := hbest.2 e he
  rw [hrow, stats_size]
  show e.2 - _ ≤ size
  have h3 : (d, size).2 = size := rfl
  omega

/-- a round whose match size equals the threshold is the last one -/
theorem step_at_threshold_last {c : Cfg} {s s' : St} {row : Row} (h : step c s = some (row, s'))
    (ht : row.size = c.threshold) (f : Nat) : run c f s' = [] := by
  have hm := (step_reported h).2.1
  cases f with
  | zero => rfl
  | succ f =>
    have : step c s' = none := by
      unfold step
      have : ¬ (s'.matchSize > c.threshold ∧ s'.counter ≠ []) := by
        intro hc; omega
      simp [this]
    simp [run, this]

theorem getLast_aux (a : Nat) (t : List Nat) (x y z : Nat) :
    (a :: t).getLast?.getD x = (z :: a :: t).getLast?.getD y := by
  rw [List.getLast?_cons_cons, List.getLast?_eq_some_getLast (List.cons_ne_nil a t)]
  simp

/-- the state the loop stops in: reported datasets and last match size -/
theorem final_reported {c : Cfg} : ∀ (f : Nat) (s : St),
    (final c f s).reported = s.reported ++ (run c f s).map (·.2.d) ∧
    (final c f s).matchSize = (((run c f s).map (·.2.size)).getLast?).getD s.matchSize := by
  intro f
  induction f with
  | zero => intro s; simp [final, run]
  | succ f ih =>
    intro s
    unfold final run
    cases hstep : step c s with
    | none => simp
    | some p =>
      obtain ⟨row, s'⟩ := p
      have hr := step_reported hstep
      have := ih s'
      simp only
      refine ⟨by rw [this.1, hr.1]; simp, ?_⟩
      rw [this.2, hr.2.1]
      simp only [List.map_cons]
      cases hrun : List.map (fun x => x.2.size) (run c f s') with
      | nil => simp
      | cons a t => exact getLast_aux a t _ _ _

end Gather

namespace Gather

/-- what the theorems assume about the inputs: every dataset and the query are strictly increasing hash
    lists (scaled sketches of one collection) -/
def Sketches (c : Cfg) : Prop :=
  (∀ D ∈ c.dsets, D.Pairwise (· < ·)) ∧ (c.orig.map (·.1)).Pairwise (· < ·)

theorem Sketches.wf {c : Cfg} (h : Sketches c) : WF c := WF.of_sorted h.1 h.2

/-- the match of a round: a maximal counter entry (lowest id among the maxima) whose value is the
    overlap with the remaining query, which is also the size of the reported intersection -/
theorem step_choice {c : Cfg} {s s' : St} {row : Row} (hi : Inv c s) (h : step c s = some (row, s')) :
    IsBest s.counter (row.d, row.size) ∧ row.size = ov c row.d s.remaining ∧
    row.isect = isectL (dsOf c.dsets row.d) (keys s.remaining) ∧ row.isect.length = row.size := by
  obtain ⟨d, size, _, _, ha, _, _, hrow, _⟩ := step_some h
  have hbest := argmax_isBest ha
  have h1 : row.d = d := by rw [hrow, stats_d]
  have h2 : row.size = size := by rw [hrow, stats_size]
  have h3 : row.isect = isectL (dsOf c.dsets d) (keys s.remaining) := by rw [hrow, stats_isect]
  have h4 := hi.cnt _ hbest.1
  rw [h1, h2]
  refine ⟨hbest, h4, h3, ?_⟩
  rw [h3]
  exact h4.symm

/-- T-greedy for one round -/
theorem step_greedy {c : Cfg} {s s' : St} {row : Row} (hi : Inv c s) (h : step c s = some (row, s')) :
    row.d < c.dsets.length ∧ row.d ∉ s.reported ∧
    ∀ d', d' ∉ s.reported →
      ov c d' s.remaining < ov c row.d s.remaining ∨
      (ov c d' s.remaining = ov c row.d s.remaining ∧ row.d ≤ d') := by
  obtain ⟨hbest, hsz, _, _⟩ := step_choice hi h
  obtain ⟨_, _, _, _, _, _, h0, hrow, _⟩ := step_some h
  have hpos : row.size ≠ 0 := by rw [hrow, stats_size]; exact h0
  have hk : row.d ∈ keys s.counter := List.mem_map.mpr ⟨_, hbest.1, rfl⟩
  refine ⟨hi.inRange _ hbest.1, fun hr => hi.fresh _ hr hk, ?_⟩
  intro d' hd'
  rw [← hsz]
  by_cases hk' : d' ∈ keys s.counter
  · obtain ⟨e, he, rfl⟩ := List.mem_map.mp hk'
    have := hbest.2 e he
    rw [← hi.cnt e he]
    exact this
  · rcases hi.absent d' hk' with h1 | h1
    · exact absurd h1 hd'
    · left; omega

/-- when the loop has stopped -/
theorem stopped {c : Cfg} {s : St} (hi : Inv c s) (h : step c s = none) :
    s.matchSize ≤ c.threshold ∨
    ∀ d', d' ∉ s.reported → ov c d' s.remaining < c.threshold ∨ ov c d' s.remaining = 0 := by
  rcases step_none h with h1 | h1 | ⟨d, size, ha, hsz⟩
  · exact Or.inl h1
  · right
    intro d' hd'
    rcases hi.absent d' (by simp [keys, h1]) with h2 | h2
    · exact absurd h2 hd'
    · exact Or.inr h2
  · right
    have hbest := argmax_isBest ha
    intro d' hd'
    by_cases hk' : d' ∈ keys s.counter
    · obtain ⟨e, he, rfl⟩ := List.mem_map.mp hk'
      have := hbest.2 e he
      rw [← hi.cnt e he]
      have h3 : (d, size).2 = size := rfl
      omega
    · rcases hi.absent d' hk' with h2 | h2
      · exact absurd h2 hd'
      · exact Or.inr h2

/-- the loop with the model's fuel has really stopped -/
theorem final_stopped (c : Cfg) : step c (final c (fuel c) (init c)) = none := by
  apply final_fuel
  have := prepareCounter_length c.dsets (c.orig.map (·.1))
  simp only [init, fuel]
  omega

theorem ov_le_length (c : Cfg) (d : Nat) (rem : List (Nat × Nat)) : ov c d rem ≤ (dsOf c.dsets d).length :=
  List.length_filter_le _ _

end Gather
