import Sourmash.Lemmas.SetOpsSigAdd
/-! Consequences of the machine invariant: what a finished parallel `add_sequence` leaves, for every
schedule; sequential schedules are complete; the in-order schedule is the serial variant. -/
namespace SigAdd
variable {σ ε : Type}

theorem complete_iff (m : Par σ ε) :
    m.complete = true ↔ ∀ (j : Nat) (sl : σ × Status ε), m.tasks[j]? = some sl → settled sl = true := by
  simp only [Par.complete, List.all_eq_true]
  constructor
  · intro h j sl hj
    exact h sl (List.mem_of_getElem? hj)
  · intro h sl hm
    obtain ⟨j, hj⟩ := List.mem_iff_getElem?.1 hm
    exact h j sl hj

theorem settled_cases {sl : σ × Status ε} (h : settled sl = true) :
    sl.2 = .skipped ∨ ∃ r, sl.2 = .done r := by
  obtain ⟨s, st⟩ := sl
  cases st <;> simp_all [settled]

theorem result_none_iff (m : Par σ ε) :
    m.result = none ↔ ∀ (j : Nat) (sl : σ × Status ε) (e : ε), m.tasks[j]? = some sl → sl.2 ≠ .done (some e) := by
  simp only [Par.result, List.findSome?_eq_none_iff]
  constructor
  · intro h j sl e hj hd
    have := h sl (List.mem_of_getElem? hj)
    simp [errOf, hd] at this
  · intro h sl hm
    obtain ⟨j, hj⟩ := List.mem_iff_getElem?.1 hm
    obtain ⟨s, st⟩ := sl
    cases st with
    | done r =>
      cases r with
      | none => simp [errOf]
      | some e => exact absurd rfl (h j _ e hj)
    | _ => simp [errOf]

theorem result_some {m : Par σ ε} {e : ε} (h : m.result = some e) :
    ∃ (j : Nat) (sl : σ × Status ε), m.tasks[j]? = some sl ∧ sl.2 = .done (some e) := by
  simp only [Par.result] at h
  obtain ⟨sl, hm, he⟩ := List.exists_of_findSome?_eq_some h
  obtain ⟨j, hj⟩ := List.mem_iff_getElem?.1 hm
  refine ⟨j, sl, hj, ?_⟩
  obtain ⟨s, st⟩ := sl
  cases st with
  | done r =>
    cases r with
    | none => simp [errOf] at he
    | some e' => simp [errOf] at he; simp [he]
  | _ => simp [errOf] at he

/-- a finished run that returns `Ok(())`: every call was made, none failed -/
theorem inv_result_none {f : σ → σ × Option ε} {sigs : List σ} {m : Par σ ε} (h : Inv f sigs m)
    (hc : m.complete = true) (hr : m.result = none) :
    m.sketches = sigs.map (fun s => (f s).1) ∧ ∀ s ∈ sigs, (f s).2 = none := by
  have hnd := (result_none_iff m).1 hr
  have hfull : m.full = false := by
    cases hf : m.full with
    | false => rfl
    | true =>
      obtain ⟨j, sl, e, hj, hd⟩ := h.full_iff.1 hf
      exact absurd hd (hnd j sl e hj)
  have hdone : ∀ (j : Nat) (s0 : σ), sigs[j]? = some s0 →
      ∃ sl, m.tasks[j]? = some sl ∧ sl.1 = (f s0).1 ∧ (f s0).2 = none := by
    intro j s0 h0
    have hlt : j < m.tasks.length := by
      rw [h.len]; exact (List.getElem?_eq_some_iff.1 h0).1
    obtain ⟨sl, hj⟩ : ∃ sl, m.tasks[j]? = some sl := ⟨m.tasks[j], List.getElem?_eq_getElem hlt⟩
    have hs := (complete_iff m).1 hc j sl hj
    have hok := h.slot j s0 sl h0 hj
    rcases settled_cases hs with hk | ⟨r, hd⟩
    · have := h.skip j sl hj hk
      rw [hfull] at this; cases this
    · simp only [SlotOK, hd] at hok
      refine ⟨sl, hj, hok.1, ?_⟩
      cases r with
      | none => exact hok.2.symm
      | some e => exact absurd hd (hnd j sl e hj)
  constructor
  · apply List.ext_getElem?
    intro j
    simp only [Par.sketches, List.getElem?_map]
    cases h0 : sigs[j]? with
    | none =>
      have : m.tasks[j]? = none := by
        rw [List.getElem?_eq_none_iff] at h0 ⊢
        rw [h.len]; exact h0
      simp [this]
    | some s0 =>
      obtain ⟨sl, hj, h1, _⟩ := hdone j s0 h0
      simp [hj, h1]
  · intro s hs
    obtain ⟨j, hj⟩ := List.mem_iff_getElem?.1 hs
    obtain ⟨_, _, _, h2⟩ := hdone j s hj
    exact h2

/-- when no call can fail, a finished run has made every call and returns `Ok(())` -/
theorem inv_no_fail {f : σ → σ × Option ε} {sigs : List σ} {m : Par σ ε} (h : Inv f sigs m)
    (hok : ∀ s ∈ sigs, (f s).2 = none) : m.result = none := by
  rw [result_none_iff]
  intro j sl e hj hd
  have hlt : j < sigs.length := by
    rw [← h.len]; exact (List.getElem?_eq_some_iff.1 hj).1
  have h0 : sigs[j]? = some sigs[j] := List.getElem?_eq_getElem hlt
  have := h.slot j _ sl h0 hj
  simp only [SlotOK, hd] at this
  rw [hok _ (List.getElem_mem hlt)] at this
  cases this.2

/-! ### sequential schedules -/

def NoRunning (m : Par σ ε) : Prop :=
  ∀ (j : Nat) (sl : σ × Status ε), m.tasks[j]? = some sl → sl.2 ≠ .running

def SettledAt (m : Par σ ε) (j : Nat) : Prop :=
  ∀ (sl : σ × Status ε), m.tasks[j]? = some sl → settled sl = true

theorem pair_tasks (f : σ → σ × Option ε) (m : Par σ ε) (i j : Nat) :
    (step f (step f m (.check i)) (.finish i)).tasks[j]? =
      if i = j then (m.tasks[j]?.map (onCheck m.full)).map (onFinish f) else m.tasks[j]? := by
  simp only [step, getElem?_modifyAt]
  split <;> rfl

theorem settled_pair (f : σ → σ × Option ε) (b : Bool) (sl : σ × Status ε) (h : sl.2 ≠ .running) :
    settled (onFinish f (onCheck b sl)) = true := by
  obtain ⟨s, st⟩ := sl
  cases st <;> cases b <;> simp_all [onCheck, onFinish, settled]

theorem settled_pair_mono (f : σ → σ × Option ε) (b : Bool) (sl : σ × Status ε) (h : settled sl = true) :
    onFinish f (onCheck b sl) = sl := by
  obtain ⟨s, st⟩ := sl
  cases st <;> simp_all [onCheck, onFinish, settled]

theorem settled_not_running {sl : σ × Status ε} (h : settled sl = true) : sl.2 ≠ .running := by
  obtain ⟨s, st⟩ := sl
  cases st <;> simp_all [settled]

theorem pair_step {f : σ → σ × Option ε} {m : Par σ ε} (i : Nat) (h : NoRunning m) :
    NoRunning (step f (step f m (.check i)) (.finish i)) ∧
    SettledAt (step f (step f m (.check i)) (.finish i)) i ∧
    ∀ j, SettledAt m j → SettledAt (step f (step f m (.check i)) (.finish i)) j := by
  refine ⟨?_, ?_, ?_⟩
  · intro j sl hj
    rw [pair_tasks] at hj
    split at hj
    · cases ht : m.tasks[j]? with
      | none => simp [ht] at hj
      | some sl0 =>
        simp only [ht, Option.map_some, Option.some.injEq] at hj
        subst hj
        exact settled_not_running (settled_pair f m.full sl0 (h j sl0 ht))
    · exact h j sl hj
  · intro sl hj
    rw [pair_tasks] at hj
    rw [if_pos rfl] at hj
    cases ht : m.tasks[i]? with
    | none => simp [ht] at hj
    | some sl0 =>
      simp only [ht, Option.map_some, Option.some.injEq] at hj
      subst hj
      exact settled_pair f m.full sl0 (h i sl0 ht)
  · intro j hs sl hj
    rw [pair_tasks] at hj
    split at hj
    · cases ht : m.tasks[j]? with
      | none => simp [ht] at hj
      | some sl0 =>
        simp only [ht, Option.map_some, Option.some.injEq] at hj
        subst hj
        rw [settled_pair_mono f m.full sl0 (hs sl0 ht)]
        exact hs sl0 ht
    · exact hs sl hj

theorem exec_append (f : σ → σ × Option ε) (m : Par σ ε) (a b : List Ev) :
    exec f m (a ++ b) = exec f (exec f m a) b := by
  simp [exec, List.foldl_append]

theorem seqTrace_cons (i : Nat) (t : List Nat) :
    seqTrace (i :: t) = [.check i, .finish i] ++ seqTrace t := by
  simp [seqTrace]

theorem seq_settles {f : σ → σ × Option ε} (order : List Nat) {m : Par σ ε} (h : NoRunning m) :
    NoRunning (exec f m (seqTrace order)) ∧
    (∀ j, j ∈ order → SettledAt (exec f m (seqTrace order)) j) ∧
    (∀ j, SettledAt m j → SettledAt (exec f m (seqTrace order)) j) := by
  induction order generalizing m with
  | nil => exact ⟨h, (by intro j hj; cases hj), fun _ hs => hs⟩
  | cons i t ih =>
    rw [seqTrace_cons, exec_append]
    obtain ⟨h1, h2, h3⟩ := pair_step (f := f) i h
    obtain ⟨k1, k2, k3⟩ := ih (m := exec f m [.check i, .finish i]) h1
    refine ⟨k1, ?_, fun j hs => k3 j (h3 j hs)⟩
    intro j hj
    rcases List.mem_cons.1 hj with rfl | hj
    · exact k3 _ h2
    · exact k2 j hj

theorem noRunning_init (sigs : List σ) : NoRunning (Par.init sigs : Par σ ε) := by
  intro j sl hj
  simp only [Par.init, List.getElem?_map] at hj
  cases hs : sigs[j]? with
  | none => simp [hs] at hj
  | some s => simp [hs] at hj; subst hj; simp

/-- a sequential schedule that reaches every item leaves nothing waiting or executing -/
theorem seq_complete (f : σ → σ × Option ε) (sigs : List σ) (order : List Nat)
    (hcov : ∀ j, j < sigs.length → j ∈ order) :
    (exec f (Par.init sigs) (seqTrace order)).complete = true := by
  rw [complete_iff]
  intro j sl hj
  obtain ⟨_, h2, _⟩ := seq_settles (f := f) order (noRunning_init (ε := ε) sigs)
  have hlt : j < sigs.length := by
    rw [← (inv_run f sigs (seqTrace order)).len]
    exact (List.getElem?_eq_some_iff.1 hj).1
  exact h2 j (hcov j hlt) sl hj

/-! ### the serial variant -/

theorem serial_ok (f : σ → σ × Option ε) (sigs : List σ) (hok : ∀ s ∈ sigs, (f s).2 = none) :
    serial f sigs = (sigs.map (fun s => (f s).1), none) := by
  induction sigs with
  | nil => rfl
  | cons s t ih =>
    have h1 := hok s (List.mem_cons_self ..)
    have h2 := ih (fun x hx => hok x (List.mem_cons_of_mem _ hx))
    simp [serial, h1, h2]

theorem serial_fail (f : σ → σ × Option ε) (pre : List σ) (s : σ) (post : List σ) (e : ε)
    (hpre : ∀ x ∈ pre, (f x).2 = none) (hs : (f s).2 = some e) :
    serial f (pre ++ s :: post) = (pre.map (fun x => (f x).1) ++ (f s).1 :: post, some e) := by
  induction pre with
  | nil => simp [serial, hs]
  | cons a t ih =>
    have h1 := hpre a (List.mem_cons_self ..)
    have h2 := ih (fun x hx => hpre x (List.mem_cons_of_mem _ hx))
    simp [serial, h1, h2]

/-! ### the in-order schedule is the serial variant -/

def shiftEv : Ev → Ev
  | .check i => .check (i + 1)
  | .finish i => .finish (i + 1)

theorem step_shift (f : σ → σ × Option ε) (a : σ × Status ε) (m : Par σ ε) (ev : Ev) :
    step f { tasks := a :: m.tasks, full := m.full } (shiftEv ev) =
      { tasks := a :: (step f m ev).tasks, full := (step f m ev).full } := by
  cases ev <;> simp [step, shiftEv, modifyAt]

theorem exec_shift (f : σ → σ × Option ε) (a : σ × Status ε) (evs : List Ev) (m : Par σ ε) :
    exec f { tasks := a :: m.tasks, full := m.full } (evs.map shiftEv) =
      { tasks := a :: (exec f m evs).tasks, full := (exec f m evs).full } := by
  induction evs generalizing m with
  | nil => rfl
  | cons ev t ih =>
    simp only [List.map_cons, exec, List.foldl_cons]
    rw [step_shift]
    exact ih (step f m ev)

theorem seqTrace_range_succ (n : Nat) :
    seqTrace (List.range (n + 1)) = [.check 0, .finish 0] ++ (seqTrace (List.range n)).map shiftEv := by
  rw [List.range_succ_eq_map, seqTrace_cons]
  congr 1
  simp only [seqTrace, List.flatMap_map, List.map_flatMap]
  rfl

/-- under a set flag with nothing executing no sketch changes any more -/
theorem full_frozen (f : σ → σ × Option ε) (evs : List Ev) (m : Par σ ε) (hf : m.full = true)
    (hn : NoRunning m) : (exec f m evs).sketches = m.sketches := by
  induction evs generalizing m with
  | nil => rfl
  | cons ev t ih =>
    simp only [exec, List.foldl_cons]
    have key : (step f m ev).full = true ∧ NoRunning (step f m ev) ∧ (step f m ev).sketches = m.sketches := by
      cases ev with
      | check i =>
        refine ⟨hf, ?_, ?_⟩
        · intro j sl hj
          simp only [step, getElem?_modifyAt] at hj
          split at hj
          · cases ht : m.tasks[j]? with
            | none => simp [ht] at hj
            | some sl0 =>
              simp only [ht, Option.map_some, Option.some.injEq] at hj
              subst hj
              have := hn j sl0 ht
              obtain ⟨s, st⟩ := sl0
              cases st <;> simp_all [onCheck]
          · exact hn j sl hj
        · apply List.ext_getElem?
          intro j
          simp only [Par.sketches, step, List.getElem?_map, getElem?_modifyAt]
          split
          · cases ht : m.tasks[j]? with
            | none => rfl
            | some sl0 =>
              obtain ⟨s, st⟩ := sl0
              cases st <;> simp [onCheck]
          · rfl
      | finish i =>
        have hid : ∀ sl0 : σ × Status ε, sl0.2 ≠ .running → onFinish f sl0 = sl0 := by
          intro sl0 h0
          obtain ⟨s, st⟩ := sl0
          cases st <;> simp_all [onFinish]
        refine ⟨by simp [step, hf], ?_, ?_⟩
        · intro j sl hj
          simp only [step, getElem?_modifyAt] at hj
          split at hj
          · cases ht : m.tasks[j]? with
            | none => simp [ht] at hj
            | some sl0 =>
              simp only [ht, Option.map_some, Option.some.injEq] at hj
              subst hj
              rw [hid sl0 (hn j sl0 ht)]
              exact hn j sl0 ht
          · exact hn j sl hj
        · apply List.ext_getElem?
          intro j
          simp only [Par.sketches, step, List.getElem?_map, getElem?_modifyAt]
          split
          · cases ht : m.tasks[j]? with
            | none => rfl
            | some sl0 => simp [hid sl0 (hn j sl0 ht)]
          · rfl
    obtain ⟨k1, k2, k3⟩ := key
    have := ih (step f m ev) k1 k2
    simp only [exec] at this
    rw [this, k3]

/-- … and nothing that could add an error is left to finish -/
theorem full_frozen_result (f : σ → σ × Option ε) (evs : List Ev) (m : Par σ ε) (hf : m.full = true)
    (hn : NoRunning m) (hr : m.result = none) : (exec f m evs).result = none := by
  induction evs generalizing m with
  | nil => exact hr
  | cons ev t ih =>
    simp only [exec, List.foldl_cons]
    have key : (step f m ev).full = true ∧ NoRunning (step f m ev) ∧ (step f m ev).result = none := by
      have hid : ∀ sl0 : σ × Status ε, sl0.2 ≠ .running → onFinish f sl0 = sl0 := by
        intro sl0 h0
        obtain ⟨s, st⟩ := sl0
        cases st <;> simp_all [onFinish]
      rw [result_none_iff] at hr ⊢
      cases ev with
      | check i =>
        refine ⟨hf, ?_, ?_⟩
        · intro j sl hj
          simp only [step, getElem?_modifyAt] at hj
          split at hj
          · cases ht : m.tasks[j]? with
            | none => simp [ht] at hj
            | some sl0 =>
              simp only [ht, Option.map_some, Option.some.injEq] at hj
              subst hj
              have := hn j sl0 ht
              obtain ⟨s, st⟩ := sl0
              cases st <;> simp_all [onCheck]
          · exact hn j sl hj
        · intro j sl e hj hd
          simp only [step, getElem?_modifyAt] at hj
          split at hj
          · cases ht : m.tasks[j]? with
            | none => simp [ht] at hj
            | some sl0 =>
              simp only [ht, Option.map_some, Option.some.injEq] at hj
              subst hj
              exact hr j sl0 e ht (done_of_onCheck hd)
          · exact hr j sl e hj hd
      | finish i =>
        refine ⟨by simp [step, hf], ?_, ?_⟩
        · intro j sl hj
          simp only [step, getElem?_modifyAt] at hj
          split at hj
          · cases ht : m.tasks[j]? with
            | none => simp [ht] at hj
            | some sl0 =>
              simp only [ht, Option.map_some, Option.some.injEq] at hj
              subst hj
              rw [hid sl0 (hn j sl0 ht)]
              exact hn j sl0 ht
          · exact hn j sl hj
        · intro j sl e hj hd
          simp only [step, getElem?_modifyAt] at hj
          split at hj
          · cases ht : m.tasks[j]? with
            | none => simp [ht] at hj
            | some sl0 =>
              simp only [ht, Option.map_some, Option.some.injEq] at hj
              subst hj
              rw [hid sl0 (hn j sl0 ht)] at hd
              exact hr j sl0 e ht hd
          · exact hr j sl e hj hd
    obtain ⟨k1, k2, k3⟩ := key
    exact ih (step f m ev) k1 k2 k3

theorem inorder_serial (f : σ → σ × Option ε) (sigs : List σ) :
    parallel f sigs (seqTrace (List.range sigs.length)) = serial f sigs := by
  induction sigs with
  | nil => rfl
  | cons s t ih =>
    simp only [parallel, List.length_cons] at ih ⊢
    rw [seqTrace_range_succ, exec_append]
    have h0 : exec f (Par.init (s :: t)) [.check 0, .finish 0] =
        { tasks := ((f s).1, .done (f s).2) :: (Par.init t : Par σ ε).tasks,
          full := (f s).2.isSome } := by
      simp [exec, step, Par.init, modifyAt, onCheck, onFinish, failsNow]
    rw [h0]
    cases hr : (f s).2 with
    | none =>
      have := exec_shift f ((f s).1, .done none) (seqTrace (List.range t.length)) (Par.init t)
      simp only [Par.init] at this ⊢
      simp only [Option.isSome_none]
      rw [this]
      simp only [serial, hr, Par.sketches, Par.result, List.map_cons, List.findSome?_cons, errOf]
      have e1 := congrArg Prod.fst ih
      have e2 := congrArg Prod.snd ih
      simp only [Par.sketches, Par.result, Par.init] at e1 e2
      rw [e1, e2]
    | some e =>
      have := exec_shift f ((f s).1, .done (some e)) (seqTrace (List.range t.length))
        { tasks := (Par.init t : Par σ ε).tasks, full := true }
      simp only [Option.isSome_some]
      rw [this]
      have hn : NoRunning ({ tasks := (Par.init t : Par σ ε).tasks, full := true } : Par σ ε) :=
        noRunning_init (ε := ε) t
      have hfz := full_frozen f (seqTrace (List.range t.length)) _ rfl hn
      simp only [serial, hr, Par.sketches, Par.result, List.map_cons, List.findSome?_cons, errOf]
      simp only [Par.sketches] at hfz
      rw [hfz]
      simp [Par.init, Function.comp_def]

end SigAdd
