import Sourmash.Lemmas.SetOpsHom
import Sourmash.Lemmas.SetOpsMoreA
/-! Lemmas/SetOpsMoreB.lean — sketch-level statements of `inflate` / `inflated_abundances`, the num
branch of `intersection` / `intersection_size`, and "the fold of insertions is the specified sketch". -/
namespace SetOps
open SetSpec

/-- What `inflate` must leave in `self`: the shared hashes, each with the abundance it has in the
source; abundance tracking on. -/
theorem inflate_ok {s src : Sk} {ab : List Nat} (ws : s.WF) (wsrc : src.WF)
    (hc : checkCompatible s src = .ok ()) (hab : src.abunds = some ab) :
    s.inflate src = .ok { s with mins := inter s.mins src.mins,
                                 abunds := some ((inter s.mins src.mins).map src.ab) } ∧
    s.inflatedAbundances src =
      .ok ((inter s.mins src.mins).map src.ab, ((inter s.mins src.mins).map src.ab).foldl (· + ·) 0) := by
  have hl := wsrc.2 ab hab
  have hk : (src.mins.zip ab).map Prod.fst = src.mins := List.map_fst_zip (by omega)
  have hq : SInc ((src.mins.zip ab).map Prod.fst) := by rw [hk]; exact wsrc.1
  have e1 : (inflateWalk s.mins (src.mins.zip ab)).map Prod.fst = inter s.mins src.mins := by
    rw [inflateWalk_keys, hk, interIter_eq_inter ws.1 wsrc.1]
  have e2 : (inflateWalk s.mins (src.mins.zip ab)).map Prod.snd = (inter s.mins src.mins).map src.ab := by
    rw [inflateWalk_snd ws.1 hq, hk, interIter_eq_inter ws.1 wsrc.1]
    simp [Sk.ab, Sk.pairs, hab]
  constructor
  · simp only [Sk.inflate, hc, hab, bind, Except.bind, pure, Except.pure, e1, e2]
  · simp only [Sk.inflatedAbundances, hc, hab, bind, Except.bind, pure, Except.pure, e2]

theorem inflate_untracked {s src : Sk} (hc : checkCompatible s src = .ok ()) (hab : src.abunds = none) :
    s.inflate src = .error .NeedsAbundanceTracking ∧
    s.inflatedAbundances src = .error .NeedsAbundanceTracking := by
  simp [Sk.inflate, Sk.inflatedAbundances, hc, hab, bind, Except.bind]

/-! intersections of num sketches -/

theorem union_nil_left {a : List Nat} (ha : SInc a) : union [] a = a := by
  simp [union, sortU_of_sinc ha]

theorem intersection_num (k : Kind) {a b : Sk} (wa : a.WF) (wb : b.WF) (hn : a.num ≠ 0)
    (hm : a.maxHash = 0) (hsz : a.mins.length ≤ a.num) (hc : checkCompatible a b = .ok ()) :
    intersection k a b =
      .ok (inter (inter a.mins b.mins) (bottom a.num (union a.mins b.mins)),
           (bottom a.num (union a.mins b.mins)).length) ∧
    intersectionSize k a b =
      .ok ((inter (inter a.mins b.mins) (bottom a.num (union a.mins b.mins))).length,
           (bottom a.num (union a.mins b.mins)).length) := by
  obtain ⟨c1, c2, c3, c4⟩ := (checkCompatible_ok_iff a b).1 hc
  have hsc : a.scaled = 0 := by show Scaled.scaledForMaxHash a.maxHash = 0; rw [hm]; rfl
  -- the freshly made combined sketch
  let c0 := Sk.new a.scaled a.ksize a.mol a.seed a.track a.num
  have w0 : c0.WF := by
    refine ⟨by simp [c0, Sk.new], ?_⟩
    intro ab hab
    simp only [c0, Sk.new] at hab
    split at hab
    · cases hab; rfl
    · cases hab
  have hmh0 : c0.maxHash = 0 := by simp only [c0, Sk.new, hsc]; rfl
  have hc0 : checkCompatible c0 a = .ok () :=
    (checkCompatible_ok_iff _ _).2 ⟨rfl, rfl, by rw [hmh0, hm], rfl⟩
  have m1 := merge_ok k w0 wa hc0
  have hk1 : (mergeSpec c0 a).mins = a.mins := by
    show bottom a.num (union [] a.mins) = a.mins
    rw [union_nil_left wa.1]
    simp only [bottom, hn, if_false]; exact List.take_of_length_le hsz
  have hc1 : checkCompatible (mergeSpec c0 a) b = .ok () :=
    (checkCompatible_ok_iff _ _).2 ⟨c1, c2, by show c0.maxHash = _; rw [hmh0, ← c3, hm], c4⟩
  have m2 := merge_ok k (mergeSpec_wf (a := c0) (b := a)) wb hc1
  have hk2 : (mergeSpec (mergeSpec c0 a) b).mins = bottom a.num (union a.mins b.mins) := by
    show bottom a.num (union (mergeSpec c0 a).mins b.mins) = _
    rw [hk1]
  have hcomb : combined k a b = .ok (mergeSpec (mergeSpec c0 a) b) := by
    have : combined k a b = (c0.merge k a >>= fun c => c.merge k b) := rfl
    rw [this, m1]; exact m2
  have hi : interIter (interIter a.mins b.mins) (bottom a.num (union a.mins b.mins))
      = inter (inter a.mins b.mins) (bottom a.num (union a.mins b.mins)) := by
    rw [interIter_eq_inter wa.1 wb.1]
    exact interIter_eq_inter (sinc_filter _ wa.1) (sinc_bottom _ (sinc_union _ _))
  constructor
  · simp only [intersection, hc, bind, Except.bind, hn, ne_eq, not_false_eq_true, if_true, hcomb, pure,
      Except.pure, hk2, hi]
  · simp only [intersectionSize, hc, bind, Except.bind, hn, ne_eq, not_false_eq_true, if_true, hcomb, pure,
      Except.pure, hk2, hi]
end SetOps
namespace SetOps
open SetSpec

/-- the fold of insertions into an empty scaled sketch is the sketch the specification defines -/
theorem fold_is_spec (k : Kind) (e : Sk) (he : Sc e) (hemp : e.mins = []) (items : List (Nat × Nat))
    (hpos : ∀ p ∈ items, p.2 ≠ 0) :
    (e.addManyAb k items).mins = sketchKeys 0 e.maxHash (items.map Prod.fst) ∧
    (e.abunds.isSome → ∀ h, (e.addManyAb k items).ab h = if h ≤ e.maxHash then total items h else 0) := by
  obtain ⟨x1, x2, x3, x4, x5, x6, x7, x8⟩ := fold_scaled k items e he hpos
  constructor
  · apply sinc_ext x1.1.1 (sinc_bottom _ (sinc_sortU _))
    intro z
    rw [x7]
    simp only [sketchKeys, bottom, if_true, mem_sortU, List.mem_filter, List.mem_map, within, hemp,
      List.not_mem_nil, false_or, Bool.or_eq_true, beq_iff_eq, decide_eq_true_eq]
    constructor
    · rintro ⟨p, hp, rfl, hle⟩; exact ⟨⟨p, hp, rfl⟩, Or.inr hle⟩
    · rintro ⟨⟨p, hp, rfl⟩, h0 | hle⟩
      · exact absurd h0 he.2.2
      · exact ⟨p, hp, rfl, hle⟩
  · intro ht h
    rw [x8 ht, total_belowP, ab_of_not_mem he.1 (by simp [hemp])]; simp
end SetOps
