import Sourmash.Model.Gather
/-! Helper lemmas for C08 (core Lean only): list intersections, `argmax`, the counter decrement and the
one-round inversion of `Gather.step`. -/
namespace Gather

/-! ### intersections -/

theorem mem_isectL {a b : List Nat} {x : Nat} : x ∈ isectL a b ↔ x ∈ a ∧ x ∈ b := by
  simp [isectL, List.mem_filter]

theorem nodup_filter {α} {l : List α} (p : α → Bool) (h : l.Nodup) : (l.filter p).Nodup :=
  List.Nodup.sublist List.filter_sublist h

theorem nodup_isectL {a b : List Nat} (h : a.Nodup) : (isectL a b).Nodup := nodup_filter _ h

/-- `|a ∩ b| = |b ∩ a|` for duplicate-free lists -/
theorem isectL_length_comm {a b : List Nat} (ha : a.Nodup) (hb : b.Nodup) :
    (isectL a b).length = (isectL b a).length := by
  apply List.Perm.length_eq
  rw [List.perm_ext_iff_of_nodup (nodup_isectL ha) (nodup_isectL hb)]
  intro x; simp only [mem_isectL]; exact And.comm

/-- splitting a filter by a second predicate -/
theorem length_filter_split {α} (l : List α) (p q : α → Bool) :
    (l.filter p).length = (l.filter (fun x => p x && q x)).length + (l.filter (fun x => p x && !q x)).length := by
  induction l with
  | nil => rfl
  | cons x t ih =>
    simp only [List.filter_cons]
    cases hp : p x <;> cases hq : q x <;> simp [ih] <;> omega

/-- removing the hashes of `m` from `R` lowers `|D ∩ R|` by the number of hashes of `m ∩ R` lying in `D` -/
theorem overlap_split {D R m : List Nat} (hD : D.Nodup) (hm : m.Nodup) :
    (isectL D R).length
      = (isectL D (R.filter (fun h => !m.contains h))).length
        + ((isectL m R).filter (fun h => D.contains h)).length := by
  have h1 := length_filter_split D (fun x => R.contains x) (fun x => !m.contains x)
  have h2 : ((isectL m R).filter (fun h => D.contains h)).length = (isectL D (isectL m R)).length := by
    have := isectL_length_comm (a := isectL m R) (b := D) (nodup_isectL hm) hD
    simpa [isectL] using this
  have h3 : isectL D (R.filter (fun h => !m.contains h)) = D.filter (fun x => R.contains x && !m.contains x) := by
    unfold isectL
    apply List.filter_congr
    intro x _
    rw [Bool.eq_iff_iff]
    simp [List.mem_filter]
  have h4 : isectL D (isectL m R) = D.filter (fun x => R.contains x && !!m.contains x) := by
    unfold isectL
    apply List.filter_congr
    intro x _
    rw [Bool.eq_iff_iff]
    simp [List.mem_filter, And.comm]
  rw [h2, h3, h4]
  unfold isectL
  omega

/-! ### `argmax` = `k_most_common_ordered(1)` -/

/-- `b` is a maximum of the counter, lowest key among the maxima -/
def IsBest (c : List (Nat × Nat)) (b : Nat × Nat) : Prop :=
  b ∈ c ∧ ∀ y ∈ c, y.2 < b.2 ∨ (y.2 = b.2 ∧ b.1 ≤ y.1)

theorem foldl_best (xs : List (Nat × Nat)) (x : Nat × Nat) (seen : List (Nat × Nat))
    (hx : x ∈ seen) (hbest : ∀ y ∈ seen, y.2 < x.2 ∨ (y.2 = x.2 ∧ x.1 ≤ y.1)) :
    IsBest (seen ++ xs) (xs.foldl (fun best y => if better y best then y else best) x) := by
  induction xs generalizing x seen with
  | nil =>
    simp only [List.append_nil, List.foldl_nil]
    exact ⟨hx, hbest⟩
  | cons y t ih =>
    simp only [List.foldl_cons]
    have := ih (if better y x then y else x) (seen ++ [y]) (by
        split
        · simp
        · simp [hx]) (by
        intro z hz
        rw [List.mem_append, List.mem_singleton] at hz
        by_cases hb : better y x = true
        · simp only [hb, if_true]
          simp only [better, Bool.or_eq_true, decide_eq_true_eq, Bool.and_eq_true, beq_iff_eq] at hb
          rcases hz with hz | hz
          · have := hbest z hz; omega
          · subst hz; omega
        · simp only [hb]
          simp only [better, Bool.or_eq_true, decide_eq_true_eq, Bool.and_eq_true, beq_iff_eq] at hb
          rcases hz with hz | hz
          · exact hbest z hz
          · subst hz; simp only [Bool.false_eq_true, if_false]; omega)
    simpa using this

theorem argmax_isBest {c : List (Nat × Nat)} {b : Nat × Nat} (h : argmax c = some b) : IsBest c b := by
  cases c with
  | nil => simp [argmax] at h
  | cons x xs =>
    simp only [argmax, Option.some.injEq] at h
    subst h
    have := foldl_best xs x [x] (by simp) (by intro y hy; simp at hy; subst hy; omega)
    simpa using this

theorem argmax_ne_nil {c : List (Nat × Nat)} (h : c ≠ []) : ∃ b, argmax c = some b := by
  cases c with
  | nil => exact absurd rfl h
  | cons x xs => exact ⟨_, rfl⟩

theorem argmax_none {c : List (Nat × Nat)} (h : argmax c = none) : c = [] := by
  cases c with
  | nil => rfl
  | cons x xs => simp [argmax] at h

/-! ### the decrement -/

/-- per-hash decrements add up to one subtraction of the number of intersection hashes in the dataset -/
theorem decrement_eq (dsets : List (List Nat)) (isect : List Nat) (c : List (Nat × Nat)) :
    decrement dsets isect c
      = c.map (fun e => (e.1, e.2 - (isect.filter (fun h => (dsOf dsets e.1).contains h)).length)) := by
  induction isect generalizing c with
  | nil => simp [decrement]
  | cons h t ih =>
    have : decrement dsets (h :: t) c = decrement dsets t (decOne dsets h c) := rfl
    rw [this, ih, decOne, List.map_map]
    apply List.map_congr_left
    intro e _
    simp only [Function.comp, List.filter_cons]
    by_cases hc : (dsOf dsets e.1).contains h = true
    · simp only [hc, if_true, List.length_cons]
      congr 1; omega
    · simp only [hc]
      simp

/-! ### one round -/

/-- everything `step` does, as equations -/
theorem step_some {c : Cfg} {s : St} {row : Row} {s' : St} (h : step c s = some (row, s')) :
    ∃ d size,
      s.matchSize > c.threshold ∧ s.counter ≠ [] ∧ argmax s.counter = some (d, size) ∧
      size ≥ c.threshold ∧ size ≠ 0 ∧
      row = stats c s.remaining d size s.reported.length s.sumW ∧
      s' = { counter := (decrement c.dsets row.isect s.counter).filter (fun e => e.1 != d)
             remaining := s.remaining.filter (fun p => !(dsOf c.dsets d).contains p.1)
             matchSize := size
             sumW := row.sumW
             reported := s.reported ++ [d] } := by
  unfold step at h
  split at h
  · exact absurd h (by simp)
  · rename_i hc
    split at h
    · exact absurd h (by simp)
    · rename_i d size ha
      split at h
      · exact absurd h (by simp)
      · rename_i ht
        split at h
        · exact absurd h (by simp)
        · rename_i h0
          simp only [Option.some.injEq, Prod.mk.injEq] at h
          obtain ⟨h1, h2⟩ := h
          have hc' := Classical.not_not.mp hc
          have ht' := Classical.not_not.mp ht
          subst h1
          exact ⟨d, size, hc'.1, hc'.2, ha, ht', h0, rfl, h2.symm⟩

/-- when does the loop end -/
theorem step_none {c : Cfg} {s : St} (h : step c s = none) :
    s.matchSize ≤ c.threshold ∨ s.counter = [] ∨
    ∃ d size, argmax s.counter = some (d, size) ∧ (size < c.threshold ∨ size = 0) := by
  unfold step at h
  split at h
  · rename_i hc
    by_cases h1 : s.matchSize > c.threshold
    · by_cases h2 : s.counter = []
      · exact Or.inr (Or.inl h2)
      · exact absurd ⟨h1, h2⟩ hc
    · exact Or.inl (by omega)
  · split at h
    · rename_i ha
      exact Or.inr (Or.inl (argmax_none ha))
    · rename_i d size ha
      split at h
      · rename_i ht
        exact Or.inr (Or.inr ⟨d, size, ha, Or.inl (by omega)⟩)
      · split at h
        · rename_i h0
          exact Or.inr (Or.inr ⟨d, size, ha, Or.inr h0⟩)
        · simp at h

end Gather
