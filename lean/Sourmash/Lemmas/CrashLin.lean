import Sourmash.Lemmas.CrashRun
/-! The single-threaded order is a linearisation (so linearisations exist, and the executable model
that the driver runs is an instance of what the theorems quantify over); `load_processed` agrees with
the stored set; answers (`hashesAt`, `countFor`, `counterFor`). -/
namespace Crash

theorem filter_owner_dsWrites (c : Coll) (t d : Nat) :
    (dsWrites c t).filter (fun w => w.owner == some d) = if t = d then dsWrites c t else [] := by
  by_cases h : t = d
  · subst h
    rw [if_pos rfl]
    apply List.filter_eq_self.mpr
    intro w hw
    simp [owner_of_mem_dsWrites c t w hw]
  · rw [if_neg h]
    apply List.filter_eq_nil_iff.mpr
    intro w hw
    simp [owner_of_mem_dsWrites c t w hw, h]

theorem filter_owner_flatMap (c : Coll) (T : List Nat) (hT : T.Nodup) (d : Nat) :
    (T.flatMap (dsWrites c)).filter (fun w => w.owner == some d) =
      if d ∈ T then dsWrites c d else [] := by
  induction T with
  | nil => simp
  | cons t T ih =>
    have hnd := List.nodup_cons.mp hT
    rw [List.flatMap_cons, List.filter_append, filter_owner_dsWrites, ih hnd.2]
    by_cases h : t = d
    · subst h
      simp [hnd.1]
    · have h' : ¬ d = t := fun e => h e.symm
      simp [h, h']

theorem nodup_todo (c : Coll) (P : List Nat) : (todo c P).Nodup := by
  unfold todo
  exact List.Pairwise.filter _ List.nodup_range

/-- the order of a single-threaded run is a linearisation -/
theorem isLin_seqLog (c : Coll) (P : List Nat) : IsLin c P (seqLog c P) := by
  constructor
  · intro w hw
    simp only [seqLog, List.mem_flatMap] at hw
    obtain ⟨d, _, hd⟩ := hw
    rw [owner_of_mem_dsWrites c d w hd]
    simp
  · intro d
    exact filter_owner_flatMap c _ (nodup_todo c P) d

/-- `create`'s `load_processed(assume_empty = true)` returns the stored set -/
theorem agrees_create (s : Disk) (n : Nat) : Agrees (loadProcessed s true n) s := by
  intro d
  unfold loadProcessed Disk.procSet
  cases s.processed <;> simp

/-- `open`'s `load_processed(assume_empty = false)`: "absent ⇒ every row of the stored manifest" is
harmless in every state that satisfies the invariant, because a stored manifest lists processed
datasets only -/
theorem agrees_open {c : Coll} {s : Disk} (hi : Inv c s) (m : Manifest) (hm : s.manifest = some m) :
    Agrees (loadProcessed s false m.length) s := by
  intro d
  unfold loadProcessed
  cases hp : s.processed with
  | some p => simp [Disk.procSet, hp]
  | none =>
    have hps : s.procSet = [] := by simp [Disk.procSet, hp]
    simp only [Bool.false_eq_true, if_false, List.mem_range, hps, List.not_mem_nil, iff_false]
    intro hd
    have := (hi.manifestOK m hm).2 d hd
    rw [hps] at this
    cases this

/-! #### answers -/

theorem mem_hashesAt (s : Disk) (h d : Nat) : d ∈ s.hashesAt h ↔ (h, d) ∈ s.hashes := by
  simp only [Disk.hashesAt, List.mem_map, List.mem_filter, beq_iff_eq]
  constructor
  · rintro ⟨⟨a, b⟩, ⟨hm, e1⟩, e2⟩
    simp only at e1 e2
    subst e1; subst e2; exact hm
  · intro hm
    exact ⟨(h, d), ⟨hm, rfl⟩, rfl⟩

/-- in the reference state the count of a dataset is the size of its overlap with the query -/
theorem countFor_graph (c : Coll) (q : List Nat) (d : Nat) :
    countFor (graph c) q d = (q.filter (fun h => (c.hashesOf d).contains h)).length := by
  unfold countFor
  congr 1
  apply List.filter_congr
  intro h _
  have := mem_graph c h d
  by_cases hx : h ∈ c.hashesOf d
  · simp [hx, this.mpr hx]
  · have hn : (h, d) ∉ graph c := fun e => hx (this.mp e)
    simp [hx, hn]

theorem mem_idsOf (H : List (Nat × Nat)) (d : Nat) : d ∈ idsOf H ↔ ∃ h, (h, d) ∈ H := by
  simp only [idsOf, mem_union, List.not_mem_nil, false_or, List.mem_map]
  constructor
  · rintro ⟨⟨a, b⟩, hm, e⟩
    simp only at e
    subst e
    exact ⟨a, hm⟩
  · rintro ⟨h, hm⟩
    exact ⟨(h, d), hm, rfl⟩

theorem sorted_idsOf (H : List (Nat × Nat)) : Sorted (idsOf H) := sorted_union _ sorted_nil

/-- the counter holds exactly one entry per dataset with a non-zero count, with that count -/
theorem mem_counterFor (H : List (Nat × Nat)) (q : List Nat) (d k : Nat) :
    (d, k) ∈ counterFor H q ↔ k = countFor H q d ∧ k ≠ 0 := by
  simp only [counterFor, List.mem_filterMap]
  constructor
  · rintro ⟨d', _, h⟩
    by_cases h0 : countFor H q d' = 0
    · simp [h0] at h
    · simp only [h0, if_false, Option.some.injEq, Prod.mk.injEq] at h
      obtain ⟨e1, e2⟩ := h
      subst e1
      exact ⟨e2.symm, by omega⟩
  · rintro ⟨e, hk⟩
    subst e
    refine ⟨d, ?_, by simp [hk]⟩
    -- a non-zero count means some query hash is attributed to d
    rw [mem_idsOf]
    have : (q.filter (fun h => H.contains (h, d))) ≠ [] := by
      intro e
      apply hk
      unfold countFor
      rw [e]
      rfl
    obtain ⟨h, hh⟩ := List.exists_mem_of_ne_nil _ this
    have := (List.mem_filter.mp hh).2
    exact ⟨h, by simpa using this⟩

/-- no dataset occurs twice in the counter -/
theorem counterFor_keys_sorted (H : List (Nat × Nat)) (q : List Nat) :
    Sorted ((counterFor H q).map (·.1)) := by
  have hs := sorted_idsOf H
  unfold counterFor
  generalize idsOf H = ids at hs
  induction ids with
  | nil => exact sorted_nil
  | cons a as ih =>
    obtain ⟨ha, has⟩ := sorted_cons.mp hs
    rw [List.filterMap_cons]
    by_cases h0 : countFor H q a = 0
    · simp only [h0, if_true]
      exact ih has
    · simp only [h0, if_false, List.map_cons]
      refine sorted_cons.mpr ⟨?_, ih has⟩
      intro b hb
      simp only [List.mem_map, List.mem_filterMap] at hb
      obtain ⟨⟨b1, b2⟩, ⟨x, hx, hxe⟩, e⟩ := hb
      simp only at e
      subst e
      by_cases hx0 : countFor H q x = 0
      · simp [hx0] at hxe
      · simp only [hx0, if_false, Option.some.injEq, Prod.mk.injEq] at hxe
        rw [← hxe.1]
        exact ha x hx

end Crash
