import Sourmash.Lemmas.RnDiv
import Sourmash.Lemmas.SimilarityReal
/-!
Lemmas/SimilarityDiv.lean — C05, part 5: the one division of `jaccard` / `containment` on the exact
integer model of binary64 (`Scaled.ofNat`, `Scaled.fdiv` of Model/Scaled.lean, characterised in
Lemmas/RnDiv.lean).  For counts below 2^53: `c as f64 / s as f64` is the correctly rounded quotient
`rnDiv c s = (m, −k)` (value `m / 2^k`), it is at most 1, equal to 1 only for `c = s`, non-zero for
`c > 0`, and monotone in `c`.
-/
namespace Similarity
open Scaled

theorem two_pow_pos' (a : Nat) : 0 < 2 ^ a := Nat.pow_pos (by decide)

/-- `u64 as f64` is exact below 2^53: the model returns `c·2^a` with exponent `−a` -/
theorem ofNat_exact (c : Nat) (h0 : 0 < c) (h : c < 2 ^ 53) :
    ∃ a : Nat, Scaled.ofNat c = (c * 2 ^ a, -(a : Int)) := by
  obtain ⟨m, a, b, hab, hRN, heq⟩ := rnDiv_spec c 1 h0 (by decide)
  have hb : b = 0 := by
    rcases hab with ha | hb
    · subst ha
      have h1 := hRN.bnd.1
      simp only [Nat.pow_zero, Nat.mul_one, Nat.one_mul] at h1
      by_contra hb
      have h2 : 2 ^ 1 ≤ 2 ^ b := Nat.pow_le_pow_right (by decide) (by omega)
      have h3 : 2 ^ 52 * 2 ^ 1 ≤ 2 ^ 52 * 2 ^ b := Nat.mul_le_mul_left _ h2
      omega
    · exact hb
  subst hb
  refine ⟨a, ?_⟩
  have hm : m = c * 2 ^ a := by
    rw [hRN.m_eq]; simp [rnStep_one]
  show rnDiv c 1 = _
  rw [heq, hm]; simp

/-- `c as f64 / s as f64` is the correctly rounded quotient of the integers themselves -/
theorem fdiv_ofNat (c s : Nat) (hc : 0 < c) (hs : 0 < s) (hc' : c < 2 ^ 53) (hs' : s < 2 ^ 53) :
    fdiv (Scaled.ofNat c) (Scaled.ofNat s) = rnDiv c s := by
  obtain ⟨a, ha⟩ := ofNat_exact c hc hc'
  obtain ⟨a', ha'⟩ := ofNat_exact s hs hs'
  rw [ha, ha']
  unfold fdiv
  simp only
  by_cases hsh : (-(a : Int)) - (-(a' : Int)) ≥ 0
  · rw [if_pos hsh]
    have e0 : ((-(a : Int)) - (-(a' : Int))).toNat = a' - a := by omega
    have e : c * 2 ^ a * 2 ^ (a' - a) = 2 ^ a' * c := by
      have : a' = a + (a' - a) := by omega
      conv => rhs; rw [this, Nat.pow_add]
      ring
    rw [e0, e, Nat.mul_comm s, rnDiv_scale _ _ _ (two_pow_pos' _) hc hs]
  · rw [if_neg hsh]
    have e0 : (-((-(a : Int)) - (-(a' : Int)))).toNat = a - a' := by omega
    have e : s * 2 ^ a' * 2 ^ (a - a') = 2 ^ a * s := by
      have : a = a' + (a - a') := by omega
      conv => rhs; rw [this, Nat.pow_add]
      ring
    rw [e0, e, Nat.mul_comm c, rnDiv_scale _ _ _ (two_pow_pos' _) hc hs]

/-- shape of the rounded quotient for `0 < c ≤ s`: mantissa `m = rnStep (c·2^k) s`, exponent `−k`,
    `k ≥ 52`, the scaled quotient in the binade `[2^52, 2^53)` -/
theorem rnDiv_le_shape (c s : Nat) (hc : 0 < c) (hcs : c ≤ s) :
    ∃ k : Nat, rnDiv c s = (rnStep (c * 2 ^ k) s, -(k : Int)) ∧ 52 ≤ k ∧
      2 ^ 52 * s ≤ c * 2 ^ k ∧ c * 2 ^ k < 2 ^ 53 * s := by
  have hs : 0 < s := by omega
  obtain ⟨m, a, b, hab, hRN, heq⟩ := rnDiv_spec c s hc hs
  have h1 := hRN.bnd.1
  have h2 := hRN.bnd.2
  -- 2^52·s·2^b ≤ c·2^a ≤ s·2^a  ⇒  52 + b ≤ a
  have hle : 2 ^ (52 + b) ≤ 2 ^ a := by
    have e1 : 2 ^ 52 * (s * 2 ^ b) = s * 2 ^ (52 + b) := by rw [Nat.pow_add]; ring
    have e2 : c * 2 ^ a ≤ s * 2 ^ a := Nat.mul_le_mul_right _ hcs
    rw [e1] at h1
    exact Nat.le_of_mul_le_mul_left (Nat.le_trans h1 e2) hs
  have hab' : 52 + b ≤ a := (Nat.pow_le_pow_iff_right (by decide)).mp hle
  have hb : b = 0 := by omega
  subst hb
  simp only [Nat.pow_zero, Nat.mul_one] at h1 h2
  refine ⟨a, ?_, by omega, h1, h2⟩
  rw [heq, hRN.m_eq]; simp

/-- value ≤ 1: the mantissa never exceeds `2^k` -/
theorem rnDiv_le_one (c s : Nat) (hc : 0 < c) (hcs : c ≤ s) :
    ∃ m k : Nat, rnDiv c s = (m, -(k : Int)) ∧ m ≤ 2 ^ k ∧ 0 < m ∧
      (s ≤ 2 ^ 53 → (m = 2 ^ k ↔ c = s)) := by
  have hs : 0 < s := by omega
  obtain ⟨k, heq, hk, h1, h2⟩ := rnDiv_le_shape c s hc hcs
  refine ⟨_, k, heq, rn_le_one c s (2 ^ k) hs hcs, ?_, ?_⟩
  · exact Nat.lt_of_lt_of_le (by decide : 0 < 2 ^ 52)
      (rnStep_ge _ _ _ hs h1)
  · intro hs53
    constructor
    · intro hm
      by_contra hne
      have hlt : c < s := by omega
      -- k = 52 would force s ≤ c
      have hk53 : 53 ≤ k := by
        by_contra hk'
        have : k = 52 := by omega
        subst this
        have : 2 ^ 52 * s ≤ 2 ^ 52 * c := by rw [Nat.mul_comm c] at h1; exact h1
        have := Nat.le_of_mul_le_mul_left this (by decide : 0 < 2 ^ 52)
        omega
      have hm53 : rnStep (c * 2 ^ k) s ≤ 2 ^ 53 :=
        rnStep_le _ _ _ hs (by rw [Nat.mul_comm (2 ^ 53)] at h2; rw [Nat.mul_comm (2 ^ 53)]; exact Nat.le_of_lt h2)
      by_cases hk' : k = 53
      · subst hk'
        exact hne ((rn_eq_one_iff c s (2 ^ 53) hs hcs hs53).mp hm)
      · have : 2 ^ 54 ≤ 2 ^ k := Nat.pow_le_pow_right (by decide) (by omega)
        omega
    · rintro rfl
      rw [Nat.mul_comm]
      exact rnStep_exact (2 ^ k) c hs

/-- monotone in the numerator: for `0 < c ≤ c' ≤ s` the value `m/2^k` of `c/s` is at most the value
    `m'/2^k'` of `c'/s` (cross-multiplied) -/
theorem rnDiv_mono (c c' s : Nat) (hc : 0 < c) (hcc : c ≤ c') (hcs : c' ≤ s) :
    ∃ m k m' k' : Nat, rnDiv c s = (m, -(k : Int)) ∧ rnDiv c' s = (m', -(k' : Int)) ∧
      m * 2 ^ k' ≤ m' * 2 ^ k := by
  have hs : 0 < s := by omega
  obtain ⟨k, heq, hk, h1, h2⟩ := rnDiv_le_shape c s hc (Nat.le_trans hcc hcs)
  obtain ⟨k', heq', hk', h1', h2'⟩ := rnDiv_le_shape c' s (by omega) hcs
  refine ⟨_, k, _, k', heq, heq', ?_⟩
  -- k' ≤ k : c'·2^k' < 2^53·s ≤ 2·c·2^k ≤ c'·2^(k+1)
  have hkk : k' ≤ k := by
    by_contra hgt
    have hgt' : k + 1 ≤ k' := by omega
    have e1 : c' * 2 ^ (k + 1) ≤ c' * 2 ^ k' := Nat.mul_le_mul_left _ (Nat.pow_le_pow_right (by decide) hgt')
    have e2 : c * 2 ^ k * 2 ≤ c' * 2 ^ (k + 1) := by
      rw [Nat.pow_succ, ← Nat.mul_assoc]
      exact Nat.mul_le_mul_right _ (Nat.mul_le_mul_right _ hcc)
    have e3 : 2 ^ 53 * s = 2 ^ 52 * s * 2 := by ring
    omega
  by_cases heqk : k' = k
  · subst heqk
    exact Nat.mul_le_mul_right _ (rn_mono c c' s (2 ^ k') hs hcc)
  · have hlt : k' + 1 ≤ k := by omega
    have hm : rnStep (c * 2 ^ k) s ≤ 2 ^ 53 :=
      rnStep_le _ _ _ hs (by rw [Nat.mul_comm (2 ^ 53)] at h2; rw [Nat.mul_comm (2 ^ 53)]; exact Nat.le_of_lt h2)
    have hm' : 2 ^ 52 ≤ rnStep (c' * 2 ^ k') s := rnStep_ge _ _ _ hs h1'
    calc rnStep (c * 2 ^ k) s * 2 ^ k' ≤ 2 ^ 53 * 2 ^ k' := Nat.mul_le_mul_right _ hm
      _ = 2 ^ 52 * 2 ^ (k' + 1) := by rw [Nat.pow_succ]; ring
      _ ≤ 2 ^ 52 * 2 ^ k := Nat.mul_le_mul_left _ (Nat.pow_le_pow_right (by decide) hlt)
      _ ≤ rnStep (c' * 2 ^ k') s * 2 ^ k := Nat.mul_le_mul_right _ hm'

/-- numerator 0: the quotient's mantissa is 0 -/
theorem rnDiv_zero (s : Nat) (hs : 0 < s) : (rnDiv 0 s).1 = 0 := by
  rw [rnDiv_eq_expOf]
  simp only [Nat.zero_mul]
  have := rnStep_exact 0 (s * 2 ^ (expOf 0 s - 52).toNat) (Nat.mul_pos hs (two_pow_pos' _))
  simpa using this

/-- `0 as f64 / s as f64`: mantissa 0 -/
theorem fdiv_zero (s : Nat) (hs : 0 < s) (hs' : s < 2 ^ 53) :
    (fdiv (Scaled.ofNat 0) (Scaled.ofNat s)).1 = 0 := by
  obtain ⟨a', ha'⟩ := ofNat_exact s hs hs'
  have h0 : (Scaled.ofNat 0).1 = 0 := rnDiv_zero 1 (by decide)
  rw [ha']
  generalize Scaled.ofNat 0 = x at h0
  obtain ⟨m0, e0⟩ := x
  simp only at h0
  subst h0
  unfold fdiv
  simp only
  split
  · rw [Nat.zero_mul]; exact rnDiv_zero _ (Nat.mul_pos hs (two_pow_pos' _))
  · exact rnDiv_zero _ (Nat.mul_pos (Nat.mul_pos hs (two_pow_pos' _)) (two_pow_pos' _))

end Similarity
