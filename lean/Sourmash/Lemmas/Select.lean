import Sourmash.Model.Select
import Sourmash.Spec.Select
/-! Lemmas for C11: the per-row / per-sketch closures of the code are the specification's conjunction;
    the downsample pass delivers every retained sketch cut at the requested ceiling. -/
namespace Select
open Scaled

theorem rowValid_eq_satisfies (sel : Selection) (r : Record) :
    rowValid sel r = satisfies sel r.described := by
  obtain ⟨k, a, n, sc, m⟩ := sel
  rw [Bool.eq_iff_iff]
  cases k <;> cases a <;> cases n <;> cases sc <;> cases m <;>
    simp [rowValid, satisfies, crit, Record.described] <;> grind

theorem ksize_adjust (s : Sketch) (h : s.mol.proteinFamily = true → s.ksize % 3 = 0) (k : Nat) :
    (s.ksize = (if s.mol.proteinFamily then k * 3 else k)) ↔
    ((if s.mol.proteinFamily then s.ksize / 3 else s.ksize) = k) := by
  cases hp : s.mol.proteinFamily
  · simp
  · have h3 := h hp
    simp only [if_true]
    omega

theorem keep_eq_satisfies (sel : Selection) (s : Sketch)
    (h : s.mol.proteinFamily = true → s.ksize % 3 = 0) :
    keep sel s = satisfies sel s.described := by
  obtain ⟨k, a, n, sc, m⟩ := sel
  rw [Bool.eq_iff_iff]
  cases k with
  | none =>
    cases a <;> cases n <;> cases sc <;> cases m <;>
      simp [keep, satisfies, crit, Sketch.described] <;> grind
  | some k =>
    have hk := ksize_adjust s h k
    cases a <;> cases n <;> cases sc <;> cases m <;>
      simp [keep, satisfies, crit, Sketch.described] <;> grind

theorem downsample_eq_cutAt (s : Sketch) (sc : Nat) (hwf : s.wf) (h0 : s.scaled ≠ 0) (hlt : s.scaled < sc) :
    s.downsampleScaled sc = .ok (cutAt sc s) := by
  obtain ⟨_, htr, hun⟩ := hwf
  have h1 : (s.scaled == sc || s.scaled == 0) = false := by
    simp only [Bool.or_eq_false_iff, beq_eq_false_iff_ne, ne_eq]; omega
  have h2 : ¬ s.scaled > sc := by omega
  unfold Sketch.downsampleScaled
  rw [h1]
  simp only [Bool.false_eq_true, if_false, h2]
  cases ht : s.tracked
  · have := hun ht
    simp [reinsert, cutAt, ht, this]
  · obtain ⟨_, hnz⟩ := htr ht
    have hf : (s.mins.zip s.abunds).filter (fun p => decide (p.1 ≤ maxHashForScaled sc) && p.2 != 0)
        = (s.mins.zip s.abunds).filter (fun p => decide (p.1 ≤ maxHashForScaled sc)) := by
      apply List.filter_congr
      intro p hp
      have := hnz p.2 (List.of_mem_zip hp).2
      simp [this]
    simp [reinsert, cutAt, ht, hf]

theorem downsamplePass_eq (sc : Nat) (hsc : sc < 4294967296) (l : List Sketch)
    (h : ∀ s ∈ l, s.wf ∧ s.scaled ≠ 0 ∧ s.scaled ≤ sc) :
    downsamplePass sc l = .ok (l.map (fun s => if s.scaled = sc then s else cutAt sc s)) := by
  induction l with
  | nil => rfl
  | cons s rest ih =>
    have ⟨hwf, h0, hle⟩ := h s (List.mem_cons_self ..)
    have ih' := ih (fun t ht => h t (List.mem_cons_of_mem _ ht))
    have hmod : s.scaled % 4294967296 = s.scaled := Nat.mod_eq_of_lt (by omega)
    unfold downsamplePass
    rw [hmod, ih']
    by_cases hlt : s.scaled < sc
    · have hne : s.scaled ≠ sc := by omega
      simp [hlt, downsample_eq_cutAt s sc hwf h0 hlt, hne]
    · have heq : s.scaled = sc := by omega
      simp [heq]

theorem Mol.parse_name (m : Mol) : Mol.parse m.name = some m := by cases m <;> decide

/-- the record built from a sketch describes it: what a selection looks at is the same on both -/
theorem mkRecord_described (md5of : Sketch → Bytes) (nm fn path : Bytes) (s : Sketch) :
    (mkRecord md5of nm fn path s).described = s.described := by
  simp [mkRecord, Record.described, Sketch.described, Record.mol?, Mol.parse_name]

theorem retainedFrom_map {α β : Type} (f : α → β) (p : β → Bool) (q : α → Bool) (l : List α)
    (h : ∀ a ∈ l, p (f a) = q a) (i : Nat) :
    retainedFrom p i (l.map f) = retainedFrom q i l := by
  induction l generalizing i with
  | nil => rfl
  | cons a l ih =>
    have ha := h a (List.mem_cons_self ..)
    have ih' := ih (fun b hb => h b (List.mem_cons_of_mem _ hb))
    simp [retainedFrom, ha, ih']

theorem cutAt_scaled (sc : Nat) (s : Sketch) :
    (cutAt sc s).scaled = scaledForMaxHash (maxHashForScaled sc) := by
  unfold cutAt Sketch.scaled
  split <;> rfl

theorem cutAt_wf (sc : Nat) (s : Sketch) (h : s.wf) : (cutAt sc s).wf := by
  obtain ⟨hk, htr, hun⟩ := h
  unfold cutAt
  cases ht : s.tracked
  · simp only [Bool.false_eq_true, if_false]
    exact ⟨hk, by simp, fun _ => hun ht⟩
  · simp only [if_true]
    refine ⟨hk, fun _ => ⟨by simp, ?_⟩, by simp⟩
    intro a ha
    obtain ⟨p, hp, rfl⟩ := List.mem_map.1 ha
    exact (htr ht).2 p.2 (List.of_mem_zip (List.mem_filter.1 hp).1).2

end Select
