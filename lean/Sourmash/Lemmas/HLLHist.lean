import Sourmash.Lemmas.HLLMerge
import Sourmash.Model.HLLFloat
/-!
Lemmas/HLLHist.lean — the integer side of the estimators (C18): `counts` is the register
histogram; the loop of `joint_mle_dispatch` builds the histograms it is meant to build.
-/
set_option linter.unusedSimpArgs false
namespace Hll

/-! ### bump -/

@[simp] theorem size_bump (c : Array Nat) (k : Nat) : (bump c k).size = c.size := by
  simp [bump]

theorem get!_bump (c : Array Nat) (k i : Nat) (hi : i < c.size) :
    (bump c k)[i]! = if k = i then c[i]! + 1 else c[i]! := by
  unfold bump
  rw [getElem!_pos _ i (by simpa using hi), getElem!_pos c i hi, Array.getElem_modify]

theorem get!_oob {α} [Inhabited α] (c : Array α) (i : Nat) (h : c.size ≤ i) : c[i]! = default := by
  rw [Array.getElem!_eq_getD, Array.getD_eq_getD_getElem?, Array.getElem?_eq_none h]; rfl

/-- folding `bump` at `f x` for the elements satisfying `P` counts them, cell by cell -/
theorem foldl_bump {α} (P : α → Bool) (f : α → Nat) (l : List α) (c : Array Nat) (i : Nat)
    (hi : i < c.size) :
    (l.foldl (fun c x => if P x then bump c (f x) else c) c)[i]! =
      c[i]! + l.countP (fun x => P x && f x == i) := by
  induction l generalizing c with
  | nil => simp
  | cons x t ih =>
    simp only [List.foldl_cons, List.countP_cons]
    by_cases hp : P x
    · rw [if_pos hp, ih _ (by simpa using hi), get!_bump _ _ _ hi]
      by_cases hf : f x = i
      · simp [hp, hf]; omega
      · simp [hp, hf]
    · rw [if_neg hp, ih _ hi]; simp [hp]

theorem size_foldl_bump {α} (P : α → Bool) (f : α → Nat) (l : List α) (c : Array Nat) :
    (l.foldl (fun c x => if P x then bump c (f x) else c) c).size = c.size := by
  induction l generalizing c with
  | nil => rfl
  | cons x t ih =>
    simp only [List.foldl_cons]
    rw [ih]; split <;> simp

/-! ### counts -/

theorem counts_eq (regs : Array UInt8) (q : Nat) :
    counts regs q = regs.toList.foldl (fun c k => if true then bump c k.toNat else c)
      (Array.replicate (q + 2) 0) := by
  unfold counts
  rw [← Array.foldl_toList]
  simp

@[simp] theorem size_counts (regs : Array UInt8) (q : Nat) : (counts regs q).size = q + 2 := by
  rw [counts_eq, size_foldl_bump]; simp

theorem get!_replicate_nat (n i : Nat) : (Array.replicate n (0 : Nat))[i]! = 0 := by
  by_cases h : i < n
  · rw [getElem!_pos _ i (by simpa using h)]; simp
  · rw [get!_oob _ _ (by simpa using h)]; rfl

/-- `counts[k]` is the number of registers equal to `k` -/
theorem counts_get (regs : Array UInt8) (q k : Nat) (hk : k < q + 2) :
    (counts regs q)[k]! = HllSpec.hist (regs.toList.map (·.toNat)) k := by
  rw [counts_eq, foldl_bump _ _ _ _ _ (by simpa using hk), get!_replicate_nat]
  unfold HllSpec.hist
  rw [List.countP_map]
  simp only [Nat.zero_add, Bool.true_and]
  rfl

theorem counts_le (regs : Array UInt8) (q k : Nat) : (counts regs q)[k]! ≤ regs.size := by
  by_cases hk : k < q + 2
  · rw [counts_get regs q k hk]
    unfold HllSpec.hist
    have := List.countP_le_length (p := (· == k)) (l := regs.toList.map (·.toNat))
    simpa using this
  · rw [get!_oob _ _ (by simpa using hk)]; exact Nat.zero_le _

/-- `Σ_{i<n} #{x | g x = i} = #{x | g x < n}` -/
theorem sum_countP_class {α} (g : α → Nat) (l : List α) (n : Nat) :
    ((List.range n).map (fun i => l.countP (fun x => g x == i))).sum = l.countP (fun x => decide (g x < n)) := by
  induction n with
  | zero => simp
  | succ n ih =>
    rw [List.range_succ, List.map_append, List.sum_append, ih]
    simp only [List.map_cons, List.map_nil, List.sum_cons, List.sum_nil, Nat.add_zero]
    clear ih
    induction l with
    | nil => simp
    | cons x t iht =>
      simp only [List.countP_cons]
      by_cases h1 : g x < n
      · have : ¬ g x = n := by omega
        have h3 : g x < n + 1 := by omega
        simp [h1, this, h3]; omega
      · by_cases h2 : g x = n
        · have h3 : g x < n + 1 := by omega
          simp [h2]; omega
        · have h3 : ¬ g x < n + 1 := by omega
          simp [h1, h2, h3]; omega

/-- the histogram cells add up to the number of registers when every register is ≤ q+1 -/
theorem counts_sum (regs : Array UInt8) (q : Nat) (hb : ∀ r ∈ regs.toList, r.toNat ≤ q + 1) :
    ((List.range (q + 2)).map (fun k => (counts regs q)[k]!)).sum = regs.size := by
  have : (List.range (q + 2)).map (fun k => (counts regs q)[k]!) =
      (List.range (q + 2)).map (fun k => regs.toList.countP (fun r => r.toNat == k)) := by
    apply List.map_congr_left
    intro k hk
    rw [counts_get regs q k (by simpa using hk)]
    unfold HllSpec.hist
    rw [List.countP_map]; rfl
  rw [this, sum_countP_class]
  rw [List.countP_eq_length.2]
  · simp
  · intro r hr
    have := hb r hr
    simp; omega

/-! ### the loop of `joint_mle_dispatch` -/

theorem fold_proj (proj : JointHist → Array Nat) (P : UInt8 × UInt8 → Bool) (f : UInt8 × UInt8 → Nat)
    (hstep : ∀ J ab, proj (J.step ab) = if P ab then bump (proj J) (f ab) else proj J)
    (zs : List (UInt8 × UInt8)) (J : JointHist) :
    proj (zs.foldl JointHist.step J) = zs.foldl (fun c x => if P x then bump c (f x) else c) (proj J) := by
  induction zs generalizing J with
  | nil => rfl
  | cons x t ih => simp only [List.foldl_cons]; rw [ih, hstep]

theorem step_c1 (J : JointHist) (ab : UInt8 × UInt8) :
    (J.step ab).c1 = if decide (ab.1 < ab.2) then bump J.c1 ab.1.toNat else J.c1 := by
  obtain ⟨a, b⟩ := ab
  unfold JointHist.step; simp only
  by_cases h1 : a < b
  · have h2 : ¬ b < a := by rw [UInt8.lt_iff_toNat_lt] at *; omega
    simp [h1, h2]
  · by_cases h2 : b < a
    · simp [h1, h2]
    · simp [h1, h2]
theorem step_cg2 (J : JointHist) (ab : UInt8 × UInt8) :
    (J.step ab).cg2 = if decide (ab.1 < ab.2) then bump J.cg2 ab.2.toNat else J.cg2 := by
  obtain ⟨a, b⟩ := ab
  unfold JointHist.step; simp only
  by_cases h1 : a < b
  · have h2 : ¬ b < a := by rw [UInt8.lt_iff_toNat_lt] at *; omega
    simp [h1, h2]
  · by_cases h2 : b < a
    · simp [h1, h2]
    · simp [h1, h2]
theorem step_cg1 (J : JointHist) (ab : UInt8 × UInt8) :
    (J.step ab).cg1 = if decide (ab.2 < ab.1) then bump J.cg1 ab.1.toNat else J.cg1 := by
  obtain ⟨a, b⟩ := ab
  unfold JointHist.step; simp only
  by_cases h1 : a < b
  · have h2 : ¬ b < a := by rw [UInt8.lt_iff_toNat_lt] at *; omega
    simp [h1, h2]
  · by_cases h2 : b < a
    · simp [h1, h2]
    · simp [h1, h2]
theorem step_c2 (J : JointHist) (ab : UInt8 × UInt8) :
    (J.step ab).c2 = if decide (ab.2 < ab.1) then bump J.c2 ab.2.toNat else J.c2 := by
  obtain ⟨a, b⟩ := ab
  unfold JointHist.step; simp only
  by_cases h1 : a < b
  · have h2 : ¬ b < a := by rw [UInt8.lt_iff_toNat_lt] at *; omega
    simp [h1, h2]
  · by_cases h2 : b < a
    · simp [h1, h2]
    · simp [h1, h2]
theorem step_ceq (J : JointHist) (ab : UInt8 × UInt8) :
    (J.step ab).ceq = if decide (¬ ab.1 < ab.2 ∧ ¬ ab.2 < ab.1) then bump J.ceq ab.1.toNat else J.ceq := by
  obtain ⟨a, b⟩ := ab
  unfold JointHist.step; simp only
  by_cases h1 : a < b
  · have h2 : ¬ b < a := by rw [UInt8.lt_iff_toNat_lt] at *; omega
    simp [h1, h2]
  · by_cases h2 : b < a
    · simp [h1, h2]
    · simp [h1, h2]
theorem step_cu (J : JointHist) (ab : UInt8 × UInt8) :
    (J.step ab).cu = if true then bump J.cu (umax ab.1 ab.2).toNat else J.cu := by
  obtain ⟨a, b⟩ := ab
  unfold JointHist.step; simp only
  by_cases h1 : a < b
  · have h2 : ¬ b < a := by rw [UInt8.lt_iff_toNat_lt] at *; omega
    simp [h1, h2]
  · by_cases h2 : b < a
    · simp [h1, h2]
    · simp [h1, h2]

/-- the register pairs as naturals -/
def natPairs (k1 k2 : Array UInt8) : HllSpec.Pairs :=
  (k1.toList.zip k2.toList).map (fun ab => (ab.1.toNat, ab.2.toNat))

theorem size_init (q : Nat) : (JointHist.init q).c1.size = q + 2 ∧ (JointHist.init q).c2.size = q + 2 ∧
    (JointHist.init q).cu.size = q + 2 ∧ (JointHist.init q).cg1.size = q + 2 ∧
    (JointHist.init q).cg2.size = q + 2 ∧ (JointHist.init q).ceq.size = q + 2 := by
  simp [JointHist.init]

/-- cell `i` of a field of the loop's result: the number of pairs with `P` whose key is `i` -/
theorem loop_cell (proj : JointHist → Array Nat) (P : UInt8 × UInt8 → Bool) (f : UInt8 × UInt8 → Nat)
    (hstep : ∀ J ab, proj (J.step ab) = if P ab then bump (proj J) (f ab) else proj J)
    (hinit : ∀ q, proj (JointHist.init q) = Array.replicate (q + 2) 0)
    (k1 k2 : Array UInt8) (q i : Nat) (hi : i < q + 2) :
    (proj (jointLoop k1 k2 q))[i]! = (k1.toList.zip k2.toList).countP (fun ab => P ab && f ab == i) := by
  unfold jointLoop
  rw [fold_proj proj P f hstep, foldl_bump _ _ _ _ _ (by rw [hinit]; simpa using hi), hinit,
    get!_replicate_nat, Nat.zero_add]

theorem loop_size (proj : JointHist → Array Nat) (P : UInt8 × UInt8 → Bool) (f : UInt8 × UInt8 → Nat)
    (hstep : ∀ J ab, proj (J.step ab) = if P ab then bump (proj J) (f ab) else proj J)
    (hinit : ∀ q, proj (JointHist.init q) = Array.replicate (q + 2) 0)
    (k1 k2 : Array UInt8) (q : Nat) : (proj (jointLoop k1 k2 q)).size = q + 2 := by
  unfold jointLoop
  rw [fold_proj proj P f hstep, size_foldl_bump, hinit]; simp

/-! ### `c[i] += v + u` -/

theorem addInto_aux (g : Nat → Nat) (c : Array Nat) (n i : Nat) (hi : i < c.size) :
    ((List.range n).foldl (fun c j => c.modify j (· + g j)) c)[i]! =
      if i < n then c[i]! + g i else c[i]! := by
  induction n with
  | zero => simp
  | succ n ih =>
    rw [List.range_succ, List.foldl_append]
    simp only [List.foldl_cons, List.foldl_nil]
    have hs : ((List.range n).foldl (fun c j => c.modify j (· + g j)) c).size = c.size := by
      clear ih
      induction n with
      | zero => rfl
      | succ m ihm => rw [List.range_succ, List.foldl_append]; simp [ihm]
    rw [getElem!_pos _ i (by simpa [hs] using hi), Array.getElem_modify,
      ← getElem!_pos _ i (by simpa [hs] using hi), ih]
    by_cases h1 : n = i
    · subst h1; simp
    · by_cases h2 : i < n
      · have : i < n + 1 := by omega
        simp [h1, h2, this]
      · have : ¬ i < n + 1 := by omega
        simp [h1, h2, this]

theorem addInto_get (c cg ceq : Array Nat) (i : Nat) (h1 : i < c.size) (h2 : i < cg.size)
    (h3 : i < ceq.size) : (addInto c cg ceq)[i]! = c[i]! + (cg[i]! + ceq[i]!) := by
  unfold addInto
  rw [addInto_aux (fun j => cg[j]! + ceq[j]!) c _ i h1, if_pos (by omega)]

theorem addInto_size (c cg ceq : Array Nat) : (addInto c cg ceq).size = c.size := by
  unfold addInto
  generalize min cg.size ceq.size = n
  induction n with
  | zero => rfl
  | succ m ihm => rw [List.range_succ, List.foldl_append]; simp [ihm]

/-! ### the `for _q in 0..q` loop -/

theorem halfHist_aux (v : Nat → Nat) (q len j : Nat) (hj : j ≤ q) :
    let h := (List.range j).foldl (fun h i => let h := h.set! i (v i); h.set! q (h[q]! - v i))
      ((Array.replicate (q + 2) 0).set! q len)
    h.size = q + 2 ∧ (∀ i, i < q → h[i]! = if i < j then v i else 0) ∧
      h[q]! = len - ((List.range j).map v).sum := by
  induction j with
  | zero =>
    refine ⟨by simp [Array.set!_eq_setIfInBounds], ?_, ?_⟩
    · intro i hi
      simp only [List.range_zero, List.foldl_nil]
      rw [get!_set!, if_neg (by omega), get!_replicate_nat]; simp
    · simp [get!_set!]
  | succ j ih =>
    obtain ⟨hs, hc, hq⟩ := ih (by omega)
    simp only [List.range_succ, List.foldl_append, List.foldl_cons, List.foldl_nil, List.map_append,
      List.map_cons, List.map_nil, List.sum_append, List.sum_cons, List.sum_nil, Nat.add_zero] at *
    generalize ((List.range j).foldl (fun h i => (h.set! i (v i)).set! q ((h.set! i (v i))[q]! - v i))
      ((Array.replicate (q + 2) 0).set! q len)) = h at *
    refine ⟨by simp [Array.set!_eq_setIfInBounds, hs], ?_, ?_⟩
    · intro i hi
      rw [get!_set!, if_neg (by omega), get!_set!]
      by_cases hij : j = i
      · subst hij
        rw [if_pos ⟨rfl, by omega⟩, if_pos (by omega)]
      · rw [if_neg (by omega), hc i hi]
        by_cases h2 : i < j
        · have : i < j + 1 := by omega
          simp [h2, this]
        · have : ¬ i < j + 1 := by omega
          simp [h2, this]
    · rw [get!_set!, if_pos ⟨rfl, by simp [Array.set!_eq_setIfInBounds, hs]⟩, get!_set!,
        if_neg (by omega), hq]
      omega

theorem halfHist_spec (cgA cgB ceq : Array Nat) (q len : Nat) :
    (halfHist cgA cgB ceq q len).size = q + 2 ∧
    (∀ i, i < q → (halfHist cgA cgB ceq q len)[i]! = cgA[i]! + ceq[i]! + cgB[i + 1]!) ∧
    (halfHist cgA cgB ceq q len)[q]! =
      len - ((List.range q).map (fun i => cgA[i]! + ceq[i]! + cgB[i + 1]!)).sum := by
  have := halfHist_aux (fun i => cgA[i]! + ceq[i]! + cgB[i + 1]!) q len q (Nat.le_refl q)
  obtain ⟨h1, h2, h3⟩ := this
  refine ⟨h1, ?_, h3⟩
  intro i hi
  have := h2 i hi
  rw [if_pos hi] at this
  exact this

/-! ### the five histograms -/

theorem countP_add3 {α} (l : List α) (p q r s : α → Bool)
    (h : ∀ x, ((if p x then 1 else 0) + (if q x then 1 else 0) + (if r x then 1 else 0) : Nat) =
      if s x then 1 else 0) :
    l.countP p + l.countP q + l.countP r = l.countP s := by
  induction l with
  | nil => rfl
  | cons a t ih =>
    simp only [List.countP_cons]
    have := h a
    omega

theorem countP_congr' {α} (l : List α) (p q : α → Bool) (h : ∀ x, p x = q x) :
    l.countP p = l.countP q := by
  have : p = q := funext h
  rw [this]

theorem pairs_trichotomy (i : Nat) (ab : UInt8 × UInt8) :
    ((if (decide (ab.1 < ab.2) && ab.1.toNat == i) then 1 else 0) +
     (if (decide (ab.2 < ab.1) && ab.1.toNat == i) then 1 else 0) +
     (if (decide (¬ ab.1 < ab.2 ∧ ¬ ab.2 < ab.1) && ab.1.toNat == i) then 1 else 0) : Nat) =
      if (ab.1.toNat == i) then 1 else 0 := by
  obtain ⟨a, b⟩ := ab
  simp only [UInt8.lt_iff_toNat_lt]
  generalize a.toNat = x; generalize b.toNat = y
  simp only [Bool.and_eq_true, Bool.or_eq_true, decide_eq_true_eq, beq_iff_eq]
  repeat' split
  all_goals omega

theorem pairs_trichotomy' (i : Nat) (ab : UInt8 × UInt8) :
    ((if (decide (ab.2 < ab.1) && ab.2.toNat == i) then 1 else 0) +
     (if (decide (ab.1 < ab.2) && ab.2.toNat == i) then 1 else 0) +
     (if (decide (¬ ab.1 < ab.2 ∧ ¬ ab.2 < ab.1) && ab.1.toNat == i) then 1 else 0) : Nat) =
      if (ab.2.toNat == i) then 1 else 0 := by
  obtain ⟨a, b⟩ := ab
  simp only [UInt8.lt_iff_toNat_lt]
  generalize a.toNat = x; generalize b.toNat = y
  simp only [Bool.and_eq_true, Bool.or_eq_true, decide_eq_true_eq, beq_iff_eq]
  repeat' split
  all_goals omega

theorem half_trichotomy (i : Nat) (ab : UInt8 × UInt8) :
    ((if (decide (ab.2 < ab.1) && ab.1.toNat == i) then 1 else 0) +
     (if (decide (¬ ab.1 < ab.2 ∧ ¬ ab.2 < ab.1) && ab.1.toNat == i) then 1 else 0) +
     (if (decide (ab.1 < ab.2) && ab.2.toNat == i + 1) then 1 else 0) : Nat) =
      if ((ab.1.toNat == i && decide (ab.2.toNat ≤ ab.1.toNat)) ||
          (ab.2.toNat == i + 1 && decide (ab.1.toNat < ab.2.toNat))) then 1 else 0 := by
  obtain ⟨a, b⟩ := ab
  simp only [UInt8.lt_iff_toNat_lt]
  generalize a.toNat = x; generalize b.toNat = y
  simp only [Bool.and_eq_true, Bool.or_eq_true, decide_eq_true_eq, beq_iff_eq]
  repeat' split
  all_goals omega

theorem half_trichotomy' (i : Nat) (ab : UInt8 × UInt8) :
    ((if (decide (ab.1 < ab.2) && ab.2.toNat == i) then 1 else 0) +
     (if (decide (¬ ab.1 < ab.2 ∧ ¬ ab.2 < ab.1) && ab.1.toNat == i) then 1 else 0) +
     (if (decide (ab.2 < ab.1) && ab.1.toNat == i + 1) then 1 else 0) : Nat) =
      if ((ab.2.toNat == i && decide (ab.1.toNat ≤ ab.2.toNat)) ||
          (ab.1.toNat == i + 1 && decide (ab.2.toNat < ab.1.toNat))) then 1 else 0 := by
  obtain ⟨a, b⟩ := ab
  simp only [UInt8.lt_iff_toNat_lt]
  generalize a.toNat = x; generalize b.toNat = y
  simp only [Bool.and_eq_true, Bool.or_eq_true, decide_eq_true_eq, beq_iff_eq]
  repeat' split
  all_goals omega

/-- the zipped register pairs, as the loop sees them -/
abbrev Z (k1 k2 : Array UInt8) : List (UInt8 × UInt8) := k1.toList.zip k2.toList

theorem loop_c1 (k1 k2 : Array UInt8) (q i : Nat) (hi : i < q + 2) :
    (jointLoop k1 k2 q).c1[i]! = (Z k1 k2).countP (fun ab => decide (ab.1 < ab.2) && ab.1.toNat == i) :=
  loop_cell (·.c1) _ _ step_c1 (fun _ => rfl) k1 k2 q i hi
theorem loop_c2 (k1 k2 : Array UInt8) (q i : Nat) (hi : i < q + 2) :
    (jointLoop k1 k2 q).c2[i]! = (Z k1 k2).countP (fun ab => decide (ab.2 < ab.1) && ab.2.toNat == i) :=
  loop_cell (·.c2) _ _ step_c2 (fun _ => rfl) k1 k2 q i hi
theorem loop_cg1 (k1 k2 : Array UInt8) (q i : Nat) (hi : i < q + 2) :
    (jointLoop k1 k2 q).cg1[i]! = (Z k1 k2).countP (fun ab => decide (ab.2 < ab.1) && ab.1.toNat == i) :=
  loop_cell (·.cg1) _ _ step_cg1 (fun _ => rfl) k1 k2 q i hi
theorem loop_cg2 (k1 k2 : Array UInt8) (q i : Nat) (hi : i < q + 2) :
    (jointLoop k1 k2 q).cg2[i]! = (Z k1 k2).countP (fun ab => decide (ab.1 < ab.2) && ab.2.toNat == i) :=
  loop_cell (·.cg2) _ _ step_cg2 (fun _ => rfl) k1 k2 q i hi
theorem loop_ceq (k1 k2 : Array UInt8) (q i : Nat) (hi : i < q + 2) :
    (jointLoop k1 k2 q).ceq[i]! =
      (Z k1 k2).countP (fun ab => decide (¬ ab.1 < ab.2 ∧ ¬ ab.2 < ab.1) && ab.1.toNat == i) :=
  loop_cell (·.ceq) _ _ step_ceq (fun _ => rfl) k1 k2 q i hi
theorem loop_cu (k1 k2 : Array UInt8) (q i : Nat) (hi : i < q + 2) :
    (jointLoop k1 k2 q).cu[i]! = (Z k1 k2).countP (fun ab => true && (umax ab.1 ab.2).toNat == i) :=
  loop_cell (·.cu) _ _ step_cu (fun _ => rfl) k1 k2 q i hi

theorem size_c1 (k1 k2 : Array UInt8) (q : Nat) : (jointLoop k1 k2 q).c1.size = q + 2 :=
  loop_size (·.c1) _ _ step_c1 (fun _ => rfl) k1 k2 q
theorem size_c2 (k1 k2 : Array UInt8) (q : Nat) : (jointLoop k1 k2 q).c2.size = q + 2 :=
  loop_size (·.c2) _ _ step_c2 (fun _ => rfl) k1 k2 q
theorem size_cg1 (k1 k2 : Array UInt8) (q : Nat) : (jointLoop k1 k2 q).cg1.size = q + 2 :=
  loop_size (·.cg1) _ _ step_cg1 (fun _ => rfl) k1 k2 q
theorem size_cg2 (k1 k2 : Array UInt8) (q : Nat) : (jointLoop k1 k2 q).cg2.size = q + 2 :=
  loop_size (·.cg2) _ _ step_cg2 (fun _ => rfl) k1 k2 q
theorem size_ceq (k1 k2 : Array UInt8) (q : Nat) : (jointLoop k1 k2 q).ceq.size = q + 2 :=
  loop_size (·.ceq) _ _ step_ceq (fun _ => rfl) k1 k2 q
theorem size_cu (k1 k2 : Array UInt8) (q : Nat) : (jointLoop k1 k2 q).cu.size = q + 2 :=
  loop_size (·.cu) _ _ step_cu (fun _ => rfl) k1 k2 q

/-- `c1` after `c1[i] += cg1[i] + ceq[i]`: the number of positions where A's register is `i` -/
theorem five_c1_cell (k1 k2 : Array UInt8) (q i : Nat) (hi : i < q + 2) :
    (five k1 k2 q).c1[i]! = (Z k1 k2).countP (fun ab => ab.1.toNat == i) := by
  unfold five; simp only
  rw [addInto_get _ _ _ _ (by rw [size_c1]; exact hi) (by rw [size_cg1]; exact hi)
    (by rw [size_ceq]; exact hi), loop_c1 _ _ _ _ hi, loop_cg1 _ _ _ _ hi, loop_ceq _ _ _ _ hi,
    ← Nat.add_assoc]
  exact countP_add3 _ _ _ _ _ (pairs_trichotomy i)

theorem five_c2_cell (k1 k2 : Array UInt8) (q i : Nat) (hi : i < q + 2) :
    (five k1 k2 q).c2[i]! = (Z k1 k2).countP (fun ab => ab.2.toNat == i) := by
  unfold five; simp only
  rw [addInto_get _ _ _ _ (by rw [size_c2]; exact hi) (by rw [size_cg2]; exact hi)
    (by rw [size_ceq]; exact hi), loop_c2 _ _ _ _ hi, loop_cg2 _ _ _ _ hi, loop_ceq _ _ _ _ hi,
    ← Nat.add_assoc]
  exact countP_add3 _ _ _ _ _ (pairs_trichotomy' i)

theorem hist_map_toNat (l : List UInt8) (i : Nat) :
    HllSpec.hist (l.map (·.toNat)) i = l.countP (fun r => r.toNat == i) := by
  unfold HllSpec.hist; rw [List.countP_map]; rfl

/-- with equally long register arrays `c1` is the histogram of A's registers -/
theorem five_c1 (k1 k2 : Array UInt8) (q : Nat) (hs : k1.size = k2.size) :
    (five k1 k2 q).c1 = counts k1 q := by
  apply ext_get!
  · simp [five, addInto_size, size_c1]
  · intro i hi
    have hi' : i < q + 2 := by simpa [five, addInto_size, size_c1] using hi
    rw [five_c1_cell _ _ _ _ hi', counts_get _ _ _ hi', hist_map_toNat]
    have : (Z k1 k2).countP (fun ab => ab.1.toNat == i) =
        ((Z k1 k2).map Prod.fst).countP (fun r => r.toNat == i) := by
      rw [List.countP_map]; rfl
    rw [this, List.map_fst_zip (by simp [hs])]

theorem five_c2 (k1 k2 : Array UInt8) (q : Nat) (hs : k1.size = k2.size) :
    (five k1 k2 q).c2 = counts k2 q := by
  apply ext_get!
  · simp [five, addInto_size, size_c2]
  · intro i hi
    have hi' : i < q + 2 := by simpa [five, addInto_size, size_c2] using hi
    rw [five_c2_cell _ _ _ _ hi', counts_get _ _ _ hi', hist_map_toNat]
    have : (Z k1 k2).countP (fun ab => ab.2.toNat == i) =
        ((Z k1 k2).map Prod.snd).countP (fun r => r.toNat == i) := by
      rw [List.countP_map]; rfl
    rw [this, List.map_snd_zip (by simp [hs])]

/-- `cu` is the histogram of the register-wise maximum, i.e. of the merged sketch -/
theorem five_cu (k1 k2 : Array UInt8) (q : Nat) :
    (five k1 k2 q).cu = counts (Array.zipWith umax k1 k2) q := by
  apply ext_get!
  · simp [five, size_cu]
  · intro i hi
    have hi' : i < q + 2 := by simpa [five, size_cu] using hi
    have e : (five k1 k2 q).cu = (jointLoop k1 k2 q).cu := rfl
    rw [e, loop_cu _ _ _ _ hi', counts_get _ _ _ hi', hist_map_toNat, Array.toList_zipWith,
      ← List.map_uncurry_zip_eq_zipWith, List.countP_map]
    apply countP_congr'
    intro x; simp [Function.uncurry]

/-- cells `i < q` of the two half histograms -/
theorem five_axbHalf_cell (k1 k2 : Array UInt8) (q i : Nat) (hi : i < q) :
    (five k1 k2 q).axbHalf[i]! = HllSpec.halfCell (natPairs k1 k2) i := by
  have e : (five k1 k2 q).axbHalf =
      halfHist (jointLoop k1 k2 q).cg1 (jointLoop k1 k2 q).cg2 (jointLoop k1 k2 q).ceq q k1.size := rfl
  rw [e, (halfHist_spec _ _ _ _ _).2.1 i hi, loop_cg1 _ _ _ _ (by omega), loop_ceq _ _ _ _ (by omega),
    loop_cg2 _ _ _ _ (by omega)]
  unfold HllSpec.halfCell natPairs
  rw [List.countP_map]
  exact countP_add3 _ _ _ _ _ (half_trichotomy i)

theorem five_bxaHalf_cell (k1 k2 : Array UInt8) (q i : Nat) (hi : i < q) :
    (five k1 k2 q).bxaHalf[i]! = HllSpec.halfCell (HllSpec.swap (natPairs k1 k2)) i := by
  have e : (five k1 k2 q).bxaHalf =
      halfHist (jointLoop k1 k2 q).cg2 (jointLoop k1 k2 q).cg1 (jointLoop k1 k2 q).ceq q k2.size := rfl
  rw [e, (halfHist_spec _ _ _ _ _).2.1 i hi, loop_cg2 _ _ _ _ (by omega), loop_ceq _ _ _ _ (by omega),
    loop_cg1 _ _ _ _ (by omega)]
  unfold HllSpec.halfCell HllSpec.swap natPairs
  rw [List.countP_map, List.countP_map]
  exact countP_add3 _ _ _ _ _ (half_trichotomy' i)

/-- a half-histogram cell counts the positions of one class -/
theorem halfCell_class (zs : HllSpec.Pairs) (i : Nat) :
    HllSpec.halfCell zs i = zs.countP (fun ab => HllSpec.halfClass ab == i) := by
  unfold HllSpec.halfCell HllSpec.halfClass
  apply countP_congr'
  intro ab
  obtain ⟨x, y⟩ := ab
  rw [Bool.eq_iff_iff]
  simp only [Bool.or_eq_true, Bool.and_eq_true, beq_iff_eq, decide_eq_true_eq]
  split <;> omega

/-- the cells `i < q` never add up to more than the number of positions: `half[q] -= …` cannot
    underflow (the code's `debug_assert!`) -/
theorem halfCell_sum_le (zs : HllSpec.Pairs) (q : Nat) :
    ((List.range q).map (HllSpec.halfCell zs)).sum ≤ zs.length := by
  have : (List.range q).map (HllSpec.halfCell zs) =
      (List.range q).map (fun i => zs.countP (fun ab => HllSpec.halfClass ab == i)) := by
    apply List.map_congr_left; intro i _; exact halfCell_class zs i
  rw [this, sum_countP_class]
  exact List.countP_le_length

theorem five_axbHalf_top (k1 k2 : Array UInt8) (q : Nat) :
    (five k1 k2 q).axbHalf[q]! =
      k1.size - ((List.range q).map (HllSpec.halfCell (natPairs k1 k2))).sum := by
  have e : (five k1 k2 q).axbHalf =
      halfHist (jointLoop k1 k2 q).cg1 (jointLoop k1 k2 q).cg2 (jointLoop k1 k2 q).ceq q k1.size := rfl
  rw [e, (halfHist_spec _ _ _ _ _).2.2]
  congr 2
  apply List.map_congr_left
  intro i hi
  have hi' : i < q := by simpa using hi
  have := five_axbHalf_cell k1 k2 q i hi'
  rw [e, (halfHist_spec _ _ _ _ _).2.1 i hi'] at this
  exact this

theorem five_bxaHalf_top (k1 k2 : Array UInt8) (q : Nat) :
    (five k1 k2 q).bxaHalf[q]! =
      k2.size - ((List.range q).map (HllSpec.halfCell (HllSpec.swap (natPairs k1 k2)))).sum := by
  have e : (five k1 k2 q).bxaHalf =
      halfHist (jointLoop k1 k2 q).cg2 (jointLoop k1 k2 q).cg1 (jointLoop k1 k2 q).ceq q k2.size := rfl
  rw [e, (halfHist_spec _ _ _ _ _).2.2]
  congr 2
  apply List.map_congr_left
  intro i hi
  have hi' : i < q := by simpa using hi
  have := five_bxaHalf_cell k1 k2 q i hi'
  rw [e, (halfHist_spec _ _ _ _ _).2.1 i hi'] at this
  exact this

theorem natPairs_length (k1 k2 : Array UInt8) : (natPairs k1 k2).length = min k1.size k2.size := by
  simp [natPairs]

/-! ### registers never exceed q+1 -/

/-- every register is at most `q + 1` (so `counts[k]` never indexes out of its `q + 2` cells) -/
def Bounded (s : H) : Prop := ∀ i : Nat, UInt8.toNat (s.regs[i]!) ≤ s.q + 1

theorem Bounded.empty (p k : Nat) : Bounded (H.empty p k) := by
  intro i; simp [H.empty, get!_replicate_zero]

theorem Bounded.add {s : H} (w : WF s) (b : Bounded s) (h : Nat) (h64 : h < 2 ^ 64) :
    Bounded (s.add h) := by
  intro i
  by_cases hi : i < s.regs.size
  · rw [add_get s h i hi, add_q]
    split
    · rw [umax_toNat, UInt8.toNat_ofNat']
      have h1 := rank_le s.p h h64
      have h2 := b i
      have h3 := w.q_eq
      rw [Nat.mod_eq_of_lt (by omega)]
      omega
    · exact b i
  · rw [get!_oob _ _ (by simpa using hi)]; simp; exact Nat.zero_le _

theorem Bounded.addMany {s : H} (w : WF s) (b : Bounded s) (l : List Nat) (h64 : ∀ h ∈ l, h < 2 ^ 64) :
    Bounded (s.addMany l) := by
  induction l generalizing s with
  | nil => exact b
  | cons h t ih =>
    rw [addMany_cons]
    exact ih (w.add h) (b.add w h (h64 h List.mem_cons_self))
      (fun x hx => h64 x (List.mem_cons_of_mem _ hx))

theorem Bounded.merge {a b c : H} (ba : Bounded a) (bb : Bounded b) (hq : a.q = b.q)
    (h : a.merge b = .ok c) : Bounded c := by
  obtain ⟨_, hs, rfl⟩ := (merge_ok_iff a b c).1 h
  intro i
  simp only
  rw [get!_zipWith_umax _ _ _ hs, umax_toNat]
  have := ba i; have := bb i
  omega

theorem Bounded.mem {s : H} (b : Bounded s) : ∀ r ∈ s.regs.toList, r.toNat ≤ s.q + 1 := by
  intro r hr
  obtain ⟨i, hi, rfl⟩ := List.mem_iff_getElem.1 hr
  have := b i
  rw [getElem!_pos s.regs i (by simpa using hi)] at this
  simpa using this

theorem mleCase_zero_iff (c : Array Nat) (p q : Nat) : mleCase c p q = .zero ↔ c[0]! = 2 ^ p := by
  unfold mleCase
  by_cases h : c[0]! = 2 ^ p
  · simp [h]
  · simp [h]; split <;> simp

end Hll
