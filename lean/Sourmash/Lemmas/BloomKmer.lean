import Sourmash.Model.Nodegraph
import Sourmash.Spec.Bloom
/-! Lemmas for C15 (T-kmer_rc): `_hash` on ACGT k-mers against the two-bit encoding of the
description; strand symmetry; no `u64` overflow up to k = 32.  Core Lean only. -/
namespace NG
open Bloom

theorem acgt_cases {c : Nat} (h : isACGT c = true) : c = 65 ∨ c = 67 ∨ c = 71 ∨ c = 84 := by
  have : ((c = 65 ∨ c = 67) ∨ c = 71) ∨ c = 84 := by simpa [isACGT] using h
  omega

theorem twobitRepr_acgt {c : Nat} (h : isACGT c = true) : twobitRepr c = some (code c) := by
  rcases acgt_cases h with rfl | rfl | rfl | rfl <;> decide
theorem twobitComp_acgt {c : Nat} (h : isACGT c = true) : twobitComp c = some (code (complement c)) := by
  rcases acgt_cases h with rfl | rfl | rfl | rfl <;> decide
theorem complement_acgt {c : Nat} (h : isACGT c = true) : isACGT (complement c) = true := by
  rcases acgt_cases h with rfl | rfl | rfl | rfl <;> decide
theorem complement_invol {c : Nat} (h : isACGT c = true) : complement (complement c) = c := by
  rcases acgt_cases h with rfl | rfl | rfl | rfl <;> decide
theorem code_lt (c : Nat) : code c < 4 := by
  unfold code; split <;> (try split) <;> (try split) <;> omega

/-- the forward loop on a `u64`, over the codes of the description -/
def wrapEnc (kmer : List Nat) (acc : Nat) : Nat := kmer.foldl (fun a c => shl2or a (code c)) acc

theorem encFwd_acgt (kmer : List Nat) (h : ∀ c ∈ kmer, isACGT c = true) (acc : Nat) :
    encFwd kmer acc = some (wrapEnc kmer acc) := by
  induction kmer generalizing acc with
  | nil => rfl
  | cons c cs ih =>
    simp only [encFwd, twobitRepr_acgt (h c (by simp)), wrapEnc, List.foldl_cons]
    exact ih (fun x hx => h x (by simp [hx])) _

theorem encRev_acgt (kmer : List Nat) (h : ∀ c ∈ kmer, isACGT c = true) (acc : Nat) :
    encRev kmer acc = some (wrapEnc (kmer.map complement) acc) := by
  induction kmer generalizing acc with
  | nil => rfl
  | cons c cs ih =>
    simp only [encRev, twobitComp_acgt (h c (by simp)), wrapEnc, List.map_cons, List.foldl_cons]
    exact ih (fun x hx => h x (by simp [hx])) _

theorem revcomp_acgt (kmer : List Nat) (h : ∀ c ∈ kmer, isACGT c = true) :
    ∀ c ∈ revcomp kmer, isACGT c = true := by
  intro c hc
  simp only [revcomp, List.mem_map, List.mem_reverse] at hc
  obtain ⟨d, hd, rfl⟩ := hc
  exact complement_acgt (h d hd)

theorem revcomp_revcomp (kmer : List Nat) (h : ∀ c ∈ kmer, isACGT c = true) :
    revcomp (revcomp kmer) = kmer := by
  unfold revcomp
  rw [← List.map_reverse, List.reverse_reverse, List.map_map]
  conv => rhs; rw [← List.map_id kmer]
  apply List.map_congr_left
  intro c hc
  exact complement_invol (h c hc)

theorem revcomp_length (kmer : List Nat) : (revcomp kmer).length = kmer.length := by simp [revcomp]

/-- both strands of `_hash` for an ACGT k-mer -/
theorem hashKmerCore_acgt (kmer : List Nat) (h : ∀ c ∈ kmer, isACGT c = true) :
    hashKmerCore kmer = some (if wrapEnc kmer 0 < wrapEnc (revcomp kmer) 0 then wrapEnc kmer 0
                              else wrapEnc (revcomp kmer) 0) := by
  unfold hashKmerCore
  rw [encFwd_acgt kmer h, encRev_acgt kmer.reverse (fun c hc => h c (List.mem_reverse.mp hc))]
  rfl

theorem hashKmerCore_revcomp (kmer : List Nat) (h : ∀ c ∈ kmer, isACGT c = true) :
    hashKmerCore (revcomp kmer) = hashKmerCore kmer := by
  rw [hashKmerCore_acgt _ (revcomp_acgt kmer h), hashKmerCore_acgt _ h, revcomp_revcomp kmer h]
  congr 1
  split <;> split <;> omega

/-! no overflow up to k = 32 -/
theorem or_low2 (a c : Nat) (hc : c < 4) : (2 ^ 2 * a) ||| c = 2 ^ 2 * a + c := by
  apply Nat.eq_of_testBit_eq
  intro j
  have hc' : c < 2 ^ 2 := by omega
  rw [Nat.testBit_or, Nat.testBit_two_pow_mul_add a hc']
  have h0 := Nat.testBit_two_pow_mul_add a (show 0 < 2 ^ 2 by decide) j
  simp only [Nat.add_zero] at h0
  rw [h0]
  by_cases hj : j < 2
  · simp [hj]
  · have : c.testBit j = false :=
      Nat.testBit_lt_two_pow (Nat.lt_of_lt_of_le hc' (Nat.pow_le_pow_right (by decide) (by omega)))
    simp [hj, this]

theorem shl2or_eq (a c : Nat) (ha : a < 2 ^ 62) (hc : c < 4) : shl2or a c = 4 * a + c := by
  unfold shl2or
  rw [Nat.shiftLeft_eq, Nat.mod_eq_of_lt (by omega), Nat.mul_comm]
  exact or_low2 a c hc

theorem wrapEnc_eq (kmer : List Nat) (acc j : Nat) (hacc : acc < 4 ^ j) (hj : j + kmer.length ≤ 32) :
    wrapEnc kmer acc = kmer.foldl (fun a c => 4 * a + code c) acc := by
  induction kmer generalizing acc j with
  | nil => rfl
  | cons c cs ih =>
    simp only [List.length_cons] at hj
    have h62 : acc < 2 ^ 62 := by
      have : (4:Nat) ^ j ≤ 4 ^ 31 := Nat.pow_le_pow_right (by decide) (by omega)
      have e : (4:Nat) ^ 31 = 2 ^ 62 := by decide
      omega
    simp only [wrapEnc, List.foldl_cons]
    rw [shl2or_eq acc _ h62 (code_lt c)]
    have hnext : 4 * acc + code c < 4 ^ (j + 1) := by
      have := code_lt c
      rw [Nat.pow_succ]; omega
    exact ih (4 * acc + code c) (j + 1) hnext (by omega)

/-- for k ≤ 32 the loop computes the plain base-4 value of the description -/
theorem wrapEnc_encode (kmer : List Nat) (hk : kmer.length ≤ 32) : wrapEnc kmer 0 = encode kmer :=
  wrapEnc_eq kmer 0 0 (by decide) (by omega)

theorem hashKmerCore_canonical (kmer : List Nat) (h : ∀ c ∈ kmer, isACGT c = true) (hk : kmer.length ≤ 32) :
    hashKmerCore kmer = some (canonical kmer) := by
  rw [hashKmerCore_acgt kmer h, wrapEnc_encode kmer hk,
    wrapEnc_encode (revcomp kmer) (by rw [revcomp_length]; exact hk)]
  unfold canonical
  congr 1
  rw [Nat.min_def]
  split <;> split <;> omega
end NG
