import Sourmash.Lemmas.NodegraphFile
/-! Table- and file-level round trip (C16): `readTable ∘ Table.save`, canonical form of well-formed
tables, header parsing. -/
namespace NG

/-- what `from_reader` builds from a table record `size, data` -/
def loadTable (size : Nat) (data : List Nat) : Table := withCapacityAndBlocks size (rawBlocks data)

theorem readTable_eq (size : Nat) (data rest : List Nat) (hs : size < 2 ^ 64)
    (hlen : data.length = size / 8 + 1) :
    readTable (le size 8 ++ data ++ rest) = some (loadTable size data, rest) := by
  unfold readTable
  have h8 : ¬ (le size 8 ++ data ++ rest).length < 8 := by simp [le_length]
  have htake : (le size 8 ++ data ++ rest).take 8 = le size 8 := by
    rw [List.append_assoc]; exact List.take_left' (le_length _ _)
  have hdrop : (le size 8 ++ data ++ rest).drop 8 = data ++ rest := by
    rw [List.append_assoc]; exact List.drop_left' (le_length _ _)
  have hsz : fromLE (le size 8) = size := by
    rw [fromLE_le]; exact Nat.mod_eq_of_lt hs
  simp only [h8, if_false, htake, hdrop, hsz]
  have hl2 : ¬ (data ++ rest).length < size / 8 + 1 := by simp [hlen]
  have ht2 : (data ++ rest).take (size / 8 + 1) = data := List.take_left' hlen
  have hd2 : (data ++ rest).drop (size / 8 + 1) = rest := List.drop_left' hlen
  simp only [hl2, if_false, ht2, hd2]
  unfold loadTable rawBlocks
  rw [hlen]

theorem loadTable_size (size : Nat) (data : List Nat) : (loadTable size data).size = size := rfl

theorem rawBlocks_lt (data : List Nat) (hb : ∀ x ∈ data, x < 256) (i : Nat) :
    (rawBlocks data).getD i 0 < 2 ^ 32 := by
  rw [rawBlocks_getD]; exact chunk_lt data hb i

/-- T-khmer_load for one table: exactly the recorded bits below `size` -/
theorem loadTable_get (size : Nat) (data : List Nat) (hb : ∀ x ∈ data, x < 256) (b : Nat) :
    (loadTable size data).get b = (decide (b < size) && Khmer.dataBit data b) := by
  unfold loadTable
  rw [wcab_get _ _ (rawBlocks_lt data hb), rawBlocks_getD, chunk_testBit _ hb]
  have h1 : 4 * (b / 32) + b % 32 / 8 = b / 8 := by omega
  have h2 : b % 32 % 8 = b % 8 := by omega
  have h3 : b % 32 < 32 := by omega
  simp [Khmer.dataBit, h1, h2, h3]

theorem loadTable_wf (size : Nat) (data : List Nat) (hs : size < 2 ^ 64) (hb : ∀ x ∈ data, x < 256) :
    (loadTable size data).WF := by
  refine ⟨hs, wcab_length _ _, wcab_lt _ _ (rawBlocks_lt data hb), ?_⟩
  intro b hbs
  rw [loadTable_get _ _ hb]
  have : ¬ b < size := by simp [loadTable_size] at hbs; omega
  simp [this]

/-- a well-formed table is determined by its size and its bits -/
theorem Table.ext_get (t u : Table) (ht : t.WF) (hu : u.WF) (hs : t.size = u.size)
    (hg : ∀ b, t.get b = u.get b) : t = u := by
  obtain ⟨_, htl, htb, _⟩ := ht
  obtain ⟨_, hul, hub, _⟩ := hu
  cases t with | mk ts tb =>
  cases u with | mk us ub =>
  simp only at hs htl hul htb hub
  subst hs
  congr 1
  apply List.ext_getElem (by rw [htl, hul])
  intro i h1 h2
  apply Nat.eq_of_testBit_eq
  intro j
  by_cases hj : j < 32
  · have := hg (32 * i + j)
    simp only [Table.get] at this
    have e1 : (32 * i + j) / 32 = i := by omega
    have e2 : (32 * i + j) % 32 = j := by omega
    rw [e1, e2, getD_of_lt _ _ h1, getD_of_lt _ _ h2] at this
    exact this
  · rw [testBit_false_of_lt32 (htb _ (List.getElem_mem h1)) (by omega),
        testBit_false_of_lt32 (hub _ (List.getElem_mem h2)) (by omega)]

theorem blockByte_lt (blocks : List Nat) (m : Nat) : blockByte blocks m < 256 := by
  unfold blockByte; omega

theorem dataBytes_length (t : Table) : t.dataBytes.length = t.size / 8 + 1 := by simp [Table.dataBytes]

theorem dataBytes_lt (t : Table) : ∀ x ∈ t.dataBytes, x < 256 := by
  intro x hx
  simp [Table.dataBytes] at hx
  obtain ⟨m, _, rfl⟩ := hx
  exact blockByte_lt _ _

theorem blockByte_testBit (blocks : List Nat) (m j : Nat) :
    (blockByte blocks m).testBit j = (decide (j < 8) && (blocks.getD (m / 4) 0).testBit (8 * (m % 4) + j)) := by
  unfold blockByte; exact testBit_byte _ _ _

/-- T-layout, bit level: bit b of the table sits in data byte b/8 at bit b%8 -/
theorem dataBytes_dataBit (t : Table) (b : Nat) (hb : b < 8 * (t.size / 8 + 1)) :
    Khmer.dataBit t.dataBytes b = t.get b := by
  unfold Khmer.dataBit Table.dataBytes Table.get
  have hm : b / 8 < t.size / 8 + 1 := by omega
  rw [List.getD_eq_getElem?_getD, List.getElem?_map, List.getElem?_range hm]
  simp only [Option.map_some, Option.getD_some]
  rw [blockByte_testBit]
  have e1 : b / 8 / 4 = b / 32 := by omega
  have e2 : 8 * (b / 8 % 4) + b % 8 = b % 32 := by omega
  have e3 : b % 8 < 8 := by omega
  simp [e1, e2, e3]

/-- one table round-trips -/
theorem loadTable_dataBytes (t : Table) (ht : t.WF) : loadTable t.size t.dataBytes = t := by
  apply Table.ext_get _ _ (loadTable_wf _ _ ht.1 (dataBytes_lt t)) ht (loadTable_size _ _)
  intro b
  rw [loadTable_get _ _ (dataBytes_lt t)]
  by_cases hb : b < t.size
  · rw [dataBytes_dataBit t b (by omega)]; simp [hb]
  · rw [ht.2.2.2 b (by omega)]; simp [hb]

/-- T-layout, byte level: the data bytes are the khmer bytes of the table's bit set -/
theorem dataBytes_eq_tableData (t : Table) (ht : t.WF) : t.dataBytes = Khmer.tableData t.size t.get := by
  unfold Table.dataBytes Khmer.tableData
  apply List.map_congr_left
  intro m _
  apply Nat.eq_of_testBit_eq
  intro j
  rw [blockByte_testBit, byteOf_testBit]
  by_cases hj : j < 8
  · have e1 : (8 * m + j) / 32 = m / 4 := by omega
    have e2 : (8 * m + j) % 32 = 8 * (m % 4) + j := by omega
    by_cases hs : 8 * m + j < t.size
    · simp [hj, hs, Table.get, e1, e2]
    · have := ht.2.2.2 (8 * m + j) (by omega)
      simp only [Table.get, e1, e2] at this
      rw [this]; simp [hs]
  · simp [hj]

/-! ### whole files -/

/-- one table record as `save_to_writer` emits it -/
def Table.record (t : Table) : List Nat := le t.size 8 ++ t.dataBytes

theorem saveTables_eq (ts : List Table) (h : ∀ t ∈ ts, t.blocks.length = nblocks t.size) :
    saveTablesWith Table.save ts = some (ts.flatMap Table.record) := by
  induction ts with
  | nil => simp [saveTablesWith]
  | cons t ts ih =>
    have h1 := Table.save_eq t (h t (by simp))
    have h2 := ih (fun u hu => h u (by simp [hu]))
    simp [saveTablesWith, h1, h2, Table.record]

theorem G.save_eq (g : G) (h : ∀ t ∈ g.tables, t.blocks.length = nblocks t.size) :
    g.save = some (g.header ++ g.tables.flatMap Table.record) := by
  simp [G.save, saveTables_eq _ h]

theorem readTables_records (recs : List (Nat × List Nat)) (rest : List Nat)
    (h : ∀ r ∈ recs, r.1 < 2 ^ 64 ∧ r.2.length = r.1 / 8 + 1) :
    readTables recs.length (recs.flatMap (fun r => le r.1 8 ++ r.2) ++ rest) =
      some (recs.map (fun r => loadTable r.1 r.2)) := by
  induction recs with
  | nil => simp [readTables]
  | cons r rs ih =>
    have hr := h r (by simp)
    have e : (r :: rs).flatMap (fun r => le r.1 8 ++ r.2) ++ rest =
        le r.1 8 ++ r.2 ++ (rs.flatMap (fun r => le r.1 8 ++ r.2) ++ rest) := by
      simp [List.flatMap_cons, List.append_assoc]
    rw [e]
    simp only [List.length_cons, readTables, readTable_eq _ _ _ hr.1 hr.2,
      ih (fun u hu => h u (by simp [hu])), List.map_cons]

theorem len4 (l : List Nat) (h : l.length = 4) : ∃ a b c d, l = [a, b, c, d] := by
  match l, h with
  | [a, b, c, d], _ => exact ⟨a, b, c, d, rfl⟩
theorem len8 (l : List Nat) (h : l.length = 8) : ∃ a b c d e f g i, l = [a, b, c, d, e, f, g, i] := by
  match l, h with
  | [a, b, c, d, e, f, g, i], _ => exact ⟨a, b, c, d, e, f, g, i, rfl⟩

theorem load_header (k n occ : Nat) (hk : k < 2 ^ 32) (ho : occ < 2 ^ 64) (body : List Nat) :
    G.load (magic ++ le k 4 ++ [n] ++ le occ 8 ++ body) =
      match readTables n body with
      | none => none
      | some ts => some { tables := ts, ksize := k, occupied := occ, unique := 0 } := by
  obtain ⟨a0, a1, a2, a3, hk4⟩ := len4 (le k 4) (le_length _ _)
  obtain ⟨b0, b1, b2, b3, b4, b5, b6, b7, ho8⟩ := len8 (le occ 8) (le_length _ _)
  have hk' : fromLE [a0, a1, a2, a3] = k := by
    rw [← hk4, fromLE_le]; exact Nat.mod_eq_of_lt hk
  have ho' : fromLE [b0, b1, b2, b3, b4, b5, b6, b7] = occ := by
    rw [← ho8, fromLE_le]; exact Nat.mod_eq_of_lt ho
  unfold G.load
  rw [hk4, ho8]
  simp [magic, hk', ho']
  rw [if_neg (by omega)]
  cases readTables n body <;> rfl
/-! ### the header and the records against the format description -/

theorem header_eq (g : G) (hn : g.tables.length ≤ 255) :
    g.header = Khmer.fileHeader g.ksize g.tables.length g.occupied := by
  have : g.tables.length % 256 = g.tables.length := by omega
  simp [G.header, Khmer.fileHeader, magic, u32le_eq, u64le_eq, this]

theorem records_eq (ts : List Table) (h : ∀ t ∈ ts, t.WF) :
    ts.flatMap Table.record =
      (ts.map (fun t => (t.size, t.get))).flatMap (fun t => Khmer.tableRecord t.1 (Khmer.tableData t.1 t.2)) := by
  induction ts with
  | nil => rfl
  | cons t ts ih =>
    simp only [List.flatMap_cons, List.map_cons, ih (fun u hu => h u (by simp [hu]))]
    simp [Table.record, Khmer.tableRecord, u64le_eq, dataBytes_eq_tableData t (h t (by simp))]

theorem records_as_pairs (ts : List Table) :
    ts.flatMap Table.record = (ts.map (fun t => (t.size, t.dataBytes))).flatMap (fun r => le r.1 8 ++ r.2) := by
  induction ts with
  | nil => rfl
  | cons t ts ih => simp [List.flatMap_cons, ih, Table.record]

/-- a fresh nodegraph of any size vector is well formed -/
theorem new_wf (sizes : List Nat) (k : Nat) (hn : sizes.length ≤ 255) (hk : k < 2 ^ 32)
    (hs : ∀ s ∈ sizes, s < 2 ^ 64) : (G.new sizes k).WF := by
  refine ⟨by simpa [G.new] using hn, hk, by simp [G.new], ?_⟩
  intro t ht
  simp only [G.new, List.mem_map] at ht
  obtain ⟨s, hsm, rfl⟩ := ht
  refine ⟨hs s hsm, by simp [Table.new], ?_, ?_⟩
  · intro x hx
    simp only [Table.new, List.mem_replicate] at hx
    rw [hx.2]; exact Nat.two_pow_pos 32
  · intro b _
    simp [Table.get, Table.new, List.getD_eq_getElem?_getD, List.getElem?_replicate]
    split <;> simp

end NG
