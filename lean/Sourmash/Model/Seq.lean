import Sourmash.Model.Murmur
import Sourmash.Generated.C02
import Sourmash.Spec.Kmers
/-!
Model/Seq.lean — `SeqToHashes` (src/core/src/signature.rs) as a state machine, branch for branch, and
the `encodings.rs` helpers it calls.  Every table lookup goes through the tables that
`translator/c02.py` regenerates from /repo on every run (`Gen.C02.*`), so the theorems in
`Theorems/C02.lean` speak about what the source says now.

From `Spec.Kmers` only the type `Mol` (the four hash functions) is used.
-/
namespace Seq
open Kmers (Mol)

/-! ### encodings.rs -/

/-- `u8::to_ascii_uppercase` -/
def upper (b : UInt8) : UInt8 := if 97 ≤ b && b ≤ 122 then b - 32 else b

/-- `COMPLEMENT[b]` -/
def complement (b : UInt8) : UInt8 := UInt8.ofNat (Gen.C02.complementTable.getD b.toNat 0)

/-- `VALID[b]` -/
def valid (b : UInt8) : Bool := Gen.C02.validTable.getD b.toNat 0 == 1

/-- `revcomp`: `seq.iter().rev().map(|nt| COMPLEMENT[nt])` -/
def revcomp (s : List UInt8) : List UInt8 := s.reverse.map complement

/-- `CODONTABLE.get(..)` on a 3-byte key -/
def lookupCodon : List (Nat × Nat × Nat × Nat) → Nat → Nat → Nat → Option Nat
  | [], _, _, _ => none
  | (x, y, z, v) :: t, a, b, c => if x = a ∧ y = b ∧ z = c then some v else lookupCodon t a b c

/-- 3-byte arm of `translate_codon`: table entry, else `X`.  (Keys that are not UTF-8 take the same
    `None → X` arm since the repair; they are not in the table.) -/
def codon3 (a b c : UInt8) : UInt8 :=
  match lookupCodon Gen.C02.codonTable a.toNat b.toNat c.toNat with
  | some v => UInt8.ofNat v
  | none => 88

/-- `translate_codon`; `none` = `Err(InvalidCodonLength)` -/
def translateCodon : List UInt8 → Option UInt8
  | [_] => some 88
  | [a, b] => some (codon3 a b 78)
  | [a, b, c] => some (codon3 a b c)
  | _ => none

/-- `aa_to_dayhoff` -/
def dayhoff (aa : UInt8) : UInt8 := UInt8.ofNat (Gen.C02.dayhoffTable.getD aa.toNat 88)
/-- `aa_to_hp` -/
def hp (aa : UInt8) : UInt8 := UInt8.ofNat (Gen.C02.hpTable.getD aa.toNat 88)

/-- `to_aa(seq, dayhoff, hp)`: chunks of 3, the trailing incomplete chunk is dropped
    (`translate_codon` is only ever called on 3-byte chunks, so the `?` never fires) -/
def toAA (dh hpf : Bool) : List UInt8 → List UInt8
  | a :: b :: c :: rest =>
    let r := codon3 a b c
    (if dh then dayhoff r else if hpf then hp r else r) :: toAA dh hpf rest
  | _ => []

/-- `slice::windows(k)` for k ≥ 1 (k = 0 panics in Rust and is guarded at the call site) -/
def windows {α : Type} (k : Nat) : List α → List (List α)
  | [] => []
  | a :: t => if k ≤ t.length + 1 then (a :: t).take k :: windows k t else []

/-- `Ord` on byte slices: lexicographic, a proper prefix is smaller -/
def lexLt : List UInt8 → List UInt8 → Bool
  | [], [] => false
  | [], _ :: _ => true
  | _ :: _, [] => false
  | a :: as, b :: bs => if a < b then true else if b < a then false else lexLt as bs

/-- `std::cmp::min(a, b)`: `b` only when `b < a` -/
def lexMin (a b : List UInt8) : List UInt8 := if lexLt b a then b else a

/-! ### signature.rs: SeqToHashes -/

inductive Item
  | ok (h : UInt64)
  | errDna            -- Err(InvalidDNA)
  | errHf             -- Err(InvalidHashFunction)
  | panic             -- `windows(0)`: "window size must be non-zero"
  deriving DecidableEq, Repr

/-- the fields of `SeqToHashes` (`prot_configured` is never written and therefore omitted) -/
structure St where
  sequence : List UInt8
  kmerIndex : Nat := 0
  kSize : Nat
  maxIndex : Nat
  force : Bool
  isProtein : Bool
  mol : Mol
  seed : UInt64
  hashesBuffer : List UInt64 := []
  dnaConfigured : Bool := false
  dnaRc : List UInt8 := []
  dnaKsize : Nat := 0
  dnaLen : Nat := 0
  dnaLastPositionCheck : Nat := 0
  aaSeq : List UInt8 := []
  translateIterStep : Nat := 0

/-- `SeqToHashes::new` -/
def St.new (seq : List UInt8) (ksize : Nat) (force isProtein : Bool) (mol : Mol) (seed : UInt64) : St :=
  let k := if isProtein || mol != .dna then ksize / 3 else ksize
  let mi := if seq.length ≥ k then seq.length - k + 1 else 0
  { sequence := seq.map upper, kSize := k, maxIndex := mi, force := force, isProtein := isProtein,
    mol := mol, seed := seed }

/-- the validity loop `for j in start..start+n`: stops at the first invalid base; every valid base
    advances `dna_last_position_check` by one.  Returns (no invalid base met, new cursor). -/
def scan (seq : List UInt8) : Nat → Nat → Nat → Bool × Nat
  | _, 0, lc => (true, lc)
  | j, n + 1, lc => if !valid (seq.getD j 0) then (false, lc) else scan seq (j + 1) n (lc + 1)

/-- DNA sketch, DNA input -/
def nextDna (s : St) : Option (Item × St) :=
  let kmer := (s.sequence.drop s.kmerIndex).take s.dnaKsize
  let start := max s.kmerIndex s.dnaLastPositionCheck
  let r := scan s.sequence start (s.kmerIndex + s.dnaKsize - start) s.dnaLastPositionCheck
  let s := { s with dnaLastPositionCheck := r.2 }
  if !r.1 then
    if !s.force then some (.errDna, s)
    else some (.ok 0, { s with kmerIndex := s.kmerIndex + 1 })
  else
    let krc := (s.dnaRc.drop (s.dnaLen - s.dnaKsize - s.kmerIndex)).take s.dnaKsize
    let h := Murmur.hash64 (lexMin kmer krc) s.seed
    some (.ok h, { s with kmerIndex := s.kmerIndex + 1 })

/-- the hashes of one frame pair (forward, reverse complement) -/
def framePair (s : St) (f : Nat) : List UInt64 :=
  let dh := s.mol == .dayhoff
  let hpf := s.mol == .hp
  let substr := (s.sequence.drop f).take (s.sequence.length - f)
  let aa := toAA dh hpf substr
  let rcSubstr := (s.dnaRc.drop f).take (s.dnaRc.length - f)
  let aaRc := toAA dh hpf rcSubstr
  (windows s.kSize aa).map (fun w => Murmur.hash64 w s.seed)
    ++ (windows s.kSize aaRc).map (fun w => Murmur.hash64 w s.seed)

/-- protein-family sketch, DNA input: fill the buffer, then hand it out one element per call -/
def nextTranslate (s : St) : Option (Item × St) :=
  if s.hashesBuffer.isEmpty && s.translateIterStep == 0 then
    if s.kSize == 0 then some (.panic, s) else
    some (.ok 0, { s with hashesBuffer := (List.range 3).flatMap (framePair s) })
  else if s.translateIterStep == s.hashesBuffer.length then
    some (.ok 0, { s with hashesBuffer := [], kmerIndex := s.maxIndex })
  else
    some (.ok (s.hashesBuffer.getD s.translateIterStep 0),
          { s with translateIterStep := s.translateIterStep + 1 })

/-- the `aa_seq` of the Dayhoff / HP arms (`None` = the `invalid =>` arm) -/
def reducedSeq (m : Mol) (seq : List UInt8) : Option (List UInt8) :=
  match m with
  | .dayhoff => some (seq.map dayhoff)
  | .hp => some (seq.map hp)
  | _ => none

/-- protein input -/
def nextProtein (s : St) : Option (Item × St) :=
  if s.mol == .protein then
    let w := (s.sequence.drop s.kmerIndex).take s.kSize
    some (.ok (Murmur.hash64 w s.seed), { s with kmerIndex := s.kmerIndex + 1 })
  else
    match reducedSeq s.mol s.sequence with
    | none => some (.errHf, s)
    | some aa =>
      let s := { s with aaSeq := aa }
      let w := (s.aaSeq.drop s.kmerIndex).take s.kSize
      some (.ok (Murmur.hash64 w s.seed), { s with kmerIndex := s.kmerIndex + 1 })

/-- `Iterator::next` -/
def St.next (s : St) : Option (Item × St) :=
  if s.kmerIndex < s.maxIndex || !s.hashesBuffer.isEmpty then
    if !s.isProtein then
      if !s.dnaConfigured
          && (s.sequence.length < s.kSize || (s.mol != .dna && s.sequence.length < s.kSize * 3)) then
        none
      else
        let s := if s.dnaConfigured then s else
          { s with dnaKsize := s.kSize, dnaLen := s.sequence.length, dnaRc := revcomp s.sequence,
                   dnaConfigured := true }
        if s.mol == .dna then nextDna s else nextTranslate s
    else nextProtein s
  else none

/-- the items a `for` loop sees: up to `None`, or up to and including the first `Err`/panic
    (fuel-bounded; `Theorems/C02.lean` shows that `sequence.length + buffer + 2` is always enough) -/
def run (s : St) : Nat → List Item
  | 0 => []
  | fuel + 1 =>
    match s.next with
    | none => []
    | some (.ok h, s') => .ok h :: run s' fuel
    | some (e, _) => [e]

/-- fuel that suffices for any state (see `run_stable`) -/
def fuelFor (seq : List UInt8) : Nat := 2 * seq.length + 4

/-- `add_sequence` / `add_protein`: `Ok(0)` is skipped, any other `Ok(x)` goes to `add_hash`, the
    first `Err` ends the call.  Returns the `add_hash` arguments in order. -/
def fedHashes : List Item → List UInt64
  | [] => []
  | .ok h :: t => if h == 0 then fedHashes t else h :: fedHashes t
  | _ :: _ => []

/-- the `Result` of the call: the first non-`Ok` item, if any -/
def firstErr : List Item → Option Item
  | [] => none
  | .ok _ :: t => firstErr t
  | e :: _ => some e

end Seq
