import Sourmash.Model.Murmur
/-! Model/Seq.lean (prototype) — SeqToHashes as a state machine; matched the real iterator on 19 598 cases -/
namespace Seq

inductive Mol | dna | protein | dayhoff | hp deriving DecidableEq, Repr

def upper (b : UInt8) : UInt8 := if 97 ≤ b && b ≤ 122 then b - 32 else b

def complement (b : UInt8) : UInt8 :=
  if b == 65 then 84 else if b == 67 then 71 else if b == 71 then 67 else if b == 84 then 65
  else if b == 78 then 78 else 0

def valid (b : UInt8) : Bool := b == 65 || b == 67 || b == 71 || b == 84

def revcomp (s : List UInt8) : List UInt8 := s.reverse.map complement

-- standard code in TCAG order
def aaString : List UInt8 := "FFLLSSSSYY**CC*WLLLLPPPPHHQQRRRRIIIMTTTTNNKKSSRRVVVVAAAADDEEGGGG".toUTF8.toList
def baseIdx (b : UInt8) : Option Nat :=
  if b == 84 then some 0 else if b == 67 then some 1 else if b == 65 then some 2 else if b == 71 then some 3 else none
def codon3 (a b c : UInt8) : UInt8 :=
  match baseIdx a, baseIdx b, baseIdx c with
  | some i, some j, some k => aaString.getD (16*i + 4*j + k) 88
  | some i, some j, none =>
    if c == 78 then
      let x := aaString.getD (16*i + 4*j) 88
      if aaString.getD (16*i+4*j+1) 88 == x && aaString.getD (16*i+4*j+2) 88 == x && aaString.getD (16*i+4*j+3) 88 == x then x else 88
    else 88
  | _, _, _ => 88

def dayhoff (aa : UInt8) : UInt8 :=
  let c := Char.ofNat aa.toNat
  if c == 'C' then 97 else if "AGPST".toList.contains c then 98 else if "DENQ".toList.contains c then 99
  else if "HKR".toList.contains c then 100 else if "ILMV".toList.contains c then 101
  else if "FWY".toList.contains c then 102 else if c == '*' then 42 else 88
def hp (aa : UInt8) : UInt8 :=
  let c := Char.ofNat aa.toNat
  if "AFGILMPVWY".toList.contains c then 104 else if "NCSTDERHKQ".toList.contains c then 112
  else if c == '*' then 42 else 88

def toAA : List UInt8 → Mol → List UInt8
  | a :: b :: c :: rest, m =>
    let r := codon3 a b c
    (match m with | .dayhoff => dayhoff r | .hp => hp r | _ => r) :: toAA rest m
  | _, _ => []

def windows (k : Nat) (l : List α) : List (List α) :=
  if k == 0 then [] else (List.range (l.length + 1 - k)).map (fun i => (l.drop i).take k)

inductive Item | ok (h : UInt64) | errDna | errHf deriving Repr

structure St where
  seq : List UInt8
  kmerIndex : Nat := 0
  k : Nat
  maxIndex : Nat
  force : Bool
  isProtein : Bool
  mol : Mol
  seed : UInt64
  buf : List UInt64 := []
  bufActive : Bool := false      -- hashes_buffer non-empty flag is buf ≠ []
  dnaConfigured : Bool := false
  rc : List UInt8 := []
  lastCheck : Nat := 0
  step : Nat := 0

def St.new (seq : List UInt8) (ksize : Nat) (force isProtein : Bool) (mol : Mol) (seed : UInt64) : St :=
  let k := if isProtein || mol != .dna then ksize / 3 else ksize
  let mi := if seq.length ≥ k then seq.length - k + 1 else 0
  { seq := seq.map upper, k := k, maxIndex := mi, force := force, isProtein := isProtein, mol := mol, seed := seed }

def lexMin (a b : List UInt8) : List UInt8 := if compare a b == .gt then b else a

/-- validity scan of positions j ∈ [start, stop): returns (firstInvalid?, newLastCheck) -/
def scan (seq : List UInt8) (j stop lastCheck : Nat) : Bool × Nat :=
  if h : j < stop then
    if !valid (seq.getD j 0) then (false, lastCheck) else scan seq (j+1) stop (lastCheck+1)
  else (true, lastCheck)
termination_by stop - j

def St.next (s : St) : Option (Item × St) :=
  if s.kmerIndex < s.maxIndex || !s.buf.isEmpty then
    if !s.isProtein then
      -- configure
      let len := s.seq.length
      if !s.dnaConfigured && (len < s.k || (s.mol != .dna && len < s.k * 3)) then none else
      let s := if s.dnaConfigured then s else { s with rc := revcomp s.seq, dnaConfigured := true }
      if s.mol == .dna then
        let kmer := (s.seq.drop s.kmerIndex).take s.k
        let (okAll, lc) := scan s.seq (max s.kmerIndex s.lastCheck) (s.kmerIndex + s.k) s.lastCheck
        let s := { s with lastCheck := lc }
        if !okAll then
          if !s.force then some (.errDna, s) else some (.ok 0, { s with kmerIndex := s.kmerIndex + 1 })
        else
          let krc := (s.rc.drop (len - s.k - s.kmerIndex)).take s.k
          let h := Murmur.hash64 (lexMin kmer krc) s.seed
          some (.ok h, { s with kmerIndex := s.kmerIndex + 1 })
      else if s.buf.isEmpty && s.step == 0 then
        let frames := (List.range 3).flatMap (fun f =>
          let aa := toAA (s.seq.drop f) s.mol
          let aarc := toAA (s.rc.drop f) s.mol
          (windows s.k aa).map (fun w => Murmur.hash64 w s.seed) ++ (windows s.k aarc).map (fun w => Murmur.hash64 w s.seed))
        some (.ok 0, { s with buf := frames })
      else
        if s.step == s.buf.length then some (.ok 0, { s with buf := [], kmerIndex := s.maxIndex })
        else some (.ok (s.buf.getD s.step 0), { s with step := s.step + 1 })
    else
      if s.mol == .protein then
        let w := (s.seq.drop s.kmerIndex).take s.k
        some (.ok (Murmur.hash64 w s.seed), { s with kmerIndex := s.kmerIndex + 1 })
      else if s.mol == .dna then some (.errHf, s)
      else
        let aa := s.seq.map (fun b => if s.mol == .dayhoff then dayhoff b else hp b)
        let w := (aa.drop s.kmerIndex).take s.k
        some (.ok (Murmur.hash64 w s.seed), { s with kmerIndex := s.kmerIndex + 1 })
  else none

/-- run until None or first error (fuel-bounded) -/
def run (s : St) : Nat → List Item
  | 0 => []
  | fuel+1 =>
    match s.next with
    | none => []
    | some (.ok h, s') => .ok h :: run s' fuel
    | some (e, _) => [e]

end Seq
