/-!
# C20 — the error channel of the C API (src/core/src/ffi/utils.rs)

Model of `LAST_ERROR` (thread local), the panic hook installed by `sourmash_init`, `landingpad`
(the body of every `ffi_fn!` export) and of an export that is *not* wrapped.

The model is parametric in the type `κ` of error kinds (instantiated with the generated
`ErrKind`, one constructor per `SourmashError` variant) and in the kind `pk` that the panic hook
stores (`SourmashError::Panic`).  Messages are abstracted to "the stored error", so a message is
non-empty exactly when an error is stored.  Core Lean only.
-/
namespace Sourmash.Ffi

/-- `LAST_ERROR : RefCell<Option<Error>>` of the calling thread, and whether `set_panic_hook` ran. -/
structure Chan (κ : Type) where
  last : Option κ := none
  hook : Bool := false

/-- state of a thread that has not called anything yet -/
def Chan.fresh {κ : Type} : Chan κ := {}

/-- what the closure passed to `landingpad` (or the bare body of an unguarded export) does -/
inductive Outcome (κ α : Type) where
  /-- returns `Ok(v)` (guarded) / returns `v` (unguarded) -/
  | ok (v : α)
  /-- returns `Err(e)`, `e` of kind `k` (unguarded bodies can only `unwrap`/`expect` it) -/
  | err (k : κ)
  /-- panics -/
  | panic

/-- what the C caller observes -/
inductive Ret (α : Type) where
  | ret (v : α)
  /-- "panic in a function that cannot unwind": the process is gone -/
  | abort
  deriving DecidableEq

variable {κ α : Type}

/-- `sourmash_init` -/
def sourmashInit (s : Chan κ) : Chan κ := { s with hook := true }

/-- `sourmash_err_clear` -/
def errClear (s : Chan κ) : Chan κ := { s with last := none }

/-- `sourmash_err_get_last_code` (read-only): `from_error` of the stored error, `NoError = 0` otherwise -/
def errGetLastCode (code : κ → Nat) (s : Chan κ) : Nat :=
  match s.last with
  | none => 0
  | some k => code k

/-- `sourmash_err_get_last_message` (read-only): the stored error, whose `to_string()` is returned;
    `none` is the empty `SourmashStr` -/
def errGetLastMessage (s : Chan κ) : Option κ := s.last

/-- `set_last_error` -/
def setLastError (s : Chan κ) (k : κ) : Chan κ := { s with last := some k }

/-- what happens on this thread when a panic starts: the hook of `set_panic_hook` stores
    `Panic(description)`; the default hook only prints -/
def panicHook (pk : κ) (s : Chan κ) : Chan κ := if s.hook then setLastError s pk else s

/-- `landingpad`: `Ok(Ok r) → r`; `Ok(Err e) → set_last_error(e); zeroed`; `Err(_panic) → zeroed`
    (the hook already ran) -/
def landingpad (pk : κ) (zero : α) (s : Chan κ) : Outcome κ α → Chan κ × α
  | .ok v => (s, v)
  | .err k => (setLastError s k, zero)
  | .panic => (panicHook pk s, zero)

/-- a `pub unsafe extern "C" fn` outside `ffi_fn!`: a returned value is passed on, a panic
    (including the `unwrap` of an `Err`) reaches the `extern "C"` boundary and aborts -/
def unguardedCall (pk : κ) (s : Chan κ) : Outcome κ α → Chan κ × Ret α
  | .ok v => (s, .ret v)
  | .err _ => (panicHook pk s, .abort)
  | .panic => (panicHook pk s, .abort)

/-- one exported function -/
def callExport (guarded : Bool) (pk : κ) (zero : α) (s : Chan κ) (o : Outcome κ α) : Chan κ × Ret α :=
  if guarded then
    let r := landingpad pk zero s o
    (r.1, .ret r.2)
  else unguardedCall pk s o

/-- the calls a thread can make, with the result value abstracted away -/
inductive Call (κ : Type) where
  | init
  | clear
  | getCode
  | getMessage
  | getBacktrace
  /-- any other export; `o` is what its body does on the given arguments -/
  | exported (guarded : Bool) (o : Outcome κ Unit)

/-- one call; `none` = the process aborted -/
def step (pk : κ) (s : Chan κ) : Call κ → Option (Chan κ)
  | .init => some (sourmashInit s)
  | .clear => some (errClear s)
  | .getCode => some s
  | .getMessage => some s
  | .getBacktrace => some s
  | .exported g o =>
    match callExport g pk () s o with
    | (s', .ret _) => some s'
    | (_, .abort) => none

/-- a history of calls on one thread, oldest first -/
def run (pk : κ) (s : Chan κ) : List (Call κ) → Option (Chan κ)
  | [] => some s
  | c :: cs => (step pk s c).bind (fun s' => run pk s' cs)

/-- **Specification of the channel** (independent of `step`): scan the history from the most
    recent call backwards; the first clear or failing guarded call decides.  `hist` is most-recent
    first, `dflt` is what was stored before the history began. -/
def specLast (pk : κ) (dflt : Option κ) : List (Call κ) → Option κ
  | [] => dflt
  | .clear :: _ => none
  | .exported true (.err k) :: _ => some k
  | .exported true .panic :: _ => some pk
  | _ :: rest => specLast pk dflt rest

end Sourmash.Ffi
