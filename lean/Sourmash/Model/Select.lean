import Sourmash.Model.Scaled
/-!
Model/Select.lean — selection over signatures, manifests and collections, as the code is in /repo now
(`selection.rs`, `manifest.rs` `impl Select for Manifest`, `signature.rs` `impl Select for Signature`,
`collection.rs`, `storage/mod.rs` `impl Select for SigStore` / `MemStorage`, `index/linear.rs`).

Conventions: integers are `Nat` (the `u32` product `ksize * 3` and the `u64 → u32` cast of a scaled
value are modelled on `Nat`; the cast is written `% 2^32` where the code has `as u32`); strings are
byte lists (a Rust `String` is a valid-UTF-8 byte string); a Rust panic (`unimplemented!`, `unwrap`,
`assert_eq!`, index out of range) is `none` of an `Option`; a Rust `Err` is `Except.error`.
`md5sum` of a sketch is a parameter `md5of` (it is the subject of property C13).
-/
namespace Select
open Scaled

abbrev Bytes := List UInt8

/-- `HashFunctions` without `Custom` -/
inductive Mol | dna | protein | dayhoff | hp
  deriving DecidableEq, Repr, Inhabited

/-- `Display for HashFunctions` : "DNA", "protein", "dayhoff", "hp" -/
def Mol.name : Mol → Bytes
  | .dna => [68, 78, 65]
  | .protein => [112, 114, 111, 116, 101, 105, 110]
  | .dayhoff => [100, 97, 121, 104, 111, 102, 102]
  | .hp => [104, 112]

def asciiLower (b : UInt8) : UInt8 := if 65 ≤ b && b ≤ 90 then b + 32 else b

/-- `HashFunctions::try_from(&str)` — lower-cases, then matches the four names; anything else is
    `unimplemented!` in the code (a panic), `none` here. -/
def Mol.parse (s : Bytes) : Option Mol :=
  let l := s.map asciiLower
  if l = [100, 110, 97] then some .dna
  else if l = [100, 97, 121, 104, 111, 102, 102] then some .dayhoff
  else if l = [104, 112] then some .hp
  else if l = [112, 114, 111, 116, 101, 105, 110] then some .protein
  else none

/-- the `Murmur64Protein | Murmur64Dayhoff | Murmur64Hp` arm -/
def Mol.proteinFamily : Mol → Bool
  | .dna => false
  | _ => true

/-- `Sketch::MinHash(KmerMinHash)` or `Sketch::LargeMinHash(KmerMinHashBTree)` -/
inductive Container | vec | tree
  deriving DecidableEq, Repr, Inhabited

inductive Err | CannotUpsampleScaled | MismatchKSizes | MismatchDNAProt
  deriving DecidableEq, Repr

/-- What selection and manifests observe of a MinHash sketch.  `ksize` is the stored value
    (three times the residue count for the protein family); `abunds` is aligned with `mins` when
    `tracked`, and empty otherwise. -/
structure Sketch where
  ksize : Nat
  mol : Mol
  num : Nat
  maxHash : Nat
  tracked : Bool
  container : Container
  seed : Nat
  mins : List Nat
  abunds : List Nat
  deriving DecidableEq, Repr, Inhabited

/-- `scaled()` = `scaled_for_max_hash(self.max_hash)` -/
def Sketch.scaled (s : Sketch) : Nat := scaledForMaxHash s.maxHash

/-- `size()` -/
def Sketch.size (s : Sketch) : Nat := s.mins.length

/-- `KmerMinHash::new(scaled, ksize, hf, seed, track, num)` followed by nothing: the empty sketch -/
def Sketch.new (scaled ksize : Nat) (mol : Mol) (seed : Nat) (track : Bool) (num : Nat) (c : Container) : Sketch :=
  { ksize, mol, num, maxHash := maxHashForScaled scaled, tracked := track, container := c, seed,
    mins := [], abunds := [] }

structure Sig where
  name : Option Bytes
  filename : Option Bytes
  sketches : List Sketch
  deriving DecidableEq, Repr, Inhabited

structure Selection where
  ksize : Option Nat := none
  abund : Option Bool := none
  num : Option Nat := none
  scaled : Option Nat := none
  moltype : Option Mol := none
  deriving DecidableEq, Repr, Inhabited

structure Record where
  internalLocation : Bytes
  md5 : Bytes
  md5short : Bytes
  ksize : Nat
  moltype : Bytes
  num : Nat
  scaled : Nat
  nHashes : Nat
  withAbundance : Bool
  name : Bytes
  filename : Bytes
  deriving DecidableEq, Repr, Inhabited

/-- `Record::moltype()` = `self.moltype.as_str().try_into().unwrap()` -/
def Record.mol? (r : Record) : Option Mol := Mol.parse r.moltype

/-! ### signature.rs -/

/-- `Signature::md5sum` : the single sketch's md5, `unimplemented!` unless exactly one sketch -/
def Sig.md5sum? (md5of : Sketch → Bytes) (s : Sig) : Option Bytes :=
  match s.sketches with
  | [sk] => some (md5of sk)
  | _ => none

/-- `Signature::name` : name, else filename, else md5sum -/
def Sig.name? (md5of : Sketch → Bytes) (s : Sig) : Option Bytes :=
  match s.name with
  | some n => some n
  | none =>
    match s.filename with
    | some f => some f
    | none => s.md5sum? md5of

/-- `Signature::filename` -/
def Sig.filenameStr (s : Sig) : Bytes :=
  match s.filename with
  | some f => f
  | none => []

/-- the closure of `self.signatures.retain(..)` in `impl Select for Signature`, criterion by
    criterion in the order of the code -/
def keep (sel : Selection) (s : Sketch) : Bool :=
  let valid := true
  let valid :=
    match sel.ksize with
    | some ksize =>
      let adjusted := if s.mol.proteinFamily then ksize * 3 else ksize
      s.ksize == adjusted
    | none => valid
  let valid :=
    match sel.scaled with
    | some sc => valid && s.scaled != 0 && decide (s.scaled ≤ sc)
    | none => valid
  let valid :=
    match sel.abund with
    | some a => valid && s.tracked == a
    | none => valid
  let valid :=
    match sel.moltype with
    | some m => valid && decide (s.mol = m)
    | none => valid
  let valid :=
    match sel.num with
    | some n => valid && s.num == n
    | none => valid
  valid

/-- net effect of `new(scaled, …)` + `add_many` / `add_many_with_abund` on the strictly increasing
    hash list of an existing sketch: a hash above the new ceiling is refused, an entry with
    abundance 0 is not added, everything else is appended in order -/
def reinsert (maxHash : Nat) (tracked : Bool) (mins abunds : List Nat) : List Nat × List Nat :=
  if tracked then
    let kept := (mins.zip abunds).filter (fun p => decide (p.1 ≤ maxHash) && p.2 != 0)
    (kept.map (·.1), kept.map (·.2))
  else (mins.filter (fun h => decide (h ≤ maxHash)), [])

/-- `downsample_scaled` (identical for both containers) -/
def Sketch.downsampleScaled (s : Sketch) (sc : Nat) : Except Err Sketch :=
  if s.scaled == sc || s.scaled == 0 then .ok s
  else if s.scaled > sc then .error .CannotUpsampleScaled
  else
    let m := maxHashForScaled sc
    let (mins, abunds) := reinsert m s.tracked s.mins s.abunds
    .ok { s with maxHash := m, mins, abunds }

/-- the loop after `retain`: `if (mh.scaled() as u32) < sel_scaled { downsample_scaled(sel_scaled)? }` -/
def downsamplePass (sc : Nat) : List Sketch → Except Err (List Sketch)
  | [] => .ok []
  | s :: rest =>
    if s.scaled % 4294967296 < sc then
      match s.downsampleScaled sc with
      | .error e => .error e
      | .ok d =>
        match downsamplePass sc rest with
        | .error e => .error e
        | .ok ds => .ok (d :: ds)
    else
      match downsamplePass sc rest with
      | .error e => .error e
      | .ok ds => .ok (s :: ds)

/-- `impl Select for Signature` -/
def Sig.select (sel : Selection) (s : Sig) : Except Err Sig :=
  let kept := s.sketches.filter (keep sel)
  match sel.scaled with
  | some sc =>
    match downsamplePass sc kept with
    | .error e => .error e
    | .ok ds => .ok { s with sketches := ds }
  | none => .ok { s with sketches := kept }

/-! ### manifest.rs -/

/-- one record of `Record::from_sig` -/
def mkRecord (md5of : Sketch → Bytes) (name filename path : Bytes) (sk : Sketch) : Record :=
  let md5 := md5of sk
  { internalLocation := path
    md5 := md5
    md5short := md5.take 8
    ksize := if sk.mol.proteinFamily then sk.ksize / 3 else sk.ksize
    moltype := sk.mol.name
    num := sk.num
    scaled := sk.scaled
    nHashes := sk.size
    withAbundance := sk.tracked
    name := name
    filename := filename }

/-- `Record::from_sig` : one record per sketch; `sig.name()` is evaluated once per sketch, so a
    signature without sketches never reaches its panic -/
def fromSig (md5of : Sketch → Bytes) (s : Sig) (path : Bytes) : Option (List Record) :=
  match s.sketches with
  | [] => some []
  | _ =>
    match s.name? md5of with
    | none => none
    | some nm => some (s.sketches.map (mkRecord md5of nm s.filenameStr path))

/-- the `filter` closure of `impl Select for Manifest` -/
def rowValid (sel : Selection) (row : Record) : Bool :=
  let valid := true
  let valid :=
    match sel.ksize with
    | some ksize => row.ksize == ksize
    | none => valid
  let valid :=
    match sel.abund with
    | some a => valid && row.withAbundance == a
    | none => valid
  let valid :=
    match sel.moltype with
    | some m => valid && decide (row.mol? = some m)
    | none => valid
  let valid :=
    match sel.scaled with
    | some sc => valid && row.scaled != 0 && decide (row.scaled ≤ sc)
    | none => valid
  let valid :=
    match sel.num with
    | some n => valid && row.num == n
    | none => valid
  valid

/-- `impl Select for Manifest` (never an error) -/
def manifestSelect (sel : Selection) (m : List Record) : List Record := m.filter (rowValid sel)

/-- `row.moltype()` unwraps `HashFunctions::try_from`, which is `unimplemented!` for a name it does not
    know.  The closure reaches it only when a molecule type is requested and the ksize and abundance
    clauses have left `valid` true (`&&` short-circuits). -/
def rowPanics (sel : Selection) (row : Record) : Bool :=
  match sel.moltype with
  | none => false
  | some _ =>
    let valid :=
      match sel.ksize with
      | some ksize => row.ksize == ksize
      | none => true
    let valid :=
      match sel.abund with
      | some a => valid && row.withAbundance == a
      | none => valid
    valid && row.mol?.isNone

/-- `impl Select for Manifest` with its panic: `none` when the closure panics on some row, else
    `manifestSelect`.  Rows of `Record::from_sig`, and rows read from a CSV document whose molecule
    column holds one of the four names in any letter case, never panic
    (`Sourmash.C11.manifest_total`). -/
def manifestSelect? (sel : Selection) (m : List Record) : Option (List Record) :=
  if m.any (rowPanics sel) then none else some (manifestSelect sel m)

/-- `Record::check_compatible` -/
def checkCompatible (a b : Record) : Except Err Unit :=
  if a.ksize != b.ksize then .error .MismatchKSizes
  else if a.mol? != b.mol? then .error .MismatchDNAProt
  else .ok ()

/-! ### selection.rs -/

/-- `Selection::from_record` : ksize, abundance and molecule type only -/
def Selection.fromRecord (r : Record) : Option Selection :=
  match r.mol? with
  | none => none
  | some m => some { ksize := some r.ksize, abund := some r.withAbundance, moltype := some m }

/-! ### storage/mod.rs, collection.rs, index/linear.rs -/

/-- `SigStore` (only the loaded signature matters here); `From<Signature>` evaluates `name()` -/
def sigStoreOf (md5of : Sketch → Bytes) (s : Sig) : Option Sig :=
  match s.name? md5of with
  | none => none
  | some _ => some s

/-- `impl Select for SigStore` : select on the contained signature -/
def sigStoreSelect (sel : Selection) (s : Sig) : Except Err Sig := s.select sel

/-- a `Collection` over `MemStorage` : manifest + (path ↦ signature) -/
structure Collection where
  manifest : List Record
  storage : List (Bytes × Sig)
  deriving Repr, Inhabited

/-- decimal digits of `n`, most significant first, in front of `acc` (`format!("{}", i)`) -/
def decAux (n : Nat) (acc : Bytes) : Bytes :=
  if h : n < 10 then UInt8.ofNat (48 + n) :: acc
  else decAux (n / 10) (UInt8.ofNat (48 + n % 10) :: acc)
termination_by n
decreasing_by omega

/-- the same digits by structural recursion on a fuel (so that the kernel can evaluate it);
    `n` itself is enough fuel (`Lemmas/CsvDec.lean`: `natBytes_eq`) -/
def decFuel : Nat → Nat → Bytes → Bytes
  | 0, n, acc => UInt8.ofNat (48 + n % 10) :: acc
  | f + 1, n, acc =>
    if n < 10 then UInt8.ofNat (48 + n) :: acc
    else decFuel f (n / 10) (UInt8.ofNat (48 + n % 10) :: acc)

def natBytes (n : Nat) : Bytes := decFuel n n []

/-- `MemStorage::load_sig` : `get(path).unwrap()`.  The storage is a map; `from_sigs` saves under
    pairwise different paths, so which entry a list look-up finds first is immaterial. -/
def loadSig (st : List (Bytes × Sig)) (path : Bytes) : Option Sig :=
  match st.find? (fun p => p.1 == path) with
  | some p => some p.2
  | none => none

/-- `Collection::from_sigs` : record paths are the decimal positions -/
def fromSigsAux (md5of : Sketch → Bytes) : Nat → List Sig → Option (List Record × List (Bytes × Sig))
  | _, [] => some ([], [])
  | i, s :: rest =>
    let path := natBytes i
    match fromSig md5of s path with
    | none => none
    | some recs =>
      match sigStoreOf md5of s with
      | none => none
      | some st =>
        match fromSigsAux md5of (i + 1) rest with
        | none => none
        | some (rs, sts) => some (recs ++ rs, (path, st) :: sts)

def Collection.fromSigs (md5of : Sketch → Bytes) (sigs : List Sig) : Option Collection :=
  match fromSigsAux md5of 0 sigs with
  | none => none
  | some (rs, sts) => some { manifest := rs, storage := sts }

/-- `impl Select for Collection` -/
def Collection.select (sel : Selection) (c : Collection) : Collection :=
  { c with manifest := manifestSelect sel c.manifest }

/-- `Collection::sig_from_record` : load, select by `Selection::from_record`, `assert_eq!(len, 1)`.
    Outer `none` = panic. -/
def Collection.sigFromRecord (c : Collection) (r : Record) : Option (Except Err Sig) :=
  match Selection.fromRecord r with
  | none => none
  | some sel =>
    match loadSig c.storage r.internalLocation with
    | none => none
    | some sg =>
      match sigStoreSelect sel sg with
      | .error e => some (.error e)
      | .ok sg' => if sg'.sketches.length == 1 then some (.ok sg') else none

/-- `Collection::sig_for_dataset` -/
def Collection.sigForDataset (c : Collection) (i : Nat) : Option (Except Err Sig) :=
  match c.manifest[i]? with
  | none => none
  | some r => c.sigFromRecord r

/-- `CollectionSet::try_from` : every record compatible with the first -/
def collectionSetCheck : List Record → Except Err Unit
  | [] => .ok ()
  | first :: rest =>
    let rec go : List Record → Except Err Unit
      | [] => .ok ()
      | c :: cs =>
        match checkCompatible first c with
        | .error e => .error e
        | .ok () => go cs
    go rest

/-- `impl Select for LinearIndex` : select the collection, re-validate as a `CollectionSet` -/
def linearSelect (sel : Selection) (c : Collection) : Except Err Collection :=
  let c' := c.select sel
  match collectionSetCheck c'.manifest with
  | .error e => .error e
  | .ok () => .ok c'

/-! ### storage/mod.rs : `SigStore` and its lazily initialised `data` cell -/

/-- A `SigStore` as selection sees it: the `data` cell (`OnceCell<Signature>`, filled or still empty)
    and `backing` = the signature `storage.load(filename)` parses to (`none`: the store has no
    storage).  `From<Signature>`: data filled, no backing; `new_with_storage` / `Storage::load_sig`
    through an `InnerStorage`: both; `SigStore::builder().filename(..).storage(Some(..)).build()`:
    data empty, backing present; `From<DatasetInfo>` / `SigStore::default()`: neither. -/
structure Store where
  data : Option Sig
  backing : Option Sig
  deriving DecidableEq, Repr, Inhabited

/-- `impl Select for SigStore` : `self.data.take().ok_or(Error::MismatchKSizes)?`, then select on the
    signature taken out of the cell.  A store that was not read yet is REFUSED. -/
def Store.select (sel : Selection) (st : Store) : Except Err Store :=
  match st.data with
  | none => .error .MismatchKSizes
  | some sg =>
    match sg.select sel with
    | .error e => .error e
    | .ok sg' => .ok { st with data := some sg' }

/-- `impl ReadData<Signature> for SigStore` : the cell's content; an empty cell is filled from the
    storage first (`get_or_init`); `none` = `Err(ReadDataError::LoadError)` (empty cell, no storage).
    Returns the signature and the store afterwards (the cell is interior-mutable). -/
def Store.read (st : Store) : Option (Sig × Store) :=
  match st.data with
  | some sg => some (sg, st)
  | none =>
    match st.backing with
    | some sg => some (sg, { st with data := some sg })
    | none => none

end Select
