/-!
Model of `src/core/src/ani_utils.rs` and of the ANI fields of `calculate_gather_stats`
(`src/core/src/index/mod.rs`), branch for branch, written once over an abstract number type.

* `RealLike α` is the small interface the code needs from `f64`: the four operations, `powf`, `sqrt`,
  the IEEE comparisons `==` and `<` as Booleans, `u64 as f64` and decimal literals.  It is instantiated
  with `Float` in `Sourmash/Model/AniFloat.lean` (driver: bit-for-bit against the Rust code) and with
  `ℝ` in `Sourmash/Lemmas/AniReal.lean` (theorems about the ideal arithmetic).
* `powi` is compiler-rt's / compiler-builtins' `__powidf2` square-and-multiply loop, which is what
  `f64::powi` compiles to; the exponent is an `i32`, and the code obtains it by `x as i32` from an
  `f64`, a *saturating* cast: `satI32`.
* The two external crates are parameters: `brent` (`roots::find_root_brent`, `none` = `Err`) and
  `probit` (`statrs` normal quantile).

No imports: this file is linked into the native driver.
-/
namespace Sourmash.Ani

/-- what the code uses of `f64` -/
class RealLike (α : Type) extends Add α, Sub α, Mul α, Div α where
  /-- `n as f64` for a `u64` (round to nearest even) -/
  ofNat : Nat → α
  /-- the decimal literal `m · 10^(−e)` -/
  ofDec : Nat → Nat → α
  powf : α → α → α
  sqrt : α → α
  /-- IEEE `==` -/
  beq : α → α → Bool
  /-- IEEE `<` -/
  blt : α → α → Bool

section
variable {α : Type} [RealLike α]
open RealLike

/-- numeric literal `n.0` -/
abbrev lit (n : Nat) : α := RealLike.ofNat n

/-! ### integer part: the `as i32` cast and the `powi` loop -/

/-- `i32::MAX` -/
def i32Max : Nat := 2147483647

/-- `(n as f64) as i32` for a `u64` `n`: the float-to-int cast saturates.  (`n as f64` is exact for
`n < 2^53` and monotone, so every `n ≥ 2^31` lands on `i32::MAX`; smaller `n` are unchanged.) -/
def satI32 (n : Nat) : Nat := if n ≤ i32Max then n else i32Max

/-- `__powidf2` for a non-negative exponent: `acc · a^pow` by squaring -/
def powiLoop (a : α) (pow : Nat) (acc : α) : α :=
  let acc' := if pow % 2 = 1 then acc * a else acc
  if h : pow / 2 = 0 then acc' else powiLoop (a * a) (pow / 2) acc'
termination_by pow
decreasing_by omega

/-- `a.powi(n)` for `n ≥ 0` -/
def powi (a : α) (n : Nat) : α := powiLoop a n (lit 1)

/-! ### `ani_from_containment` -/

/-- `ani_from_containment(containment, ksize)` -/
def aniFromContainment (c k : α) : α :=
  if beq c (lit 0) then lit 0
  else if beq c (lit 1) then lit 1
  else lit 1 - (lit 1 - powf c (lit 1 / k))

/-! ### the mutation-model helpers (private functions of `ani_utils.rs`) -/

/-- `r1_to_q(k, r1) = 1 − (1 − r1).powi(k as i32)` -/
def r1ToQ (k : Nat) (r1 : α) : α := lit 1 - powi (lit 1 - r1) (satI32 k)

/-- `exp_n_mutated(l, k, r1)` -/
def expNMutated (l : α) (k : Nat) (r1 : α) : α := l * r1ToQ k r1

/-- the expression of `var_n_mutated` before the sign test -/
def varNExpr (l : α) (k : Nat) (r1 : α) : α :=
  let kf : α := lit k
  let q := r1ToQ k r1
  l * (lit 1 - q) * (q * (lit 2 * kf + (lit 2 / r1) - lit 1) - lit 2 * kf)
    + kf * (kf - lit 1) * powi (lit 1 - q) 2
    + (lit 2 * (lit 1 - q) / (powi r1 2)) * ((lit 1 + (kf - lit 1) * (lit 1 - q)) * r1 - q)

/-- `var_n_mutated(l, k, r1, None)`; `none` is `Err(ANIEstimationError)` -/
def varNMutated (l : α) (k : Nat) (r1 : α) : Option α :=
  if beq r1 (lit 0) then some (lit 0)
  else
    let v := varNExpr l k r1
    if blt v (lit 0) then none else some v

/-- `exp_n_mutated_squared(l, k, p)` (the `?` propagates the error) -/
def expNMutatedSquared (l : α) (k : Nat) (p : α) : Option α :=
  match varNMutated l k p with
  | none => none
  | some v => some (v + powi (expNMutated l k p) 2)

/-! ### `ani_ci_from_containment` -/

/-- `1 / scaled as f64` -/
def fScaled (scaled : Nat) : α := lit 1 / lit scaled

/-- `1 − (1 − f_scaled).powi(n_unique_kmers as i32)` — the exponent saturates at `i32::MAX` -/
def biasFactor (scaled n : Nat) : α := lit 1 - powi (lit 1 - fScaled scaled) (satI32 n)

def term1 (scaled n : Nat) : α :=
  (lit 1 - fScaled scaled) / (fScaled scaled * powi (lit n : α) 3 * powi (biasFactor scaled n : α) 2)

def term2 (n k : Nat) (pest : α) : α :=
  lit n * expNMutated (lit n) k pest - (expNMutatedSquared (lit n) k pest).getD (lit 0)

def term3 (n k : Nat) (pest : α) : α :=
  (varNMutated (lit n) k pest).getD (lit 0) / powi (lit n : α) 2

def varDirect (scaled n k : Nat) (pest : α) : α :=
  term1 scaled n * term2 n k pest + term3 n k pest

/-- closure `f1` of the code (upper sign) -/
def ciF1 (z c : α) (k scaled n : Nat) (pest : α) : α :=
  powi (lit 1 - pest) (satI32 k) + z * sqrt (varDirect scaled n k pest) - c

/-- closure `f2` of the code (lower sign) -/
def ciF2 (z c : α) (k scaled n : Nat) (pest : α) : α :=
  powi (lit 1 - pest) (satI32 k) - z * sqrt (varDirect scaled n k pest) - c

/-- bracket handed to the root finder: `0.0000001`, `0.9999999` -/
def bracketLo : α := ofDec 1 7
def bracketHi : α := ofDec 9999999 7
/-- default confidence `0.95` -/
def defaultConf : α := ofDec 95 2

/-- the argument handed to `probit`: `1 − alpha/2` with `alpha = 1 − confidence` -/
def probitArg (conf : Option α) : α :=
  let alpha := lit 1 - conf.getD defaultConf
  lit 1 - alpha / lit 2

/-- `ani_ci_from_containment(containment, ksize, scaled, n_unique_kmers, confidence)`.
`brent lo hi f` is `roots::find_root_brent(lo, hi, &f, …)` with `none` for `Err`, which the code turns
into the default `0.0` (`unwrap_or_default`).  The Rust function returns a `Result` but has no path
to `Err`: the inner errors are swallowed by `unwrap_or(0.0)`. -/
def aniCiFromContainment (brent : α → α → (α → α) → Option α) (probit : α → α)
    (c : α) (k scaled n : Nat) (conf : Option α) : α × α :=
  if beq c (lit 0) then (lit 0, lit 0)
  else if beq c (lit 1) then (lit 1, lit 1)
  else
    let z := probit (probitArg conf)
    let sol1 := (brent bracketLo bracketHi (ciF1 z c k scaled n)).getD (lit 0)
    let sol2 := (brent bracketLo bracketHi (ciF2 z c k scaled n)).getD (lit 0)
    (lit 1 - sol1, lit 1 - sol2)

/-- one interval request, as a caller states it -/
structure CiReq (α : Type) where
  c : α
  k : Nat
  scaled : Nat
  n : Nat
  conf : Option α

/-- one thread answering a history of interval requests, oldest first.  `ani_ci_from_containment` keeps
nothing between calls (no statics, no thread-locals in `ani_utils.rs`): every answer is the function's
value at that request. -/
def ciAnswers (brent : α → α → (α → α) → Option α) (probit : α → α) (h : List (CiReq α)) : List (α × α) :=
  h.map fun q => aniCiFromContainment brent probit q.c q.k q.scaled q.n q.conf

/-! ### ANI fields of `calculate_gather_stats` -/

/-- `f64::max` on non-NaN arguments -/
def fmax (a b : α) : α := if blt a b then b else a

/-- the containments gather reports and derives the ANI values from -/
structure GatherRatios (α : Type) where
  fOrigQuery : α
  fMatchOrig : α
  fUniqueToQuery : α
  fMatch : α

structure GatherAni (α : Type) where
  queryContainmentAni : α
  matchContainmentAni : α
  queryCi : Option (α × α)
  matchCi : Option (α × α)
  averageContainmentAni : α
  maxContainmentAni : α

/-- the ANI block of `calculate_gather_stats`: `ksize = match_mh.ksize()`, `scaled = match_mh.scaled()`,
`nUnique = match_mh.n_unique_kmers()` (after the match was downsampled to the query's scaled).
Note which containment feeds what: the point estimates come from `f_orig_query` / `f_match_orig`, the
intervals from `f_unique_to_query` / `f_match`. -/
def gatherAni (ci : α → Nat → Nat → Nat → Option α → α × α)
    (r : GatherRatios α) (k scaled nUnique : Nat) (calcCi : Bool) (conf : Option α) : GatherAni α :=
  let q := aniFromContainment r.fOrigQuery (lit k)
  let m := aniFromContainment r.fMatchOrig (lit k)
  { queryContainmentAni := q
    matchContainmentAni := m
    queryCi := if calcCi then some (ci r.fUniqueToQuery k scaled nUnique conf) else none
    matchCi := if calcCi then some (ci r.fMatch k scaled nUnique conf) else none
    averageContainmentAni := (q + m) / lit 2
    maxContainmentAni := fmax q m }

/-- `KmerMinHash::n_unique_kmers` -/
def nUniqueKmers (size scaled : Nat) : Nat := size * scaled

/-- the four ratios, from the set sizes gather computes -/
def gatherRatios (isectOrig isectRemaining origSize matchSize matchSizeArg : Nat) : GatherRatios α :=
  { fOrigQuery := lit isectOrig / lit origSize
    fMatchOrig := lit isectOrig / lit matchSize
    fUniqueToQuery := lit isectRemaining / lit origSize
    fMatch := lit matchSizeArg / lit matchSize }

/-! ### the sketches `calculate_gather_stats` compares

The function receives the match sketch at its own `scaled` and brings it to the query's:
`match_mh.clone().downsample_scaled(remaining_query.scaled())`.  Everything after that line — the
intersections, the four ratios, `ksize`, and inside `if calc_ani_ci` also `scaled()` and
`n_unique_kmers()` — is read from the **downsampled** sketch.  (`scaled()` of a sketch is
`scaled_for_max_hash(max_hash_for_scaled(s))`, which is `s` again: property C14.) -/

/-- `|a ∩ b|` for two duplicate-free hash lists -/
def isectSize (a b : List Nat) : Nat := (a.filter fun x => b.contains x).length

/-- contents of a scaled sketch after `add_hash` of every element of `hs` (sorted, duplicate-free
input): `hash > max_hash` is ignored -/
def sketchOf (maxHash : Nat) (hs : List Nat) : List Nat := hs.filter (· ≤ maxHash)

/-- `KmerMinHash::downsample_scaled` on the match: `Ok(self)` for an equal scaled, otherwise a new
sketch at the coarser scaled filled by `add_many` (the caller has excluded the `Err` branch) -/
def downsampleTo (maxHashQ qScaled mScaled : Nat) (mat : List Nat) : List Nat :=
  if mScaled = qScaled then mat else sketchOf maxHashQ mat

/-- ANI-related output of `calculate_gather_stats` for a query at `qScaled` (`maxHashQ` its
`max_hash`) and a match sketch `mat` at `mScaled`; `none` = `Err(CannotUpsampleScaled)`.
The third component is the `n_unique_kmers` handed to the interval function. -/
def gatherStatsAni (ci : α → Nat → Nat → Nat → Option α → α × α)
    (maxHashQ k qScaled mScaled : Nat) (orig remaining mat : List Nat) (matchSizeArg : Nat)
    (calcCi : Bool) (conf : Option α) : Option (GatherRatios α × GatherAni α × Nat) :=
  if mScaled > qScaled then none
  else
    let m := downsampleTo maxHashQ qScaled mScaled mat
    let r : GatherRatios α :=
      gatherRatios (isectSize m orig) (isectSize m remaining) orig.length m.length matchSizeArg
    let nu := nUniqueKmers m.length qScaled
    some (r, gatherAni ci r k qScaled nu calcCi conf, nu)

end
end Sourmash.Ani
