import Sourmash.Model.Scaled
/-!
Model/SetOps.lean — two-operand operations of `KmerMinHash` / `KmerMinHashBTree`
(src/core/src/sketch/minhash.rs) and the downsample pass of `Signature::select`
(src/core/src/signature.rs), written branch for branch from the code as it is in /repo now.

Self-contained (imports only the exact binary64 model of `max_hash_for_scaled` /
`scaled_for_max_hash`).  Properties C03 and C04 are stated about these definitions.

Representation.  One light record `Sk` for both container types: `mins` is the sorted hash list
(`Vec<u64>` kept sorted by `binary_search`+`insert`, resp. the `BTreeSet` in iteration order),
`abunds` the abundance list aligned with it (`Vec<u64>`, resp. the values of the `BTreeMap` in key
order — the tree keeps `abunds.keys() = mins`, which is part of C01).  The md5 cache is C13's and the
tree's `current_max` field equals `max(mins)` (or 0) after every public call since the repair
`cfc6bfc` (and, since `04873e6`, after `builder()…mins(..).build()`, whose default derives it from the
hashes); it is modelled as that derived value — except for a sketch made by the public builder with
an EXPLICIT `.current_max(x)` that is not its largest hash (and its clones), for which the section
"sketches that were not made by `new` + insertions" at the end of the file carries the field
explicitly (`Sk.addTc`, `Sk.removeTc`).  Where the two types differ (`add` with abundance 0,
the shape of `merge`) there are two definitions selected by `Kind`.  u64 arithmetic is modelled on
`Nat`: abundance sums are assumed not to overflow (the harness is built with overflow checks, an
overflow would surface as `PANIC`).
-/
namespace SetOps

inductive Kind where
  | vec | tree
  deriving DecidableEq, Repr

/-- `HashFunctions` (the `Custom` variant cannot be produced through `new`). -/
inductive Mol where
  | dna | protein | dayhoff | hp
  deriving DecidableEq, Repr

inductive Err where
  | MismatchKSizes | MismatchDNAProt | MismatchScaled | MismatchSeed
  | NeedsAbundanceTracking | CannotUpsampleScaled
  deriving DecidableEq, Repr

structure Sk where
  num : Nat
  maxHash : Nat
  ksize : Nat
  seed : Nat
  mol : Mol
  mins : List Nat
  abunds : Option (List Nat)
  deriving DecidableEq, Repr

/-- representation invariant of both container types (C01 proves that every public call keeps it):
hashes strictly increasing, abundance list aligned with them. -/
def Sk.WF (s : Sk) : Prop :=
  s.mins.Pairwise (· < ·) ∧ ∀ ab, s.abunds = some ab → ab.length = s.mins.length

/-- `KmerMinHash::new` / `KmerMinHashBTree::new` -/
def Sk.new (scaled ksize : Nat) (mol : Mol) (seed : Nat) (track : Bool) (num : Nat) : Sk :=
  { num := num, maxHash := Scaled.maxHashForScaled scaled, ksize := ksize, seed := seed, mol := mol,
    mins := [], abunds := if track then some [] else none }

/-- `scaled()` = `scaled_for_max_hash(self.max_hash)` -/
def Sk.scaled (s : Sk) : Nat := Scaled.scaledForMaxHash s.maxHash

def Sk.track (s : Sk) : Bool := s.abunds.isSome

/-- `check_compatible`: ksize → hash function → max_hash → seed; `num` is not compared. -/
def checkCompatible (a b : Sk) : Except Err Unit :=
  if a.ksize ≠ b.ksize then .error .MismatchKSizes
  else if a.mol ≠ b.mol then .error .MismatchDNAProt
  else if a.maxHash ≠ b.maxHash then .error .MismatchScaled
  else if a.seed ≠ b.seed then .error .MismatchSeed
  else .ok ()

/-! ### single-hash updates (needed by `add_from`, `add_many`, `remove_from`, `downsample_scaled`) -/

/-- what `binary_search` returns (found or not) on a strictly increasing vector -/
def pos (mins : List Nat) (h : Nat) : Nat := (mins.takeWhile (· < h)).length
def insertAt {α : Type} (l : List α) (i : Nat) (x : α) : List α := l.take i ++ x :: l.drop i
/-- `abunds[pos] += a` -/
def bump (l : List Nat) (i a : Nat) : List Nat :=
  l.take i ++ (match l.drop i with | [] => [] | v :: t => (v + a) :: t)

/-- `remove_hash` (vector: binary search + `Vec::remove` on both vectors; tree: `BTreeSet::remove` +
`BTreeMap::remove`, the same effect on the aligned lists). -/
def Sk.remove (s : Sk) (h : Nat) : Sk :=
  let p := pos s.mins h
  if s.mins[p]? = some h then
    { s with mins := s.mins.eraseIdx p, abunds := s.abunds.map (·.eraseIdx p) }
  else s

/-- `KmerMinHash::add_hash_with_abundance` -/
def Sk.addV (s : Sk) (h a : Nat) : Sk :=
  if h > s.maxHash ∧ s.maxHash ≠ 0 then s
  else if s.num = 0 ∧ s.maxHash = 0 then s
  else if a = 0 then s.remove h
  else if s.mins = [] then { s with mins := [h], abunds := s.abunds.map (· ++ [a]) }
  else
    let cur := s.mins.getLast?.getD 0
    if h ≤ s.maxHash ∨ h ≤ cur ∨ s.mins.length < s.num then
      let p := pos s.mins h
      if p = s.mins.length then
        { s with mins := s.mins ++ [h], abunds := s.abunds.map (· ++ [a]) }
      else if s.mins[p]? ≠ some h then
        let m := insertAt s.mins p h
        let ab := s.abunds.map (insertAt · p a)
        if s.num ≠ 0 ∧ m.length > s.num then
          { s with mins := m.dropLast, abunds := ab.map List.dropLast }
        else { s with mins := m, abunds := ab }
      else { s with abunds := s.abunds.map (bump · p a) }
    else s

/-- `KmerMinHashBTree::add_hash_with_abundance`: abundance 0 is ignored (no removal); set insert, map
`entry += a`, eviction of the largest key. -/
def Sk.addT (s : Sk) (h a : Nat) : Sk :=
  if h > s.maxHash ∧ s.maxHash ≠ 0 then s
  else if s.num = 0 ∧ s.maxHash = 0 then s
  else if a = 0 then s
  else if s.mins = [] then { s with mins := [h], abunds := s.abunds.map (fun _ => [a]) }
  else
    let cur := s.mins.getLast?.getD 0
    if h ≤ s.maxHash ∨ h ≤ cur ∨ s.mins.length < s.num then
      let p := pos s.mins h
      let isNew := s.mins[p]? ≠ some h
      let m := if isNew then insertAt s.mins p h else s.mins
      let ab := s.abunds.map (fun l => if isNew then insertAt l p a else bump l p a)
      if s.num ≠ 0 ∧ m.length > s.num then
        { s with mins := m.dropLast, abunds := ab.map List.dropLast }
      else { s with mins := m, abunds := ab }
    else s

/-- `KmerMinHash::set_hash_with_abundance` (vector type only): overwrite the abundance of a present
hash — also with 0 —, otherwise `add_hash_with_abundance`. -/
def Sk.setV (s : Sk) (h a : Nat) : Sk :=
  let p := pos s.mins h
  if s.mins[p]? = some h then { s with abunds := s.abunds.map (fun l => l.set p a) }
  else s.addV h a

def Sk.add (k : Kind) (s : Sk) (h a : Nat) : Sk :=
  match k with
  | .vec => s.addV h a
  | .tree => s.addT h a

/-- `add_many` -/
def Sk.addMany (k : Kind) (s : Sk) (hs : List Nat) : Sk := hs.foldl (fun s h => s.add k h 1) s
/-- `add_many_with_abund` -/
def Sk.addManyAb (k : Kind) (s : Sk) (ps : List (Nat × Nat)) : Sk :=
  ps.foldl (fun s p => s.add k p.1 p.2) s
/-- `add_from`: every hash of `o` with abundance 1; always `Ok`, no compatibility check -/
def Sk.addFrom (k : Kind) (s o : Sk) : Sk := s.addMany k o.mins
/-- `remove_many` (always `Ok`) -/
def Sk.removeMany (s : Sk) (hs : List Nat) : Sk := hs.foldl Sk.remove s
/-- `remove_from` (vector type only; always `Ok`, no compatibility check) -/
def Sk.removeFrom (s o : Sk) : Sk := s.removeMany o.mins

/-- `to_vec_abunds` -/
def Sk.pairs (s : Sk) : List (Nat × Nat) :=
  match s.abunds with
  | some ab => s.mins.zip ab
  | none => s.mins.map (fun h => (h, 1))

/-! ### two-pointer walks -/

/-- the key walk of `KmerMinHash::merge` (`while self_value.is_some()` …, then the rest of `other`);
also what `BTreeSet::union` iterates. -/
def mergeKeys : List Nat → List Nat → List Nat
  | [], o => o
  | x :: s, [] => x :: s
  | x :: s, y :: o =>
    if y < x then y :: mergeKeys (x :: s) o
    else if y = x then x :: mergeKeys s o
    else x :: mergeKeys s (y :: o)
termination_by a b => a.length + b.length

/-- the same walk carrying the abundance iterators (both operands track abundance) -/
def mergePairs : List (Nat × Nat) → List (Nat × Nat) → List (Nat × Nat)
  | [], o => o
  | p :: s, [] => p :: s
  | (x, a) :: s, (y, b) :: o =>
    if y < x then (y, b) :: mergePairs ((x, a) :: s) o
    else if y = x then (x, b + a) :: mergePairs s o
    else (x, a) :: mergePairs s ((y, b) :: o)
termination_by a b => a.length + b.length

/-- `BTreeMap::get(h).unwrap_or(&0)` on the (key, value) list -/
def look : List (Nat × Nat) → Nat → Nat
  | [], _ => 0
  | (k, v) :: t, h => if k = h then v else look t h

/-- `KmerMinHash::merge` -/
def Sk.mergeV (s o : Sk) : Except Err Sk := do
  checkCompatible s o
  match s.abunds, o.abunds with
  | some sa, some oa =>
    let m := mergePairs (s.mins.zip sa) (o.mins.zip oa)
    let m := if m.length > s.num ∧ s.num ≠ 0 then m.take s.num else m
    pure { s with mins := m.map Prod.fst, abunds := some (m.map Prod.snd) }
  | _, _ =>
    let m := mergeKeys s.mins o.mins
    let m := if m.length > s.num ∧ s.num ≠ 0 then m.take s.num else m
    pure { s with mins := m, abunds := none }

/-- `KmerMinHashBTree::merge`: `union.take(num or ∞)`; abundances rebuilt by map lookups when both
track, dropped when only `self` tracks, left absent otherwise. -/
def Sk.mergeT (s o : Sk) : Except Err Sk := do
  checkCompatible s o
  let u := mergeKeys s.mins o.mins
  let u := if s.num = 0 then u else u.take s.num
  let ab := match s.abunds with
    | some sa => (match o.abunds with
      | some oa => some (u.map (fun h => look (s.mins.zip sa) h + look (o.mins.zip oa) h))
      | none => none)
    | none => none
  pure { s with mins := u, abunds := ab }

def Sk.merge (k : Kind) (s o : Sk) : Except Err Sk :=
  match k with
  | .vec => s.mergeV o
  | .tree => s.mergeT o

/-- the `Intersection` iterator, collected -/
def interIter : List Nat → List Nat → List Nat
  | [], _ => []
  | _ :: _, [] => []
  | x :: s, y :: o =>
    if x < y then interIter s (y :: o)
    else if y < x then interIter (x :: s) o
    else x :: interIter s o
termination_by a b => a.length + b.length

/-- free function `intersection`: (common, union_size) -/
def interWalk : List Nat → List Nat → List Nat × Nat
  | [], o => ([], o.length)
  | x :: s, [] => ([], (x :: s).length)
  | x :: s, y :: o =>
    if x < y then let r := interWalk s (y :: o); (r.1, r.2 + 1)
    else if y < x then let r := interWalk (x :: s) o; (r.1, r.2 + 1)
    else let r := interWalk s o; (x :: r.1, r.2 + 1)
termination_by a b => a.length + b.length

/-- free function `intersection_size`: (common count, union_size) -/
def interSizeWalk : List Nat → List Nat → Nat × Nat
  | [], o => (0, o.length)
  | x :: s, [] => (0, (x :: s).length)
  | x :: s, y :: o =>
    if x < y then let r := interSizeWalk s (y :: o); (r.1, r.2 + 1)
    else if y < x then let r := interSizeWalk (x :: s) o; (r.1, r.2 + 1)
    else let r := interSizeWalk s o; (r.1 + 1, r.2 + 1)
termination_by a b => a.length + b.length

/-- the `combined_mh` of the num branch of `intersection` / `intersection_size` -/
def combined (k : Kind) (a b : Sk) : Except Err Sk := do
  let c := Sk.new a.scaled a.ksize a.mol a.seed a.track a.num
  let c ← c.merge k a
  c.merge k b

/-- `intersection` -/
def intersection (k : Kind) (a b : Sk) : Except Err (List Nat × Nat) := do
  checkCompatible a b
  if a.num ≠ 0 then
    let c ← combined k a b
    let i1 := interIter a.mins b.mins
    pure (interIter i1 c.mins, c.mins.length)
  else pure (interWalk a.mins b.mins)

/-- `intersection_size` -/
def intersectionSize (k : Kind) (a b : Sk) : Except Err (Nat × Nat) := do
  checkCompatible a b
  if a.num ≠ 0 then
    let c ← combined k a b
    let i1 := interIter a.mins b.mins
    pure ((interIter i1 c.mins).length, c.mins.length)
  else pure (interSizeWalk a.mins b.mins)

/-! ### downsampling -/

/-- `downsample_scaled` (the sketch is consumed; `Ok(self)` returns it as it is) -/
def downsampleScaled (k : Kind) (s : Sk) (scaled : Nat) : Except Err Sk :=
  if s.scaled = scaled ∨ s.scaled = 0 then .ok s
  else if s.scaled > scaled then .error .CannotUpsampleScaled
  else
    let n := Sk.new scaled s.ksize s.mol s.seed s.track s.num
    if s.track then .ok (n.addManyAb k s.pairs) else .ok (n.addMany k s.mins)

/-- `downsample_max_hash` -/
def downsampleMaxHash (k : Kind) (s : Sk) (maxHash : Nat) : Except Err Sk :=
  if s.maxHash = 0 then .ok s else downsampleScaled k s (Scaled.scaledForMaxHash maxHash)

/-! ### comparisons -/

/-- `count_common(other, false)` -/
def countCommonPlain (a b : Sk) : Except Err Nat := do
  checkCompatible a b
  if a.mins.length < b.mins.length then pure (interIter a.mins b.mins).length
  else pure (interIter b.mins a.mins).length

/-- `count_common(other, downsample)` -/
def countCommon (k : Kind) (a b : Sk) (ds : Bool) : Except Err Nat :=
  if ds = true ∧ a.scaled ≠ b.scaled then
    let first := if a.scaled > b.scaled then a else b
    let second := if a.scaled > b.scaled then b else a
    do
      let d ← downsampleScaled k second first.scaled
      countCommonPlain first d
  else countCommonPlain a b

/-- the walk of `KmerMinHash::angular_similarity`: Σ a_i·b_j over shared hashes (the tree computes
the same sum by map lookups) -/
def dotWalk : List (Nat × Nat) → List (Nat × Nat) → Nat
  | [], _ => 0
  | _ :: _, [] => 0
  | (x, a) :: s, (y, b) :: o =>
    if y < x then dotWalk ((x, a) :: s) o
    else if y = x then a * b + dotWalk s o
    else dotWalk s ((y, b) :: o)
termination_by a b => a.length + b.length

def sumSq (l : List Nat) : Nat := (l.map (fun a => a * a)).foldl (· + ·) 0

/-- what `similarity` computes before any floating-point step -/
inductive SimParts where
  /-- `jaccard`: `common as f64 / max(1, size) as f64` -/
  | jaccard (common size : Nat)
  /-- `angular_similarity`: (prod, a_sq, b_sq) -/
  | angular (prod asq bsq : Nat)
  deriving DecidableEq, Repr

/-- `jaccard` (its second `check_compatible` cannot fail after the first) -/
def jaccardParts (k : Kind) (a b : Sk) : Except Err SimParts := do
  checkCompatible a b
  match intersectionSize k a b with
  | .ok (c, n) => pure (.jaccard c n)
  | .error _ => pure (.jaccard 0 1)      -- `Ok(0.0)`; unreachable after check_compatible for num = 0

def angularParts (a b : Sk) : Except Err SimParts := do
  checkCompatible a b
  match a.abunds, b.abunds with
  | some aa, some ba => pure (.angular (dotWalk (a.mins.zip aa) (b.mins.zip ba)) (sumSq aa) (sumSq ba))
  | _, _ => .error .NeedsAbundanceTracking

def similarityPlain (k : Kind) (a b : Sk) (ignoreAbund : Bool) : Except Err SimParts :=
  if ignoreAbund = true ∨ a.abunds.isNone ∨ b.abunds.isNone then jaccardParts k a b
  else angularParts a b

/-- `similarity(other, ignore_abundance, downsample)` up to the final float expression -/
def similarity (k : Kind) (a b : Sk) (ignoreAbund ds : Bool) : Except Err SimParts :=
  if ds = true ∧ a.scaled ≠ b.scaled then
    let first := if a.scaled > b.scaled then a else b
    let second := if a.scaled > b.scaled then b else a
    do
      let d ← downsampleScaled k second first.scaled
      similarityPlain k first d ignoreAbund
  else similarityPlain k a b ignoreAbund

/-- the float tail of `jaccard` / `angular_similarity` (no theorem is about it; compared bit for bit
with the real code by the driver) -/
def SimParts.toFloat : SimParts → Float
  | .jaccard c n => Float.ofNat c / Float.ofNat (max 1 n)
  | .angular p a b =>
    let na := Float.sqrt (Float.ofNat a)
    let nb := Float.sqrt (Float.ofNat b)
    if na == 0.0 || nb == 0.0 then 0.0 else
    let q := Float.ofNat p / (na * nb)
    let q := if q < 1.0 then q else 1.0       -- f64::min(q, 1.) (q is never NaN here)
    1.0 - 2.0 * Float.acos q / 3.14159265358979323846264338327950288

/-! ### inflate -/

/-- `merge_join_by` keeping `Both`: (hash of self, abundance of the source) -/
def inflateWalk : List Nat → List (Nat × Nat) → List (Nat × Nat)
  | [], _ => []
  | _ :: _, [] => []
  | x :: s, (y, b) :: o =>
    if x < y then inflateWalk s ((y, b) :: o)
    else if y < x then inflateWalk (x :: s) o
    else (x, b) :: inflateWalk s o
termination_by a b => a.length + b.length

/-- `inflate` (vector type) -/
def Sk.inflate (s src : Sk) : Except Err Sk := do
  checkCompatible s src
  match src.abunds with
  | none => .error .NeedsAbundanceTracking
  | some ab =>
    let r := inflateWalk s.mins (src.mins.zip ab)
    pure { s with mins := r.map Prod.fst, abunds := some (r.map Prod.snd) }

/-- `inflated_abundances`: (abundances, their sum) -/
def Sk.inflatedAbundances (s src : Sk) : Except Err (List Nat × Nat) := do
  checkCompatible s src
  match src.abunds with
  | none => .error .NeedsAbundanceTracking
  | some ab =>
    let r := (inflateWalk s.mins (src.mins.zip ab)).map Prod.snd
    pure (r, r.foldl (· + ·) 0)

/-! ### the C API wrappers that do more than forward (src/core/src/ffi/minhash.rs)

`kmerminhash_merge`, `_add_from`, `_remove_from`, `_remove_many`, `_add_many`, `_count_common`,
`_add_hash_with_abundance`, `_is_compatible` hand their arguments to the method of the same name
(`merge`, `addFrom`, … above, vector type); the three below add steps of their own. -/

/-- `clear`: hashes and abundances emptied, every parameter — `max_hash` included — kept -/
def Sk.clear (s : Sk) : Sk := { s with mins := [], abunds := s.abunds.map (fun _ => []) }

/-- `kmerminhash_intersection`: `mh.intersection(other)?`, then a `clone()` of `mh`, `clear()`ed and
filled with the common hashes by `add_many`; the result is returned as a new sketch. -/
def capiIntersection (a b : Sk) : Except Err Sk := do
  let r ← intersection .vec a b
  pure (a.clear.addMany .vec r.1)

/-- `kmerminhash_intersection_union_size`: `if let Ok(..) = mh.intersection_size(other)`, otherwise
`*union_size = 0; Ok(0)` — the compatibility error is swallowed. -/
def capiIntersectionUnionSize (a b : Sk) : Nat × Nat :=
  match intersectionSize .vec a b with
  | .ok r => r
  | .error _ => (0, 0)

/-- order of `(u64, u64)` tuples (`pairs.sort_unstable()`) -/
def pairLe (p q : Nat × Nat) : Bool := p.1 < q.1 || (p.1 == q.1 && p.2 ≤ q.2)
def insertPair (p : Nat × Nat) : List (Nat × Nat) → List (Nat × Nat)
  | [] => [p]
  | q :: t => if pairLe p q then p :: q :: t else q :: insertPair p t
def sortPairs (l : List (Nat × Nat)) : List (Nat × Nat) := l.foldr insertPair []

/-- `kmerminhash_set_abundances`: the (hash, abundance) pairs sorted, `clear()` if asked for, then
`add_many_with_abund`. -/
def capiSetAbundances (s : Sk) (ps : List (Nat × Nat)) (clear : Bool) : Sk :=
  (if clear then s.clear else s).addManyAb .vec (sortPairs ps)

/-! ### `calculate_gather_stats` (index/mod.rs): the part that depends on downsampling the match -/

/-- the integer data behind the fields that involve the (downsampled) match: every `f_*` field is
`num as f64 / den as f64` of the stored pair -/
structure GStats where
  intersectBp : Nat
  remainingBp : Nat
  uniqueIntersectBp : Nat
  fOrigQuery : Nat × Nat
  fMatch : Nat × Nat
  fMatchOrig : Nat × Nat
  fUniqueToQuery : Nat × Nat
  deriving DecidableEq, Repr

/-- `calculate_gather_stats` up to the float divisions (no abundance statistics, no ANI): the query is
never downsampled (`CannotUpsampleScaled` when the match is coarser), the match is; the two
`.expect(..)` on `downsample_scaled` / `intersection` are modelled as the error they would panic with. -/
def gatherStats (k : Kind) (origQ remQ m : Sk) (matchSize : Nat) : Except Err GStats :=
  if m.scaled > remQ.scaled then .error .CannotUpsampleScaled else do
    let m' ← downsampleScaled k m remQ.scaled
    let isect ← intersection k m' remQ
    let io ← intersectionSize k m' origQ
    pure { intersectBp := m'.scaled * io.1,
           remainingBp := (remQ.mins.length - isect.1.length) * remQ.scaled,
           uniqueIntersectBp := m'.scaled * isect.1.length,
           fOrigQuery := (io.1, origQ.mins.length),
           fMatch := (matchSize, m'.mins.length),
           fMatchOrig := (io.1, m'.mins.length),
           fUniqueToQuery := (isect.1.length, origQ.mins.length) }

/-! ### `Signature::select`, the part that concerns MinHash sketches and a `scaled` request -/

/-- retain test of the scaled block: num sketches (scaled() = 0) never satisfy a scaled request -/
def keepScaled (s : Sk) (sel : Nat) : Bool := s.scaled ≠ 0 ∧ s.scaled ≤ sel

/-- downsample pass: `if (mh.scaled() as u32) < sel { *sketch = mh.clone().downsample_scaled(sel)? }` -/
def selectScaled (k : Kind) (sks : List Sk) (sel : Nat) : Except Err (List Sk) :=
  (sks.filter (keepScaled · sel)).mapM
    (fun s => if s.scaled % 2 ^ 32 < sel then downsampleScaled k s sel else .ok s)

/-! ### sketches that were not made by `new` + insertions

The public `TypedBuilder` of both types takes the content ready-made (`mins`, `abunds`); the tree
type's builder also exposes the cache `current_max`: left alone it defaults to the largest of the
given hashes (`mins.iter().next_back().copied().unwrap_or(0)`, /repo 04873e6), given explicitly it is
taken as it is, and `Clone` copies the field.  For a sketch built with an explicit value that is not
`max(mins)` the cache is stale, so the code paths that read it (`add_hash_with_abundance`,
`remove_hash`) are written here once more with the cache as an explicit argument/result;
`Sk.addTc_fst` (Theorems/C03) shows that with the exact cache this is `Sk.addT`. -/

/-- the largest hash (`*self.mins.iter().next_back().unwrap_or(&0)`) -/
def Sk.curMax (s : Sk) : Nat := s.mins.getLast?.getD 0

/-- `KmerMinHashBTree::add_hash_with_abundance` with the field `current_max` explicit: (sketch, cache) -/
def Sk.addTc (s : Sk) (cm h a : Nat) : Sk × Nat :=
  if h > s.maxHash ∧ s.maxHash ≠ 0 then (s, cm)
  else if s.num = 0 ∧ s.maxHash = 0 then (s, cm)
  else if a = 0 then (s, cm)
  else if s.mins = [] then ({ s with mins := [h], abunds := s.abunds.map (fun _ => [a]) }, h)
  else
    if h ≤ s.maxHash ∨ h ≤ cm ∨ s.mins.length < s.num then
      let p := pos s.mins h
      let isNew := s.mins[p]? ≠ some h
      let m := if isNew then insertAt s.mins p h else s.mins
      let ab := s.abunds.map (fun l => if isNew then insertAt l p a else bump l p a)
      let cm1 := if isNew ∧ h > cm then h else cm
      if s.num ≠ 0 ∧ m.length > s.num then
        ({ s with mins := m.dropLast, abunds := ab.map List.dropLast }, m.dropLast.getLast?.getD 0)
      else ({ s with mins := m, abunds := ab }, cm1)
    else (s, cm)

/-- `KmerMinHashBTree::remove_hash` with the cache explicit: it is recomputed only when the removed
value equals it -/
def Sk.removeTc (s : Sk) (cm h : Nat) : Sk × Nat :=
  let s' := s.remove h
  (s', if h = cm then s'.curMax else cm)

def Sk.addManyAbTc (s : Sk) (cm : Nat) (ps : List (Nat × Nat)) : Sk × Nat :=
  ps.foldl (fun sc p => sc.1.addTc sc.2 p.1 p.2) (s, cm)
def Sk.addManyTc (s : Sk) (cm : Nat) (hs : List Nat) : Sk × Nat :=
  hs.foldl (fun sc h => sc.1.addTc sc.2 h 1) (s, cm)
def Sk.removeManyTc (s : Sk) (cm : Nat) (hs : List Nat) : Sk × Nat :=
  hs.foldl (fun sc h => sc.1.removeTc sc.2 h) (s, cm)

/-- `From<KmerMinHashBTree> for KmerMinHash` (by value and by reference) and `From<KmerMinHash> for
KmerMinHashBTree`: a `new(other.scaled(), ..)` sketch that takes over hashes and abundances — the
ceiling is re-derived from `scaled()`; every other parameter and the content are kept (the tree side
recomputes `current_max`). -/
def Sk.convert (s : Sk) : Sk := { s with maxHash := Scaled.maxHashForScaled s.scaled }

/-- `Deserialize` of what `Serialize` wrote: `num` is dropped when a ceiling is present (legacy-file
rule), pairs are sorted by hash (already so for a sketch), everything else is kept -/
def Sk.serdeRoundTrip (s : Sk) : Sk := { s with num := if s.maxHash ≠ 0 then 0 else s.num }

/-- `Default::default()` of both types -/
def Sk.defaultSk : Sk :=
  { num := 1000, maxHash := 0, ksize := 21, seed := 42, mol := .dna, mins := [], abunds := none }

/-- the "pour" idiom of downsampling (what the Python layer's `MinHash.downsample()` does through
`kmerminhash_new` + `kmerminhash_add_from`): a new empty sketch at `scaled` with the other parameters
of `s`, then `add_from(s)` -/
def pourScaled (k : Kind) (s : Sk) (scaled : Nat) : Sk :=
  (Sk.new scaled s.ksize s.mol s.seed s.track s.num).addFrom k s

end SetOps
