/-!
Model/Md5.lean — RFC 1321 (MD5) on `List UInt8`, executable, core Lean only.

`md5 : List UInt8 → List UInt8` (16 bytes) follows the RFC step by step: padding (0x80, zeros to
56 mod 64, 64-bit little-endian bit length), 64-byte blocks as sixteen little-endian 32-bit words,
four rounds of sixteen operations with the table `T[i] = floor(2^32·|sin(i+1)|)` and the RFC's shift
amounts.  It stands for the `md5` crate that `KmerMinHash::md5sum` calls; it is compared with the
real crate on every `./check C13` run and with the RFC's own test suite below (`#guard`s, evaluated
every time this file is compiled) and again at driver start-up.

`preimage ksize mins` is the byte string the sketch types feed into MD5: the decimal digits of
`ksize` followed by the decimal digits of every hash, **without separators**.
-/
namespace Md5

def K : Array UInt32 := #[
  0xd76aa478, 0xe8c7b756, 0x242070db, 0xc1bdceee,
  0xf57c0faf, 0x4787c62a, 0xa8304613, 0xfd469501,
  0x698098d8, 0x8b44f7af, 0xffff5bb1, 0x895cd7be,
  0x6b901122, 0xfd987193, 0xa679438e, 0x49b40821,
  0xf61e2562, 0xc040b340, 0x265e5a51, 0xe9b6c7aa,
  0xd62f105d, 0x02441453, 0xd8a1e681, 0xe7d3fbc8,
  0x21e1cde6, 0xc33707d6, 0xf4d50d87, 0x455a14ed,
  0xa9e3e905, 0xfcefa3f8, 0x676f02d9, 0x8d2a4c8a,
  0xfffa3942, 0x8771f681, 0x6d9d6122, 0xfde5380c,
  0xa4beea44, 0x4bdecfa9, 0xf6bb4b60, 0xbebfbc70,
  0x289b7ec6, 0xeaa127fa, 0xd4ef3085, 0x04881d05,
  0xd9d4d039, 0xe6db99e5, 0x1fa27cf8, 0xc4ac5665,
  0xf4292244, 0x432aff97, 0xab9423a7, 0xfc93a039,
  0x655b59c3, 0x8f0ccc92, 0xffeff47d, 0x85845dd1,
  0x6fa87e4f, 0xfe2ce6e0, 0xa3014314, 0x4e0811a1,
  0xf7537e82, 0xbd3af235, 0x2ad7d2bb, 0xeb86d391]

def S : Array UInt32 := #[
  7, 12, 17, 22, 7, 12, 17, 22, 7, 12, 17, 22, 7, 12, 17, 22,
  5, 9, 14, 20, 5, 9, 14, 20, 5, 9, 14, 20, 5, 9, 14, 20,
  4, 11, 16, 23, 4, 11, 16, 23, 4, 11, 16, 23, 4, 11, 16, 23,
  6, 10, 15, 21, 6, 10, 15, 21, 6, 10, 15, 21, 6, 10, 15, 21]

def rotl (x n : UInt32) : UInt32 := (x <<< n) ||| (x >>> (32 - n))

/-- little-endian 32-bit word from four bytes -/
def word (b0 b1 b2 b3 : UInt8) : UInt32 :=
  b0.toUInt32 ||| (b1.toUInt32 <<< 8) ||| (b2.toUInt32 <<< 16) ||| (b3.toUInt32 <<< 24)

def words : List UInt8 → List UInt32
  | b0 :: b1 :: b2 :: b3 :: t => word b0 b1 b2 b3 :: words t
  | _ => []

def wordBytes (w : UInt32) : List UInt8 :=
  [w.toUInt8, (w >>> 8).toUInt8, (w >>> 16).toUInt8, (w >>> 24).toUInt8]

/-- little-endian bytes of a `Nat`, `n` of them -/
def leBytes : Nat → Nat → List UInt8
  | 0, _ => []
  | n + 1, v => UInt8.ofNat (v % 256) :: leBytes n (v / 256)

/-- RFC 1321 §3.1–3.2: append 0x80, zero bytes up to 56 mod 64, then the bit length (64-bit LE). -/
def pad (msg : List UInt8) : List UInt8 :=
  let len := msg.length
  let zeros := (119 - (len % 64)) % 64        -- (56 - (len+1)) mod 64
  msg ++ [0x80] ++ List.replicate zeros 0 ++ leBytes 8 ((len * 8) % 2 ^ 64)

structure State where
  a : UInt32
  b : UInt32
  c : UInt32
  d : UInt32

def init : State := ⟨0x67452301, 0xefcdab89, 0x98badcfe, 0x10325476⟩

/-- one of the 64 operations of a block (RFC 1321 §3.4) -/
def opStep (m : Array UInt32) (st : State) (i : Nat) : State :=
  let (f, g) :=
    if i < 16 then ((st.b &&& st.c) ||| (~~~ st.b &&& st.d), i)
    else if i < 32 then ((st.d &&& st.b) ||| (~~~ st.d &&& st.c), (5 * i + 1) % 16)
    else if i < 48 then (st.b ^^^ st.c ^^^ st.d, (3 * i + 5) % 16)
    else (st.c ^^^ (st.b ||| ~~~ st.d), (7 * i) % 16)
  let f := f + st.a + K[i]! + m[g]!
  ⟨st.d, st.b + rotl f S[i]!, st.b, st.c⟩

def block (st : State) (blk : List UInt8) : State :=
  let m := (words blk).toArray
  let r := (List.range 64).foldl (opStep m) st
  ⟨st.a + r.a, st.b + r.b, st.c + r.c, st.d + r.d⟩

def blocks : Nat → State → List UInt8 → State
  | 0, st, _ => st
  | n + 1, st, l => blocks n (block st (l.take 64)) (l.drop 64)

/-- the 16-byte MD5 digest -/
def md5 (msg : List UInt8) : List UInt8 :=
  let p := pad msg
  let st := blocks (p.length / 64) init p
  wordBytes st.a ++ wordBytes st.b ++ wordBytes st.c ++ wordBytes st.d

def hexDigit (n : Nat) : Char := if n < 10 then Char.ofNat (48 + n) else Char.ofNat (87 + n)

/-- lower-case hex, as `format!("{:x}", digest)` prints it -/
def hex (bs : List UInt8) : String :=
  String.ofList (bs.flatMap (fun b => [hexDigit (b.toNat / 16), hexDigit (b.toNat % 16)]))

/-! ### the preimage -/

/-- decimal digits of `n`, most significant first (`fuel` ≥ number of digits) -/
def digitsAux : Nat → Nat → List Nat → List Nat
  | 0, _, acc => acc
  | fuel + 1, n, acc => if n < 10 then n :: acc else digitsAux fuel (n / 10) (n % 10 :: acc)

/-- decimal digits of `n` (values 0..9), as `write!("{}", n)` prints them -/
def digits (n : Nat) : List Nat := digitsAux (n + 1) n []

/-- digit string of `ksize` followed by the digit strings of all hashes, no separators -/
def preimageDigits (ksize : Nat) (mins : List Nat) : List Nat :=
  digits ksize ++ mins.flatMap digits

/-- the bytes fed into MD5 (ASCII digits) -/
def preimage (ksize : Nat) (mins : List Nat) : List UInt8 :=
  (preimageDigits ksize mins).map (fun d => UInt8.ofNat (48 + d))

/-- the digest a sketch with this `ksize` and these hashes reports -/
def digest (ksize : Nat) (mins : List Nat) : List UInt8 := md5 (preimage ksize mins)

/-! ### RFC 1321 appendix A.5 test suite (evaluated whenever this file is compiled) -/

def ofString (s : String) : List UInt8 := s.toUTF8.toList

def selfTest : Bool :=
  hex (md5 (ofString "")) == "d41d8cd98f00b204e9800998ecf8427e" &&
  hex (md5 (ofString "a")) == "0cc175b9c0f1b6a831c399e269772661" &&
  hex (md5 (ofString "abc")) == "900150983cd24fb0d6963f7d28e17f72" &&
  hex (md5 (ofString "message digest")) == "f96b697d7cb7938d525a2f31aaf161d0" &&
  hex (md5 (ofString "abcdefghijklmnopqrstuvwxyz")) == "c3fcd3d76192e4007dfb496cca67e13b" &&
  hex (md5 (ofString "ABCDEFGHIJKLMNOPQRSTUVWXYZabcdefghijklmnopqrstuvwxyz0123456789"))
    == "d174ab98d277d9f5a5611c2c9f419d9f" &&
  hex (md5 (ofString "12345678901234567890123456789012345678901234567890123456789012345678901234567890"))
    == "57edf4a22be3c955ac49da2e2107b67a" &&
  -- the digit printer against core's `toString`
  [0, 1, 9, 10, 21, 99, 100, 12345, 2 ^ 63, 2 ^ 64 - 1, 10 ^ 19].all
    (fun n => String.ofList ((digits n).map (fun d => Char.ofNat (48 + d))) == toString n)

#guard selfTest

end Md5
