import Sourmash.Model.Select
import Sourmash.Model.Csv
/-!
Model/Manifest.lean — `manifest.rs` around the CSV text: `Manifest::to_writer` / `from_reader` at
the level of `Record`s (serde field order, `intbool` / `to_bool`, integer fields parsed by
`str::parse`, columns found by header name), `PartialEq` / `Hash for Record` (everything but
`internal_location` and `md5short`, the molecule column modulo ASCII letter case), `intersect_manifest`, `Collection::check_superset`.
`Record`, `Record::from_sig`, collections and look-ups are in `Model/Select.lean`.
-/
namespace Manifest
open Select

/-- `intbool` -/
def boolField (b : Bool) : Bytes := if b then [49] else [48]

/-- the eleven fields in struct order; integers through `itoa` (plain decimal) -/
def recordFields (r : Record) : List Bytes :=
  [r.internalLocation, r.md5, r.md5short, natBytes r.ksize, r.moltype, natBytes r.num,
   natBytes r.scaled, natBytes r.nHashes, boolField r.withAbundance, r.name, r.filename]

/-- `Manifest::to_writer` -/
def toWriter (m : List Record) : Bytes := Csv.writeManifest (m.map recordFields)

def digitVal? (b : UInt8) : Option Nat :=
  if 48 ≤ b && b ≤ 57 then some (b.toNat - 48) else none

def parseDigits : Nat → Bytes → Option Nat
  | acc, [] => some acc
  | acc, b :: t =>
    match digitVal? b with
    | none => none
    | some d => parseDigits (acc * 10 + d) t

def stripPlus : Bytes → Bytes
  | [] => []
  | b :: t => if b == 43 then t else b :: t

/-- `str::parse::<uN>()` with `bound = 2^N` : an optional `+`, at least one digit, no overflow -/
def parseNat? (bound : Nat) (s : Bytes) : Option Nat :=
  match stripPlus s with
  | [] => none
  | d :: t =>
    match parseDigits 0 (d :: t) with
    | none => none
    | some n => if n < bound then some n else none

/-- `to_bool` : the lower-cased field must be `0`/`false` or `1`/`true` -/
def toBool? (s : Bytes) : Option Bool :=
  let l := s.map asciiLower
  if l = [48] || l = [102, 97, 108, 115, 101] then some false
  else if l = [49] || l = [116, 114, 117, 101] then some true
  else none

/-- the column with header `name`: serde's derived map visitor rejects a missing and a duplicated
    field, other columns are ignored -/
def column (hdr row : List Bytes) (name : Bytes) : Option Bytes :=
  match (hdr.zip row).filter (fun p => p.1 == name) with
  | [p] => some p.2
  | _ => none

def u32 : Nat := 4294967296
def u64 : Nat := 18446744073709551616

def h (i : Nat) : Bytes := Csv.header.getD i []

/-- one data row into a `Record` -/
def recordOfRow (hdr row : List Bytes) : Option Record := do
  let loc ← column hdr row (h 0)
  let md5 ← column hdr row (h 1)
  let md5short ← column hdr row (h 2)
  let ksize ← (column hdr row (h 3)).bind (parseNat? u32)
  let moltype ← column hdr row (h 4)
  let num ← (column hdr row (h 5)).bind (parseNat? u32)
  let scaled ← (column hdr row (h 6)).bind (parseNat? u64)
  let nh ← (column hdr row (h 7)).bind (parseNat? u64)
  let ab ← (column hdr row (h 8)).bind toBool?
  let name ← column hdr row (h 9)
  let filename ← column hdr row (h 10)
  pure { internalLocation := loc, md5, md5short, ksize, moltype, num, scaled, nHashes := nh,
         withAbundance := ab, name, filename }

def rowsToRecords (hdr : List Bytes) : List (List Bytes) → Option (List Record)
  | [] => some []
  | row :: rest =>
    match recordOfRow hdr row with
    | none => none
    | some r =>
      match rowsToRecords hdr rest with
      | none => none
      | some rs => some (r :: rs)

/-- `Manifest::from_reader` ; `none` = `Err(CsvError)` -/
def fromReader (bs : Bytes) : Option (List Record) :=
  match Csv.readTable bs with
  | none => none
  | some none => some []
  | some (some (hdr, rows)) => rowsToRecords hdr rows

/-- `str::eq_ignore_ascii_case` : equal after ASCII lower-casing, byte by byte -/
def eqIgnoreAsciiCase (x y : Bytes) : Bool := x.map asciiLower == y.map asciiLower

/-- `PartialEq for Record`: everything but `internal_location` and `md5short`; the molecule column
    modulo ASCII letter case (no parsing: unknown names are compared the same way, nothing panics) -/
def recEq (a b : Record) : Bool :=
  a.md5 == b.md5 && a.ksize == b.ksize && eqIgnoreAsciiCase a.moltype b.moltype && a.scaled == b.scaled &&
  a.num == b.num && a.nHashes == b.nHashes && a.withAbundance == b.withAbundance &&
  a.name == b.name && a.filename == b.filename

/-- what `Hash for Record` feeds the hasher, in order: the same columns, the molecule column
    ASCII-lower-cased.  `intersect_manifest` finds rows through a `HashSet<&Record>`: that is
    "some row of the other manifest is `==`" exactly because equal records feed equal keys
    (`Sourmash.C12.recEq_iff_key`). -/
def recKey (r : Record) : Bytes × Nat × Bytes × Nat × Nat × Nat × Bool × Bytes × Bytes :=
  (r.md5, r.ksize, r.moltype.map asciiLower, r.scaled, r.num, r.nHashes, r.withAbundance, r.name, r.filename)

/-- `Manifest::intersect_manifest` : the rows of `a` found in the hash set of `b`'s rows -/
def intersect (a b : List Record) : List Record := a.filter (fun r => b.any (fun q => recEq r q))

/-- `Collection::check_superset` : the two manifests are walked in step (`zip`: up to the shorter
    one); `Ok(self.len())` when every pair of rows is equal, `Err` (`none`) otherwise -/
def checkSuperset (a b : List Record) : Option Nat :=
  if (a.zip b).all (fun p => recEq p.1 p.2) then some a.length else none

end Manifest
