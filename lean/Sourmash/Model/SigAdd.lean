/-!
Model/SigAdd.lean — `Signature::add_sequence` / `Signature::add_protein` (src/core/src/signature.rs)
over a signature that holds several sketches, in both `cfg` variants, written from the code as it is
in /repo now.  No imports: everything is parametric in

* `σ` — a sketch (`Sketch::MinHash` / `Sketch::LargeMinHash`; `Sketch::HyperLogLog` is
  `unimplemented!()` in `Sketch::add_sequence` and is not modelled), `ε` — `Error`,
* `f : σ → σ × Option ε` — the call `sketch.add_sequence(seq, force)` (resp. `add_protein(seq)`) on
  ONE sketch for the fixed arguments of the signature-level call: the sketch as the call leaves it,
  and the `Err` it returned if any.  `sketchAdd` below is that call (`SigsTrait::add_sequence`'s
  default body, which no sketch type overrides) in terms of the hash stream and `add_hash`; the driver
  instantiates the stream with `Model/Seq.lean` and `add_hash` with `Model/SetOps.lean`.

Serial variant (`#[cfg(not(feature = "parallel"))]`): `for sketch in self.signatures.iter_mut() {
sketch.add_sequence(seq, force)?; }` — `serial`.

Parallel variant (`#[cfg(feature = "parallel")]`, what `branchwater` builds):
`self.signatures.par_iter_mut().try_for_each(|sketch| sketch.add_sequence(seq, force))?`.  rayon's
`try_for_each` is `map(op).try_reduce(..)`: every item is handed to exactly one task (`&mut Sketch`
is not shared); the tasks share one `AtomicBool` (`full`) which a task sets when its item returned
`Err`; before an item is processed the flag is read (`consumer.full()` at the head of every
`bridge_producer_consumer::helper`, `folder.full()` after every consumed item) and the item is NOT
processed when the flag is set; the results are reduced keeping the leftmost `Err`.  The machine
`Par` below has exactly this shared state: an execution is a list of events — `check i` (the flag is
read on behalf of item `i`) and `finish i` (the call on item `i` returns and writes its sketch and,
on `Err`, the flag) — in the order in which they hit the shared flag.  Which lists occur is up to
the scheduler (the trusted-base assumption about `par_iter_mut` is only that every item gets one
`check` and, if it was started, one `finish`); the theorems in `Theorems/C03.lean` quantify over ALL
event lists.  A pool of one thread runs the items left to right (`seqTrace (List.range n)`).
-/
namespace SigAdd

/-! ### one sketch -/

/-- the `for hash_value in ready_hashes` loop of `SigsTrait::add_sequence` / `add_protein`:
`Ok(0) => continue`, `Ok(x) => self.add_hash(x)`, `Err(err) => return Err(err)` — the hashes before
the error stay in the sketch. -/
def feed {σ ε : Type} (addHash : σ → Nat → σ) : σ → List (Except ε Nat) → σ × Option ε
  | s, [] => (s, none)
  | s, .ok h :: t => if h = 0 then feed addHash s t else feed addHash (addHash s h) t
  | s, .error e :: _ => (s, some e)

/-- `sketch.add_sequence(seq, force)` / `sketch.add_protein(seq)`: `stream s` are the items of
`SeqToHashes::new(seq, s.ksize(), force, is_protein, s.hash_function(), s.seed())`. -/
def sketchAdd {σ ε : Type} (stream : σ → List (Except ε Nat)) (addHash : σ → Nat → σ) (s : σ) :
    σ × Option ε :=
  feed addHash s (stream s)

/-! ### serial variant -/

/-- `for sketch in self.signatures.iter_mut() { sketch.add_sequence(seq, force)?; } Ok(())`
(`add_protein`: `iter_mut().try_for_each(..)?`, the same loop). -/
def serial {σ ε : Type} (f : σ → σ × Option ε) : List σ → List σ × Option ε
  | [] => ([], none)
  | s :: rest =>
    match (f s).2 with
    | some e => ((f s).1 :: rest, some e)
    | none => ((f s).1 :: (serial f rest).1, (serial f rest).2)

/-! ### parallel variant -/

/-- where an item of the parallel iterator stands -/
inductive Status (ε : Type) where
  /-- not looked at yet -/
  | pending
  /-- the flag was read as `false`; `sketch.add_sequence` is executing -/
  | running
  /-- the flag was read as `true`: the item is dropped unprocessed -/
  | skipped
  /-- the call returned (`none` = `Ok(())`) -/
  | done (r : Option ε)

inductive Ev where
  /-- the shared flag is read on behalf of item `i` -/
  | check (i : Nat)
  /-- the call on item `i` returns -/
  | finish (i : Nat)

/-- the sketches with the state of their tasks, and rayon's shared `full` flag -/
structure Par (σ ε : Type) where
  tasks : List (σ × Status ε)
  full : Bool

def modifyAt {α : Type} (g : α → α) : List α → Nat → List α
  | [], _ => []
  | a :: t, 0 => g a :: t
  | a :: t, i + 1 => a :: modifyAt g t i

def Par.init {σ ε : Type} (sigs : List σ) : Par σ ε :=
  { tasks := sigs.map (fun s => (s, .pending)), full := false }

def onCheck {σ ε : Type} (full : Bool) (sl : σ × Status ε) : σ × Status ε :=
  match sl.2 with
  | .pending => (sl.1, if full then .skipped else .running)
  | _ => sl

def onFinish {σ ε : Type} (f : σ → σ × Option ε) (sl : σ × Status ε) : σ × Status ε :=
  match sl.2 with
  | .running => ((f sl.1).1, .done (f sl.1).2)
  | _ => sl

/-- does the call that returns now return `Err`? -/
def failsNow {σ ε : Type} (f : σ → σ × Option ε) : Option (σ × Status ε) → Bool
  | some (s, .running) => (f s).2.isSome
  | _ => false

/-- one event.  Events that cannot happen (an index out of range, a second `check`, a `finish` of an
item that is not running) change nothing. -/
def step {σ ε : Type} (f : σ → σ × Option ε) (m : Par σ ε) : Ev → Par σ ε
  | .check i => { m with tasks := modifyAt (onCheck m.full) m.tasks i }
  | .finish i => { tasks := modifyAt (onFinish f) m.tasks i, full := m.full || failsNow f m.tasks[i]? }

def exec {σ ε : Type} (f : σ → σ × Option ε) (m : Par σ ε) (evs : List Ev) : Par σ ε :=
  evs.foldl (step f) m

/-- `self.signatures` afterwards -/
def Par.sketches {σ ε : Type} (m : Par σ ε) : List σ := m.tasks.map (·.1)

def errOf {σ ε : Type} (sl : σ × Status ε) : Option ε :=
  match sl.2 with
  | .done (some e) => some e
  | _ => none

/-- what `try_for_each` returns: the reduction keeps the leftmost `Err` -/
def Par.result {σ ε : Type} (m : Par σ ε) : Option ε := m.tasks.findSome? errOf

def settled {σ ε : Type} (sl : σ × Status ε) : Bool :=
  match sl.2 with
  | .done _ => true
  | .skipped => true
  | _ => false

/-- the parallel iterator has returned: no item is waiting or executing -/
def Par.complete {σ ε : Type} (m : Par σ ε) : Bool := m.tasks.all settled

/-- the items are taken one after the other in the order `order` (what a pool of one thread does
with `order = [0, 1, …, n-1]`) -/
def seqTrace (order : List Nat) : List Ev := order.flatMap (fun i => [.check i, .finish i])

/-- every flag read happens before any call returns (all items in flight at once), the calls then
return in the order `order` -/
def eagerTrace (order : List Nat) : List Ev := order.map .check ++ order.map .finish

/-- the parallel variant under the schedule `evs`: (sketches afterwards, the `Err` returned) -/
def parallel {σ ε : Type} (f : σ → σ × Option ε) (sigs : List σ) (evs : List Ev) : List σ × Option ε :=
  let m := exec f (Par.init sigs) evs
  (m.sketches, m.result)

end SigAdd
