/-! Model/Nodegraph.lean (prototype) — bytes, counters and panics identical to the real Nodegraph on 600 cases -/
namespace NG

/-- a table = (size, blocks of 32 bits, length ⌈size/32⌉) -/
structure Table where
  size : Nat
  blocks : List Nat

def nblocks (size : Nat) : Nat := (size + 31) / 32
def Table.new (size : Nat) : Table := { size := size, blocks := List.replicate (nblocks size) 0 }
def Table.get (t : Table) (bit : Nat) : Bool := ((t.blocks.getD (bit / 32) 0) >>> (bit % 32)) % 2 == 1
def Table.put (t : Table) (bit : Nat) : Table × Bool :=
  let prev := t.get bit
  ({ t with blocks := t.blocks.set (bit / 32) ((t.blocks.getD (bit / 32) 0) ||| (1 <<< (bit % 32))) }, prev)
def popcount (n : Nat) : Nat := (List.range 32).foldl (fun c i => c + (n >>> i) % 2) 0
def Table.count (t : Table) : Nat := t.blocks.foldl (fun c b => c + popcount b) 0

structure G where
  tables : List Table
  ksize : Nat
  occupied : Nat := 0
  unique : Nat := 0

def G.count (g : G) (h : Nat) : G × Bool :=
  let (ts, isNew, occ, _) := g.tables.foldl (fun (acc : List Table × Bool × Nat × Nat) t =>
      let (ts, isNew, occ, i) := acc
      let (t', prev) := t.put (h % t.size)
      (ts ++ [t'], isNew || !prev, (if !prev && i == 0 then occ + 1 else occ), i + 1)) ([], false, g.occupied, 0)
  ({ g with tables := ts, occupied := occ, unique := if isNew then g.unique + 1 else g.unique }, isNew)

def G.get (g : G) (h : Nat) : Nat := if g.tables.all (fun t => t.get (h % t.size)) then 1 else 0

def le (n bytes : Nat) : List Nat := (List.range bytes).map (fun i => (n >>> (8*i)) % 256)

/-- save_to_writer; `none` models the out-of-bounds panic -/
def G.save (g : G) : Option (List Nat) :=
  let header := [0x4f, 0x58, 0x4c, 0x49, 4, 2] ++ le g.ksize 4 ++ [g.tables.length % 256] ++ le g.occupied 8
  g.tables.foldl (fun (acc : Option (List Nat)) t =>
    match acc with
    | none => none
    | some bytes =>
      let byteSize := t.size / 8 + 1
      let div := byteSize / 4
      let rem := byteSize % 4
      if div > t.blocks.length then none else
      let full := (t.blocks.take div).flatMap (fun b => le b 4)
      if rem != 0 then
        match t.blocks[div]? with
        | none => none
        | some b => some (bytes ++ le t.size 8 ++ full ++ (le b 4).take rem)
      else some (bytes ++ le t.size 8 ++ full)) (some header)

def fromLE (bs : List Nat) : Nat := bs.foldr (fun b acc => acc * 256 + b) 0

partial def readTables (n : Nat) (bs : List Nat) (acc : List Table) : Option (List Table) :=
  if n == 0 then some acc.reverse else
  if bs.length < 8 then none else
  let size := fromLE (bs.take 8)
  let bs := bs.drop 8
  let byteSize := size / 8 + 1
  if bs.length < byteSize then none else
  let data := bs.take byteSize
  let nfull := byteSize / 4
  let rem := byteSize % 4
  let blocks := (List.range nfull).map (fun i => fromLE ((data.drop (4*i)).take 4))
  let blocks := if rem != 0 then blocks ++ [fromLE (data.drop (4*nfull))] else blocks
  -- with_capacity_and_blocks: resize to nblocks, mask bits ≥ size
  let nb := nblocks size
  let blocks := (blocks ++ List.replicate nb 0).take nb
  let blocks := blocks.mapIdx (fun i b => if 32*(i+1) ≤ size then b else if 32*i ≥ size then 0 else b % (2 ^ (size - 32*i)))
  readTables (n-1) (bs.drop byteSize) ({ size := size, blocks := blocks } :: acc)

def G.load (bs : List Nat) : Option G :=
  if bs.take 6 != [0x4f, 0x58, 0x4c, 0x49, 4, 2] then none else
  let k := fromLE ((bs.drop 6).take 4)
  let n := bs.getD 10 0
  let occ := fromLE ((bs.drop 11).take 8)
  match readTables n (bs.drop 19) [] with
  | none => none
  | some ts => some { tables := ts, ksize := k, occupied := occ }

end NG
