/-!
Model of `sourmash::sketch::nodegraph::Nodegraph` (src/core/src/sketch/nodegraph.rs) as the code is now.

A table is a `FixedBitSet` (fixedbitset 0.4.2): a length in bits and `⌈length/32⌉` 32-bit blocks.  The
block representation is part of the model because `save_to_writer` dumps the raw block slice.
Bytes are `Nat`s below 256; `none` models a panic or an I/O error of the real code.

Used by C15 (Bloom-filter behaviour: `count`, `get`, the `Update` impls, ratios, `_hash`) and by C16
(file format: `save_to_writer`, `from_reader`).  No imports: this file is linked into native drivers.
-/
namespace NG

/-! ## FixedBitSet -/

/-- a table = (length in bits, 32-bit blocks) -/
structure Table where
  size : Nat
  blocks : List Nat
deriving DecidableEq, Repr

/-- `FixedBitSet::with_capacity`: `bits / 32 + (bits % 32 > 0)` blocks -/
def nblocks (size : Nat) : Nat := (size + 31) / 32

def Table.new (size : Nat) : Table := { size := size, blocks := List.replicate (nblocks size) 0 }

/-- `FixedBitSet::contains`: `match data.get(bit / 32) { None => false, Some(b) => b & (1 << bit % 32) != 0 }` -/
def Table.get (t : Table) (bit : Nat) : Bool := (t.blocks.getD (bit / 32) 0).testBit (bit % 32)

/-- `FixedBitSet::put`: sets the bit, returns the previous value (the real one asserts `bit < length`;
    every caller passes `h % length`) -/
def Table.put (t : Table) (bit : Nat) : Table × Bool :=
  ({ t with blocks := t.blocks.set (bit / 32) ((t.blocks.getD (bit / 32) 0) ||| (1 <<< (bit % 32))) },
   t.get bit)

/-- `FixedBitSet::ones()` as a list: the set bits below the length, ascending -/
def Table.ones (t : Table) : List Nat := (List.range t.size).filter t.get

/-- `FixedBitSet::count_ones(..)`: the number of set bits below the length -/
def Table.countOnes (t : Table) : Nat := t.ones.length

/-- `FixedBitSet::union_with(other)`: grows to `other`'s length when that is larger, then ORs the
    blocks pairwise (`zip`: the shorter block list decides how many) -/
def orBlocks : List Nat → List Nat → List Nat
  | x :: xs, y :: ys => (x ||| y) :: orBlocks xs ys
  | xs, [] => xs
  | [], _ => []

def Table.unionWith (t o : Table) : Table :=
  let t : Table := if o.size > t.size then
      { size := o.size, blocks := t.blocks ++ List.replicate (nblocks o.size - t.blocks.length) 0 } else t
  { t with blocks := orBlocks t.blocks o.blocks }

/-- `a.intersection(b).count()`: bits of `a` that `b` contains -/
def Table.interCount (a b : Table) : Nat := (a.ones.filter b.get).length
/-- `a.union(b).count()`: `a.ones()` chained with `b.difference(a)` -/
def Table.unionCount (a b : Table) : Nat := a.ones.length + (b.ones.filter (fun x => !a.get x)).length

/-! ## Nodegraph -/

structure G where
  tables : List Table
  ksize : Nat
  occupied : Nat := 0
  unique : Nat := 0
deriving DecidableEq, Repr

def G.new (sizes : List Nat) (ksize : Nat) : G := { tables := sizes.map Table.new, ksize := ksize }

/-- trial division (stands for `primal_check::miller_rabin`, which is exact on `u64`) -/
def isPrime (n : Nat) : Bool :=
  n ≥ 2 && (List.range (n - 2)).all (fun d => (d + 2) * (d + 2) > n || n % (d + 2) != 0)

/-- the loop of `with_tables`: descending odd numbers from `i`, primes kept, until `need` were
    found or 1 was reached (`fuel` ≥ i) -/
def primesDown : Nat → Nat → Nat → List Nat
  | 0, _, _ => []
  | fuel + 1, i, need =>
    if need == 0 then [] else
    if isPrime i then i :: (if i == 1 then [] else primesDown fuel (i - 2) (need - 1))
    else (if i == 1 then [] else primesDown fuel (i - 2) need)

/-- `with_tables(tablesize, n_tables, ksize)` for `tablesize ≥ 1` (`tablesize - 1` underflows at 0) -/
def G.withTables (tablesize ntables ksize : Nat) : G :=
  let i := max (tablesize - 1) 2
  let i := if i % 2 == 0 then i - 1 else i
  G.new (primesDown (i + 1) i ntables) ksize

/-- `count`: every table sets bit `h % len`; `occupied_bins` counts new bits of table 0;
    `unique_kmers` counts calls that set at least one new bit. -/
def G.count (g : G) (h : Nat) : G × Bool :=
  let rs := g.tables.map (fun t => t.put (h % t.size))
  let isNew := rs.any (fun r => !r.2)
  let occ := match rs with
    | (_, false) :: _ => g.occupied + 1
    | _ => g.occupied
  ({ g with tables := rs.map (·.1), occupied := occ, unique := if isNew then g.unique + 1 else g.unique }, isNew)

/-- `get`: 1 iff every table contains bit `h % len` -/
def G.get (g : G) (h : Nat) : Nat := if g.tables.all (fun t => t.get (h % t.size)) then 1 else 0

/-- `Update<Nodegraph> for Nodegraph`: `src.update(&mut dst)`; `occupied_bins` becomes the sum over
    the zipped pairs of (count of table 0, else 0) — 0 when there is no pair -/
def zipUnion : List Table → List Table → List Table
  | d :: ds, s :: ss => d.unionWith s :: zipUnion ds ss
  | ds, [] => ds
  | [], _ => []

def G.updateFrom (dst src : G) : G :=
  let ts := zipUnion dst.tables src.tables
  let occ := match dst.tables, src.tables, ts with
    | _ :: _, _ :: _, t0 :: _ => t0.countOnes
    | _, _, _ => 0
  { dst with tables := ts, occupied := occ }

/-- `Update<Nodegraph> for KmerMinHash / KmerMinHashBTree`: `count` every hash of `mins()` -/
def G.updateHashes (g : G) (hs : List Nat) : G := hs.foldl (fun g h => (g.count h).1) g

/-- `matches`: number of the sketch's hashes the filter reports present -/
def G.matches (g : G) (hs : List Nat) : Nat := (hs.filter (fun h => g.get h == 1)).length

/-- `similarity` before the final `as f64 /`: (Σ |a ∩ b|, Σ |a ∪ b|) over the zipped tables -/
def G.similarity (a b : G) : Nat × Nat :=
  (((a.tables.zip b.tables).map (fun p => p.1.interCount p.2)).sum,
   ((a.tables.zip b.tables).map (fun p => p.1.unionCount p.2)).sum)

/-- `containment` before the final division: (Σ |a ∩ b| over the zipped tables, Σ |a| over all of `a`'s) -/
def G.containment (a b : G) : Nat × Nat :=
  (((a.tables.zip b.tables).map (fun p => p.1.interCount p.2)).sum,
   (a.tables.map Table.countOnes).sum)

/-! ## khmer two-bit k-mer hash (`_hash`, `twobit_repr`, `twobit_comp`, `uniqify_rc`)

Nucleotides are their ASCII codes; `none` = `unimplemented!()` / index out of range. -/

def twobitRepr (c : Nat) : Option Nat :=
  if c == 65 then some 0 else if c == 67 then some 2 else if c == 71 then some 3 else if c == 84 then some 1 else none
def twobitComp (c : Nat) : Option Nat :=
  if c == 65 then some 1 else if c == 67 then some 3 else if c == 71 then some 2 else if c == 84 then some 0 else none

/-- one loop step on a `u64`: `x <<= 2; x |= code` -/
def shl2or (x code : Nat) : Nat := ((x <<< 2) % 2 ^ 64) ||| code

/-- forward strand: `hash |= repr(kmer[0])`, then for i = 1.. `hash <<= 2; hash |= repr(kmer[i])` -/
def encFwd : List Nat → Nat → Option Nat
  | [], acc => some acc
  | c :: cs, acc => match twobitRepr c with
    | none => none
    | some r => encFwd cs (shl2or acc r)
/-- reverse strand: the same loop over the k-mer read backwards with the complement code -/
def encRev : List Nat → Nat → Option Nat
  | [], acc => some acc
  | c :: cs, acc => match twobitComp c with
    | none => none
    | some r => encRev cs (shl2or acc r)

/-- the two strands and `uniqify_rc` -/
def hashKmerCore (kmer : List Nat) : Option Nat :=
  match encFwd kmer 0, encRev kmer.reverse 0 with
  | some f, some r => some (if f < r then f else r)
  | _, _ => none

/-- `_hash` as it is now (`let mut j: isize = ksize as isize - 2;`): the empty k-mer indexes out of
    range (`none`); for k = 1 the loop does not run and both strands are the single code. -/
def hashKmer (kmer : List Nat) : Option Nat :=
  if kmer.isEmpty then none else hashKmerCore kmer

/-- `_hash` before the repair (`(ksize - 2) as isize` on a `usize`), as compiled with overflow checks
    (dev/test profile): a panic for k = 1 — through the C API an abort of the process. -/
def hashOld (kmer : List Nat) : Option Nat :=
  if kmer.length < 2 then none else hashKmerCore kmer

def G.countKmer (g : G) (kmer : List Nat) : Option (G × Bool) := (hashKmer kmer).map g.count
def G.getKmer (g : G) (kmer : List Nat) : Option Nat := (hashKmer kmer).map g.get

/-! ## File format (`save_to_writer`, `from_reader`) -/

/-- `n` as `bytes` little-endian bytes (`write_u32::<LittleEndian>(x as u32)`, `write_u64`, and the
    in-memory bytes of a `u32` block on a little-endian target) -/
def le (n bytes : Nat) : List Nat := (List.range bytes).map (fun i => (n >>> (8 * i)) % 256)

def magic : List Nat := [0x4f, 0x58, 0x4c, 0x49, 4, 2]

def G.header (g : G) : List Nat :=
  magic ++ le g.ksize 4 ++ [g.tables.length % 256] ++ le g.occupied 8

/-- the per-table part of `save_to_writer` as it is now:
    `count.as_slice().get(div).copied().unwrap_or(0)` for the tail block -/
def Table.save (t : Table) : Option (List Nat) :=
  let byteSize := t.size / 8 + 1
  let div := byteSize / 4
  let rem := byteSize % 4
  if div > t.blocks.length then none else                       -- `&count.as_slice()[..div]`
  let full := (t.blocks.take div).flatMap (fun b => le b 4)
  let tail := if rem != 0 then (le (t.blocks.getD div 0) 4).take rem else []
  some (le t.size 8 ++ full ++ tail)

/-- the per-table part before the repair: `count.as_slice()[div]` -/
def Table.saveOld (t : Table) : Option (List Nat) :=
  let byteSize := t.size / 8 + 1
  let div := byteSize / 4
  let rem := byteSize % 4
  if div > t.blocks.length then none else
  let full := (t.blocks.take div).flatMap (fun b => le b 4)
  if rem != 0 then
    match t.blocks[div]? with
    | none => none                                              -- index out of bounds
    | some b => some (le t.size 8 ++ full ++ (le b 4).take rem)
  else some (le t.size 8 ++ full)

def saveTablesWith (f : Table → Option (List Nat)) : List Table → Option (List Nat)
  | [] => some []
  | t :: ts =>
    match f t with
    | none => none
    | some b =>
      match saveTablesWith f ts with
      | none => none
      | some r => some (b ++ r)

/-- `save_to_writer` -/
def G.save (g : G) : Option (List Nat) :=
  match saveTablesWith Table.save g.tables with
  | none => none
  | some d => some (g.header ++ d)

/-- `save_to_writer` before the repair -/
def G.saveOld (g : G) : Option (List Nat) :=
  match saveTablesWith Table.saveOld g.tables with
  | none => none
  | some d => some (g.header ++ d)

def fromLE (bs : List Nat) : Nat := bs.foldr (fun b acc => acc * 256 + b) 0

/-- `read_u32_into::<LittleEndian>` for `n` blocks -/
def readBlocks : Nat → List Nat → List Nat
  | 0, _ => []
  | n + 1, bs => fromLE (bs.take 4) :: readBlocks n (bs.drop 4)

/-- the masking of `with_capacity_and_blocks` for block `i`: bits at or above `size` are cleared -/
def maskBlock (size i b : Nat) : Nat :=
  if 32 * (i + 1) ≤ size then b else if 32 * i ≥ size then 0 else b % 2 ^ (size - 32 * i)

/-- `FixedBitSet::with_capacity_and_blocks`: resize to `⌈size/32⌉` blocks, clear the bits ≥ size -/
def withCapacityAndBlocks (size : Nat) (blocks : List Nat) : Table :=
  let nb := nblocks size
  { size := size, blocks := ((blocks ++ List.replicate nb 0).take nb).mapIdx (maskBlock size) }

/-- one table of `from_reader`: size, `size/8+1` data bytes as blocks + tail bytes -/
def readTable (bs : List Nat) : Option (Table × List Nat) :=
  if bs.length < 8 then none else
  let size := fromLE (bs.take 8)
  let bs := bs.drop 8
  let byteSize := size / 8 + 1
  if bs.length < byteSize then none else
  let data := bs.take byteSize
  let nfull := byteSize / 4
  let rem := byteSize % 4
  let blocks := readBlocks nfull data
  let blocks := if rem != 0 then blocks ++ [fromLE (data.drop (4 * nfull))] else blocks
  some (withCapacityAndBlocks size blocks, bs.drop byteSize)

def readTables : Nat → List Nat → Option (List Table)
  | 0, _ => some []
  | n + 1, bs =>
    match readTable bs with
    | none => none
    | some (t, rest) =>
      match readTables n rest with
      | none => none
      | some ts => some (t :: ts)

/-- `from_reader` on uncompressed bytes (`unique_kmers` is not stored: 0); trailing bytes are ignored -/
def G.load (bs : List Nat) : Option G :=
  if bs.length < 19 then none else
  if bs.take 6 != magic then none else
  let k := fromLE ((bs.drop 6).take 4)
  let n := bs.getD 10 0
  let occ := fromLE ((bs.drop 11).take 8)
  match readTables n (bs.drop 19) with
  | none => none
  | some ts => some { tables := ts, ksize := k, occupied := occ, unique := 0 }

/-! ## Well-formedness (the invariants every real `Nodegraph` satisfies) -/

/-- a `FixedBitSet` as the crate maintains it: `⌈size/32⌉` blocks of 32 bits, no bit at or above
    the length set; the length fits the `u64` field of the file -/
def Table.WF (t : Table) : Prop :=
  t.size < 2 ^ 64 ∧ t.blocks.length = nblocks t.size ∧ (∀ x ∈ t.blocks, x < 2 ^ 32) ∧
  ∀ b, t.size ≤ b → t.get b = false

/-- a nodegraph whose header fields fit their file fields -/
def G.WF (g : G) : Prop :=
  g.tables.length ≤ 255 ∧ g.ksize < 2 ^ 32 ∧ g.occupied < 2 ^ 64 ∧ ∀ t ∈ g.tables, t.WF

end NG
