import Sourmash.Model.Md5
/-!
Model/MinHash.lean — executable models of `KmerMinHash` (`MH.Vec`) and `KmerMinHashBTree` (`MH.Tree`)
as they are in `/repo/src/core/src/sketch/minhash.rs` **now** (after the repairs b305542, a042a61,
cfc6bfc, 07ac85a), branch for branch.

* `Vec<u64>` / `BTreeSet<u64>` are `List Nat` (the set kept strictly increasing), `BTreeMap<u64,u64>`
  is an association list in key order, `Option<…>` abundances stay `Option`.
* `binary_search` on a sorted vector is `pos` (number of smaller elements) plus the test
  `mins[pos]? = some h`.
* `md5sum: Mutex<Option<String>>` is `md5 : Option (List UInt8)` (the 16 digest bytes; the string the
  code stores is their lower-case hex).  `reset` is `reset_md5sum`, and it is called exactly where the
  code calls it.
* `u64` abundances are `Nat` (the real additions overflow at 2^64; generators stay below).

Used by C01 (sample refinement) and C13 (md5 cache invariant).  Names `MH.Vec`, `MH.Tree`,
`.add/.remove/.clear/.merge/.md5sum` are a contract with other properties' drivers.
-/
namespace MH

abbrev Digest := List UInt8

/-! ### list primitives shared by both models -/

/-- `binary_search` insertion point on a sorted vector: the number of elements smaller than `h` -/
def pos : List Nat → Nat → Nat
  | [], _ => 0
  | k :: t, h => if k < h then pos t h + 1 else 0

/-- `Vec::insert(i, x)` -/
def insertAt : List α → Nat → α → List α
  | l, 0, x => x :: l
  | [], _ + 1, x => [x]
  | y :: t, i + 1, x => y :: insertAt t i x

/-- `Vec::remove(i)` -/
def removeAt : List α → Nat → List α
  | [], _ => []
  | _ :: t, 0 => t
  | y :: t, i + 1 => y :: removeAt t i

/-- `v[i] += a` -/
def bump : List Nat → Nat → Nat → List Nat
  | [], _, _ => []
  | v :: t, 0, a => (v + a) :: t
  | v :: t, i + 1, a => v :: bump t i a

/-- `v[i] = a` -/
def setAt : List Nat → Nat → Nat → List Nat
  | [], _, _ => []
  | _ :: t, 0, a => a :: t
  | v :: t, i + 1, a => v :: setAt t i a

/-! ### `KmerMinHash` -/

structure Vec where
  num : Nat
  maxHash : Nat
  ksize : Nat := 21
  mins : List Nat := []
  abunds : Option (List Nat) := none
  md5 : Option Digest := none

/-- `KmerMinHash::new(scaled, ksize, _, _, track_abundance, num)` with `max_hash_for_scaled(scaled)` already applied -/
def Vec.new (num maxHash : Nat) (track : Bool) (ksize : Nat := 21) : Vec :=
  { num := num, maxHash := maxHash, ksize := ksize, abunds := if track then some [] else none }

def Vec.reset (s : Vec) : Vec := { s with md5 := none }

/-- `remove_hash`: binary search; when found remove from both vectors and reset -/
def Vec.remove (s : Vec) (h : Nat) : Vec :=
  let p := pos s.mins h
  if s.mins[p]? = some h then
    ({ s with mins := removeAt s.mins p, abunds := s.abunds.map (removeAt · p) }).reset
  else s

/-- `remove_many` / `remove_from`: a loop of `remove_hash` -/
def Vec.removeMany (s : Vec) (hs : List Nat) : Vec := hs.foldl Vec.remove s

/-- `add_hash_with_abundance` -/
def Vec.add (s : Vec) (h a : Nat) : Vec :=
  -- (1) above the ceiling of a scaled sketch
  if h > s.maxHash && s.maxHash != 0 then s else
  -- (2) "it will always be empty"
  if s.num == 0 && s.maxHash == 0 then s else
  -- (3) abundance 0 removes
  if a == 0 then s.remove h else
  -- (4) empty: push, reset (unconditionally since a042a61)
  if s.mins.isEmpty then
    ({ s with mins := s.mins ++ [h], abunds := s.abunds.map (· ++ [a]) }).reset
  else
    let cur := s.mins.getLast?.getD 0
    -- (5) the "good hash" guard
    if h ≤ s.maxHash || h ≤ cur || s.mins.length < s.num then
      let p := pos s.mins h
      if p == s.mins.length then
        -- at end: push, reset
        ({ s with mins := s.mins ++ [h], abunds := s.abunds.map (· ++ [a]) }).reset
      else if s.mins[p]? != some h then
        -- not found: insert, pop when over `num`, reset
        let m := insertAt s.mins p h
        let ab := s.abunds.map (insertAt · p a)
        if s.num != 0 && m.length > s.num then
          ({ s with mins := m.dropLast, abunds := ab.map List.dropLast }).reset
        else ({ s with mins := m, abunds := ab }).reset
      else
        -- found: increment the abundance, no reset
        { s with abunds := s.abunds.map (bump · p a) }
    else s

/-- `set_hash_with_abundance`: found → overwrite the abundance (nothing when untracked); else `add` -/
def Vec.set (s : Vec) (h a : Nat) : Vec :=
  let p := pos s.mins h
  if s.mins[p]? = some h then { s with abunds := s.abunds.map (setAt · p a) }
  else s.add h a

/-- `add_many` (and the loop of the C entry point `kmerminhash_add_many`): `add_hash` per element -/
def Vec.addMany (s : Vec) (hs : List Nat) : Vec := hs.foldl (fun s h => s.add h 1) s

/-- `add_many_with_abund`: `add_hash_with_abundance` per pair -/
def Vec.addManyAbund (s : Vec) (ps : List (Nat × Nat)) : Vec := ps.foldl (fun s p => s.add p.1 p.2) s

/-- `add_from(other)`: `add_hash` for every hash of `other` (no compatibility check) -/
def Vec.addFrom (s o : Vec) : Vec := s.addMany o.mins

/-- `remove_from(other)`: `remove_hash` for every hash of `other` (no compatibility check) -/
def Vec.removeFrom (s o : Vec) : Vec := s.removeMany o.mins

/-- `to_vec_abunds`: the hashes with their abundances, 1 each when untracked -/
def Vec.toVecAbunds (s : Vec) : List (Nat × Nat) :=
  match s.abunds with
  | some a => s.mins.zip a
  | none => s.mins.map (fun h => (h, 1))

/-- `clear` (resets the cache since b305542) -/
def Vec.clear (s : Vec) : Vec :=
  ({ s with mins := [], abunds := s.abunds.map (fun _ => []) }).reset

/-- the two-pointer walk of `merge` over the hashes -/
def mergeMins : List Nat → List Nat → List Nat
  | [], o => o
  | s, [] => s
  | x :: s, y :: o =>
    if y < x then y :: mergeMins (x :: s) o
    else if y = x then x :: mergeMins s o
    else x :: mergeMins s (y :: o)
termination_by s o => s.length + o.length

/-- the same walk carrying the abundance iterators (both operands tracked) -/
def mergeLists : List (Nat × Nat) → List (Nat × Nat) → List (Nat × Nat)
  | [], o => o
  | s, [] => s
  | (x, a) :: s, (y, b) :: o =>
    if y < x then (y, b) :: mergeLists ((x, a) :: s) o
    else if y = x then (x, a + b) :: mergeLists s o
    else (x, a) :: mergeLists s ((y, b) :: o)
termination_by s o => s.length + o.length

/-- `merged_abunds`: `Some` only when both operands track abundances; then the walk's abundances -/
def Vec.mergedAbunds (s o : Vec) : Option (List Nat) :=
  match s.abunds, o.abunds with
  | some sa, some oa => some ((mergeLists (s.mins.zip sa) (o.mins.zip oa)).map Prod.snd)
  | _, _ => none

/-- `merge` after `check_compatible` succeeded: abundances only when both operands track them;
    truncate to `self.num` when it is non-zero (`other.num` is never consulted); reset. -/
def Vec.merge (s o : Vec) : Vec :=
  let merged := mergeMins s.mins o.mins
  let mergedAb := s.mergedAbunds o
  if merged.length > s.num && s.num != 0 then
    ({ s with mins := merged.take s.num, abunds := mergedAb.map (List.take s.num) }).reset
  else ({ s with mins := merged, abunds := mergedAb }).reset

/-- `check_compatible` as far as the model's fields go (hash function and seed are equal in every
    history the harness builds): ksize first, then max_hash; `num` is not compared. -/
def compatErr (k1 m1 k2 m2 : Nat) : Option String :=
  if k1 != k2 then some "MismatchKSizes" else if m1 != m2 then some "MismatchScaled" else none

def Vec.mergeChecked (s o : Vec) : Except String Vec :=
  match compatErr s.ksize s.maxHash o.ksize o.maxHash with
  | some e => .error e
  | none => .ok (s.merge o)

/-- `enable_abundance`: refused on a non-empty sketch -/
def Vec.enableAbundance (s : Vec) : Except String Vec :=
  if !s.mins.isEmpty then .error "NonEmptyMinHash" else .ok { s with abunds := some [] }

def Vec.disableAbundance (s : Vec) : Vec := { s with abunds := none }

/-- `merge_join_by(..).filter_map(Both)` of `inflate`: hashes of `self` that `from` also holds, with `from`'s abundance -/
def inflateJoin : List Nat → List (Nat × Nat) → List (Nat × Nat)
  | [], _ => []
  | _, [] => []
  | x :: s, (y, b) :: o =>
    if x < y then inflateJoin s ((y, b) :: o)
    else if x = y then (x, b) :: inflateJoin s o
    else inflateJoin (x :: s) o
termination_by s o => s.length + o.length

/-- `inflate(abunds_from)` after `check_compatible`: error when the source is untracked, else replace
    hashes and abundances by the join, reset -/
def Vec.inflate (s o : Vec) : Except String Vec :=
  match o.abunds with
  | none => .error "NeedsAbundanceTracking"
  | some oa =>
    let j := inflateJoin s.mins (o.mins.zip oa)
    .ok ({ s with mins := j.map Prod.fst, abunds := some (j.map Prod.snd) }).reset

/-- the digest of the current contents -/
def Vec.digest (s : Vec) : Digest := Md5.digest s.ksize s.mins

/-- `md5sum`: compute and store when the cache is empty, else return the cached value -/
def Vec.md5sum (s : Vec) : Digest × Vec :=
  match s.md5 with
  | some d => (d, s)
  | none => (s.digest, { s with md5 := some s.digest })

/-- `Clone`: `(copy, self after the call)`; the copy stores `Some(self.md5sum())` -/
def Vec.clone (s : Vec) : Vec × Vec :=
  let (d, s') := s.md5sum
  ({ s with md5 := some d }, s')

/-- `PartialEq`: md5 equality (fills both caches) -/
def Vec.eq (s o : Vec) : Bool × Vec × Vec :=
  let (d1, s') := s.md5sum
  let (d2, o') := o.md5sum
  (d1 == d2, s', o')

/-! ### `KmerMinHashBTree` -/

structure Tree where
  num : Nat
  maxHash : Nat
  ksize : Nat := 21
  mins : List Nat := []                        -- BTreeSet, strictly increasing
  abunds : Option (List (Nat × Nat)) := none    -- BTreeMap in key order
  currentMax : Nat := 0
  md5 : Option Digest := none

def Tree.new (num maxHash : Nat) (track : Bool) (ksize : Nat := 21) : Tree :=
  { num := num, maxHash := maxHash, ksize := ksize, abunds := if track then some [] else none }

/-- `BTreeSet::insert`: the new set and whether the value was new -/
def insSet : List Nat → Nat → List Nat × Bool
  | [], h => ([h], true)
  | k :: t, h =>
    if h < k then (h :: k :: t, true)
    else if h = k then (k :: t, false)
    else let r := insSet t h; (k :: r.1, r.2)

/-- `*map.entry(h).or_insert(0) += a` -/
def mapAdd : List (Nat × Nat) → Nat → Nat → List (Nat × Nat)
  | [], h, a => [(h, a)]
  | (k, v) :: t, h, a =>
    if h < k then (h, a) :: (k, v) :: t
    else if h = k then (k, v + a) :: t
    else (k, v) :: mapAdd t h a

/-- `map.get(h).unwrap_or(&0)` -/
def mapGet (m : List (Nat × Nat)) (h : Nat) : Nat :=
  match m.find? (fun kv => kv.1 == h) with
  | some kv => kv.2
  | none => 0

/-- `*set.iter().next_back().unwrap_or(&0)` -/
def lastOr0 (l : List Nat) : Nat := l.getLast?.getD 0

def Tree.reset (s : Tree) : Tree := { s with md5 := none }

/-- the insertion inside the "good hash" branch:
    `if self.mins.insert(hash) { reset; if hash > current_max { current_max = hash } }` and then
    `*abunds.entry(hash).or_insert(0) += abundance` -/
def Tree.insertHash (s : Tree) (h a : Nat) : Tree :=
  let r := insSet s.mins h
  let s1 := if r.2 then
      ({ s with mins := r.1, currentMax := if h > s.currentMax then h else s.currentMax }).reset
    else s
  { s1 with abunds := s1.abunds.map (fun m => mapAdd m h a) }

/-- "is it too big now?": remove the largest hash and its abundance, reset, recompute `current_max` -/
def Tree.evictLargest (s : Tree) : Tree :=
  let last := lastOr0 s.mins
  let m' := s.mins.filter (· != last)
  ({ s with mins := m',
            abunds := s.abunds.map (fun (mp : List (Nat × Nat)) => mp.filter (fun kv => kv.1 != last)),
            currentMax := lastOr0 m' }).reset

/-- `add_hash_with_abundance` -/
def Tree.add (s : Tree) (h a : Nat) : Tree :=
  if h > s.maxHash && s.maxHash != 0 then s else
  if s.num == 0 && s.maxHash == 0 then s else
  -- abundance 0: "well, don't add it"
  if a == 0 then s else
  if s.mins.isEmpty then
    ({ s with mins := (insSet s.mins h).1, abunds := s.abunds.map (fun m => mapAdd m h a), currentMax := h }).reset
  else if h ≤ s.maxHash || h ≤ s.currentMax || s.mins.length < s.num then
    let s2 := s.insertHash h a
    if s2.num != 0 && s2.mins.length > s2.num then s2.evictLargest else s2
  else s

/-- `if self.mins.remove(&hash) { reset; abunds.remove(&hash) }` -/
def Tree.removeFromSet (s : Tree) (h : Nat) : Tree :=
  if s.mins.contains h then
    ({ s with mins := s.mins.filter (· != h),
              abunds := s.abunds.map (fun (mp : List (Nat × Nat)) => mp.filter (fun kv => kv.1 != h)) }).reset
  else s

/-- `remove_hash`: the removal, then `if hash == current_max { current_max = largest or 0 }` -/
def Tree.remove (s : Tree) (h : Nat) : Tree :=
  let s1 := s.removeFromSet h
  if h == s1.currentMax then { s1 with currentMax := lastOr0 s1.mins } else s1

def Tree.removeMany (s : Tree) (hs : List Nat) : Tree := hs.foldl Tree.remove s

/-- `add_many`: `add_hash` per element -/
def Tree.addMany (s : Tree) (hs : List Nat) : Tree := hs.foldl (fun s h => s.add h 1) s

/-- `add_many_with_abund`: `add_hash_with_abundance` per pair -/
def Tree.addManyAbund (s : Tree) (ps : List (Nat × Nat)) : Tree := ps.foldl (fun s p => s.add p.1 p.2) s

/-- `add_from(other)`: `add_hash` for every hash of `other` (no compatibility check) -/
def Tree.addFrom (s o : Tree) : Tree := s.addMany o.mins

/-- `to_vec_abunds`: the map's entries, or the hashes with 1 each when untracked -/
def Tree.toVecAbunds (s : Tree) : List (Nat × Nat) :=
  match s.abunds with
  | some a => a
  | none => s.mins.map (fun h => (h, 1))

def Tree.clear (s : Tree) : Tree :=
  ({ s with mins := [], abunds := s.abunds.map (fun _ => []), currentMax := 0 }).reset

/-- `BTreeSet::union` (an ordered merge without duplicates) -/
def unionSorted : List Nat → List Nat → List Nat
  | [], o => o
  | s, [] => s
  | x :: s, y :: o =>
    if y < x then y :: unionSorted (x :: s) o
    else if y = x then x :: unionSorted s o
    else x :: unionSorted s (y :: o)
termination_by s o => s.length + o.length

/-- `merge` after `check_compatible`: `union.take(num or ∞)`; abundances rebuilt when both operands
    track them, dropped when only `self` does (07ac85a); `current_max` := largest hash (cfc6bfc); reset. -/
def Tree.merge (s o : Tree) : Tree :=
  let u := unionSorted s.mins o.mins
  let u := if s.num == 0 then u else u.take s.num
  let ab := match s.abunds with
    | some a =>
      match o.abunds with
      | some b => some (u.map (fun h => (h, mapGet a h + mapGet b h)))
      | none => none
    | none => none
  ({ s with mins := u, abunds := ab, currentMax := lastOr0 u }).reset

def Tree.mergeChecked (s o : Tree) : Except String Tree :=
  match compatErr s.ksize s.maxHash o.ksize o.maxHash with
  | some e => .error e
  | none => .ok (s.merge o)

def Tree.enableAbundance (s : Tree) : Except String Tree :=
  if !s.mins.isEmpty then .error "NonEmptyMinHash" else .ok { s with abunds := some [] }

def Tree.disableAbundance (s : Tree) : Tree := { s with abunds := none }

def Tree.digest (s : Tree) : Digest := Md5.digest s.ksize s.mins

def Tree.md5sum (s : Tree) : Digest × Tree :=
  match s.md5 with
  | some d => (d, s)
  | none => (s.digest, { s with md5 := some s.digest })

def Tree.clone (s : Tree) : Tree × Tree :=
  let (d, s') := s.md5sum
  ({ s with md5 := some d }, s')

def Tree.eq (s o : Tree) : Bool × Tree × Tree :=
  let (d1, s') := s.md5sum
  let (d2, o') := o.md5sum
  (d1 == d2, s', o')

/-- `abunds()`: the map's values in key order -/
def Tree.abundVals (s : Tree) : Option (List Nat) := s.abunds.map (fun m => m.map Prod.snd)

end MH
