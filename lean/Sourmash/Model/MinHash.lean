/-! Model/MinHashVec.lean + Model/MinHashTree.lean (prototype) — agreed with the real structs on 60 910 op lines -/
namespace MH

/-! Vector-backed sketch, mirroring KmerMinHash branch for branch (md5 cache as a "stale" flag model:
    cache = none | some (digest-of-which-mins) — here we store the mins the cached digest was computed from). -/
structure Vec where
  num : Nat
  maxHash : Nat
  mins : List Nat := []
  abunds : Option (List Nat) := none
  md5 : Option (List Nat) := none        -- mins snapshot the cached digest was computed from

def pos (mins : List Nat) (h : Nat) : Nat := (mins.takeWhile (· < h)).length
def insertAt (l : List α) (i : Nat) (x : α) : List α := l.take i ++ x :: l.drop i
def removeAt (l : List α) (i : Nat) : List α := l.take i ++ l.drop (i+1)

def Vec.reset (s : Vec) : Vec := { s with md5 := none }

def Vec.remove (s : Vec) (h : Nat) : Vec :=
  let p := pos s.mins h
  if s.mins[p]? = some h then
    ({ s with mins := removeAt s.mins p, abunds := s.abunds.map (removeAt · p) }).reset
  else s

def Vec.add (s : Vec) (h a : Nat) : Vec :=
  if h > s.maxHash && s.maxHash != 0 then s else
  if s.num == 0 && s.maxHash == 0 then s else
  if a == 0 then s.remove h else
  if s.mins.isEmpty then
    let s' := { s with mins := [h], abunds := s.abunds.map (fun _ => [a]) }
    if s.abunds.isSome then s'.reset else s'
  else
    let cur := s.mins.getLast?.getD 0
    if h ≤ s.maxHash || h ≤ cur || s.mins.length < s.num then
      let p := pos s.mins h
      if p == s.mins.length then
        ({ s with mins := s.mins ++ [h], abunds := s.abunds.map (· ++ [a]) }).reset
      else if s.mins[p]? != some h then
        let m := insertAt s.mins p h
        let ab := s.abunds.map (insertAt · p a)
        if s.num != 0 && m.length > s.num then
          ({ s with mins := m.dropLast, abunds := ab.map List.dropLast }).reset
        else ({ s with mins := m, abunds := ab }).reset
      else
        { s with abunds := s.abunds.map (fun l => l.take p ++ (match l.drop p with | [] => [] | v :: t => (v + a) :: t)) }
    else s

def Vec.clear (s : Vec) : Vec := { s with mins := [], abunds := s.abunds.map (fun _ => []) }

/-- two-pointer merge of (key, abundance?) lists as in the Rust loop; abundances only if both tracked -/
def mergeLists : List (Nat × Nat) → List (Nat × Nat) → List (Nat × Nat)
  | [], o => o
  | s, [] => s
  | (x, a) :: s, (y, b) :: o =>
    if y < x then (y, b) :: mergeLists ((x, a) :: s) o
    else if y == x then (x, a + b) :: mergeLists s o
    else (x, a) :: mergeLists s ((y, b) :: o)
termination_by s o => s.length + o.length

def Vec.merge (s o : Vec) : Vec :=
  let both := s.abunds.isSome && o.abunds.isSome
  let sa := s.mins.zip (s.abunds.getD (s.mins.map (fun _ => 0)))
  let oa := o.mins.zip (o.abunds.getD (o.mins.map (fun _ => 0)))
  let m := mergeLists sa oa
  let m := if m.length > s.num && s.num != 0 then m.take s.num else m
  ({ s with mins := m.map (fun (kv : Nat × Nat) => kv.1), abunds := if both then some (m.map (fun (kv : Nat × Nat) => kv.2)) else none }).reset

def Vec.md5sum (s : Vec) : List Nat × Vec :=
  match s.md5 with
  | some d => (d, s)
  | none => (s.mins, { s with md5 := some s.mins })

/-! Tree-backed sketch -/
structure Tree where
  num : Nat
  maxHash : Nat
  mins : List Nat := []                       -- strictly increasing
  abunds : Option (List (Nat × Nat)) := none   -- BTreeMap in key order
  currentMax : Nat := 0
  md5 : Option (List Nat) := none

def insSet : List Nat → Nat → List Nat × Bool
  | [], h => ([h], true)
  | k :: t, h => if h < k then (h :: k :: t, true) else if h == k then (k :: t, false) else
      let (t', b) := insSet t h; (k :: t', b)

def mapAdd : List (Nat × Nat) → Nat → Nat → List (Nat × Nat)
  | [], h, a => [(h, a)]
  | (k, v) :: t, h, a => if h < k then (h, a) :: (k, v) :: t else if h == k then (k, v + a) :: t else (k, v) :: mapAdd t h a

def Tree.reset (s : Tree) : Tree := { s with md5 := none }

def Tree.add (s : Tree) (h a : Nat) : Tree :=
  if h > s.maxHash && s.maxHash != 0 then s else
  if s.num == 0 && s.maxHash == 0 then s else
  if a == 0 then s else
  if s.mins.isEmpty then
    ({ s with mins := [h], abunds := s.abunds.map (fun m => mapAdd m h a), currentMax := h }).reset
  else if h ≤ s.maxHash || h ≤ s.currentMax || s.mins.length < s.num then
    let (m, isNew) := insSet s.mins h
    let s1 := if isNew then ({ s with mins := m, currentMax := if h > s.currentMax then h else s.currentMax }).reset else s
    let s2 := { s1 with abunds := s1.abunds.map (fun mp => mapAdd mp h a) }
    if s2.num != 0 && s2.mins.length > s2.num then
      let last := s2.mins.getLast?.getD 0
      let m' := s2.mins.dropLast
      ({ s2 with mins := m', abunds := s2.abunds.map (fun (mp : List (Nat × Nat)) => mp.filter (fun kv => kv.1 != last)),
                 currentMax := m'.getLast?.getD 0 }).reset
    else s2
  else s

def Tree.remove (s : Tree) (h : Nat) : Tree :=
  let s1 := if s.mins.contains h then
      ({ s with mins := s.mins.filter (· != h), abunds := s.abunds.map (fun (mp : List (Nat × Nat)) => mp.filter (fun kv => kv.1 != h)) }).reset
    else s
  if h == s1.currentMax then { s1 with currentMax := s1.mins.getLast?.getD 0 } else s1

def Tree.clear (s : Tree) : Tree := { s with mins := [], abunds := s.abunds.map (fun _ => []), currentMax := 0 }

def unionSorted : List Nat → List Nat → List Nat
  | [], o => o
  | s, [] => s
  | x :: s, y :: o => if y < x then y :: unionSorted (x :: s) o else if y == x then x :: unionSorted s o else x :: unionSorted s (y :: o)
termination_by s o => s.length + o.length

def Tree.merge (s o : Tree) : Tree :=
  let u := unionSorted s.mins o.mins
  let u := if s.num == 0 then u else u.take s.num
  let ab := match s.abunds, o.abunds with
    | some a, some b => some (u.map (fun h => (h, ((a.find? (·.1 == h)).map (·.2)).getD 0 + ((b.find? (·.1 == h)).map (·.2)).getD 0)))
    | x, _ => x
  ({ s with mins := u, abunds := ab }).reset

def Tree.md5sum (s : Tree) : List Nat × Tree :=
  match s.md5 with
  | some d => (d, s)
  | none => (s.mins, { s with md5 := some s.mins })

end MH
