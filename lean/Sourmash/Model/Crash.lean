/-!
Model/Crash.lean — durable state of the RocksDB-backed index (`src/core/src/index/revindex/
disk_revindex.rs`, `storage/rocksdb.rs`) and the builds that write it, interrupted, re-run and
reopened (property C10).  Core Lean only; self-contained (its own finite sets: strictly increasing
lists).

What is modelled, from the code as it is in /repo now:

* durable state `Disk` = the three column families at the level of their denotations:
  `HASHES : hash ↦ set of dataset ids` (as the graph `{(h,d)}`; every merge operand is a singleton
  `{d}`, so a key that exists never maps to the empty set), `METADATA` = `processed` (absent or an id
  set), `version`, `manifest`, `storage_spec` (each absent or present), `STORAGE` (internal location ↦
  signature, filled by `internalize_storage`);
* a write = one `merge_cf` / `put_cf` (`Write`); `merge_datasets` = union of the existing value
  (absent ↦ ∅) with the operand;
* `map_hashes_colors d` issues `merge(HASHES,h,{d})` for every hash of the dataset, then
  `merge(PROCESSED,{d})` (`dsWrites`); `create`/`update` run it for every dataset that is not in the
  loaded processed set, the datasets interleaved arbitrarily by rayon (`IsLin`: any sequence whose
  restriction to each dataset is that dataset's write list), then `save_collection` (three puts), then
  `compact` (identity on denotations) — `metaLog`;
* `load_processed`: present → the stored set; absent → ∅ for `create` (`assume_empty`), every id of
  the stored manifest for `open`;
* `open` (panics when version / manifest / storage_spec are absent: `.unwrap()` on `None`), `flush`,
  `internalize_storage`, closing, moving the directory.

ASSUMPTION of the model (not observed by any run, see props/C10.json): a crash leaves the effect of a
PREFIX of the sequence of writes issued so far (RocksDB write-ahead log, point-in-time recovery; a
killed process keeps every write whose call returned, and a write is atomic).
-/
namespace Crash

/-! ### finite sets: strictly increasing lists over a strict total order -/

/-- a decidable strict total order together with its laws -/
class SOrd (α : Type) where
  lt : α → α → Bool
  irrefl : ∀ a, lt a a = false
  trans : ∀ a b c, lt a b = true → lt b c = true → lt a c = true
  tri : ∀ a b, lt a b = true ∨ a = b ∨ lt b a = true

instance : SOrd Nat where
  lt a b := decide (a < b)
  irrefl a := by simp
  trans a b c := by simp only [decide_eq_true_eq]; omega
  tri a b := by simp only [decide_eq_true_eq]; omega

/-- lexicographic order on (hash, dataset id) -/
def pairLt (a b : Nat × Nat) : Bool := decide (a.1 < b.1 ∨ (a.1 = b.1 ∧ a.2 < b.2))

instance : SOrd (Nat × Nat) where
  lt := pairLt
  irrefl a := by simp [pairLt]
  trans a b c := by simp only [pairLt, decide_eq_true_eq]; omega
  tri a b := by
    obtain ⟨a1, a2⟩ := a
    obtain ⟨b1, b2⟩ := b
    simp only [pairLt, decide_eq_true_eq, Prod.mk.injEq]; omega

/-- insertion into a strictly increasing list (no duplicate is created) -/
def ins {α : Type} [SOrd α] (a : α) : List α → List α
  | [] => [a]
  | x :: xs =>
    if SOrd.lt a x then a :: x :: xs
    else if SOrd.lt x a then x :: ins a xs
    else x :: xs

/-- `Datasets::union` at the level of denotations; the merge operator is `union existing operand` -/
def union {α : Type} [SOrd α] (s t : List α) : List α := t.foldl (fun acc x => ins x acc) s

/-- strictly increasing -/
def Sorted {α : Type} [SOrd α] (l : List α) : Prop := l.Pairwise (fun a b => SOrd.lt a b = true)

/-! ### durable state -/

/-- `storage_spec`: `fs://…` (signatures stay outside the index) or `rocksdb://` (inside) -/
inductive Spec where
  | fs | rocksdb
  deriving DecidableEq, Repr

/-- a sketch = the hashes of a dataset -/
abbrev Sketch := List Nat
/-- manifest = the internal location of every dataset, by dataset id (the other columns of a record
are functions of the signature found there; the CSV encoding is property C12's) -/
abbrev Manifest := List Nat
/-- a storage: internal location ↦ signature -/
abbrev Store := List (Nat × Sketch)

def Store.load (s : Store) (loc : Nat) : Option Sketch := (s.find? (fun p => p.1 == loc)).map (·.2)
/-- `put_cf`: later reads of `loc` see `v` (the newest entry shadows older ones), every other
location is unchanged -/
def Store.put (s : Store) (loc : Nat) (v : Sketch) : Store := (loc, v) :: s
/-- the keys present, strictly increasing -/
def Store.keys (s : Store) : List Nat := union [] (s.map (·.1))

structure Disk where
  /-- graph of HASHES, strictly increasing in (hash, id) -/
  hashes : List (Nat × Nat) := []
  processed : Option (List Nat) := none
  version : Option Nat := none
  manifest : Option Manifest := none
  spec : Option Spec := none
  storage : Store := []
  deriving DecidableEq, Repr

def Disk.empty : Disk := {}

/-- the value of `HASHES[h]` -/
def Disk.hashesAt (s : Disk) (h : Nat) : List Nat := (s.hashes.filter (fun p => p.1 == h)).map (·.2)
/-- the processed set as `load_processed` of `create` sees it -/
def Disk.procSet (s : Disk) : List Nat := s.processed.getD []

/-- one call of `merge_cf` / `put_cf` / `compact_range_cf` of a build -/
inductive Write where
  | hash (h d : Nat)          -- merge_cf(HASHES, h, {d})
  | proc (d : Nat)            -- merge_cf(METADATA, "processed", {d})
  | putVersion                -- put_cf(METADATA, "version", [1])
  | putManifest (m : Manifest)
  | putSpec (s : Spec)
  | compact
  deriving DecidableEq, Repr

def DB_VERSION : Nat := 1

def apply (s : Disk) : Write → Disk
  | .hash h d => { s with hashes := union s.hashes [(h, d)] }
  | .proc d => { s with processed := some (union (s.processed.getD []) [d]) }
  | .putVersion => { s with version := some DB_VERSION }
  | .putManifest m => { s with manifest := some m }
  | .putSpec sp => { s with spec := some sp }
  | .compact => s

def run (s : Disk) (ws : List Write) : Disk := ws.foldl apply s

/-! ### builds -/

/-- a dataset of the collection handed to `create` / `update` -/
structure DS where
  loc : Nat
  hashes : Sketch
  deriving DecidableEq, Repr

abbrev Coll := List DS

def Coll.hashesOf (c : Coll) (d : Nat) : Sketch := (c[d]?.map (·.hashes)).getD []
def Coll.manifest (c : Coll) : Manifest := c.map (·.loc)

/-- `map_hashes_colors d` -/
def dsWrites (c : Coll) (d : Nat) : List Write :=
  (c.hashesOf d).map (fun h => Write.hash h d) ++ [Write.proc d]

/-- the dataset a write of the parallel phase belongs to -/
def Write.owner : Write → Option Nat
  | .hash _ d => some d
  | .proc d => some d
  | _ => none

/-- ids that the parallel loop processes: `!processed.contains(dataset_id)` -/
def todo (c : Coll) (P : List Nat) : List Nat := (List.range c.length).filter (fun d => !P.contains d)

/-- `L` is a possible order of the writes of the parallel phase: only dataset writes, and the
writes of every dataset appear in program order — all of them for an unprocessed dataset, none for
a processed one. -/
def IsLin (c : Coll) (P : List Nat) (L : List Write) : Prop :=
  (∀ w ∈ L, w.owner ≠ none) ∧
  ∀ d, L.filter (fun w => w.owner == some d) = if d ∈ todo c P then dsWrites c d else []

/-- the order a single-threaded run produces (and a witness that linearisations exist) -/
def seqLog (c : Coll) (P : List Nat) : List Write := (todo c P).flatMap (dsWrites c)

/-- `save_collection` then `compact` -/
def metaLog (c : Coll) (sp : Spec) : List Write :=
  [.putVersion, .putManifest c.manifest, .putSpec sp, .compact]

/-- `load_processed(db, collection, assume_empty)`; `nManifest` = number of rows of the collection
the handle was opened with -/
def loadProcessed (s : Disk) (assumeEmpty : Bool) (nManifest : Nat) : List Nat :=
  match s.processed with
  | some p => p
  | none => if assumeEmpty then [] else List.range nManifest

/-- the state a kill leaves behind: the first `k` writes of the log (the model's assumption) -/
def crashAt (s : Disk) (log : List Write) (k : Nat) : Disk := run s (log.take k)

/-! ### handles: open / update / flush / internalize / move -/

structure Handle where
  manifest : Manifest
  /-- where `collection.storage()` reads from: the external files or the STORAGE column family -/
  storage : Spec
  processed : List Nat
  readOnly : Bool
  deriving DecidableEq, Repr

/-- `RevIndex::open`.  `rt` is the manifest's trip through its CSV encoding
(`Manifest::from_reader ∘ to_writer`, property C12).  `none` = the call panics / errs. -/
def openIdx (rt : Manifest → Option Manifest) (s : Disk) (ro : Bool) : Option Handle :=
  match s.version, s.manifest, s.spec with
  | some v, some m, some sp =>
    if v ≠ DB_VERSION then none else
    match rt m with
    | none => none
    | some m' => some { manifest := m', storage := sp, readOnly := ro,
                        processed := loadProcessed s false m'.length }
  | _, _, _ => none

/-- `check_superset`: the zipped records agree (a record is identified with its location here) -/
def checkSuperset (m : Manifest) (c : Coll) : Bool := (m.zip c.manifest).all (fun p => p.1 == p.2)

/-- writes of `create(dir, c)` on a directory in state `s`, single-threaded order -/
def createLog (s : Disk) (c : Coll) (sp : Spec) : List Write :=
  seqLog c (loadProcessed s true 0) ++ metaLog c sp

/-- writes of `handle.update(c)`, single-threaded order (`none`: `check_superset` fails) -/
def updateLog (h : Handle) (c : Coll) (sp : Spec) : Option (List Write) :=
  if checkSuperset h.manifest c then some (seqLog c h.processed ++ metaLog c sp) else none

/-- the world outside the index: the signature files -/
abbrev World := Store

/-- `collection.storage().load(loc)` through a handle -/
def Handle.src (w : World) (s : Disk) (h : Handle) (loc : Nat) : Option Sketch :=
  match h.storage with
  | .fs => w.load loc
  | .rocksdb => s.storage.load loc

/-- `collection().sig_for_dataset(i)` through a handle -/
def sigFor (w : World) (s : Disk) (h : Handle) (i : Nat) : Option Sketch :=
  match h.manifest[i]? with
  | none => none
  | some loc => h.src w s loc

/-- one iteration of the copying loop of `internalize_storage` (`none` = `load(..).unwrap()` panics) -/
def copyStep (src : Nat → Option Sketch) (acc : Option Store) (loc : Nat) : Option Store :=
  match acc with
  | none => none
  | some st =>
    match src loc with
    | none => none
    | some sig => some (st.put loc sig)

/-- `internalize_storage` on a writable handle: copy every record's signature into STORAGE, switch
the handle's storage, put the spec.  (The early return `spec() == "rocksdb://"` never fires:
`RocksDBStorage::spec()` appends the database path.)  `none` = a signature is missing (`unwrap`).
When the handle already reads from STORAGE the code reads from the live column family it is
writing to; every put re-writes the value that is there, so reading the value from before the call
(as here) is the same. -/
def internalize (w : World) (s : Disk) (h : Handle) : Option (Disk × Handle) :=
  match h.manifest.foldl (copyStep (h.src w s)) (some s.storage) with
  | none => none
  | some st => some ({ s with storage := st, spec := some .rocksdb }, { h with storage := .rocksdb })

/-- a session: the directory (at some path), possibly opened -/
structure Sess where
  disk : Disk
  handle : Option Handle := none
  path : Nat := 0
  deriving DecidableEq, Repr

inductive ROp where
  | flush | close | openRo | openRw | intern | move
  deriving DecidableEq, Repr

/-- what the harness reports for a step -/
inductive RRes where
  | ok | err | closed | already | isOpen | panic
  deriving DecidableEq, Repr

def reopenStep (rt : Manifest → Option Manifest) (w : World) (s : Sess) : ROp → Sess × RRes
  | .flush => match s.handle with
    | none => (s, .closed)
    | some h => if h.readOnly then (s, .err) else (s, .ok)      -- flush_wal on a read-only DB errs
  | .close => match s.handle with
    | none => (s, .closed)
    | some _ => ({ s with handle := none }, .ok)
  | .openRo => match s.handle with
    | some _ => (s, .already)
    | none => match openIdx rt s.disk true with
      | none => (s, .err)
      | some h => ({ s with handle := some h }, .ok)
  | .openRw => match s.handle with
    | some _ => (s, .already)
    | none => match openIdx rt s.disk false with
      | none => (s, .err)
      | some h => ({ s with handle := some h }, .ok)
  | .intern => match s.handle with
    | none => (s, .closed)
    | some h =>
      if h.readOnly then (s, .err)                                -- put_cf on a read-only DB errs
      else match internalize w s.disk h with
        | none => (s, .panic)
        | some (d, h') => ({ s with disk := d, handle := some h' }, .ok)
  | .move => match s.handle with
    | some _ => (s, .isOpen)
    | none => ({ s with path := s.path + 1 }, .ok)

def reopenSeq (rt : Manifest → Option Manifest) (w : World) (s : Sess) (ops : List ROp) : Sess × List RRes :=
  ops.foldl (fun (acc : Sess × List RRes) op =>
    let (s', r) := reopenStep rt w acc.1 op
    (s', acc.2 ++ [r])) (s, [])

/-! ### builds that keep their handle: extension histories

`RevIndex::create` and `update` return the open (read-write) index; a later `update` on it installs the
NEW collection — its manifest and its storage — in the handle and `save_collection` stores its manifest
and its storage spec.  The new collection may name its blobs differently (`Collection::from_sigs`
numbers them by input position, so a signature that a selection drops shifts every later location):
`check_superset` compares the manifest ROWS without their `internal_location` column
(`impl PartialEq for Record`), and the model keeps only that column — so its verdict is an INPUT here
(`sup`; `updateLog` is the special case in which a row is identified with its location). -/

/-- `RevIndex::create(dir, c)` run to completion on the directory of session `s` (no handle open): the
writes in single-threaded order; the handle it returns reads the signatures from the collection's own
storage and has every dataset in its in-memory processed set -/
def createSess (s : Sess) (c : Coll) (sp : Spec) : Sess :=
  let d := run s.disk (createLog s.disk c sp)
  { s with disk := d,
           handle := some { manifest := c.manifest, storage := sp, processed := List.range c.length, readOnly := false } }

/-- `handle.update(c)` run to completion (`update(mut self, …)` consumes the handle: every failure
closes it).  No handle: nothing happens (`closed`).  A read-only handle: the first `merge_cf` /
`put_cf` errs and is `expect`ed (`panic`).  `sup = false`: `check_superset` returns the error before
anything is written (`err`).  Otherwise the datasets that are not in the handle's processed set are
written, then the new manifest and the new storage spec; the handle now holds the new collection. -/
def extendSess (sup : Bool) (s : Sess) (c : Coll) (sp : Spec) : Sess × RRes :=
  match s.handle with
  | none => (s, .closed)
  | some h =>
    if h.readOnly then ({ s with handle := none }, .panic)
    else if !sup then ({ s with handle := none }, .err)
    else
      let d := run s.disk (seqLog c h.processed ++ metaLog c sp)
      ({ s with disk := d,
                handle := some { manifest := c.manifest, storage := sp, processed := List.range c.length,
                                 readOnly := false } }, .ok)

/-! ### answers -/

/-- how many hashes of the query `HASHES` attributes to dataset `d` -/
def countFor (H : List (Nat × Nat)) (q : List Nat) (d : Nat) : Nat :=
  (q.filter (fun h => H.contains (h, d))).length

/-- the dataset ids that occur in `HASHES` -/
def idsOf (H : List (Nat × Nat)) : List Nat := union [] (H.map (·.2))

/-- `counter_for_query`: id ↦ number of query hashes whose entry contains the id (zero counts do
not occur: an id is only ever reached through an entry that contains it) -/
def counterFor (H : List (Nat × Nat)) (q : List Nat) : List (Nat × Nat) :=
  (idsOf H).filterMap (fun d => let k := countFor H q d; if k = 0 then none else some (d, k))

/-- `(id, size)` with the largest size, ties to the smallest id (`k_most_common_ordered(1)`) -/
def pickMax : List (Nat × Nat) → Option (Nat × Nat)
  | [] => none
  | x :: xs => match pickMax xs with
    | none => some x
    | some y => if y.2 > x.2 then some y else some x

/-- the disk `gather` loop with threshold 0, reduced to (dataset id, |orig ∩ match|, |remaining ∩
match|) per round; a function of HASHES and of `sig_for_dataset` only.  `none` = a signature could
not be loaded. -/
def gatherLoop (H : List (Nat × Nat)) (sig : Nat → Option Sketch) (orig : List Nat) :
    Nat → List (Nat × Nat) → List Nat → List (Nat × Nat × Nat) → Option (List (Nat × Nat × Nat))
  | 0, _, _, acc => some acc
  | fuel + 1, counter, remaining, acc =>
    match pickMax counter with
    | none => some acc
    | some (d, size) =>
      if size = 0 then some acc else
      match sig d with
      | none => none
      | some m =>
        let isect := remaining.filter (fun h => m.contains h)
        let dec (c : List (Nat × Nat)) (h : Nat) : List (Nat × Nat) :=
          c.map (fun e => if H.contains (h, e.1) then (e.1, e.2 - 1) else e)
        let counter' := (isect.foldl dec counter).filter (fun e => e.1 != d)
        gatherLoop H sig orig fuel counter' (remaining.filter (fun h => !m.contains h))
          (acc ++ [(d, (orig.filter (fun h => m.contains h)).length, isect.length)])

def gather (H : List (Nat × Nat)) (sig : Nat → Option Sketch) (q : List Nat) : Option (List (Nat × Nat × Nat)) :=
  let counter := counterFor H q
  gatherLoop H sig q (counter.length + 1) counter q []

end Crash
