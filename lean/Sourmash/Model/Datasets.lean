/-! Model/Datasets.lean — `index::revindex::Datasets` (mod.rs:213-362), its length-discriminated byte
codec, the registered RocksDB merge operator `merge_datasets` (disk_revindex.rs:45-60) and RocksDB's
use of an *associative* merge operator, modelled as an arbitrary merge tree.

Ids (`Idx = u32`) and bytes are `Nat`s.  A `RoaringBitmap` is the strictly increasing list of its
members.  The roaring byte format of `Many` is a *parameter* (`ManyCodec`): theorems are stated for
every codec that satisfies the two recorded assumptions (`ManyCodec.Lawful` in Spec/Index.lean); the
driver instantiates it with an executable transcription of roaring-rs 0.10 `serialize_into`
(`roaringCodec`, compared byte for byte with the real crate on every run).
Core Lean only (linked into the native driver). -/
namespace RevIdx

abbrev Bytes := List Nat

/-- `RoaringBitmap::insert` on the sorted member list -/
def insertId (x : Nat) : List Nat → List Nat
  | [] => [x]
  | y :: ys => if x < y then x :: y :: ys else if x = y then y :: ys else y :: insertId x ys

/-- `RoaringBitmap::extend(iter)` = insert every item in turn -/
def insertAll (vs : List Nat) (xs : List Nat) : List Nat := xs.foldl (fun acc x => insertId x acc) vs

/-- strictly increasing (what `RoaringBitmap::from_sorted_iter` accepts) -/
def strictlyInc : List Nat → Bool
  | [] => true
  | [_] => true
  | a :: b :: t => a < b && strictlyInc (b :: t)

inductive Datasets where
  | empty
  | unique (v : Nat)
  | many (vs : List Nat)
  deriving Repr, DecidableEq, Inhabited

namespace Datasets

/-- `IntoIterator for Datasets` (ascending) -/
def ids : Datasets → List Nat
  | empty => []
  | unique v => [v]
  | many vs => vs

def len (d : Datasets) : Nat := d.ids.length

def contains (d : Datasets) (x : Nat) : Bool := d.ids.contains x

/-- 0 = Empty, 1 = Unique, 2 = Many -/
def variant : Datasets → Nat
  | empty => 0
  | unique _ => 1
  | many _ => 2

/-- `Datasets::new(vals)`; `none` = the `from_sorted_iter(..).unwrap()` panic on input that is not
strictly increasing -/
def new (vals : List Nat) : Option Datasets :=
  match vals with
  | [] => some empty
  | [v] => some (unique v)
  | vs => if strictlyInc vs then some (many vs) else none

/-- `Datasets::union(&mut self, other)` branch for branch -/
def union (a b : Datasets) : Datasets :=
  match a with
  | empty => match b with
    | empty => empty
    | o => o
  | unique v => match b with
    | empty => unique v
    | unique o => if v ≠ o then many (insertId o (insertId v [])) else unique v
    | many o => many (insertId v o)
  | many v => many (insertAll v b.ids)

/-- the `while let Some(value) = it.next()` loop of `Extend<Idx> for Datasets`.  NB (as in the code):
once `self` has become `Many` inside the loop, the next iteration pops one value from the iterator
and then extends with *the rest* — the popped value is dropped. -/
def extendLoop : Datasets → List Nat → Datasets
  | d, [] => d
  | empty, v :: it => extendLoop (unique v) it
  | unique u, v :: it =>
    if u ≠ v then extendLoop (many (insertId v (insertId u []))) it else extendLoop (unique u) it
  | many vs, _ :: it => many (insertAll vs it)

/-- `Extend<Idx> for Datasets` -/
def extend (a : Datasets) (it : List Nat) : Datasets :=
  match a with
  | many vs => many (insertAll vs it)
  | a => extendLoop a it

end Datasets

/-! ### byte codec -/

/-- the roaring serialisation of `Many`, a parameter of the model -/
structure ManyCodec where
  enc : List Nat → Bytes
  dec : Bytes → List Nat

def u32le (v : Nat) : Bytes := [v % 256, v / 256 % 256, v / 65536 % 256, v / 16777216 % 256]

/-- `read_u32::<LittleEndian>` of the first four bytes -/
def readU32le : Bytes → Nat
  | b0 :: b1 :: b2 :: b3 :: _ => b0 + 256 * b1 + 65536 * b2 + 16777216 * b3
  | _ => 0

namespace Datasets

/-- `Datasets::as_bytes` -/
def asBytes (c : ManyCodec) : Datasets → Bytes
  | empty => [42]
  | unique v => u32le v ++ [0, 0, 0, 0]
  | many vs => c.enc vs

/-- `Datasets::from_slice`: discriminated by length 8 / 1 / other -/
def fromSlice (c : ManyCodec) (bs : Bytes) : Datasets :=
  if bs.length = 8 then unique (readU32le bs)
  else if bs.length = 1 then empty
  else many (c.dec bs)

end Datasets

/-- `merge_datasets(_, existing_val, operands)`: decode existing or default, union every operand, encode -/
def mergeDatasets (c : ManyCodec) (existing : Option Bytes) (ops : List Bytes) : Bytes :=
  let start := match existing with
    | some b => Datasets.fromSlice c b
    | none => Datasets.empty
  (ops.foldl (fun acc op => acc.union (Datasets.fromSlice c op)) start).asBytes c

/-! ### RocksDB's associative merge as a merge tree

With `set_merge_operator_associative` the same function serves as full merge (`existing` = the stored
base value, if any) and as partial merge (`existing = None`, result is a new operand).  RocksDB may
combine any run of adjacent operands of a key by partial merges, nested to any depth (memtable
flush, compaction), and finishes with a full merge against the base value; the result of a full merge
becomes the base value of later ones. -/
inductive MTree where
  | leaf (operand : Bytes)
  | node (children : List MTree)

mutual
/-- the operand a subtree collapses to -/
def MTree.eval (c : ManyCodec) : MTree → Bytes
  | .leaf b => b
  | .node ts => mergeDatasets c none (MTree.evalList c ts)
def MTree.evalList (c : ManyCodec) : List MTree → List Bytes
  | [] => []
  | t :: ts => t.eval c :: MTree.evalList c ts
end

mutual
/-- the written operands below a subtree, left to right -/
def MTree.leaves : MTree → List Bytes
  | .leaf b => [b]
  | .node ts => MTree.leavesList ts
def MTree.leavesList : List MTree → List Bytes
  | [] => []
  | t :: ts => t.leaves ++ MTree.leavesList ts
end

/-- one full merge of a group of (partially merged) operands against the current value -/
def fullMerge (c : ManyCodec) (existing : Option Bytes) (group : List MTree) : Option Bytes :=
  some (mergeDatasets c existing (MTree.evalList c group))

/-- the value of a key after a succession of full merges (compactions / reads) -/
def evalKey (c : ManyCodec) (existing : Option Bytes) (groups : List (List MTree)) : Option Bytes :=
  groups.foldl (fullMerge c) existing

def forestLeaves (groups : List (List MTree)) : List Bytes :=
  (groups.map MTree.leavesList).flatten

/-- what a reader sees under a key: absent = no dataset -/
def lookupIds (c : ManyCodec) : Option Bytes → List Nat
  | none => []
  | some b => (Datasets.fromSlice c b).ids

/-! ### executable roaring codec (roaring-rs 0.10.6 `serialize_into`, portable no-run format) -/

def u16le (v : Nat) : Bytes := [v % 256, v / 256 % 256]

/-- split a sorted id list into containers (key = id / 65536, values = id % 65536) -/
def containers : List Nat → List (Nat × List Nat)
  | [] => []
  | v :: vs =>
    match containers vs with
    | (k, xs) :: rest => if k = v / 65536 then (k, v % 65536 :: xs) :: rest else (v / 65536, [v % 65536]) :: (k, xs) :: rest
    | [] => [(v / 65536, [v % 65536])]

/-- 8192 bytes of a bitmap container: byte `i` holds members `8i .. 8i+7` -/
def bitmapBytes (xs : List Nat) : Bytes :=
  let arr := xs.foldl (fun (a : Array Nat) x => a.modify (x / 8) (· + 2 ^ (x % 8))) (Array.replicate 8192 0)
  arr.toList

def containerData (xs : List Nat) : Bytes :=
  if xs.length > 4096 then bitmapBytes xs else xs.flatMap u16le

def roaringEnc (vs : List Nat) : Bytes :=
  let cs := containers vs
  let header := u32le 12346 ++ u32le cs.length
  let descr := cs.flatMap (fun (k, xs) => u16le k ++ u16le (xs.length - 1))
  let datas := cs.map (fun (_, xs) => containerData xs)
  let offsets := (datas.foldl (fun (acc : Nat × List Bytes) d => (acc.1 + d.length, u32le acc.1 :: acc.2))
    (8 + 8 * cs.length, [])).2.reverse.flatten
  header ++ descr ++ offsets ++ datas.flatten

def readU16le : Bytes → Nat
  | b0 :: b1 :: _ => b0 + 256 * b1
  | _ => 0

def bitsOf (byte base : Nat) : List Nat :=
  (List.range 8).filterMap (fun i => if byte / 2 ^ i % 2 = 1 then some (base + i) else none)

/-- `n` little-endian u16 values from the front of a byte string, and the rest -/
def takeU16s : Nat → Bytes → List Nat × Bytes
  | 0, bs => ([], bs)
  | n + 1, b0 :: b1 :: rest =>
    let r := takeU16s n rest
    ((b0 + 256 * b1) :: r.1, r.2)
  | _, bs => ([], bs)

/-- members of a bitmap container given its bytes, ascending -/
def bitmapVals : Bytes → Nat → List Nat
  | [], _ => []
  | b :: rest, base => bitsOf b base ++ bitmapVals rest (base + 8)

/-- decoder for the same format (cookie 12346 only; anything else decodes to the empty list) -/
def roaringDec (bs : Bytes) : List Nat :=
  if readU32le bs ≠ 12346 then [] else
  let n := readU32le (bs.drop 4)
  let descr := (takeU16s (2 * n) (bs.drop 8)).1
  let rec pairs : List Nat → List (Nat × Nat)
    | k :: c :: t => (k, c + 1) :: pairs t
    | _ => []
  let data := bs.drop (8 + 8 * n)
  ((pairs descr).foldl (fun (acc : List (List Nat) × Bytes) (kc : Nat × Nat) =>
    if kc.2 > 4096 then
      ((bitmapVals (acc.2.take 8192) 0).map (· + 65536 * kc.1) :: acc.1, acc.2.drop 8192)
    else
      let r := takeU16s kc.2 acc.2
      (r.1.map (· + 65536 * kc.1) :: acc.1, r.2)) ([], data)).1.reverse.flatten

def roaringCodec : ManyCodec := { enc := roaringEnc, dec := roaringDec }

/-- a transparent codec satisfying the two assumptions (length-prefixed, padded away from lengths 1
and 8): shows the assumptions are satisfiable; not what the crate writes -/
def listCodec : ManyCodec :=
  { enc := fun vs => 0 :: 0 :: 0 :: 0 :: 0 :: 0 :: 0 :: 0 :: 0 :: vs
    dec := fun bs => bs.drop 9 }

end RevIdx
