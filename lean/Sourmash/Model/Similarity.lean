import Sourmash.Model.Scaled
/-!
Model/Similarity.lean — property C05.  Executable model of the comparison functions of
`src/core/src/sketch/minhash.rs` as they are in /repo now, for both container types:

* the free two-pointer functions `intersection` / `intersection_size`,
* the `Intersection` iterator (used by `count_common` and by the num branch),
* `merge` restricted to the hash column (vector: asymmetric while-loop + `truncate`; tree:
  `BTreeSet::union(..).take(num)`), which the num branch of `intersection_size` uses to build the
  combined bottom-`num` sketch,
* `count_common`, `intersection_size`, `jaccard`, `angular_similarity` (vector: index walk with the
  unchecked accesses modelled by `[i]?`; tree: map look-ups), `similarity` with its downsample path,
* the `Comparable` impls (`similarity = mh.similarity(omh, true, false).unwrap()`,
  `containment = count_common / size`),
* the C API exports over these (`ffi/minhash.rs`): pass-through except
  `kmerminhash_intersection_union_size`, which swallows every error into `(0, 0)`.

A sketch is its parameter block plus `mins` (strictly increasing) and an optional abundance list
aligned with `mins` (vector: the two `Vec`s; tree: the `BTreeSet` in iteration order and the values
of the `BTreeMap` in key order).  Only `Sourmash.Model.Scaled` is imported (for `scaled()` and the
ceiling a downsampled copy gets); no other model is used.

Every function is split into an integer core (what the theorems of `Theorems/C05.lean` are about)
and a float tail written once over the small class `RealLike`, instantiated with `Float` here
(driver, bit-for-bit differential run) and with `ℝ` in `Lemmas/SimilarityReal.lean`.
-/
namespace Similarity

/-! ## errors and parameters -/

inductive Err
  | MismatchKSizes | MismatchDNAProt | MismatchScaled | MismatchSeed
  | NeedsAbundanceTracking | CannotUpsampleScaled
  /-- not an error value of the crate: the vector walk of `angular_similarity` read an abundance
      vector out of range (`get_unchecked`, undefined behaviour).  `Theorems/C05.lean` proves it
      cannot happen when the abundance vectors are aligned with the hash vectors. -/
  | UncheckedIndexOutOfRange
  deriving DecidableEq, Repr

def Err.name : Err → String
  | .MismatchKSizes => "MismatchKSizes"
  | .MismatchDNAProt => "MismatchDNAProt"
  | .MismatchScaled => "MismatchScaled"
  | .MismatchSeed => "MismatchSeed"
  | .NeedsAbundanceTracking => "NeedsAbundanceTracking"
  | .CannotUpsampleScaled => "CannotUpsampleScaled"
  | .UncheckedIndexOutOfRange => "UB-unchecked-index-out-of-range"

inductive Container | vec | tree
  deriving DecidableEq, Repr

structure Sketch where
  num : Nat
  ksize : Nat
  /-- hash function, as a code (0 dna, 1 protein, 2 dayhoff, 3 hp) -/
  hf : Nat
  seed : Nat
  maxHash : Nat
  mins : List Nat
  abunds : Option (List Nat)

def Sketch.tracked (s : Sketch) : Bool := s.abunds.isSome
def Sketch.scaled (s : Sketch) : Nat := Scaled.scaledForMaxHash s.maxHash
def Sketch.size (s : Sketch) : Nat := s.mins.length

/-- `check_compatible`: ksize, hash function, max_hash, seed — in this order; `num` is not compared. -/
def checkCompatible (a b : Sketch) : Except Err Unit :=
  if a.ksize ≠ b.ksize then .error .MismatchKSizes
  else if a.hf ≠ b.hf then .error .MismatchDNAProt
  else if a.maxHash ≠ b.maxHash then .error .MismatchScaled
  else if a.seed ≠ b.seed then .error .MismatchSeed
  else .ok ()

/-! ## two-pointer walks over strictly increasing hash lists -/

/-- the free function `intersection_size(me, other)`: `(common, union_size)`; five branches as in
    the code (`Less`, `Greater`, `Equal`, left exhausted, right exhausted). -/
def isize : List Nat → List Nat → Nat × Nat
  | [], [] => (0, 0)
  | [], _ :: ys => let r := isize [] ys; (r.1, r.2 + 1)
  | _ :: xs, [] => let r := isize xs []; (r.1, r.2 + 1)
  | x :: xs, y :: ys =>
    if x < y then let r := isize xs (y :: ys); (r.1, r.2 + 1)
    else if y < x then let r := isize (x :: xs) ys; (r.1, r.2 + 1)
    else let r := isize xs ys; (r.1 + 1, r.2 + 1)
termination_by a b => a.length + b.length

/-- the free function `intersection(me, other)`: `(common hashes, union_size)` -/
def isect : List Nat → List Nat → List Nat × Nat
  | [], [] => ([], 0)
  | [], _ :: ys => let r := isect [] ys; (r.1, r.2 + 1)
  | _ :: xs, [] => let r := isect xs []; (r.1, r.2 + 1)
  | x :: xs, y :: ys =>
    if x < y then let r := isect xs (y :: ys); (r.1, r.2 + 1)
    else if y < x then let r := isect (x :: xs) ys; (r.1, r.2 + 1)
    else let r := isect xs ys; (x :: r.1, r.2 + 1)
termination_by a b => a.length + b.length

/-- the `Intersection` iterator, collected: stops as soon as either side is exhausted -/
def interIter : List Nat → List Nat → List Nat
  | [], _ => []
  | _ :: _, [] => []
  | x :: xs, y :: ys =>
    if x < y then interIter xs (y :: ys)
    else if y < x then interIter (x :: xs) ys
    else x :: interIter xs ys
termination_by a b => a.length + b.length

/-- hash column of `KmerMinHash::merge` before truncation: loop while `self` has a value
    (`other` exhausted → rest of self; `x < value`; `x == value`; `x > value`), then the rest of `other`. -/
def mergeWalk : List Nat → List Nat → List Nat
  | [], ys => ys
  | x :: xs, [] => x :: xs
  | x :: xs, y :: ys =>
    if y < x then y :: mergeWalk (x :: xs) ys
    else if y = x then y :: mergeWalk xs ys
    else x :: mergeWalk xs (y :: ys)
termination_by a b => a.length + b.length

/-- `KmerMinHash::merge`, hash column: truncate to `self.num` when it is non-zero and exceeded -/
def mergeVec (selfNum : Nat) (self other : List Nat) : List Nat :=
  let m := mergeWalk self other
  if m.length > selfNum ∧ selfNum ≠ 0 then m.take selfNum else m

/-- `BTreeSet::union` in iteration order (`Less` → left, `Greater` → right, `Equal` → left once) -/
def treeUnion : List Nat → List Nat → List Nat
  | [], ys => ys
  | x :: xs, [] => x :: xs
  | x :: xs, y :: ys =>
    if x < y then x :: treeUnion xs (y :: ys)
    else if y < x then y :: treeUnion (x :: xs) ys
    else x :: treeUnion xs ys
termination_by a b => a.length + b.length

/-- `KmerMinHashBTree::merge`, hash column: `union.take(if num == 0 {usize::MAX} else {num})` -/
def mergeTree (selfNum : Nat) (self other : List Nat) : List Nat :=
  if selfNum = 0 then treeUnion self other else (treeUnion self other).take selfNum

def mergeMins : Container → Nat → List Nat → List Nat → List Nat
  | .vec => mergeVec
  | .tree => mergeTree

/-- the combined sketch of the num branch: `new(.., num)`, `merge(self)`, `merge(other)` -/
def combined (c : Container) (n : Nat) (a b : List Nat) : List Nat :=
  mergeMins c n (mergeMins c n [] a) b

/-- num branch of `intersection_size`: `((a ∩ b) ∩ combined).count()`, `combined.len()` -/
def isizeNum (c : Container) (n : Nat) (a b : List Nat) : Nat × Nat :=
  let comb := combined c n a b
  ((interIter (interIter a b) comb).length, comb.length)

def isectNum (c : Container) (n : Nat) (a b : List Nat) : List Nat × Nat :=
  let comb := combined c n a b
  (interIter (interIter a b) comb, comb.length)

/-- `count_common` without the downsample path: the shorter side is handed to the iterator first -/
def countCommonMins (a b : List Nat) : Nat :=
  if a.length < b.length then (interIter a b).length else (interIter b a).length

/-! ## abundance-weighted walk -/

def sumSq : List Nat → Nat
  | [] => 0
  | x :: xs => x * x + sumSq xs

/-- the loop of `KmerMinHash::angular_similarity`.  `i` is the index of the head of the remaining
    `self.mins`, `j` the index of `next_hash` (head of the remaining `other.mins`).  `Equal` adds the
    product and breaks *without* advancing `other`; the two `get_unchecked` are `[i]?` here and an
    out-of-range access makes the result `none`. -/
def angWalk (aab bab : List Nat) : Nat → List Nat → Nat → List Nat → Nat → Option Nat
  | _, [], _, _, prod => some prod
  | _, _ :: _, _, [], prod => some prod
  | i, h :: hs, j, k :: ks, prod =>
    if k < h then angWalk aab bab i (h :: hs) (j + 1) ks prod
    else if k = h then
      match aab[i]?, bab[j]? with
      | some x, some y => angWalk aab bab (i + 1) hs j (k :: ks) (prod + x * y)
      | _, _ => none
    else angWalk aab bab (i + 1) hs j (k :: ks) prod
termination_by _ hs _ ks _ => hs.length + ks.length

/-- the loop of `KmerMinHashBTree::angular_similarity`: for every `(hash, value)` of `self.abunds`
    look the hash up in `other.abunds` -/
def dotLookup : List (Nat × Nat) → List (Nat × Nat) → Nat
  | [], _ => 0
  | (h, x) :: as, B =>
    (match B.lookup h with
     | some y => x * y
     | none => 0) + dotLookup as B

/-! ## sketch-level functions (integer cores) -/

/-- what the float tail is applied to -/
inductive SimCore
  /-- `common as f64 / max(1, size) as f64` -/
  | jaccard (common size : Nat)
  /-- the `Ok(0.0)` of `jaccard` when `intersection_size` fails after `check_compatible` passed -/
  | zero
  /-- `(prod, a_sq, b_sq)` -/
  | angular (prod aSq bSq : Nat)
  deriving DecidableEq, Repr

/-- `intersection_size`: `check_compatible`, then the num branch when `self.num != 0` (the combined
    sketch is created with `self.scaled()`, so its two `merge` calls re-check compatibility against a
    ceiling that went through the scaled round trip), else the free two-pointer function. -/
def intersectionSize (c : Container) (a b : Sketch) : Except Err (Nat × Nat) := do
  checkCompatible a b
  if a.num ≠ 0 then
    if Scaled.maxHashForScaled a.scaled ≠ a.maxHash then .error .MismatchScaled
    else .ok (isizeNum c a.num a.mins b.mins)
  else .ok (isize a.mins b.mins)

def intersection (c : Container) (a b : Sketch) : Except Err (List Nat × Nat) := do
  checkCompatible a b
  if a.num ≠ 0 then
    if Scaled.maxHashForScaled a.scaled ≠ a.maxHash then .error .MismatchScaled
    else .ok (isectNum c a.num a.mins b.mins)
  else .ok (isect a.mins b.mins)

def jaccardCore (c : Container) (a b : Sketch) : Except Err SimCore := do
  checkCompatible a b
  match intersectionSize c a b with
  | .ok (common, size) => .ok (.jaccard common size)
  | .error _ => .ok .zero

def angularCore (c : Container) (a b : Sketch) : Except Err SimCore := do
  checkCompatible a b
  match a.abunds, b.abunds with
  | some aab, some bab =>
    match c with
    | .vec =>
      match angWalk aab bab 0 a.mins 0 b.mins 0 with
      | some prod => .ok (.angular prod (sumSq aab) (sumSq bab))
      | none => .error .UncheckedIndexOutOfRange
    | .tree => .ok (.angular (dotLookup (a.mins.zip aab) (b.mins.zip bab)) (sumSq aab) (sumSq bab))
  | _, _ => .error .NeedsAbundanceTracking

/-- `downsample_scaled(s)` as `similarity` / `count_common` use it (on a clone).  The copy is rebuilt
    by adding the hashes in increasing order to `new(s, .., num)`: hashes above the new ceiling are
    dropped, and a pair with abundance 0 is dropped too (vector: `remove_hash` of an absent hash;
    tree: early return).  (Exact for `num == 0`, which is what reaches this path with two different
    non-zero `scaled()`; the new ceiling is never 0 for `s ≥ 1`.) -/
def downsampleScaled (a : Sketch) (s : Nat) : Except Err Sketch :=
  if a.scaled = s ∨ a.scaled = 0 then .ok a
  else if a.scaled > s then .error .CannotUpsampleScaled
  else
    let m := Scaled.maxHashForScaled s
    match a.abunds with
    | some ab =>
      let kept := (a.mins.zip ab).filter (fun p => p.1 ≤ m && p.2 ≠ 0)
      .ok { a with maxHash := m, mins := kept.map (·.1), abunds := some (kept.map (·.2)) }
    | none => .ok { a with maxHash := m, mins := a.mins.filter (· ≤ m) }

/-- `similarity(other, ignore_abundance, false)` -/
def similarityFlat (c : Container) (a b : Sketch) (ignoreAbundance : Bool) : Except Err SimCore :=
  if ignoreAbundance ∨ !a.tracked ∨ !b.tracked then jaccardCore c a b else angularCore c a b

/-- `similarity(other, ignore_abundance, downsample)` -/
def similarityCore (c : Container) (a b : Sketch) (ignoreAbundance downsample : Bool) :
    Except Err SimCore :=
  if downsample ∧ a.scaled ≠ b.scaled then
    let (first, second) := if a.scaled > b.scaled then (a, b) else (b, a)
    do let d ← downsampleScaled second first.scaled
       similarityFlat c first d ignoreAbundance
  else similarityFlat c a b ignoreAbundance

def countCommonFlat (a b : Sketch) : Except Err Nat := do
  checkCompatible a b
  .ok (countCommonMins a.mins b.mins)

/-- `count_common(other, downsample)` (identical code in both containers) -/
def countCommon (a b : Sketch) (downsample : Bool) : Except Err Nat :=
  if downsample ∧ a.scaled ≠ b.scaled then
    let (first, second) := if a.scaled > b.scaled then (a, b) else (b, a)
    do let d ← downsampleScaled second first.scaled
       countCommonFlat first d
  else countCommonFlat a b

/-- the integer pair behind `Comparable::containment`: `(count_common(other, false), self.size())` -/
def containmentPair (a b : Sketch) : Except Err (Nat × Nat) := do
  let c ← countCommon a b false
  .ok (c, a.size)

/-! ## the C API (`src/core/src/ffi/minhash.rs`)

`kmerminhash_jaccard`, `kmerminhash_angular_similarity`, `kmerminhash_similarity` and
`kmerminhash_count_common` hand their two `KmerMinHash` handles to the method of the same name and
pass the `Result` on (the landing pad turns `Err` into the thread-local error code), so their model is
`jaccardCore .vec`, `angularCore .vec`, `similarityCore .vec`, `countCommon`.  One export differs: -/

/-- `kmerminhash_intersection_union_size`: `(common, *union_size)`; every error of
    `intersection_size` — an incompatibility included — is swallowed into `(0, 0)` -/
def ffiIntersectionUnionSize (a b : Sketch) : Nat × Nat :=
  match intersectionSize .vec a b with
  | .ok p => p
  | .error _ => (0, 0)

/-! ## float tails, written once -/

class RealLike (α : Type) where
  ofNat : Nat → α
  sub : α → α → α
  mul : α → α → α
  div : α → α → α
  sqrt : α → α
  acos : α → α
  min : α → α → α
  pi : α
  isZero : α → Bool

/-- `common as f64 / u64::max(1, size) as f64` -/
def jaccardTail {α : Type} [RealLike α] (common size : Nat) : α :=
  RealLike.div (RealLike.ofNat common) (RealLike.ofNat (max 1 size))

/-- `common as f64 / size as f64` of `Comparable::containment` (no guard: 0/0 for an empty `self`) -/
def containmentTail {α : Type} [RealLike α] (common size : Nat) : α :=
  RealLike.div (RealLike.ofNat common) (RealLike.ofNat size)

/-- the tail of `angular_similarity`: zero norm → 0.0; else
    `1 - 2*acos(min(prod / (sqrt a_sq * sqrt b_sq), 1)) / PI` -/
def angularTail {α : Type} [RealLike α] (prod aSq bSq : Nat) : α :=
  let na : α := RealLike.sqrt (RealLike.ofNat aSq)
  let nb : α := RealLike.sqrt (RealLike.ofNat bSq)
  if RealLike.isZero na || RealLike.isZero nb then RealLike.ofNat 0
  else
    let c : α := RealLike.min (RealLike.div (RealLike.ofNat prod) (RealLike.mul na nb)) (RealLike.ofNat 1)
    RealLike.sub (RealLike.ofNat 1)
      (RealLike.div (RealLike.mul (RealLike.ofNat 2) (RealLike.acos c)) RealLike.pi)

def simTail {α : Type} [RealLike α] : SimCore → α
  | .jaccard c s => jaccardTail c s
  | .zero => RealLike.ofNat 0
  | .angular p a b => angularTail p a b

/-- binary64: `u64 as f64` is the C cast (round to nearest even), `f64::min(x, 1.)` on non-NaN
    operands, `std::f64::consts::PI` -/
instance : RealLike Float where
  ofNat n := n.toUInt64.toFloat
  sub := (· - ·)
  mul := (· * ·)
  div := (· / ·)
  sqrt := Float.sqrt
  acos := Float.acos
  min x y := if x ≤ y then x else y
  pi := Float.ofBits 0x400921FB54442D18
  isZero x := x == 0.0

end Similarity
