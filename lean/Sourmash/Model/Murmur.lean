/-! Model/Murmur.lean — MurmurHash3 x64_128, low word = sourmash::_hash_murmur -/
namespace Murmur

@[inline] def rotl64 (x : UInt64) (r : UInt64) : UInt64 := (x <<< r) ||| (x >>> (64 - r))

@[inline] def fmix64 (k : UInt64) : UInt64 :=
  let k := k ^^^ (k >>> 33)
  let k := k * 0xff51afd7ed558ccd
  let k := k ^^^ (k >>> 33)
  let k := k * 0xc4ceb9fe1a85ec53
  k ^^^ (k >>> 33)

def c1 : UInt64 := 0x87c37b91114253d5
def c2 : UInt64 := 0x4cf5ad432745937f

def le64 (bs : List UInt8) : UInt64 :=
  (bs.foldr (fun b acc => (acc <<< 8) ||| b.toUInt64) 0)

def mixK1 (k1 : UInt64) : UInt64 := (rotl64 (k1 * c1) 31) * c2
def mixK2 (k2 : UInt64) : UInt64 := (rotl64 (k2 * c2) 33) * c1

/-- body over 16-byte blocks, structural via fuel = number of blocks -/
def body : Nat → List UInt8 → UInt64 → UInt64 → (UInt64 × UInt64 × List UInt8)
  | 0, bs, h1, h2 => (h1, h2, bs)
  | n+1, bs, h1, h2 =>
    let k1 := le64 (bs.take 8)
    let k2 := le64 ((bs.drop 8).take 8)
    let h1 := h1 ^^^ mixK1 k1
    let h1 := rotl64 h1 27
    let h1 := h1 + h2
    let h1 := h1 * 5 + 0x52dce729
    let h2 := h2 ^^^ mixK2 k2
    let h2 := rotl64 h2 31
    let h2 := h2 + h1
    let h2 := h2 * 5 + 0x38495ab5
    body n (bs.drop 16) h1 h2

def hash128 (data : List UInt8) (seed : UInt64) : UInt64 × UInt64 :=
  let len := data.length
  let (h1, h2, tail) := body (len / 16) data seed seed
  let k2 := le64 (tail.drop 8)
  let k1 := le64 (tail.take 8)
  let h2 := if tail.length > 8 then h2 ^^^ mixK2 k2 else h2
  let h1 := if tail.length > 0 then h1 ^^^ mixK1 k1 else h1
  let h1 := h1 ^^^ len.toUInt64
  let h2 := h2 ^^^ len.toUInt64
  let h1 := h1 + h2
  let h2 := h2 + h1
  let h1 := fmix64 h1
  let h2 := fmix64 h2
  let h1 := h1 + h2
  let h2 := h2 + h1
  (h1, h2)

def hash64 (data : List UInt8) (seed : UInt64) : UInt64 := (hash128 data seed).1

end Murmur
